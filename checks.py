"""Check registry for vk: aggregates checks/<ID>.py (each defines CHECK = {...})."""
import glob, importlib.util, os

# Checks that are finished and claimed in MANIFEST.json. A checks/<ID>.py that is still being
# built is loadable by `vk check <ID>` but not claimed until listed here.
CLAIMED = ["C01", "C02", "C03", "C04", "C05", "C06", "C07", "C08", "C09", "C10", "C11", "C12", "C13", "C14", "C15", "C16", "C17", "C18", "C19", "C20"]

CHECKS = {}
_here = os.path.dirname(os.path.abspath(__file__))
for _p in sorted(glob.glob(os.path.join(_here, "checks", "C*.py"))):
    _id = os.path.basename(_p)[:-3]
    _spec = importlib.util.spec_from_file_location("vk_check_" + _id, _p)
    _m = importlib.util.module_from_spec(_spec)
    _spec.loader.exec_module(_m)
    CHECKS[_id] = _m.CHECK

# properties deliberately not claimed: id -> reason
NOT_APPLICABLE = {}
