//go:build verif

package h_c08

// C08, unit `race` — the cached-hit branch of processDelegation under the LEASE oracle.
//
// With sequential asks searchCache always starts at the deepest live delegation, so `r.delegations.Get(key)` inside
// processDelegation never hits and resolveWithCachedNameservers (which folds the table entry's deadline into the cut
// of the descent) is dead code for the BFS units. Here 2 client resolutions run CONCURRENTLY: every upstream query is
// parked by a gate in front of each authsim server (lib/h_c07's race design, copied in zz_verif_c08_race_gate_test.go)
// and the explorer's alphabet at every quiescent point is
//
//	release parked query i | advance the virtual clock by d | the parent re-points / withdraws c.p. (once)
//
// explored depth-first over EVERY sequence, each replayed from pl.Reset()+vtime.SetOffset(0). The table entry found
// in the branch then honestly differs from the referral the second resolution has just observed: it is OLDER (the
// clock moved between the two referrals), it names the OLD servers (the parent changed in between), or it was stored
// under a LONGER ancestor cut (family `ancestor`: one client descends through a parent entry that is about to expire,
// the other through a fresh one).
//
// The oracle is h_c08's own: the exchanges of each concurrent resolution (virtual instant = ARRIVAL at the gate) are
// folded into the reference lease model with vkRef.window, then sequential follow-up asks — immediately, and after
// advancing the clock just past each reference deadline that is still to come — are judged by the per-reply oracle
// (vkWorld.query): nothing learned through a delegation is served from memory after the lease it was learned under,
// no old server is contacted from memory after its lease.

import (
	"encoding/json"
	"fmt"
	"os"
	"sort"
	"strings"
	"sync"
	"testing"
	"time"

	"github.com/miekg/dns"
	"github.com/semihalev/sdns/internal/verifshim/h_resolver"
	"github.com/semihalev/sdns/internal/verifshim/vkit"
	"github.com/semihalev/sdns/internal/verifshim/vtime"
	"github.com/semihalev/sdns/internal/verifshim/zonemodel"
	"github.com/semihalev/sdns/middleware/resolver"
)

type vrScenario struct {
	Fam     string   `json:"fam"` // change | ancestor
	Cfg     vkCfg    `json:"cfg"`
	Clients []vkEv   `json:"clients"`
	Advs    []int    `json:"advs,omitempty"`    // clock advances offered between deliveries (seconds)
	MaxAdv  int      `json:"max_adv,omitempty"` // at most this many per execution
	Change  string   `json:"change,omitempty"`  // repoint | withdraw: offered once between deliveries
	Order   []string `json:"order,omitempty"`   // replay: the event order
}

func (s vrScenario) id() string {
	var cl []string
	for _, c := range s.Clients {
		cl = append(cl, c.String())
	}
	return fmt.Sprintf("%s {%s} clients[%s] advs%v<=%d change=%q", s.Fam, s.Cfg, strings.Join(cl, " || "), s.Advs, s.MaxAdv, s.Change)
}

// ---------------------------------------------------------------- world

type vrWorld struct {
	*vkWorld
	proxies map[string]*vrProxy
	special map[string]string
	c       *vkit.Ctx
}

var vrTheWorld *vrWorld

func vrGetWorld(c *vkit.Ctx) (*vrWorld, error) {
	if vrTheWorld != nil {
		vrTheWorld.c = c
		return vrTheWorld, nil
	}
	w, err := vkGetWorld(vkWorldKey{})
	if err != nil {
		return nil, err
	}
	rw := &vrWorld{vkWorld: w, proxies: map[string]*vrProxy{}, special: map[string]string{}, c: c}
	for name, srv := range w.u[vkPhaseOrig].Servers() {
		px, err := vrStartProxy(name, w.sim.Addr(name))
		if err != nil {
			return nil, err
		}
		rw.proxies[name] = px
		for _, a := range srv.Addrs {
			rw.special[a+":53"] = px.addr
		}
	}
	rw.special[w.sim.Addr(vkSrvRoot)] = rw.proxies[vkSrvRoot].addr // cfg.RootServers is authsim's loopback socket
	vrG.install()
	vrTheWorld = rw
	return rw, nil
}

func (w *vrWorld) remap(addr string) string {
	if t, ok := w.special[addr]; ok {
		return t
	}
	return w.sim.Remap(addr)
}

func (r *vkRef) clone() *vkRef {
	n := vkNewRef(r.w)
	for k, v := range r.lease {
		n.lease[k] = v
	}
	for k, v := range r.first {
		n.first[k] = v
	}
	for k, v := range r.data {
		n.data[k] = v
	}
	for k, v := range r.sub {
		n.sub[k] = v
	}
	for k, v := range r.neg {
		n.neg[k] = v
	}
	for k, v := range r.grant {
		n.grant[k] = v
	}
	for k, v := range r.addr {
		n.addr[k] = v
	}
	n.changed, n.lastAddr = r.changed, r.lastAddr
	return n
}

// ---------------------------------------------------------------- one execution

type vrClient struct {
	ev      vkEv
	started bool
	t0, t1  time.Time
	ex      []vkExchange
	reply   h_resolver.Reply
	first   int // index of its first delivery
}

type vrExec struct {
	order    []string
	sets     [][]string
	hits     []vrHit
	stab     int
	slow     bool
	err      string
	diverged bool
	viol     string
	class    string
	where    string
	outcome  string
	follow   []string
	digest   string
	nontriv  bool
}

// hitKinds: was the cached-hit branch taken, with a table entry whose deadline is EARLIER than the cut of the referral
// just observed (older), or LATER (longer: the entry was stored under a longer path minimum)?
func (e *vrExec) hitKinds() (any, older, longer bool) {
	for _, h := range e.hits {
		any = true
		if h.CachedRem < h.CutRem-0.5 {
			older = true
		}
		if h.CachedRem > h.CutRem+0.5 {
			longer = true
		}
	}
	return
}

func (w *vrWorld) owner(cl []*vrClient, qname string) *vrClient {
	for _, c := range cl {
		if c.started && zonemodel.Canon(c.ev.Name) == zonemodel.Canon(qname) {
			return c
		}
	}
	return nil
}

// run executes the scenario once from the cold state. The i-th event is prefix[i] while the prefix lasts, afterwards
// the first entry of the choice set (prefixOnly) — or the execution must end with the prefix (replay).
func (w *vrWorld) run(s vrScenario, prefix []string, prefixOnly bool) (ex vrExec) {
	vkBeat.Store(time.Now().UnixNano())
	realStart := time.Now()
	defer func() {
		// real time must stay far below the 1 s event granularity (as in the BFS units): a longer execution was disturbed
		if time.Since(realStart) > 700*time.Millisecond {
			ex.slow = true
		}
	}()
	vrG.setOpen(true)
	w.reset(s.Cfg)
	resolver.VerifSetResolveTarget(w.pl.Resolver(), w.remap)
	vrG.resetCounters()

	cl := make([]*vrClient, len(s.Clients))
	reqs := make([]*dns.Msg, len(s.Clients))
	for i, ev := range s.Clients {
		cl[i] = &vrClient{ev: ev, first: 1 << 30}
		reqs[i] = w.pl.Query(ev.Name, ev.Type, h_resolver.Flags{CD: ev.CD}) // built here: Query is not goroutine-safe
	}
	var wg sync.WaitGroup
	started := 0
	abort := func(msg string) vrExec {
		ex.err = msg
		vrG.setOpen(true)
		wg.Wait()
		return ex
	}
	seq := func(ev vkEv) bool { // a judged sequential step (gate open or nothing to park)
		st := w.apply(ev)
		if st.Elapsed > 300*time.Millisecond {
			ex.slow = true
		}
		if st.Viol != "" {
			ex.viol, ex.class, ex.where = st.Viol, st.Class, "prelude "+ev.String()
			return false
		}
		return true
	}
	start := func(i int) {
		c := cl[i]
		c.started, c.t0 = true, vtime.Now()
		started++
		wg.Add(1)
		go func() {
			defer wg.Done()
			c.reply = w.pl.AskMsg(reqs[i], "tcp")
			c.t1 = vtime.Now()
			vrG.mu.Lock()
			vrG.done++
			vrG.tick++
			vrG.mu.Unlock()
		}()
		w.c.Add("evaluations", 1)
	}
	settle := func() ([]string, bool, bool) {
		t0 := time.Now()
		set, finished, stab, err := vrG.settle(started)
		if err != nil {
			ex.err = err.Error()
			return nil, false, false
		}
		if time.Since(t0) > 300*time.Millisecond {
			ex.slow = true
		}
		if stab {
			ex.stab++
		}
		return set, finished, true
	}

	// ---- prelude
	warm := vkEv{K: "q", Name: "www.p.", Type: dns.TypeA}
	switch s.Fam {
	case "change":
		if !seq(warm) {
			return ex
		}
		vrG.resetCounters()
		vrG.setOpen(false)
		for i := range cl {
			start(i)
		}
	case "ancestor":
		// p.'s delegation is cached with a short lease; client 1 starts while it still runs and is parked at p.'s server;
		// the lease ends; client 0 starts, finds nothing and goes to the root
		if !seq(warm) {
			return ex
		}
		seq(vkEv{K: "adv", D: int(s.Cfg.NS[0]) - 2})
		vrG.resetCounters()
		vrG.setOpen(false)
		start(1)
		if _, _, ok := settle(); !ok {
			return abort(ex.err)
		}
		vtime.Advance(3 * time.Second)
		start(0)
	default:
		return abort("unknown family " + s.Fam)
	}

	// ---- the explored part
	advs, changed := 0, false
	var pending *vrParked
	pendingN0 := 0
	for step := 0; ; step++ {
		set, finished, ok := settle()
		if !ok {
			return abort(ex.err)
		}
		if pending != nil {
			// what the released query produced: the exchange(s) the honest-responder hook recorded since — theirs is the
			// instant of ARRIVAL at the gate (an upper bound of when the previous referral of that client was observed)
			w.mu.Lock()
			fresh := append([]vkExchange(nil), w.vkWorld.ex[pendingN0:]...)
			w.mu.Unlock()
			o := w.owner(cl, pending.qname)
			if o == nil {
				return abort("upstream query " + pending.label + " belongs to no client")
			}
			for _, e := range fresh {
				e.At = pending.at
				o.ex = append(o.ex, e)
			}
			if o.first > step-1 {
				o.first = step - 1
			}
			pending = nil
		}
		if finished {
			break
		}
		if step > 100 {
			return abort("more than 100 events in one execution")
		}
		choices := append([]string(nil), set...)
		if advs < s.MaxAdv {
			for _, d := range s.Advs {
				choices = append(choices, fmt.Sprintf("adv:%d", d))
			}
		}
		if s.Change != "" && !changed {
			choices = append(choices, s.Change)
		}
		pick := choices[0]
		if step < len(prefix) {
			pick = ""
			for _, l := range choices {
				if l == prefix[step] {
					pick = l
				}
			}
			if pick == "" {
				ex.diverged = true
				return abort(fmt.Sprintf("order names %q at event %d, offered: %v", prefix[step], step, choices))
			}
		} else if !prefixOnly {
			return abort(fmt.Sprintf("replay order exhausted after %d events, still offered: %v", step, choices))
		}
		ex.sets = append(ex.sets, choices)
		ex.order = append(ex.order, pick)
		w.c.Add("transitions", 1)
		switch {
		case strings.HasPrefix(pick, "adv:"):
			var d int
			fmt.Sscanf(pick, "adv:%d", &d)
			vtime.Advance(time.Duration(d) * time.Second)
			advs++
		case pick == "repoint" || pick == "withdraw":
			w.apply(vkEv{K: pick})
			changed = true
		default:
			pendingN0 = len(w.exchanges())
			if pending = vrG.release(pick); pending == nil {
				return abort("parked query vanished: " + pick)
			}
		}
	}
	wg.Wait()
	vrG.mu.Lock()
	ex.hits = append([]vrHit(nil), vrG.hits...)
	vrG.mu.Unlock()
	vrG.setOpen(true)
	if lg := w.sim.Log(); len(lg) != len(w.exchanges()) {
		return abort(fmt.Sprintf("exchange record (%d) and authsim log (%d) disagree", len(w.exchanges()), len(lg)))
	}

	// ---- fold the concurrent resolutions into the reference (in the order of their first delivery; the reference is
	// permissive about which resolution published what: the other order is accepted as well)
	var rc []string
	for _, c := range cl {
		rc = append(rc, vkContent(c.ev, c.reply.Msg))
	}
	idx := make([]int, len(cl))
	for i := range idx {
		idx[i] = i
	}
	sort.SliceStable(idx, func(a, b int) bool { return cl[idx[a]].first < cl[idx[b]].first })
	orders := [][]int{idx}
	if len(idx) == 2 {
		orders = append(orders, []int{idx[1], idx[0]})
	}
	var firstViol, firstClass string
	folded := false
	for _, ord := range orders {
		ref := w.ref.clone()
		viol, class := "", ""
		for _, i := range ord {
			c := cl[i]
			learned, v, vc := ref.window(c.ex, c.t0, c.t1, false, nil)
			if v != "" {
				viol, class = fmt.Sprintf("concurrent resolution %s (started %s, ended %s): %s", c.ev, w.rel(c.t0), w.rel(c.t1), v), vc
				break
			}
			if m := c.reply.Msg; len(c.ex) > 0 && m != nil && m.Rcode != dns.RcodeServerFailure {
				ref.note(ref.data, vkDKey(c.ev.Name, c.ev.Type, c.ev.CD), learned, c.t1, fmt.Sprintf("%s at %s (concurrent)", c.ev, w.rel(c.t0)))
			}
		}
		if viol == "" {
			w.ref, folded = ref, true
			break
		}
		if firstViol == "" {
			firstViol, firstClass = viol, class
		}
	}
	if !folded {
		ex.viol, ex.class, ex.where = firstViol, firstClass, "concurrent phase"
	}

	// ---- sequential follow-ups, judged by the per-reply oracle
	ask := func(tag string) bool {
		for _, c := range cl {
			st := w.apply(c.ev)
			if st.Elapsed > 300*time.Millisecond {
				ex.slow = true
			}
			w.c.Add("evaluations", 1)
			ex.follow = append(ex.follow, fmt.Sprintf("%s@%s=%s", c.ev, w.rel(vtime.Now()), st.Outcome))
			if st.Viol != "" {
				if strings.HasPrefix(st.Class, "harness") {
					ex.err = st.Viol
				} else {
					ex.viol, ex.class, ex.where = st.Viol, st.Class, "follow-up "+tag
				}
				return false
			}
		}
		return true
	}
	var fl []string
	if ex.viol == "" && ask("right after the concurrent resolutions") {
		for round := 0; round < 4; round++ {
			now := vtime.Now()
			var next time.Time
			consider := func(d time.Time) {
				if d.After(now) && !d.Equal(vkForever) && d.Sub(now) < 13*time.Hour && (next.IsZero() || d.Before(next)) {
					next = d
				}
			}
			for _, d := range w.ref.lease {
				consider(d)
			}
			for _, d := range w.ref.data {
				consider(d.deadline)
			}
			if next.IsZero() {
				break
			}
			d := int(next.Sub(now)/time.Second) + 1
			vtime.Advance(time.Duration(d) * time.Second)
			fl = append(fl, fmt.Sprintf("+%ds", d))
			if !ask(fmt.Sprintf("after advancing to %s (just past the reference deadline %s)", w.rel(vtime.Now()), w.rel(next))) {
				break
			}
		}
	}
	if ex.err != "" {
		return ex
	}
	hit, older, longer := ex.hitKinds()
	hl := "no-table-hit"
	switch {
	case older && longer:
		hl = "table-hit:entry-older+entry-longer"
	case older:
		hl = "table-hit:entry-older-than-current-referral"
	case longer:
		hl = "table-hit:entry-outlives-current-cut"
	case hit:
		hl = "table-hit:same-deadline"
	}
	// the distinct follow-up outcomes (a set: the list itself differs with every clock position)
	seenFo := map[string]bool{}
	var fo []string
	for _, f := range ex.follow {
		if o := f[strings.LastIndex(f, "=")+1:]; !seenFo[o] {
			seenFo[o] = true
			fo = append(fo, o)
		}
	}
	sort.Strings(fo)
	ex.outcome = fmt.Sprintf("%s clients[%s] follow-ups[%s]", hl, strings.Join(rc, ","), strings.Join(fo, ","))
	if ex.viol != "" {
		ex.outcome = "VIOLATION " + ex.class + " | " + hl
	}
	ex.digest, ex.nontriv = w.digest()
	return ex
}

// ---------------------------------------------------------------- exploration (work list of event-order prefixes)

type vrTree struct {
	w      *vrWorld
	s      vrScenario
	todo   [][]string
	pushed map[string]bool
	sets   map[string]string
}

func vrKeyOf(p []string) string { return strings.Join(p, " > ") }

func (t *vrTree) push(p []string) {
	if k := vrKeyOf(p); !t.pushed[k] {
		t.pushed[k] = true
		t.todo = append(t.todo, append([]string(nil), p...))
	}
}

func (t *vrTree) explore(splitDepth int, own func(first []string) bool, stop func() bool, visit func(ex vrExec)) error {
	c := t.w.c
	t.pushed, t.sets = map[string]bool{}, map[string]string{}
	t.push(nil)
	for len(t.todo) > 0 {
		if stop() {
			return nil
		}
		p := t.todo[len(t.todo)-1]
		t.todo = t.todo[:len(t.todo)-1]
		if len(p) >= splitDepth && !own(p[:splitDepth]) {
			continue
		}
		var ex vrExec
		ok := false
		for try := 0; try < 5 && !ok; try++ {
			ex = t.w.run(t.s, p, true)
			switch {
			case ex.diverged:
				c.Add("rerun_prefix_not_replayable", 1)
			case ex.err != "":
				c.Add("rerun_harness_problem", 1)
				c.Note("rerun after: " + ex.err)
			case ex.slow:
				c.Add("rerun_slow", 1)
			default:
				ok = true
			}
		}
		if !ok {
			if ex.diverged {
				// the execution that showed this prefix was itself disturbed (e.g. the resolver re-sent a query after a
				// real-time timeout on a starved machine): it does not show again
				c.Add("prefixes_not_replayable", 1)
				c.Note(fmt.Sprintf("prefix seen once, not replayable in 5 attempts (%s): %s", t.s.id(), ex.err))
				continue
			}
			if ex.err == "" {
				ex.err = "execution stayed slow (a step took > 300 ms) in 5 attempts"
			}
			return fmt.Errorf("%s: %s", t.s.id(), ex.err)
		}
		for i := range ex.order {
			pk := vrKeyOf(ex.order[:i])
			sk := strings.Join(ex.sets[i], "|")
			if old, seen := t.sets[pk]; !seen {
				t.sets[pk] = sk
			} else if old != sk {
				c.Add("choice_sets_differing_on_replay", 1)
			}
			for _, alt := range ex.sets[i] {
				child := append(append([]string(nil), ex.order[:i]...), alt)
				if alt == ex.order[i] {
					t.pushed[vrKeyOf(child)] = true
				} else {
					t.push(child)
				}
			}
		}
		if !own(ex.order[:min(splitDepth, len(ex.order))]) {
			c.Add("prepass_executions", 1)
			continue
		}
		visit(ex)
	}
	return nil
}

// ---------------------------------------------------------------- test

func vrKey(s vrScenario, class string) string {
	k := fmt.Sprintf("C08:race/%s|fam=%s|beh=%s", class, s.Fam, s.Cfg.Beh)
	if s.Change != "" {
		k += "|change=" + s.Change
	}
	return k
}

func vrScenarios(thorough bool) []vrScenario {
	q := func(n string) vkEv { return vkEv{K: "q", Name: n, Type: dns.TypeA} }
	long := uint32(vkRecTTL)
	a, g, nx := q("www.c.p."), q("www.g.c.p."), q("nx.c.p.")
	var out []vrScenario
	// change: p. cached with a long lease; both clients start together and are parked at p.'s server
	for _, beh := range []string{"honest", "authns", "bigttl"} {
		for _, ch := range []string{"repoint", "withdraw"} {
			out = append(out, vrScenario{Fam: "change", Cfg: vkCfg{NS: [3]uint32{long, 6, long}, Beh: beh}, Clients: []vkEv{a, g}, Advs: []int{1, 3}, MaxAdv: 2, Change: ch})
		}
	}
	out = append(out, vrScenario{Fam: "change", Cfg: vkCfg{NS: [3]uint32{long, 6, long}, Beh: "honest"}, Clients: []vkEv{a, nx}, Advs: []int{1, 3}, MaxAdv: 2, Change: "repoint"})
	out = append(out, vrScenario{Fam: "change", Cfg: vkCfg{NS: [3]uint32{long, 40, long}, Beh: "honest"}, Clients: []vkEv{a, g}, Advs: []int{1, 20}, MaxAdv: 2, Change: "repoint"})
	out = append(out, vrScenario{Fam: "change", Cfg: vkCfg{NS: [3]uint32{long, 6, 2}, Beh: "honest"}, Clients: []vkEv{g, a}, Advs: []int{1, 3}, MaxAdv: 2, Change: "repoint"})
	// ancestor: p.'s own lease is the short one
	out = append(out, vrScenario{Fam: "ancestor", Cfg: vkCfg{NS: [3]uint32{6, 40, long}, Beh: "honest"}, Clients: []vkEv{a, g}, Advs: []int{1, 5}, MaxAdv: 1})
	out = append(out, vrScenario{Fam: "ancestor", Cfg: vkCfg{NS: [3]uint32{6, long, long}, Beh: "honest"}, Clients: []vkEv{a, nx}, Advs: []int{1, 5}, MaxAdv: 1})
	out = append(out, vrScenario{Fam: "ancestor", Cfg: vkCfg{NS: [3]uint32{6, 40, long}, Beh: "bigttl"}, Clients: []vkEv{g, a}, Advs: []int{1, 5}, MaxAdv: 1, Change: "repoint"})
	if thorough {
		for _, beh := range []string{"honest", "authns", "bigttl", "tinyttl", "selfref"} {
			for _, ch := range []string{"repoint", "withdraw"} {
				out = append(out, vrScenario{Fam: "change", Cfg: vkCfg{NS: [3]uint32{long, 6, long}, Beh: beh}, Clients: []vkEv{a, g}, Advs: []int{1, 3, 5}, MaxAdv: 2, Change: ch})
			}
			out = append(out, vrScenario{Fam: "change", Cfg: vkCfg{NS: [3]uint32{long, 6, long}, Beh: beh}, Clients: []vkEv{g, nx}, Advs: []int{1, 3}, MaxAdv: 2, Change: "repoint"})
			if beh == "honest" || beh == "bigttl" || beh == "selfref" {
				out = append(out, vrScenario{Fam: "ancestor", Cfg: vkCfg{NS: [3]uint32{6, 40, long}, Beh: beh}, Clients: []vkEv{a, g}, Advs: []int{1, 5}, MaxAdv: 2, Change: "repoint"})
			}
		}
		cd := g
		cd.CD = true
		out = append(out, vrScenario{Fam: "change", Cfg: vkCfg{NS: [3]uint32{long, 6, long}, Beh: "honest"}, Clients: []vkEv{a, cd}, Advs: []int{1, 3}, MaxAdv: 2, Change: "repoint"})
	}
	return out
}

func TestVerifC08Race(t *testing.T) {
	c := vkit.Init("C08/race")
	defer c.Close()
	vkWatchdog()
	w, err := vrGetWorld(c)
	if err != nil {
		c.HarnessError(err.Error())
		return
	}
	describe := func(s vrScenario, ex vrExec) string {
		var hits []string
		for _, h := range ex.hits {
			hits = append(hits, fmt.Sprintf("%s: table entry ends in %.1fs, cut of the referral just observed ends in %.1fs", h.Zone, h.CachedRem, h.CutRem))
		}
		return fmt.Sprintf("%s: %s || scenario: %s || event order (%d): %s || cached-hit branch of processDelegation: [%s] || follow-ups: %s || upstream: [%s]",
			ex.where, ex.viol, s.id(), len(ex.order), strings.Join(ex.order, "  >  "), strings.Join(hits, "; "), strings.Join(ex.follow, " "), vkExStr(w.exchanges()))
	}
	if c.Replay != nil {
		var s vrScenario
		if err := json.Unmarshal(c.Replay, &s); err != nil {
			c.HarnessError("bad replay: " + err.Error())
			return
		}
		ex := w.run(s, s.Order, false)
		if ex.err != "" {
			c.HarnessError(ex.err)
			return
		}
		if ex.viol != "" {
			c.Violation(vrKey(s, ex.class), describe(s, ex), s)
		}
		return
	}
	capped := false
	stop := func() bool {
		if !capped && c.OverBudget() {
			capped = true
		}
		return capped
	}
	const splitDepth = 2
	for _, s := range vrScenarios(c.Thorough()) {
		if stop() {
			break
		}
		type best struct{ ex vrExec }
		worst := map[string]*best{}
		sampled := false
		ndbg := 0
		own := func(first []string) bool { return c.Mine(int(vkit.Hash(s.id()+"|"+vrKeyOf(first)) % 1000003)) }
		tree := &vrTree{w: w, s: s}
		err := tree.explore(splitDepth, own, stop, func(ex vrExec) {
			c.Add("traces", 1)
			c.Add("executions", 1)
			c.Max("max_events", int64(len(ex.order)))
			c.Add("settled_by_stability", int64(ex.stab))
			ord := s.id() + "|" + vrKeyOf(ex.order)
			c.DistinctStr("orders", ord)
			c.DistinctStr("states", ex.digest)
			hit, older, longer := ex.hitKinds()
			if hit {
				c.Add("executions_cached_hit_branch", 1)
			}
			if older {
				c.Add("executions_cached_hit_entry_older_than_current_referral", 1)
			}
			if longer {
				c.Add("executions_cached_hit_entry_outlives_current_cut", 1)
			}
			if older || longer {
				c.DistinctStr("nontrivial", ord)
			}
			c.Outcome(s.Fam + ": " + ex.outcome)
			if ex.viol != "" {
				c.Add("executions_violating", 1)
				k := vrKey(s, ex.class)
				if b := worst[k]; b == nil || len(ex.order) < len(b.ex.order) {
					worst[k] = &best{ex: ex}
				}
			}
			if dbg := os.Getenv("VERIF_C08_RACE_DEBUG"); dbg != "" && ((dbg == "longer" && longer) || (dbg == "older" && older)) && ndbg < 3 {
				ndbg++
				ex.where, ex.viol = "debug", "-"
				fmt.Println("DEBUG", describe(s, ex), "|| digest:", ex.digest, "|| ref leases:", w.ref.lease, "|| data:", func() string {
					var p []string
					for k, d := range w.ref.data {
						p = append(p, k+"="+w.rel(d.deadline))
					}
					return strings.Join(p, " ")
				}())
			}
			if older && !sampled {
				sampled = true
				c.Sample(map[string]any{"scenario": s.id(), "event_order": ex.order, "cached_hits": ex.hits, "outcome": ex.outcome, "follow_ups": ex.follow})
			}
		})
		if err != nil {
			c.HarnessError(err.Error())
			return
		}
		var keys []string
		for k := range worst {
			keys = append(keys, k)
		}
		sort.Strings(keys)
		for _, k := range keys {
			b := worst[k]
			n := 0
			var last vrExec
			for i := 0; i < 3; i++ {
				ex := w.run(s, b.ex.order, false)
				if ex.err == "" && ex.viol != "" && ex.class == b.ex.class {
					n++
					last = ex
				}
			}
			if n < 3 {
				c.Add("dropped_unreproducible", 1)
				c.Note(fmt.Sprintf("dropped (reproduced %d/3): %s order %v: %s", n, k, b.ex.order, b.ex.viol[:min(len(b.ex.viol), 200)]))
				continue
			}
			rs := s
			rs.Order = b.ex.order
			c.Violation(k, describe(s, last), rs)
		}
	}
	if capped {
		c.Cap("time budget reached before every event order was explored")
	}
}
