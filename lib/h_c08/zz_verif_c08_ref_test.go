//go:build verif

package h_c08

// Reference lease model and oracle of C08.
//
// The reference knows nothing of sdns's data structures. It watches the
// upstream exchanges (what the authoritative side was asked and what it said,
// with the virtual instant of each query) and keeps
//
//	lease[zone|server]  the latest instant until which the delegation "zone is served by server" may be used:
//	                    observedAt + min(NS TTL, DS TTL when validating), min-folded with the lease of the zone that
//	                    issued the referral, 12 h ceiling. observedAt is bounded FROM ABOVE by the arrival of the next
//	                    upstream query (the resolver cannot send it before it has processed the referral) or the end of
//	                    the exchange window, so real-time jitter only makes the reference more permissive.
//	data[name|type|cd]  the latest instant until which the client-visible answer of that question may be served from
//	                    memory: the minimum lease over the delegations the resolution that learned it went through.
//	sub[name|type]      same for by-products of a resolution (DS / DNSKEY / NS-address sub-queries are stored under
//	                    their own keys).
//
// Every reading is a maximum over what was observed (permissive from above).
//
// Alias questions (a name below alias.p. DNAME c.p., or cn.p. / cnx.p. CNAME into c.p.): the reply is COMPOSED of the
// outer zone's alias records (learned through p.'s lineage) and of the leg — what the c.p. servers say about the
// target, an answer or a denial (learned through c.p.'s lineage). It is learned through BOTH lineages:
//
//	data[outer|type|cd]  the composed reply as one unit: min(lease of every delegation contacted in the ask,
//	                     and — when no c.p.-side exchange for the leg ran in the ask, i.e. the leg came from memory —
//	                     the deadline under which the leg was in memory at that instant)
//	sub[outer|type]      the outer records alone (p.'s lineage)
//
// and may be served from memory while EITHER reading allows it: data[outer] (an implementation that stores the composed
// reply) or min(sub[outer], what the leg's own question may be served under now) (an implementation that stores the
// alias and re-derives the leg from its own entry). TTLs shown are judged per lineage: the alias records (CNAME / DNAME
// owned outside c.p., and the signatures COVERING them) against the outer side, the target's records or the SOA / proof
// of its denial (the child's, or the parent's own after a withdrawal — with their signatures) against the leg's. A
// DANGLING alias — NOERROR, alias records only, no leg-side record at all (the leg could not be resolved) — serves
// nothing learned through c.p. and is judged against the outer lineage alone.

//
// NAME-SERVER ADDRESSES (space "nsaddr", VERIF_C08_NSADDR=1): p. delegates the stable sibling v.p. to the single host
// nsv.c.p. WITHOUT glue. Reaching a v.p. server therefore needs two things, learned through two lineages:
//
//	grant[v.p.]   the parent's referral "v.p. NS nsv.c.p." — lease as for every delegation (observedAt + min(NS, DS
//	              TTL), min-folded with p.'s lease, 12 h ceiling)
//	addr[server]  the binding "nsv.c.p. is at <server>" — an answer of a c.p. server, i.e. data LEARNED THROUGH c.p.'s
//	              delegation: its deadline is the lease of the c.p. delegation whose server said so (maximum over
//	              observations)
//
// A v.p. server may be contacted while the grant runs (or was observed in the same ask) AND while the address binding
// is usable: observed in the same ask, or its deadline is > t, or the parent has not changed c.p. at all (re-resolving
// would give the same address — the property only speaks about what happens once the parent withdraws / changes the
// delegation). Contacting a server behind an address whose lineage has ended after the parent's change is
// "stale-ns-address-used". Replies for v.p. names from the answer cache are judged against v.p.'s own lineage only
// (its delegation is intact), which is why two names exist: only fresh resolutions show which server is contacted.

import (
	"fmt"
	"sort"
	"strings"
	"time"

	"github.com/miekg/dns"
	"github.com/semihalev/sdns/internal/verifshim/h_resolver"
	"github.com/semihalev/sdns/internal/verifshim/vtime"
	"github.com/semihalev/sdns/internal/verifshim/zonemodel"
	"github.com/semihalev/sdns/middleware/cache"
	"github.com/semihalev/sdns/middleware/resolver"
)

const vkCeiling = 12 * time.Hour

var vkVerbose = false // smoke aid: keep the reply text of every step

var vkForever = time.Unix(1<<40, 0)

type vkDatum struct {
	deadline time.Time // lease-derived permissive deadline
	ttlEnd   time.Time // when its own TTL would end
	what     string
}

type vkRef struct {
	w       *vkWorld
	lease   map[string]time.Time
	first   map[string]time.Time // first observation's deadline per delegation (reporting only)
	data    map[string]*vkDatum
	sub     map[string]*vkDatum
	neg     map[string]*vkDatum // zone|server -> negative answers learned from that server (validated denials may be re-used for other names)
	changed time.Time           // instant of the parent's change (zero = none)

	grant    map[string]time.Time // glue-less delegation (v.p.) -> deadline of the parent's referral naming the NS host
	addr     map[string]*vkDatum  // v.p. server -> deadline of the binding "nsv.c.p. is at <server>" (lease of the c.p. delegation it was learned through)
	lastAddr string               // server of the binding observed last
}

func vkNewRef(w *vkWorld) *vkRef {
	return &vkRef{w: w, lease: map[string]time.Time{}, first: map[string]time.Time{}, data: map[string]*vkDatum{}, sub: map[string]*vkDatum{}, neg: map[string]*vkDatum{},
		grant: map[string]time.Time{}, addr: map[string]*vkDatum{}}
}

func vkDKey(name string, t uint16, cd bool) string {
	return fmt.Sprintf("%s|%s|cd%v", zonemodel.Canon(name), dns.TypeToString[t], cd)
}
func vkSKey(name string, t uint16) string {
	return fmt.Sprintf("%s|%s", zonemodel.Canon(name), dns.TypeToString[t])
}

func vkMinT(a, b time.Time) time.Time {
	if b.Before(a) {
		return b
	}
	return a
}

// window folds the upstream exchanges ex (one client ask, or the background
// refresh it triggered) that ran between virtual instants t0 and t1 into the
// reference. validating: the resolution validates (DNSSEC on and CD=0), so the
// DS TTL bounds the lease. It returns the lease under which the window's final
// answer was learned and a violation text ("" = none).
func (r *vkRef) window(ex []vkExchange, t0, t1 time.Time, validating bool, side func(vkExchange) bool) (time.Time, string, string) {
	fresh := map[string]time.Time{}
	freshGrant := map[string]time.Time{}
	freshAddr := map[string]time.Time{}
	lookup := func(zone, server string) (time.Time, bool, bool) { // deadline, known, fresh
		if zone == "." {
			return vkForever, true, true
		}
		k := zone + "|" + server
		if d, ok := fresh[k]; ok {
			return d, true, true
		}
		d, ok := r.lease[k]
		return d, ok, false
	}
	pathLease := vkForever
	for j, e := range ex {
		zone := vkServerZone(e.Server)
		d, known, isFresh := lookup(zone, e.Server)
		if zone == vkZoneV {
			// a server of the glue-less delegation: the parent's grant (NS side) ...
			g, grantFresh := freshGrant[zone]
			if !grantFresh {
				var ok bool
				if g, ok = r.grant[zone]; !ok || !g.After(t0) {
					what := "was never granted by the parent"
					if ok {
						what = "ended at " + r.w.rel(g)
					}
					return pathLease, fmt.Sprintf("delegation %s -> server %s used from memory at %s although its reference lease %s; exchange #%d %s of [%s]",
						zone, e.Server, r.w.rel(t0), what, j, e, vkExStr(ex)), "stale-delegation-used"
				}
			}
			// ... and the address of its name-server host (data learned through c.p.'s delegation)
			if _, ok := freshAddr[e.Server]; !ok {
				a := r.addr[e.Server]
				var why string
				switch {
				case a == nil:
					why = "no c.p. server was ever seen publishing that address for " + vkNSV
				case !r.changed.IsZero() && !a.deadline.After(t0):
					why = fmt.Sprintf("that address of %s was learned through c.p.'s delegation under a lease that ended at %s (%s) and the parent %s c.p. at %s",
						vkNSV, r.w.rel(a.deadline), a.what, map[int]string{vkPhaseWithdrawn: "withdrew", vkPhaseRepointed: "re-pointed"}[r.w.phase], r.w.rel(r.changed))
				}
				if why != "" {
					how := "the delegation entry of v.p. kept from an earlier referral"
					class := "stale-ns-address-used/cached-delegation"
					if grantFresh {
						how, class = "a referral for v.p. observed in this very ask (no glue, "+vkNSV+" not re-resolved)", "stale-ns-address-used/fresh-referral"
					}
					return pathLease, fmt.Sprintf("server %s contacted for %s at %s through %s: %s; exchange #%d %s of [%s]",
						e.Server, zone, r.w.rel(t0), how, why, j, e, vkExStr(ex)), class
				}
			}
			d = g
			pathLease = vkMinT(pathLease, d)
		} else if zone != "." {
			// (d)/(b): a delegation is used from memory only while its lease runs. The instant judged is the START of
			// the window: a resolution in flight may finish with the servers it holds.
			if !isFresh && (!known || !d.After(t0)) {
				what := "was never granted by the parent"
				if known {
					what = fmt.Sprintf("ended at %s (first grant ended at %s)", r.w.rel(d), r.w.rel(r.first[zone+"|"+e.Server]))
				}
				return pathLease, fmt.Sprintf("delegation %s -> server %s used from memory at %s although its reference lease %s; exchange #%d %s of [%s]",
					zone, e.Server, r.w.rel(t0), what, j, e, vkExStr(ex)), "stale-delegation-used"
			}
			if side == nil || !side(e) {
				pathLease = vkMinT(pathLease, d)
			}
		}
		if e.Referral != "" && e.NSHost != "" && e.Target == "" {
			// glue-less referral: the grant of the delegation (NS side); which server it leads to is the address binding's matter
			obs := t1
			if j+1 < len(ex) {
				obs = ex[j+1].At
			}
			ttl := e.NSTTL
			if validating && e.HasDS && e.DSTTL < ttl {
				ttl = e.DSTTL
			}
			cand := obs.Add(time.Duration(ttl) * time.Second)
			if c := obs.Add(vkCeiling); cand.After(c) {
				cand = c
			}
			cand = vkMinT(cand, d)
			if old, ok := freshGrant[e.Referral]; !ok || cand.After(old) {
				freshGrant[e.Referral] = cand
			}
		}
		if e.AddrOf != "" {
			// "nsv.c.p. is at <server>": learned through the c.p. delegation whose server was asked
			if old, ok := freshAddr[e.AddrOf]; !ok || d.After(old) {
				freshAddr[e.AddrOf] = d
			}
			if a := r.addr[e.AddrOf]; a == nil || d.After(a.deadline) {
				r.addr[e.AddrOf] = &vkDatum{deadline: d, ttlEnd: t1.Add(vkRecTTL * time.Second), what: e.String() + " at " + r.w.rel(e.At)}
			}
			r.lastAddr = e.AddrOf
		}
		if e.Referral != "" && e.Target != "" {
			obs := t1
			if j+1 < len(ex) {
				obs = ex[j+1].At
			}
			ttl := e.NSTTL
			if validating && e.HasDS && e.DSTTL < ttl {
				ttl = e.DSTTL
			}
			cand := obs.Add(time.Duration(ttl) * time.Second)
			if c := obs.Add(vkCeiling); cand.After(c) {
				cand = c
			}
			cand = vkMinT(cand, d) // every shallower delegation on the path limits it
			k := e.Referral + "|" + e.Target
			if old, ok := fresh[k]; !ok || cand.After(old) {
				fresh[k] = cand
			}
		}
		if e.AA && (e.Rcode == dns.RcodeSuccess || e.Rcode == dns.RcodeNameError) {
			r.note(r.sub, vkSKey(e.QName, e.QType), d, t1, e.String())
			if e.Negative {
				r.note(r.neg, zone+"|"+e.Server, d, t1, e.String())
			}
		}
	}
	for k, d := range fresh {
		if old, ok := r.lease[k]; !ok || d.After(old) {
			r.lease[k] = d
		}
		if _, ok := r.first[k]; !ok {
			r.first[k] = d
		}
	}
	for k, d := range freshGrant {
		if old, ok := r.grant[k]; !ok || d.After(old) {
			r.grant[k] = d
		}
	}
	return pathLease, "", ""
}

func (r *vkRef) note(m map[string]*vkDatum, k string, deadline, now time.Time, what string) {
	if old := m[k]; old != nil && !deadline.After(old.deadline) {
		return
	}
	m[k] = &vkDatum{deadline: deadline, ttlEnd: now.Add(vkRecTTL * time.Second), what: what}
}

// soaServer maps the SOA of a negative reply to the server whose zone it is.
func vkSOAServer(m *dns.Msg) string {
	if m == nil || len(m.Answer) > 0 {
		return ""
	}
	return vkSOAServerAny(m)
}

// vkSOAServerAny is vkSOAServer for a composed (alias) reply, whose answer section holds the alias records.
func vkSOAServerAny(m *dns.Msg) string {
	if m == nil {
		return ""
	}
	for _, rr := range m.Ns {
		if soa, ok := rr.(*dns.SOA); ok {
			switch zonemodel.Canon(soa.Hdr.Name) {
			case vkZoneP:
				return vkZoneP + "|" + vkSrvP
			case vkZoneG:
				return vkZoneG + "|" + vkSrvGOld
			case vkZoneC:
				if zonemodel.Canon(soa.Ns) == "ns2.c.p." {
					return vkZoneC + "|" + vkSrvCNew
				}
				return vkZoneC + "|" + vkSrvCOld
			}
		}
	}
	return ""
}

// allowedNeg is the permissive deadline for a denial synthesised from validated negative answers of the zone
// the reply's SOA belongs to (RFC 8020 subtree cuts, RFC 8198 aggressive use).
func vkAllowedNeg(neg map[string]*vkDatum, m *dns.Msg) (time.Time, string) {
	if d := neg[vkSOAServer(m)]; d != nil {
		return d.deadline, "denial learned by " + d.what
	}
	return time.Time{}, ""
}

// vkAllowedNegLeg is vkAllowedNeg for the denial that ends a composed (alias) reply.
func vkAllowedNegLeg(neg map[string]*vkDatum, m *dns.Msg) (time.Time, string) {
	if m == nil || (m.Rcode != dns.RcodeNameError && m.Rcode != dns.RcodeSuccess) {
		return time.Time{}, ""
	}
	if d := neg[vkSOAServerAny(m)]; d != nil {
		return d.deadline, "denial learned by " + d.what
	}
	return time.Time{}, ""
}

// ---------------------------------------------------------------- alias questions

// vkAliasQs are the questions whose reply is composed through an alias leg into the leased zone c.p.
var vkAliasQs = []vkEv{
	{K: "q", Name: "www.alias.p.", Type: dns.TypeA},  // DNAME -> www.c.p.: positive at the old and at the new child
	{K: "q", Name: "late.alias.p.", Type: dns.TypeA}, // DNAME -> late.c.p.: NXDOMAIN at the old child, positive marker at the new one
	{K: "q", Name: "cn.p.", Type: dns.TypeA},         // CNAME -> www.c.p.
	{K: "q", Name: "cnx.p.", Type: dns.TypeA},        // CNAME -> late.c.p.
}

// vkNSAddrQs: two names of the stable sibling v.p. (the second so that the answer cache cannot serve it: what is
// tested is which SERVER a fresh resolution contacts) and the sub-question the resolver asks for its name-server host.
var vkNSAddrQs = []vkEv{
	{K: "q", Name: "www.v.p.", Type: dns.TypeA},
	{K: "q", Name: "w2.v.p.", Type: dns.TypeA},
	{K: "q", Name: vkNSV, Type: dns.TypeA}, // digest only (never asked by the client in space "nsaddr")
}

// vkLegQ is the direct question for the denied leg (so that a composed reply can find its leg in memory).
var vkLegQ = vkEv{K: "q", Name: vkLate, Type: dns.TypeA}

// vkAliasLeg returns the name in c.p. an alias question is redirected to ("" = not an alias question).
func vkAliasLeg(name string) string {
	switch zonemodel.Canon(name) {
	case "www.alias.p.", "cn.p.":
		return "www.c.p."
	case "late.alias.p.", "cnx.p.":
		return vkLate
	}
	return ""
}

// vkAliasOuterRR reports whether rr of a composed reply is one of the outer zone's alias records: a CNAME / DNAME owned
// outside c.p., or a signature covering one. Everything else — the target's records, the SOA / proof of its denial
// (the child's, or the parent's own after a withdrawal) and their signatures — is the leg's side.
func vkAliasOuterRR(rr dns.RR) bool {
	if dns.IsSubDomain(vkZoneC, zonemodel.Canon(rr.Header().Name)) {
		return false
	}
	switch x := rr.(type) {
	case *dns.CNAME, *dns.DNAME:
		return true
	case *dns.RRSIG:
		return x.TypeCovered == dns.TypeCNAME || x.TypeCovered == dns.TypeDNAME
	}
	return false
}

// vkHasLegSide reports whether a composed reply carries any leg-side record at all.
func vkHasLegSide(m *dns.Msg) bool {
	for _, sec := range [][]dns.RR{m.Answer, m.Ns} {
		for _, rr := range sec {
			if rr.Header().Rrtype != dns.TypeOPT && !vkAliasOuterRR(rr) {
				return true
			}
		}
	}
	return false
}

// vkAliasPre is the reference's pre-ask view of an alias question.
type vkAliasPre struct {
	leg       string
	composed  time.Time // data[outer]: the composed reply as one unit
	compWhat  string
	outer     time.Time // sub[outer]: the outer records alone
	outerWhat string
	legD      time.Time // what the leg's own question may be served under
	legWhat   string
}

func (r *vkRef) aliasPre(ev vkEv, leg string) *vkAliasPre {
	a := &vkAliasPre{leg: leg, compWhat: "no composed reply was ever learned", outerWhat: "the alias records were never learned"}
	if d := r.data[vkDKey(ev.Name, ev.Type, ev.CD)]; d != nil {
		a.composed, a.compWhat = d.deadline, "composed reply learned by "+d.what
	}
	if d := r.sub[vkSKey(ev.Name, ev.Type)]; d != nil {
		a.outer, a.outerWhat = d.deadline, "alias records learned by "+d.what
	}
	a.legD, a.legWhat = r.allowed(leg, ev.Type, ev.CD)
	return a
}

// allowed returns the permissive deadline for serving (name, type, cd) from memory.
func (r *vkRef) allowed(name string, t uint16, cd bool) (time.Time, string) {
	var best time.Time
	what := "nothing was ever learned for it"
	if d := r.data[vkDKey(name, t, cd)]; d != nil {
		best, what = d.deadline, "learned by "+d.what
	}
	if d := r.sub[vkSKey(name, t)]; d != nil && d.deadline.After(best) {
		best, what = d.deadline, "by-product of "+d.what
	}
	return best, what
}

// oldLeaseEnd is the instant by which every delegation to the OLD child servers has ended.
func (r *vkRef) oldLeaseEnd() time.Time {
	var end time.Time
	for _, k := range []string{vkZoneC + "|" + vkSrvCOld, vkZoneG + "|" + vkSrvGOld} {
		if d, ok := r.lease[k]; ok && d.After(end) {
			end = d
		}
	}
	return end
}

// ---------------------------------------------------------------- events

type vkEv struct {
	K    string `json:"k"` // q | adv | withdraw | repoint
	Name string `json:"name,omitempty"`
	Type uint16 `json:"type,omitempty"`
	CD   bool   `json:"cd,omitempty"`
	D    int    `json:"d,omitempty"`
}

func (e vkEv) String() string {
	switch e.K {
	case "q":
		s := fmt.Sprintf("q(%s %s", e.Name, dns.TypeToString[e.Type])
		if e.CD {
			s += " CD"
		}
		return s + ")"
	case "adv":
		return fmt.Sprintf("adv(%ds)", e.D)
	}
	return e.K
}

func vkHistStr(h []vkEv) string {
	s := make([]string, len(h))
	for i, e := range h {
		s[i] = e.String()
	}
	return strings.Join(s, " ")
}

type vkStep struct {
	Reply    string
	Viol     string
	Class    string
	Outcome  string
	Elapsed  time.Duration
	Upstream int
}

// apply executes one event and judges it.
func (w *vkWorld) apply(ev vkEv) vkStep {
	switch ev.K {
	case "adv":
		vtime.Advance(time.Duration(ev.D) * time.Second)
		return vkStep{Outcome: "adv"}
	case "withdraw", "repoint":
		if w.phase != vkPhaseOrig {
			return vkStep{Outcome: "change:ignored"}
		}
		if ev.K == "withdraw" {
			w.setPhase(vkPhaseWithdrawn)
		} else {
			w.setPhase(vkPhaseRepointed)
		}
		w.ref.changed = vtime.Now()
		return vkStep{Outcome: ev.K}
	case "q":
		return w.query(ev)
	}
	return vkStep{Viol: "harness: unknown event " + ev.K, Class: "harness"}
}

func vkRRStr(rrs []dns.RR) string {
	var p []string
	for _, rr := range rrs {
		if t := rr.Header().Rrtype; t == dns.TypeRRSIG || t == dns.TypeOPT || t == dns.TypeNSEC || t == dns.TypeNSEC3 {
			continue
		}
		p = append(p, strings.Join(strings.Fields(rr.String()), " "))
	}
	return strings.Join(p, " ; ")
}

func vkMsgStr(m *dns.Msg) string {
	if m == nil {
		return "<no reply>"
	}
	return fmt.Sprintf("%s answer{%s} authority{%s}", dns.RcodeToString[m.Rcode], vkRRStr(m.Answer), vkRRStr(m.Ns))
}

// content classifies what a reply asserts: "old" (data only the old child servers publish),
// "new" (the re-pointed child's), "parent" (the parent's own denial), "servfail", "other".
func vkContent(ev vkEv, m *dns.Msg) string {
	if m == nil {
		return "none"
	}
	if m.Rcode == dns.RcodeServerFailure {
		return "servfail"
	}
	for _, rr := range m.Answer {
		switch x := rr.(type) {
		case *dns.A:
			switch x.A.String() {
			case vkOldA, vkOldGA:
				return "old"
			case vkNewA, vkNewLate:
				return "new"
			case vkOldVA:
				return "vold" // v.p. as served behind the address the old c.p. server published
			case vkNewVA:
				return "vnew"
			}
		case *dns.NS:
			switch zonemodel.Canon(x.Ns) {
			case "ns.c.p.", vkGhost, vkNSB:
				return "old"
			case "ns2.c.p.":
				return "new"
			}
		case *dns.DS:
			if zonemodel.Canon(x.Hdr.Name) == vkZoneG {
				return "old" // published by the old child's servers
			}
			return "parent"
		case *dns.DNSKEY:
			return "key" // the same key set at the old and the re-pointed child
		}
	}
	for _, rr := range m.Ns {
		if soa, ok := rr.(*dns.SOA); ok {
			switch {
			case zonemodel.Canon(soa.Hdr.Name) == vkZoneP:
				return "parent"
			case zonemodel.Canon(soa.Ns) == "ns2.c.p.":
				return "new"
			default:
				return "old"
			}
		}
	}
	return "other"
}

// query asks one client question and judges the reply.
func (w *vkWorld) query(ev vkEv) vkStep {
	validating := w.key.dnssec && !ev.CD
	q := dns.Question{Name: ev.Name, Qtype: ev.Type, Qclass: dns.ClassINET}
	t0 := vtime.Now()
	pre := cache.VerifC08Peek(w.pl.Cache(), q, ev.CD, t0)
	preDeadline, preWhat := w.ref.allowed(ev.Name, ev.Type, ev.CD) // what memory may serve, judged BEFORE anything is re-learned
	// an alias question: the entry of its leg can be hit (and refreshed) by the same ask
	leg := vkAliasLeg(ev.Name)
	var al *vkAliasPre
	var preLeg cache.VerifC08Entry
	if leg != "" {
		al = w.ref.aliasPre(ev, leg)
		preLeg = cache.VerifC08Peek(w.pl.Cache(), dns.Question{Name: leg, Qtype: ev.Type, Qclass: dns.ClassINET}, ev.CD, t0)
	}
	preNeg := map[string]*vkDatum{}
	for k, d := range w.ref.neg {
		preNeg[k] = d
	}
	n0 := len(w.exchanges())
	r := w.pl.Ask(ev.Name, ev.Type, h_resolver.Flags{CD: ev.CD, DO: w.key.dnssec}, "tcp")
	if (pre.Found || preLeg.Found) && !w.waitIdle(pre.Handle, preLeg.Handle) { // only a hit on these entries can have started a refresh
		return vkStep{Viol: "harness: background refresh did not finish within 7 s", Class: "harness-wait", Elapsed: r.Elapsed}
	}
	t1 := vtime.Now()
	ex := w.exchanges()[n0:]
	st := vkStep{Elapsed: r.Elapsed, Upstream: len(ex)}
	if vkVerbose {
		st.Reply = vkMsgStr(r.Msg)
	}
	// the simulation's own log must agree with the hook's record (sequential fan-out)
	if lg := w.sim.Log(); len(lg) != n0+len(ex) {
		st.Viol, st.Class = fmt.Sprintf("harness: exchange record (%d) and authsim log (%d) disagree", n0+len(ex), len(lg)), "harness-desync"
		return st
	}
	// Was the client's reply produced from memory? Without prefetch: no upstream traffic at all. With prefetch the
	// refresh's traffic follows a hit, so the pre-ask view of the entry decides.
	fromMemory := len(ex) == 0
	background := false
	if w.key.prefetch && len(ex) > 0 && pre.Found && pre.Remaining > 0 {
		fromMemory, background = true, true
	}
	// a question below v.p.: the exchanges with c.p.'s servers belong to the side resolution of the name-server host's
	// address — the client-visible answer is v.p.'s data, bounded by v.p.'s own lineage only (permissive)
	var side func(vkExchange) bool
	if dns.IsSubDomain(vkZoneV, zonemodel.Canon(ev.Name)) {
		side = func(e vkExchange) bool { z := vkServerZone(e.Server); return z == vkZoneC || z == vkZoneG }
	}
	learned, viol, vclass := w.ref.window(ex, t0, t1, validating, side)
	if viol != "" {
		st.Viol, st.Class = viol, vclass
		return st
	}
	m := r.Msg
	content := vkContent(ev, m)
	label := fmt.Sprintf("%s/%s", map[bool]string{true: "mem", false: "net"}[fromMemory], content)
	if background {
		label += "+refresh"
	}
	if m == nil {
		st.Outcome = label
		return st
	}
	// Alias question: did a c.p.-side exchange for the leg run in this ask (the ask itself or a refresh it started)?
	// If not, whatever the reply says about the leg came from memory, under the deadline the leg's own question had.
	legFromNet := false
	legTerm, legWhat := vkForever, "the leg was resolved over the network in this ask"
	legData := leg != "" && (content == "old" || content == "new") // the reply carries data of the c.p. servers
	if leg != "" {
		for _, e := range ex {
			if e.AA && e.QName == leg && e.QType == ev.Type && (e.Rcode == dns.RcodeSuccess || e.Rcode == dns.RcodeNameError) {
				legFromNet = true
			}
		}
		if !legFromNet {
			legTerm, legWhat = al.legD, "leg "+leg+" "+al.legWhat
			if validating {
				if d, wh := vkAllowedNegLeg(preNeg, m); d.After(legTerm) {
					legTerm, legWhat = d, "leg "+leg+" "+wh
				}
			}
			if legData && len(ex) > 0 {
				label += "+legmem"
			}
		}
	}
	dk := vkDKey(ev.Name, ev.Type, ev.CD)
	if len(ex) > 0 && m.Rcode != dns.RcodeServerFailure {
		// (re)learned through the network — by the ask itself or by the refresh that followed the hit
		what := fmt.Sprintf("%s at %s", ev, w.rel(t0))
		if legData && !legFromNet {
			// composed with a leg taken from memory: learned through the leg's lineage as well
			learned = vkMinT(learned, legTerm)
			what += " (leg from memory: " + legWhat + ")"
		}
		w.ref.note(w.ref.data, dk, learned, t1, what)
	}
	if leg != "" && !fromMemory && legData && !legFromNet && m.Rcode != dns.RcodeServerFailure && !legTerm.After(t0) {
		// (a) for the leg alone: the outer records were fetched, the leg's data was not
		st.Viol = fmt.Sprintf("%s at %s: the reply carries %s data of the c.p. servers for the leg %s although no c.p.-side exchange for it ran in this ask and the lease it was in memory under ended at %s (%s): %s; upstream: [%s]",
			ev, w.rel(t0), content, leg, w.rel(legTerm), legWhat, vkMsgStr(m), vkExStr(ex))
		st.Class = "served-past-lease/" + vkQClass(ev) + "-leg"
		return st
	}
	if fromMemory && m.Rcode != dns.RcodeServerFailure && leg != "" {
		// (a) composed reply from memory: legal while the composed unit's lease runs, or while the outer records' AND the
		// leg's leases run
		dAll := al.composed
		if x := vkMinT(al.outer, legTerm); x.After(dAll) {
			dAll = x
		}
		if m.Rcode == dns.RcodeSuccess && !vkHasLegSide(m) && al.outer.After(dAll) {
			// a DANGLING alias: NOERROR, only the outer zone's alias records, no record, SOA or proof of the leg (the leg could
			// not be resolved: e.g. the old child answers with self-referrals) — nothing learned through c.p. is being served,
			// so only the outer lineage applies (the equivalent of the always-allowed SERVFAIL of a direct question)
			dAll = al.outer
			label += "+dangling"
		}
		if !dAll.After(t0) {
			st.Viol = fmt.Sprintf("%s answered from memory at %s with %s data although the leases it was learned under ended at %s (composed: %s [%s]; outer: %s [%s]; leg: %s [%s]): %s",
				ev, w.rel(t0), content, w.rel(dAll), w.rel(al.composed), al.compWhat, w.rel(al.outer), al.outerWhat, w.rel(legTerm), legWhat, vkMsgStr(m))
			st.Class = "served-past-lease/" + vkQClass(ev)
			return st
		}
		// (c) per lineage
		dOuter, dLeg := al.composed, al.composed
		if al.outer.After(dOuter) {
			dOuter = al.outer
		}
		if legTerm.After(dLeg) {
			dLeg = legTerm
		}
		for _, sec := range [][]dns.RR{m.Answer, m.Ns} {
			for _, rr := range sec {
				if rr.Header().Rrtype == dns.TypeOPT {
					continue
				}
				// the alias records (CNAME / DNAME and their signatures, owned outside c.p.) are the outer side;
				// everything else — the target's records, or the SOA / proof of its denial — is the leg's side,
				// and fresh when the leg was resolved over the network in this ask (fresh TTLs are not judged)
				// (a signature belongs to the side of the type it covers: the RRSIG of the parent's own SOA / NSEC in a
				// denial the parent itself gave for the leg after a withdrawal is leg side, though owned in p.)
				lim, side := dLeg, "leg"
				if vkAliasOuterRR(rr) {
					lim, side = dOuter, "outer"
				} else if legFromNet {
					continue
				}
				if rem := lim.Sub(t0).Seconds(); float64(rr.Header().Ttl) > rem+0.05 {
					st.Viol = fmt.Sprintf("%s answered from memory at %s shows TTL %d on %s (%s side) but only %.3fs of that lease remain (composed: %s [%s]; outer: %s [%s]; leg: %s [%s]): %s",
						ev, w.rel(t0), rr.Header().Ttl, rr.Header().Name, side, rem, w.rel(al.composed), al.compWhat, w.rel(al.outer), al.outerWhat, w.rel(legTerm), legWhat, vkMsgStr(m))
					st.Class = "ttl-exceeds-lease/" + vkQClass(ev)
					return st
				}
			}
		}
	} else if fromMemory && m.Rcode != dns.RcodeServerFailure {
		// (a) data learned through a delegation whose lease has ended is not served
		deadline, what := preDeadline, preWhat
		if validating {
			if d, wh := vkAllowedNeg(preNeg, m); d.After(deadline) {
				deadline, what = d, wh
			}
		}
		if !deadline.After(t0) {
			st.Viol = fmt.Sprintf("%s answered from memory at %s with %s data although the lease it was learned under ended at %s (%s): %s",
				ev, w.rel(t0), content, w.rel(deadline), what, vkMsgStr(m))
			st.Class = "served-past-lease/" + vkQClass(ev)
			return st
		}
		// (c) TTLs shown never exceed the remaining lease
		rem := deadline.Sub(t0).Seconds()
		for _, sec := range [][]dns.RR{m.Answer, m.Ns} {
			for _, rr := range sec {
				if rr.Header().Rrtype == dns.TypeOPT {
					continue
				}
				if float64(rr.Header().Ttl) > rem+0.05 {
					st.Viol = fmt.Sprintf("%s answered from memory at %s shows TTL %d but only %.3fs of the lease remain (lease end %s, %s): %s",
						ev, w.rel(t0), rr.Header().Ttl, rem, w.rel(deadline), what, vkMsgStr(m))
					st.Class = "ttl-exceeds-lease/" + vkQClass(ev)
					return st
				}
			}
		}
	}
	// (b) after the parent's change and the end of every old lease the client no longer sees the old child's data
	if !w.ref.changed.IsZero() && !(ev.Type == dns.TypeDS && zonemodel.Canon(ev.Name) == vkZoneC) { // c.p. DS is the parent's own data
		if end := w.ref.oldLeaseEnd(); !end.After(t0) && content == "old" {
			st.Viol = fmt.Sprintf("%s at %s still answered with the OLD child's data although the parent %s the delegation at %s and the last old lease ended at %s: %s; upstream: [%s]",
				ev, w.rel(t0), map[int]string{vkPhaseWithdrawn: "withdrew", vkPhaseRepointed: "re-pointed"}[w.phase], w.rel(w.ref.changed), w.rel(end), vkMsgStr(m), vkExStr(ex))
			st.Class = "old-data-after-lease/" + vkQClass(ev)
			return st
		}
		if end := w.ref.oldLeaseEnd(); !end.After(t0) {
			label += "@after-old-lease"
		} else {
			label += "@during-old-lease"
		}
	}
	st.Outcome = label
	return st
}

func vkQClass(ev vkEv) string {
	n := zonemodel.Canon(ev.Name)
	switch {
	case n == "nx.c.p." || n == vkLate:
		return "negative"
	case vkAliasLeg(n) == vkLate:
		return "alias-negative"
	case vkAliasLeg(n) != "":
		return "alias-answer"
	case ev.Type == dns.TypeDS:
		return "ds"
	case ev.Type == dns.TypeDNSKEY:
		return "dnskey"
	case ev.Type == dns.TypeNS:
		return "apex-ns"
	case strings.HasSuffix(n, "."+vkZoneG):
		return "deeper-delegation"
	}
	return "answer"
}

// ---------------------------------------------------------------- state digest

var vkAlphabetQs = []vkEv{
	{K: "q", Name: "www.c.p.", Type: dns.TypeA},
	{K: "q", Name: "www.g.c.p.", Type: dns.TypeA},
	{K: "q", Name: "c.p.", Type: dns.TypeNS},
	{K: "q", Name: "c.p.", Type: dns.TypeDS},
	{K: "q", Name: "nx.c.p.", Type: dns.TypeA},
}

// vkExtraQs join the alphabet when validation is on: records that exist only for DNSSEC and are learned through the
// old child delegation (its DNSKEY RRset; the DS of the grandchild, which the child's servers publish).
var vkExtraQs = []vkEv{
	{K: "q", Name: "c.p.", Type: dns.TypeDNSKEY},
	{K: "q", Name: "g.c.p.", Type: dns.TypeDS},
}

func vkSecs(d time.Duration) int { return int(d.Round(time.Second) / time.Second) }

// digest is the canonical state: reference (remaining leases / data lifetimes, phase) + the implementation's own
// delegation table and answer-cache entries for the alphabet (remaining lifetimes, 1 s resolution).
func (w *vkWorld) digest() (string, bool) {
	now := vtime.Now()
	var parts []string
	nontrivial := false
	parts = append(parts, "phase="+vkPhaseName[w.phase])
	for k, d := range w.ref.lease {
		if rem := d.Sub(now); rem > 0 {
			parts = append(parts, fmt.Sprintf("L:%s=%d", k, vkSecs(rem)))
		}
	}
	for _, m := range []map[string]*vkDatum{w.ref.data, w.ref.sub} {
		for k, d := range m {
			if d.deadline.Equal(vkForever) {
				parts = append(parts, "D:"+k+"=unbounded")
			} else if rem := d.deadline.Sub(now); rem > 0 {
				parts = append(parts, fmt.Sprintf("D:%s=%d", k, vkSecs(rem)))
			} else if d.ttlEnd.After(now) {
				nontrivial = true // its lease has ended while its own TTL still runs
			}
		}
	}
	for k, d := range w.ref.grant {
		if rem := d.Sub(now); rem > 0 {
			parts = append(parts, fmt.Sprintf("G:%s=%d", k, vkSecs(rem)))
		}
	}
	for k, d := range w.ref.addr {
		// a binding whose lineage has ended stays part of the state: an implementation may still hold the address
		rem := 0
		if x := d.deadline.Sub(now); x > 0 {
			rem = vkSecs(x)
		} else {
			nontrivial = true // the lease it was learned under has ended while its own TTL still runs
		}
		parts = append(parts, fmt.Sprintf("A:%s=%d", k, rem))
	}
	if w.ref.lastAddr != "" {
		parts = append(parts, "A-last="+w.ref.lastAddr)
	}
	for _, z := range []string{vkZoneP, vkZoneC, vkZoneG, vkZoneV} {
		for _, cd := range []bool{false, true} {
			if d := w.deleg(z, cd); d.Found {
				if rem := d.ExpiresAt.Sub(now); rem > 0 {
					parts = append(parts, fmt.Sprintf("impl-deleg:%s/cd%v=%d@%s", z, cd, vkSecs(rem), strings.Join(d.Addrs, "+")))
				}
			}
		}
	}
	for _, q := range append(append(append(append(append([]vkEv{}, vkAlphabetQs...), vkExtraQs...), vkAliasQs...), vkLegQ), vkNSAddrQs...) {
		for _, cd := range []bool{false, true} {
			e := cache.VerifC08Peek(w.pl.Cache(), dns.Question{Name: q.Name, Qtype: q.Type, Qclass: dns.ClassINET}, cd, now)
			if e.Found && e.Remaining > 0 {
				parts = append(parts, fmt.Sprintf("impl-entry:%s/%s/cd%v=%d/rc%d", q.Name, dns.TypeToString[q.Type], cd, vkSecs(e.Remaining), e.Rcode))
			}
		}
	}
	for _, h := range []string{vkNSB, vkGhost, vkNSV} {
		if resolver.VerifC08Glue(w.pl.Resolver(), h) {
			parts = append(parts, "impl-glue:"+h)
		}
	}
	neg, cuts, proofs := cache.VerifC08SideTables(w.pl.Cache())
	if neg+cuts+proofs > 0 {
		parts = append(parts, fmt.Sprintf("impl-side=%d/%d/%d", neg, cuts, proofs))
	}
	sort.Strings(parts)
	return strings.Join(parts, ","), nontrivial
}
