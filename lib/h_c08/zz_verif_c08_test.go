//go:build verif

package h_c08

// C08 — a delegation never outlives the lease its parent granted.
//
// Explicit-state BFS over event histories (client queries, clock advances,
// the parent withdrawing / re-pointing c.p.) on the REAL default chain
// resolving over loopback against authsim, under the virtual clock. State =
// history: a successor resets resolver, caches, simulation and clock and
// replays. States are merged on a digest of the reference model's state plus
// the implementation's own delegation table and answer-cache entries.

import (
	"encoding/json"
	"fmt"
	"os"
	"runtime"
	"strings"
	"sync/atomic"
	"testing"
	"time"

	"github.com/semihalev/sdns/internal/verifshim/vkit"
)

type vkScenario struct {
	Cfg  vkCfg  `json:"cfg"`
	Hist []vkEv `json:"hist"`
}

func (s vkScenario) String() string { return "{" + s.Cfg.String() + "} [" + vkHistStr(s.Hist) + "]" }

// vkEvents is the full alphabet, simplest first. In the validation-off unit the client's CD bit only selects another
// answer-cache key (the delegation table has a single bucket), so the quick tier keeps one CD=1 question there; with
// validation on CD selects the delegation bucket and whether the DS TTL bounds the lease.
func vkEvents(thorough, dnssec, alias bool) []vkEv {
	var evs []vkEv
	evs = append(evs, vkAlphabetQs...)
	for i, q := range vkAlphabetQs {
		if thorough || i == 0 || (dnssec && i == 1) {
			q.CD = true
			evs = append(evs, q)
		}
	}
	if dnssec {
		evs = append(evs, vkExtraQs...)
	}
	if alias {
		// replies composed through an alias leg into the leased zone, and the direct question for the denied leg
		evs = append(evs, vkAliasQs...)
		evs = append(evs, vkLegQ)
		for i, q := range vkAliasQs {
			if thorough || i == 1 {
				q.CD = true
				evs = append(evs, q)
			}
		}
	}
	for _, d := range []int{1, 3, 5, 10, 50} {
		evs = append(evs, vkEv{K: "adv", D: d})
	}
	evs = append(evs, vkEv{K: "withdraw"}, vkEv{K: "repoint"})
	return evs
}

// vkSpace is one explored event space: the full alphabet to a shallow bound, or a projection of it (few names, few
// advances) whose state space is small enough to be searched deep — the histories that keep one name hot across the
// end of a lease, or walk a deeper delegation past its ancestor's lease, are long but narrow.
type vkSpace struct {
	Name  string
	Evs   []vkEv
	Depth int
}

// vkNoAlias (VERIF_C08_NOALIAS=1) takes the alias questions out of every space (manual aid: the universe keeps the
// alias records, nothing asks for them).
func vkNoAlias() bool { return os.Getenv("VERIF_C08_NOALIAS") != "" }

// vkNSAddr (on by default; VERIF_C08_NSADDR=0 leaves it out) adds the space "nsaddr": the stable sibling delegation v.p. whose only name-server host
// lives under the leased zone. NOT part of the default run: it alarms on the unchanged tree (the resolver's NS-address
// side cache has no lease), see mutants/C08/RESULTS.md.
func vkNSAddr() bool { return os.Getenv("VERIF_C08_NSADDR") != "0" }

func vkSpaces(thorough, dnssec bool) []vkSpace {
	q := func(i int, cd bool) vkEv { e := vkAlphabetQs[i]; e.CD = cd; return e }
	a := func(i int, cd bool) vkEv { e := vkAliasQs[i]; e.CD = cd; return e }
	adv := func(d int) vkEv { return vkEv{K: "adv", D: d} }
	wd, rp := vkEv{K: "withdraw"}, vkEv{K: "repoint"}
	// depth bounds {hot, deeper, apex, cd, full}, sized from measured rates (validation costs three times as much per
	// history: DNSKEY exchanges, signature checks); the thorough bounds are cut by the time budget, fairly by cost
	d := [5]int{9, 7, 7, 7, 4}
	switch {
	case thorough:
		d = [5]int{16, 14, 12, 12, 8}
	case dnssec:
		d = [5]int{7, 5, 5, 5, 3}
	}
	apex := []vkEv{q(2, false), q(4, false), q(3, false), adv(3), adv(10), wd, rp}
	if dnssec {
		apex = []vkEv{q(2, false), q(4, false), vkExtraQs[0], vkExtraQs[1], adv(3), adv(10), wd, rp}
	}
	// Replies composed through an alias leg into the leased zone, across the end of the child's lease and the parent's
	// change. alias: the DNAME pair (denied leg, positive leg) and the denied leg's direct question, so that a composed
	// reply finds its leg in memory. aliascn: the same through CNAME (the cache middleware's chase instead of the
	// resolver's DNAME leg). aliascd: the denied DNAME leg under CD=0 next to CD=1
	// (other answer-cache key; when validating also the other delegation bucket and no DS bound).
	// fullalias: the full alphabet PLUS the alias questions (19 / 21 events; thorough 26 / 28), shallow — cross-name
	// interplay of composed replies with everything else; "full" itself keeps its alphabet and depth.
	da := [4]int{5, 5, 6, 3}
	switch {
	case thorough:
		da = [4]int{12, 12, 12, d[4]}
	case dnssec:
		da = [4]int{4, 4, 5, 2}
	}
	// the direct question that shares its answer-cache key with the resolver's DNAME target leg: with validation off the
	// resolver's internal leg is keyed CD=1 (the cache middleware's CNAME chase always mirrors the client's CD)
	legD := vkLegQ
	legD.CD = !dnssec
	var alias []vkSpace
	if !vkNoAlias() {
		alias = []vkSpace{
			{"alias", []vkEv{a(1, false), a(0, false), legD, adv(3), adv(10), wd, rp}, da[0]},
			{"aliascn", []vkEv{a(3, false), a(2, false), vkLegQ, adv(3), adv(10), wd, rp}, da[1]},
			{"aliascd", []vkEv{a(1, false), a(1, true), adv(3), adv(10), rp}, da[2]},
			{"fullalias", vkEvents(thorough, dnssec, true), da[3]},
		}
	}
	if vkNSAddr() {
		// which SERVER a fresh resolution of a v.p. name contacts, across the end of c.p.'s lease and the parent's change:
		// www.v.p. learns the delegation and the address of nsv.c.p., w2.v.p. is the name the answer cache cannot serve,
		// www.c.p. learns / refreshes c.p.'s delegation on its own
		dn := 6
		switch {
		case thorough:
			dn = 12
		case dnssec:
			dn = 5
		}
		alias = append(alias, vkSpace{"nsaddr", []vkEv{vkNSAddrQs[0], vkNSAddrQs[1], q(0, false), adv(3), adv(10), wd, rp}, dn})
	}
	return append([]vkSpace{
		{"hot", []vkEv{q(0, false), adv(1), adv(3), adv(5), wd, rp}, d[0]},                  // one name kept hot
		{"deeper", []vkEv{q(1, false), q(0, false), adv(3), adv(5), adv(10), wd, rp}, d[1]}, // grandchild delegation under the child's lease
		{"apex", apex, d[2]}, // apex NS, a denied name, (DNSSEC: the child's DNSKEY and the grandchild's DS | else: the child's DS at the parent)
		{"cd", []vkEv{q(0, false), q(0, true), q(4, true), adv(3), adv(5), adv(50), wd}, d[3]},
		{"full", vkEvents(thorough, dnssec, false), d[4]},
	}, alias...)
}

type vkResult struct {
	step      vkStep
	at        int
	digest    string
	nontriv   bool
	outcomes  []string
	disturbed bool
	upstream  int
}

// vkBeat is touched before every replay; the watchdog dumps all goroutine stacks into the shard log when a single
// replay takes longer than 20 s (diagnostic only — nothing is judged by it).
var vkBeat atomic.Int64

func vkWatchdog() {
	go func() {
		dumped := int64(0)
		for {
			time.Sleep(2 * time.Second)
			b := vkBeat.Load()
			if b == 0 || b == dumped || time.Since(time.Unix(0, b)) < 20*time.Second {
				continue
			}
			dumped = b
			buf := make([]byte, 1<<20)
			n := runtime.Stack(buf, true)
			fmt.Fprintf(os.Stderr, "C08 watchdog: one replay has been running for %s; goroutines:\n%s\n", time.Since(time.Unix(0, b)).Round(time.Second), buf[:n])
		}
	}()
}

// runOnce replays one history from the cold state.
func (w *vkWorld) runOnce(sc vkScenario) vkResult {
	vkBeat.Store(time.Now().UnixNano())
	w.reset(sc.Cfg)
	res := vkResult{at: -1}
	start := time.Now()
	for i, ev := range sc.Hist {
		st := w.apply(ev)
		res.upstream += st.Upstream
		res.outcomes = append(res.outcomes, st.Outcome)
		if st.Elapsed > 300*time.Millisecond {
			res.disturbed = true
		}
		if st.Viol != "" {
			res.step, res.at = st, i
			return res
		}
	}
	if time.Since(start) > 700*time.Millisecond {
		res.disturbed = true // real time must stay far below the 1 s event granularity
	}
	res.digest, res.nontriv = w.digest()
	return res
}

// run repeats a replay that the machine disturbed (an ask waited although nothing was scripted to be
// slow: lost loopback datagram / starved process), so that only undisturbed executions are judged.
func (w *vkWorld) run(c *vkit.Ctx, sc vkScenario) vkResult {
	for try := 0; ; try++ {
		r := w.runOnce(sc)
		if !r.disturbed && r.step.Class != "harness-desync" && r.step.Class != "harness-wait" {
			return r
		}
		if try == 3 {
			c.Add("disturbed_kept", 1)
			return r
		}
		c.Add("disturbed_reruns", 1)
	}
}

func vkViolKey(sc vkScenario, class string) string {
	k := "C08:" + class + "|beh=" + sc.Cfg.Beh
	if sc.Cfg.Prefetch {
		k += "|prefetch"
	}
	if sc.Cfg.DNSSEC {
		k += "|dnssec"
	}
	if strings.HasPrefix(class, "stale-ns-address-used") {
		// how the parent changed c.p. (the first change of the history counts)
		for _, ev := range sc.Hist {
			if ev.K == "withdraw" {
				k += "|phase=withdrawn"
				break
			}
			if ev.K == "repoint" {
				k += "|phase=repointed"
				break
			}
		}
	}
	return k
}

// report confirms a violation (3 more replays from the cold state) and records it.
func (w *vkWorld) report(c *vkit.Ctx, sc vkScenario, r vkResult) bool {
	if strings.HasPrefix(r.step.Class, "harness") {
		c.HarnessError(r.step.Viol + " in " + sc.String())
		return false
	}
	sc.Hist = append([]vkEv(nil), sc.Hist[:r.at+1]...)
	n := 0
	last := r.step.Viol
	for i := 0; i < 3; i++ {
		r2 := w.run(c, sc)
		if r2.step.Viol != "" && r2.step.Class == r.step.Class {
			n++
			last = r2.step.Viol
		}
	}
	if n < 3 {
		c.Add("dropped_unreproducible", 1)
		c.Note(fmt.Sprintf("dropped a non-reproducing observation (%d/3): %s: %s", n, sc, r.step.Viol[:min(len(r.step.Viol), 200)]))
		return false
	}
	c.Violation(vkViolKey(sc, r.step.Class), fmt.Sprintf("config {%s}, history [%s], step %d: %s", sc.Cfg, vkHistStr(sc.Hist), r.at, last), sc)
	return true
}

// vkConfigs is the configuration dimension of one unit: per-level referral NS (and DS) TTLs x child behaviour x prefetch.
func vkConfigs(thorough, dnssec bool) []vkCfg {
	long := [3]uint32{vkRecTTL, vkRecTTL, vkRecTTL}
	t := func(a, b, c uint32) [3]uint32 { return [3]uint32{a, b, c} }
	var out []vkCfg
	add := func(ns, ds [3]uint32, beh string, pf bool) {
		out = append(out, vkCfg{NS: ns, DS: ds, Beh: beh, Prefetch: pf, DNSSEC: dnssec})
	}
	if !dnssec {
		if !thorough {
			// 16 configurations (one per shard)
			for _, x := range []struct {
				ns  [3]uint32
				beh string
				pf  bool
			}{
				{t(40, 6, 40), "honest", false}, {t(6, 40, 40), "honest", false}, {t(40, 40, 6), "honest", false}, {t(40, 2, 40), "honest", false},
				{t(40, 6, 40), "authns", false}, {t(40, 2, 40), "authns", false}, {t(40, 6, 40), "selfref", false},
				{t(40, 2, 40), "twons", false}, {t(40, 2, 40), "tinyttl", false},
				{t(40, 6, 40), "honest", true}, {t(40, 2, 40), "honest", true}, {t(6, 40, 40), "honest", true}, {t(40, 40, 6), "honest", true},
				{t(40, 6, 40), "authns", true}, {t(40, 6, 40), "selfref", true}, {t(40, 2, 40), "twons", true},
			} {
				add(x.ns, long, x.beh, x.pf)
			}
			return out
		}
		ttls := [][3]uint32{t(40, 6, 40), t(6, 40, 40), t(40, 40, 6), t(40, 2, 40), t(2, 6, 40), t(40, 6, 2), t(3600, 6, 3600), t(40, 0, 40), t(6, 6, 6), t(3600, 3600, 3600)}
		for _, pf := range []bool{false, true} {
			for _, b := range []string{"honest", "authns", "selfref", "twons", "bigttl", "tinyttl"} {
				for i, x := range ttls {
					if b != "honest" && i >= 4 && !(b == "twons" && x[1] == 0) {
						continue // the non-honest behaviours get the four basic TTL shapes (+ TTL 0 for the provisional entries)
					}
					add(x, long, b, pf)
				}
			}
		}
		return out
	}
	type nd struct{ ns, ds [3]uint32 }
	sets := []nd{
		{t(40, 40, 40), t(40, 6, 40)}, // the DS TTL alone is short
		{t(40, 6, 40), long},          // the NS TTL alone is short
		{t(40, 40, 40), t(40, 2, 40)}, // below the cache floor
		{t(40, 40, 40), t(6, 40, 40)}, // short DS at the top: everything below folds under it
	}
	behs := []string{"honest", "lagval"}
	if thorough {
		sets = append(sets, nd{t(40, 40, 40), t(40, 40, 6)}, nd{t(40, 6, 40), t(40, 40, 2)}, nd{t(40, 40, 40), t(40, 0, 40)}, nd{t(3600, 3600, 3600), t(3600, 6, 3600)})
		behs = append(behs, "authns", "selfref")
	}
	for _, pf := range []bool{false, true} {
		for _, b := range behs {
			for _, s := range sets {
				add(s.ns, s.ds, b, pf)
			}
		}
	}
	// A DS RRset the validator cannot use (unsupported digest type / DNSKEY algorithm only): the child is insecure, the
	// RRset is nevertheless what the parent granted — its TTL bounds the lease exactly as a usable one does. Appended
	// AFTER the 16 basic configurations so that their shard assignment stays as it was.
	if !thorough {
		add(t(40, 40, 40), t(40, 6, 40), "unsupds", false)
		add(t(40, 40, 40), t(40, 2, 40), "unsupds", false)
		add(t(40, 40, 40), t(40, 6, 40), "unsupds", true)
		return out
	}
	for _, pf := range []bool{false, true} {
		for _, b := range []string{"unsupds", "unsupalg"} {
			for _, s := range sets[:4] {
				add(s.ns, s.ds, b, pf)
			}
		}
	}
	return out
}

func vkExplore(t *testing.T, unit string, dnssec bool) {
	c := vkit.Init(unit)
	defer c.Close()
	vkWatchdog()
	if c.Replay != nil {
		var sc vkScenario
		if err := json.Unmarshal(c.Replay, &sc); err != nil {
			c.HarnessError("bad replay: " + err.Error())
			return
		}
		w, err := vkGetWorld(vkWorldKey{dnssec: sc.Cfg.DNSSEC, prefetch: sc.Cfg.Prefetch})
		if err != nil {
			c.HarnessError(err.Error())
			return
		}
		r := w.run(c, sc)
		if r.step.Viol != "" {
			if strings.HasPrefix(r.step.Class, "harness") {
				c.HarnessError(r.step.Viol)
				return
			}
			c.Violation(vkViolKey(sc, r.step.Class), fmt.Sprintf("config {%s}, history [%s], step %d: %s", sc.Cfg, vkHistStr(sc.Hist[:r.at+1]), r.at, r.step.Viol), sc)
		}
		return
	}
	spaces := vkSpaces(c.Thorough(), dnssec)
	cfgs := vkConfigs(c.Thorough(), dnssec)
	// The 12 h ceiling of the lease: a referral with NS TTL 2 d (the usual TLD value) and a child whose records carry
	// 7 d. The delegation entry ends at +12 h, and so must everything learned through it. These two configurations are
	// searched in their own narrow space only (13 h clock steps), every other space runs on the ordinary configurations.
	big := [3]uint32{172800, 172800, 172800}
	ceilCfgs := []vkCfg{{NS: big, DS: big, Beh: "bigttl", DNSSEC: dnssec}, {NS: big, DS: big, Beh: "bigttl", Prefetch: true, DNSSEC: dnssec}}
	half := vkEv{K: "adv", D: 46800} // 13 h
	ceilDepth := 4
	if c.Thorough() {
		ceilDepth = 6
	}
	ceilSpace := vkSpace{"ceiling", []vkEv{vkAlphabetQs[0], vkAlphabetQs[4], vkAlphabetQs[1], half, {K: "adv", D: 10}, {K: "repoint"}, {K: "withdraw"}}, ceilDepth}
	if os.Getenv("VERIF_C08_CEILING") != "" { // manual aid: only the ceiling search
		cfgs, spaces = nil, nil
	}
	isCeil := func(cf vkCfg) bool { return cf.NS == big }
	cfgs = append(cfgs, ceilCfgs...)
	spaces = append(spaces, ceilSpace)
	if s := os.Getenv("VERIF_C08_CFG"); s != "" { // manual aid: only configurations whose text contains s
		var keep []vkCfg
		for _, cf := range cfgs {
			if strings.Contains(cf.String()+" ", s) {
				keep = append(keep, cf)
			}
		}
		cfgs = keep
	}
	if s := os.Getenv("VERIF_C08_SPACE"); s != "" { // manual aid: only this space
		var keep []vkSpace
		for _, sp := range spaces {
			if sp.Name == s {
				keep = append(keep, sp)
			}
		}
		spaces = keep
	}
	if s := os.Getenv("VERIF_C08_DEPTH"); s != "" {
		for i := range spaces {
			fmt.Sscan(s, &spaces[i].Depth)
		}
	}
	// work items = (space, configuration), each an independent BFS; space-major order so that with 16 configurations
	// shard i owns every space of configuration i
	type bfs struct {
		cfg      vkCfg
		sp       vkSpace
		seen     map[string]bool
		frontier [][]vkEv
		dead     bool
		keys     map[string]bool // nsaddr: violation keys already reported by this search
		done     bool
		depth    int
		cost     time.Duration
	}
	var runs []*bfs
	n := 0
	for _, sp := range spaces {
		for _, cfg := range cfgs {
			if (sp.Name == "ceiling") != isCeil(cfg) {
				continue
			}
			if c.Mine(n) {
				if c.Quick() && !dnssec {
					// a history without the refresh machinery costs a third of one with it
					if sp.Name == "full" && !cfg.Prefetch {
						sp.Depth++
					}
					if cfg.Prefetch && (sp.Name == "deeper" || sp.Name == "apex" || sp.Name == "cd") {
						sp.Depth--
					}
				}
				runs = append(runs, &bfs{cfg: cfg, sp: sp, seen: map[string]bool{}, frontier: [][]vkEv{nil}})
			}
			n++
		}
	}
	capped := false
	startAll := time.Now()
	step := func(b *bfs, depth int) {
		w, err := vkGetWorld(vkWorldKey{dnssec: b.cfg.DNSSEC, prefetch: b.cfg.Prefetch})
		if err != nil {
			c.HarnessError(err.Error())
			capped = true
			return
		}
		if depth == 1 {
			r0 := w.run(c, vkScenario{Cfg: b.cfg}) // the initial state of this configuration
			b.seen[r0.digest] = true
		}
		var next [][]vkEv
	nodes:
		for _, hist := range b.frontier {
			for _, ev := range b.sp.Evs {
				if c.OverBudget() {
					c.Cap(fmt.Sprintf("time budget reached in space %q at depth %d", b.sp.Name, depth))
					capped = true
					return
				}
				sc := vkScenario{Cfg: b.cfg, Hist: append(append([]vkEv{}, hist...), ev)}
				r := w.run(c, sc)
				c.Add("transitions", 1)
				c.Add("evaluations", 1)
				c.Add("traces", 1)
				c.Add("upstream_exchanges", int64(r.upstream))
				if r.step.Viol != "" {
					vk := vkViolKey(sc, r.step.Class)
					if b.keys[vk] {
						continue
					}
					if w.report(c, sc, r) {
						b.dead = true // shortest counterexample of this search found; what lies beyond is tainted
						if b.sp.Name != "nsaddr" {
							break nodes
						}
						// nsaddr: the level is finished so that every distinct key of this depth is reported (the parent's
						// two kinds of change have different expected outcomes: withdrawn -> no server, re-pointed -> v-new)
						if b.keys == nil {
							b.keys = map[string]bool{}
						}
						b.keys[vk] = true
					}
					continue
				}
				c.Outcome(ev.K + "->" + r.outcomes[len(r.outcomes)-1])
				if f := os.Getenv("VERIF_C08_FIND"); f != "" && r.outcomes[len(r.outcomes)-1] == f { // manual aid
					fmt.Printf("FOUND %s: %s\n", f, sc)
					js, _ := json.Marshal(sc)
					fmt.Println(string(js))
					capped = true
					return
				}
				if b.seen[r.digest] {
					continue
				}
				b.seen[r.digest] = true
				full := b.cfg.String() + "#" + r.digest
				c.DistinctStr("states", full)
				if r.nontriv {
					c.DistinctStr("nontrivial", full)
				}
				c.Max("max_depth_"+b.sp.Name, int64(depth))
				if len(b.seen)%150 == 7 {
					c.Sample(map[string]any{"cfg": b.cfg.String(), "space": b.sp.Name, "hist": vkHistStr(sc.Hist), "state": r.digest, "outcomes": r.outcomes})
				}
				next = append(next, sc.Hist)
			}
		}
		b.frontier = next
		if len(next) == 0 || b.dead {
			b.done = true
			if !b.dead {
				c.Add("fixpoints", 1) // every reachable state of this space visited
			}
		}
	}
	// Every search advances one BFS level at a time; the one that has cost the least so far goes next, so that a
	// time cap cuts all searches of a shard at about the same cost (the narrow spaces therefore get deeper).
	for !capped {
		var pick *bfs
		for _, b := range runs {
			if b.done || b.depth >= b.sp.Depth {
				continue
			}
			if pick == nil || b.cost < pick.cost {
				pick = b
			}
		}
		if pick == nil {
			break
		}
		before := time.Now()
		pick.depth++
		step(pick, pick.depth)
		pick.cost += time.Since(before)
		if c.NumViolations() > 6 {
			return
		}
		if os.Getenv("VERIF_C08_TRACE") != "" {
			fmt.Printf("space %-6s {%s}: depth %d, %d states, frontier %d, done=%v, cost %s, elapsed %s\n", pick.sp.Name, pick.cfg, pick.depth, len(pick.seen), len(pick.frontier), pick.done,
				pick.cost.Round(time.Millisecond), time.Since(startAll).Round(time.Millisecond))
		}
	}
	for _, b := range runs {
		if !b.done && !b.dead && b.depth >= b.sp.Depth {
			c.Add("depth_bounds_reached", 1)
		}
	}
	for _, w := range vkWorlds {
		w.waitIdle()
	}
}

func TestVerifC08Lease(t *testing.T)  { vkExplore(t, "C08/lease", false) }
func TestVerifC08DNSSEC(t *testing.T) { vkExplore(t, "C08/dnssec", true) }
