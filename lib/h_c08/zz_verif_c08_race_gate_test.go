//go:build verif

package h_c08

// Gate, per-server proxy and quiescence bookkeeping of unit `race` (copied from lib/h_c07's race unit, which owns the
// design: every upstream query of the real resolver is parked by a proxy in front of each authsim server until the
// explorer releases it; quiescence = every started client has finished or waits in groupLookup's singleflight call on a
// key whose leader closure is active, and every active leader closure has its single upstream query parked).

import (
	"fmt"
	"io"
	"net"
	"sort"
	"strings"
	"sync"
	"time"

	"github.com/miekg/dns"
	"github.com/semihalev/sdns/internal/verifshim/vtime"
	"github.com/semihalev/sdns/middleware/resolver"
)

type vrParked struct {
	label string
	qname string
	at    time.Time // virtual instant the query ARRIVED (it is answered when released)
	ch    chan struct{}
}

// vrHit is one entry into the cached-hit branch of processDelegation.
type vrHit struct {
	Zone      string  `json:"zone"`
	CachedRem float64 `json:"cached_entry_remaining_s"` // table entry's deadline - now
	CutRem    float64 `json:"current_cut_remaining_s"`  // min(ancestor cut, lease of the referral just observed) - now
}

type vrGate struct {
	mu      sync.Mutex
	open    bool
	parked  []*vrParked
	waiters map[string]int
	nwait   int
	flights map[string]int
	nflight int
	done    int
	hits    []vrHit
	tick    uint64
}

var vrG = &vrGate{open: true, waiters: map[string]int{}, flights: map[string]int{}}

func (g *vrGate) resetCounters() {
	g.mu.Lock()
	g.waiters, g.flights = map[string]int{}, map[string]int{}
	g.nwait, g.nflight, g.done, g.hits = 0, 0, 0, nil
	g.tick++
	g.mu.Unlock()
}

func (g *vrGate) setOpen(open bool) {
	g.mu.Lock()
	g.open = open
	var rel []*vrParked
	if open {
		rel, g.parked = g.parked, nil
	}
	g.tick++
	g.mu.Unlock()
	for _, p := range rel {
		close(p.ch)
	}
}

func (g *vrGate) park(server string, req *dns.Msg) {
	g.mu.Lock()
	if g.open {
		g.mu.Unlock()
		return
	}
	q := req.Question[0]
	p := &vrParked{label: fmt.Sprintf("%s<-%s/%s", server, strings.ToLower(q.Name), dns.TypeToString[q.Qtype]), qname: strings.ToLower(q.Name),
		at: vtime.Now(), ch: make(chan struct{})}
	g.parked = append(g.parked, p)
	g.tick++
	g.mu.Unlock()
	<-p.ch
}

func (g *vrGate) install() {
	resolver.VerifC07SetRaceHooks(&resolver.VerifC07RaceHooks{
		Enter: func(key string) {
			g.mu.Lock()
			g.waiters[key]++
			g.nwait++
			g.tick++
			g.mu.Unlock()
		},
		Leave: func(key string) {
			g.mu.Lock()
			g.waiters[key]--
			g.nwait--
			g.tick++
			g.mu.Unlock()
		},
		Flight: func(key string, d int) {
			g.mu.Lock()
			g.flights[key] += d
			g.nflight += d
			g.tick++
			g.mu.Unlock()
		},
	})
	resolver.VerifC08SetRaceHit(func(zone string, cachedExp, cut time.Time) {
		now := vtime.Now()
		g.mu.Lock()
		g.hits = append(g.hits, vrHit{Zone: strings.ToLower(zone), CachedRem: cachedExp.Sub(now).Seconds(), CutRem: cut.Sub(now).Seconds()})
		g.mu.Unlock()
	})
}

func (g *vrGate) quiescentLocked(n int) bool {
	if g.done == n {
		return true
	}
	if g.done+g.nwait != n || len(g.parked) != g.nflight || len(g.parked) == 0 {
		return false
	}
	for k, c := range g.waiters {
		if c > 0 && g.flights[k] <= 0 {
			return false
		}
	}
	return true
}

// settle waits until the n started clients are quiescent. byStability: the hook criterion never held but nothing
// moved for 150 ms with a query parked; counted, never a verdict.
func (g *vrGate) settle(n int) (labels []string, finished, byStability bool, err error) {
	start := time.Now()
	var lastTick uint64
	lastChange := start
	for {
		g.mu.Lock()
		ok := g.quiescentLocked(n)
		tick := g.tick
		if !ok && tick == lastTick && len(g.parked) > 0 && time.Since(lastChange) > 150*time.Millisecond {
			ok, byStability = true, true
		}
		if ok {
			finished = g.done == n
			for _, p := range g.parked {
				labels = append(labels, p.label)
			}
			g.mu.Unlock()
			sort.Strings(labels)
			return labels, finished, byStability, nil
		}
		state := fmt.Sprintf("done=%d waiting=%d flights=%d parked=%d", g.done, g.nwait, g.nflight, len(g.parked))
		g.mu.Unlock()
		if tick != lastTick {
			lastTick, lastChange = tick, time.Now()
		}
		if time.Since(start) > 8*time.Second {
			return nil, false, false, fmt.Errorf("no quiescence within 8s (%s)", state)
		}
		time.Sleep(30 * time.Microsecond)
	}
}

// release lets the first parked query with this label go and returns it.
func (g *vrGate) release(label string) *vrParked {
	g.mu.Lock()
	for i, p := range g.parked {
		if p.label == label {
			g.parked = append(g.parked[:i:i], g.parked[i+1:]...)
			g.tick++
			g.mu.Unlock()
			close(p.ch)
			return p
		}
	}
	g.mu.Unlock()
	return nil
}

// ---------------------------------------------------------------- proxy

// vrProxy sits in front of one authsim server: every UDP query is handled in its own goroutine, parked at the gate,
// then forwarded (so authsim's log and the honest-responder hook see it when it is RELEASED). TCP is passed through.
type vrProxy struct {
	pc       *net.UDPConn
	ln       *net.TCPListener
	addr     string
	server   string
	upstream string
}

func vrStartProxy(server, upstream string) (*vrProxy, error) {
	var last error
	for try := 0; try < 50; try++ {
		pc, err := net.ListenUDP("udp4", &net.UDPAddr{IP: net.IPv4(127, 0, 0, 1)})
		if err != nil {
			return nil, err
		}
		port := pc.LocalAddr().(*net.UDPAddr).Port
		ln, err := net.ListenTCP("tcp4", &net.TCPAddr{IP: net.IPv4(127, 0, 0, 1), Port: port})
		if err != nil {
			last = err
			pc.Close()
			continue
		}
		x := &vrProxy{pc: pc, ln: ln, addr: fmt.Sprintf("127.0.0.1:%d", port), server: server, upstream: upstream}
		go x.serveUDP()
		go x.serveTCP()
		return x, nil
	}
	return nil, fmt.Errorf("h_c08: cannot bind udp+tcp pair: %v", last)
}

func (x *vrProxy) serveUDP() {
	buf := make([]byte, 65535)
	for {
		n, addr, err := x.pc.ReadFromUDP(buf)
		if err != nil {
			return
		}
		pkt := append([]byte(nil), buf[:n]...)
		go func(pkt []byte, addr *net.UDPAddr) {
			req := new(dns.Msg)
			if err := req.Unpack(pkt); err == nil && len(req.Question) == 1 {
				vrG.park(x.server, req)
			}
			up, err := net.Dial("udp4", x.upstream)
			if err != nil {
				return
			}
			defer up.Close()
			_ = up.SetDeadline(time.Now().Add(3 * time.Second))
			if _, err := up.Write(pkt); err != nil {
				return
			}
			rb := make([]byte, 65535)
			rn, err := up.Read(rb)
			if err != nil {
				return
			}
			_, _ = x.pc.WriteToUDP(rb[:rn], addr)
		}(pkt, addr)
	}
}

func (x *vrProxy) serveTCP() {
	for {
		c, err := x.ln.Accept()
		if err != nil {
			return
		}
		go func(c net.Conn) {
			defer c.Close()
			up, err := net.Dial("tcp4", x.upstream)
			if err != nil {
				return
			}
			defer up.Close()
			done := make(chan struct{}, 2)
			go func() { _, _ = io.Copy(up, c); done <- struct{}{} }()
			go func() { _, _ = io.Copy(c, up); done <- struct{}{} }()
			<-done
		}(c)
	}
}
