//go:build verif

// Package h_c08 is the harness of check C08 (a delegation never outlives the
// lease its parent granted — ghost domains): the real default sdns chain
// (… cache … resolver …) resolving over loopback against a scripted delegation
// chain root -> p. -> c.p. -> g.c.p. whose parent can withdraw or re-point
// c.p., under the virtual clock (vtime is compiled into internal/authority,
// internal/dnsutil, middleware, middleware/cache, middleware/resolver).
package h_c08

import (
	"fmt"
	"runtime"
	"strings"
	"sync"
	"time"

	"github.com/miekg/dns"
	"github.com/semihalev/sdns/config"
	"github.com/semihalev/sdns/internal/verifshim/authsim"
	"github.com/semihalev/sdns/internal/verifshim/h_resolver"
	"github.com/semihalev/sdns/internal/verifshim/vtime"
	"github.com/semihalev/sdns/internal/verifshim/zonemodel"
	"github.com/semihalev/sdns/middleware/cache"
	"github.com/semihalev/sdns/middleware/resolver"
)

// ---------------------------------------------------------------- names

const (
	vkZoneP = "p."
	vkZoneC = "c.p."
	vkZoneG = "g.c.p."
	vkZoneV = "v.p." // stable sibling delegation whose ONLY name-server host (nsv.c.p., no glue) lives under the leased zone

	vkSrvRoot = "."
	vkSrvP    = "p."
	vkSrvCOld = "c-old"
	vkSrvGOld = "g-old"
	vkSrvCNew = "c-new"
	vkSrvVOld = "v-old" // serves v.p. behind the address the OLD c.p. server publishes for nsv.c.p.
	vkSrvVNew = "v-new" // serves v.p. behind the address the RE-POINTED c.p. server publishes for nsv.c.p.

	vkAddrCOld = "192.0.2.30"
	vkAddrGOld = "192.0.2.40"
	vkAddrCNew = "192.0.2.50"
	vkAddrVOld = "192.0.2.60"
	vkAddrVNew = "192.0.2.70"

	vkOldA    = "10.0.0.1" // www.c.p. at the old child
	vkOldGA   = "10.0.0.2" // www.g.c.p. at the old grandchild
	vkNewA    = "10.9.9.9" // www.c.p. at the re-pointed child (marker)
	vkNewLate = "10.9.9.8" // late.c.p., a name that exists ONLY at the re-pointed child (the old child denies it)
	vkRecTTL  = 3600       // every record TTL: only a lease can end things early
	vkGhost   = "ghost.c.p."
	vkNSB     = "nsb.c.p." // second, glue-less NS host of the "twons" behaviour
	vkLate    = "late.c.p."
	vkNSV     = "nsv.c.p." // the glue-less NS host of v.p.: its address is learned through c.p.'s delegation
	vkOldVA   = "10.0.0.3" // www.v.p. / w2.v.p. at v-old
	vkNewVA   = "10.9.9.7" // www.v.p. / w2.v.p. at v-new (marker)
)

const (
	vkPhaseOrig = iota
	vkPhaseWithdrawn
	vkPhaseRepointed
)

var vkPhaseName = [...]string{"orig", "withdrawn", "repointed"}

// vkCfg is one point of the configuration space (fixed for a whole BFS).
type vkCfg struct {
	NS       [3]uint32 `json:"ns"`                 // referral NS TTL for p., c.p., g.c.p.
	DS       [3]uint32 `json:"ds"`                 // referral / answer DS TTL for p., c.p., g.c.p. (signed universe only)
	Beh      string    `json:"beh"`                // child behaviour
	Prefetch bool      `json:"prefetch,omitempty"` // cfg.Prefetch = 90
	DNSSEC   bool      `json:"dnssec,omitempty"`   // signed universe + validation on
}

func (c vkCfg) String() string {
	s := fmt.Sprintf("ns=%d/%d/%d", c.NS[0], c.NS[1], c.NS[2])
	if c.DNSSEC {
		s += fmt.Sprintf(" ds=%d/%d/%d dnssec", c.DS[0], c.DS[1], c.DS[2])
	}
	s += " beh=" + c.Beh
	if c.Prefetch {
		s += " prefetch"
	}
	return s
}

// Child behaviours:
//
//	honest   the children answer from their zones (their own apex NS RRsets carry TTL 3600 — already far beyond any lease)
//	authns   every authoritative answer of the old c.p. server also carries "c.p. NS ghost.c.p." (TTL 7 d) in the
//	         authority section plus glue to itself: the classic ghost-domain self-extension with a changing NS name
//	bigttl   every record the old children serve carries TTL 7 d
//	tinyttl  every record the old children serve carries TTL 1 s: the answer cache raises it to its 5 s floor, which the
//	         lease must still override
//	selfref  once the parent has changed the delegation, the old c.p. server answers everything with a referral to itself
//	twons    the parent's referral for c.p. lists a second, glue-less NS host (provisional delegation entries, NS address
//	         lookup through the delegation being established); that lookup takes 3 virtual seconds
//	lagval   (DNSSEC) the DNSKEY exchange that validates a referral takes 3 virtual seconds (validation latency)
//	unsupds  (DNSSEC) the DS RRset p. publishes for c.p. — in the referral and in DS answers — holds ONLY a record this
//	         validator cannot use (digest type 3, GOST R 34.11-94), correctly signed by p.: the child is insecure
//	         (RFC 6840 §5.2), but the DS RRset is still what the parent granted, so its TTL bounds the lease like any other
//	unsupalg (DNSSEC) same with a SHA-256 DS for DNSKEY algorithm 16 (Ed448), which the validator cannot verify either
var vkBehaviours = []string{"honest", "authns", "bigttl", "tinyttl", "selfref", "twons", "lagval", "unsupds", "unsupalg"}

// ---------------------------------------------------------------- exchanges

// vkExchange is the harness' own record of one upstream exchange, written by
// the honest-responder hook (same order as authsim's log: the resolver's
// fan-out is sequential).
type vkExchange struct {
	Server   string
	QName    string
	QType    uint16
	At       time.Time // virtual instant the query arrived
	Rcode    int
	AA       bool
	Referral string // zone delegated by this response ("" = not a referral)
	Target   string // server the referral designates
	NSTTL    uint32
	DSTTL    uint32
	HasDS    bool
	SelfRef  bool
	Negative bool // authoritative NXDOMAIN / NODATA
	Lag      int
	NSHost   string // glue-less referral (v.p.): the NS host named, Target stays ""
	AddrOf   string // authoritative A answer for nsv.c.p.: the server behind the published address
}

func (e vkExchange) String() string {
	s := fmt.Sprintf("%s<-%s/%s", e.Server, e.QName, dns.TypeToString[e.QType])
	switch {
	case e.SelfRef:
		s += " =self-referral"
	case e.Referral != "" && e.NSHost != "":
		s += fmt.Sprintf(" =referral(%s NS %s no-glue ns=%d", e.Referral, e.NSHost, e.NSTTL)
		if e.HasDS {
			s += fmt.Sprintf(" ds=%d", e.DSTTL)
		}
		s += ")"
	case e.Referral != "":
		s += fmt.Sprintf(" =referral(%s->%s ns=%d", e.Referral, e.Target, e.NSTTL)
		if e.HasDS {
			s += fmt.Sprintf(" ds=%d", e.DSTTL)
		}
		s += ")"
	default:
		s += " =" + dns.RcodeToString[e.Rcode]
		if e.AddrOf != "" {
			s += "(" + vkNSV + " is at " + e.AddrOf + ")"
		}
	}
	if e.Lag > 0 {
		s += fmt.Sprintf(" +lag%ds", e.Lag)
	}
	return s
}

// ---------------------------------------------------------------- world

type vkWorldKey struct{ dnssec, prefetch bool }

type vkWorld struct {
	key    vkWorldKey
	u      [3]*zonemodel.Universe // per phase
	sim    *authsim.Sim
	pl     *h_resolver.Pipeline
	t0     time.Time // virtual instant of the current history's start
	mu     sync.Mutex
	cfg    vkCfg
	phase  int
	ex     []vkExchange
	ref    *vkRef
	broken string
}

var vkWorlds = map[vkWorldKey]*vkWorld{}

func vkUniverse(phase int, signed bool) *zonemodel.Universe {
	mode := zonemodel.Unsigned
	if signed {
		mode = zonemodel.NSEC
	}
	alg := zonemodel.AlgED25519
	u := zonemodel.NewUniverse("c08")
	u.AddZone(zonemodel.ZoneSpec{Apex: ".", Mode: mode, Alg: alg, NSAddr: "192.0.2.1", TTL: vkRecTTL})
	p := u.AddZone(zonemodel.ZoneSpec{Apex: vkZoneP, Mode: mode, Alg: alg, CSK: true, NSAddr: "192.0.2.20", TTL: vkRecTTL})
	// aliases INTO the leased zone, published by the stable parent zone in every phase: a reply for a name below
	// alias.p. (DNAME) or for cn.p. / cnx.p. (CNAME) is composed of p.'s records and of what the c.p. servers say
	p.Add("www A 10.0.0.9", "alias DNAME "+vkZoneC, "cn CNAME www."+vkZoneC, "cnx CNAME "+vkLate)
	// the socket of the future c.p. server exists from the start (its zone "alt." is never asked for)
	alt := zonemodel.ZoneSpec{Apex: "alt.", Mode: zonemodel.Unsigned, Server: vkSrvCNew, NSAddr: vkAddrCNew, TTL: vkRecTTL}
	// v.p.: delegated by the stable parent in EVERY phase (NS TTL 3600, never withdrawn) to the single host nsv.c.p. —
	// out of v.p.'s bailiwick, so the referral carries no glue and the address has to be resolved through c.p.'s
	// delegation. The old c.p. server publishes nsv A -> v-old, the re-pointed one nsv A -> v-new (same keys, other
	// marker); in the withdrawn phase nsv.c.p. does not exist (p. answers NXDOMAIN below c.p.) and v.p. has no
	// reachable server. The socket of v-new exists from the start (zone "altv." is never asked for).
	vSrv, vAddr, vA := vkSrvVOld, vkAddrVOld, vkOldVA
	if phase == vkPhaseRepointed {
		vSrv, vAddr, vA = vkSrvVNew, vkAddrVNew, vkNewVA
	}
	v := u.AddZone(zonemodel.ZoneSpec{Apex: vkZoneV, Mode: mode, Alg: alg, CSK: true, Server: vSrv, NSHost: vkNSV, NSAddr: vAddr, TTL: vkRecTTL})
	v.Add("www A "+vA, "w2 A "+vA)
	altv := zonemodel.ZoneSpec{Apex: "altv.", Mode: zonemodel.Unsigned, Server: vkSrvVNew, NSAddr: vkAddrVNew, TTL: vkRecTTL}
	switch phase {
	case vkPhaseOrig:
		c := u.AddZone(zonemodel.ZoneSpec{Apex: vkZoneC, Mode: mode, Alg: alg, CSK: true, Server: vkSrvCOld, NSAddr: vkAddrCOld, TTL: vkRecTTL})
		c.Add("www A "+vkOldA, "nsb A "+vkAddrCOld, "ghost A "+vkAddrCOld, "nsv A "+vkAddrVOld)
		u.AddZone(altv)
		g := u.AddZone(zonemodel.ZoneSpec{Apex: vkZoneG, Mode: mode, Alg: alg, CSK: true, Server: vkSrvGOld, NSAddr: vkAddrGOld, TTL: vkRecTTL})
		g.Add("www A " + vkOldGA)
		u.AddZone(alt)
	case vkPhaseRepointed:
		c := u.AddZone(zonemodel.ZoneSpec{Apex: vkZoneC, Mode: mode, Alg: alg, CSK: true, Server: vkSrvCNew, NSHost: "ns2.c.p.", NSAddr: vkAddrCNew, TTL: vkRecTTL})
		c.Add("www A "+vkNewA, "late A "+vkNewLate, "nsv A "+vkAddrVNew)
	case vkPhaseWithdrawn:
		u.AddZone(alt)
	}
	return u.Build()
}

func vkGetWorld(k vkWorldKey) (*vkWorld, error) {
	if w := vkWorlds[k]; w != nil {
		return w, nil
	}
	w := &vkWorld{key: k}
	for ph := range w.u {
		w.u[ph] = vkUniverse(ph, k.dnssec)
	}
	// the served universe is the original one (it owns every socket: root, p., c-old, g-old, c-new)
	sim, err := authsim.Start(w.u[vkPhaseOrig])
	if err != nil {
		return nil, err
	}
	if sim.Addr(vkSrvCNew) == "" || sim.Addr(vkSrvCOld) == "" || sim.Addr(vkSrvGOld) == "" || sim.Addr(vkSrvVOld) == "" || sim.Addr(vkSrvVNew) == "" {
		return nil, fmt.Errorf("C08: universe lacks a server socket")
	}
	w.sim = sim
	pl, err := h_resolver.New(sim, h_resolver.Options{DNSSECOff: !k.dnssec, RecycleEvery: 1500, Mod: func(cfg *config.Config) {
		if k.prefetch {
			cfg.Prefetch = 90
		}
	}})
	if err != nil {
		return nil, err
	}
	w.pl = pl
	vkWorlds[k] = w
	return w, nil
}

func vkServerZone(server string) string {
	switch server {
	case vkSrvP:
		return vkZoneP
	case vkSrvCOld, vkSrvCNew:
		return vkZoneC
	case vkSrvGOld:
		return vkZoneG
	case vkSrvVOld, vkSrvVNew:
		return vkZoneV
	}
	return "."
}

func vkLevel(zone string) int {
	switch zone {
	case vkZoneP:
		return 0
	case vkZoneC:
		return 1
	case vkZoneG:
		return 2
	}
	return -1
}

// honest is installed with sim.SetHonest: it picks the universe of the current
// phase for the parent's server, applies the configured lease TTLs and child
// behaviour, and records the exchange.
func (w *vkWorld) honest(server string, q dns.Question, do bool) *dns.Msg {
	w.mu.Lock()
	cfg, phase := w.cfg, w.phase
	w.mu.Unlock()
	at := vtime.Now()
	var m *dns.Msg
	switch server {
	case vkSrvP:
		m = w.u[phase].ServerAnswer(vkSrvP, q, do)
	case vkSrvCNew:
		if phase == vkPhaseRepointed {
			m = w.u[vkPhaseRepointed].ServerAnswer(vkSrvCNew, q, do)
		} else {
			m = w.u[vkPhaseOrig].ServerAnswer(vkSrvCNew, q, do)
		}
	case vkSrvVNew:
		m = w.u[vkPhaseRepointed].ServerAnswer(vkSrvVNew, q, do) // whoever learns its address finds v.p. with the new marker
	default:
		m = w.u[vkPhaseOrig].ServerAnswer(server, q, do)
	}
	m = m.Copy()
	e := vkExchange{Server: server, QName: zonemodel.Canon(q.Name), QType: q.Qtype, At: at}

	// the parent's DS RRset for c.p. made unusable (and re-signed by p.)
	if (cfg.Beh == "unsupds" || cfg.Beh == "unsupalg") && server == vkSrvP {
		w.unusableDS(m, phase, cfg.Beh)
	}

	// child behaviours
	switch {
	case cfg.Beh == "selfref" && server == vkSrvCOld && phase != vkPhaseOrig:
		r := new(dns.Msg)
		r.Question = []dns.Question{q}
		r.Ns = []dns.RR{&dns.NS{Hdr: dns.RR_Header{Name: vkZoneC, Rrtype: dns.TypeNS, Class: dns.ClassINET, Ttl: 7 * 86400}, Ns: "ns.c.p."}}
		r.Extra = []dns.RR{vkA("ns.c.p.", vkAddrCOld, 7*86400)}
		m = r
		e.SelfRef = true
	case cfg.Beh == "authns" && server == vkSrvCOld && m.Authoritative && m.Rcode == dns.RcodeSuccess && len(m.Answer) > 0:
		if q.Qtype == dns.TypeNS && zonemodel.Canon(q.Name) == vkZoneC {
			m.Answer = []dns.RR{&dns.NS{Hdr: dns.RR_Header{Name: vkZoneC, Rrtype: dns.TypeNS, Class: dns.ClassINET, Ttl: 7 * 86400}, Ns: vkGhost}}
		} else {
			m.Ns = append(m.Ns, &dns.NS{Hdr: dns.RR_Header{Name: vkZoneC, Rrtype: dns.TypeNS, Class: dns.ClassINET, Ttl: 7 * 86400}, Ns: vkGhost})
		}
		m.Extra = append(m.Extra, vkA(vkGhost, vkAddrCOld, 7*86400))
	case (cfg.Beh == "bigttl" || cfg.Beh == "tinyttl") && (server == vkSrvCOld || server == vkSrvGOld) && m.Authoritative:
		ttl := uint32(7 * 86400)
		if cfg.Beh == "tinyttl" {
			ttl = 1
		}
		for _, sec := range [][]dns.RR{m.Answer, m.Ns, m.Extra} {
			for _, rr := range sec {
				if t := rr.Header().Rrtype; t != dns.TypeOPT && (t != dns.TypeRRSIG || ttl == 1) {
					rr.Header().Ttl = ttl
				}
			}
		}
	}

	// referral bookkeeping + configured lease TTLs
	if !e.SelfRef && !m.Authoritative && m.Rcode == dns.RcodeSuccess && len(m.Answer) == 0 {
		for _, rr := range m.Ns {
			if ns, ok := rr.(*dns.NS); ok {
				e.Referral = zonemodel.Canon(ns.Hdr.Name)
				break
			}
		}
	}
	if lvl := vkLevel(e.Referral); e.Referral != "" && lvl >= 0 {
		e.NSTTL, e.DSTTL = cfg.NS[lvl], cfg.DS[lvl]
		for _, rr := range m.Ns {
			h := rr.Header()
			switch x := rr.(type) {
			case *dns.NS:
				h.Ttl = e.NSTTL
			case *dns.DS:
				h.Ttl = e.DSTTL
				e.HasDS = true
			case *dns.RRSIG:
				if x.TypeCovered == dns.TypeDS {
					h.Ttl = e.DSTTL
				}
			}
		}
		for _, rr := range m.Extra {
			if a, ok := rr.(*dns.A); ok {
				a.Hdr.Ttl = e.NSTTL
				e.Target = w.sim.ServerOf(a.A.String() + ":53")
			}
		}
		if cfg.Beh == "twons" && e.Referral == vkZoneC && phase == vkPhaseOrig {
			m.Ns = append(m.Ns, &dns.NS{Hdr: dns.RR_Header{Name: vkZoneC, Rrtype: dns.TypeNS, Class: dns.ClassINET, Ttl: e.NSTTL}, Ns: vkNSB})
		}
	} else if e.Referral == vkZoneV {
		// the stable sibling: TTLs as published (3600), no glue — the referral designates a HOST, not a server
		for _, rr := range m.Ns {
			switch x := rr.(type) {
			case *dns.NS:
				e.NSTTL, e.NSHost = x.Hdr.Ttl, zonemodel.Canon(x.Ns)
			case *dns.DS:
				e.DSTTL, e.HasDS = x.Hdr.Ttl, true
			}
		}
	} else if e.Referral != "" {
		e.Referral = "" // a referral for a zone outside the chain (never happens in this universe)
	}
	// the address of v.p.'s name-server host as published by whichever c.p. server was asked
	if e.QName == vkNSV && q.Qtype == dns.TypeA && m.Authoritative {
		for _, rr := range m.Answer {
			if a, ok := rr.(*dns.A); ok {
				e.AddrOf = w.sim.ServerOf(a.A.String() + ":53")
			}
		}
	}
	// DS answered by the parent side: same configured TTL as in the referral
	if q.Qtype == dns.TypeDS && m.Authoritative && len(m.Answer) > 0 {
		if lvl := vkLevel(zonemodel.Canon(q.Name)); lvl >= 0 {
			for _, rr := range m.Answer {
				switch x := rr.(type) {
				case *dns.DS:
					x.Hdr.Ttl = cfg.DS[lvl]
				case *dns.RRSIG:
					if x.TypeCovered == dns.TypeDS {
						x.Hdr.Ttl = cfg.DS[lvl]
					}
				}
			}
		}
	}
	e.Rcode, e.AA = m.Rcode, m.Authoritative
	e.Negative = m.Authoritative && len(m.Answer) == 0 && (m.Rcode == dns.RcodeNameError || m.Rcode == dns.RcodeSuccess)

	// virtual latency
	switch {
	case cfg.Beh == "twons" && e.QName == vkNSB && q.Qtype == dns.TypeA && server == vkSrvCOld:
		e.Lag = 3
	case cfg.Beh == "lagval" && q.Qtype == dns.TypeDNSKEY && ((server == vkSrvP && e.QName == vkZoneP) || (server == vkSrvRoot && e.QName == ".")):
		e.Lag = 3
	}
	w.mu.Lock()
	w.ex = append(w.ex, e)
	w.mu.Unlock()
	if e.Lag > 0 {
		vtime.Advance(time.Duration(e.Lag) * time.Second)
	}
	return m
}

// unusableDS replaces, in a response of p.'s server, the DS RRset of c.p. (authority section of a referral, answer
// section of a DS answer) by a single DS the validator cannot use and p.'s signature over it by a genuine one over the
// new RRset. Owner, class, TTL (rewritten later to the configured DS TTL) stay; everything else of the message too.
func (w *vkWorld) unusableDS(m *dns.Msg, phase int, beh string) {
	zp := w.u[phase].Zone(vkZoneP)
	if zp == nil || zp.ZSK == nil {
		return
	}
	fix := func(sec []dns.RR) []dns.RR {
		var old *dns.DS
		for _, rr := range sec {
			if ds, ok := rr.(*dns.DS); ok && zonemodel.Canon(ds.Hdr.Name) == vkZoneC {
				old = ds
				break
			}
		}
		if old == nil {
			return sec
		}
		nds := &dns.DS{Hdr: old.Hdr, KeyTag: old.KeyTag, Algorithm: old.Algorithm, DigestType: 3, // GOST R 34.11-94: 32 octets
			Digest: "00112233445566778899aabbccddeeff00112233445566778899aabbccddeeff"}
		if beh == "unsupalg" {
			nds.Algorithm, nds.DigestType, nds.Digest = 16, dns.SHA256, old.Digest // Ed448
		}
		// not zp.Sign: its cache is keyed by (owner, type, key, RRset size) and holds the signature of the genuine DS
		sig := zonemodel.SignWith(zp.ZSK, vkZoneP, []dns.RR{nds}, w.u[phase].Now)
		var out []dns.RR
		done := false
		for _, rr := range sec {
			switch x := rr.(type) {
			case *dns.DS:
				if zonemodel.Canon(x.Hdr.Name) == vkZoneC {
					if !done {
						out, done = append(out, nds), true
					}
					continue
				}
			case *dns.RRSIG:
				if x.TypeCovered == dns.TypeDS && zonemodel.Canon(x.Hdr.Name) == vkZoneC {
					sig.Hdr.Ttl = x.Hdr.Ttl
					out = append(out, sig)
					continue
				}
			}
			out = append(out, rr)
		}
		return out
	}
	m.Answer, m.Ns = fix(m.Answer), fix(m.Ns)
}

func vkA(name, addr string, ttl uint32) *dns.A {
	rr, _ := dns.NewRR(fmt.Sprintf("%s %d IN A %s", name, ttl, addr))
	return rr.(*dns.A)
}

// reset returns resolver, cache, simulation, clock and reference to the cold state.
func (w *vkWorld) reset(cfg vkCfg) {
	w.waitIdle()
	w.pl.Reset()
	vtime.SetOffset(0)
	w.mu.Lock()
	w.cfg, w.phase, w.ex = cfg, vkPhaseOrig, nil
	w.mu.Unlock()
	w.sim.SetHonest(w.honest)
	w.t0 = vtime.Now()
	w.ref = vkNewRef(w)
	w.broken = ""
}

// waitIdle blocks until no background refresh is queued or running. A refresh is claimed (flag on the entry that was
// hit) synchronously on the hit path, before the client's reply is written, and the claim is released by the worker's
// last deferred call — after the refreshed entry and its side effects (denial proofs, subtree cuts) are stored. hit is
// the pre-ask handle of the entry the ask could hit (nil = none).
func (w *vkWorld) waitIdle(hits ...any) bool {
	if !w.key.prefetch {
		return true
	}
	claimed := func() bool {
		for _, hit := range hits {
			if hit != nil && cache.VerifC08Claimed(hit) {
				return true
			}
		}
		return false
	}
	deadline := time.Now().Add(7 * time.Second) // beyond the refresh worker's own 5 s bound
	for spin := 0; ; spin++ {
		if !claimed() && !cache.VerifC08PrefetchBusy(w.pl.Cache()) {
			return true
		}
		if spin < 2000 {
			runtime.Gosched()
			continue
		}
		if time.Now().After(deadline) {
			return false
		}
		time.Sleep(50 * time.Microsecond)
	}
}

func (w *vkWorld) exchanges() []vkExchange {
	w.mu.Lock()
	defer w.mu.Unlock()
	return append([]vkExchange(nil), w.ex...)
}

func (w *vkWorld) setPhase(p int) {
	w.mu.Lock()
	w.phase = p
	w.mu.Unlock()
}

func (w *vkWorld) rel(t time.Time) string {
	if t.IsZero() {
		return "never"
	}
	return fmt.Sprintf("%.3fs", t.Sub(w.t0).Seconds())
}

// deleg reads the implementation's delegation table.
func (w *vkWorld) deleg(zone string, cd bool) resolver.VerifC08Deleg {
	return resolver.VerifC08Delegation(w.pl.Resolver(), zone, cd)
}

func vkExStr(ex []vkExchange) string {
	var s []string
	for _, e := range ex {
		s = append(s, e.String())
	}
	return strings.Join(s, " ; ")
}
