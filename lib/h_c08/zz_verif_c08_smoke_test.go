//go:build verif

package h_c08

// Manual aid: VERIF_SMOKE=1 <binary> -test.run TestVerifC08Smoke -test.v
// prints one history step by step (VERIF_C08_HIST = JSON {"cfg":…,"hist":[…]} overrides the default).

import (
	"encoding/json"
	"fmt"
	"os"
	"testing"
	"time"

	"github.com/miekg/dns"
)

func TestVerifC08Smoke(t *testing.T) {
	if os.Getenv("VERIF_SMOKE") == "" {
		t.Skip("manual aid")
	}
	sc := vkScenario{Cfg: vkCfg{NS: [3]uint32{40, 6, 40}, DS: [3]uint32{3600, 3600, 3600}, Beh: "honest"},
		Hist: []vkEv{
			{K: "q", Name: "www.c.p.", Type: dns.TypeA}, {K: "q", Name: "www.g.c.p.", Type: dns.TypeA}, {K: "q", Name: "nx.c.p.", Type: dns.TypeA},
			{K: "q", Name: "c.p.", Type: dns.TypeNS}, {K: "q", Name: "c.p.", Type: dns.TypeDS},
			{K: "adv", D: 3}, {K: "q", Name: "www.c.p.", Type: dns.TypeA}, {K: "withdraw"}, {K: "q", Name: "www.c.p.", Type: dns.TypeA},
			{K: "adv", D: 3}, {K: "q", Name: "www.c.p.", Type: dns.TypeA}, {K: "q", Name: "www.g.c.p.", Type: dns.TypeA}, {K: "q", Name: "nx.c.p.", Type: dns.TypeA},
		}}
	if s := os.Getenv("VERIF_C08_HIST"); s != "" {
		sc = vkScenario{}
		if err := json.Unmarshal([]byte(s), &sc); err != nil {
			t.Fatal(err)
		}
	}
	w, err := vkGetWorld(vkWorldKey{dnssec: sc.Cfg.DNSSEC, prefetch: sc.Cfg.Prefetch})
	if err != nil {
		t.Fatal(err)
	}
	w.reset(sc.Cfg)
	vkVerbose = true
	fmt.Println("cfg:", sc.Cfg)
	for i, ev := range sc.Hist {
		n0 := len(w.exchanges())
		st := w.apply(ev)
		d, nt := w.digest()
		fmt.Printf("#%d %-22s -> %-28s up=%d el=%s\n    reply: "+st.Reply+"\n    upstream: %s\n    state(nontrivial=%v): %s\n", i, ev, st.Outcome, st.Upstream, st.Elapsed, vkExStr(w.exchanges()[n0:]), nt, d)
		if st.Viol != "" {
			fmt.Println("    VIOLATION["+st.Class+"]:", st.Viol)
			break
		}
	}
}

func TestVerifC08Bench(t *testing.T) {
	if os.Getenv("VERIF_SMOKE") == "" {
		t.Skip("manual aid")
	}
	w, err := vkGetWorld(vkWorldKey{})
	if err != nil {
		t.Fatal(err)
	}
	cfg := vkCfg{NS: [3]uint32{40, 6, 40}, Beh: "honest"}
	t0 := time.Now()
	for i := 0; i < 2000; i++ {
		w.reset(cfg)
	}
	fmt.Println("reset:", time.Since(t0)/2000)
	t0 = time.Now()
	for i := 0; i < 2000; i++ {
		w.reset(cfg)
		w.apply(vkEv{K: "q", Name: "www.g.c.p.", Type: dns.TypeA})
	}
	fmt.Println("reset+cold g ask (4 exchanges):", time.Since(t0)/2000)
	t0 = time.Now()
	for i := 0; i < 2000; i++ {
		w.digest()
	}
	fmt.Println("digest:", time.Since(t0)/2000)
}
