//go:build verif

// Package h_c17 is the cross-package harness of check C17: the REAL default
// middleware chain (middleware/defaults, everything ahead of the resolver:
// recovery, metrics, accesslist, ratelimit, reflex, edns, chaos, views,
// blocklist, as112, cache, ...) built exactly as sdns builds it
// (DefaultRegistry.Build + the production autoWire), with a counting stub in
// the resolver's place.
package h_c17

// Unit "pipeline":
//
//  1. client traffic: for every access list x source x transport x entry path,
//     the query is preceded by the SAME question from an admitted client (so a
//     cached answer exists). Denied => nothing reaches the transport and the
//     stub (= everything behind the cache) sees no new invocation. Admitted
//     => exactly one reply; a fresh name reaches the stub exactly once.
//  2. structure: in the built chain accesslist precedes every handler that can
//     answer or resolve; the internal sub-pipelines the production autoWire
//     hands to handlers (queryer and prefetch queryer) contain none of
//     accesslist / ratelimit / reflex / views.
//  3. internal sub-queries: with an access list that excludes the internal
//     sink's address, a 1/min client rate limit, reflex on and a view that
//     covers the sink's address, N internal sub-queries through the real
//     Queryer all reach the stub and carry the stub's answer (not the view's).

import (
	"context"
	"encoding/json"
	"fmt"
	"net"
	"net/netip"
	"os"
	"strings"
	"testing"
	"time"

	"github.com/miekg/dns"
	"github.com/semihalev/sdns/config"
	"github.com/semihalev/sdns/internal/verifshim/vkit"
	"github.com/semihalev/sdns/middleware"
	"github.com/semihalev/sdns/middleware/defaults"
	"github.com/semihalev/zlog/v2"
)

const vkStubAddr = "203.0.113.99"

type vkStub struct {
	calls    int
	queryer  middleware.Queryer
	prefetch middleware.Queryer
}

func (s *vkStub) Name() string                            { return "vkstub" }
func (s *vkStub) SetQueryer(q middleware.Queryer)         { s.queryer = q }
func (s *vkStub) SetPrefetchQueryer(q middleware.Queryer) { s.prefetch = q }
func (s *vkStub) ServeDNS(ctx context.Context, ch *middleware.Chain) {
	s.calls++
	_, req := ch.Materialize(ctx)
	if req == nil {
		return
	}
	m := new(dns.Msg)
	m.SetReply(req)
	m.RecursionAvailable = true
	if req.Question[0].Qtype == dns.TypeA {
		rr, _ := dns.NewRR(req.Question[0].Name + " 300 IN A " + vkStubAddr)
		m.Answer = []dns.RR{rr}
	}
	_ = ch.Writer.WriteMsg(m)
	ch.Cancel()
}

type vkTransport struct {
	remote net.Addr
	proto  string
	msgs   []*dns.Msg
	bad    int
}

func (t *vkTransport) LocalAddr() net.Addr {
	return &net.UDPAddr{IP: net.IPv4(192, 0, 2, 53), Port: 53}
}
func (t *vkTransport) RemoteAddr() net.Addr { return t.remote }
func (t *vkTransport) WriteMsg(m *dns.Msg) error {
	t.msgs = append(t.msgs, m)
	return nil
}
func (t *vkTransport) Write(b []byte) (int, error) {
	m := new(dns.Msg)
	if err := m.Unpack(b); err != nil {
		t.bad++
		return len(b), nil
	}
	t.msgs = append(t.msgs, m)
	return len(b), nil
}
func (t *vkTransport) Close() error  { return nil }
func (t *vkTransport) Proto() string { return t.proto }

var vkTransports = []string{"udp", "tcp", "doh", "doq"}

func vkNewTransport(kind string, ip net.IP) *vkTransport {
	switch kind {
	case "udp":
		return &vkTransport{remote: &net.UDPAddr{IP: ip, Port: 40000}}
	case "tcp":
		return &vkTransport{remote: &net.TCPAddr{IP: ip, Port: 40000}}
	case "doh":
		return &vkTransport{remote: &net.TCPAddr{IP: ip, Port: 40000}, proto: "doh"}
	case "doq":
		return &vkTransport{remote: &net.UDPAddr{IP: ip, Port: 40000}, proto: "doq"}
	}
	return nil
}

var vkEntries = []string{"msg", "wire", "wire-inline"}

type vkPipe struct {
	p    *middleware.Pipeline
	stub *vkStub
	dir  string
}

// vkBuild builds the real default chain up to the resolver + stub, and wires it
// with the production autoWire. Nothing is published globally.
func vkBuild(cfgMod func(*config.Config)) (*vkPipe, error) {
	dir, err := os.MkdirTemp("", "vk-c17-")
	if err != nil {
		return nil, err
	}
	middleware.Reset()
	defaults.RegisterUpTo("resolver")
	stub := &vkStub{}
	middleware.Register("vkstub", func(*config.Config) middleware.Handler { return stub })
	cfg := &config.Config{
		Bind:         "127.0.0.1:0",
		Expire:       600,
		CacheSize:    10240,
		CookieSecret: "6c6f6f6b61686172646c6f6f6b6168617264",
		Directory:    dir,
		BlockListDir: dir + "/bl",
		Nullroute:    "0.0.0.0",
		Nullroutev6:  "::0",
	}
	cfg.QueryTimeout.Duration = 10 * time.Second
	cfgMod(cfg)
	p := middleware.DefaultRegistry.Build(cfg)
	middleware.VkAutoWire(p)
	middleware.Reset()
	return &vkPipe{p: p, stub: stub, dir: dir}, nil
}

func (vp *vkPipe) close() { _ = os.RemoveAll(vp.dir) }

func (vp *vkPipe) names() []string {
	var out []string
	for _, h := range vp.p.Handlers() {
		out = append(out, h.Name())
	}
	return out
}

// serve runs one client query; returns replies written and stub-call delta.
func (vp *vkPipe) serve(kind, entry string, ip net.IP, q *dns.Msg) (*vkTransport, int, string) {
	tr := vkNewTransport(kind, ip)
	before := vp.stub.calls
	ch := vp.p.NewChain()
	if entry == "msg" {
		ch.Reset(tr, q.Copy())
	} else {
		raw, err := q.Pack()
		if err != nil {
			return nil, 0, "pack: " + err.Error()
		}
		req := new(middleware.Request)
		if !req.ParseWire(raw, time.Now(), nil) {
			return nil, 0, "ParseWire refused a plain query"
		}
		ch.ResetWire(tr, req)
		ch.AllowDirectPack()
		if entry == "wire-inline" {
			ch.SetInlineOnly()
		}
	}
	ctx, cancel := context.WithTimeout(context.Background(), 5*time.Second)
	ch.Next(ctx)
	handoff := ch.Handoff()
	cancel()
	vp.p.PutChain(ch)
	if handoff && len(tr.msgs) == 0 {
		// the inline pass declined blocking work; the transport replays on a worker
		ch = vp.p.NewChain()
		raw, _ := q.Pack()
		req := new(middleware.Request)
		req.ParseWire(raw, time.Now(), nil)
		ch.ResetWire(tr, req)
		ch.AllowDirectPack()
		ch.SetReplay()
		ctx, cancel := context.WithTimeout(context.Background(), 5*time.Second)
		ch.Next(ctx)
		cancel()
		vp.p.PutChain(ch)
	}
	return tr, vp.stub.calls - before, ""
}

type vkList struct {
	name  string
	cidrs []string
	valid []bool
}

var vkLists = []vkList{
	{"v4-28", []string{"10.0.0.16/28"}, []bool{true}},
	{"nested+bad", []string{"10.0.0.16/28", "10.0.0.24/29", "bogus/0"}, []bool{true, true, false}},
	{"hostbits+v6", []string{"10.0.0.37/28", "2001:db8:0:1:8000::/65"}, []bool{true, true}},
	{"only-bad", []string{"10.0.0.16/33", "bogus/0"}, []bool{false, false}},
	{"v6-all", []string{"::/0"}, []bool{true}},
	{"v4-upper-half", []string{"128.0.0.0/1", "10.0.0.16"}, []bool{true, false}},
}

func (l vkList) member(a netip.Addr) bool {
	for i, s := range l.cidrs {
		if l.valid[i] && netip.MustParsePrefix(s).Masked().Contains(a.Unmap()) {
			return true
		}
	}
	return false
}

type vkSrc struct {
	name string
	ip   net.IP
	addr netip.Addr
}

func vkSources() []vkSrc {
	var out []vkSrc
	v4 := func(a, b, c, d byte) {
		ad := netip.AddrFrom4([4]byte{a, b, c, d})
		out = append(out, vkSrc{name: ad.String(), ip: net.IP{a, b, c, d}, addr: ad})
		out = append(out, vkSrc{name: "::ffff:" + ad.String(), ip: net.IPv4(a, b, c, d), addr: ad})
	}
	// 198.51.100.0/24-style public sources: ratelimit/reflex ignore loopback
	for _, q := range [][4]byte{{10, 0, 0, 15}, {10, 0, 0, 16}, {10, 0, 0, 24}, {10, 0, 0, 31}, {10, 0, 0, 32},
		{10, 0, 0, 47}, {10, 0, 0, 48}, {198, 51, 100, 7}, {127, 255, 255, 255}} {
		v4(q[0], q[1], q[2], q[3])
	}
	for _, s := range []string{"2001:db8:0:1:7fff:ffff:ffff:ffff", "2001:db8:0:1:8000::", "2001:db8:0:2::"} {
		ad := netip.MustParseAddr(s)
		b := ad.As16()
		out = append(out, vkSrc{name: s, ip: append(net.IP(nil), b[:]...), addr: ad})
	}
	return out
}

type vkCase struct {
	Scenario  string `json:"scenario"`
	List      string `json:"list,omitempty"`
	Src       string `json:"src,omitempty"`
	Transport string `json:"transport,omitempty"`
	Entry     string `json:"entry,omitempty"`
}

func (k vkCase) key() string {
	if k.Scenario != "client" {
		return "pipeline:" + k.Scenario
	}
	return fmt.Sprintf("pipeline:client list=%s src=%s %s/%s", k.List, k.Src, k.Transport, k.Entry)
}

var vkSeq int

// vkLastWarmed: whether the last vkClientCase found an admitted client to warm the cache with.
var vkLastWarmed bool

func vkFreshName() string {
	vkSeq++
	return fmt.Sprintf("n%d.c17.example.org.", vkSeq)
}

func vkQuestion(name string) *dns.Msg {
	m := new(dns.Msg)
	m.SetQuestion(name, dns.TypeA)
	m.SetEdns0(1232, false)
	return m
}

// vkClientCase: warm the cache with the same question from an admitted client
// (when the list admits any of our sources), then ask from src.
func vkClientCase(vp *vkPipe, l vkList, srcs []vkSrc, src vkSrc, tr, en string) (string, string) {
	name := vkFreshName()
	q := vkQuestion(name)
	warmed := false
	for _, s := range srcs {
		if l.member(s.addr) {
			wt, n, e := vp.serve("udp", "msg", s.ip, q)
			if e != "" {
				return "", e
			}
			if n != 1 || len(wt.msgs) != 1 {
				return fmt.Sprintf("admitted client %s asking a fresh name: downstream ran %d time(s), %d replies (want 1/1)", s.name, n, len(wt.msgs)), ""
			}
			warmed = true
			break
		}
	}
	vkLastWarmed = warmed
	member := l.member(src.addr)
	t, n, e := vp.serve(tr, en, src.ip, q)
	if e != "" {
		return "", e
	}
	if !member {
		if len(t.msgs)+t.bad != 0 {
			rc := ""
			if len(t.msgs) > 0 {
				rc = " (rcode " + dns.RcodeToString[t.msgs[0].Rcode] + fmt.Sprintf(", %d answers)", len(t.msgs[0].Answer))
			}
			return fmt.Sprintf("source outside the access list received %d reply message(s)%s; cache warmed by an admitted client: %v", len(t.msgs)+t.bad, rc, warmed), ""
		}
		if n != 0 {
			return fmt.Sprintf("source outside the access list caused %d downstream (post-cache) invocation(s)", n), ""
		}
		return "", ""
	}
	if len(t.msgs) != 1 || t.bad != 0 {
		return fmt.Sprintf("admitted source got %d replies (%d undecodable), want exactly 1", len(t.msgs), t.bad), ""
	}
	if t.msgs[0].Rcode != dns.RcodeSuccess || len(t.msgs[0].Answer) != 1 {
		return fmt.Sprintf("admitted source got rcode %s with %d answers, want the downstream answer", dns.RcodeToString[t.msgs[0].Rcode], len(t.msgs[0].Answer)), ""
	}
	if !warmed && n != 1 {
		return fmt.Sprintf("admitted source asking a fresh name: downstream ran %d time(s), want 1", n), ""
	}
	return "", ""
}

var vkMustFollowACL = []string{"ratelimit", "edns", "chaos", "hostsfile", "views", "blocklist", "as112", "kubernetes",
	"dns64", "cache", "failover", "resolver", "forwarder", "vkstub"}
var vkClientPolicy = []string{"accesslist", "ratelimit", "reflex", "views"}

func vkIndex(names []string, n string) int {
	for i, x := range names {
		if x == n {
			return i
		}
	}
	return -1
}

func vkStructure(vp *vkPipe) [][2]string {
	var out [][2]string
	names := vp.names()
	ai := vkIndex(names, "accesslist")
	if ai < 0 {
		return [][2]string{{"accesslist-missing", fmt.Sprintf("accesslist is not in the built default chain %v", names)}}
	}
	for _, n := range vkMustFollowACL {
		if i := vkIndex(names, n); i >= 0 && i < ai {
			out = append(out, [2]string{n + "-before-accesslist", fmt.Sprintf("handler %q (which can answer or resolve) runs before accesslist in the default chain %v", n, names)})
		}
	}
	for which, q := range map[string]middleware.Queryer{"queryer": vp.stub.queryer, "prefetch-queryer": vp.stub.prefetch} {
		sub := middleware.VkQueryerHandlerNames(q)
		if sub == nil {
			out = append(out, [2]string{"no-" + which, "autoWire did not hand a pipeline " + which + " to a QueryerSetter handler"})
			continue
		}
		for _, n := range vkClientPolicy {
			if vkIndex(sub, n) >= 0 {
				out = append(out, [2]string{n + "-in-internal-" + which, fmt.Sprintf("client-policy handler %q is part of the internal %s sub-pipeline %v", n, which, sub)})
			}
		}
		if vkIndex(sub, "vkstub") < 0 {
			out = append(out, [2]string{which + "-misses-resolver-position", fmt.Sprintf("internal %s sub-pipeline %v does not reach the resolver position", which, sub)})
		}
	}
	return out
}

func vkInternalCfg(cfg *config.Config) {
	cfg.AccessList = []string{"10.0.0.16/28"}
	cfg.ClientRateLimit = 1
	cfg.ReflexEnabled = true
	cfg.ReflexBlockMode = true
	cfg.Views = []config.ViewConfig{{
		Zone:     "internal-trap",
		Networks: []string{"127.0.0.0/8", "10.0.0.16/28"},
		Answers:  []string{"*.c17.example.org. 60 IN A 192.0.2.1"},
	}}
}

// vkInternal: returns violations (key suffix -> message).
func vkInternal(c *vkit.Ctx, vp *vkPipe) map[string]string {
	out := map[string]string{}
	// non-vacuity: the view and the access list are live for client traffic
	t, n, e := vp.serve("udp", "msg", net.IP{10, 0, 0, 17}, vkQuestion(vkFreshName()))
	if e != "" {
		c.HarnessError(e)
		return out
	}
	if n != 0 || len(t.msgs) != 1 || len(t.msgs[0].Answer) != 1 || !strings.Contains(t.msgs[0].Answer[0].String(), "192.0.2.1") {
		c.HarnessError(fmt.Sprintf("internal scenario not armed: admitted client inside the view got %d replies, downstream %d", len(t.msgs), n))
		return out
	}
	c.Outcome("internal-scenario:view-live-for-clients")
	t, n, _ = vp.serve("udp", "msg", net.IP{10, 0, 0, 40}, vkQuestion(vkFreshName()))
	if n != 0 || len(t.msgs) != 0 {
		out["armed-acl"] = fmt.Sprintf("client 10.0.0.40 is outside [10.0.0.16/28] but got %d replies / %d downstream runs", len(t.msgs), n)
	} else {
		c.Outcome("internal-scenario:acl-live-for-clients")
	}
	for which, q := range map[string]middleware.Queryer{"queryer": vp.stub.queryer, "prefetch": vp.stub.prefetch} {
		if q == nil {
			out["no-"+which] = "autoWire handed no " + which + " to the QueryerSetter handler"
			continue
		}
		for i := 0; i < 5; i++ {
			name := vkFreshName()
			before := vp.stub.calls
			req := new(dns.Msg)
			req.SetQuestion(name, dns.TypeA)
			req.RecursionDesired = true
			resp, err := q.Query(context.Background(), req)
			c.Add("evaluations", 1)
			d := vp.stub.calls - before
			switch {
			case err != nil || resp == nil:
				out[fmt.Sprintf("%s#%d", which, i)] = fmt.Sprintf("internal sub-query #%d through the %s got no answer (err=%v): it was subjected to client policy (access list excludes its sink address 127.0.0.255, rate limit 1/min)", i, which, err)
			case d != 1:
				out[fmt.Sprintf("%s#%d", which, i)] = fmt.Sprintf("internal sub-query #%d through the %s reached the resolver position %d time(s), want 1", i, which, d)
			case len(resp.Answer) != 1 || !strings.Contains(resp.Answer[0].String(), vkStubAddr):
				out[fmt.Sprintf("%s#%d", which, i)] = fmt.Sprintf("internal sub-query #%d through the %s was answered by a client view instead of the resolver position: %v", i, which, resp.Answer)
			default:
				c.Outcome("internal:" + which + ":reaches-downstream")
			}
		}
	}
	return out
}

func TestVerifC17Pipeline(t *testing.T) {
	c := vkit.Init("C17/pipeline")
	defer c.Close()
	zlog.SetLevel(zlog.LevelFatal)
	srcs := vkSources()
	srcBy := map[string]vkSrc{}
	for _, s := range srcs {
		srcBy[s.name] = s
	}
	listBy := map[string]vkList{}
	for _, l := range vkLists {
		listBy[l.name] = l
		for i, s := range l.cidrs {
			if _, err := netip.ParsePrefix(s); l.valid[i] != (err == nil) {
				c.HarnessError("validity flag wrong for " + s)
				return
			}
		}
	}

	runStructure := func(report bool) {
		vp, err := vkBuild(vkInternalCfg)
		if err != nil {
			c.HarnessError(err.Error())
			return
		}
		defer vp.close()
		c.Note(fmt.Sprintf("pipeline: built default chain %v; internal queryer sub-pipeline %v; prefetch sub-pipeline %v",
			vp.names(), middleware.VkQueryerHandlerNames(vp.stub.queryer), middleware.VkQueryerHandlerNames(vp.stub.prefetch)))
		for _, n := range vkClientPolicy {
			if vkIndex(vp.names(), n) < 0 {
				c.HarnessError("client-policy handler " + n + " is not enabled in the harness config, structure check would be vacuous")
				return
			}
		}
		c.Add("evaluations", 1)
		for _, v := range vkStructure(vp) {
			c.Violation("pipeline:structure:"+v[0], v[1], vkCase{Scenario: "structure"})
		}
		c.Outcome("structure-checked")
		for k, v := range vkInternal(c, vp) {
			c.Violation("pipeline:internal:"+k, v, vkCase{Scenario: "internal"})
		}
	}

	if c.Replay != nil {
		var k vkCase
		if err := json.Unmarshal(c.Replay, &k); err != nil {
			c.HarnessError("bad replay: " + err.Error())
			return
		}
		if k.Scenario != "client" {
			runStructure(true)
			return
		}
		l, ok1 := listBy[k.List]
		src, ok2 := srcBy[k.Src]
		if !ok1 || !ok2 {
			c.HarnessError("unknown replay list/source")
			return
		}
		vp, err := vkBuild(func(cfg *config.Config) { cfg.AccessList = append([]string(nil), l.cidrs...); cfg.ReflexEnabled = true })
		if err != nil {
			c.HarnessError(err.Error())
			return
		}
		defer vp.close()
		v, e := vkClientCase(vp, l, srcs, src, k.Transport, k.Entry)
		if e != "" {
			c.HarnessError(e)
			return
		}
		if v != "" {
			c.Violation(k.key(), k.key()+": "+v, nil)
		}
		return
	}

	// work items: one per access list, plus one for structure+internal
	for li, l := range vkLists {
		if !c.Mine(li) {
			continue
		}
		vp, err := vkBuild(func(cfg *config.Config) { cfg.AccessList = append([]string(nil), l.cidrs...); cfg.ReflexEnabled = true })
		if err != nil {
			c.HarnessError(err.Error())
			return
		}
		nIn, nOut := 0, 0
		for _, src := range srcs {
			for _, tr := range vkTransports {
				for _, en := range vkEntries {
					v, e := vkClientCase(vp, l, srcs, src, tr, en)
					if e != "" {
						c.HarnessError(e)
						vp.close()
						return
					}
					c.Add("evaluations", 1)
					k := vkCase{Scenario: "client", List: l.name, Src: src.name, Transport: tr, Entry: en}
					if v != "" {
						// confirm on a freshly built chain
						vp2, err := vkBuild(func(cfg *config.Config) { cfg.AccessList = append([]string(nil), l.cidrs...); cfg.ReflexEnabled = true })
						if err != nil {
							c.HarnessError(err.Error())
							return
						}
						v2, _ := vkClientCase(vp2, l, srcs, src, tr, en)
						vp2.close()
						if v2 == "" {
							c.HarnessError("pipeline violation did not reproduce: " + k.key() + ": " + v)
							vp.close()
							return
						}
						c.Violation(k.key(), k.key()+": "+v, k)
						if c.NumViolations() >= 3 {
							vp.close()
							return
						}
						continue
					}
					if l.member(src.addr) {
						c.Outcome("allowed:" + tr + "/" + en)
					} else if vkLastWarmed {
						c.Outcome("denied-after-cache-warm:" + tr + "/" + en)
					} else {
						c.Outcome("denied-cold:" + tr + "/" + en)
					}
				}
			}
			if l.member(src.addr) {
				nIn++
			} else {
				nOut++
			}
			c.DistinctStr("nontrivial", "pipeline|"+l.name+"|"+src.name)
		}
		c.Sample(map[string]any{"access_list": l.cidrs, "sources_allowed": nIn, "sources_denied": nOut, "chain": vp.names()})
		vp.close()
	}
	if c.Mine(len(vkLists)) {
		runStructure(true)
	}
}
