// Package vkcount is a plain event counter for verif-only overlay hooks: a
// one-line `vkcount.Bump("<kind>")` textually patched (vk unit key "patch",
// build copy only) into the entry of a function that performs a real primitive
// operation, and the same call made by the harness's work adapter when it
// grants or releases a reservation. Counts and the ORDER of events are kept so
// an oracle can require every operation to be preceded by its own reservation.
// No dependencies beyond sync; a no-op cost of one mutex per event.
package vkcount

import "sync"

const maxLog = 1 << 14

var (
	mu     sync.Mutex
	counts = map[string]int{}
	log    []string
	lost   int
)

// Bump records one event of the given kind.
func Bump(kind string) {
	mu.Lock()
	counts[kind]++
	if len(log) < maxLog {
		log = append(log, kind)
	} else {
		lost++
	}
	mu.Unlock()
}

// Snapshot returns a copy of the per-kind counts since the last Reset.
func Snapshot() map[string]int {
	mu.Lock()
	defer mu.Unlock()
	out := make(map[string]int, len(counts))
	for k, v := range counts {
		out[k] = v
	}
	return out
}

// Log returns a copy of the ordered event log since the last Reset and the
// number of events that did not fit (0 unless more than 16384 events happened).
func Log() ([]string, int) {
	mu.Lock()
	defer mu.Unlock()
	return append([]string(nil), log...), lost
}

// Reset clears counts and log.
func Reset() {
	mu.Lock()
	counts = map[string]int{}
	log = log[:0]
	lost = 0
	mu.Unlock()
}
