// Package authsim serves a zonemodel.Universe over real UDP and TCP sockets on
// 127.0.0.1: one listener pair per model "server" (a server may host several
// zones, e.g. parent and child). NS hosts of the model carry TEST-NET addresses;
// Remap translates "192.0.2.x:53" into the loopback socket of the server behind
// it and is meant for the resolver's resolveTarget seam.
//
// Per (server, qname, qtype, occurrence) a scripted Transformer may rewrite the
// honest response or change its delivery. Every received query is logged.
// Nothing here is timed: behaviour depends only on the scripted keys and on
// the order in which queries arrive.
package authsim

import (
	"encoding/binary"
	"fmt"
	"io"
	"net"
	"sort"
	"strings"
	"sync"
	"time"

	"github.com/miekg/dns"
	"github.com/semihalev/sdns/internal/verifshim/zonemodel"
)

// Key addresses one upstream exchange: the Occ-th (0-based) query for
// (QName, QType) received by Server since the last ResetLog. Occ < 0 matches
// every occurrence. QName is matched case-insensitively.
type Key struct {
	Server string `json:"server"`
	QName  string `json:"qname"`
	QType  uint16 `json:"qtype"`
	Occ    int    `json:"occ"`
}

func (k Key) String() string {
	return fmt.Sprintf("%s<-%s/%s#%d", k.Server, k.QName, dns.TypeToString[k.QType], k.Occ)
}

// Option is one EDNS option as received.
type Option struct {
	Code uint16 `json:"code"`
	Data string `json:"data"` // hex
}

// Query is one logged upstream query.
type Query struct {
	Seq       int      `json:"seq"`
	Server    string   `json:"server"`
	Transport string   `json:"transport"` // "udp" | "tcp"
	QName     string   `json:"qname"`     // as received (0x20 case preserved)
	QType     uint16   `json:"qtype"`
	QClass    uint16   `json:"qclass"`
	Occ       int      `json:"occ"`
	ID        uint16   `json:"id"`
	RD        bool     `json:"rd"`
	CD        bool     `json:"cd"`
	AD        bool     `json:"ad"`
	EDNS      bool     `json:"edns"`
	DO        bool     `json:"do"`
	UDPSize   uint16   `json:"udpsize"`
	Options   []Option `json:"options,omitempty"`
	Scripted  bool     `json:"scripted"` // a transformer was applied
	Changed   bool     `json:"changed"`  // ... and what was sent differs from the honest response
	Malformed bool     `json:"malformed,omitempty"`
}

// Key returns the script key of this query.
func (q Query) Key() Key {
	return Key{Server: q.Server, QName: zonemodel.Canon(q.QName), QType: q.QType, Occ: q.Occ}
}

// Action is what a Transformer decides. The zero Action sends the honest
// response unchanged.
type Action struct {
	Msg       *dns.Msg      // replacement response (nil = honest); ID and question are fixed up unless KeepID/KeepQuestion
	Drop      bool          // send nothing
	Delay     time.Duration // wait before sending (scripted, not a race: the resolver is sequential)
	Raw       []byte        // send these bytes instead of a message (garbage)
	Truncate  bool          // UDP: send header+question with TC=1 (the resolver retries over TCP); TCP: honest
	WrongID   bool          // flip the transaction ID
	WrongQ    bool          // answer a different question name
	CloseTCP  bool          // TCP: close the connection without replying (UDP: drop)
	KeepID    bool
	KeepQuery bool
	Changed   bool // force the log's Changed mark (e.g. a pure reordering, which the set comparison cannot see)
}

// Transformer sees the logged query and the honest response (a private copy)
// and returns the action to take.
type Transformer func(q Query, honest *dns.Msg) Action

// Convenience transformers.
func Rewrite(f func(m *dns.Msg)) Transformer {
	return func(_ Query, h *dns.Msg) Action { f(h); return Action{Msg: h} }
}
func Drop() Transformer     { return func(Query, *dns.Msg) Action { return Action{Drop: true} } }
func Truncate() Transformer { return func(Query, *dns.Msg) Action { return Action{Truncate: true} } }
func WrongID() Transformer  { return func(Query, *dns.Msg) Action { return Action{WrongID: true} } }
func WrongQuestion() Transformer {
	return func(Query, *dns.Msg) Action { return Action{WrongQ: true} }
}
func CloseTCP() Transformer { return func(Query, *dns.Msg) Action { return Action{CloseTCP: true} } }
func Garbage() Transformer {
	return func(Query, *dns.Msg) Action { return Action{Raw: []byte{0xde, 0xad, 0xbe, 0xef, 0, 1, 2}} }
}
func Delay(d time.Duration) Transformer {
	return func(Query, *dns.Msg) Action { return Action{Delay: d} }
}
func Rcode(rc int) Transformer {
	return func(_ Query, h *dns.Msg) Action {
		h.Rcode = rc
		h.Answer, h.Ns = nil, nil
		h.Authoritative = false
		return Action{Msg: h}
	}
}

type listener struct {
	name string
	pc   *net.UDPConn
	ln   *net.TCPListener
	addr string
}

// Sim is a running simulation.
type Sim struct {
	U *zonemodel.Universe

	mu      sync.Mutex
	lis     map[string]*listener
	remap   map[string]string // "192.0.2.10:53" -> "127.0.0.1:port"
	byAddr  map[string]string // "127.0.0.1:port" -> server name
	log     []Query
	counts  map[string]int
	scripts map[string]Transformer
	honest  func(server string, q dns.Question, do bool) *dns.Msg
	closed  bool
	conns   map[net.Conn]struct{}
	wg      sync.WaitGroup
}

// Start binds one UDP+TCP listener pair per server of u.
func Start(u *zonemodel.Universe) (*Sim, error) {
	s := &Sim{U: u, lis: map[string]*listener{}, remap: map[string]string{}, byAddr: map[string]string{},
		counts: map[string]int{}, scripts: map[string]Transformer{}, conns: map[net.Conn]struct{}{}}
	s.honest = u.ServerAnswer
	names := make([]string, 0, len(u.Servers()))
	for n := range u.Servers() {
		names = append(names, n)
	}
	sort.Strings(names)
	for _, n := range names {
		l, err := listen()
		if err != nil {
			s.Close()
			return nil, err
		}
		l.name = n
		s.lis[n] = l
		s.byAddr[l.addr] = n
		for _, a := range u.Servers()[n].Addrs {
			s.remap[net.JoinHostPort(a, "53")] = l.addr
		}
		s.wg.Add(2)
		go s.serveUDP(l)
		go s.serveTCP(l)
	}
	return s, nil
}

// listen binds the same port number on UDP and TCP.
func listen() (*listener, error) {
	var lastErr error
	for try := 0; try < 50; try++ {
		pc, err := net.ListenUDP("udp4", &net.UDPAddr{IP: net.IPv4(127, 0, 0, 1)})
		if err != nil {
			return nil, err
		}
		port := pc.LocalAddr().(*net.UDPAddr).Port
		ln, err := net.ListenTCP("tcp4", &net.TCPAddr{IP: net.IPv4(127, 0, 0, 1), Port: port})
		if err != nil {
			lastErr = err
			pc.Close()
			continue
		}
		return &listener{pc: pc, ln: ln, addr: fmt.Sprintf("127.0.0.1:%d", port)}, nil
	}
	return nil, fmt.Errorf("authsim: cannot bind udp+tcp pair: %v", lastErr)
}

// Close stops every listener.
func (s *Sim) Close() {
	s.mu.Lock()
	if s.closed {
		s.mu.Unlock()
		return
	}
	s.closed = true
	for _, l := range s.lis {
		l.pc.Close()
		l.ln.Close()
	}
	for c := range s.conns {
		c.Close()
	}
	s.mu.Unlock()
	s.wg.Wait()
}

// SetHonest replaces the function that produces the honest response (default:
// the universe's ServerAnswer). Checks that mutate the universe between steps
// (withdrawn delegations, key rollovers) install their own.
func (s *Sim) SetHonest(f func(server string, q dns.Question, do bool) *dns.Msg) {
	s.mu.Lock()
	s.honest = f
	s.mu.Unlock()
}

// Addr returns the loopback address of a server ("" if unknown).
func (s *Sim) Addr(server string) string {
	if l := s.lis[server]; l != nil {
		return l.addr
	}
	return ""
}

// RootAddrs is cfg.RootServers: the socket(s) of the server hosting ".".
func (s *Sim) RootAddrs() []string {
	r := s.U.Root()
	if r == nil {
		return nil
	}
	return []string{s.Addr(r.Server)}
}

// Remap maps an advertised "ip:53" to the loopback socket behind it; any
// other address is returned unchanged. Install it in the resolver's
// resolveTarget seam.
func (s *Sim) Remap(addr string) string {
	if t, ok := s.remap[addr]; ok {
		return t
	}
	return addr
}

// ServerOf returns the server name behind a loopback or TEST-NET address.
func (s *Sim) ServerOf(addr string) string {
	if t, ok := s.remap[addr]; ok {
		addr = t
	}
	return s.byAddr[addr]
}

// Script installs a transformer for key (replacing any previous one).
func (s *Sim) Script(k Key, t Transformer) {
	s.mu.Lock()
	s.scripts[scriptKey(k)] = t
	s.mu.Unlock()
}

// ClearScripts removes every transformer.
func (s *Sim) ClearScripts() {
	s.mu.Lock()
	s.scripts = map[string]Transformer{}
	s.mu.Unlock()
}

// ResetLog clears the query log and the occurrence counters.
func (s *Sim) ResetLog() {
	s.mu.Lock()
	s.log = nil
	s.counts = map[string]int{}
	s.mu.Unlock()
}

// Reset = ClearScripts + ResetLog.
func (s *Sim) Reset() { s.ClearScripts(); s.ResetLog() }

// Log returns a copy of the query log in arrival order.
func (s *Sim) Log() []Query {
	s.mu.Lock()
	defer s.mu.Unlock()
	return append([]Query(nil), s.log...)
}

// Count returns how many queries have been received (optionally per server).
func (s *Sim) Count(server string) int {
	s.mu.Lock()
	defer s.mu.Unlock()
	if server == "" {
		return len(s.log)
	}
	n := 0
	for _, q := range s.log {
		if q.Server == server {
			n++
		}
	}
	return n
}

func scriptKey(k Key) string {
	return fmt.Sprintf("%s|%s|%d|%d", k.Server, zonemodel.Canon(k.QName), k.QType, k.Occ)
}

// handle logs the query and computes what to send. send=nil means send nothing.
func (s *Sim) handle(server, transport string, raw []byte) (out []byte, closeConn bool, delay time.Duration) {
	req := new(dns.Msg)
	if err := req.Unpack(raw); err != nil || len(req.Question) != 1 || req.Response {
		s.mu.Lock()
		s.log = append(s.log, Query{Seq: len(s.log), Server: server, Transport: transport, Malformed: true})
		s.mu.Unlock()
		return nil, false, 0
	}
	q := req.Question[0]
	lq := Query{Server: server, Transport: transport, QName: q.Name, QType: q.Qtype, QClass: q.Qclass, ID: req.Id,
		RD: req.RecursionDesired, CD: req.CheckingDisabled, AD: req.AuthenticatedData}
	udpSize := uint16(dns.MinMsgSize)
	if opt := req.IsEdns0(); opt != nil {
		lq.EDNS, lq.DO, lq.UDPSize = true, opt.Do(), opt.UDPSize()
		if opt.UDPSize() > udpSize {
			udpSize = opt.UDPSize()
		}
		for _, o := range opt.Option {
			b, _ := packOption(o)
			lq.Options = append(lq.Options, Option{Code: o.Option(), Data: fmt.Sprintf("%x", b)})
		}
	}
	base := fmt.Sprintf("%s|%s|%d", server, zonemodel.Canon(q.Name), q.Qtype)
	s.mu.Lock()
	lq.Occ = s.counts[base]
	s.counts[base]++
	lq.Seq = len(s.log)
	t := s.scripts[fmt.Sprintf("%s|%d", base, lq.Occ)]
	if t == nil {
		t = s.scripts[fmt.Sprintf("%s|%d", base, -1)]
	}
	honestFn := s.honest
	idx := len(s.log)
	s.log = append(s.log, lq)
	s.mu.Unlock()

	honest := honestFn(server, q, lq.DO)
	var act Action
	resp := honest
	if t != nil {
		act = t(lq, honest.Copy())
		if act.Msg != nil {
			resp = act.Msg
		}
	}
	changed := false
	defer func() {
		if t != nil {
			s.mu.Lock()
			if idx < len(s.log) && s.log[idx].Seq == lq.Seq {
				s.log[idx].Scripted = true
				s.log[idx].Changed = changed
			}
			s.mu.Unlock()
		}
	}()
	if act.Drop || (act.CloseTCP && transport == "udp") {
		changed = true
		return nil, false, act.Delay
	}
	if act.CloseTCP {
		changed = true
		return nil, true, act.Delay
	}
	if act.Raw != nil {
		changed = true
		return act.Raw, false, act.Delay
	}
	resp.Response = true
	if !act.KeepID {
		resp.Id = req.Id
	}
	if !act.KeepQuery {
		resp.Question = []dns.Question{q}
	}
	resp.RecursionDesired = req.RecursionDesired
	if act.WrongID {
		resp.Id ^= 0x5a5a
		changed = true
	}
	if act.WrongQ {
		resp.Question = []dns.Question{{Name: "wrong-question." + strings.TrimPrefix(q.Name, "."), Qtype: q.Qtype, Qclass: q.Qclass}}
		if q.Name == "." {
			resp.Question[0].Name = "wrong-question."
		}
		changed = true
	}
	if lq.EDNS && resp.IsEdns0() == nil {
		o := &dns.OPT{Hdr: dns.RR_Header{Name: ".", Rrtype: dns.TypeOPT}}
		o.SetUDPSize(1232)
		if lq.DO {
			o.SetDo()
		}
		resp.Extra = append(resp.Extra, o)
	}
	if act.Msg != nil && !changed {
		changed = act.Changed || !sameMsg(honest, act.Msg)
	}
	resp.Compress = true
	wire, err := resp.Pack()
	if err != nil {
		// an unpackable scripted message: answer SERVFAIL so the run stays deterministic
		f := new(dns.Msg)
		f.SetRcode(req, dns.RcodeServerFailure)
		wire, _ = f.Pack()
		changed = true
	}
	if transport == "udp" && (act.Truncate || len(wire) > int(udpSize)) {
		if act.Truncate {
			changed = true
		}
		tc := new(dns.Msg)
		tc.SetReply(req)
		tc.Id = resp.Id
		tc.Truncated = true
		tc.Authoritative = resp.Authoritative
		if lq.EDNS {
			tc.Extra = append(tc.Extra, resp.IsEdns0())
		}
		wire, _ = tc.Pack()
	}
	return wire, false, act.Delay
}

func packOption(o dns.EDNS0) ([]byte, error) {
	// dns.EDNS0 has an unexported pack; round-trip through an OPT record instead
	opt := &dns.OPT{Hdr: dns.RR_Header{Name: ".", Rrtype: dns.TypeOPT}, Option: []dns.EDNS0{o}}
	buf := make([]byte, 4096)
	n, err := dns.PackRR(opt, buf, 0, nil, false)
	if err != nil {
		return nil, err
	}
	// owner(1) type(2) class(2) ttl(4) rdlen(2) then code(2) len(2) data
	if n < 15 {
		return nil, nil
	}
	return append([]byte(nil), buf[15:n]...), nil
}

// SameMsg compares two responses ignoring ID, OPT and record order.
func SameMsg(a, b *dns.Msg) bool { return sameMsg(a, b) }

func sameMsg(a, b *dns.Msg) bool {
	if a.Rcode != b.Rcode || a.Authoritative != b.Authoritative || a.Truncated != b.Truncated {
		return false
	}
	sec := func(rrs []dns.RR) string {
		var k []string
		for _, rr := range rrs {
			if rr.Header().Rrtype == dns.TypeOPT {
				continue
			}
			k = append(k, rr.String())
		}
		sort.Strings(k)
		return strings.Join(k, "\n")
	}
	return sec(a.Answer) == sec(b.Answer) && sec(a.Ns) == sec(b.Ns) && sec(a.Extra) == sec(b.Extra)
}

func (s *Sim) serveUDP(l *listener) {
	defer s.wg.Done()
	buf := make([]byte, 65535)
	for {
		n, addr, err := l.pc.ReadFromUDP(buf)
		if err != nil {
			return
		}
		out, _, delay := s.handle(l.name, "udp", append([]byte(nil), buf[:n]...))
		if delay > 0 {
			time.Sleep(delay)
		}
		if out != nil {
			_, _ = l.pc.WriteToUDP(out, addr)
		}
	}
}

func (s *Sim) serveTCP(l *listener) {
	defer s.wg.Done()
	for {
		c, err := l.ln.Accept()
		if err != nil {
			return
		}
		s.mu.Lock()
		if s.closed {
			s.mu.Unlock()
			c.Close()
			return
		}
		s.conns[c] = struct{}{}
		s.mu.Unlock()
		s.wg.Add(1)
		go func(c net.Conn) {
			defer s.wg.Done()
			defer func() {
				c.Close()
				s.mu.Lock()
				delete(s.conns, c)
				s.mu.Unlock()
			}()
			for {
				_ = c.SetReadDeadline(time.Now().Add(10 * time.Second))
				var lb [2]byte
				if _, err := io.ReadFull(c, lb[:]); err != nil {
					return
				}
				p := make([]byte, binary.BigEndian.Uint16(lb[:]))
				if _, err := io.ReadFull(c, p); err != nil {
					return
				}
				out, closeConn, delay := s.handle(l.name, "tcp", p)
				if delay > 0 {
					time.Sleep(delay)
				}
				if closeConn {
					return
				}
				if out == nil {
					continue
				}
				binary.BigEndian.PutUint16(lb[:], uint16(len(out)))
				if _, err := c.Write(append(lb[:], out...)); err != nil {
					return
				}
			}
		}(c)
	}
}
