//go:build verif

package h_c19sf

// C19/shared — exploration and oracle.
//
// Scenarios: every ordered pair and triple of the audiences {c1 10.1.2.0/24,
// c2 10.1.3.0/24, c16 10.1.0.0/16, plain (no client subnet)} x the scope the
// authority declares {0, 16, 24}. For each scenario EVERY order of the events
//
//	A:<client>   the next client of the tuple sends its query (a cache miss)
//	W:<label>    a held exchange with the authority is put on the wire
//	R:<label>    the authority releases the held reply to the query that carries <label>'s subnet
//
// is executed on the real chain (depth-first over the enabled sets observed at
// the settled points; one execution per maximal order). Because "on the wire"
// is an event of its own, "the second client arrives before / after the first
// upstream query is on the wire" are both enumerated. Afterwards every client of
// the tuple asks again, one at a time, then an outsider in another subnet and
// an outsider without client subnet.
//
// Oracle (property text only): an answer the authority made for subnet S/len
// with a declared scope > 0 may be handed only to a client whose own forwarded
// subnet lies inside S truncated to min(scope, len) bits; a client that sent no
// client subnet never gets such an answer; scope-0 answers and the answer to a
// query without client subnet are shareable; a scoped answer served from the
// cache carries at most the scoped TTL limit.

import (
	"encoding/json"
	"fmt"
	"net"
	"os"
	"runtime"
	"sort"
	"strings"
	"sync/atomic"
	"testing"
	"time"

	"github.com/semihalev/sdns/internal/verifshim/vkit"
)

type vkScenario struct {
	Clients []string `json:"clients"`          // arrival order
	Scope   int      `json:"scope"`            // scope the authority declares (0 = global)
	NoWire  bool     `json:"nowire,omitempty"` // the dial gate stays open: no W events (4-client tuples of the thorough tier)
}

func (s vkScenario) String() string {
	if s.NoWire {
		return fmt.Sprintf("%s/scope%d/nowire", strings.Join(s.Clients, ">"), s.Scope)
	}
	return fmt.Sprintf("%s/scope%d", strings.Join(s.Clients, ">"), s.Scope)
}

type vkReplay struct {
	Scenario vkScenario `json:"scenario"`
	Events   []string   `json:"events"`
}

type vkCaller struct {
	c       vkClient
	arrived bool
	done    atomic.Bool
	ans     vkAnswer
	arrStep int
	retStep int
}

type vkWorld struct {
	lab      *vkLab
	pl       *vkPipe
	sc       vkScenario
	callers  []*vkCaller
	base     vkSnap
	step     int
	lastEv   string
	overlap  int // max number of clients simultaneously inside the chain at a settled point
	trace    []string
	digests  []string
	upstream []string       // label of every upstream www query of the concurrent phase, in arrival order
	relStep  map[string]int // label -> step at which the authority released the reply made for it
	cachePh  []vkCacheAsk
}

type vkCacheAsk struct {
	Client   string   `json:"client"`
	Ans      vkAnswer `json:"answer"`
	Upstream int      `json:"upstream"` // upstream www queries this ask caused (0 = served from the cache)
	UpLabel  string   `json:"up_label,omitempty"`
}

func (w *vkWorld) snap() vkSnap {
	s := vkSnapshot()
	if w.base.world == 0 {
		return s
	}
	s.world -= w.base.world
	s.exch -= w.base.exch
	s.gate -= w.base.gate
	s.asks -= w.base.asks
	s.waiting -= w.base.waiting
	s.leaders -= w.base.leaders
	s.lookups -= w.base.lookups
	s.attempt -= w.base.attempt
	rest := append([]string{}, w.base.desc...)
	var desc []string
	for _, d := range s.desc {
		hit := false
		for i, b := range rest {
			if b == d {
				rest = append(rest[:i], rest[i+1:]...)
				hit = true
				break
			}
		}
		if !hit {
			desc = append(desc, d)
		}
	}
	s.desc = desc
	s.sig = strings.Join(desc, ";")
	return s
}

// vkNewWorld: cold caches, warm delegations (one honest resolution of another name in geo.t.), gates closed.
func vkNewWorld(lab *vkLab, pl *vkPipe, sc vkScenario) (*vkWorld, error) {
	w := &vkWorld{lab: lab, pl: pl, sc: sc, relStep: map[string]int{}}
	for _, n := range sc.Clients {
		c, ok := vkClients[n]
		if !ok {
			return nil, &vkHarnessErr{"unknown client " + n}
		}
		w.callers = append(w.callers, &vkCaller{c: c, arrStep: -1, retStep: -1})
	}
	pre := vkSnapshot()
	if !pre.blocked {
		// leftovers of an earlier run are still moving: wait for them
		limit := time.Now().Add(vkSafety)
		for !pre.blocked {
			if time.Now().After(limit) {
				return nil, &vkHarnessErr{"world goroutines are running before the run: " + pre.sig}
			}
			time.Sleep(200 * time.Microsecond)
			pre = vkSnapshot()
		}
	}
	w.base = pre
	pl.reset()
	lab.sim.Reset()
	lab.geo.begin(sc.Scope)
	lab.gate.begin(false)
	warm := vkAskRun(pl, vkClients["outplain"], lab.query(vkClients["outplain"], vkWarmName))
	if warm.Rcode != "NOERROR" || warm.A != "192.0.2.201" || warm.Writes != 1 {
		return nil, &vkHarnessErr{fmt.Sprintf("warm-up resolution failed: %+v (handlers %v)", warm, pl.handlerNames())}
	}
	lab.geo.mu.Lock()
	other := lab.geo.other
	lab.geo.mu.Unlock()
	if other < 1 || lab.sim.Count("") < 2 {
		return nil, &vkHarnessErr{fmt.Sprintf("warm-up did not walk root -> t. -> geo.t. (authsim %d, geo %d)", lab.sim.Count(""), other)}
	}
	lab.geo.setAuto(false)
	lab.gate.begin(!sc.NoWire)
	return w, nil
}

func (w *vkWorld) start(c *vkCaller, req interface{}) {
	c.ans = vkAskRun(w.pl, c.c, w.lab.query(c.c, vkQName))
	c.done.Store(true)
}

// enabled lists the events that can happen next, simplest first.
func (w *vkWorld) enabled() []string {
	var ev []string
	for _, c := range w.callers {
		if !c.arrived {
			ev = append(ev, "A:"+c.c.Name)
			break
		}
	}
	var ws, rs []string
	for _, d := range w.lab.gate.waiting() {
		ws = append(ws, "W:"+d.label)
	}
	for _, h := range w.lab.geo.unanswered() {
		rs = append(rs, "R:"+h.label)
	}
	// the order in which simultaneous exchanges reached the gate / the authority is a race inside sdns and
	// carries no meaning: name order
	sort.Strings(ws)
	sort.Strings(rs)
	ev = append(append(ev, ws...), rs...)
	return ev
}

func (w *vkWorld) inside() int {
	n := 0
	for _, c := range w.callers {
		if c.arrived && !c.done.Load() {
			n++
		}
	}
	return n
}

// settle waits until nothing can move on its own (see the file comment of the world file).
func (w *vkWorld) settle() error {
	limit := time.Now().Add(vkSafety)
	streak, lastSig, why := 0, "", ""
	for spin := 0; ; spin++ {
		if spin > 0 {
			if spin < 6 {
				runtime.Gosched()
			} else {
				time.Sleep(time.Duration(min(spin, 40)) * 20 * time.Microsecond)
			}
		}
		if time.Now().After(limit) {
			s := w.snap()
			return &vkHarnessErr{fmt.Sprintf("settle timeout in %s step %d (%s): %s; held=%d dials=%d goroutines: %s",
				w.sc, w.step, w.lastEv, why, len(w.lab.geo.unanswered()), len(w.lab.gate.waiting()), s.sig)}
		}
		s := w.snap()
		if !s.blocked {
			streak, why = 0, "a goroutine is runnable"
			continue
		}
		held, dials, inside := len(w.lab.geo.unanswered()), len(w.lab.gate.waiting()), w.inside()
		switch {
		case s.exch != held:
			streak, why = 0, fmt.Sprintf("socket readers %d != held queries %d", s.exch, held)
			continue
		case s.gate != dials:
			streak, why = 0, fmt.Sprintf("goroutines in the dial gate %d != registered dials %d", s.gate, dials)
			continue
		case s.asks != inside:
			streak, why = 0, fmt.Sprintf("client goroutines %d != clients inside the chain %d", s.asks, inside)
			continue
		case s.waiting != inside:
			streak, why = 0, fmt.Sprintf("clients parked at a known waiting point %d != clients inside the chain %d", s.waiting, inside)
			continue
		case s.leaders != s.lookups || s.lookups != s.attempt:
			streak, why = 0, fmt.Sprintf("leader closures %d, of which waiting for their attempt %d, attempts %d", s.leaders, s.lookups, s.attempt)
			continue
		case s.attempt != held+dials:
			streak, why = 0, fmt.Sprintf("upstream attempts %d != held queries %d + gated exchanges %d", s.attempt, held, dials)
			continue
		case inside == 0 && s.world != 0:
			streak, why = 0, "every client returned but resolver goroutines remain"
			continue
		case inside > 0 && held+dials == 0:
			// somebody is inside the chain but nothing is held anywhere: it is about to move
			streak, why = 0, "a client is inside the chain with nothing held"
			continue
		}
		key := fmt.Sprintf("%s|%d|%d|%d", s.sig, held, dials, inside)
		if key != lastSig {
			streak, lastSig, why = 1, key, "first stable snapshot"
			continue
		}
		streak++
		if streak < 2 {
			continue
		}
		if vkDebug {
			fmt.Printf("    settled after %d spins: %s\n", spin, key)
		}
		return nil
	}
}

func (w *vkWorld) digest() string {
	var b strings.Builder
	b.WriteString(w.sc.String())
	for _, c := range w.callers {
		switch {
		case !c.arrived:
			b.WriteString("|-")
		case !c.done.Load():
			b.WriteString("|w")
		default:
			b.WriteString("|" + c.ans.A)
		}
	}
	b.WriteString("|W")
	for _, d := range w.lab.gate.waiting() {
		b.WriteString(":" + d.label)
	}
	b.WriteString("|R")
	for _, h := range w.lab.geo.unanswered() {
		b.WriteString(":" + h.label)
	}
	return b.String()
}

func (w *vkWorld) exec(ev string) error {
	w.step++
	w.lastEv = ev
	kind, arg, ok := strings.Cut(ev, ":")
	if !ok {
		return &vkHarnessErr{"bad event " + ev}
	}
	seenBefore := 0
	w.lab.geo.mu.Lock()
	seenBefore = len(w.lab.geo.held)
	w.lab.geo.mu.Unlock()
	switch kind {
	case "A":
		var c *vkCaller
		for _, x := range w.callers {
			if !x.arrived {
				c = x
				break
			}
		}
		if c == nil || c.c.Name != arg {
			return &vkHarnessErr{"event " + ev + " is not enabled"}
		}
		c.arrived, c.arrStep = true, w.step
		w.lab.gate.arm(true)
		go w.start(c, nil)
	case "W":
		var d *vkDial
		for _, x := range w.lab.gate.waiting() {
			if x.label == arg {
				d = x
				break
			}
		}
		if d == nil {
			return &vkHarnessErr{"event " + ev + " is not enabled"}
		}
		w.lab.gate.mu.Lock()
		d.released = true
		close(d.ch)
		w.lab.gate.mu.Unlock()
	case "R":
		var h *vkHeld
		for _, x := range w.lab.geo.unanswered() {
			if x.label == arg {
				h = x
				break
			}
		}
		if h == nil {
			return &vkHarnessErr{"event " + ev + " is not enabled"}
		}
		w.lab.geo.mu.Lock()
		h.answered = true
		w.lab.geo.mu.Unlock()
		if _, dup := w.relStep[h.label]; !dup {
			w.relStep[h.label] = w.step
		}
		if err := w.lab.geo.reply(h, w.sc.Scope); err != nil {
			return &vkHarnessErr{"reply: " + err.Error()}
		}
	default:
		return &vkHarnessErr{"bad event " + ev}
	}
	err := w.settle()
	w.lab.gate.arm(false)
	if err != nil {
		return err
	}
	// label the exchanges that appeared during this step: after an arrival the (only) new one is the arriving
	// client's; anything else is a re-entry
	k := 0
	for _, d := range w.lab.gate.waiting() {
		if d.label == "" {
			if kind != "A" || k > 0 {
				return &vkHarnessErr{fmt.Sprintf("%s step %d (%s): an exchange nobody arrived for is held in the dial gate", w.sc, w.step, ev)}
			}
			d.label = arg
			k++
		}
	}
	w.lab.geo.mu.Lock()
	var fresh []string
	for _, h := range w.lab.geo.held[seenBefore:] {
		fresh = append(fresh, h.label)
	}
	w.lab.geo.mu.Unlock()
	sort.Strings(fresh) // queries that reached the authority during one step raced each other
	w.upstream = append(w.upstream, fresh...)
	for _, c := range w.callers {
		if c.arrived && c.done.Load() && c.retStep < 0 {
			c.retStep = w.step
		}
	}
	if n := w.inside(); n > w.overlap {
		w.overlap = n
	}
	d := w.digest()
	w.digests = append(w.digests, d)
	w.trace = append(w.trace, fmt.Sprintf("%d %s -> %s", w.step, ev, d))
	if vkDebug {
		fmt.Printf("  step %d %-8s %s   || %s\n", w.step, ev, d, w.snap().sig)
	}
	return nil
}

// cachePhase: gates open; every client of the tuple, then the two outsiders, ask once more, one at a time.
func (w *vkWorld) cachePhase() error {
	w.lab.geo.setAuto(true)
	w.lab.gate.open()
	names := append(append([]string{}, w.sc.Clients...), "out", "outplain")
	for _, n := range names {
		cl := vkClients[n]
		w.lab.geo.mu.Lock()
		before := w.lab.geo.seen
		w.lab.geo.mu.Unlock()
		done := make(chan vkAnswer, 1)
		req := w.lab.query(cl, vkQName)
		go func() { done <- vkAskRun(w.pl, cl, req) }()
		var ans vkAnswer
		select {
		case ans = <-done:
		case <-time.After(vkSafety):
			return &vkHarnessErr{fmt.Sprintf("cache-phase ask of %s did not return in %s", n, w.sc)}
		}
		w.lab.geo.mu.Lock()
		up := w.lab.geo.seen - before
		w.lab.geo.mu.Unlock()
		w.cachePh = append(w.cachePh, vkCacheAsk{Client: n, Ans: ans, Upstream: up})
		if vkDebug {
			fmt.Printf("  cache %-8s upstream=%d %+v\n", n, up, ans)
		}
	}
	return nil
}

// ------------------------------------------------------------ oracle

type vkFinding struct {
	key string
	msg string
}

const vkMaxKeysPerShard = 8

const vkScopedLimit = 60 // seconds: cfg.ECS.CacheLimitTTL of the pipeline

// vkJudgeOne judges one delivered answer. who: the client; phase: "concurrent" | "cache".
func vkJudgeOne(sc vkScenario, who vkClient, ans vkAnswer, phase string, fromCache bool) (*vkFinding, error) {
	if ans.Writes != 1 || ans.Rcode != "NOERROR" || ans.A == "" {
		return nil, &vkHarnessErr{fmt.Sprintf("%s got no usable answer in %s (%s phase): %+v", who.Name, sc, phase, ans)}
	}
	subnet, bits, tailored, known := vkDecodeA(net.ParseIP(ans.A))
	if !known {
		return nil, &vkHarnessErr{fmt.Sprintf("%s got an address the authority never published: %s", who.Name, ans.A)}
	}
	if !tailored || sc.Scope == 0 {
		return nil, nil // the generic answer and scope-0 answers are for everybody
	}
	eff := min(sc.Scope, bits)
	audience := subnet.Mask(net.CIDRMask(eff, 32))
	madeFor := vkLabelFor(subnet, bits, true)
	cip, cbits, has := who.forwarded()
	inside := has && cbits >= eff && cip.Mask(net.CIDRMask(eff, 32)).Equal(audience)
	if !inside {
		var key string
		if phase == "concurrent" {
			key = fmt.Sprintf("shared/foreign-tailored-answer|follower=%s|leader=%s|scope=%d|phase=concurrent", who.Name, madeFor, sc.Scope)
		} else {
			key = fmt.Sprintf("shared/foreign-tailored-answer|client=%s|tailored-for=%s|scope=%d|phase=cache", who.Name, madeFor, sc.Scope)
		}
		own := "no client subnet"
		if has {
			own = fmt.Sprintf("forwarded subnet %s/%d", cip, cbits)
		}
		return &vkFinding{key: key, msg: fmt.Sprintf("%s (%s) was handed %s: the answer the authority made for %s/%d and declared valid for %s/%d only",
			who.Name, own, ans.A, subnet, bits, audience, eff)}, nil
	}
	if fromCache && ans.TTL > vkScopedLimit {
		return &vkFinding{key: fmt.Sprintf("shared/scoped-ttl-uncapped|client=%s|tailored-for=%s|scope=%d", who.Name, madeFor, sc.Scope),
			msg: fmt.Sprintf("%s was served the scoped answer %s from the cache with TTL %d > scoped limit %d", who.Name, ans.A, ans.TTL, vkScopedLimit)}, nil
	}
	return nil, nil
}

// vkRunResult is one executed order.
type vkRunResult struct {
	events   []string
	enabled  [][]string // enabled set before each event
	findings []vkFinding
	overlap  int
	upstream []string
	outcome  string
	trace    []string
	digests  []string
	cachePh  []vkCacheAsk
	conc     map[string]vkAnswer
}

// vkRun executes one order. choose(depth, enabled) picks the next event ("" = stop: nothing enabled).
func vkRun(lab *vkLab, pl *vkPipe, sc vkScenario, choose func(depth int, enabled []string) (string, error)) (*vkRunResult, error) {
	w, err := vkNewWorld(lab, pl, sc)
	if err != nil {
		return nil, err
	}
	res := &vkRunResult{conc: map[string]vkAnswer{}}
	defer func() {
		// never leave anything held behind, whatever happened
		lab.geo.setAuto(true)
		for _, h := range lab.geo.unanswered() {
			lab.geo.mu.Lock()
			h.answered = true
			lab.geo.mu.Unlock()
			_ = lab.geo.reply(h, sc.Scope)
		}
		lab.gate.open()
		// an aborted run leaves clients inside the chain: let them finish before the next world takes its baseline
		for limit := time.Now().Add(5 * time.Second); w.inside() > 0 && time.Now().Before(limit); {
			time.Sleep(200 * time.Microsecond)
			for _, h := range lab.geo.unanswered() {
				lab.geo.mu.Lock()
				h.answered = true
				lab.geo.mu.Unlock()
				_ = lab.geo.reply(h, sc.Scope)
			}
		}
	}()
	for depth := 0; ; depth++ {
		en := w.enabled()
		if len(en) == 0 {
			break
		}
		if depth > 40 {
			return nil, &vkHarnessErr{"run does not end: " + strings.Join(res.events, " ")}
		}
		ev, err := choose(depth, en)
		if err != nil {
			return nil, err
		}
		res.enabled = append(res.enabled, en)
		res.events = append(res.events, ev)
		if err := w.exec(ev); err != nil {
			return nil, err
		}
	}
	for _, c := range w.callers {
		if !c.arrived || !c.done.Load() {
			return nil, &vkHarnessErr{fmt.Sprintf("%s: client %s is still inside the chain although nothing is held (events %v)", sc, c.c.Name, res.events)}
		}
	}
	if n := lab.gate.late.Load(); n != 0 {
		return nil, &vkHarnessErr{"a gated exchange waited out the safety timeout"}
	}
	if err := w.cachePhase(); err != nil {
		return nil, err
	}
	// judge
	var deliveries []string
	for _, c := range w.callers {
		res.conc[c.c.Name] = c.ans
		// a client that was inside the chain when the reply it was handed was released shared the upstream
		// exchange ("concurrent"); one that arrived later was served what the cache kept ("cache")
		phase, fromCache := "cache", true
		if rel, ok := w.relStep[vkMadeFor(c.ans.A)]; ok && c.arrStep < rel {
			phase, fromCache = "concurrent", false
		}
		f, err := vkJudgeOne(sc, c.c, c.ans, phase, fromCache)
		if err != nil {
			return nil, err
		}
		if f != nil {
			res.findings = append(res.findings, *f)
		}
		deliveries = append(deliveries, c.c.Name+"<-"+vkMadeFor(c.ans.A))
	}
	for _, a := range w.cachePh {
		f, err := vkJudgeOne(sc, vkClients[a.Client], a.Ans, "cache", a.Upstream == 0)
		if err != nil {
			return nil, err
		}
		if f != nil {
			res.findings = append(res.findings, *f)
		}
		src := "c"
		if a.Upstream > 0 {
			src = "u"
		}
		deliveries = append(deliveries, a.Client+"'"+src+"<-"+vkMadeFor(a.Ans.A))
	}
	res.overlap, res.upstream, res.trace, res.digests, res.cachePh = w.overlap, w.upstream, w.trace, w.digests, w.cachePh
	res.outcome = fmt.Sprintf("scope%d up=%s %s", sc.Scope, strings.Join(w.upstream, ","), strings.Join(deliveries, " "))
	return res, nil
}

func vkMadeFor(a string) string {
	subnet, bits, tailored, known := vkDecodeA(net.ParseIP(a))
	switch {
	case !known:
		return "?" + a
	case !tailored:
		return "generic"
	}
	return vkLabelFor(subnet, bits, true)
}

// vkFixedOrder replays a recorded order. lenient (replay files, possibly run against a changed sdns): once the
// recorded order cannot be followed any further (an event is not enabled, or events remain enabled after its end)
// the run is completed with the first enabled event each time.
func vkFixedOrder(events []string, lenient bool) func(int, []string) (string, error) {
	off := false
	return func(depth int, en []string) (string, error) {
		if !off && depth < len(events) {
			for _, e := range en {
				if e == events[depth] {
					return e, nil
				}
			}
		}
		if lenient {
			off = true
			return en[0], nil
		}
		if depth >= len(events) {
			return "", &vkHarnessErr{fmt.Sprintf("recorded order ends at step %d but %v are still enabled", depth, en)}
		}
		return "", &vkHarnessErr{fmt.Sprintf("recorded event %s is not enabled at step %d (enabled %v)", events[depth], depth, en)}
	}
}

// ------------------------------------------------------------ scenarios

func vkScenarios(thorough bool) []vkScenario {
	names := []string{"c1", "c2", "c16", "plain"}
	var out []vkScenario
	scopes := []int{24, 16, 0}
	for _, sc := range scopes {
		for _, a := range names {
			for _, b := range names {
				if a != b {
					out = append(out, vkScenario{Clients: []string{a, b}, Scope: sc})
				}
			}
		}
	}
	for _, sc := range scopes {
		if sc == 0 && !thorough {
			// quick tier: scope-0 triples add nothing the scope-0 pairs do not show
			continue
		}
		for _, a := range names {
			for _, b := range names {
				for _, d := range names {
					if a != b && a != d && b != d {
						out = append(out, vkScenario{Clients: []string{a, b, d}, Scope: sc})
					}
				}
			}
		}
	}
	if thorough {
		// all four audiences, every order; exchanges go on the wire at once (no W events): 105 orders each
		for _, sc := range scopes {
			for _, a := range names {
				for _, b := range names {
					for _, d := range names {
						for _, e := range names {
							if a != b && a != d && a != e && b != d && b != e && d != e {
								out = append(out, vkScenario{Clients: []string{a, b, d, e}, Scope: sc, NoWire: true})
							}
						}
					}
				}
			}
		}
	}
	return out
}

// ------------------------------------------------------------ driver

type vkFrame struct {
	enabled []string
	idx     int
}

func vkSameSet(a, b []string) bool {
	if len(a) != len(b) {
		return false
	}
	for i := range a {
		if a[i] != b[i] {
			return false
		}
	}
	return true
}

// vkConfirm re-runs a violating order on fresh pipelines; every run must show the same finding key.
func vkConfirm(lab *vkLab, sc vkScenario, events []string, key string, times int) (bool, string) {
	for i := 0; i < times; i++ {
		pl, err := lab.newPipe()
		if err != nil {
			return false, "fresh pipeline: " + err.Error()
		}
		res, err := vkRun(lab, pl, sc, vkFixedOrder(events, false))
		pl.close()
		if err != nil {
			return false, fmt.Sprintf("re-run %d: %v", i+1, err)
		}
		hit := false
		for _, f := range res.findings {
			if f.key == key {
				hit = true
			}
		}
		if !hit {
			return false, fmt.Sprintf("re-run %d of %s %v did not show %s (outcome %s)", i+1, sc, events, key, res.outcome)
		}
	}
	return true, ""
}

func TestVerifC19Shared(t *testing.T) {
	c := vkit.Init("C19/shared")
	defer c.Close()
	lab, err := vkNewLab()
	if err != nil {
		c.HarnessError("lab: " + err.Error())
		return
	}
	defer lab.close()

	if c.Replay != nil {
		var rp vkReplay
		if err := json.Unmarshal(c.Replay, &rp); err != nil {
			c.HarnessError("bad replay payload: " + err.Error())
			return
		}
		pl, err := lab.newPipe()
		if err != nil {
			c.HarnessError(err.Error())
			return
		}
		defer pl.close()
		res, err := vkRun(lab, pl, rp.Scenario, vkFixedOrder(rp.Events, true))
		if err != nil {
			c.HarnessError(err.Error())
			return
		}
		c.Add("evaluations", 1)
		for _, f := range res.findings {
			c.Violation(f.key, vkMessage(rp.Scenario, res, f), rp)
		}
		return
	}

	pl, err := lab.newPipe()
	if err != nil {
		c.HarnessError(err.Error())
		return
	}
	defer func() { pl.close() }()
	names := pl.handlerNames()
	pos := map[string]int{}
	for i, n := range names {
		pos[n] = i + 1
	}
	if pos["edns"] == 0 || pos["cache"] == 0 || pos["resolver"] == 0 || !(pos["edns"] < pos["cache"] && pos["cache"] < pos["resolver"]) {
		c.HarnessError(fmt.Sprintf("the built chain is not ... edns ... cache ... resolver: %v", names))
		return
	}

	reported := map[string]bool{}
	scs := vkScenarios(c.Thorough())
	runs := 0
	only := os.Getenv("VERIF_ONLY") // manual aid: run one scenario, e.g. "c16>c1>c2/scope24"
	for i, sc := range scs {
		if !c.Mine(i) || (only != "" && sc.String() != only) {
			continue
		}
		// every order of one scenario is executed before anything is counted: should two executions of the same
		// prefix ever disagree on what is enabled (a settle disturbed by the machine), the scenario starts over
		var results []*vkRunResult
		for attempt := 1; ; attempt++ {
			var capped bool
			var nondet string
			results, nondet, capped, err = vkExploreScenario(lab, pl, sc, c.OverBudget)
			if err != nil {
				c.HarnessError(err.Error())
				return
			}
			if capped {
				c.Cap("time budget reached before every event order was executed")
				return
			}
			if nondet == "" {
				break
			}
			c.Add("scenario_restarts", 1)
			if attempt >= 3 {
				c.HarnessError(nondet)
				return
			}
		}
		for _, res := range results {
			runs++
			c.Add("evaluations", 1)
			c.Add("traces", 1)
			c.Add("transitions", int64(len(res.events)+len(res.cachePh)))
			for _, d := range res.digests {
				c.DistinctStr("states", d)
			}
			c.Outcome(res.outcome)
			if res.overlap >= 2 {
				c.DistinctStr("nontrivial", sc.String()+"|"+strings.Join(res.events, " "))
			}
			c.Max("max_overlap", int64(res.overlap))
			if runs%97 == 1 {
				c.Sample(map[string]any{"scenario": sc, "events": res.events, "upstream": res.upstream, "concurrent": res.conc, "cache_phase": res.cachePh})
			}
			for _, f := range res.findings {
				c.Add("oracle_hits", 1)
				if reported[f.key] {
					continue
				}
				reported[f.key] = true
				if len(reported) > vkMaxKeysPerShard {
					// the keys are (client, subnet, scope, phase) variants of few root causes: the first ones
					// of every shard are confirmed and reported, the rest is only counted
					c.Add("keys_not_reported", 1)
					continue
				}
				ok, why := vkConfirm(lab, sc, res.events, f.key, 5)
				if !ok {
					c.HarnessError("a violation did not reproduce on fresh pipelines: " + why)
					return
				}
				c.Violation(f.key, vkMessage(sc, res, f), vkReplay{Scenario: sc, Events: res.events})
			}
		}
		// a fresh pipeline now and then: each one leaves a few background goroutines behind, none accumulates state
		if runs > 0 && runs%4000 == 0 {
			pl.close()
			if pl, err = lab.newPipe(); err != nil {
				c.HarnessError(err.Error())
				return
			}
		}
	}
	c.Add("snapshots", int64(vkSnapCount))
	c.Add("pipelines_built", int64(lab.builds))
}

// vkExploreScenario executes every maximal event order of sc (depth-first over the enabled sets observed at
// the settled points, one execution per order). nondet != "": two executions of the same prefix disagreed.
func vkExploreScenario(lab *vkLab, pl *vkPipe, sc vkScenario, overBudget func() bool) (results []*vkRunResult, nondet string, capped bool, err error) {
	var stack []vkFrame
	for {
		if overBudget() {
			return nil, "", true, nil
		}
		choose := func(depth int, en []string) (string, error) {
			if depth < len(stack) {
				if !vkSameSet(stack[depth].enabled, en) {
					nondet = fmt.Sprintf("%s: enabled set at step %d changed between executions of the same prefix: %v vs %v", sc, depth, stack[depth].enabled, en)
					return "", &vkHarnessErr{nondet}
				}
				return en[stack[depth].idx], nil
			}
			stack = append(stack, vkFrame{enabled: append([]string{}, en...)})
			return en[0], nil
		}
		res, err := vkRun(lab, pl, sc, choose)
		if nondet != "" {
			return nil, nondet, false, nil
		}
		if err != nil {
			return nil, "", false, err
		}
		results = append(results, res)
		// next order: deepest frame with an untried alternative
		for len(stack) > 0 && stack[len(stack)-1].idx+1 >= len(stack[len(stack)-1].enabled) {
			stack = stack[:len(stack)-1]
		}
		if len(stack) == 0 {
			return results, "", false, nil
		}
		stack[len(stack)-1].idx++
	}
}

func vkMessage(sc vkScenario, res *vkRunResult, f vkFinding) string {
	var up []string
	up = append(up, res.upstream...)
	conc := make([]string, 0, len(res.conc))
	for _, n := range sc.Clients {
		conc = append(conc, fmt.Sprintf("%s<-%s", n, res.conc[n].A))
	}
	var ch []string
	for _, a := range res.cachePh {
		ch = append(ch, fmt.Sprintf("%s<-%s(ttl %d, upstream %d)", a.Client, a.Ans.A, a.Ans.TTL, a.Upstream))
	}
	sort.Strings(up)
	return fmt.Sprintf("%s | clients %s, authority scope %d, events [%s]; upstream queries carried the subnets of {%s}; concurrent replies: %s; afterwards: %s",
		f.msg, strings.Join(sc.Clients, ","), sc.Scope, strings.Join(res.events, " "), strings.Join(up, ","), strings.Join(conc, " "), strings.Join(ch, " "))
}
