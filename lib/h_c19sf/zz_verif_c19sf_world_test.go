//go:build verif

package h_c19sf

// C19/shared — machinery.
//
// The REAL default sdns chain (... edns -> cache -> resolver ...; built like
// h_rpipe/h_resolver build it, never published) with ECS forwarding enabled
// resolves against a scripted universe root -> t. -> geo.t.:
//
//   - root and t. are served by authsim (honest, never gated);
//   - geo.t. is served by the harness' own loopback authority (the resolver's
//     dial-target seam maps geo.t.'s advertised address to it). It TAILORS
//     "www.geo.t. A" by the query's client-subnet option: the A record encodes
//     the subnet the answer was made for, the reply echoes the option with the
//     scope the scenario chose. Every such reply is HELD until the harness
//     releases it;
//   - the dial-target seam itself is a gate too: an exchange with geo.t. is
//     held BEFORE its query is put on the wire until the harness releases it.
//
// One world = one pipeline state (cold caches, warm delegations) + one order of
// the events {client arrives, k-th held exchange goes on the wire, the
// authority releases a held reply}. Between events the world is settled exactly:
// every goroutine of the resolver and of the clients is parked, every parked
// socket reader corresponds to a query the authority holds, every goroutine
// parked in the dial gate is one the gate has registered, and that picture is
// stable over consecutive goroutine snapshots. Nothing is an oracle on wall
// time; 30 s safety timeouts are harness errors.

import (
	"context"
	"fmt"
	"net"
	"os"
	"runtime"
	"sort"
	"strings"
	"sync"
	"sync/atomic"
	"time"

	"github.com/miekg/dns"
	"github.com/semihalev/sdns/config"
	"github.com/semihalev/sdns/internal/contextutil"
	"github.com/semihalev/sdns/internal/verifshim/authsim"
	"github.com/semihalev/sdns/internal/verifshim/zonemodel"
	"github.com/semihalev/sdns/middleware"
	"github.com/semihalev/sdns/middleware/cache"
	"github.com/semihalev/sdns/middleware/defaults"
	"github.com/semihalev/sdns/middleware/resolver"
	"github.com/semihalev/zlog/v2"
)

func init() {
	logger := zlog.NewStructured()
	logger.SetLevel(zlog.LevelFatal)
	zlog.SetDefault(logger)
}

const (
	vkQName     = "www.geo.t."
	vkWarmName  = "warm.geo.t."
	vkGeoZone   = "geo.t."
	vkSafety    = 30 * time.Second
	vkNetTO     = 20 * time.Second // upstream exchange timeout: never fires inside a run (checked)
	vkQueryTO   = 60 * time.Second // client query budget: never fires inside a run
	vkGenericA  = "192.0.2.200"    // what the authority answers a query without client subnet
	vkScopedTTL = 300
)

var vkDebug = os.Getenv("VERIF_DEBUG") != ""

type vkHarnessErr struct{ msg string }

func (e *vkHarnessErr) Error() string { return e.msg }

// ------------------------------------------------------------ clients

// vkClient is one audience: a source address and (optionally) the client-subnet option it sends.
type vkClient struct {
	Name   string `json:"name"`
	Addr   string `json:"addr"`             // source address of the transport
	Subnet string `json:"subnet,omitempty"` // client-subnet option sent ("" = none)
}

var vkClients = map[string]vkClient{
	"c1":    {Name: "c1", Addr: "198.51.100.11", Subnet: "10.1.2.0/24"},
	"c2":    {Name: "c2", Addr: "198.51.100.12", Subnet: "10.1.3.0/24"},
	"c16":   {Name: "c16", Addr: "198.51.100.16", Subnet: "10.1.0.0/16"},
	"plain": {Name: "plain", Addr: "198.51.100.20"},
	// outsiders of the cache phase
	"out":      {Name: "out", Addr: "198.51.100.99", Subnet: "10.9.9.0/24"},
	"outplain": {Name: "outplain", Addr: "198.51.100.98"},
}

// forwarded is the subnet sdns may forward for this client under the ceilings 24/56 ("" = none).
func (c vkClient) forwarded() (net.IP, int, bool) {
	if c.Subnet == "" {
		return nil, 0, false
	}
	_, n, err := net.ParseCIDR(c.Subnet)
	if err != nil {
		return nil, 0, false
	}
	ones, _ := n.Mask.Size()
	if ones > 24 {
		ones = 24
	}
	return n.IP.Mask(net.CIDRMask(ones, 32)).To4(), ones, true
}

// ------------------------------------------------------------ tailoring

// vkTailoredA encodes the subnet an answer was made for: 203.<2nd octet>.<3rd octet>.<source prefix length>
// (every test subnet lives in 10.0.0.0/8, so the first octet carries no information).
func vkTailoredA(ip net.IP, bits int) net.IP {
	ip = ip.To4()
	return net.IPv4(203, ip[1], ip[2], byte(bits)).To4()
}

// vkDecodeA: the subnet a delivered A record was tailored for (ok=false: the generic answer).
func vkDecodeA(a net.IP) (subnet net.IP, bits int, tailored, known bool) {
	a = a.To4()
	if a == nil {
		return nil, 0, false, false
	}
	if a.Equal(net.ParseIP(vkGenericA)) {
		return nil, 0, false, true
	}
	if a[0] != 203 || a[3] == 0 || a[3] > 32 {
		return nil, 0, false, false
	}
	return net.IPv4(10, a[1], a[2], 0).To4(), int(a[3]), true, true
}

// ------------------------------------------------------------ gated geo.t. authority

type vkHeld struct {
	seq      int
	id       uint16
	from     *net.UDPAddr
	req      *dns.Msg
	subnet   net.IP // nil: the query carried no client subnet
	bits     int
	label    string // name of the client whose subnet the query carries ("plain" for none, "?" unknown)
	answered bool
}

type vkGeo struct {
	u     *zonemodel.Universe
	pc    *net.UDPConn
	addr  string
	mu    sync.Mutex
	held  []*vkHeld
	auto  bool // answer immediately (warm-up and cache phase)
	scope int  // scope the authority declares in this run
	seen  int  // www queries received in this run
	other int
	bad   atomic.Int64
}

func vkStartGeo(u *zonemodel.Universe) (*vkGeo, error) {
	pc, err := net.ListenUDP("udp4", &net.UDPAddr{IP: net.IPv4(127, 0, 0, 1)})
	if err != nil {
		return nil, err
	}
	g := &vkGeo{u: u, pc: pc, addr: pc.LocalAddr().String(), auto: true}
	go g.loop()
	return g, nil
}

func vkSubnetOf(m *dns.Msg) (net.IP, int, bool) {
	opt := m.IsEdns0()
	if opt == nil {
		return nil, 0, false
	}
	for _, o := range opt.Option {
		if s, ok := o.(*dns.EDNS0_SUBNET); ok {
			if s.Family != 1 || s.Address.To4() == nil {
				return nil, 0, false
			}
			return s.Address.To4(), int(s.SourceNetmask), true
		}
	}
	return nil, 0, false
}

func vkLabelFor(ip net.IP, bits int, has bool) string {
	if !has {
		return "plain"
	}
	names := make([]string, 0, len(vkClients))
	for n := range vkClients {
		names = append(names, n)
	}
	sort.Strings(names)
	for _, n := range names {
		if fip, fb, ok := vkClients[n].forwarded(); ok && fb == bits && fip.Equal(ip) {
			return n
		}
	}
	return fmt.Sprintf("?%s/%d", ip, bits)
}

func (g *vkGeo) loop() {
	buf := make([]byte, 65535)
	for {
		n, from, err := g.pc.ReadFromUDP(buf)
		if err != nil {
			return
		}
		m := new(dns.Msg)
		if m.Unpack(buf[:n]) != nil || len(m.Question) != 1 || m.Response {
			g.bad.Add(1)
			continue
		}
		q := m.Question[0]
		if !strings.EqualFold(q.Name, vkQName) || q.Qtype != dns.TypeA {
			// anything else in geo.t. (the warm-up name, NS, ...) is answered honestly at once
			g.mu.Lock()
			g.other++
			g.mu.Unlock()
			do := false
			if o := m.IsEdns0(); o != nil {
				do = o.Do()
			}
			r := g.u.ServerAnswer(vkGeoZone, q, do)
			r.Id, r.Response, r.RecursionDesired = m.Id, true, m.RecursionDesired
			r.Question = []dns.Question{q}
			if o := m.IsEdns0(); o != nil && r.IsEdns0() == nil {
				ro := &dns.OPT{Hdr: dns.RR_Header{Name: ".", Rrtype: dns.TypeOPT}}
				ro.SetUDPSize(1232)
				r.Extra = append(r.Extra, ro)
			}
			if b, err := r.Pack(); err == nil {
				_, _ = g.pc.WriteToUDP(b, from)
			}
			continue
		}
		ip, bits, has := vkSubnetOf(m)
		h := &vkHeld{id: m.Id, from: from, req: m, subnet: ip, bits: bits, label: vkLabelFor(ip, bits, has)}
		if !has {
			h.subnet = nil
		}
		g.mu.Lock()
		h.seq = g.seen
		g.seen++
		auto := g.auto
		if !auto {
			g.held = append(g.held, h)
		} else {
			h.answered = true
		}
		scope := g.scope
		g.mu.Unlock()
		if auto {
			_ = g.reply(h, scope)
		}
	}
}

// reply sends the tailored answer for h.
func (g *vkGeo) reply(h *vkHeld, scope int) error {
	m := new(dns.Msg)
	m.SetReply(h.req)
	m.Authoritative = true
	a := net.ParseIP(vkGenericA).To4()
	if h.subnet != nil && h.bits > 0 {
		a = vkTailoredA(h.subnet, h.bits)
	}
	m.Answer = []dns.RR{&dns.A{Hdr: dns.RR_Header{Name: h.req.Question[0].Name, Rrtype: dns.TypeA, Class: dns.ClassINET, Ttl: vkScopedTTL}, A: a}}
	if qo := h.req.IsEdns0(); qo != nil {
		o := &dns.OPT{Hdr: dns.RR_Header{Name: ".", Rrtype: dns.TypeOPT}}
		o.SetUDPSize(1232)
		if h.subnet != nil {
			o.Option = append(o.Option, &dns.EDNS0_SUBNET{Code: dns.EDNS0SUBNET, Family: 1,
				SourceNetmask: uint8(h.bits), SourceScope: uint8(scope), Address: h.subnet})
		}
		m.Extra = append(m.Extra, o)
	}
	b, err := m.Pack()
	if err != nil {
		return err
	}
	_, err = g.pc.WriteToUDP(b, h.from)
	return err
}

func (g *vkGeo) unanswered() []*vkHeld {
	g.mu.Lock()
	defer g.mu.Unlock()
	var out []*vkHeld
	for _, h := range g.held {
		if !h.answered {
			out = append(out, h)
		}
	}
	return out
}

func (g *vkGeo) begin(scope int) {
	g.mu.Lock()
	g.held, g.seen, g.other, g.scope, g.auto = nil, 0, 0, scope, true
	g.mu.Unlock()
}

func (g *vkGeo) setAuto(on bool) {
	g.mu.Lock()
	g.auto = on
	g.mu.Unlock()
}

// ------------------------------------------------------------ dial gate

type vkDial struct {
	seq      int
	ch       chan struct{}
	label    string // set by the world at the first settle that sees it
	released bool
}

type vkGate struct {
	mu     sync.Mutex
	closed bool // true: the gate is in use in this run
	armed  bool // true only while a client's arrival is settling: the exchange that arrival leads to is held
	dials  []*vkDial
	late   atomic.Int64
}

func (g *vkGate) begin(closed bool) {
	g.mu.Lock()
	g.closed, g.armed, g.dials = closed, false, nil
	g.mu.Unlock()
}

func (g *vkGate) arm(on bool) {
	g.mu.Lock()
	g.armed = on
	g.mu.Unlock()
}

// pass is called by the resolver (through its dial-target seam) right before an exchange with geo.t. is
// dialled. Only the exchange a client's arrival leads to is held (it is the only one whose owner is known
// without looking at the query); an exchange started as a consequence of a later event (a follower that
// re-enters after its leader finished) goes on the wire at once and is then identified by the subnet in it.
func (g *vkGate) pass() {
	g.mu.Lock()
	if !g.closed || !g.armed {
		g.mu.Unlock()
		return
	}
	d := &vkDial{seq: len(g.dials), ch: make(chan struct{})}
	g.dials = append(g.dials, d)
	g.mu.Unlock()
	vkGateWait(g, d)
}

// vkGateWait has its own frame so the goroutine snapshot can count the goroutines parked in the gate.
func vkGateWait(g *vkGate, d *vkDial) {
	t := time.NewTimer(vkSafety)
	defer t.Stop()
	select {
	case <-d.ch:
	case <-t.C:
		g.late.Add(1)
	}
}

func (g *vkGate) waiting() []*vkDial {
	g.mu.Lock()
	defer g.mu.Unlock()
	var out []*vkDial
	for _, d := range g.dials {
		if !d.released {
			out = append(out, d)
		}
	}
	return out
}

func (g *vkGate) open() {
	g.mu.Lock()
	g.closed = false
	for _, d := range g.dials {
		if !d.released {
			d.released = true
			close(d.ch)
		}
	}
	g.mu.Unlock()
}

// ------------------------------------------------------------ the system under test

type vkPipe struct {
	sim   *authsim.Sim
	cfg   *config.Config
	p     *middleware.Pipeline
	res   *resolver.DNSHandler
	cache *cache.Cache
	dir   string
}

type vkLab struct {
	u       *zonemodel.Universe
	sim     *authsim.Sim
	geo     *vkGeo
	gate    *vkGate
	geoAddr map[string]bool // advertised "ip:53" addresses of geo.t.'s server
	nextID  atomic.Uint32
	builds  int
}

func vkNewLab() (*vkLab, error) {
	u := zonemodel.NewUniverse("c19sf")
	u.AddZone(zonemodel.ZoneSpec{Apex: ".", Mode: zonemodel.Unsigned, TTL: 3600, NSTTL: 3600})
	u.AddZone(zonemodel.ZoneSpec{Apex: "t.", Mode: zonemodel.Unsigned, TTL: 3600, NSTTL: 3600})
	z := u.AddZone(zonemodel.ZoneSpec{Apex: vkGeoZone, Mode: zonemodel.Unsigned, TTL: 3600, NSTTL: 3600})
	z.Add("www A "+vkGenericA, "warm A 192.0.2.201")
	u.Build()
	sim, err := authsim.Start(u)
	if err != nil {
		return nil, err
	}
	geo, err := vkStartGeo(u)
	if err != nil {
		sim.Close()
		return nil, err
	}
	l := &vkLab{u: u, sim: sim, geo: geo, gate: &vkGate{}, geoAddr: map[string]bool{}}
	srv := u.Servers()[u.Zone(vkGeoZone).Server]
	if srv == nil || len(srv.Addrs) == 0 {
		return nil, fmt.Errorf("geo.t. has no server address in the model")
	}
	for _, a := range srv.Addrs {
		l.geoAddr[net.JoinHostPort(a, "53")] = true
	}
	l.nextID.Store(1000)
	return l, nil
}

func (l *vkLab) close() {
	l.sim.Close()
	l.geo.pc.Close()
}

func (l *vkLab) remap(addr string) string {
	if l.geoAddr[addr] {
		l.gate.pass()
		return l.geo.addr
	}
	return l.sim.Remap(addr)
}

// newPipe builds the production chain with ECS forwarding on (ceilings 24/56, every client eligible).
func (l *vkLab) newPipe() (*vkPipe, error) {
	dir, err := os.MkdirTemp("", "vk-c19sf-")
	if err != nil {
		return nil, err
	}
	cfg := &config.Config{
		Bind:         "127.0.0.1:0",
		RootServers:  l.sim.RootAddrs(),
		DNSSEC:       "off",
		Maxdepth:     30,
		Expire:       600,
		CacheSize:    4096,
		RateLimit:    0,
		Prefetch:     0,
		CookieSecret: "6c6f6f6b61686172646c6f6f6b6168617264",
		Directory:    dir,
		BlockListDir: dir + "/bl",
		Nullroute:    "0.0.0.0",
		Nullroutev6:  "::0",
	}
	cfg.Timeout.Duration = vkNetTO
	cfg.QueryTimeout.Duration = vkQueryTO
	cfg.ECS.Enabled = true
	cfg.ECS.ForwardV4Max = 24
	cfg.ECS.ForwardV6Max = 56
	cfg.ECS.ClientNetworks = []string{"198.51.100.0/24"}
	cfg.ECS.CacheLimitTTL.Duration = 60 * time.Second
	cfg.RecursionFirewall.Mode = config.RecursionFirewallModeOff

	middleware.Reset()
	defaults.Register()
	p := middleware.DefaultRegistry.Build(cfg)
	middleware.VerifAutoWire(p)
	middleware.Reset()
	res, _ := p.Get("resolver").(*resolver.DNSHandler)
	ch, _ := p.Get("cache").(*cache.Cache)
	if res == nil || ch == nil {
		return nil, fmt.Errorf("default chain lacks resolver/cache handler: %v", p.List())
	}
	resolver.VerifSetResolveTarget(res, l.remap)
	l.builds++
	return &vkPipe{sim: l.sim, cfg: cfg, p: p, res: res, cache: ch, dir: dir}, nil
}

func (pl *vkPipe) handlerNames() []string {
	var n []string
	for _, h := range pl.p.Handlers() {
		n = append(n, h.Name())
	}
	return n
}

func (pl *vkPipe) reset() {
	resolver.VerifResetState(pl.res)
	cache.VerifResetState(pl.cache)
}

func (pl *vkPipe) close() {
	for _, h := range pl.p.Handlers() {
		if s, ok := h.(interface{ Stop() }); ok {
			s.Stop()
		}
	}
	if pl.dir != "" {
		_ = os.RemoveAll(pl.dir)
	}
}

// transport captures replies exactly as a client would decode them.
type vkTransport struct {
	remote net.Addr
	local  net.Addr
	msgs   []*dns.Msg
}

func (t *vkTransport) LocalAddr() net.Addr  { return t.local }
func (t *vkTransport) RemoteAddr() net.Addr { return t.remote }
func (t *vkTransport) WriteMsg(m *dns.Msg) error {
	b, err := m.Pack()
	if err != nil {
		t.msgs = append(t.msgs, m.Copy())
		return nil
	}
	_, err = t.Write(b)
	return err
}
func (t *vkTransport) Write(b []byte) (int, error) {
	m := new(dns.Msg)
	if err := m.Unpack(b); err != nil {
		t.msgs = append(t.msgs, nil)
		return len(b), nil
	}
	t.msgs = append(t.msgs, m)
	return len(b), nil
}
func (t *vkTransport) Close() error  { return nil }
func (t *vkTransport) Proto() string { return "" }

// query builds c's request for (qname, A).
func (l *vkLab) query(c vkClient, qname string) *dns.Msg {
	m := new(dns.Msg)
	m.Id = uint16(l.nextID.Add(1))
	m.RecursionDesired = true
	m.Question = []dns.Question{{Name: dns.Fqdn(qname), Qtype: dns.TypeA, Qclass: dns.ClassINET}}
	o := &dns.OPT{Hdr: dns.RR_Header{Name: ".", Rrtype: dns.TypeOPT}}
	o.SetUDPSize(1232)
	if c.Subnet != "" {
		ip, n, _ := net.ParseCIDR(c.Subnet)
		ones, _ := n.Mask.Size()
		o.Option = append(o.Option, &dns.EDNS0_SUBNET{Code: dns.EDNS0SUBNET, Family: 1, SourceNetmask: uint8(ones), Address: ip.To4()})
	}
	m.Extra = []dns.RR{o}
	return m
}

// vkAnswer is what one client was handed.
type vkAnswer struct {
	Writes int    `json:"writes"`
	Rcode  string `json:"rcode"`
	A      string `json:"a,omitempty"`
	TTL    uint32 `json:"ttl,omitempty"`
	ECS    bool   `json:"ecs_in_reply,omitempty"` // the client-facing reply carried a client-subnet option
}

// vkAskRun drives one request through the chain the way server.serveMsgBy does (TCP-like transport: no
// size clamp). It has its own frame name so the goroutine snapshot recognises client goroutines.
func vkAskRun(pl *vkPipe, c vkClient, req *dns.Msg) vkAnswer {
	t := &vkTransport{remote: &net.TCPAddr{IP: net.ParseIP(c.Addr), Port: 40000}, local: &net.TCPAddr{IP: net.IPv4(192, 0, 2, 53), Port: 53}}
	ctx := contextutil.WithLazyDeadline(context.Background(), time.Now().Add(pl.cfg.QueryTimeout.Duration))
	ch := pl.p.NewChain()
	ch.Reset(t, req)
	ch.Next(ctx)
	pl.p.PutChain(ch)
	ctx.Cancel()
	a := vkAnswer{Writes: len(t.msgs), Rcode: "none"}
	if len(t.msgs) > 0 && t.msgs[len(t.msgs)-1] != nil {
		m := t.msgs[len(t.msgs)-1]
		a.Rcode = dns.RcodeToString[m.Rcode]
		for _, rr := range m.Answer {
			if x, ok := rr.(*dns.A); ok {
				a.A, a.TTL = x.A.String(), x.Hdr.Ttl
				break
			}
		}
		if o := m.IsEdns0(); o != nil {
			for _, e := range o.Option {
				if _, ok := e.(*dns.EDNS0_SUBNET); ok {
					a.ECS = true
				}
			}
		}
	}
	return a
}

// ------------------------------------------------------------ goroutine snapshot

type vkSnap struct {
	world   int
	blocked bool
	exch    int // parked in the socket read of an upstream exchange
	gate    int // parked in the dial gate
	asks    int // client goroutines (started or not yet scheduled)
	waiting int // client goroutines parked at a known waiting point (singleflight result / cache dedup generation)
	leaders int // singleflight leader closures
	lookups int // leader closures parked in the select of (*Resolver).lookup
	attempt int // upstream attempts (queryServer goroutines, started or not yet scheduled)
	sig     string
	desc    []string
}

var vkWorldFrames = []string{
	"h_c19sf.vkAskRun", "h_c19sf.(*vkWorld).", "middleware/resolver.(*Resolver).", "middleware/resolver.(*SingleflightWrapper).",
	"sync/singleflight.", "internal/dnsclient.", "h_c19sf.vkGateWait",
}

// background goroutines every pipeline keeps for its lifetime
var vkBaselineFrames = []string{
	"middleware/resolver.(*Resolver).run(", "(*SingleflightWrapper).cleanupLoop(", "(*circuitBreaker).cleanup(", "(*TCPConnPool).cleanupLoop(",
	"h_c19sf.vkSnapshot(",
}

var vkBlockedStates = map[string]bool{
	"select": true, "chan receive": true, "chan send": true, "IO wait": true, "semacquire": true,
	"sync.Mutex.Lock": true, "sync.RWMutex.RLock": true, "sync.RWMutex.Lock": true, "sync.Cond.Wait": true,
	"sync.WaitGroup.Wait": true, "select (no cases)": true, "sleep": true,
}

var (
	vkStackBuf  = make([]byte, 1<<20)
	vkSnapCount int
)

func vkSnapshot() vkSnap {
	vkSnapCount++
	n := runtime.Stack(vkStackBuf, true)
	for n == len(vkStackBuf) {
		vkStackBuf = make([]byte, 2*len(vkStackBuf))
		n = runtime.Stack(vkStackBuf, true)
	}
	s := vkSnap{blocked: true}
	for _, blk := range strings.Split(string(vkStackBuf[:n]), "\n\n") {
		nl := strings.IndexByte(blk, '\n')
		if nl < 0 || !strings.HasPrefix(blk, "goroutine ") {
			continue
		}
		head, body := blk[:nl], blk[nl+1:]
		lb, rb := strings.IndexByte(head, '['), strings.LastIndexByte(head, ']')
		if lb < 0 || rb < lb {
			continue
		}
		state := head[lb+1 : rb]
		if c := strings.IndexByte(state, ','); c >= 0 {
			state = state[:c]
		}
		isWorld := false
		for _, f := range vkWorldFrames {
			if strings.Contains(body, f) {
				isWorld = true
				break
			}
		}
		if !isWorld {
			continue
		}
		base := false
		for _, f := range vkBaselineFrames {
			if strings.Contains(body, f) {
				base = true
				break
			}
		}
		if base {
			continue
		}
		s.world++
		if !vkBlockedStates[state] || state == "sleep" {
			s.blocked = false
		}
		inner := ""
		for _, ln := range strings.Split(body, "\n") {
			if strings.HasPrefix(ln, "\t") || strings.HasPrefix(ln, "created by ") {
				continue
			}
			if strings.Contains(ln, "semihalev/sdns/") || strings.Contains(ln, "singleflight.") {
				inner = ln
				if p := strings.LastIndexByte(inner, '('); p > 0 {
					inner = inner[:p]
				}
				if p := strings.LastIndexByte(inner, '/'); p >= 0 {
					inner = inner[p+1:]
				}
				break
			}
		}
		if state == "IO wait" && strings.Contains(body, "middleware/resolver.(*Resolver).exchange(") {
			s.exch++
		}
		if strings.Contains(body, "h_c19sf.vkGateWait") {
			s.gate++
		}
		if strings.Contains(body, "h_c19sf.(*vkWorld).") {
			s.asks++
			if state == "select" && (strings.HasSuffix(inner, "(*SingleflightWrapper).TimedDoChanWithRole") || strings.HasSuffix(inner, "cache.(*Cache).ServeDNS")) {
				s.waiting++
			}
		}
		if strings.Contains(body, "singleflight.(*Group).doCall(") || strings.Contains(body, "singleflight.(*Group).DoChan.gowrap") {
			s.leaders++
			if state == "select" && strings.HasSuffix(inner, "(*Resolver).lookup") {
				s.lookups++
			}
		}
		if strings.Contains(body, "(*Resolver).queryServer(") || strings.Contains(body, "(*Resolver).lookup.gowrap") {
			s.attempt++
		}
		s.desc = append(s.desc, state+" @ "+inner)
	}
	sort.Strings(s.desc)
	s.sig = strings.Join(s.desc, ";")
	return s
}
