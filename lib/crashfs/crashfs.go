// Package crashfs turns a vos operation log (the real write path's exact
// sequence of file operations, with payloads) into crash images: the directory
// contents a recovery could find after a crash at every point of the log.
//
//   - ProcessCrash: for every prefix k, everything executed so far is visible
//     (process killed, OS survives).
//   - PowerLoss: for every prefix k, additionally every combination of
//     (a) each file's unsynced tail cut at any write boundary at/after its last
//     fsync and (b) any suffix of the namespace operations (create/rename/
//     remove) issued since the last directory fsync being lost.
package crashfs

import (
	"fmt"
	"os"
	"path/filepath"
	"sort"
	"strings"

	"github.com/semihalev/sdns/internal/verifshim/vos"
)

// Image is one post-crash directory state.
type Image struct {
	Prefix int               // number of log operations executed before the crash
	Desc   string            // human readable description of what was lost
	Files  map[string][]byte // absolute path -> content
}

type file struct {
	data   []byte
	bounds []int // write boundaries (cumulative lengths), starting with 0
	synced int   // durable length
}

func (f *file) clone() *file {
	return &file{data: append([]byte(nil), f.data...), bounds: append([]int(nil), f.bounds...), synced: f.synced}
}

type nsOp struct {
	kind     string // create, rename, remove
	path     string
	path2    string
	undoFile *file // rename: previous target (nil if none); remove: removed file
}

type state struct {
	files   map[string]*file
	pending []nsOp // namespace ops since the last directory sync
}

func newState(initial map[string][]byte) *state {
	s := &state{files: map[string]*file{}}
	for p, d := range initial {
		s.files[p] = &file{data: append([]byte(nil), d...), bounds: []int{0, len(d)}, synced: len(d)}
	}
	return s
}

func (s *state) apply(op vos.Op) {
	if op.Fail {
		return
	}
	switch op.Kind {
	case "create":
		old := s.files[op.Path]
		s.files[op.Path] = &file{bounds: []int{0}}
		s.pending = append(s.pending, nsOp{kind: "create", path: op.Path, undoFile: old})
	case "write":
		f := s.files[op.Path]
		if f == nil {
			f = &file{bounds: []int{0}}
			s.files[op.Path] = f
		}
		f.data = append(f.data, op.Data...)
		f.bounds = append(f.bounds, len(f.data))
	case "sync":
		if f := s.files[op.Path]; f != nil {
			f.synced = len(f.data)
		}
	case "rename":
		src := s.files[op.Path]
		if src == nil {
			return
		}
		old := s.files[op.Path2]
		s.files[op.Path2] = src
		delete(s.files, op.Path)
		s.pending = append(s.pending, nsOp{kind: "rename", path: op.Path, path2: op.Path2, undoFile: old})
	case "remove":
		if f := s.files[op.Path]; f != nil {
			delete(s.files, op.Path)
			s.pending = append(s.pending, nsOp{kind: "remove", path: op.Path, undoFile: f})
		}
	case "syncdir":
		var keep []nsOp
		for _, p := range s.pending {
			if filepath.Dir(p.path) != filepath.Clean(op.Path) {
				keep = append(keep, p)
			}
		}
		s.pending = keep
	}
}

func (s *state) snapshot() map[string][]byte {
	m := map[string][]byte{}
	for p, f := range s.files {
		m[p] = append([]byte(nil), f.data...)
	}
	return m
}

// ProcessCrash returns one image per prefix of the log (0..len(log)).
func ProcessCrash(log []vos.Op, initial map[string][]byte) []Image {
	s := newState(initial)
	out := []Image{{Prefix: 0, Desc: "before any operation", Files: s.snapshot()}}
	for i, op := range log {
		s.apply(op)
		out = append(out, Image{Prefix: i + 1, Desc: fmt.Sprintf("after op %d %s %s", i, op.Kind, filepath.Base(op.Path)), Files: s.snapshot()})
	}
	return out
}

// PowerLoss returns, for every prefix, every image in which unsynced file
// tails are cut at write boundaries and a suffix of the pending namespace
// operations is lost. max caps the number of images (0 = unlimited); the
// second result reports whether the enumeration was complete.
func PowerLoss(log []vos.Op, initial map[string][]byte, max int) ([]Image, bool) {
	var out []Image
	seen := map[string]bool{}
	complete := true
	s := newState(initial)
	emit := func(k int) {
		// choose how many pending namespace ops survive (a prefix of them)
		for keep := len(s.pending); keep >= 0; keep-- {
			// undo the lost suffix on a copy
			files := map[string]*file{}
			for p, f := range s.files {
				files[p] = f
			}
			for j := len(s.pending) - 1; j >= keep; j-- {
				p := s.pending[j]
				switch p.kind {
				case "create":
					if p.undoFile != nil {
						files[p.path] = p.undoFile
					} else {
						delete(files, p.path)
					}
				case "rename":
					files[p.path] = files[p.path2]
					if p.undoFile != nil {
						files[p.path2] = p.undoFile
					} else {
						delete(files, p.path2)
					}
				case "remove":
					files[p.path] = p.undoFile
				}
			}
			// per-file durable length choices
			paths := make([]string, 0, len(files))
			for p := range files {
				paths = append(paths, p)
			}
			sort.Strings(paths)
			choices := make([][]int, len(paths))
			for i, p := range paths {
				f := files[p]
				for _, b := range f.bounds {
					if b >= f.synced {
						choices[i] = append(choices[i], b)
					}
				}
				if len(choices[i]) == 0 {
					choices[i] = []int{len(f.data)}
				}
			}
			idx := make([]int, len(paths))
			for {
				m := map[string][]byte{}
				var d []string
				for i, p := range paths {
					n := choices[i][idx[i]]
					m[p] = append([]byte(nil), files[p].data[:n]...)
					if n < len(files[p].data) {
						d = append(d, fmt.Sprintf("%s cut to %d/%d", filepath.Base(p), n, len(files[p].data)))
					}
				}
				if keep < len(s.pending) {
					d = append(d, fmt.Sprintf("last %d namespace ops lost", len(s.pending)-keep))
				}
				key := imageKey(m)
				if !seen[fmt.Sprint(k)+"|"+key] {
					seen[fmt.Sprint(k)+"|"+key] = true
					out = append(out, Image{Prefix: k, Desc: fmt.Sprintf("power loss after %d ops: %s", k, strings.Join(d, "; ")), Files: m})
				}
				if max > 0 && len(out) >= max {
					complete = false
					return
				}
				// next combination
				j := 0
				for ; j < len(idx); j++ {
					idx[j]++
					if idx[j] < len(choices[j]) {
						break
					}
					idx[j] = 0
				}
				if j == len(idx) {
					break
				}
			}
		}
	}
	emit(0)
	for i, op := range log {
		s.apply(op)
		if max > 0 && len(out) >= max {
			complete = false
			break
		}
		emit(i + 1)
	}
	return out, complete
}

func imageKey(m map[string][]byte) string {
	ps := make([]string, 0, len(m))
	for p := range m {
		ps = append(ps, p)
	}
	sort.Strings(ps)
	var b strings.Builder
	for _, p := range ps {
		fmt.Fprintf(&b, "%s=%x;", p, m[p])
	}
	return b.String()
}

// Materialize writes an image into dir (paths are re-rooted from root to dir).
func Materialize(img Image, root, dir string) error {
	for p, d := range img.Files {
		rel, err := filepath.Rel(root, p)
		if err != nil || strings.HasPrefix(rel, "..") {
			continue
		}
		dst := filepath.Join(dir, rel)
		if err := os.MkdirAll(filepath.Dir(dst), 0o755); err != nil {
			return err
		}
		if err := os.WriteFile(dst, d, 0o644); err != nil {
			return err
		}
	}
	return nil
}
