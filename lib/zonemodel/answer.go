package zonemodel

// Authoritative answering: what a correct server hosting the zone replies.

import (
	"sort"
	"strings"

	"github.com/miekg/dns"
)

type lkKind int

const (
	lkAnswer lkKind = iota
	lkCNAME
	lkDNAME
	lkNoData
	lkNXDomain
	lkReferral
)

// lookupResult is one step of the RFC 1034 §4.3.2 algorithm inside one zone.
type lookupResult struct {
	kind     lkKind
	rrs      []dns.RR // stored RRset (stored owner: the wildcard owner for expansions)
	stored   string   // owner name in the zone data
	wildcard bool     // synthesised from *.ce
	ce       string   // closest encloser (wildcard / NXDOMAIN)
	cut      string   // delegation point (referral)
	target   string   // CNAME target / DNAME-substituted name
}

// inZone reports whether name is at or below the apex.
func (z *Zone) inZone(name string) bool { return dns.IsSubDomain(z.Apex, name) }

func (z *Zone) closestEncloser(name string) string {
	for n := name; ; n = parentName(n) {
		if z.exists[n] || n == z.Apex {
			return n
		}
	}
}

func nextCloser(name, ce string) string {
	labels := dns.SplitDomainName(name)
	k := dns.CountLabel(name) - dns.CountLabel(ce) - 1
	if k < 0 {
		return name
	}
	return Canon(strings.Join(labels[k:], "."))
}

func dnameSubstitute(qname, owner, target string) string {
	k := dns.CountLabel(qname) - dns.CountLabel(owner)
	labels := dns.SplitDomainName(qname)
	prefix := strings.Join(labels[:k], ".")
	if target == "." {
		return Canon(prefix + ".")
	}
	return Canon(prefix + "." + target)
}

func (z *Zone) lookup(qname string, qtype uint16) lookupResult {
	qname = Canon(qname)
	// walk from the apex towards qname: first delegation or DNAME wins
	labels := dns.SplitDomainName(qname)
	apexLabels := dns.CountLabel(z.Apex)
	for i := len(labels) - apexLabels; i >= 0; i-- {
		n := Canon(strings.Join(labels[i:], "."))
		if i == len(labels) {
			n = "."
		}
		if z.cuts[n] {
			if qtype == dns.TypeDS && n == qname {
				break
			}
			return lookupResult{kind: lkReferral, cut: n}
		}
		if n != qname {
			if d := z.rr[n][dns.TypeDNAME]; len(d) > 0 {
				return lookupResult{kind: lkDNAME, rrs: d, stored: n, target: dnameSubstitute(qname, n, d[0].(*dns.DNAME).Target)}
			}
		}
	}
	match := func(stored string, wildcard bool, ce string) lookupResult {
		m := z.rr[stored]
		if z.cuts[stored] {
			// only DS (and the NS itself, non-authoritatively) live at the parent side of a cut
			if qtype == dns.TypeDS && len(m[dns.TypeDS]) > 0 {
				return lookupResult{kind: lkAnswer, rrs: m[dns.TypeDS], stored: stored}
			}
			return lookupResult{kind: lkNoData, stored: stored}
		}
		if rrs := m[qtype]; len(rrs) > 0 {
			return lookupResult{kind: lkAnswer, rrs: rrs, stored: stored, wildcard: wildcard, ce: ce}
		}
		if c := m[dns.TypeCNAME]; len(c) > 0 && qtype != dns.TypeCNAME {
			return lookupResult{kind: lkCNAME, rrs: c, stored: stored, wildcard: wildcard, ce: ce, target: Canon(c[0].(*dns.CNAME).Target)}
		}
		return lookupResult{kind: lkNoData, stored: stored, wildcard: wildcard, ce: ce}
	}
	if z.exists[qname] {
		return match(qname, false, "")
	}
	ce := z.closestEncloser(qname)
	wc := "*." + ce
	if ce == "." {
		wc = "*."
	}
	if z.exists[wc] && len(z.rr[wc]) > 0 {
		return match(wc, true, ce)
	}
	return lookupResult{kind: lkNXDomain, ce: ce}
}

// ---------------------------------------------------------------- denial proofs

func (z *Zone) nsecSigned(owner string) []dns.RR {
	n := z.nsec[owner]
	if n == nil {
		return nil
	}
	return z.withSig([]dns.RR{n}, "")
}

// nsecCovering returns the NSEC whose span contains name (name must not own one).
func (z *Zone) nsecCovering(name string) []dns.RR {
	if len(z.nsecNames) == 0 {
		return nil
	}
	idx := sort.Search(len(z.nsecNames), func(i int) bool { return !CanonicalLess(z.nsecNames[i], name) })
	// predecessor (wraps to the last name)
	p := idx - 1
	if p < 0 {
		p = len(z.nsecNames) - 1
	}
	return z.nsecSigned(z.nsecNames[p])
}

func (z *Zone) n3Signed(hash string) []dns.RR {
	n := z.n3[hash]
	if n == nil {
		return nil
	}
	return z.withSig([]dns.RR{n}, "")
}

func (z *Zone) n3Match(name string) []dns.RR { return z.n3Signed(z.n3hash[name]) }

func (z *Zone) n3Cover(name string) []dns.RR {
	if len(z.n3order) == 0 {
		return nil
	}
	h := z.hash(name)
	idx := sort.SearchStrings(z.n3order, h)
	if idx < len(z.n3order) && z.n3order[idx] == h {
		return nil // matched, not covered (hash collision with an existing name)
	}
	p := idx - 1
	if p < 0 {
		p = len(z.n3order) - 1
	}
	return z.n3Signed(z.n3order[p])
}

// closestProvable returns the deepest ancestor-or-self of name that owns an NSEC3.
func (z *Zone) closestProvable(name string) string {
	for n := name; ; n = parentName(n) {
		if _, ok := z.n3hash[n]; ok || n == z.Apex {
			return n
		}
	}
}

func appendUnique(dst []dns.RR, add ...dns.RR) []dns.RR {
outer:
	for _, a := range add {
		for _, d := range dst {
			if dns.IsDuplicate(a, d) && a.Header().Rrtype != dns.TypeRRSIG {
				continue outer
			}
			if a.Header().Rrtype == dns.TypeRRSIG && d.Header().Rrtype == dns.TypeRRSIG &&
				strings.EqualFold(a.Header().Name, d.Header().Name) && a.(*dns.RRSIG).TypeCovered == d.(*dns.RRSIG).TypeCovered {
				continue outer
			}
		}
		dst = append(dst, a)
	}
	return dst
}

func wildcardOf(ce string) string {
	if ce == "." {
		return "*."
	}
	return "*." + ce
}

// proofNXDomain: qname does not exist, closest encloser ce, no wildcard at ce.
func (z *Zone) proofNXDomain(qname, ce string) []dns.RR {
	var out []dns.RR
	switch z.Mode {
	case NSEC:
		out = appendUnique(out, z.nsecCovering(qname)...)
		out = appendUnique(out, z.nsecCovering(wildcardOf(ce))...)
	case NSEC3, NSEC3OptOut:
		pe := z.closestProvable(ce)
		out = appendUnique(out, z.n3Match(pe)...)
		out = appendUnique(out, z.n3Cover(nextCloser(qname, pe))...)
		out = appendUnique(out, z.n3Cover(wildcardOf(pe))...)
	}
	return out
}

// proofNoData: name exists (or is matched by wildcard stored) without the type.
func (z *Zone) proofNoData(qname string, r lookupResult) []dns.RR {
	var out []dns.RR
	switch z.Mode {
	case NSEC:
		if r.wildcard {
			out = appendUnique(out, z.nsecSigned(r.stored)...)
			out = appendUnique(out, z.nsecCovering(qname)...)
			return out
		}
		if n := z.nsecSigned(qname); n != nil {
			return n
		}
		return z.nsecCovering(qname) // empty non-terminal
	case NSEC3, NSEC3OptOut:
		if r.wildcard {
			out = appendUnique(out, z.n3Match(r.ce)...)
			out = appendUnique(out, z.n3Cover(nextCloser(qname, r.ce))...)
			out = appendUnique(out, z.n3Match(r.stored)...)
			return out
		}
		if m := z.n3Match(qname); m != nil {
			return m
		}
		// no NSEC3 for the name (Opt-Out insecure delegation asked for DS): closest provable encloser proof
		pe := z.closestProvable(qname)
		out = appendUnique(out, z.n3Match(pe)...)
		out = appendUnique(out, z.n3Cover(nextCloser(qname, pe))...)
	}
	return out
}

// proofWildcardAnswer: qname itself does not exist (next closer under ce denied).
func (z *Zone) proofWildcardAnswer(qname, ce string) []dns.RR {
	switch z.Mode {
	case NSEC:
		return z.nsecCovering(qname)
	case NSEC3, NSEC3OptOut:
		return z.n3Cover(nextCloser(qname, ce))
	}
	return nil
}

// proofNoDS: the delegation at cut has no DS.
func (z *Zone) proofNoDS(cut string) []dns.RR {
	switch z.Mode {
	case NSEC:
		return z.nsecSigned(cut)
	case NSEC3, NSEC3OptOut:
		if m := z.n3Match(cut); m != nil {
			return m
		}
		var out []dns.RR
		pe := z.closestProvable(cut)
		out = appendUnique(out, z.n3Match(pe)...)
		out = appendUnique(out, z.n3Cover(nextCloser(cut, pe))...)
		return out
	}
	return nil
}

func (z *Zone) soaSigned() []dns.RR { return z.withSig(z.rr[z.Apex][dns.TypeSOA], "") }

// ---------------------------------------------------------------- Answer

// Answer is the authoritative reply of a correct server hosting zone for
// (qname, qtype): positive answers (+RRSIGs when do), in-zone CNAME / DNAME
// chains, wildcard expansion with the no-closer-match proof, referrals
// (NS + DS/RRSIG or the NSEC/NSEC3 no-DS proof, + glue), NXDOMAIN / NODATA
// with SOA and denial proofs. The message has no ID and echoes the question.
func (u *Universe) Answer(zone, qname string, qtype uint16, do bool) *dns.Msg {
	z := u.Zone(zone)
	qname = Canon(qname)
	m := new(dns.Msg)
	m.Response = true
	m.Question = []dns.Question{{Name: qname, Qtype: qtype, Qclass: dns.ClassINET}}
	if z == nil || !z.inZone(qname) {
		m.Rcode = dns.RcodeRefused
		return m
	}
	m.Authoritative = true
	cur := qname
	for hop := 0; hop < 12; hop++ {
		r := z.lookup(cur, qtype)
		owner := ""
		if r.wildcard {
			owner = cur
		}
		switch r.kind {
		case lkReferral:
			if hop > 0 {
				return finish(m, do) // chain left our authority: the resolver follows it
			}
			m.Authoritative = false
			m.Ns = append(m.Ns, z.RRset(r.cut, dns.TypeNS)...)
			if ds := z.rr[r.cut][dns.TypeDS]; len(ds) > 0 {
				m.Ns = append(m.Ns, z.withSig(ds, "")...)
			} else if z.Mode.Signed() {
				m.Ns = append(m.Ns, z.proofNoDS(r.cut)...)
			}
			for _, ns := range z.rr[r.cut][dns.TypeNS] {
				host := Canon(ns.(*dns.NS).Ns)
				if dns.IsSubDomain(r.cut, host) {
					m.Extra = append(m.Extra, z.RRset(host, dns.TypeA)...)
					m.Extra = append(m.Extra, z.RRset(host, dns.TypeAAAA)...)
				}
			}
			return finishReferral(m, do)
		case lkDNAME:
			m.Answer = append(m.Answer, z.withSig(r.rrs, "")...)
			d := r.rrs[0].(*dns.DNAME)
			if len(r.target) > 254 {
				m.Rcode = dns.RcodeYXDomain
				return finish(m, do)
			}
			m.Answer = append(m.Answer, &dns.CNAME{Hdr: dns.RR_Header{Name: cur, Rrtype: dns.TypeCNAME, Class: dns.ClassINET, Ttl: d.Hdr.Ttl}, Target: r.target})
			cur = r.target
			if qtype == dns.TypeCNAME || !z.inZone(cur) {
				return finish(m, do)
			}
		case lkCNAME:
			m.Answer = append(m.Answer, z.withSig(r.rrs, owner)...)
			if r.wildcard {
				m.Ns = appendUnique(m.Ns, z.proofWildcardAnswer(cur, r.ce)...)
			}
			cur = r.target
			if !z.inZone(cur) {
				return finish(m, do)
			}
		case lkAnswer:
			m.Answer = append(m.Answer, z.withSig(r.rrs, owner)...)
			if r.wildcard {
				m.Ns = appendUnique(m.Ns, z.proofWildcardAnswer(cur, r.ce)...)
			}
			return finish(m, do)
		case lkNoData:
			m.Ns = appendUnique(m.Ns, z.soaSigned()...)
			if z.Mode.Signed() {
				m.Ns = appendUnique(m.Ns, z.proofNoData(cur, r)...)
			}
			return finish(m, do)
		case lkNXDomain:
			m.Rcode = dns.RcodeNameError
			m.Ns = appendUnique(m.Ns, z.soaSigned()...)
			if z.Mode.Signed() {
				m.Ns = appendUnique(m.Ns, z.proofNXDomain(cur, r.ce)...)
			}
			return finish(m, do)
		}
	}
	m.Rcode = dns.RcodeServerFailure // alias loop inside the zone
	return finish(m, do)
}

func stripDNSSEC(rrs []dns.RR, alsoDS bool) []dns.RR {
	out := rrs[:0:0]
	for _, rr := range rrs {
		switch rr.Header().Rrtype {
		case dns.TypeRRSIG, dns.TypeNSEC, dns.TypeNSEC3:
			continue
		case dns.TypeDS:
			if alsoDS {
				continue
			}
		}
		out = append(out, rr)
	}
	return out
}

func finish(m *dns.Msg, do bool) *dns.Msg {
	if !do {
		q := m.Question[0].Qtype
		keep := func(rrs []dns.RR) []dns.RR {
			out := rrs[:0:0]
			for _, rr := range rrs {
				t := rr.Header().Rrtype
				if (t == dns.TypeRRSIG || t == dns.TypeNSEC || t == dns.TypeNSEC3) && t != q {
					continue
				}
				out = append(out, rr)
			}
			return out
		}
		m.Answer = keep(m.Answer)
		m.Ns = stripDNSSEC(m.Ns, false)
	}
	return m
}

func finishReferral(m *dns.Msg, do bool) *dns.Msg {
	if !do {
		m.Ns = stripDNSSEC(m.Ns, true)
	}
	return m
}

// HostedZone picks which of a server's zones answers (qname, qtype): the
// deepest hosted zone containing qname; a DS query at a hosted zone's apex
// belongs to the parent side when the parent, or any other ancestor zone, is
// hosted on the same server.
func (u *Universe) HostedZone(server, qname string, qtype uint16) *Zone {
	srv := u.servers[server]
	if srv == nil {
		return nil
	}
	qname = Canon(qname)
	var best *Zone
	for _, z := range srv.Zones {
		if !z.inZone(qname) {
			continue
		}
		if qtype == dns.TypeDS && z.Apex == qname && qname != "." {
			hostedParent := false
			for _, p := range srv.Zones {
				// The parent side owns DS. A server that hosts the parent answers
				// from it; one that hosts only a more distant ancestor answers from
				// that (a referral toward the parent), which is what BIND and NSD
				// do (DS lookups search for the zone above the name first).
				if p != z && p.inZone(qname) && dns.CountLabel(p.Apex) < dns.CountLabel(z.Apex) {
					hostedParent = true
				}
			}
			if hostedParent {
				continue
			}
		}
		if best == nil || dns.CountLabel(z.Apex) > dns.CountLabel(best.Apex) {
			best = z
		}
	}
	return best
}

// ServerAnswer is Answer for whichever zone of the server owns the question
// (REFUSED when the server hosts nothing for it).
func (u *Universe) ServerAnswer(server string, q dns.Question, do bool) *dns.Msg {
	z := u.HostedZone(server, q.Name, q.Qtype)
	if z == nil || q.Qclass != dns.ClassINET {
		m := new(dns.Msg)
		m.Response = true
		m.Question = []dns.Question{q}
		m.Rcode = dns.RcodeRefused
		return m
	}
	m := u.Answer(z.Apex, q.Name, q.Qtype, do)
	m.Question = []dns.Question{q} // echo the exact spelling (0x20)
	return m
}
