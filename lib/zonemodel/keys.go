package zonemodel

// Deterministic DNSSEC key material. Every key is derived from a fixed seed
// string (universe seed | zone | role | algorithm), so two processes build the
// same universe. Key generation never consults crypto/rand (Go >= 1.26 ignores
// a caller-supplied random source in the GenerateKey functions, so the private
// scalars / primes are derived here directly).

import (
	"crypto"
	"crypto/ecdsa"
	"crypto/ed25519"
	"crypto/elliptic"
	"crypto/rsa"
	"crypto/sha256"
	"encoding/base64"
	"encoding/binary"
	"fmt"
	"math/big"
	"sync"

	"github.com/miekg/dns"
)

// Supported algorithms.
const (
	AlgRSASHA256 = dns.RSASHA256       // 8
	AlgECDSAP256 = dns.ECDSAP256SHA256 // 13
	AlgED25519   = dns.ED25519         // 15
)

// Algorithms lists the algorithms the model can sign with, in rotation order.
var Algorithms = []uint8{AlgECDSAP256, AlgRSASHA256, AlgED25519}

// Key is one DNSKEY with its private half.
type Key struct {
	DNSKEY *dns.DNSKEY
	Priv   crypto.Signer
	Tag    uint16
}

var (
	keyMu    sync.Mutex
	keyCache = map[string]*Key{}
)

// detStream is a SHA-256 counter-mode byte stream.
type detStream struct {
	seed []byte
	ctr  uint64
	buf  []byte
}

func newDetStream(seed string) *detStream {
	h := sha256.Sum256([]byte(seed))
	return &detStream{seed: h[:]}
}

func (d *detStream) Read(p []byte) (int, error) {
	for i := range p {
		if len(d.buf) == 0 {
			var c [8]byte
			binary.BigEndian.PutUint64(c[:], d.ctr)
			d.ctr++
			h := sha256.Sum256(append(append([]byte{}, d.seed...), c[:]...))
			d.buf = h[:]
		}
		p[i] = d.buf[0]
		d.buf = d.buf[1:]
	}
	return len(p), nil
}

func detPrime(s *detStream, bits int) *big.Int {
	b := make([]byte, bits/8)
	for {
		_, _ = s.Read(b)
		b[0] |= 0xC0
		b[len(b)-1] |= 1
		p := new(big.Int).SetBytes(b)
		if p.ProbablyPrime(20) {
			return p
		}
	}
}

func detRSA(seed string, bits int) *rsa.PrivateKey {
	s := newDetStream(seed)
	e := big.NewInt(65537)
	one := big.NewInt(1)
	for {
		p := detPrime(s, bits/2)
		q := detPrime(s, bits/2)
		if p.Cmp(q) == 0 {
			continue
		}
		n := new(big.Int).Mul(p, q)
		if n.BitLen() != bits {
			continue
		}
		pm := new(big.Int).Sub(p, one)
		qm := new(big.Int).Sub(q, one)
		phi := new(big.Int).Mul(pm, qm)
		d := new(big.Int).ModInverse(e, phi)
		if d == nil {
			continue
		}
		k := &rsa.PrivateKey{PublicKey: rsa.PublicKey{N: n, E: 65537}, D: d, Primes: []*big.Int{p, q}}
		k.Precompute()
		if err := k.Validate(); err != nil {
			continue
		}
		return k
	}
}

func detECDSA(seed string) *ecdsa.PrivateKey {
	for i := 0; ; i++ {
		h := sha256.Sum256([]byte(fmt.Sprintf("%s|ecdsa|%d", seed, i)))
		k, err := ecdsa.ParseRawPrivateKey(elliptic.P256(), h[:])
		if err == nil {
			return k
		}
	}
}

func pubRSA(k *rsa.PublicKey) string {
	e := big.NewInt(int64(k.E)).Bytes()
	buf := []byte{byte(len(e))}
	buf = append(buf, e...)
	buf = append(buf, k.N.Bytes()...)
	return base64.StdEncoding.EncodeToString(buf)
}

func pubECDSA(k *ecdsa.PublicKey) string {
	b, err := k.Bytes() // 0x04 || X || Y
	if err != nil {
		panic("zonemodel: ecdsa public key: " + err.Error())
	}
	return base64.StdEncoding.EncodeToString(b[1:])
}

// GenKey returns the deterministic key for (seed, zone, role, alg, flags).
func GenKey(seed, zone, role string, alg uint8, flags uint16) *Key {
	id := fmt.Sprintf("%s|%s|%s|%d|%d", seed, zone, role, alg, flags)
	keyMu.Lock()
	defer keyMu.Unlock()
	if k, ok := keyCache[id]; ok {
		return k
	}
	dk := &dns.DNSKEY{Hdr: dns.RR_Header{Name: zone, Rrtype: dns.TypeDNSKEY, Class: dns.ClassINET, Ttl: 3600},
		Flags: flags, Protocol: 3, Algorithm: alg}
	var priv crypto.Signer
	switch alg {
	case AlgRSASHA256:
		k := detRSA(id, 1024)
		dk.PublicKey = pubRSA(&k.PublicKey)
		priv = k
	case AlgECDSAP256:
		k := detECDSA(id)
		dk.PublicKey = pubECDSA(&k.PublicKey)
		priv = k
	case AlgED25519:
		h := sha256.Sum256([]byte(id))
		k := ed25519.NewKeyFromSeed(h[:])
		dk.PublicKey = base64.StdEncoding.EncodeToString(k.Public().(ed25519.PublicKey))
		priv = k
	default:
		panic(fmt.Sprintf("zonemodel: unsupported algorithm %d", alg))
	}
	k := &Key{DNSKEY: dk, Priv: priv, Tag: dk.KeyTag()}
	keyCache[id] = k
	return k
}

// CloneKey returns a DNSKEY with the same owner, flags, algorithm and KEY TAG
// as k but different public key material (RFC 4034 App. B: tags are not
// unique). For RSA and Ed25519 the material is derived bytes adjusted so the
// tag collides (it parses, and verifies nothing); for ECDSA a genuine second
// key pair is searched so the point is on the curve.
func CloneKey(seed string, k *Key) *dns.DNSKEY {
	id := fmt.Sprintf("clone|%s|%s|%d|%d|%d", seed, k.DNSKEY.Hdr.Name, k.DNSKEY.Algorithm, k.DNSKEY.Flags, k.Tag)
	keyMu.Lock()
	if c, ok := keyCache[id]; ok {
		keyMu.Unlock()
		return c.DNSKEY
	}
	keyMu.Unlock()
	c := dns.Copy(k.DNSKEY).(*dns.DNSKEY)
	switch k.DNSKEY.Algorithm {
	case AlgECDSAP256:
		for i := 0; ; i++ {
			p := detECDSA(fmt.Sprintf("%s|%d", id, i))
			c.PublicKey = pubECDSA(&p.PublicKey)
			if c.KeyTag() == k.Tag && c.PublicKey != k.DNSKEY.PublicKey {
				break
			}
		}
	default:
		raw, _ := base64.StdEncoding.DecodeString(k.DNSKEY.PublicKey)
		s := newDetStream(id)
		body := make([]byte, len(raw))
		_, _ = s.Read(body)
		off := 0
		if k.DNSKEY.Algorithm == AlgRSASHA256 {
			// keep exponent length + exponent, randomise the modulus, keep it odd and full-length
			off = 1 + int(raw[0])
			copy(body[:off], raw[:off])
			body[off] |= 0x80
			body[len(body)-1] |= 1
		}
		// adjust one aligned 16-bit word in the middle until the tag collides
		w := off + (len(body)-off)/2
		w &^= 1
		found := false
		for v := 0; v < 1<<16 && !found; v++ {
			body[w] = byte(v >> 8)
			body[w+1] = byte(v)
			c.PublicKey = base64.StdEncoding.EncodeToString(body)
			if c.KeyTag() == k.Tag && c.PublicKey != k.DNSKEY.PublicKey {
				found = true
			}
		}
		if !found {
			panic("zonemodel: no key-tag clone found")
		}
	}
	keyMu.Lock()
	keyCache[id] = &Key{DNSKEY: c, Tag: k.Tag}
	keyMu.Unlock()
	return c
}
