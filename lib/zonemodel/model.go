// Package zonemodel is the ground truth of the scripted DNS universe used by
// the resolver-level checks (C01, C07, C08, C12, C09): a tree of zones with
// records, delegations, DNSSEC keys, NSEC / NSEC3 chains and signatures, an
// authoritative-server answer function, and the oracle questions "what is the
// true RRset / rcode / security status of (qname, qtype)".
//
// Everything is signed with miekg/dns (RRSIG.Sign, dns.HashName) and never
// touches sdns's own verifier. Keys are deterministic; signatures are cached.
package zonemodel

import (
	"fmt"
	"net"
	"sort"
	"strings"
	"sync"
	"time"

	"github.com/miekg/dns"
)

// Mode is a zone's signing mode.
type Mode int

const (
	Unsigned Mode = iota
	NSEC
	NSEC3
	NSEC3OptOut
)

func (m Mode) String() string {
	return [...]string{"unsigned", "nsec", "nsec3", "nsec3-optout"}[m]
}

// Signed reports whether the mode produces signatures.
func (m Mode) Signed() bool { return m != Unsigned }

// ZoneSpec describes one zone of the universe.
type ZoneSpec struct {
	Apex   string // "s.t." ("." for the root)
	Mode   Mode
	Alg    uint8  // AlgRSASHA256 / AlgECDSAP256 / AlgED25519 (default ECDSA)
	CSK    bool   // one combined key (flags 257) instead of KSK + ZSK
	Clone  bool   // publish a same-key-tag clone of the zone signing key in the DNSKEY RRset
	NoDS   bool   // the parent publishes no DS although the zone is signed (island of security => insecure)
	Server string // hosting server name (default: the apex); zones with the same Server share one socket
	NSHost string // NS target (default "ns.<apex>", "ns.root-servers.test." for the root)
	NSAddr string // IPv4 TEST-NET address advertised for NSHost (default: auto-assigned 192.0.2.x / 198.51.100.x)
	TTL    uint32 // default record TTL (300)
	NSTTL  uint32 // TTL of the delegation NS RRset in the parent (default TTL)
	DSTTL  uint32 // TTL of the DS RRset in the parent (default TTL)
	Salt   string // NSEC3 salt, hex ("" = none)
	Iter   uint16 // NSEC3 iterations
}

// Zone is one built zone.
type Zone struct {
	ZoneSpec
	u        *Universe
	Parent   *Zone
	Children []*Zone

	rr     map[string]map[uint16][]dns.RR // owner -> type -> RRset (authoritative data, delegation NS/DS, glue)
	exists map[string]bool                // authoritative names incl. empty non-terminals and cut points
	cuts   map[string]bool                // delegation points (owner of an NS RRset other than the apex)

	KSK, ZSK *Key
	CloneRR  *dns.DNSKEY

	nsecNames []string // canonical order
	nsec      map[string]*dns.NSEC
	n3hash    map[string]string // name -> hash (upper-case base32hex) for names holding an NSEC3
	n3order   []string          // hashes, sorted
	n3        map[string]*dns.NSEC3

	sigMu sync.Mutex
	sigs  map[string]*dns.RRSIG
	built bool
}

// Server is one authoritative socket of the universe.
type Server struct {
	Name  string
	Zones []*Zone
	Addrs []string // TEST-NET addresses that lead to this server
}

// Universe is a set of zones rooted at ".".
type Universe struct {
	Seed      string
	Now       time.Time // signing time; validity = [Now-3h, Now+72h]
	zones     map[string]*Zone
	order     []*Zone // by depth, then name
	servers   map[string]*Server
	nextAddr  int
	NoAnchors bool
}

// NewUniverse starts an empty universe. seed fixes all key material.
func NewUniverse(seed string) *Universe {
	return &Universe{Seed: seed, Now: time.Now(), zones: map[string]*Zone{}, servers: map[string]*Server{}}
}

// Canon lower-cases and roots a name.
func Canon(s string) string { return strings.ToLower(dns.Fqdn(s)) }

// AddZone registers a zone. Zones may be added in any order; parents are
// resolved in Build (closest enclosing zone of the universe).
func (u *Universe) AddZone(spec ZoneSpec) *Zone {
	spec.Apex = Canon(spec.Apex)
	if spec.Alg == 0 {
		spec.Alg = AlgECDSAP256
	}
	if spec.TTL == 0 {
		spec.TTL = 300
	}
	if spec.NSTTL == 0 {
		spec.NSTTL = spec.TTL
	}
	if spec.DSTTL == 0 {
		spec.DSTTL = spec.TTL
	}
	if spec.Server == "" {
		spec.Server = spec.Apex
	}
	if spec.NSHost == "" {
		if spec.Apex == "." {
			spec.NSHost = "ns.root-servers.test."
		} else {
			spec.NSHost = "ns." + spec.Apex
		}
	}
	spec.NSHost = Canon(spec.NSHost)
	if spec.NSAddr == "" {
		n := u.nextAddr
		u.nextAddr++
		if n < 200 {
			spec.NSAddr = fmt.Sprintf("192.0.2.%d", 10+n)
		} else {
			spec.NSAddr = fmt.Sprintf("198.51.100.%d", 10+n-200)
		}
	}
	z := &Zone{ZoneSpec: spec, u: u, rr: map[string]map[uint16][]dns.RR{}, sigs: map[string]*dns.RRSIG{}}
	if _, dup := u.zones[spec.Apex]; dup {
		panic("zonemodel: duplicate zone " + spec.Apex)
	}
	u.zones[spec.Apex] = z
	return z
}

// Add parses zone-file lines ("a 300 IN A 192.0.2.1"; relative owners are
// completed with the apex; TTL/class optional) and adds them to the zone.
func (z *Zone) Add(lines ...string) *Zone {
	for _, l := range lines {
		zp := dns.NewZoneParser(strings.NewReader(l+"\n"), z.Apex, "")
		zp.SetDefaultTTL(z.TTL)
		rr, ok := zp.Next()
		if !ok || rr == nil {
			panic(fmt.Sprintf("zonemodel: cannot parse %q in %s: %v", l, z.Apex, zp.Err()))
		}
		z.AddRR(rr)
	}
	return z
}

// AddRR adds one record.
func (z *Zone) AddRR(rr dns.RR) {
	if z.built {
		panic("zonemodel: zone already built")
	}
	h := rr.Header()
	h.Name = Canon(h.Name)
	if h.Class == 0 {
		h.Class = dns.ClassINET
	}
	if !dns.IsSubDomain(z.Apex, h.Name) {
		panic(fmt.Sprintf("zonemodel: %s is outside zone %s", h.Name, z.Apex))
	}
	m := z.rr[h.Name]
	if m == nil {
		m = map[uint16][]dns.RR{}
		z.rr[h.Name] = m
	}
	for _, o := range m[h.Rrtype] {
		if dns.IsDuplicate(o, rr) {
			return
		}
	}
	if len(m[h.Rrtype]) > 0 {
		h.Ttl = m[h.Rrtype][0].Header().Ttl
	}
	m[h.Rrtype] = append(m[h.Rrtype], rr)
}

func (z *Zone) set(rrs ...dns.RR) {
	for _, rr := range rrs {
		z.AddRR(rr)
	}
}

// Zone returns the zone with the given apex, or nil.
func (u *Universe) Zone(apex string) *Zone { return u.zones[Canon(apex)] }

// Zones returns all zones, parents before children.
func (u *Universe) Zones() []*Zone { return u.order }

// Servers returns the servers by name.
func (u *Universe) Servers() map[string]*Server { return u.servers }

// Root returns the root zone.
func (u *Universe) Root() *Zone { return u.zones["."] }

// TrustAnchors returns the root KSK (text form) — cfg.RootKeys for the resolver.
func (u *Universe) TrustAnchors() []string {
	r := u.Root()
	if r == nil || r.KSK == nil {
		return nil
	}
	return []string{r.KSK.DNSKEY.String()}
}

// Build completes the universe: parents, keys, apex records, delegations
// (NS + glue + DS), NSEC / NSEC3 chains. It must be called exactly once.
func (u *Universe) Build() *Universe {
	if u.zones["."] == nil {
		panic("zonemodel: universe has no root zone")
	}
	for _, z := range u.zones {
		u.order = append(u.order, z)
	}
	sort.Slice(u.order, func(i, j int) bool {
		a, b := u.order[i], u.order[j]
		if la, lb := dns.CountLabel(a.Apex), dns.CountLabel(b.Apex); la != lb {
			return la < lb
		}
		return a.Apex < b.Apex
	})
	for _, z := range u.order {
		if z.Apex == "." {
			continue
		}
		p := parentName(z.Apex)
		for {
			if pz := u.zones[p]; pz != nil {
				z.Parent = pz
				pz.Children = append(pz.Children, z)
				break
			}
			p = parentName(p)
		}
	}
	// keys + apex material
	for _, z := range u.order {
		if z.Mode.Signed() {
			if z.CSK {
				z.KSK = GenKey(u.Seed, z.Apex, "csk", z.Alg, 257)
				z.ZSK = z.KSK
			} else {
				z.KSK = GenKey(u.Seed, z.Apex, "ksk", z.Alg, 257)
				z.ZSK = GenKey(u.Seed, z.Apex, "zsk", z.Alg, 256)
			}
			z.set(dns.Copy(z.KSK.DNSKEY))
			if !z.CSK {
				z.set(dns.Copy(z.ZSK.DNSKEY))
			}
			if z.Clone {
				z.CloneRR = CloneKey(u.Seed, z.ZSK)
				z.set(dns.Copy(z.CloneRR))
			}
			for _, rr := range z.rr[z.Apex][dns.TypeDNSKEY] {
				rr.Header().Ttl = 3600
			}
			if z.Mode == NSEC3 || z.Mode == NSEC3OptOut {
				z.set(&dns.NSEC3PARAM{Hdr: dns.RR_Header{Name: z.Apex, Rrtype: dns.TypeNSEC3PARAM, Class: dns.ClassINET, Ttl: 0},
					Hash: dns.SHA1, Flags: 0, Iterations: z.Iter, SaltLength: uint8(len(z.Salt) / 2), Salt: z.Salt})
			}
		}
		mbox := "hostmaster." + z.Apex
		if z.Apex == "." {
			mbox = "hostmaster."
		}
		z.set(&dns.SOA{Hdr: dns.RR_Header{Name: z.Apex, Rrtype: dns.TypeSOA, Class: dns.ClassINET, Ttl: z.TTL},
			Ns: z.NSHost, Mbox: mbox, Serial: 1, Refresh: 3600, Retry: 600, Expire: 86400, Minttl: z.TTL})
		z.set(&dns.NS{Hdr: dns.RR_Header{Name: z.Apex, Rrtype: dns.TypeNS, Class: dns.ClassINET, Ttl: z.TTL}, Ns: z.NSHost})
		if dns.IsSubDomain(z.Apex, z.NSHost) {
			z.set(&dns.A{Hdr: dns.RR_Header{Name: z.NSHost, Rrtype: dns.TypeA, Class: dns.ClassINET, Ttl: z.TTL}, A: net.ParseIP(z.NSAddr).To4()})
		}
		srv := u.servers[z.Server]
		if srv == nil {
			srv = &Server{Name: z.Server}
			u.servers[z.Server] = srv
		}
		srv.Zones = append(srv.Zones, z)
		srv.Addrs = append(srv.Addrs, z.NSAddr)
	}
	// delegations in parents
	for _, z := range u.order {
		p := z.Parent
		if p == nil {
			continue
		}
		p.set(&dns.NS{Hdr: dns.RR_Header{Name: z.Apex, Rrtype: dns.TypeNS, Class: dns.ClassINET, Ttl: z.NSTTL}, Ns: z.NSHost})
		if dns.IsSubDomain(z.Apex, z.NSHost) {
			p.set(&dns.A{Hdr: dns.RR_Header{Name: z.NSHost, Rrtype: dns.TypeA, Class: dns.ClassINET, Ttl: z.NSTTL}, A: net.ParseIP(z.NSAddr).To4()})
		}
		if z.Mode.Signed() && !z.NoDS && p.Mode.Signed() {
			ds := z.KSK.DNSKEY.ToDS(dns.SHA256)
			ds.Hdr.Ttl = z.DSTTL
			p.set(ds)
		}
	}
	for _, z := range u.order {
		z.finish()
	}
	return u
}

func parentName(name string) string {
	if name == "." {
		return "."
	}
	off, end := dns.NextLabel(name, 0)
	if end {
		return "."
	}
	return name[off:]
}

// finish computes existence, cuts and denial chains.
func (z *Zone) finish() {
	z.built = true
	z.cuts = map[string]bool{}
	z.exists = map[string]bool{z.Apex: true}
	for owner, m := range z.rr {
		if owner != z.Apex && len(m[dns.TypeNS]) > 0 {
			z.cuts[owner] = true
		}
	}
	for owner := range z.rr {
		if z.belowCut(owner) {
			continue
		}
		for n := owner; n != z.Apex && dns.IsSubDomain(z.Apex, n); n = parentName(n) {
			z.exists[n] = true
		}
	}
	if !z.Mode.Signed() {
		return
	}
	switch z.Mode {
	case NSEC:
		z.buildNSEC()
	default:
		z.buildNSEC3()
	}
}

// belowCut reports whether name lies strictly below a delegation point.
func (z *Zone) belowCut(name string) bool {
	for n := name; n != z.Apex && n != "."; {
		n = parentName(n)
		if z.cuts[n] {
			return true
		}
	}
	return false
}

// cutAbove returns the delegation point at or above name ("" if none).
func (z *Zone) cutAbove(name string) string {
	// top-down so the highest cut wins
	labels := dns.SplitDomainName(name)
	apexLabels := dns.CountLabel(z.Apex)
	for i := len(labels) - apexLabels - 1; i >= 0; i-- {
		n := Canon(strings.Join(labels[i:], "."))
		if z.cuts[n] {
			return n
		}
	}
	return ""
}

// typesAt lists the types the zone is authoritative for at name (cut: NS, DS).
func (z *Zone) typesAt(name string) []uint16 {
	var t []uint16
	for rt := range z.rr[name] {
		if z.cuts[name] && rt != dns.TypeNS && rt != dns.TypeDS {
			continue
		}
		t = append(t, rt)
	}
	sort.Slice(t, func(i, j int) bool { return t[i] < t[j] })
	return t
}

func (z *Zone) signedAt(name string) bool {
	if z.cuts[name] {
		return len(z.rr[name][dns.TypeDS]) > 0
	}
	return len(z.rr[name]) > 0
}

func (z *Zone) buildNSEC() {
	z.nsec = map[string]*dns.NSEC{}
	for owner := range z.rr {
		if z.belowCut(owner) {
			continue
		}
		z.nsecNames = append(z.nsecNames, owner)
	}
	sort.Slice(z.nsecNames, func(i, j int) bool { return CanonicalLess(z.nsecNames[i], z.nsecNames[j]) })
	for i, owner := range z.nsecNames {
		next := z.nsecNames[(i+1)%len(z.nsecNames)]
		bm := append(z.typesAt(owner), dns.TypeRRSIG, dns.TypeNSEC)
		sort.Slice(bm, func(i, j int) bool { return bm[i] < bm[j] })
		z.nsec[owner] = &dns.NSEC{Hdr: dns.RR_Header{Name: owner, Rrtype: dns.TypeNSEC, Class: dns.ClassINET, Ttl: z.TTL},
			NextDomain: next, TypeBitMap: bm}
	}
}

func (z *Zone) hash(name string) string { return dns.HashName(name, dns.SHA1, z.Iter, z.Salt) }

func (z *Zone) buildNSEC3() {
	z.n3hash = map[string]string{}
	z.n3 = map[string]*dns.NSEC3{}
	optout := z.Mode == NSEC3OptOut
	include := map[string]bool{}
	for owner := range z.rr {
		if z.belowCut(owner) {
			continue
		}
		if optout && z.cuts[owner] && len(z.rr[owner][dns.TypeDS]) == 0 {
			continue // insecure delegation: not in an Opt-Out chain
		}
		for n := owner; dns.IsSubDomain(z.Apex, n); n = parentName(n) {
			include[n] = true
			if n == z.Apex {
				break
			}
		}
	}
	for n := range include {
		h := z.hash(n)
		z.n3hash[n] = h
		z.n3order = append(z.n3order, h)
	}
	sort.Strings(z.n3order)
	byHash := map[string]string{}
	for n, h := range z.n3hash {
		byHash[h] = n
	}
	flags := uint8(0)
	if optout {
		flags = 1
	}
	for i, h := range z.n3order {
		n := byHash[h]
		bm := z.typesAt(n)
		if z.signedAt(n) {
			bm = append(bm, dns.TypeRRSIG)
		}
		sort.Slice(bm, func(i, j int) bool { return bm[i] < bm[j] })
		owner := strings.ToLower(h) + "." + z.Apex
		if z.Apex == "." {
			owner = strings.ToLower(h) + "."
		}
		z.n3[h] = &dns.NSEC3{Hdr: dns.RR_Header{Name: owner, Rrtype: dns.TypeNSEC3, Class: dns.ClassINET, Ttl: z.TTL},
			Hash: dns.SHA1, Flags: flags, Iterations: z.Iter, SaltLength: uint8(len(z.Salt) / 2), Salt: z.Salt,
			HashLength: 20, NextDomain: z.n3order[(i+1)%len(z.n3order)], TypeBitMap: bm}
	}
}

// CanonicalLess is RFC 4034 §6.1 canonical name order.
func CanonicalLess(a, b string) bool { return canonicalCompare(a, b) < 0 }

func canonicalCompare(a, b string) int {
	la, lb := dns.SplitDomainName(strings.ToLower(a)), dns.SplitDomainName(strings.ToLower(b))
	for i, j := len(la)-1, len(lb)-1; i >= 0 && j >= 0; i, j = i-1, j-1 {
		if c := strings.Compare(unescape(la[i]), unescape(lb[j])); c != 0 {
			return c
		}
	}
	switch {
	case len(la) < len(lb):
		return -1
	case len(la) > len(lb):
		return 1
	}
	return 0
}

func unescape(l string) string {
	if !strings.Contains(l, "\\") {
		return l
	}
	var b []byte
	for i := 0; i < len(l); i++ {
		if l[i] == '\\' && i+1 < len(l) {
			if i+3 < len(l) && l[i+1] >= '0' && l[i+1] <= '9' {
				b = append(b, (l[i+1]-'0')*100+(l[i+2]-'0')*10+(l[i+3]-'0'))
				i += 3
				continue
			}
			b = append(b, l[i+1])
			i++
			continue
		}
		b = append(b, l[i])
	}
	return string(b)
}

// ---------------------------------------------------------------- signing

// Sign returns the (cached) RRSIG over rrset made with key k. The RRset's
// owner name as given is the signed owner (pass the wildcard owner for
// wildcard data).
func (z *Zone) Sign(rrset []dns.RR, k *Key) *dns.RRSIG {
	h := rrset[0].Header()
	id := fmt.Sprintf("%s|%d|%d|%d", h.Name, h.Rrtype, k.Tag, len(rrset))
	z.sigMu.Lock()
	defer z.sigMu.Unlock()
	if s, ok := z.sigs[id]; ok {
		return dns.Copy(s).(*dns.RRSIG)
	}
	sig := &dns.RRSIG{Hdr: dns.RR_Header{Name: h.Name, Rrtype: dns.TypeRRSIG, Class: h.Class, Ttl: h.Ttl},
		Algorithm: k.DNSKEY.Algorithm, OrigTtl: h.Ttl, KeyTag: k.Tag, SignerName: z.Apex,
		Inception: uint32(z.u.Now.Add(-3 * time.Hour).Unix()), Expiration: uint32(z.u.Now.Add(72 * time.Hour).Unix())}
	cp := make([]dns.RR, len(rrset))
	for i, rr := range rrset {
		cp[i] = dns.Copy(rr)
	}
	if err := sig.Sign(k.Priv, cp); err != nil {
		panic(fmt.Sprintf("zonemodel: sign %s/%s in %s: %v", h.Name, dns.TypeToString[h.Rrtype], z.Apex, err))
	}
	z.sigs[id] = sig
	return dns.Copy(sig).(*dns.RRSIG)
}

// signerFor picks the key that signs an RRset of the given type.
func (z *Zone) signerFor(rtype uint16) *Key {
	if rtype == dns.TypeDNSKEY {
		return z.KSK
	}
	return z.ZSK
}

// withSig returns copies of the RRset followed by its RRSIG (signed zones).
// owner, when non-empty and different from the stored owner (wildcard
// expansion), replaces the owner name in the copies and the RRSIG.
func (z *Zone) withSig(rrset []dns.RR, owner string) []dns.RR {
	if len(rrset) == 0 {
		return nil
	}
	out := make([]dns.RR, 0, len(rrset)+1)
	for _, rr := range rrset {
		c := dns.Copy(rr)
		if owner != "" {
			c.Header().Name = owner
		}
		out = append(out, c)
	}
	if z.Mode.Signed() {
		sig := z.Sign(rrset, z.signerFor(rrset[0].Header().Rrtype))
		if owner != "" {
			sig.Hdr.Name = owner
		}
		out = append(out, sig)
	}
	return out
}

// RRset returns copies of the stored RRset (nil if absent). No signatures.
func (z *Zone) RRset(owner string, rtype uint16) []dns.RR {
	var out []dns.RR
	for _, rr := range z.rr[Canon(owner)][rtype] {
		out = append(out, dns.Copy(rr))
	}
	return out
}

// SignedRRset returns the stored RRset with its RRSIG (nil if absent).
func (z *Zone) SignedRRset(owner string, rtype uint16) []dns.RR {
	return z.withSig(z.rr[Canon(owner)][rtype], "")
}

// Owners returns every owner name stored in the zone (sorted canonically).
func (z *Zone) Owners() []string {
	var o []string
	for n := range z.rr {
		o = append(o, n)
	}
	sort.Slice(o, func(i, j int) bool { return CanonicalLess(o[i], o[j]) })
	return o
}

// IsCut reports whether name is a delegation point of the zone.
func (z *Zone) IsCut(name string) bool { return z.cuts[Canon(name)] }

// SignWith signs rrset with an arbitrary key under an arbitrary signer name
// (checks use it for attacker-held keys). Not cached.
func SignWith(k *Key, signer string, rrset []dns.RR, now time.Time) *dns.RRSIG {
	h := rrset[0].Header()
	sig := &dns.RRSIG{Hdr: dns.RR_Header{Name: h.Name, Rrtype: dns.TypeRRSIG, Class: h.Class, Ttl: h.Ttl},
		Algorithm: k.DNSKEY.Algorithm, OrigTtl: h.Ttl, KeyTag: k.Tag, SignerName: Canon(signer),
		Inception: uint32(now.Add(-3 * time.Hour).Unix()), Expiration: uint32(now.Add(72 * time.Hour).Unix())}
	cp := make([]dns.RR, len(rrset))
	for i, rr := range rrset {
		cp[i] = dns.Copy(rr)
	}
	if err := sig.Sign(k.Priv, cp); err != nil {
		panic("zonemodel: SignWith: " + err.Error())
	}
	return sig
}

// SignWindow is Sign with an explicit validity window (not cached): genuine
// signatures of the zone made in the past / for the future, as an attacker
// replaying captured data would present them.
func (z *Zone) SignWindow(rrset []dns.RR, inception, expiration time.Time) *dns.RRSIG {
	k := z.signerFor(rrset[0].Header().Rrtype)
	h := rrset[0].Header()
	sig := &dns.RRSIG{Hdr: dns.RR_Header{Name: h.Name, Rrtype: dns.TypeRRSIG, Class: h.Class, Ttl: h.Ttl},
		Algorithm: k.DNSKEY.Algorithm, OrigTtl: h.Ttl, KeyTag: k.Tag, SignerName: z.Apex,
		Inception: uint32(inception.Unix()), Expiration: uint32(expiration.Unix())}
	cp := make([]dns.RR, len(rrset))
	for i, rr := range rrset {
		cp[i] = dns.Copy(rr)
	}
	if err := sig.Sign(k.Priv, cp); err != nil {
		panic("zonemodel: SignWindow: " + err.Error())
	}
	return sig
}
