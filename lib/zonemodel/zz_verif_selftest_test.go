//go:build verif

package zonemodel

// Self-check of the ground truth with miekg/dns only (never sdns's verifier):
// every RRSIG in every authoritative answer verifies under the zone's
// published keys, the DS in the parent matches the child's KSK, NSEC spans and
// NSEC3 hashes in denials really cover / match what they are presented for.
// Run as unit "model" of check C01; a failure is a harness error, never a
// verdict about sdns.

import (
	"fmt"
	"strings"
	"testing"

	"github.com/miekg/dns"
	"github.com/semihalev/sdns/internal/verifshim/vkit"
)

func selftestUniverse() *Universe {
	u := NewUniverse("selftest")
	u.AddZone(ZoneSpec{Apex: ".", Mode: NSEC, Alg: AlgECDSAP256})
	u.AddZone(ZoneSpec{Apex: "t.", Mode: NSEC, Alg: AlgRSASHA256})
	s := u.AddZone(ZoneSpec{Apex: "s.t.", Mode: NSEC, Alg: AlgED25519, Clone: true})
	h := u.AddZone(ZoneSpec{Apex: "h.t.", Mode: NSEC3, Alg: AlgECDSAP256, Salt: "ab", Iter: 2, Clone: true})
	o := u.AddZone(ZoneSpec{Apex: "o.t.", Mode: NSEC3OptOut, Alg: AlgRSASHA256, CSK: true, Clone: true})
	u.AddZone(ZoneSpec{Apex: "uc.o.t.", Mode: Unsigned}).Add("a A 10.4.0.1")
	u.AddZone(ZoneSpec{Apex: "u.t.", Mode: Unsigned}).Add("a A 10.5.0.1")
	u.AddZone(ZoneSpec{Apex: "isl.t.", Mode: NSEC, NoDS: true}).Add("a A 10.9.0.1")
	for _, z := range []*Zone{s, h, o} {
		z.Add("a A 10.1.0.1", "a A 10.1.0.2", `a TXT "x"`, "www CNAME a", "*.w A 10.1.7.7", "exact.w A 10.1.7.8", "x.ent A 10.1.9.1", "al DNAME u.t.")
	}
	return u.Build()
}

func TestVerifZoneModel(t *testing.T) {
	c := vkit.Init("C01/model")
	defer c.Close()
	if c.Replay != nil {
		return
	}
	u := selftestUniverse()
	fail := func(format string, a ...any) {
		c.HarnessError("zonemodel self-check: " + fmt.Sprintf(format, a...))
	}
	qnames := []string{"", "a", "www", "nx", "x.w", "deep.x.w", "exact.w", "ent", "x.ent", "y.al", "al", "zz", "*.w", "uc", "a.uc"}
	qtypes := []uint16{dns.TypeA, dns.TypeTXT, dns.TypeDS, dns.TypeDNSKEY, dns.TypeCNAME, dns.TypeNS, dns.TypeSOA, dns.TypeNSEC}
	for _, z := range u.Zones() {
		keys := map[uint16][]*dns.DNSKEY{}
		for _, rr := range z.RRset(z.Apex, dns.TypeDNSKEY) {
			k := rr.(*dns.DNSKEY)
			keys[k.KeyTag()] = append(keys[k.KeyTag()], k)
		}
		if z.Clone && z.Mode.Signed() {
			if len(keys[z.ZSK.Tag]) < 2 {
				fail("%s: clone key does not share the ZSK tag", z.Apex)
			}
			c.DistinctStr("nontrivial", "clone|"+z.Apex)
		}
		if z.Parent != nil && z.Mode.Signed() && !z.NoDS && z.Parent.Mode.Signed() {
			ds := z.Parent.RRset(z.Apex, dns.TypeDS)
			if len(ds) != 1 || !strings.EqualFold(ds[0].(*dns.DS).Digest, z.KSK.DNSKEY.ToDS(dns.SHA256).Digest) {
				fail("%s: DS in parent does not match the KSK", z.Apex)
			}
		}
		for _, qn := range qnames {
			name := z.Apex
			if qn != "" {
				name = qn + "." + strings.TrimPrefix(z.Apex, ".")
				if z.Apex == "." {
					name = qn + "."
				}
			}
			for _, qt := range qtypes {
				m := u.Answer(z.Apex, name, qt, true)
				c.Add("evaluations", 1)
				c.Outcome(fmt.Sprintf("%s:%s:aa=%v:ans=%v", z.Mode, dns.RcodeToString[m.Rcode], m.Authoritative, len(m.Answer) > 0))
				if _, err := m.Pack(); err != nil {
					fail("%s %s/%s: answer does not pack: %v", z.Apex, name, dns.TypeToString[qt], err)
					continue
				}
				if !z.Mode.Signed() {
					continue
				}
				// every signed RRset verifies with miekg
				for _, sec := range [][]dns.RR{m.Answer, m.Ns} {
					for _, rr := range sec {
						sig, ok := rr.(*dns.RRSIG)
						if !ok {
							continue
						}
						var set []dns.RR
						for _, o := range sec {
							if o.Header().Rrtype == sig.TypeCovered && strings.EqualFold(o.Header().Name, sig.Hdr.Name) {
								set = append(set, o)
							}
						}
						verified := false
						for _, k := range keys[sig.KeyTag] {
							if sig.Verify(k, set) == nil {
								verified = true
							}
						}
						if !verified || !sig.ValidityPeriod(u.Now) {
							fail("%s %s/%s: RRSIG over %s/%s does not verify with miekg", z.Apex, name, dns.TypeToString[qt], sig.Hdr.Name, dns.TypeToString[sig.TypeCovered])
						}
						c.DistinctStr("nontrivial", fmt.Sprintf("%s|%s|%d|%s|%d", z.Apex, name, qt, sig.Hdr.Name, sig.TypeCovered))
					}
					// every non-glue, non-delegation-NS RRset of a signed zone carries a signature
					for _, rr := range sec {
						h := rr.Header()
						if h.Rrtype == dns.TypeRRSIG || (h.Rrtype == dns.TypeNS && !m.Authoritative) {
							continue
						}
						if h.Rrtype == dns.TypeCNAME && len(m.Answer) > 0 && m.Answer[0].Header().Rrtype == dns.TypeDNAME {
							continue // synthesised
						}
						found := false
						for _, o := range sec {
							if s, ok := o.(*dns.RRSIG); ok && s.TypeCovered == h.Rrtype && strings.EqualFold(s.Hdr.Name, h.Name) {
								found = true
							}
						}
						if !found {
							fail("%s %s/%s: %s/%s is unsigned in a signed zone", z.Apex, name, dns.TypeToString[qt], h.Name, dns.TypeToString[h.Rrtype])
						}
					}
				}
				// denials: NSEC3 records are consistent with miekg's Cover/Match for the names the model proves
				if m.Rcode == dns.RcodeNameError {
					covered := false
					for _, rr := range m.Ns {
						switch n := rr.(type) {
						case *dns.NSEC3:
							// the next closer name of name under its closest encloser must be covered by some record
							for l := name; l != z.Apex && l != "."; l = parentName(l) {
								if n.Cover(l) {
									covered = true
								}
							}
						case *dns.NSEC:
							if CanonicalLess(n.Hdr.Name, name) && (CanonicalLess(name, n.NextDomain) || !CanonicalLess(n.Hdr.Name, n.NextDomain)) {
								covered = true
							}
						}
					}
					if !covered {
						fail("%s %s: NXDOMAIN without a covering NSEC/NSEC3", z.Apex, name)
					}
				}
			}
		}
	}
	// oracle sanity
	for _, tc := range []struct {
		n  string
		t  uint16
		rc int
		st Status
	}{
		{"a.s.t.", dns.TypeA, dns.RcodeSuccess, Secure}, {"nx.s.t.", dns.TypeA, dns.RcodeNameError, Secure},
		{"a.u.t.", dns.TypeA, dns.RcodeSuccess, Insecure}, {"a.isl.t.", dns.TypeA, dns.RcodeSuccess, Insecure},
		{"nx.o.t.", dns.TypeA, dns.RcodeNameError, Insecure}, {"a.o.t.", dns.TypeA, dns.RcodeSuccess, Secure},
		{"a.uc.o.t.", dns.TypeA, dns.RcodeSuccess, Insecure}, {"y.al.s.t.", dns.TypeA, dns.RcodeNameError, Insecure},
		{"a.al.s.t.", dns.TypeA, dns.RcodeSuccess, Insecure}, {"s.t.", dns.TypeDS, dns.RcodeSuccess, Secure},
		{"u.t.", dns.TypeDS, dns.RcodeSuccess, Secure}, {"q.w.h.t.", dns.TypeA, dns.RcodeSuccess, Secure},
		{"q.w.o.t.", dns.TypeA, dns.RcodeSuccess, Insecure},
	} {
		tr := u.Truth(tc.n, tc.t)
		c.Add("evaluations", 1)
		if tr.Rcode != tc.rc || tr.Status != tc.st {
			fail("Truth(%s,%s) = %s/%s, want %s/%s", tc.n, dns.TypeToString[tc.t], dns.RcodeToString[tr.Rcode], tr.Status, dns.RcodeToString[tc.rc], tc.st)
		}
	}
}
