package zonemodel

// Oracle questions: what a perfect validating resolver would conclude.

import (
	"sort"
	"strings"

	"github.com/miekg/dns"
)

// Status is the DNSSEC security status of a name/answer (RFC 4033 §5).
type Status int

const (
	Secure Status = iota
	Insecure
	Indeterminate
)

func (s Status) String() string { return [...]string{"secure", "insecure", "indeterminate"}[s] }

// TruthRRset is one RRset of the true answer.
type TruthRRset struct {
	Owner    string
	Type     uint16
	RRs      []dns.RR // owner already rewritten for wildcard expansions; original TTLs
	Secure   bool     // authenticated by an unbroken chain from the trust anchor
	Wildcard bool
	Synth    bool   // CNAME synthesised from a DNAME
	Zone     string // zone that published it
}

// Truth is the model's verdict for (qname, qtype) following aliases across zones.
type Truth struct {
	QName    string
	QType    uint16
	Rcode    int
	Answer   []TruthRRset
	Status   Status
	Zone     string // zone of the terminal answer / denial
	Terminal string // "answer", "nodata", "nxdomain", "loop", "lame"
	OptOut   bool   // the terminal step rests on an NSEC3 Opt-Out span (never AD)
}

// ZoneStatus: secure iff the root is signed, anchors are configured and every
// link down to z has a DS and a signed child.
func (u *Universe) ZoneStatus(z *Zone) Status {
	if u.NoAnchors {
		return Indeterminate
	}
	for c := z; c != nil; c = c.Parent {
		if !c.Mode.Signed() {
			return Insecure
		}
		if c.Parent != nil && (c.NoDS || !c.Parent.Mode.Signed()) {
			return Insecure
		}
	}
	return Secure
}

// authStep descends from the root to the zone authoritative for (name, qtype)
// and performs the in-zone lookup there. lame is true when the path crosses a
// delegation to a zone that is not part of the universe.
func (u *Universe) authStep(name string, qtype uint16) (z *Zone, r lookupResult, lame bool) {
	z = u.Root()
	for i := 0; i < 64; i++ {
		r = z.lookup(name, qtype)
		if r.kind != lkReferral {
			return z, r, false
		}
		child := u.zones[r.cut]
		if child == nil || child.Parent != z {
			return z, r, true
		}
		z = child
	}
	return z, r, true
}

func rewriteOwner(rrs []dns.RR, owner string) []dns.RR {
	out := make([]dns.RR, len(rrs))
	for i, rr := range rrs {
		out[i] = dns.Copy(rr)
		out[i].Header().Name = owner
	}
	return out
}

// Truth resolves (qname, qtype) in the model.
func (u *Universe) Truth(qname string, qtype uint16) Truth {
	qname = Canon(qname)
	t := Truth{QName: qname, QType: qtype, Status: Secure}
	worst := func(s Status) {
		if s > t.Status {
			t.Status = s
		}
	}
	cur := qname
	seen := map[string]bool{}
	for hop := 0; hop < 24; hop++ {
		if seen[cur] {
			t.Terminal, t.Rcode = "loop", dns.RcodeServerFailure
			t.Status = Indeterminate
			return t
		}
		seen[cur] = true
		z, r, lame := u.authStep(cur, qtype)
		if lame {
			t.Terminal, t.Rcode, t.Status = "lame", dns.RcodeServerFailure, Indeterminate
			return t
		}
		zs := u.ZoneStatus(z)
		t.Zone = z.Apex
		optout := z.Mode == NSEC3OptOut
		switch r.kind {
		case lkDNAME:
			worst(zs)
			t.Answer = append(t.Answer, TruthRRset{Owner: r.stored, Type: dns.TypeDNAME, RRs: rewriteOwner(r.rrs, r.stored), Secure: zs == Secure, Zone: z.Apex})
			d := r.rrs[0].(*dns.DNAME)
			if len(r.target) > 254 {
				t.Terminal, t.Rcode = "answer", dns.RcodeYXDomain
				return t
			}
			t.Answer = append(t.Answer, TruthRRset{Owner: cur, Type: dns.TypeCNAME, Synth: true, Secure: zs == Secure, Zone: z.Apex,
				RRs: []dns.RR{&dns.CNAME{Hdr: dns.RR_Header{Name: cur, Rrtype: dns.TypeCNAME, Class: dns.ClassINET, Ttl: d.Hdr.Ttl}, Target: r.target}}})
			if qtype == dns.TypeCNAME {
				t.Terminal = "answer"
				return t
			}
			cur = r.target
		case lkCNAME, lkAnswer:
			sec := zs == Secure && !(r.wildcard && optout)
			if zs != Secure {
				worst(zs)
			} else if !sec {
				worst(Insecure)
				t.OptOut = true
			}
			t.Answer = append(t.Answer, TruthRRset{Owner: cur, Type: r.rrs[0].Header().Rrtype, RRs: rewriteOwner(r.rrs, cur), Secure: sec, Wildcard: r.wildcard, Zone: z.Apex})
			if r.kind == lkAnswer {
				t.Terminal = "answer"
				return t
			}
			cur = r.target
		case lkNoData, lkNXDomain:
			t.Terminal, t.Rcode = "nodata", dns.RcodeSuccess
			if r.kind == lkNXDomain {
				t.Terminal, t.Rcode = "nxdomain", dns.RcodeNameError
			}
			worst(zs)
			if zs == Secure && optout {
				// exact-match NSEC3 NODATA is fully authenticated; everything that needs a
				// covering (Opt-Out flagged) span is not
				exact := r.kind == lkNoData && !r.wildcard && z.n3hash[cur] != ""
				if !exact {
					worst(Insecure)
					t.OptOut = true
				}
			}
			return t
		}
	}
	t.Terminal, t.Rcode, t.Status = "loop", dns.RcodeServerFailure, Indeterminate
	return t
}

// AuthRRset is what the zone authoritative for owner publishes as the RRset
// (owner, rtype) — after wildcard expansion / DNAME synthesis — and whether
// that RRset is covered by an unbroken chain of trust. found=false means the
// model holds no such RRset (status then describes the denial).
func (u *Universe) AuthRRset(owner string, rtype uint16) (rrs []dns.RR, st Status, found bool) {
	owner = Canon(owner)
	z, r, lame := u.authStep(owner, rtype)
	if lame {
		return nil, Indeterminate, false
	}
	st = u.ZoneStatus(z)
	optout := z.Mode == NSEC3OptOut
	switch r.kind {
	case lkAnswer:
		if st == Secure && r.wildcard && optout {
			st = Insecure
		}
		return rewriteOwner(r.rrs, owner), st, true
	case lkCNAME:
		if st == Secure && r.wildcard && optout {
			st = Insecure
		}
		if rtype == dns.TypeCNAME {
			return rewriteOwner(r.rrs, owner), st, true
		}
		return nil, st, false
	case lkDNAME:
		if rtype == dns.TypeCNAME {
			d := r.rrs[0].(*dns.DNAME)
			return []dns.RR{&dns.CNAME{Hdr: dns.RR_Header{Name: owner, Rrtype: dns.TypeCNAME, Class: dns.ClassINET, Ttl: d.Hdr.Ttl}, Target: r.target}}, st, true
		}
		return nil, st, false
	default:
		if st == Secure && optout {
			exact := r.kind == lkNoData && !r.wildcard && z.n3hash[owner] != ""
			if !exact {
				st = Insecure
			}
		}
		return nil, st, false
	}
}

// AuthZone returns the zone authoritative for (name, qtype) (nil if lame).
func (u *Universe) AuthZone(name string, qtype uint16) *Zone {
	z, _, lame := u.authStep(Canon(name), qtype)
	if lame {
		return nil
	}
	return z
}

// RRKey is a TTL-free canonical text of one record (owner lower-cased).
func RRKey(rr dns.RR) string {
	h := rr.Header()
	s := rr.String()
	// strip the header: "owner\tttl\tclass\ttype\trdata"
	parts := strings.SplitN(s, "\t", 5)
	rdata := ""
	if len(parts) == 5 {
		rdata = parts[4]
	}
	switch h.Rrtype {
	case dns.TypeCNAME, dns.TypeNS, dns.TypeDNAME, dns.TypePTR:
		rdata = strings.ToLower(rdata)
	}
	return strings.ToLower(h.Name) + " " + dns.ClassToString[h.Class] + " " + dns.TypeToString[h.Rrtype] + " " + rdata
}

// SetKey is the canonical text of an RRset as a set (sorted RRKeys).
func SetKey(rrs []dns.RR) string {
	k := make([]string, 0, len(rrs))
	for _, rr := range rrs {
		k = append(k, RRKey(rr))
	}
	sort.Strings(k)
	return strings.Join(k, " | ")
}

// DenialRRset returns the NSEC / NSEC3 record the universe publishes at owner
// (nil when there is none) and the security status of the zone that holds it.
func (u *Universe) DenialRRset(owner string, rtype uint16) ([]dns.RR, Status, bool) {
	owner = Canon(owner)
	switch rtype {
	case dns.TypeNSEC:
		z, _, lame := u.authStep(owner, dns.TypeNSEC)
		if lame {
			return nil, Indeterminate, false
		}
		// an NSEC at a delegation point belongs to the parent side: authStep(…, NSEC) refers into the
		// child for a cut name, so also try the parent of the zone found
		for _, c := range []*Zone{z, z.Parent} {
			if c != nil && c.nsec != nil {
				if n := c.nsec[owner]; n != nil {
					return []dns.RR{dns.Copy(n)}, u.ZoneStatus(c), true
				}
			}
		}
		return nil, u.ZoneStatus(z), false
	case dns.TypeNSEC3:
		apex := parentName(owner)
		z := u.zones[apex]
		if z == nil || z.n3 == nil {
			return nil, Indeterminate, false
		}
		h := strings.ToUpper(strings.SplitN(owner, ".", 2)[0])
		if n := z.n3[h]; n != nil {
			return []dns.RR{dns.Copy(n)}, u.ZoneStatus(z), true
		}
		return nil, u.ZoneStatus(z), false
	}
	return nil, Indeterminate, false
}
