//go:build verif

// Package h_c07 is the harness of check C07 (authoritative data is trusted only
// inside the sender's bailiwick): the real default sdns chain resolving against
// a scripted hierarchy (zonemodel + authsim) in which one zone's servers are
// fully adversarial.
package h_c07

import (
	"encoding/binary"
	"fmt"
	"io"
	"net"
	"strings"
	"sync"
	"time"

	"github.com/miekg/dns"
	"github.com/semihalev/sdns/internal/verifshim/zonemodel"
)

// Universe:
//
//	.        signed (NSEC)  root
//	t.       signed (NSEC)  TLD, delegates everything below
//	z.t.     unsigned       ATTACKER zone (server "z.t." fully scripted)
//	s.z.t.   unsigned       attacker child zone on its own server "s.z.t." (second attacker exchange)
//	v.t.     unsigned       VICTIM: www, mail, a, ns.v.t.
//	g.t.     unsigned       victim's second zone, same server, NS host ns.v.t. => its referral carries NO glue,
//	                        so resolving it consults the resolver's glue cache for ns.v.t.
//	w.t.     unsigned       bystander sibling
//
// Root and TLD are signed so the same universe serves the DNSSEC-on pass (every
// leaf is a proven-insecure delegation: nothing but bailiwick rules protects it).
const (
	vkAttZone  = "z.t."
	vkAttChild = "s.z.t."
	vkVictim   = "v.t."
	vkVictimNS = "192.0.2.150"
	vkPoisonA  = "6.6.6.6" // the address every forged record / glue carries; routed to the trap listener
	vkLoopback = "127.0.0.1"
	vkUnspec   = "0.0.0.0"
	vkDotLabel = `x\.z`    // relative owner in t.
	vkDotName  = `x\.z.t.` // the same, fully qualified
)

func vkUniverse() *zonemodel.Universe {
	u := zonemodel.NewUniverse("c07")
	u.AddZone(zonemodel.ZoneSpec{Apex: ".", Mode: zonemodel.NSEC, Alg: zonemodel.AlgED25519})
	tld := u.AddZone(zonemodel.ZoneSpec{Apex: "t.", Mode: zonemodel.NSEC, Alg: zonemodel.AlgED25519})
	// a name of the TLD zone whose first label CONTAINS a dot: `x\.z.t.` is one label "x.z" under t. -
	// it only looks like a name below the attacker's zone z.t.
	tld.Add(vkDotLabel + " A 192.0.2.84")
	z := u.AddZone(zonemodel.ZoneSpec{Apex: vkAttZone, Mode: zonemodel.Unsigned})
	s := u.AddZone(zonemodel.ZoneSpec{Apex: vkAttChild, Mode: zonemodel.Unsigned})
	v := u.AddZone(zonemodel.ZoneSpec{Apex: vkVictim, Mode: zonemodel.Unsigned, NSAddr: vkVictimNS})
	g := u.AddZone(zonemodel.ZoneSpec{Apex: "g.t.", Mode: zonemodel.Unsigned, Server: vkVictim, NSHost: "ns.v.t.", NSAddr: vkVictimNS})
	w := u.AddZone(zonemodel.ZoneSpec{Apex: "w.t.", Mode: zonemodel.Unsigned})

	z.Add("a A 10.9.0.1", "h A 10.9.0.3", "evil A "+vkPoisonA, "c CNAME www.v.t.", "dn DNAME v.t.")
	s.Add("x A 10.9.1.1")
	v.Add("www A 192.0.2.80", "mail A 192.0.2.81", "a A 192.0.2.82", "x A 192.0.2.83")
	g.Add("www A 192.0.2.90")
	w.Add("www A 192.0.2.70")
	return u.Build()
}

// vkInBailiwick: is name inside the attacker's authority (z.t. and below)?
func vkInBailiwick(name string) bool { return dns.IsSubDomain(vkAttZone, zonemodel.Canon(name)) }

// vkLocalIP returns a non-loopback IPv4 address of a local interface ("" if none).
func vkLocalIP() string {
	addrs, err := net.InterfaceAddrs()
	if err != nil {
		return ""
	}
	for _, a := range addrs {
		if n, ok := a.(*net.IPNet); ok {
			if ip := n.IP.To4(); ip != nil && !ip.IsLoopback() {
				return ip.String()
			}
		}
	}
	return ""
}

// ---------------------------------------------------------------- listeners

type vkPair struct {
	pc   *net.UDPConn
	ln   *net.TCPListener
	addr string
}

func vkListen() (*vkPair, error) {
	var last error
	for try := 0; try < 50; try++ {
		pc, err := net.ListenUDP("udp4", &net.UDPAddr{IP: net.IPv4(127, 0, 0, 1)})
		if err != nil {
			return nil, err
		}
		port := pc.LocalAddr().(*net.UDPAddr).Port
		ln, err := net.ListenTCP("tcp4", &net.TCPAddr{IP: net.IPv4(127, 0, 0, 1), Port: port})
		if err != nil {
			last = err
			pc.Close()
			continue
		}
		return &vkPair{pc: pc, ln: ln, addr: fmt.Sprintf("127.0.0.1:%d", port)}, nil
	}
	return nil, fmt.Errorf("h_c07: cannot bind udp+tcp pair: %v", last)
}

// vkTrap is the listener behind every address the attacker supplies that the
// resolver must never contact (forged glue, loopback, local-interface). It
// answers everything with poison, so an accepted forgery also becomes visible in
// client replies.
type vkTrap struct {
	*vkPair
	mu    sync.Mutex
	seen  []string
	conns map[net.Conn]struct{}
}

func vkStartTrap() (*vkTrap, error) {
	p, err := vkListen()
	if err != nil {
		return nil, err
	}
	t := &vkTrap{vkPair: p, conns: map[net.Conn]struct{}{}}
	go t.serveUDP()
	go t.serveTCP()
	return t, nil
}

func (t *vkTrap) reset() {
	t.mu.Lock()
	t.seen = nil
	t.mu.Unlock()
}

func (t *vkTrap) queries() []string {
	t.mu.Lock()
	defer t.mu.Unlock()
	return append([]string(nil), t.seen...)
}

func (t *vkTrap) answer(raw []byte, transport string) []byte {
	req := new(dns.Msg)
	if err := req.Unpack(raw); err != nil || len(req.Question) != 1 {
		t.mu.Lock()
		t.seen = append(t.seen, transport+":malformed")
		t.mu.Unlock()
		return nil
	}
	q := req.Question[0]
	t.mu.Lock()
	t.seen = append(t.seen, fmt.Sprintf("%s:%s/%s", transport, strings.ToLower(q.Name), dns.TypeToString[q.Qtype]))
	t.mu.Unlock()
	m := new(dns.Msg)
	m.SetReply(req)
	m.Authoritative = true
	switch q.Qtype {
	case dns.TypeA:
		m.Answer = []dns.RR{vkRR(q.Name + " 300 IN A " + vkPoisonA)}
	case dns.TypeNS:
		m.Answer = []dns.RR{vkRR(q.Name + " 300 IN NS evil.z.t.")}
		m.Extra = []dns.RR{vkRR("evil.z.t. 300 IN A " + vkPoisonA)}
	}
	b, _ := m.Pack()
	return b
}

func (t *vkTrap) serveUDP() {
	buf := make([]byte, 65535)
	for {
		n, addr, err := t.pc.ReadFromUDP(buf)
		if err != nil {
			return
		}
		if out := t.answer(append([]byte(nil), buf[:n]...), "udp"); out != nil {
			_, _ = t.pc.WriteToUDP(out, addr)
		}
	}
}

func (t *vkTrap) serveTCP() {
	for {
		c, err := t.ln.Accept()
		if err != nil {
			return
		}
		go func(c net.Conn) {
			defer c.Close()
			for {
				_ = c.SetReadDeadline(time.Now().Add(5 * time.Second))
				var lb [2]byte
				if _, err := io.ReadFull(c, lb[:]); err != nil {
					return
				}
				p := make([]byte, binary.BigEndian.Uint16(lb[:]))
				if _, err := io.ReadFull(c, p); err != nil {
					return
				}
				out := t.answer(p, "tcp")
				if out == nil {
					return
				}
				binary.BigEndian.PutUint16(lb[:], uint16(len(out)))
				if _, err := c.Write(append(lb[:], out...)); err != nil {
					return
				}
			}
		}(c)
	}
}

func (t *vkTrap) close() { t.pc.Close(); t.ln.Close() }

// vkProxy sits in front of one attacker server. It forwards every query to the
// authsim listener of that server (so the query log and the scripted
// transformers work unchanged) and can put forged datagrams on the wire BEFORE
// the real response — which authsim itself cannot do (one datagram per query).
type vkProxy struct {
	*vkPair
	server   string
	upstream string
	mu       sync.Mutex
	counts   map[string]int
	hook     func(req *dns.Msg, occ int) [][]byte
	forged   int
}

func vkStartProxy(server, upstream string) (*vkProxy, error) {
	p, err := vkListen()
	if err != nil {
		return nil, err
	}
	x := &vkProxy{vkPair: p, server: server, upstream: upstream, counts: map[string]int{}}
	go x.serveUDP()
	go x.serveTCP()
	return x, nil
}

func (x *vkProxy) reset() {
	x.mu.Lock()
	x.counts = map[string]int{}
	x.hook = nil
	x.forged = 0
	x.mu.Unlock()
}

func (x *vkProxy) setHook(h func(req *dns.Msg, occ int) [][]byte) {
	x.mu.Lock()
	x.hook = h
	x.mu.Unlock()
}

func (x *vkProxy) forgedCount() int {
	x.mu.Lock()
	defer x.mu.Unlock()
	return x.forged
}

func (x *vkProxy) serveUDP() {
	buf := make([]byte, 65535)
	for {
		n, addr, err := x.pc.ReadFromUDP(buf)
		if err != nil {
			return
		}
		pkt := append([]byte(nil), buf[:n]...)
		go func(pkt []byte, addr *net.UDPAddr) {
			req := new(dns.Msg)
			if err := req.Unpack(pkt); err == nil && len(req.Question) == 1 {
				k := fmt.Sprintf("%s|%d", strings.ToLower(req.Question[0].Name), req.Question[0].Qtype)
				x.mu.Lock()
				occ := x.counts[k]
				x.counts[k]++
				h := x.hook
				x.mu.Unlock()
				if h != nil {
					for _, d := range h(req, occ) {
						_, _ = x.pc.WriteToUDP(d, addr)
						x.mu.Lock()
						x.forged++
						x.mu.Unlock()
					}
				}
			}
			up, err := net.Dial("udp4", x.upstream)
			if err != nil {
				return
			}
			defer up.Close()
			_ = up.SetDeadline(time.Now().Add(3 * time.Second))
			if _, err := up.Write(pkt); err != nil {
				return
			}
			rb := make([]byte, 65535)
			rn, err := up.Read(rb)
			if err != nil {
				return
			}
			_, _ = x.pc.WriteToUDP(rb[:rn], addr)
		}(pkt, addr)
	}
}

func (x *vkProxy) serveTCP() {
	for {
		c, err := x.ln.Accept()
		if err != nil {
			return
		}
		go func(c net.Conn) {
			defer c.Close()
			up, err := net.Dial("tcp4", x.upstream)
			if err != nil {
				return
			}
			defer up.Close()
			done := make(chan struct{}, 2)
			go func() { _, _ = io.Copy(up, c); done <- struct{}{} }()
			go func() { _, _ = io.Copy(c, up); done <- struct{}{} }()
			<-done
		}(c)
	}
}

func (x *vkProxy) close() { x.pc.Close(); x.ln.Close() }

func vkRR(s string) dns.RR {
	rr, err := dns.NewRR(s)
	if err != nil || rr == nil {
		panic(fmt.Sprintf("h_c07: bad RR %q: %v", s, err))
	}
	return rr
}
