//go:build verif

package h_c07

// C07, unit `race` — event-order exploration of CONCURRENT client resolutions under one not-yet-cached zone.
//
// The sequential unit (bailiwick) can never reach the check-then-act window of processDelegation: a
// resolution walks the delegation table (searchCache) BEFORE it asks the parent zone's servers, and looks the
// referral's zone up again (r.delegations.Get) AFTER the referral arrived. If another resolution published
// that zone in between, the query continues through resolveWithCachedNameservers, whose `rs.level++` is the
// label count of the new zone only when the referral went down exactly one label. rs.level is what
// checkGlueRR derives the glue bailiwick from.
//
// Here every upstream query of the real resolver is PARKED by a gate in front of each authsim server, each
// client query runs in its own goroutine, and the explorer releases the parked queries one at a time, waiting
// for quiescence after each release. Depth-first with replay from a cold state, EVERY delivery order is run.
// Quiescence is decided from verif-only overlay hooks around groupLookup's singleflight call (who waits on
// which key, which leader closures are active) plus the gate's own parked list — not from timing.

import (
	"encoding/json"
	"fmt"
	"net"
	"sort"
	"strings"
	"sync"
	"testing"
	"time"

	"github.com/miekg/dns"
	"github.com/semihalev/sdns/internal/verifshim/authsim"
	"github.com/semihalev/sdns/internal/verifshim/h_resolver"
	"github.com/semihalev/sdns/internal/verifshim/vkit"
	"github.com/semihalev/sdns/internal/verifshim/zonemodel"
	"github.com/semihalev/sdns/middleware/resolver"
)

// ---------------------------------------------------------------- scenario

type rcScenario struct {
	Fam     string    `json:"fam"`     // shallow: the jumping referral comes from t. (depth 1) | deep: from p5.p4.p3.p2.t. (depth 5, at the default QNAME-minimisation level)
	Variant string    `json:"variant"` // glued: the new zone's only NS host has glue | provisional: + a second, glue-less NS host (lookupV4Nss publishes a provisional entry while it resolves it)
	Cfg     vkCfg     `json:"cfg"`
	Pre     string    `json:"pre"` // cold | warm-base (a bystander name below the jumping zone was resolved before)
	Clients []vkProbe `json:"clients"`
	Order   []string  `json:"order,omitempty"` // replay: the delivery order
}

func (s rcScenario) id() string {
	var cl []string
	for _, c := range s.Clients {
		cl = append(cl, c.String())
	}
	return fmt.Sprintf("%s %s %s %s [%s]", s.Fam, s.Variant, s.Cfg, s.Pre, strings.Join(cl, " || "))
}

type rcNames struct {
	base, evil, sub, victim, victimNS, g, w, o, ns2 string
}

func rcNamesOf(fam string) rcNames {
	base := "t."
	if fam == "deep" {
		base = "p5.p4.p3.p2.t."
	}
	n := rcNames{base: base, evil: "evil.co." + base, victim: "victim.co." + base, g: "g." + base, w: "w." + base, o: "o." + base}
	n.sub = "sub." + n.evil
	n.victimNS = "ns1." + n.victim
	n.ns2 = "ns2." + n.o
	return n
}

// Universe (all leaves unsigned; root and t. signed so the DNSSEC-on pass has a chain to walk):
//
//	.  ->  t.  [-> p5.p4.p3.p2.t. (deep)]  = BASE, whose servers refer STRAIGHT to zones two labels below it
//	evil.co.BASE    attacker zone (a, c); for every name at or below sub.evil.co.BASE its server answers a
//	                referral  sub.evil.co.BASE NS ns1.victim.co.BASE  + glue  ns1.victim.co.BASE A 6.6.6.6 (trap)
//	victim.co.BASE  victim zone, NS host ns1.victim.co.BASE (real address 192.0.2.150)
//	g.BASE          victim's second zone, same server, NS host ns1.victim.co.BASE => referral WITHOUT glue:
//	                resolving it consults the resolver's glue cache for ns1.victim.co.BASE
//	w.BASE          bystander (warm-up); o.BASE: holds ns2.o.BASE = second address name of the attacker's server
func rcUniverse(fam string) *zonemodel.Universe {
	n := rcNamesOf(fam)
	u := zonemodel.NewUniverse("c07race-" + fam)
	u.AddZone(zonemodel.ZoneSpec{Apex: ".", Mode: zonemodel.NSEC, Alg: zonemodel.AlgED25519})
	u.AddZone(zonemodel.ZoneSpec{Apex: "t.", Mode: zonemodel.NSEC, Alg: zonemodel.AlgED25519})
	if n.base != "t." {
		u.AddZone(zonemodel.ZoneSpec{Apex: n.base, Mode: zonemodel.Unsigned})
	}
	e := u.AddZone(zonemodel.ZoneSpec{Apex: n.evil, Mode: zonemodel.Unsigned, NSAddr: "192.0.2.66"})
	v := u.AddZone(zonemodel.ZoneSpec{Apex: n.victim, Mode: zonemodel.Unsigned, NSHost: n.victimNS, NSAddr: vkVictimNS})
	g := u.AddZone(zonemodel.ZoneSpec{Apex: n.g, Mode: zonemodel.Unsigned, Server: n.victim, NSHost: n.victimNS, NSAddr: vkVictimNS})
	w := u.AddZone(zonemodel.ZoneSpec{Apex: n.w, Mode: zonemodel.Unsigned})
	o := u.AddZone(zonemodel.ZoneSpec{Apex: n.o, Mode: zonemodel.Unsigned})
	e.Add("a A 10.9.0.1", "c A 10.9.0.2")
	v.Add("www A 192.0.2.80")
	g.Add("www A 192.0.2.90")
	w.Add("www A 192.0.2.70")
	o.Add("ns2 A 192.0.2.66")
	return u.Build()
}

// ---------------------------------------------------------------- gate

type rcParked struct {
	label string
	ch    chan struct{}
}

type rcHit struct {
	Zone  string `json:"zone"`
	Level int    `json:"level"` // rs.level before the increment
}

// shallow: the referral went down more than one label, so "level+1" is not the zone's label count
func (h rcHit) shallow() bool { return h.Level+1 < dns.CountLabel(h.Zone) }

// rcGate is the shared bookkeeping of one execution: parked upstream queries, singleflight waiters and
// active leader closures (overlay hooks), finished clients.
type rcGate struct {
	mu      sync.Mutex
	open    bool
	parked  []*rcParked
	waiters map[string]int
	nwait   int
	flights map[string]int
	nflight int
	done    int
	hits    []rcHit
	tick    uint64
}

var rcG = &rcGate{open: true, waiters: map[string]int{}, flights: map[string]int{}}

func (g *rcGate) resetCounters() {
	g.mu.Lock()
	g.waiters, g.flights = map[string]int{}, map[string]int{}
	g.nwait, g.nflight, g.done, g.hits = 0, 0, 0, nil
	g.tick++
	g.mu.Unlock()
}

func (g *rcGate) setOpen(open bool) {
	g.mu.Lock()
	g.open = open
	var rel []*rcParked
	if open {
		rel, g.parked = g.parked, nil
	}
	g.tick++
	g.mu.Unlock()
	for _, p := range rel {
		close(p.ch)
	}
}

// park blocks the serving goroutine of one upstream query until the explorer releases it.
func (g *rcGate) park(server string, req *dns.Msg) {
	g.mu.Lock()
	if g.open {
		g.mu.Unlock()
		return
	}
	q := req.Question[0]
	p := &rcParked{label: fmt.Sprintf("%s<-%s/%s", server, strings.ToLower(q.Name), dns.TypeToString[q.Qtype]), ch: make(chan struct{})}
	g.parked = append(g.parked, p)
	g.tick++
	g.mu.Unlock()
	<-p.ch
}

func (g *rcGate) hooks() *resolver.VerifC07RaceHooks {
	return &resolver.VerifC07RaceHooks{
		Hit: func(zone string, level int) {
			g.mu.Lock()
			g.hits = append(g.hits, rcHit{Zone: strings.ToLower(zone), Level: level})
			g.mu.Unlock()
		},
		Enter: func(key string) {
			g.mu.Lock()
			g.waiters[key]++
			g.nwait++
			g.tick++
			g.mu.Unlock()
		},
		Leave: func(key string) {
			g.mu.Lock()
			g.waiters[key]--
			g.nwait--
			g.tick++
			g.mu.Unlock()
		},
		Flight: func(key string, d int) {
			g.mu.Lock()
			g.flights[key] += d
			g.nflight += d
			g.tick++
			g.mu.Unlock()
		},
	}
}

// quiescentLocked: every client has finished or waits in groupLookup on a key whose leader closure is
// active, and every active leader closure has its (single) upstream query parked at the gate.
func (g *rcGate) quiescentLocked(n int) bool {
	if g.done == n {
		return true
	}
	if g.done+g.nwait != n || len(g.parked) != g.nflight || len(g.parked) == 0 {
		return false
	}
	for k, c := range g.waiters {
		if c > 0 && g.flights[k] <= 0 {
			return false
		}
	}
	return true
}

// settle waits for quiescence. byStability: the hook criterion never held but nothing moved for 150 ms with
// at least one query parked (a client that fans out into several goroutines); counted, never a verdict.
func (g *rcGate) settle(n int) (labels []string, finished, byStability bool, err error) {
	start := time.Now()
	var lastTick uint64
	lastChange := start
	for {
		g.mu.Lock()
		ok := g.quiescentLocked(n)
		tick := g.tick
		if !ok && tick == lastTick && len(g.parked) > 0 && time.Since(lastChange) > 150*time.Millisecond {
			ok, byStability = true, true
		}
		if ok {
			finished = g.done == n
			for _, p := range g.parked {
				labels = append(labels, p.label)
			}
			g.mu.Unlock()
			sort.Strings(labels)
			return labels, finished, byStability, nil
		}
		state := fmt.Sprintf("done=%d waiting=%d flights=%d parked=%d", g.done, g.nwait, g.nflight, len(g.parked))
		g.mu.Unlock()
		if tick != lastTick {
			lastTick, lastChange = tick, time.Now()
		}
		if time.Since(start) > 8*time.Second {
			return nil, false, false, fmt.Errorf("no quiescence within 8s (%s)", state)
		}
		time.Sleep(30 * time.Microsecond)
	}
}

// release lets the first parked query with this label go.
func (g *rcGate) release(label string) bool {
	g.mu.Lock()
	for i, p := range g.parked {
		if p.label == label {
			g.parked = append(g.parked[:i:i], g.parked[i+1:]...)
			g.tick++
			g.mu.Unlock()
			close(p.ch)
			return true
		}
	}
	g.mu.Unlock()
	return false
}

// ---------------------------------------------------------------- world

type rcWorld struct {
	fam, variant string
	cfg          vkCfg
	n            rcNames
	u            *zonemodel.Universe
	sim          *authsim.Sim
	pl           *h_resolver.Pipeline
	trap         *vkTrap
	proxies      map[string]*vkProxy
	special      map[string]string
	c            *vkit.Ctx
}

var rcWorlds = map[string]*rcWorld{}
var rcUniverses = map[string]*zonemodel.Universe{}

func rcGetWorld(c *vkit.Ctx, fam, variant string, cfg vkCfg) (*rcWorld, error) {
	id := fam + "|" + variant + "|" + cfg.String()
	if w := rcWorlds[id]; w != nil {
		w.c = c
		return w, nil
	}
	u := rcUniverses[fam]
	if u == nil {
		u = rcUniverse(fam)
		rcUniverses[fam] = u
	}
	sim, err := authsim.Start(u)
	if err != nil {
		return nil, err
	}
	// upstream timeouts are kept out of play: a release follows a park within milliseconds
	pl, err := h_resolver.New(sim, h_resolver.Options{DNSSECOff: !cfg.DNSSEC, QnameMinLevel: cfg.QMin,
		Timeout: 3 * time.Second, QueryTimeout: 60 * time.Second})
	if err != nil {
		return nil, err
	}
	trap, err := vkStartTrap()
	if err != nil {
		return nil, err
	}
	w := &rcWorld{fam: fam, variant: variant, cfg: cfg, n: rcNamesOf(fam), u: u, sim: sim, pl: pl, trap: trap, c: c,
		proxies: map[string]*vkProxy{}, special: map[string]string{}}
	w.special[net.JoinHostPort(vkPoisonA, "53")] = trap.addr
	for name, srv := range u.Servers() {
		px, err := vkStartProxy(name, sim.Addr(name))
		if err != nil {
			return nil, err
		}
		w.proxies[name] = px
		for _, a := range srv.Addrs {
			w.special[net.JoinHostPort(a, "53")] = px.addr
		}
	}
	// the root is reached through cfg.RootServers (loopback address of authsim): gate it as well
	w.special[sim.Addr(u.Root().Server)] = w.proxies[u.Root().Server].addr
	sim.SetHonest(w.honest)
	rcWorlds[id] = w
	return w, nil
}

func (w *rcWorld) remap(addr string) string {
	if t, ok := w.special[addr]; ok {
		return t
	}
	return w.sim.Remap(addr)
}

// honest is the responder behind the gate: the zone model, except for the attacker's two liberties.
func (w *rcWorld) honest(server string, q dns.Question, do bool) *dns.Msg {
	name := zonemodel.Canon(q.Name)
	if server == w.n.evil && dns.IsSubDomain(w.n.sub, name) {
		m := new(dns.Msg)
		m.Rcode = dns.RcodeSuccess
		m.Ns = []dns.RR{vkRR(w.n.sub + " 300 IN NS " + w.n.victimNS)}
		m.Extra = []dns.RR{vkRR(w.n.victimNS + " 300 IN A " + vkPoisonA)}
		return m
	}
	m := w.u.ServerAnswer(server, q, do)
	if w.variant == "provisional" && server == w.n.base && m != nil && len(m.Answer) == 0 && !m.Authoritative {
		for _, rr := range m.Ns {
			if ns, ok := rr.(*dns.NS); ok && zonemodel.Canon(ns.Hdr.Name) == w.n.evil {
				m = m.Copy()
				m.Ns = append(m.Ns, vkRR(w.n.evil+" 300 IN NS "+w.n.ns2))
				break
			}
		}
	}
	return m
}

func (w *rcWorld) reset() {
	rcG.setOpen(true)
	w.pl.Reset()
	resolver.VerifSetResolveTarget(w.pl.Resolver(), w.remap)
	w.trap.reset()
	for name, p := range w.proxies {
		p.reset()
		server := name
		p.setHook(func(req *dns.Msg, _ int) [][]byte { rcG.park(server, req); return nil })
	}
	rcG.resetCounters()
}

// ---------------------------------------------------------------- one execution

type rcExec struct {
	order    []string   // labels in delivery order
	sets     [][]string // the choice set before each delivery
	chosen   []int
	replies  []h_resolver.Reply
	hits     []rcHit
	stab     int
	slow     bool
	err      string // harness problem (never a verdict)
	diverged bool
	found    []vkFound
	outcome  string
	log      []authsim.Query
	trapQ    []string
	glue     []string
	probes   []string
}

func (e *rcExec) has(class string) *vkFound {
	for i := range e.found {
		if e.found[i].v.Class == class {
			return &e.found[i]
		}
	}
	return nil
}

func (e *rcExec) hitKinds() (any, shallow bool) {
	for _, h := range e.hits {
		any = true
		if h.shallow() {
			shallow = true
		}
	}
	return
}

// run executes the scenario once from a cold state. The i-th delivery is byLabel[i] when byLabel != nil,
// else the path[i]-th entry of the (sorted) choice set, else entry 0.
func (w *rcWorld) run(s rcScenario, path []int, byLabel []string, prefixOnly bool) (ex rcExec) {
	w.reset()
	flags := h_resolver.Flags{}
	if s.Pre == "warm-base" {
		w.pl.Ask("www."+w.n.w, dns.TypeA, flags, "tcp")
		w.c.Add("evaluations", 1)
	}
	rcG.resetCounters()
	n := len(s.Clients)
	reqs := make([]*dns.Msg, n)
	for i, cq := range s.Clients {
		reqs[i] = w.pl.Query(cq.Name, cq.Type, flags)
	}
	ex.replies = make([]h_resolver.Reply, n)
	rcG.setOpen(false)
	var wg sync.WaitGroup
	for i := range reqs {
		wg.Add(1)
		go func(i int) {
			defer wg.Done()
			ex.replies[i] = w.pl.AskMsg(reqs[i], "tcp")
			rcG.mu.Lock()
			rcG.done++
			rcG.tick++
			rcG.mu.Unlock()
		}(i)
	}
	w.c.Add("evaluations", int64(n))
	abort := func(msg string) rcExec {
		ex.err = msg
		rcG.setOpen(true)
		wg.Wait()
		return ex
	}
	for step := 0; ; step++ {
		t0 := time.Now()
		set, finished, stab, err := rcG.settle(n)
		if err != nil {
			return abort(err.Error())
		}
		if time.Since(t0) > time.Second {
			ex.slow = true
		}
		if stab {
			ex.stab++
		}
		if finished {
			break
		}
		if step > 200 {
			return abort("more than 200 deliveries in one execution")
		}
		// identical labels parked at the same time are told apart by arrival order
		idx := 0
		switch {
		case byLabel != nil && prefixOnly && step >= len(byLabel):
		case byLabel != nil:
			if step >= len(byLabel) {
				return abort(fmt.Sprintf("replay order exhausted after %d deliveries, still parked: %v", step, set))
			}
			idx = -1
			for i, l := range set {
				if l == byLabel[step] {
					idx = i
					break
				}
			}
			if idx < 0 {
				ex.diverged = true
				return abort(fmt.Sprintf("replay order names %q at delivery %d, parked: %v", byLabel[step], step, set))
			}
		case step < len(path):
			idx = path[step]
			if idx >= len(set) {
				ex.diverged = true
				return abort(fmt.Sprintf("choice %d at delivery %d, but only %v is parked", idx, step, set))
			}
		}
		ex.sets = append(ex.sets, set)
		ex.chosen = append(ex.chosen, idx)
		ex.order = append(ex.order, set[idx])
		if !rcG.release(set[idx]) {
			return abort("parked query vanished: " + set[idx])
		}
		w.c.Add("transitions", 1)
	}
	wg.Wait()
	rcG.mu.Lock()
	ex.hits = append([]rcHit(nil), rcG.hits...)
	left := len(rcG.parked)
	rcG.mu.Unlock()
	if left > 0 {
		w.c.Add("parked_after_last_reply", int64(left))
	}
	rcG.setOpen(true)

	// ---- judge
	fail := func(step string, class, f string, a ...any) {
		if ex.has(class) == nil {
			ex.found = append(ex.found, vkFound{step: step, v: vkVerdict{Class: class, Viol: fmt.Sprintf(f, a...)}})
		}
	}
	var parts []string
	inEvil := func(name string) bool { return dns.IsSubDomain(w.n.evil, zonemodel.Canon(name)) }
	for i, cq := range s.Clients {
		m := ex.replies[i].Msg
		if m == nil {
			parts = append(parts, "no-reply")
			continue
		}
		parts = append(parts, dns.RcodeToString[m.Rcode])
		for _, set := range vkGroup(m.Answer) {
			if !inEvil(set.owner) {
				fail("client "+cq.String(), "foreign-record-in-answer", "reply to %s relays %s/%s, owned outside the zone of the servers that were asked: %s", cq, set.owner, dns.TypeToString[set.rtype], vkMsgStr(m))
			}
		}
	}
	// the glue cache, read directly, then through a LATER resolution that needs the victim's NS host address
	truthNS, _, _ := w.u.AuthRRset(w.n.victimNS, dns.TypeA)
	okAddr := map[string]bool{}
	for _, rr := range truthNS {
		okAddr[rr.(*dns.A).A.String()] = true
	}
	ex.glue = resolver.VerifC07Glue(w.pl.Resolver(), w.n.victimNS)
	for _, a := range ex.glue {
		if !okAddr[a] {
			fail("after the concurrent resolutions", "glue-cached-outside-delegating-zone",
				"the glue cache holds %s A %s, supplied only by the servers of %s in a referral for %s (the host is outside that zone)", w.n.victimNS, a, w.n.evil, w.n.sub)
		}
	}
	for _, p := range []vkProbe{{"www." + w.n.g, dns.TypeA}, {"www." + w.n.victim, dns.TypeA}, {w.n.victimNS, dns.TypeA}} {
		r := w.pl.Ask(p.Name, p.Type, flags, "tcp")
		w.c.Add("evaluations", 1)
		lab := "no-reply"
		if m := r.Msg; m != nil {
			lab = "truth"
			bad := false
			for _, sec := range [][]dns.RR{m.Answer, m.Ns, m.Extra} {
				for _, rr := range sec {
					if a, ok := rr.(*dns.A); (ok && a.A.String() == vkPoisonA) || (rr.Header().Rrtype != dns.TypeOPT && inEvil(rr.Header().Name)) {
						bad = true
					}
				}
			}
			t := w.u.Truth(p.Name, p.Type)
			got := map[string]string{}
			for _, set := range vkGroup(m.Answer) {
				got[fmt.Sprintf("%s|%d", set.owner, set.rtype)] = zonemodel.SetKey(set.rrs)
			}
			same := m.Rcode == t.Rcode && len(got) == len(t.Answer)
			for _, ts := range t.Answer {
				if got[fmt.Sprintf("%s|%d", ts.Owner, ts.Type)] != zonemodel.SetKey(ts.RRs) {
					same = false
				}
			}
			switch {
			case bad:
				lab = "poisoned"
				fail("later victim probe "+p.String(), "victim-reply-carries-attacker-data", "reply to the later victim probe %s: %s", p, vkMsgStr(m))
			case m.Rcode == dns.RcodeServerFailure:
				lab = "servfail"
			case !same:
				lab = "differs"
				fail("later victim probe "+p.String(), "victim-reply-differs-from-truth", "reply to the later victim probe %s: %s", p, vkMsgStr(m))
			}
		}
		ex.probes = append(ex.probes, lab)
	}
	ex.log = w.sim.Log()
	ex.trapQ = w.trap.queries()
	if len(ex.trapQ) > 0 {
		fail("after the history", "trap-address-contacted", "the resolver sent %d queries (%s) to %s, an address only the servers of %s supplied, as glue for %s — a host outside their zone",
			len(ex.trapQ), strings.Join(ex.trapQ[:min(len(ex.trapQ), 6)], " "), vkPoisonA, w.n.evil, w.n.victimNS)
	}
	for _, q := range ex.log {
		if q.Transport == "tcp" {
			w.c.Add("ungated_tcp_exchanges", 1)
		}
	}
	hit, shallow := ex.hitKinds()
	hl := "no-table-hit"
	if shallow {
		hl = "table-hit-after-label-jump"
	} else if hit {
		hl = "table-hit-one-label-down"
	}
	ex.outcome = fmt.Sprintf("%s clients[%s] probes[%s] trap=%d glue=%d", hl, strings.Join(parts, ","), strings.Join(ex.probes, ","), min(len(ex.trapQ), 1), len(ex.glue))
	return ex
}

// rcTree is the exploration state of one scenario: a work list of delivery-order prefixes (labels). A prefix
// is run by delivering its labels in order and then always the first parked query; every alternative seen at
// any step of any execution becomes a new prefix. With a resolver that is deterministic between deliveries
// this is a depth-first enumeration of every delivery order, each run exactly once. Where two clients are woken
// by ONE delivery (a shared singleflight lookup) they run concurrently inside the resolver, and what is parked
// next can depend on the goroutine schedule, which the gate does not control: the tree is then the union of
// what was observed, a prefix may fail to replay (retried, then counted), and the evidence says so.
type rcTree struct {
	w      *rcWorld
	s      rcScenario
	todo   [][]string
	pushed map[string]bool
	sets   map[string]string // prefix -> choice set first seen there
}

func rcPrefixKey(p []string) string { return strings.Join(p, ">") }

func (t *rcTree) push(p []string) {
	k := rcPrefixKey(p)
	if !t.pushed[k] {
		t.pushed[k] = true
		t.todo = append(t.todo, append([]string(nil), p...))
	}
}

// explore runs the work list. own(first) decides whether this shard executes the prefixes that start with the
// given first splitDepth labels (shorter prefixes are run by every shard; visit is told whether the resulting
// execution is this shard's to count).
func (t *rcTree) explore(splitDepth int, own func(first []string) bool, stop func() bool, visit func(ex rcExec, mine bool)) error {
	c := t.w.c
	t.pushed, t.sets = map[string]bool{}, map[string]string{}
	t.push(nil)
	for len(t.todo) > 0 {
		if stop() {
			return nil
		}
		p := t.todo[len(t.todo)-1]
		t.todo = t.todo[:len(t.todo)-1]
		if len(p) >= splitDepth && !own(p[:splitDepth]) {
			continue
		}
		var ex rcExec
		ok := false
		for try := 0; try < 5 && !ok; try++ {
			ex = t.w.run(t.s, nil, p, true)
			switch {
			case ex.diverged:
				c.Add("rerun_prefix_not_replayable", 1)
			case ex.err != "":
				c.Add("rerun_harness_problem", 1)
				c.Note("rerun after: " + ex.err)
			case ex.slow:
				c.Add("rerun_slow_settle", 1)
			default:
				ok = true
			}
		}
		if !ok {
			if ex.diverged {
				// schedule-dependent branch that did not show again in 5 attempts
				c.Add("prefixes_not_replayable", 1)
				c.Note(fmt.Sprintf("prefix seen once, not replayable in 5 attempts (%s): %s", t.s.id(), ex.err))
				continue
			}
			if ex.err == "" {
				ex.err = "execution stayed slow (a settle took > 1 s) in 5 attempts"
			}
			return fmt.Errorf("%s: %s", t.s.id(), ex.err)
		}
		for i := range ex.order {
			pk := rcPrefixKey(ex.order[:i])
			sk := strings.Join(ex.sets[i], "|")
			if old, seen := t.sets[pk]; !seen {
				t.sets[pk] = sk
			} else if old != sk {
				c.Add("choice_sets_differing_on_replay", 1)
			}
			// every label seen at this node becomes a branch exactly once; the one this execution follows is
			// the branch this very execution covers (prefix + first-parked choices)
			for _, alt := range ex.sets[i] {
				child := append(append([]string(nil), ex.order[:i]...), alt)
				if alt == ex.order[i] {
					t.pushed[rcPrefixKey(child)] = true
				} else {
					t.push(child)
				}
			}
		}
		mine := own(ex.order[:min(splitDepth, len(ex.order))])
		ok2 := !t.pushed["counted:"+rcPrefixKey(ex.order)]
		t.pushed["counted:"+rcPrefixKey(ex.order)] = true
		if !mine {
			c.Add("prepass_executions", 1)
		} else if !ok2 {
			c.Add("executions_repeated_order", 1)
		}
		visit(ex, mine && ok2)
	}
	return nil
}

// ---------------------------------------------------------------- reporting

// rcKey: class + family + variant + configuration. The cold-start scenarios (longer orders: the root and TLD
// exchanges come first) get their own keys, so the counterexample under the plain key is the short one.
func rcKey(s rcScenario, class string) string {
	k := fmt.Sprintf("race|%s|%s|%s|%s", class, s.Fam, s.Variant, s.Cfg)
	if s.Pre == "cold" {
		k += "|cold-start"
	}
	return k
}

func rcLogStr(log []authsim.Query) string {
	var p []string
	for _, q := range log {
		p = append(p, fmt.Sprintf("%s<-%s/%s", q.Server, strings.ToLower(q.QName), dns.TypeToString[q.QType]))
	}
	return strings.Join(p, " ")
}

func (w *rcWorld) describe(s rcScenario, ex rcExec, f *vkFound) string {
	var hits []string
	for _, h := range ex.hits {
		hits = append(hits, fmt.Sprintf("%s entered with rs.level=%d (zone has %d labels)", h.Zone, h.Level, dns.CountLabel(h.Zone)))
	}
	return fmt.Sprintf("%s: %s || scenario: %s || delivery order (%d): %s || delegation-table hits in processDelegation: [%s] || trap saw: %v || upstream log incl. the later probes: %s",
		f.step, f.v.Viol, s.id(), len(ex.order), strings.Join(ex.order, "  >  "), strings.Join(hits, "; "), ex.trapQ, rcLogStr(ex.log))
}

// confirm re-runs a violating delivery order 3 times from a cold state; all three must show the class.
func (w *rcWorld) confirm(s rcScenario, order []string, class string) (int, rcExec) {
	n := 0
	var last rcExec
	for i := 0; i < 3; i++ {
		ex := w.run(s, nil, order, false)
		if ex.err == "" && ex.has(class) != nil {
			n++
			last = ex
		}
	}
	return n, last
}

// ---------------------------------------------------------------- test

func rcScenarios(thorough bool) []rcScenario {
	var out []rcScenario
	cl := func(n rcNames, names ...string) []vkProbe {
		var p []vkProbe
		for _, x := range names {
			p = append(p, vkProbe{Name: x, Type: dns.TypeA})
		}
		return p
	}
	for _, fam := range []string{"shallow", "deep"} {
		n := rcNamesOf(fam)
		pair := cl(n, "a."+n.evil, "b."+n.sub)
		for _, variant := range []string{"glued", "provisional"} {
			for _, cfg := range []vkCfg{{QMin: 0}, {QMin: 5}} {
				for _, pre := range []string{"warm-base", "cold"} {
					out = append(out, rcScenario{Fam: fam, Variant: variant, Cfg: cfg, Pre: pre, Clients: pair})
				}
			}
		}
	}
	if thorough {
		for _, fam := range []string{"shallow", "deep"} {
			n := rcNamesOf(fam)
			for _, variant := range []string{"glued", "provisional"} {
				for _, cfg := range []vkCfg{{QMin: 0}, {QMin: 5}} {
					// three clients: a publisher, a sub-zone query, and a second one of either kind
					out = append(out, rcScenario{Fam: fam, Variant: variant, Cfg: cfg, Pre: "warm-base", Clients: cl(n, "a."+n.evil, "b."+n.sub, "c."+n.evil)})
					out = append(out, rcScenario{Fam: fam, Variant: variant, Cfg: cfg, Pre: "warm-base", Clients: cl(n, "a."+n.evil, "b."+n.sub, "d."+n.sub)})
				}
			}
			// two sub-zone queries racing each other, and the pair under validation
			out = append(out, rcScenario{Fam: fam, Variant: "glued", Cfg: vkCfg{QMin: 0}, Pre: "warm-base", Clients: cl(n, "b."+n.sub, "d."+n.sub)})
			out = append(out, rcScenario{Fam: fam, Variant: "glued", Cfg: vkCfg{DNSSEC: true, QMin: 0}, Pre: "warm-base", Clients: cl(n, "a."+n.evil, "b."+n.sub)})
			out = append(out, rcScenario{Fam: fam, Variant: "glued", Cfg: vkCfg{DNSSEC: true, QMin: 5}, Pre: "warm-base", Clients: cl(n, "a."+n.evil, "b."+n.sub)})
		}
	}
	return out
}

func TestVerifC07Race(t *testing.T) {
	c := vkit.Init("C07/race")
	defer c.Close()
	resolver.VerifC07SetRaceHooks(rcG.hooks())

	if c.Replay != nil {
		var s rcScenario
		if err := json.Unmarshal(c.Replay, &s); err != nil {
			c.HarnessError("bad replay: " + err.Error())
			return
		}
		w, err := rcGetWorld(c, s.Fam, s.Variant, s.Cfg)
		if err != nil {
			c.HarnessError(err.Error())
			return
		}
		ex := w.run(s, nil, s.Order, false)
		if ex.err != "" {
			c.HarnessError(ex.err)
			return
		}
		for i := range ex.found {
			c.Violation(rcKey(s, ex.found[i].v.Class), w.describe(s, ex, &ex.found[i]), s)
		}
		return
	}

	capped := false
	stop := func() bool {
		if !capped && c.OverBudget() {
			capped = true
		}
		return capped
	}
	const splitDepth = 2
	type best struct {
		s  rcScenario
		ex rcExec
	}
	for _, s := range rcScenarios(c.Thorough()) {
		if stop() {
			break
		}
		w, err := rcGetWorld(c, s.Fam, s.Variant, s.Cfg)
		if err != nil {
			c.HarnessError(err.Error())
			return
		}
		worst := map[string]*best{}
		nhit := 0
		tree := &rcTree{w: w, s: s}
		own := func(first []string) bool { return c.Mine(int(vkit.Hash(s.id()+"|"+rcPrefixKey(first)) % 1000003)) }
		err = tree.explore(splitDepth, own, stop, func(ex rcExec, mine bool) {
			if !mine {
				return
			}
			c.Add("traces", 1)
			c.Add("executions", 1)
			c.Max("max_deliveries", int64(len(ex.order)))
			c.Add("settled_by_stability", int64(ex.stab))
			ord := s.id() + "|" + strings.Join(ex.order, ">")
			c.DistinctStr("orders", ord)
			c.DistinctStr("states", ord)
			hit, shallow := ex.hitKinds()
			if hit {
				nhit++
				c.Add("executions_table_hit_in_processDelegation", 1)
				c.DistinctStr("nontrivial", ord)
			}
			if shallow {
				c.Add("executions_table_hit_after_label_jump", 1)
			}
			c.Outcome(fmt.Sprintf("%s %s %s: %s", s.Fam, s.Variant, s.Cfg, ex.outcome))
			if len(ex.found) > 0 {
				c.Add("executions_violating", 1)
			}
			for i := range ex.found {
				k := rcKey(s, ex.found[i].v.Class)
				if b := worst[k]; b == nil || len(ex.order) < len(b.ex.order) {
					worst[k] = &best{s: s, ex: ex}
				}
			}
			if hit && nhit == 1 && s.Pre == "warm-base" && s.Cfg.QMin == 0 && len(s.Clients) == 2 {
				c.Sample(map[string]any{"scenario": s.id(), "delivery_order": ex.order, "table_hits": ex.hits, "outcome": ex.outcome, "upstream_log": rcLogStr(ex.log), "trap": ex.trapQ})
			}
		})
		if err != nil {
			c.HarnessError(err.Error())
			return
		}
		var keys []string
		for k := range worst {
			keys = append(keys, k)
		}
		sort.Strings(keys)
		for _, k := range keys {
			b := worst[k]
			class := strings.Split(k, "|")[1]
			n, ex := w.confirm(s, b.ex.order, class)
			if n < 3 {
				c.Add("dropped_unreproducible", 1)
				c.Note(fmt.Sprintf("dropped (reproduced %d/3): %s order %v", n, k, b.ex.order))
				continue
			}
			rs := s
			rs.Order = b.ex.order
			c.Violation(k, w.describe(s, ex, ex.has(class)), rs)
		}
	}
	if capped {
		c.Cap("time budget reached before every delivery order was explored")
	}
}
