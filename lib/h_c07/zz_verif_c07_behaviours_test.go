//go:build verif

package h_c07

// Attacker behaviours: each rewrites the honest response of one exchange with
// an attacker-controlled server (message behaviours, through authsim's scripted
// transformers) or puts forged datagrams on the wire before the real response
// (datagram behaviours, through the proxy in front of the attacker's socket).

import (
	"strings"

	"github.com/miekg/dns"
	"github.com/semihalev/sdns/internal/verifshim/zonemodel"
)

// vkBCtx describes the exchange a behaviour is applied to.
type vkBCtx struct {
	q     dns.Question
	zone  string // attacker zone answering this exchange (z.t. or s.z.t.)
	sub   string // child of zone on the path to qname ("" when qname is the apex)
	evil  string // in-bailiwick attacker host "evil.<zone>"
	zaddr string // the TEST-NET address of this attacker server (a legitimate glue address)
	local string // a local-interface IPv4 address ("" if the host has none)
}

func (c *vkBCtx) first() string { // first label of qname
	l := dns.SplitDomainName(c.q.Name)
	if len(l) == 0 {
		return "root"
	}
	return strings.ToLower(l[0])
}

type vkBehaviour struct {
	Name string
	Tier int // 0 quick+thorough, 1 thorough
	// Fn rewrites m (a private copy of the honest response); false = not applicable here.
	Fn func(c *vkBCtx, m *dns.Msg) bool
	// Pre (datagram behaviours) returns the forged datagrams sent before the real response.
	Pre func(c *vkBCtx, req *dns.Msg) [][]byte
	// Extra victim probes this behaviour calls for.
	Probes func(c *vkBCtx) []vkProbe
	// Observe: the trap listener being contacted is recorded, not judged (address class outside the property text).
	Observe bool
}

func vkSubOf(zone, qname string) string {
	zone, qname = zonemodel.Canon(zone), zonemodel.Canon(qname)
	if !dns.IsSubDomain(zone, qname) || zone == qname {
		return ""
	}
	ql := dns.SplitDomainName(qname)
	n := dns.CountLabel(zone) + 1
	return zonemodel.Canon(strings.Join(ql[len(ql)-n:], "."))
}

func vkHasSOA(rrs []dns.RR) bool {
	for _, rr := range rrs {
		if rr.Header().Rrtype == dns.TypeSOA {
			return true
		}
	}
	return false
}

// vkBase makes m an authoritative answer-shaped response for the question (it
// already is one unless the honest response was a referral).
func vkBase(c *vkBCtx, m *dns.Msg) {
	if len(m.Answer) == 0 && !vkHasSOA(m.Ns) {
		m.Ns, m.Extra = nil, nil
		m.Rcode = dns.RcodeSuccess
		switch c.q.Qtype {
		case dns.TypeA:
			m.Answer = []dns.RR{vkRR(c.q.Name + " 300 IN A 10.9.9.9")}
		case dns.TypeNS:
			m.Answer = []dns.RR{vkRR(c.q.Name + " 300 IN NS ns." + c.zone)}
		default:
			m.Ns = []dns.RR{vkRR(c.zone + " 300 IN SOA ns." + c.zone + " hostmaster." + c.zone + " 1 3600 600 86400 300")}
		}
	}
	m.Authoritative = true
}

func vkRef(m *dns.Msg, ns []dns.RR, extra []dns.RR) {
	m.Answer = nil
	m.Ns = ns
	m.Extra = extra
	m.Authoritative = false
	m.Rcode = dns.RcodeSuccess
}

func vkA(name, addr string) dns.RR   { return vkRR(name + " 300 IN A " + addr) }
func vkNS(owner, host string) dns.RR { return vkRR(owner + " 300 IN NS " + host) }
func vkEvilGlue(c *vkBCtx) []dns.RR  { return []dns.RR{vkA(c.evil, vkPoisonA)} }

func vkAnswerB(name string, tier int, f func(c *vkBCtx, m *dns.Msg)) vkBehaviour {
	return vkBehaviour{Name: name, Tier: tier, Fn: func(c *vkBCtx, m *dns.Msg) bool { vkBase(c, m); f(c, m); return true }}
}

// vkValidRef: a referral that IS legitimate in shape (child of the asked zone, on the path to qname).
func vkValidRefB(name string, tier int, f func(c *vkBCtx, nsHost string) (ns []dns.RR, extra []dns.RR)) vkBehaviour {
	return vkBehaviour{Name: name, Tier: tier, Fn: func(c *vkBCtx, m *dns.Msg) bool {
		if c.sub == "" {
			return false
		}
		ns, extra := f(c, "ns."+c.sub)
		vkRef(m, ns, extra)
		return true
	}}
}

func vkRefB(name string, tier int, f func(c *vkBCtx) (ns []dns.RR, extra []dns.RR, ok bool)) vkBehaviour {
	return vkBehaviour{Name: name, Tier: tier, Fn: func(c *vkBCtx, m *dns.Msg) bool {
		ns, extra, ok := f(c)
		if !ok {
			return false
		}
		vkRef(m, ns, extra)
		return true
	}}
}

func vkPack(m *dns.Msg) []byte {
	b, err := m.Pack()
	if err != nil {
		panic("h_c07: pack forged datagram: " + err.Error())
	}
	return b
}

// vkForged: a response to req carrying the poison answer for its question.
func vkForged(req *dns.Msg) *dns.Msg {
	m := new(dns.Msg)
	m.SetReply(req)
	m.Authoritative = true
	q := req.Question[0]
	m.Answer = []dns.RR{vkA(q.Name, vkPoisonA)}
	return m
}

func vkBehaviours() []vkBehaviour {
	poisonWWW := func() dns.RR { return vkA("www.v.t.", vkPoisonA) }
	b := []vkBehaviour{
		// ---- answer section carries records owned outside the zone
		vkAnswerB("ans-extra-victim-a", 0, func(c *vkBCtx, m *dns.Msg) { m.Answer = append(m.Answer, poisonWWW()) }),
		vkAnswerB("ans-victim-a-first", 0, func(c *vkBCtx, m *dns.Msg) { m.Answer = append([]dns.RR{poisonWWW()}, m.Answer...) }),
		{Name: "ans-only-victim-a", Fn: func(c *vkBCtx, m *dns.Msg) bool {
			m.Answer, m.Ns, m.Extra = []dns.RR{poisonWWW()}, nil, nil
			m.Authoritative, m.Rcode = true, dns.RcodeSuccess
			return true
		}},
		vkAnswerB("ans-extra-victim-ns", 0, func(c *vkBCtx, m *dns.Msg) {
			m.Answer = append(m.Answer, vkNS("v.t.", c.evil))
			m.Extra = append(m.Extra, vkEvilGlue(c)...)
		}),
		vkAnswerB("ans-extra-victim-dname", 0, func(c *vkBCtx, m *dns.Msg) {
			m.Answer = append(m.Answer, vkRR("v.t. 300 IN DNAME "+c.zone))
		}),
		// ---- an answer record of ANOTHER CLASS (CH) for the IN question: "a reply must match the outstanding query's …
		// question" — its class included; such a record answers another question
		{Name: "ans-wrong-class", Fn: func(c *vkBCtx, m *dns.Msg) bool {
			if c.q.Qtype != dns.TypeA {
				return false
			}
			rr := &dns.A{Hdr: dns.RR_Header{Name: c.q.Name, Rrtype: dns.TypeA, Class: dns.ClassCHAOS, Ttl: 300}, A: vkA(c.q.Name, vkPoisonA).(*dns.A).A}
			m.Answer, m.Ns, m.Extra = []dns.RR{rr}, nil, nil
			m.Authoritative, m.Rcode = true, dns.RcodeSuccess
			return true
		}},
		// ---- a NOERROR response without answer whose authority section holds neither SOA, CNAME nor NS (a lone TXT; an
		// empty non-terminal's NSEC records look the same): on a MINIMISED question it says nothing about the client's question
		{Name: "auth-junk-only", Fn: func(c *vkBCtx, m *dns.Msg) bool {
			m.Answer, m.Extra = nil, nil
			m.Ns = []dns.RR{vkRR(c.q.Name + " 300 IN TXT \"junk\"")}
			m.Authoritative, m.Rcode = true, dns.RcodeSuccess
			return true
		}},
		// ---- authority section: NS sets for zones the sender has no authority over
		vkAnswerB("auth-victim-ns", 0, func(c *vkBCtx, m *dns.Msg) {
			m.Ns = append(m.Ns, vkNS("v.t.", c.evil))
			m.Extra = append(m.Extra, vkEvilGlue(c)...)
		}),
		vkAnswerB("auth-victim-ns-own-host", 0, func(c *vkBCtx, m *dns.Msg) {
			m.Ns = append(m.Ns, vkNS("v.t.", "ns.v.t."))
			m.Extra = append(m.Extra, vkA("ns.v.t.", vkPoisonA))
		}),
		vkAnswerB("auth-tld-ns", 0, func(c *vkBCtx, m *dns.Msg) {
			m.Ns = append(m.Ns, vkNS("t.", c.evil))
			m.Extra = append(m.Extra, vkEvilGlue(c)...)
		}),
		vkAnswerB("auth-root-ns", 0, func(c *vkBCtx, m *dns.Msg) {
			m.Ns = append(m.Ns, vkNS(".", c.evil))
			m.Extra = append(m.Extra, vkEvilGlue(c)...)
		}),
		vkAnswerB("auth-sibling-ns", 1, func(c *vkBCtx, m *dns.Msg) {
			m.Ns = append(m.Ns, vkNS("w.t.", c.evil))
			m.Extra = append(m.Extra, vkEvilGlue(c)...)
		}),
		// ---- additional section: addresses for hosts outside the zone
		vkAnswerB("extra-victim-a", 0, func(c *vkBCtx, m *dns.Msg) {
			m.Extra = append(m.Extra, poisonWWW(), vkA("ns.v.t.", vkPoisonA), vkA("mail.v.t.", vkPoisonA), vkA("ns.t.", vkPoisonA))
		}),
		// ---- alias chains continued with out-of-zone targets in the same message
		{Name: "cname-poison", Fn: func(c *vkBCtx, m *dns.Msg) bool {
			if c.q.Qtype == dns.TypeCNAME {
				return false
			}
			m.Answer = []dns.RR{vkRR(c.q.Name + " 300 IN CNAME www.v.t."), poisonWWW()}
			m.Ns, m.Extra, m.Authoritative, m.Rcode = nil, nil, true, dns.RcodeSuccess
			return true
		}},
		{Name: "cname2-poison", Fn: func(c *vkBCtx, m *dns.Msg) bool {
			if c.q.Qtype == dns.TypeCNAME {
				return false
			}
			hop := "hop." + c.zone
			m.Answer = []dns.RR{vkRR(c.q.Name + " 300 IN CNAME " + hop), vkRR(hop + " 300 IN CNAME www.v.t."), poisonWWW()}
			m.Ns, m.Extra, m.Authoritative, m.Rcode = nil, nil, true, dns.RcodeSuccess
			return true
		}},
		{Name: "cname-poison-auth", Fn: func(c *vkBCtx, m *dns.Msg) bool {
			if c.q.Qtype == dns.TypeCNAME {
				return false
			}
			m.Answer = []dns.RR{vkRR(c.q.Name + " 300 IN CNAME www.v.t."), poisonWWW()}
			m.Ns = []dns.RR{vkNS("v.t.", c.evil)}
			m.Extra = vkEvilGlue(c)
			m.Authoritative, m.Rcode = true, dns.RcodeSuccess
			return true
		}},
		{Name: "dname-poison", Fn: func(c *vkBCtx, m *dns.Msg) bool {
			qn := zonemodel.Canon(c.q.Name)
			if c.q.Qtype == dns.TypeCNAME || qn == c.zone {
				return false
			}
			off, _ := dns.NextLabel(qn, 0)
			parent := qn[off:]
			tgt := c.first() + ".v.t."
			m.Answer = []dns.RR{vkRR(parent + " 300 IN DNAME v.t."), vkRR(c.q.Name + " 300 IN CNAME " + tgt), vkA(tgt, vkPoisonA)}
			m.Ns, m.Extra, m.Authoritative, m.Rcode = nil, nil, true, dns.RcodeSuccess
			return true
		}, Probes: func(c *vkBCtx) []vkProbe { return []vkProbe{{Name: c.first() + ".v.t.", Type: dns.TypeA}} }},

		// a DNAME owned by an ANCESTOR of the sender's zone (its TLD, the root): the sender cannot speak
		// for it, yet it is "an ancestor of the query name" — the redirect it announces must not be
		// followed or relayed
		{Name: "dname-ancestor-tld", Fn: func(c *vkBCtx, m *dns.Msg) bool {
			qn := zonemodel.Canon(c.q.Name)
			if c.q.Qtype == dns.TypeCNAME || c.q.Qtype == dns.TypeDNAME || !strings.HasSuffix(qn, ".t.") {
				return false
			}
			tgt := strings.TrimSuffix(qn, "t.") + "v.t."
			m.Answer = []dns.RR{vkRR("t. 300 IN DNAME v.t."), vkRR(c.q.Name + " 300 IN CNAME " + tgt)}
			m.Ns, m.Extra, m.Authoritative, m.Rcode = nil, nil, true, dns.RcodeSuccess
			return true
		}},
		{Name: "dname-ancestor-root", Fn: func(c *vkBCtx, m *dns.Msg) bool {
			qn := zonemodel.Canon(c.q.Name)
			if c.q.Qtype == dns.TypeCNAME || c.q.Qtype == dns.TypeDNAME {
				return false
			}
			tgt := qn + "v.t."
			m.Answer = []dns.RR{vkRR(". 300 IN DNAME v.t."), vkRR(c.q.Name + " 300 IN CNAME " + tgt)}
			m.Ns, m.Extra, m.Authoritative, m.Rcode = nil, nil, true, dns.RcodeSuccess
			return true
		}},
		vkAnswerB("ans-extra-ancestor-dname", 0, func(c *vkBCtx, m *dns.Msg) {
			m.Answer = append(m.Answer, vkRR("t. 300 IN DNAME "+c.zone))
		}),

		// ---- referrals the sender has no business sending
		vkRefB("ref-self", 0, func(c *vkBCtx) ([]dns.RR, []dns.RR, bool) {
			return []dns.RR{vkNS(c.zone, c.evil)}, vkEvilGlue(c), true
		}),
		// the same, with the zone's own name spelled in another letter case (names compare case-insensitively)
		vkRefB("ref-self-othercase", 0, func(c *vkBCtx) ([]dns.RR, []dns.RR, bool) {
			up := strings.ToUpper(c.zone)
			if up == c.zone {
				return nil, nil, false
			}
			return []dns.RR{vkNS(up, c.evil)}, vkEvilGlue(c), true
		}),
		vkRefB("ref-up-tld", 0, func(c *vkBCtx) ([]dns.RR, []dns.RR, bool) {
			return []dns.RR{vkNS("t.", c.evil)}, vkEvilGlue(c), true
		}),
		vkRefB("ref-up-root", 0, func(c *vkBCtx) ([]dns.RR, []dns.RR, bool) {
			return []dns.RR{vkNS(".", c.evil)}, vkEvilGlue(c), true
		}),
		vkRefB("ref-up-parent", 0, func(c *vkBCtx) ([]dns.RR, []dns.RR, bool) {
			if c.zone == vkAttZone {
				return nil, nil, false // same as ref-up-tld there
			}
			return []dns.RR{vkNS(vkAttZone, c.evil)}, vkEvilGlue(c), true
		}),
		vkRefB("ref-side-victim", 0, func(c *vkBCtx) ([]dns.RR, []dns.RR, bool) {
			return []dns.RR{vkNS("v.t.", c.evil)}, vkEvilGlue(c), true
		}),
		vkRefB("ref-side-victim-own-host", 0, func(c *vkBCtx) ([]dns.RR, []dns.RR, bool) {
			return []dns.RR{vkNS("v.t.", "ns.v.t.")}, []dns.RR{vkA("ns.v.t.", vkPoisonA)}, true
		}),
		vkRefB("ref-side-sibling", 1, func(c *vkBCtx) ([]dns.RR, []dns.RR, bool) {
			return []dns.RR{vkNS("w.t.", c.evil)}, vkEvilGlue(c), true
		}),
		vkRefB("ref-offpath", 0, func(c *vkBCtx) ([]dns.RR, []dns.RR, bool) {
			o := "offpath." + c.zone
			return []dns.RR{vkNS(o, "ns."+o)}, []dns.RR{vkA("ns."+o, vkPoisonA)}, true
		}),
		vkRefB("ref-below-qname", 0, func(c *vkBCtx) ([]dns.RR, []dns.RR, bool) {
			o := "below." + zonemodel.Canon(c.q.Name)
			return []dns.RR{vkNS(o, "ns."+o)}, []dns.RR{vkA("ns."+o, vkPoisonA)}, true
		}),
		vkValidRefB("ref-mixed-owner", 0, func(c *vkBCtx, h string) ([]dns.RR, []dns.RR) {
			return []dns.RR{vkNS(c.sub, h), vkNS("v.t.", c.evil)}, []dns.RR{vkA(h, c.zaddr), vkA(c.evil, vkPoisonA)}
		}),
		vkValidRefB("ref-mixed-owner-rev", 0, func(c *vkBCtx, h string) ([]dns.RR, []dns.RR) {
			return []dns.RR{vkNS("v.t.", c.evil), vkNS(c.sub, h)}, []dns.RR{vkA(h, c.zaddr), vkA(c.evil, vkPoisonA)}
		}),
		// the stray record in the MIDDLE of the set (a check that looks at the first or the last record only passes it)
		vkValidRefB("ref-mixed-owner-mid", 0, func(c *vkBCtx, h string) ([]dns.RR, []dns.RR) {
			return []dns.RR{vkNS(c.sub, h), vkNS("v.t.", c.evil), vkNS(c.sub, "ns2."+c.sub)}, []dns.RR{vkA(h, c.zaddr), vkA(c.evil, vkPoisonA), vkA("ns2."+c.sub, c.zaddr)}
		}),
		vkValidRefB("ref-mixed-class-mid", 0, func(c *vkBCtx, h string) ([]dns.RR, []dns.RR) {
			ch := vkNS(c.sub, c.evil)
			ch.Header().Class = dns.ClassCHAOS
			return []dns.RR{vkNS(c.sub, h), ch, vkNS(c.sub, "ns2."+c.sub)}, []dns.RR{vkA(h, c.zaddr), vkA(c.evil, vkPoisonA), vkA("ns2."+c.sub, c.zaddr)}
		}),
		vkValidRefB("ref-mixed-owner-sibling-zone", 1, func(c *vkBCtx, h string) ([]dns.RR, []dns.RR) {
			// two owners, both below the asked zone: one on the path, one not
			o := "offpath." + c.zone
			return []dns.RR{vkNS(c.sub, h), vkNS(o, c.evil)}, []dns.RR{vkA(h, c.zaddr), vkA(c.evil, vkPoisonA)}
		}),
		vkValidRefB("ref-wrong-class", 0, func(c *vkBCtx, h string) ([]dns.RR, []dns.RR) {
			ns := vkNS(c.sub, h)
			ns.Header().Class = dns.ClassCHAOS
			return []dns.RR{ns}, []dns.RR{vkA(h, vkPoisonA)}
		}),
		// ---- legitimate referral shape, illegitimate glue
		vkValidRefB("glue-loopback", 0, func(c *vkBCtx, h string) ([]dns.RR, []dns.RR) {
			return []dns.RR{vkNS(c.sub, h)}, []dns.RR{vkA(h, vkLoopback)}
		}),
		vkValidRefB("glue-loopback-other", 0, func(c *vkBCtx, h string) ([]dns.RR, []dns.RR) {
			return []dns.RR{vkNS(c.sub, h)}, []dns.RR{vkA(h, "127.0.0.53")}
		}),
		vkValidRefB("glue-loopback6", 1, func(c *vkBCtx, h string) ([]dns.RR, []dns.RR) {
			return []dns.RR{vkNS(c.sub, h)}, []dns.RR{vkRR(h + " 300 IN AAAA ::1"), vkRR(h + " 300 IN AAAA ::ffff:127.0.0.1")}
		}),
		// the unspecified address: a datagram or connection to 0.0.0.0 / :: is delivered to the sending host itself
		vkValidRefB("glue-unspecified", 0, func(c *vkBCtx, h string) ([]dns.RR, []dns.RR) {
			return []dns.RR{vkNS(c.sub, h)}, []dns.RR{vkA(h, "0.0.0.0")}
		}),
		vkValidRefB("glue-unspecified6", 1, func(c *vkBCtx, h string) ([]dns.RR, []dns.RR) {
			return []dns.RR{vkNS(c.sub, h)}, []dns.RR{vkRR(h + " 300 IN AAAA ::"), vkRR(h + " 300 IN AAAA ::ffff:0.0.0.0")}
		}),
		{Name: "glue-local-interface", Fn: func(c *vkBCtx, m *dns.Msg) bool {
			if c.sub == "" || c.local == "" {
				return false
			}
			h := "ns." + c.sub
			vkRef(m, []dns.RR{vkNS(c.sub, h)}, []dns.RR{vkA(h, c.local)})
			return true
		}},
		vkValidRefB("glue-mixed-loopback", 0, func(c *vkBCtx, h string) ([]dns.RR, []dns.RR) {
			return []dns.RR{vkNS(c.sub, h)}, []dns.RR{vkA(h, vkLoopback), vkA(h, c.zaddr)}
		}),
		vkValidRefB("glue-other-name", 0, func(c *vkBCtx, h string) ([]dns.RR, []dns.RR) {
			// NS host inside the zone, glue for a different name inside the zone
			return []dns.RR{vkNS(c.sub, h)}, []dns.RR{vkA("other."+c.sub, vkPoisonA)}
		}),
		vkValidRefB("glue-victim-host", 0, func(c *vkBCtx, h string) ([]dns.RR, []dns.RR) {
			return []dns.RR{vkNS(c.sub, "ns.v.t.")}, []dns.RR{vkA("ns.v.t.", vkPoisonA)}
		}),
		vkValidRefB("glue-sibling-host", 0, func(c *vkBCtx, h string) ([]dns.RR, []dns.RR) {
			return []dns.RR{vkNS(c.sub, "ns.w.t.")}, []dns.RR{vkA("ns.w.t.", vkPoisonA)}
		}),
		vkValidRefB("glue-tld-host", 0, func(c *vkBCtx, h string) ([]dns.RR, []dns.RR) {
			return []dns.RR{vkNS(c.sub, "ns.t.")}, []dns.RR{vkA("ns.t.", vkPoisonA)}
		}),
		// names that END WITH the delegating zone's text but are not inside it (no label boundary):
		// "nsz.t." vs zone "z.t.", and a one-label-deeper variant
		vkValidRefB("glue-lookalike-suffix", 0, func(c *vkBCtx, h string) ([]dns.RR, []dns.RR) {
			look := "ns" + c.zone // e.g. zone z.t. -> nsz.t. (owned by the TLD, not by z.t.)
			return []dns.RR{vkNS(c.sub, look)}, []dns.RR{vkA(look, vkPoisonA)}
		}),
		vkValidRefB("glue-lookalike-suffix-deep", 0, func(c *vkBCtx, h string) ([]dns.RR, []dns.RR) {
			look := "ns.x" + c.zone // ns.xz.t.
			return []dns.RR{vkNS(c.sub, look)}, []dns.RR{vkA(look, vkPoisonA)}
		}),
		vkValidRefB("glue-two-ns-one-foreign", 1, func(c *vkBCtx, h string) ([]dns.RR, []dns.RR) {
			return []dns.RR{vkNS(c.sub, h), vkNS(c.sub, "ns.v.t.")}, []dns.RR{vkA(h, c.zaddr), vkA("ns.v.t.", vkPoisonA)}
		}),
		{Name: "glue-unspecified", Observe: true, Fn: func(c *vkBCtx, m *dns.Msg) bool {
			if c.sub == "" {
				return false
			}
			h := "ns." + c.sub
			vkRef(m, []dns.RR{vkNS(c.sub, h)}, []dns.RR{vkA(h, vkUnspec)})
			return true
		}},

		// ---- datagram level: forged datagrams BEFORE the real response
		{Name: "dg-wrong-id", Pre: func(c *vkBCtx, req *dns.Msg) [][]byte {
			m := vkForged(req)
			m.Id ^= 0x5a5a
			return [][]byte{vkPack(m)}
		}},
		{Name: "dg-wrong-id-x2", Pre: func(c *vkBCtx, req *dns.Msg) [][]byte {
			m := vkForged(req)
			m.Id ^= 0x5a5a
			m2 := vkForged(req)
			m2.Id++
			return [][]byte{vkPack(m), vkPack(m2)}
		}},
		{Name: "dg-wrong-question-name", Pre: func(c *vkBCtx, req *dns.Msg) [][]byte {
			m := vkForged(req)
			m.Question[0].Name = "www.v.t."
			m.Answer = []dns.RR{vkA("www.v.t.", vkPoisonA)}
			return [][]byte{vkPack(m)}
		}},
		{Name: "dg-wrong-question-type", Pre: func(c *vkBCtx, req *dns.Msg) [][]byte {
			m := vkForged(req)
			if m.Question[0].Qtype == dns.TypeTXT {
				m.Question[0].Qtype = dns.TypeA
			} else {
				m.Question[0].Qtype = dns.TypeTXT
			}
			return [][]byte{vkPack(m)}
		}},
		{Name: "dg-wrong-question-class", Pre: func(c *vkBCtx, req *dns.Msg) [][]byte {
			m := vkForged(req)
			m.Question[0].Qclass = dns.ClassCHAOS
			return [][]byte{vkPack(m)}
		}},
		{Name: "dg-no-question", Pre: func(c *vkBCtx, req *dns.Msg) [][]byte {
			m := vkForged(req)
			m.Question = nil
			return [][]byte{vkPack(m)}
		}},
		{Name: "dg-wrong-id-then-wrong-question", Tier: 1, Pre: func(c *vkBCtx, req *dns.Msg) [][]byte {
			m := vkForged(req)
			m.Id ^= 0x5a5a
			m2 := vkForged(req)
			m2.Question[0].Name = "www.v.t."
			m2.Answer = []dns.RR{vkA("www.v.t.", vkPoisonA)}
			return [][]byte{vkPack(m), vkPack(m2)}
		}},
		{Name: "dg-garbage", Tier: 1, Pre: func(c *vkBCtx, req *dns.Msg) [][]byte {
			return [][]byte{{0xde, 0xad, 0xbe, 0xef, 0, 1, 2}}
		}},
	}
	return b
}

func vkBehaviourByName(n string) *vkBehaviour {
	for _, b := range vkAllBehaviours {
		if b.Name == n {
			bb := b
			return &bb
		}
	}
	return nil
}

var vkAllBehaviours = vkBehaviours()
