//go:build verif

package h_c07

import (
	"fmt"
	"os"
	"strings"
	"testing"

	"github.com/semihalev/sdns/internal/verifshim/vkit"
)

// TestVerifC07Smoke is a manual aid:
//
//	VERIF_SMOKE=1                              untampered paths and probe replies per configuration
//	VERIF_DEBUG="x.s.z.t. 0 glue-victim-host"  one history (query, position, behaviour [, cfg dnssec|qmin, pre]) in full
func TestVerifC07Smoke(t *testing.T) {
	if os.Getenv("VERIF_SMOKE") == "" && os.Getenv("VERIF_DEBUG") == "" {
		t.Skip()
	}
	os.Unsetenv("VERIF_OUT")
	c := vkit.Init("C07/smoke")
	cfgs := []vkCfg{{}, {DNSSEC: true}, {QMin: 5}, {DNSSEC: true, QMin: 5}}
	if d := os.Getenv("VERIF_DEBUG"); d != "" {
		f := strings.Fields(d)
		cfg := vkCfg{}
		pre := "cold"
		for _, x := range f[3:] {
			switch x {
			case "dnssec":
				cfg.DNSSEC = true
			case "qmin":
				cfg.QMin = 5
			default:
				pre = x
			}
		}
		w, err := vkGetWorld(c, cfg)
		if err != nil {
			t.Fatal(err)
		}
		if err := w.baseline(); err != nil {
			t.Fatal(err)
		}
		var q vkProbe
		for _, a := range vkAttQueries {
			if a.Name == f[0] {
				q = a
			}
		}
		pos := 0
		fmt.Sscanf(f[1], "%d", &pos)
		s := vkScenario{Cfg: cfg, Pre: pre, Steps: []vkStep{{Q: q, Tampers: []vkTamper{{Pos: pos, B: f[2]}}}}}
		r := w.vkRunOnce(s)
		fmt.Println("history:", s)
		fmt.Println("fired:", r.fired, "elapsed:", r.elapsed, "disturbed:", r.disturbed)
		fmt.Println("outcomes:", r.outcomes)
		for _, f := range r.found {
			fmt.Println("VIOLATION:", f.v.Class, "|", f.step, "|", f.v.Viol)
		}
		fmt.Println("trap:", r.trap)
		fmt.Println("log:", vkLogStr(r.log))
		return
	}
	for _, cfg := range cfgs {
		w, err := vkGetWorld(c, cfg)
		if err != nil {
			t.Fatal(err)
		}
		fmt.Println("==", cfg, "handlers:", w.pl.HandlerNames())
		if err := w.baseline(); err != nil {
			fmt.Println("BASELINE:", err)
			continue
		}
		fmt.Println("origin:", w.origin)
		for _, pre := range []string{"cold", "warm-deleg", "warm-all"} {
			for _, q := range vkAttQueries {
				keys, err := w.path(pre, q)
				var ks []string
				for _, k := range keys {
					ks = append(ks, k.String())
				}
				fmt.Printf("%-10s %-14s att-exchanges=[%s] err=%v\n", pre, q, strings.Join(ks, " "), err)
				s := vkScenario{Cfg: cfg, Pre: pre, Steps: []vkStep{{Q: q}}}
				r := w.vkRunOnce(s)
				fmt.Printf("    outcomes=%v elapsed=%v\n    log: %s\n", r.outcomes, r.elapsed, vkLogStr(r.log))
			}
		}
	}
}
