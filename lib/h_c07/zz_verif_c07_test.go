//go:build verif

package h_c07

// C07 — authoritative data is trusted only inside the sender's bailiwick.
//
// Bounded-exhaustive exploration. For every attacker-zone query, every exchange
// the resolver has with an attacker-controlled server while resolving it
// (position), and every attacker behaviour, ONE history is run from a cold
// resolver + cache:
//
//	[optional warm-up of victim names] -> client asks the attacker-zone name, the
//	scripted server misbehaves at that position -> client asks every victim probe.
//
// Every client-visible reply and the upstream query log are judged against the
// zone model (who is authoritative for what).

import (
	"encoding/json"
	"fmt"
	"net"
	"sort"
	"strings"
	"testing"
	"time"

	"github.com/miekg/dns"
	"github.com/semihalev/sdns/internal/verifshim/authsim"
	"github.com/semihalev/sdns/internal/verifshim/h_resolver"
	"github.com/semihalev/sdns/internal/verifshim/vkit"
	"github.com/semihalev/sdns/internal/verifshim/zonemodel"
	"github.com/semihalev/sdns/middleware/resolver"
)

type vkProbe struct {
	Name string `json:"name"`
	Type uint16 `json:"type"`
}

func (p vkProbe) String() string { return p.Name + "/" + dns.TypeToString[p.Type] }

type vkCfg struct {
	DNSSEC bool `json:"dnssec"`
	QMin   int  `json:"qmin"`
}

func (c vkCfg) String() string {
	s := "dnssec-off"
	if c.DNSSEC {
		s = "dnssec-on"
	}
	if c.QMin > 0 {
		s += fmt.Sprintf("+qmin%d", c.QMin)
	}
	return s
}

type vkTamper struct {
	Pos int    `json:"pos"` // index among the exchanges with attacker servers of this step's untampered resolution
	B   string `json:"b"`
	TCP bool   `json:"tcp,omitempty"` // answer the UDP query TC=1 and deliver the tampered response over TCP
}

type vkStep struct {
	Q       vkProbe    `json:"q"`
	Tampers []vkTamper `json:"tampers,omitempty"`
}

// vkScenario is one replayable history.
type vkScenario struct {
	Cfg   vkCfg    `json:"cfg"`
	Pre   string   `json:"pre"` // cold | warm-deleg | warm-all
	Steps []vkStep `json:"steps"`
	Rev   bool     `json:"rev,omitempty"` // probe order reversed
}

func (s vkScenario) String() string {
	var st []string
	for _, x := range s.Steps {
		var t []string
		for _, tm := range x.Tampers {
			e := fmt.Sprintf("%s@%d", tm.B, tm.Pos)
			if tm.TCP {
				e += "/tcp"
			}
			t = append(t, e)
		}
		st = append(st, fmt.Sprintf("%s[%s]", x.Q, strings.Join(t, ",")))
	}
	r := ""
	if s.Rev {
		r = " rev"
	}
	return fmt.Sprintf("%s %s %s%s", s.Cfg, s.Pre, strings.Join(st, " -> "), r)
}

// Attacker-zone queries (each resolved through >= 1 exchange with an attacker server).
var vkAttQueries = []vkProbe{
	{"a.z.t.", dns.TypeA},      // plain answer: 1 attacker exchange
	{"x.s.z.t.", dns.TypeA},    // attacker referral then attacker answer: 2 attacker exchanges
	{"c.z.t.", dns.TypeA},      // legitimate cross-zone CNAME into the victim zone
	{"www.dn.z.t.", dns.TypeA}, // legitimate DNAME into the victim zone
	{"nx.z.t.", dns.TypeA},     // negative answer
}

// Further attacker-zone queries of the thorough tier (other question types).
var vkAttQueriesThorough = []vkProbe{
	{"z.t.", dns.TypeNS},      // apex NS RRset
	{"a.z.t.", dns.TypeAAAA},  // NODATA
	{"c.z.t.", dns.TypeCNAME}, // the alias itself
	{"x.s.z.t.", dns.TypeTXT}, // NODATA below the attacker's own referral
}

// Fixed victim probes, asked after the attack (g.t. first: its referral carries no glue, so the
// resolver's glue cache for ns.v.t. is consulted before any honest referral can refresh it).
var vkProbes = []vkProbe{
	{"www.g.t.", dns.TypeA},
	{"www.v.t.", dns.TypeA},
	{"v.t.", dns.TypeNS},
	{"ns.v.t.", dns.TypeA},
	{"mail.v.t.", dns.TypeA},
	{"www.w.t.", dns.TypeA},
	{"t.", dns.TypeNS},
	{".", dns.TypeNS},
	{"www.v.t.", dns.TypeAAAA}, // NODATA in the victim zone
	{"nx.v.t.", dns.TypeA},     // NXDOMAIN in the victim zone
	{vkDotName, dns.TypeA},     // a TLD name that textually ends in the attacker's zone (escaped dot in its first label)
}

var vkAttServers = map[string]bool{vkAttZone: true, vkAttChild: true}

type vkWorld struct {
	cfg         vkCfg
	u           *zonemodel.Universe
	sim         *authsim.Sim
	pl          *h_resolver.Pipeline
	trap        *vkTrap
	proxies     map[string]*vkProxy
	special     map[string]string
	local       string
	c           *vkit.Ctx
	paths       map[string][]authsim.Key // (pre|query) -> keys of the attacker exchanges of the untampered resolution
	origin      map[string]bool          // probes whose authority is asked directly in the untampered cold history
	lastLog     int
	lastScen    string
	reported    map[string]bool
	notedUnspec bool
}

var vkWorlds = map[vkCfg]*vkWorld{}

func vkGetWorld(c *vkit.Ctx, cfg vkCfg) (*vkWorld, error) {
	if w := vkWorlds[cfg]; w != nil {
		w.c = c
		return w, nil
	}
	u := vkUniverse()
	sim, err := authsim.Start(u)
	if err != nil {
		return nil, err
	}
	pl, err := h_resolver.New(sim, h_resolver.Options{DNSSECOff: !cfg.DNSSEC, QnameMinLevel: cfg.QMin})
	if err != nil {
		return nil, err
	}
	trap, err := vkStartTrap()
	if err != nil {
		return nil, err
	}
	w := &vkWorld{cfg: cfg, u: u, sim: sim, pl: pl, trap: trap, c: c, proxies: map[string]*vkProxy{}, special: map[string]string{},
		paths: map[string][]authsim.Key{}, local: vkLocalIP(), reported: map[string]bool{}}
	for _, a := range []string{vkPoisonA, vkLoopback, "127.0.0.53", vkUnspec, w.local} {
		if a != "" {
			w.special[net.JoinHostPort(a, "53")] = trap.addr
		}
	}
	w.special["[::1]:53"] = trap.addr
	for s := range vkAttServers {
		px, err := vkStartProxy(s, sim.Addr(s))
		if err != nil {
			return nil, err
		}
		w.proxies[s] = px
		for _, a := range u.Servers()[s].Addrs {
			w.special[net.JoinHostPort(a, "53")] = px.addr
		}
	}
	vkWorlds[cfg] = w
	return w, nil
}

func (w *vkWorld) remap(addr string) string {
	if t, ok := w.special[addr]; ok {
		return t
	}
	return w.sim.Remap(addr)
}

func (w *vkWorld) mark(what string) { w.lastLog, w.lastScen = w.sim.Count(""), what }

func (w *vkWorld) reset() {
	if n := w.sim.Count(""); w.lastScen != "" && n > w.lastLog {
		w.c.Add("straggler_histories", 1)
		w.c.Note(fmt.Sprintf("upstream traffic after the last reply of a history (%d late queries): %s", n-w.lastLog, w.lastScen))
	}
	w.lastScen = ""
	w.pl.Reset()
	resolver.VerifSetResolveTarget(w.pl.Resolver(), w.remap) // Reset may have rebuilt the pipeline
	w.trap.reset()
	for _, p := range w.proxies {
		p.reset()
	}
}

func (w *vkWorld) bctx(server, qname string, qtype uint16) *vkBCtx {
	zone := server // attacker servers are named after their zone
	return &vkBCtx{q: dns.Question{Name: qname, Qtype: qtype, Qclass: dns.ClassINET}, zone: zone, sub: vkSubOf(zone, qname),
		evil: "evil." + zone, zaddr: w.u.Zone(zone).NSAddr, local: w.local}
}

// ---------------------------------------------------------------- oracle

type vkSet struct {
	owner string
	rtype uint16
	rrs   []dns.RR
}

func vkGroup(rrs []dns.RR) []vkSet {
	var out []vkSet
	idx := map[string]int{}
	for _, rr := range rrs {
		h := rr.Header()
		if h.Rrtype == dns.TypeRRSIG || h.Rrtype == dns.TypeOPT {
			continue
		}
		k := fmt.Sprintf("%s|%d", strings.ToLower(h.Name), h.Rrtype)
		i, ok := idx[k]
		if !ok {
			i = len(out)
			idx[k] = i
			out = append(out, vkSet{owner: zonemodel.Canon(h.Name), rtype: h.Rrtype})
		}
		out[i].rrs = append(out[i].rrs, rr)
	}
	return out
}

func vkMsgStr(m *dns.Msg) string {
	if m == nil {
		return "<no reply>"
	}
	sec := func(rrs []dns.RR) string {
		var p []string
		for _, rr := range rrs {
			if t := rr.Header().Rrtype; t == dns.TypeRRSIG || t == dns.TypeOPT || t == dns.TypeNSEC {
				continue
			}
			p = append(p, strings.Join(strings.Fields(rr.String()), " "))
		}
		return strings.Join(p, " ; ")
	}
	s := fmt.Sprintf("%s answer{%s} authority{%s} additional{%s}", dns.RcodeToString[m.Rcode], sec(m.Answer), sec(m.Ns), sec(m.Extra))
	if len(s) > 600 {
		s = s[:600] + "..."
	}
	return s
}

// vkAttackerData: does this record carry the poison address or point into the attacker's zone?
func vkAttackerData(rr dns.RR) bool {
	switch v := rr.(type) {
	case *dns.A:
		return v.A.String() == vkPoisonA
	case *dns.NS:
		return vkInBailiwick(v.Ns)
	case *dns.CNAME:
		return vkInBailiwick(v.Target)
	case *dns.DNAME:
		return vkInBailiwick(v.Target)
	case *dns.SOA:
		return vkInBailiwick(v.Ns)
	}
	return false
}

type vkVerdict struct {
	Class   string // "" = holds
	Viol    string
	Outcome string
}

func (w *vkWorld) asked(log []authsim.Query, owner string, rtype uint16) bool {
	z := w.u.AuthZone(owner, rtype)
	if z == nil {
		return false
	}
	for _, q := range log {
		if q.Server == z.Server && zonemodel.Canon(q.QName) == owner && q.QType == rtype {
			return true
		}
	}
	return false
}

// vkOnChain: is owner reachable from qname by following the CNAMEs of the reply's own answer section?
func vkOnChain(qname string, sets []vkSet, owner string) bool {
	cur := zonemodel.Canon(qname)
	for hop := 0; hop < 16; hop++ {
		if cur == owner {
			return true
		}
		next := ""
		for _, s := range sets {
			if s.owner == cur && s.rtype == dns.TypeCNAME {
				next = zonemodel.Canon(s.rrs[0].(*dns.CNAME).Target)
			}
		}
		if next == "" {
			return false
		}
		cur = next
	}
	return false
}

// vkJudgeAttacker: the reply to the attacker-zone query. Its answer section may carry a record owned
// outside the attacker's bailiwick only when that RRset is what its own zone publishes AND the log
// shows the resolver asked that zone's server for it (an alias target it re-resolved itself).
// dg: this step put forged datagrams on the wire, whose payload is the poison address under the
// question's own name. again: this is the repeated (cache-served) ask at the end of the history.
func (w *vkWorld) vkJudgeAttacker(q vkProbe, r h_resolver.Reply, log []authsim.Query, dg, again bool) vkVerdict {
	if r.Msg == nil {
		return vkVerdict{Outcome: "att:no-reply"}
	}
	m := r.Msg
	sfx, what := "", "reply to "
	if again {
		sfx, what = "-when-asked-again", "reply to the repeated "
	}
	bad := func(class, f string, a ...any) vkVerdict {
		return vkVerdict{Class: class, Viol: fmt.Sprintf(f, a...) + " | " + what + q.String() + ": " + vkMsgStr(m), Outcome: "VIOLATION:" + class}
	}
	if len(m.Question) == 1 && !strings.EqualFold(zonemodel.Canon(m.Question[0].Name), zonemodel.Canon(q.Name)) {
		return bad("reply-for-another-question"+sfx, "the reply's question is %s, the client asked %s: an upstream reply to another (minimised) question was used as the answer", m.Question[0].Name, q.Name)
	}
	for _, rr := range m.Answer {
		if len(m.Question) == 1 && rr.Header().Class != m.Question[0].Qclass {
			return bad("foreign-class-in-answer"+sfx, "answer section carries a class %s record for the class %s question: %s", dns.ClassToString[rr.Header().Class], dns.ClassToString[m.Question[0].Qclass], strings.Join(strings.Fields(rr.String()), " "))
		}
	}
	foreign := 0
	sets := vkGroup(m.Answer)
	for _, s := range sets {
		if vkInBailiwick(s.owner) {
			for _, rr := range s.rrs {
				if a, ok := rr.(*dns.A); dg && ok && a.A.String() == vkPoisonA {
					return bad("forged-datagram-data-in-answer"+sfx, "answer carries %s, which only a datagram that did not match the outstanding query (ID / question) supplied", strings.Join(strings.Fields(rr.String()), " "))
				}
			}
			continue
		}
		foreign++
		shape := "rrset-off-the-answer-chain"
		if vkOnChain(q.Name, sets, s.owner) {
			shape = "alias-target-in-same-message"
		}
		want, _, found := w.u.AuthRRset(s.owner, s.rtype)
		if !found || zonemodel.SetKey(want) != zonemodel.SetKey(s.rrs) {
			return bad("foreign-record-in-answer"+sfx+"|"+shape, "answer section relays RRset %s/%s owned outside the bailiwick of the attacker's servers (%s) that is not what its own zone publishes (%s)",
				s.owner, dns.TypeToString[s.rtype], vkAttZone, zonemodel.SetKey(want))
		}
		if !w.asked(log, s.owner, s.rtype) {
			return bad("foreign-record-not-from-its-authority"+sfx, "answer section carries %s/%s (owned outside %s) although the log shows its own zone's server was never asked for it", s.owner, dns.TypeToString[s.rtype], vkAttZone)
		}
	}
	out := "att:" + dns.RcodeToString[m.Rcode]
	if foreign > 0 {
		out += "+alias-reresolved"
	}
	return vkVerdict{Outcome: out}
}

// vkJudgeProbe: a victim probe's reply equals the zone model's truth (SERVFAIL is never a bailiwick violation).
func (w *vkWorld) vkJudgeProbe(p vkProbe, r h_resolver.Reply) vkVerdict {
	if r.Msg == nil {
		return vkVerdict{Outcome: "probe:no-reply"}
	}
	m := r.Msg
	bad := func(class, f string, a ...any) vkVerdict {
		return vkVerdict{Class: class, Viol: fmt.Sprintf(f, a...) + " | reply to victim probe " + p.String() + ": " + vkMsgStr(m), Outcome: "VIOLATION:" + class}
	}
	for _, sec := range [][]dns.RR{m.Answer, m.Ns, m.Extra} {
		for _, rr := range sec {
			if vkAttackerData(rr) || (rr.Header().Rrtype != dns.TypeOPT && vkInBailiwick(rr.Header().Name)) {
				return bad("victim-reply-carries-attacker-data", "record %s was supplied by the attacker's servers", strings.Join(strings.Fields(rr.String()), " "))
			}
		}
	}
	if m.Rcode == dns.RcodeServerFailure {
		return vkVerdict{Outcome: "probe:servfail"}
	}
	t := w.u.Truth(p.Name, p.Type)
	got := map[string]string{}
	for _, s := range vkGroup(m.Answer) {
		got[fmt.Sprintf("%s|%d", s.owner, s.rtype)] = zonemodel.SetKey(s.rrs)
	}
	ok := m.Rcode == t.Rcode && len(got) == len(t.Answer)
	var want []string
	for _, ts := range t.Answer {
		want = append(want, zonemodel.SetKey(ts.RRs))
		if got[fmt.Sprintf("%s|%d", ts.Owner, ts.Type)] != zonemodel.SetKey(ts.RRs) {
			ok = false
		}
	}
	if !ok {
		return bad("victim-reply-differs-from-truth", "expected %s {%s}", dns.RcodeToString[t.Rcode], strings.Join(want, " ; "))
	}
	return vkVerdict{Outcome: "probe:truth"}
}

// ---------------------------------------------------------------- running

type vkFound struct {
	step string
	v    vkVerdict
}

type vkRunResult struct {
	found     []vkFound // every violation of the history (first per class)
	fired     []bool    // per tamper (flattened over steps)
	upstream  int
	disturbed bool
	elapsed   []string
	outcomes  []string
	attPaths  [][]authsim.Key // per step: attacker exchanges observed
	log       []authsim.Query
	trap      []string
	observed  bool // trap contacted by an observe-only behaviour
	broken    bool
}

func (r *vkRunResult) has(class string) *vkFound {
	for i := range r.found {
		if r.found[i].v.Class == class {
			return &r.found[i]
		}
	}
	return nil
}

func vkLogStr(log []authsim.Query) string {
	var s []string
	for _, q := range log {
		e := fmt.Sprintf("%s<-%s/%s", q.Server, strings.ToLower(q.QName), dns.TypeToString[q.QType])
		if q.Transport == "tcp" {
			e += "(tcp)"
		}
		if q.Changed {
			e += "*"
		}
		s = append(s, e)
	}
	r := strings.Join(s, " ")
	if len(r) > 900 {
		r = r[:900] + "..."
	}
	return r
}

func (w *vkWorld) warm(pre string) {
	switch pre {
	case "warm-deleg":
		w.pl.Ask("mail.v.t.", dns.TypeA, h_resolver.Flags{}, "tcp")
	case "warm-all":
		for _, p := range vkProbes {
			w.pl.Ask(p.Name, p.Type, h_resolver.Flags{}, "tcp")
		}
	}
}

// path returns the script keys of the exchanges with attacker servers in the untampered resolution
// of q (after the given warm-up), from a cold state.
func (w *vkWorld) path(pre string, q vkProbe) ([]authsim.Key, error) {
	id := pre + "|" + q.String()
	if p, ok := w.paths[id]; ok {
		return p, nil
	}
	var prev string
	for try := 0; try < 6; try++ {
		w.reset()
		w.warm(pre)
		n0 := len(w.sim.Log())
		r := w.pl.Ask(q.Name, q.Type, h_resolver.Flags{}, "tcp")
		w.c.Add("evaluations", 1)
		var keys []authsim.Key
		var ks []string
		for _, lq := range w.sim.Log()[n0:] {
			if vkAttServers[lq.Server] {
				keys = append(keys, lq.Key())
				ks = append(ks, lq.Key().String())
			}
		}
		cur := strings.Join(ks, " ")
		if r.Elapsed < 300*time.Millisecond && cur == prev && r.Msg != nil {
			if v := w.vkJudgeAttacker(q, r, w.sim.Log(), false, false); v.Class != "" {
				return nil, fmt.Errorf("untampered resolution of %s violates the oracle: %s", q, v.Viol)
			}
			if want := w.u.Truth(q.Name, q.Type); r.Msg.Rcode != want.Rcode {
				return nil, fmt.Errorf("untampered resolution of %s: rcode %s, model says %s", q, dns.RcodeToString[r.Msg.Rcode], dns.RcodeToString[want.Rcode])
			}
			w.paths[id] = keys
			w.c.Max("max_attacker_exchanges", int64(len(keys)))
			return keys, nil
		}
		prev = cur
	}
	return nil, fmt.Errorf("untampered resolution path of %s (%s, %s) is not repeatable", q, w.cfg, pre)
}

// baseline: the untampered history must satisfy the oracle, and tells which probes reach their authority directly.
func (w *vkWorld) baseline() error {
	if w.origin != nil {
		return nil
	}
	for try := 0; try < 4; try++ {
		w.reset()
		origin := map[string]bool{}
		ok := true
		slow := false
		for _, p := range vkProbes {
			r := w.pl.Ask(p.Name, p.Type, h_resolver.Flags{}, "tcp")
			w.c.Add("evaluations", 1)
			if r.Elapsed > 300*time.Millisecond {
				slow = true
			}
			v := w.vkJudgeProbe(p, r)
			if v.Class != "" || v.Outcome != "probe:truth" {
				if try == 3 {
					return fmt.Errorf("untampered probe %s (%s): %s %s | %s", p, w.cfg, v.Outcome, v.Viol, vkMsgStr(r.Msg))
				}
				ok = false
				break
			}
			origin[p.String()] = w.asked(w.sim.Log(), zonemodel.Canon(p.Name), p.Type)
		}
		if n := len(w.trap.queries()); n > 0 {
			return fmt.Errorf("trap contacted in the untampered history: %v", w.trap.queries())
		}
		if ok && !slow {
			w.origin = origin
			return nil
		}
	}
	return fmt.Errorf("untampered probe history not repeatable (%s)", w.cfg)
}

// vkRun executes one history; a run in which some ask took longer than any scripted behaviour can
// explain (nothing here is dropped or delayed, so only a lost loopback datagram or a starved
// process makes the resolver wait out its 400 ms upstream timeout) is discarded and repeated.
func (w *vkWorld) vkRun(s vkScenario) vkRunResult {
	for try := 0; ; try++ {
		r := w.vkRunOnce(s)
		if !r.disturbed {
			return r
		}
		if try == 3 {
			w.c.Add("disturbed_kept", 1)
			return r
		}
		w.c.Add("disturbed_reruns", 1)
	}
}

func (w *vkWorld) occBefore(k authsim.Key) int {
	n := 0
	for _, q := range w.sim.Log() {
		if q.Server == k.Server && zonemodel.Canon(q.QName) == zonemodel.Canon(k.QName) && q.QType == k.QType {
			n++
		}
	}
	return n
}

func (w *vkWorld) vkRunOnce(s vkScenario) vkRunResult {
	defer func() { w.mark(s.String()) }()

	// resolve positions first (path() resets the world)
	type planned struct {
		key authsim.Key
		b   *vkBehaviour
		tcp bool
	}
	plans := make([][]planned, len(s.Steps))
	res := vkRunResult{}
	for i, st := range s.Steps {
		if len(st.Tampers) == 0 {
			continue
		}
		keys, err := w.path(s.Pre, st.Q)
		if err != nil {
			w.c.HarnessError(err.Error())
			res.broken = true
			return res
		}
		for _, tm := range st.Tampers {
			b := vkBehaviourByName(tm.B)
			if b == nil || tm.Pos >= len(keys) {
				plans[i] = append(plans[i], planned{b: nil})
				continue
			}
			plans[i] = append(plans[i], planned{key: keys[tm.Pos], b: b, tcp: tm.TCP})
		}
	}

	w.reset()
	w.warm(s.Pre)
	observeOnly := true
	ask := func(q vkProbe) h_resolver.Reply {
		r := w.pl.Ask(q.Name, q.Type, h_resolver.Flags{}, "tcp")
		w.c.Add("evaluations", 1)
		res.upstream += r.Upstream
		res.elapsed = append(res.elapsed, r.Elapsed.Round(time.Millisecond).String())
		if r.Elapsed > 300*time.Millisecond {
			res.disturbed = true
		}
		return r
	}
	fail := func(step string, v vkVerdict) {
		if res.has(v.Class) == nil {
			res.found = append(res.found, vkFound{step: step, v: v})
		}
	}
	extra := []vkProbe{}
	dgStep := make([]bool, len(s.Steps))
	for i, st := range s.Steps {
		type armed struct {
			key authsim.Key
			dg  bool
			px  *vkProxy
		}
		var arms []armed
		type group struct {
			key authsim.Key
			tcp bool
			fns []*vkBehaviour
		}
		groups := map[string]*group{}
		var order []string
		for _, pn := range plans[i] {
			if pn.b == nil {
				arms = append(arms, armed{})
				continue
			}
			if !pn.b.Observe {
				observeOnly = false
			}
			k := pn.key
			k.Occ += w.occBefore(k)
			b := pn.b
			ctx := w.bctx(k.Server, k.QName, k.QType)
			if b.Probes != nil {
				extra = append(extra, b.Probes(ctx)...)
			}
			if b.Pre != nil {
				dgStep[i] = true
				px := w.proxies[k.Server]
				want := k
				px.setHook(func(req *dns.Msg, occ int) [][]byte {
					q := req.Question[0]
					if zonemodel.Canon(q.Name) != zonemodel.Canon(want.QName) || q.Qtype != want.QType || occ != want.Occ {
						return nil
					}
					return b.Pre(w.bctx(want.Server, q.Name, q.Qtype), req)
				})
				arms = append(arms, armed{key: k, dg: true, px: px})
				continue
			}
			// message behaviours aimed at the same exchange are composed in order into one response
			ks := k.String()
			grp := groups[ks]
			if grp == nil {
				grp = &group{key: k, tcp: pn.tcp}
				groups[ks] = grp
				order = append(order, ks)
			}
			grp.fns = append(grp.fns, b)
			ak := k
			if grp.tcp {
				ak.Occ++
			}
			arms = append(arms, armed{key: ak})
		}
		for _, ks := range order {
			grp := groups[ks]
			tr := func(q authsim.Query, honest *dns.Msg) authsim.Action {
				any := false
				for _, b := range grp.fns {
					if b.Fn(w.bctx(q.Server, q.QName, q.QType), honest) {
						any = true
					}
				}
				if !any {
					return authsim.Action{}
				}
				return authsim.Action{Msg: honest, Changed: true}
			}
			if grp.tcp {
				w.sim.Script(grp.key, authsim.Truncate())
				k2 := grp.key
				k2.Occ++
				w.sim.Script(k2, tr)
			} else {
				w.sim.Script(grp.key, tr)
			}
		}
		n0 := len(w.sim.Log())
		r := ask(st.Q)
		log := w.sim.Log()
		var att []authsim.Key
		for _, lq := range log[n0:] {
			if vkAttServers[lq.Server] {
				att = append(att, lq.Key())
			}
		}
		res.attPaths = append(res.attPaths, att)
		for _, a := range arms {
			f := false
			if a.dg {
				f = a.px.forgedCount() > 0
			} else {
				for _, lq := range log {
					if lq.Scripted && lq.Changed && lq.Key() == (authsim.Key{Server: a.key.Server, QName: zonemodel.Canon(a.key.QName), QType: a.key.QType, Occ: a.key.Occ}) {
						f = true
					}
				}
			}
			res.fired = append(res.fired, f)
		}
		v := w.vkJudgeAttacker(st.Q, r, log, dgStep[i], false)
		res.outcomes = append(res.outcomes, v.Outcome)
		if v.Class != "" {
			fail(fmt.Sprintf("attacker-zone query %s", st.Q), v)
		}
		// "a referral must be one coherent NS set, same class": a referral whose NS records disagree in owner or class
		// (behaviours ref-mixed-* / ref-*-class*) must not be followed, even when nothing foreign is reached through it.
		// Followed = the child's server is asked in this resolution after the rewritten referral went out, with no
		// honest answer from the parent for the same question in between (a retry meets the honest referral).
		if v.Class == "" {
			mixed := false
			for _, tm := range st.Tampers {
				mixed = mixed || strings.HasPrefix(tm.B, "ref-mixed-") || strings.HasPrefix(tm.B, "ref-wrong-class")
			}
			if mixed && len(st.Tampers) == 1 { // alone: composed with an answer-carrying behaviour the answer is what counts
				// the LAST thing the parent's server said in this resolution was the rewritten referral, and yet the
				// resolution went on to an answer
				// (the zone has ONE server and the rewritten referral names that very server's address as glue: a resolver
				// that follows it asks the same server again, meets the honest referral and resolves; one that rejects it
				// has nowhere else to go)
				lastChanged := false
				for _, lq := range log[n0:] {
					if lq.Server == vkAttZone && lq.Scripted && lq.Changed {
						lastChanged = true
					}
				}
				if lastChanged && r.Msg != nil && r.Msg.Rcode != dns.RcodeServerFailure {
					fail(fmt.Sprintf("attacker-zone query %s", st.Q), vkVerdict{Class: "incoherent-referral-followed", Outcome: "VIOLATION:incoherent-referral-followed",
						Viol: fmt.Sprintf("a referral of %s (the zone's only server) mixed NS records of different owners / classes and the resolution went on to %s instead of failing | reply: %s", vkAttZone, dns.RcodeToString[r.Msg.Rcode], vkMsgStr(r.Msg))})
				}
			}
		}
	}
	// The attacker's servers answer the look-alike name authoritatively with poison whenever they are asked
	// for it; a resolver that keeps to the name space never asks them (the name belongs to t.).
	w.sim.Script(authsim.Key{Server: vkAttZone, QName: zonemodel.Canon(vkDotName), QType: dns.TypeA, Occ: -1}, func(q authsim.Query, h *dns.Msg) authsim.Action {
		h.Rcode, h.Authoritative = dns.RcodeSuccess, true
		h.Ns, h.Extra = nil, nil
		h.Answer = []dns.RR{&dns.A{Hdr: dns.RR_Header{Name: vkDotName, Rrtype: dns.TypeA, Class: dns.ClassINET, Ttl: 300}, A: net.ParseIP(vkPoisonA)}}
		return authsim.Action{Msg: h, Changed: true}
	})
	probes := append([]vkProbe{}, vkProbes...)
	seen := map[string]bool{}
	for _, p := range probes {
		seen[p.String()] = true
	}
	for _, p := range extra {
		if !seen[p.String()] {
			seen[p.String()] = true
			probes = append(probes, p)
		}
	}
	if s.Rev {
		for i, j := 0, len(probes)-1; i < j; i, j = i+1, j-1 {
			probes[i], probes[j] = probes[j], probes[i]
		}
	}
	for _, p := range probes {
		r := ask(p)
		v := w.vkJudgeProbe(p, r)
		res.outcomes = append(res.outcomes, v.Outcome)
		if v.Class != "" {
			fail("victim probe "+p.String(), v)
			continue
		}
		if v.Outcome == "probe:truth" && w.origin[p.String()] && !w.asked(w.sim.Log(), zonemodel.Canon(p.Name), p.Type) {
			fail("victim probe "+p.String(), vkVerdict{Class: "victim-answer-not-from-its-authority", Outcome: "VIOLATION:victim-answer-not-from-its-authority",
				Viol: fmt.Sprintf("victim probe %s was answered although the log shows the victim zone's own server was never asked for it in this history", p)})
		}
	}
	// the attacker-zone questions once more: whatever the cache kept of the tampered responses is served now
	for i, st := range s.Steps {
		r := ask(st.Q)
		v := w.vkJudgeAttacker(st.Q, r, w.sim.Log(), dgStep[i], true)
		res.outcomes = append(res.outcomes, "again:"+v.Outcome)
		if v.Class != "" {
			fail(fmt.Sprintf("attacker-zone query %s asked again at the end of the history", st.Q), v)
		}
	}
	res.log = w.sim.Log()
	res.trap = w.trap.queries()
	if len(res.trap) > 0 {
		if observeOnly && len(res.fired) > 0 {
			res.observed = true
		} else {
			fail("after the history", vkVerdict{Class: "trap-address-contacted", Outcome: "VIOLATION:trap-address-contacted",
				Viol: fmt.Sprintf("the resolver sent %d queries (%s) to an address only the attacker supplied (forged glue for a host outside its bailiwick / an invalid referral / loopback or local-interface glue)",
					len(res.trap), strings.Join(res.trap[:min(len(res.trap), 6)], " "))})
		}
	}
	return res
}

func (w *vkWorld) vkConfirm(s vkScenario, class string) (int, string) {
	n, last := 0, ""
	for i := 0; i < 5; i++ {
		r := w.vkRun(s)
		if f := r.has(class); f != nil {
			n++
			last = f.step + ": " + f.v.Viol + " || upstream log: " + vkLogStr(r.log)
		}
	}
	return n, last
}

// vkSharedKey: classes whose key names the mechanism instead of the behaviour (many behaviours, one cause).
func vkSharedKey(class string) bool { return strings.HasPrefix(class, "foreign-record-in-answer|") }

// vkKey: violation class + the behaviours involved (configuration, query, position and warm-up are in
// the message and the replay: one defect should map to a handful of keys).
func vkKey(s vkScenario, class string) string {
	if vkSharedKey(class) {
		return class
	}
	var b []string
	for _, st := range s.Steps {
		for _, tm := range st.Tampers {
			b = append(b, tm.B)
		}
	}
	sort.Strings(b)
	if len(b) == 0 {
		return class + "|untampered"
	}
	return class + "|" + strings.Join(b, "+")
}

func (w *vkWorld) vkReport(s vkScenario, class, viol string) {
	c := w.c
	// shortest counterexample first: drop tampers / steps that are not needed for the same class
	total := 0
	for _, st := range s.Steps {
		total += len(st.Tampers)
	}
	if total > 1 {
		for i, st := range s.Steps {
			for j := range st.Tampers {
				s1 := vkScenario{Cfg: s.Cfg, Pre: s.Pre, Rev: s.Rev, Steps: []vkStep{{Q: s.Steps[i].Q, Tampers: []vkTamper{st.Tampers[j]}}}}
				if r1 := w.vkRun(s1); r1.has(class) != nil {
					w.vkReport(s1, class, r1.has(class).v.Viol)
					return
				}
			}
		}
	}
	key := vkKey(s, class)
	if w.reported[key] {
		c.Add("violations_same_key", 1)
		return
	}
	n, msg := w.vkConfirm(s, class)
	if n < 5 {
		c.Add("dropped_unreproducible", 1)
		c.Note(fmt.Sprintf("dropped (reproduced %d/5): %s: %s", n, s, viol[:min(len(viol), 200)]))
		return
	}
	w.reported[key] = true
	c.Violation(key, fmt.Sprintf("%s — history: %s", msg, s), s)
}

func (w *vkWorld) record(s vkScenario, r vkRunResult, id string) {
	c := w.c
	if r.broken {
		return
	}
	c.Add("histories", 1)
	for _, f := range r.found {
		w.vkReport(s, f.v.Class, f.v.Viol)
	}
	all := len(r.fired) > 0
	for _, f := range r.fired {
		all = all && f
	}
	if all {
		c.DistinctStr("nontrivial", id)
	} else if len(r.fired) > 0 {
		c.Add("tamper_not_delivered", 1)
	}
	bn := "untampered"
	if len(s.Steps) > 0 && len(s.Steps[len(s.Steps)-1].Tampers) > 0 {
		bn = s.Steps[len(s.Steps)-1].Tampers[0].B
	}
	for i, o := range r.outcomes {
		switch {
		case strings.HasPrefix(o, "VIOLATION:") || strings.HasPrefix(o, "again:VIOLATION:"):
			c.Outcome(o)
		case i < len(s.Steps):
			lab := o
			switch {
			case strings.HasPrefix(o, "att:SERVFAIL"):
				lab = "servfail"
			case strings.Contains(o, "alias-reresolved"):
				lab = "alias-reresolved-from-victim"
			case strings.HasPrefix(o, "att:"):
				lab = "poison-ignored:" + strings.TrimPrefix(o, "att:")
			}
			if i < len(r.attPaths) && i < len(s.Steps) && len(s.Steps[i].Tampers) > 0 {
				if base := w.paths[s.Pre+"|"+s.Steps[i].Q.String()]; len(r.attPaths[i]) > len(base)+btoi(s.Steps[i].Tampers[0].TCP) && lab != "servfail" {
					lab += "(after-retry)"
				}
			}
			c.Outcome(bn + "->" + lab)
		default:
			c.Outcome(o)
		}
	}
	if r.observed {
		c.Outcome("observed:" + bn + "->unspecified-address-contacted")
		if !w.notedUnspec {
			w.notedUnspec = true
			c.Note("observed, not judged: in-bailiwick glue 0.0.0.0 (behaviour glue-unspecified) makes the resolver send its queries to the unspecified address, which the OS delivers to the local host; the property text names only loopback and local-interface addresses")
		}
	}
}

func btoi(b bool) int {
	if b {
		return 1
	}
	return 0
}

// ---------------------------------------------------------------- enumeration

func vkTierBehaviours(tier int) []vkBehaviour {
	var out []vkBehaviour
	for _, b := range vkAllBehaviours {
		if b.Tier <= tier {
			out = append(out, b)
		}
	}
	return out
}

func TestVerifC07Bailiwick(t *testing.T) {
	c := vkit.Init("C07/bailiwick")
	defer c.Close()
	if c.Replay != nil {
		var s vkScenario
		if err := json.Unmarshal(c.Replay, &s); err != nil {
			c.HarnessError("bad replay: " + err.Error())
			return
		}
		w, err := vkGetWorld(c, s.Cfg)
		if err != nil {
			c.HarnessError(err.Error())
			return
		}
		if err := w.baseline(); err != nil {
			c.HarnessError(err.Error())
			return
		}
		r := w.vkRun(s)
		for _, f := range r.found {
			c.Violation(vkKey(s, f.v.Class), f.step+": "+f.v.Viol+" || upstream log: "+vkLogStr(r.log)+" — history: "+s.String(), s)
		}
		return
	}

	// DNSSEC off first: nothing but the bailiwick rules protects the resolver there.
	cfgs := []vkCfg{{DNSSEC: false}, {DNSSEC: true}, {DNSSEC: false, QMin: 5}, {DNSSEC: true, QMin: 5}}
	pres := []string{"cold", "warm-deleg", "warm-all"}
	queries := vkAttQueries
	if c.Thorough() {
		queries = append(append([]vkProbe{}, vkAttQueries...), vkAttQueriesThorough...)
	}
	behs := vkTierBehaviours(1)
	capped := false
	done := func() bool {
		if !capped && c.OverBudget() {
			capped = true
		}
		return capped || c.NumViolations() > 30
	}
	mine := func(id string) bool { return c.Mine(int(vkit.Hash(id) % 1000003)) }

	worlds := map[vkCfg]*vkWorld{}
	for _, cfg := range cfgs {
		w, err := vkGetWorld(c, cfg)
		if err != nil {
			c.HarnessError(err.Error())
			return
		}
		if err := w.baseline(); err != nil {
			c.HarnessError(err.Error())
			return
		}
		worlds[cfg] = w
	}
	c.Note("pipeline handlers: " + strings.Join(worlds[cfgs[0]].pl.HandlerNames(), ","))
	applicable := func(w *vkWorld, k authsim.Key, b *vkBehaviour) bool {
		if b.Fn == nil {
			return true
		}
		honest := w.u.ServerAnswer(k.Server, dns.Question{Name: k.QName, Qtype: k.QType, Qclass: dns.ClassINET}, false)
		return b.Fn(w.bctx(k.Server, k.QName, k.QType), honest.Copy())
	}

	// pass 1: every (configuration, warm-up, attacker query, position, behaviour) single tamper,
	// each also delivered over TCP (message behaviours) and with the probe order reversed
	for _, cfg := range cfgs {
		w := worlds[cfg]
		for _, pre := range pres {
			for _, q := range queries {
				if mine(fmt.Sprintf("base|%s|%s|%s", cfg, pre, q)) {
					s := vkScenario{Cfg: cfg, Pre: pre, Steps: []vkStep{{Q: q}}}
					w.record(s, w.vkRun(s), "")
				}
				keys, err := w.path(pre, q)
				if err != nil {
					c.HarnessError(err.Error())
					return
				}
				if len(keys) == 0 {
					c.HarnessError(fmt.Sprintf("no exchange with an attacker server while resolving %s (%s, %s)", q, cfg, pre))
					return
				}
				for pos, k := range keys {
					for bi := range behs {
						b := &behs[bi]
						variants := []struct{ tcp, rev bool }{{false, false}, {false, true}}
						if b.Fn != nil {
							variants = append(variants, struct{ tcp, rev bool }{true, false})
						}
						for _, v := range variants {
							id := fmt.Sprintf("%s|%s|%s|%d|%s|%v|%v", cfg, pre, q, pos, b.Name, v.tcp, v.rev)
							if !mine(id) {
								continue
							}
							if done() {
								break
							}
							if !applicable(w, k, b) {
								c.Add("inapplicable", 1)
								continue
							}
							s := vkScenario{Cfg: cfg, Pre: pre, Rev: v.rev, Steps: []vkStep{{Q: q, Tampers: []vkTamper{{Pos: pos, B: b.Name, TCP: v.tcp}}}}}
							r := w.vkRun(s)
							w.record(s, r, id)
							if !v.rev && !v.tcp && pre == "cold" && pos == len(keys)-1 && (b.Name == "auth-victim-ns" || b.Name == "glue-victim-host") && q == vkAttQueries[1] && cfg == cfgs[0] {
								c.Sample(map[string]any{"history": s.String(), "outcomes": r.outcomes, "upstream_log": vkLogStr(r.log), "trap": r.trap})
							}
						}
					}
				}
			}
		}
	}

	// pass 2: two tampers per history — (a) both attacker exchanges of one resolution, (b) two attacker
	// queries in sequence, (c) an alias query then the two-exchange query after a warm-up
	var msgB []vkBehaviour
	for _, b := range vkTierBehaviours(0) {
		if b.Fn != nil && !b.Observe {
			msgB = append(msgB, b)
		}
	}
	pairCfgs := cfgs[:1]
	if c.Thorough() {
		pairCfgs = cfgs
	}
	for _, cfg := range pairCfgs {
		w := worlds[cfg]
		q2 := vkAttQueries[1]
		for _, b1 := range msgB {
			for _, b2 := range msgB {
				scen := []vkScenario{
					{Cfg: cfg, Pre: "cold", Steps: []vkStep{{Q: q2, Tampers: []vkTamper{{Pos: 0, B: b1.Name}, {Pos: 1, B: b2.Name}}}}},
					{Cfg: cfg, Pre: "cold", Steps: []vkStep{{Q: vkAttQueries[0], Tampers: []vkTamper{{Pos: 0, B: b1.Name}}}, {Q: vkAttQueries[2], Tampers: []vkTamper{{Pos: 0, B: b2.Name}}}}},
					{Cfg: cfg, Pre: "warm-deleg", Steps: []vkStep{{Q: vkAttQueries[2], Tampers: []vkTamper{{Pos: 0, B: b1.Name}}}, {Q: q2, Tampers: []vkTamper{{Pos: 0, B: b2.Name}}}}},
				}
				for si, s := range scen {
					id := fmt.Sprintf("pair%d|%s|%s|%s", si, cfg, b1.Name, b2.Name)
					if !mine(id) {
						continue
					}
					if done() {
						break
					}
					r := w.vkRun(s)
					c.Add("pair_histories", 1)
					w.record(s, r, id)
				}
			}
		}
	}

	// pass 3 (thorough): two message behaviours composed into ONE response (all ordered pairs), every position
	if c.Thorough() {
		for _, cfg := range cfgs {
			w := worlds[cfg]
			for _, q := range vkAttQueries {
				keys, err := w.path("cold", q)
				if err != nil {
					c.HarnessError(err.Error())
					return
				}
				for pos, k := range keys {
					for i1 := range msgB {
						for i2 := range msgB {
							if i1 == i2 {
								continue
							}
							id := fmt.Sprintf("compose|%s|%s|%d|%s|%s", cfg, q, pos, msgB[i1].Name, msgB[i2].Name)
							if !mine(id) {
								continue
							}
							if done() {
								break
							}
							if !applicable(w, k, &msgB[i1]) || !applicable(w, k, &msgB[i2]) {
								c.Add("inapplicable", 1)
								continue
							}
							s := vkScenario{Cfg: cfg, Pre: "cold", Steps: []vkStep{{Q: q, Tampers: []vkTamper{{Pos: pos, B: msgB[i1].Name}, {Pos: pos, B: msgB[i2].Name}}}}}
							r := w.vkRun(s)
							c.Add("composed_histories", 1)
							w.record(s, r, id)
						}
					}
				}
			}
		}
	}
	if capped {
		c.Cap("time budget reached before every case was explored")
	}
}
