//go:build verif

package h_c12

// C12/topo — bounded work per request, measured where it matters: every
// topology of the generator's grammar x qname-minimisation on/off x firewall
// mode {off, shadow, enforce} x budgets {tiny, default, calibrated one below
// what the shadow run counted} is resolved from a cold state by the real
// default chain; the oracle is the number of packets the scripted upstream
// servers actually received for the request tree.

import (
	"encoding/json"
	"fmt"
	"net"
	"os"
	"sort"
	"strings"
	"testing"
	"time"

	"github.com/miekg/dns"
	"github.com/semihalev/sdns/internal/verifshim/authsim"
	"github.com/semihalev/sdns/internal/verifshim/h_rpipe"
	"github.com/semihalev/sdns/internal/verifshim/vkit"
	"github.com/semihalev/sdns/middleware"
	"github.com/semihalev/sdns/middleware/cache"
)

func vkIP(s string) net.IP { return net.ParseIP(s).To4() }

const (
	vkTimeout      = 80 * time.Millisecond
	vkQueryTimeout = 1500 * time.Millisecond
)

var vkTiny = h_rpipe.Budget{Out: 4, Int: 2, Keys: 2, RRSigs: 2, Sigs: 4, DS: 2, N3: 2}

type vkWorld struct {
	g     *vkUniverse
	sim   *authsim.Sim
	c     *vkit.Ctx
	pipes map[string]*h_rpipe.Pipeline
	order []string // LRU of calibrated pipelines
	built int
}

func vkNewWorld(c *vkit.Ctx) (*vkWorld, error) {
	g := vkBuild(c.Thorough())
	sim, err := authsim.Start(g.u)
	if err != nil {
		return nil, err
	}
	sim.SetHonest(g.honest)
	// the order in which a delegation's servers are tried is a function of the delegation alone
	h_rpipe.PinServerOrder(func(n int) int { return 0 })
	return &vkWorld{g: g, sim: sim, c: c, pipes: map[string]*h_rpipe.Pipeline{}}, nil
}

const vkMaxPipes = 160

func (w *vkWorld) pipe(cfg h_rpipe.Config) *h_rpipe.Pipeline {
	cfg.Timeout, cfg.QueryTimeout = vkTimeout, vkQueryTimeout
	k := cfg.String()
	if p := w.pipes[k]; p != nil {
		return p
	}
	if len(w.order) >= vkMaxPipes {
		old := w.order[0]
		w.order = w.order[1:]
		if p := w.pipes[old]; p != nil {
			p.Close()
		}
		delete(w.pipes, old)
	}
	p, err := h_rpipe.New(w.sim, cfg, nil)
	if err != nil {
		panic("h_c12: pipeline build failed: " + err.Error())
	}
	w.pipes[k] = p
	w.order = append(w.order, k)
	w.built++
	return p
}

// ---------------------------------------------------------------- one run

type vkClient struct {
	OPT bool `json:"opt"`
	DO  bool `json:"do"`
}

// vkCase is one replayable evaluation.
type vkCase struct {
	Topo   string         `json:"topo"`
	Cfg    h_rpipe.Config `json:"cfg"`
	Kind   string         `json:"kind,omitempty"` // name of the budget level (tiny, default, edge-out ...)
	Pin    int            `json:"pin,omitempty"`  // server-order pin: 0 = ranking's random source always 0, 1 = always n-1
	Client vkClient       `json:"client"`
}

// key is the stable id of the failing input: topology, qname-minimisation, mode and budget LEVEL
// (the calibrated numbers behind a level are in the replay payload and the message).
func (cs vkCase) key() string {
	k := fmt.Sprintf("%s|qmin%d|%s", cs.Topo, cs.Cfg.QMin, cs.Cfg.Mode)
	if cs.Kind != "" {
		k += ":" + cs.Kind
	}
	if cs.Cfg.IPv6 {
		k += "|ipv6"
	}
	if cs.Pin != 0 {
		k += fmt.Sprintf("|pin%d", cs.Pin)
	}
	if !cs.Client.OPT && !cs.Client.DO {
		k += "|no-edns-client"
	}
	return k
}

func (cs vkCase) String() string {
	cl := "plain"
	if cs.Client.DO {
		cl = "DO"
	} else if cs.Client.OPT {
		cl = "OPT"
	}
	pin := ""
	if cs.Pin != 0 {
		pin = fmt.Sprintf(" pin=%d", cs.Pin)
	}
	return fmt.Sprintf("%s [%s] client=%s%s", cs.Topo, cs.Cfg, cl, pin)
}

func vkPin(mode int) func(n int) int {
	if mode == 1 {
		return func(n int) int { return n - 1 }
	}
	return func(n int) int { return 0 }
}

type vkSnap struct {
	Out, Int, Sigs, DS, N3 uint32
	Exhausted              []string
}

type vkAsk struct {
	Returned bool
	Writes   int
	Rcode    int
	EDE      []uint16
	EDEText  string
	Answer   string // canonical text of the answer RRsets (no TTLs, no RRSIGs), sorted
	Elapsed  time.Duration
	Packets  int // upstream packets received between this ask's start and quiescence
	TCP      int
	Latched  string // enforcement error latched on the request tree's ledger when the chain returned
	Snap     *vkSnap
	Settled  bool
}

func (a vkAsk) outcome() string {
	if !a.Returned {
		return "NO-RETURN"
	}
	if a.Writes != 1 {
		return fmt.Sprintf("writes=%d", a.Writes)
	}
	s := dns.RcodeToString[a.Rcode]
	if len(a.EDE) > 0 {
		s += fmt.Sprintf("+ede%v", a.EDE)
	}
	return s
}

// same rcode and same answer RRsets
func (a vkAsk) reply() string {
	if !a.Returned || a.Writes != 1 {
		return a.outcome()
	}
	return dns.RcodeToString[a.Rcode] + " {" + a.Answer + "}"
}

func vkAnswerKey(m *dns.Msg) string {
	var p []string
	for _, rr := range m.Answer {
		if rr.Header().Rrtype == dns.TypeRRSIG {
			continue
		}
		c := dns.Copy(rr)
		c.Header().Ttl = 0
		c.Header().Name = strings.ToLower(c.Header().Name)
		p = append(p, strings.Join(strings.Fields(c.String()), " "))
	}
	sort.Strings(p)
	// duplicates carry no information
	out := p[:0]
	for i, s := range p {
		if i == 0 || s != p[i-1] {
			out = append(out, s)
		}
	}
	return strings.Join(out, " ; ")
}

func vkSnapOf(l *middleware.RecursionWorkLedger) *vkSnap {
	if l == nil {
		return nil
	}
	s := l.Snapshot()
	out := &vkSnap{Out: s.OutboundQueries, Int: s.InternalQueries, Sigs: s.SignatureChecks, DS: s.DSDigests, N3: s.NSEC3Hashes}
	for _, f := range []struct {
		on bool
		n  string
	}{{s.OutboundExhausted, "out"}, {s.InternalExhausted, "int"}, {s.DNSKEYCandidatesExhausted, "keys"}, {s.RRsetSignatureChecksExhausted, "rrsigs"},
		{s.SignatureChecksExhausted, "sigs"}, {s.DSDigestsExhausted, "ds"}, {s.NSEC3HashesExhausted, "n3"}, {s.ConcurrentCryptoExhausted, "crypto"}} {
		if f.on {
			out.Exhausted = append(out.Exhausted, f.n)
		}
	}
	return out
}

type vkRun struct {
	Case          vkCase
	First         vkAsk
	Second        *vkAsk               // second client (same pipeline state), when asked for
	FailuresFirst []cache.VerifFailure // failure store right after the first ask
	Failures      []cache.VerifFailure // ... and at the end of the run
	Log           []authsim.Query
	LogFirst      []authsim.Query // the upstream log at the first ask's quiescence (= its request tree)
	Disturbed     bool
	Unscript      []string
}

func (w *vkWorld) topo(id string) (vkTopo, bool) {
	for _, t := range w.g.topos {
		if t.ID == id {
			return t, true
		}
	}
	return vkTopo{}, false
}

func (w *vkWorld) ask(pl *h_rpipe.Pipeline, tp vkTopo, cl vkClient) vkAsk {
	before := w.sim.Count("")
	req := pl.Query(tp.QName, tp.QType, cl.OPT, cl.DO)
	r := pl.Ask(req, "tcp", h_rpipe.AskOpt{})
	w.c.Add("evaluations", 1)
	a := vkAsk{Returned: r.Returned, Writes: r.Writes, Elapsed: r.Elapsed}
	if r.Latched != nil {
		a.Latched = r.Latched.Error()
	}
	if r.Msg != nil {
		a.Rcode = r.Msg.Rcode
		a.Answer = vkAnswerKey(r.Msg)
		if opt := r.Msg.IsEdns0(); opt != nil {
			for _, o := range opt.Option {
				if e, ok := o.(*dns.EDNS0_EDE); ok {
					a.EDE = append(a.EDE, e.InfoCode)
					a.EDEText = e.ExtraText
				}
			}
		}
	}
	if !r.Returned {
		return a
	}
	max := 4 * time.Second
	if pl.Cfg.IPv6 {
		max = 40 * time.Second
	}
	a.Settled, _ = pl.Settle(max, r.Ledger)
	a.Snap = vkSnapOf(r.Ledger)
	log := w.sim.Log()
	if before <= len(log) {
		for _, q := range log[before:] {
			a.Packets++
			if q.Transport == "tcp" {
				a.TCP++
			}
		}
	}
	return a
}

// runOnce: cold state, scripts installed, one client ask (+ optionally a second client).
func (w *vkWorld) runOnce(cs vkCase, second bool) vkRun {
	tp, ok := w.topo(cs.Topo)
	if !ok {
		panic("unknown topology " + cs.Topo)
	}
	pl := w.pipe(cs.Cfg)
	pl.Reset()
	w.sim.Reset()
	h_rpipe.PinServerOrder(vkPin(cs.Pin)) // nothing is in flight here
	w.g.vkInstall(w.sim, tp)
	run := vkRun{Case: cs}
	run.First = w.ask(pl, tp, cs.Client)
	w.c.Add("traces", 1)
	if !run.First.Returned {
		return run
	}
	run.FailuresFirst = pl.Failures()
	run.LogFirst = w.sim.Log()
	if second {
		a := w.ask(pl, tp, vkClient{OPT: true, DO: true})
		run.Second = &a
	}
	run.Failures = pl.Failures()
	run.Log = w.sim.Log()
	w.c.Add("transitions", int64(len(run.Log)))
	run.Unscript = vkUnscripted(tp, run.Log)
	if !tp.Slow && run.First.Elapsed > vkTimeout*9/10 && !cs.Cfg.IPv6 {
		run.Disturbed = true // nothing scripted makes the resolver wait out a timeout here
	}
	if !run.First.Settled || (run.Second != nil && run.Second.Returned && !run.Second.Settled) {
		run.Disturbed = true
	}
	return run
}

// run repeats disturbed runs (machine noise: lost loopback datagram, starved process).
func (w *vkWorld) run(cs vkCase, second bool) vkRun {
	for try := 0; ; try++ {
		r := w.runOnce(cs, second)
		if !r.First.Returned {
			// exceeded the wall cap of 10 x QueryTimeout: repeat; three in a row is "does not terminate"
			w.c.Add("wallcap_hits", 1)
			if try >= 2 {
				return r
			}
			// the abandoned ask may still be running: this pipeline is unusable, drop it
			delete(w.pipes, cs.Cfg.String())
			continue
		}
		if !r.Disturbed || try >= 3 {
			if r.Disturbed {
				w.c.Add("disturbed_kept", 1)
			}
			return r
		}
		w.c.Add("disturbed_reruns", 1)
	}
}

func vkPath(log []authsim.Query) string {
	var s []string
	for _, q := range log {
		s = append(s, fmt.Sprintf("%s<-%s/%s/%s", q.Server, strings.ToLower(q.QName), dns.TypeToString[q.QType], q.Transport))
	}
	return strings.Join(s, " ")
}

// ---------------------------------------------------------------- smoke (manual aid)

// TestVerifC12Smoke prints the firewall-off resolution of every topology (VERIF_SMOKE=1; VERIF_SMOKE=<substring> filters).
func TestVerifC12Smoke(t *testing.T) {
	f := os.Getenv("VERIF_SMOKE")
	if f == "" {
		t.Skip()
	}
	c := vkit.Init("C12/smoke")
	t0 := time.Now()
	w, err := vkNewWorld(c)
	if err != nil {
		t.Fatal(err)
	}
	fmt.Printf("universe: %d zones, %d servers, %d topologies, built+started in %v\n", len(w.g.u.Zones()), len(w.g.u.Servers()), len(w.g.topos), time.Since(t0))
	t1 := time.Now()
	for _, m := range []string{"off", "shadow", "enforce"} {
		w.pipe(h_rpipe.Config{Mode: m, Budget: vkTiny})
	}
	fmt.Printf("3 pipelines built in %v; handlers: %v\n", time.Since(t1), w.pipe(h_rpipe.Config{Mode: "off", Budget: vkTiny}).HandlerNames())
	cfgs := []h_rpipe.Config{{Mode: "off"}, {Mode: "off", QMin: 5}, {Mode: "shadow", Budget: vkTiny}, {Mode: "enforce", Budget: vkTiny}, {Mode: "enforce"}}
	if v := os.Getenv("VERIF_SMOKE_OUT"); v != "" {
		var n uint32
		fmt.Sscan(v, &n)
		cfgs = append(cfgs, h_rpipe.Config{Mode: "enforce", Budget: h_rpipe.Budget{Out: n}})
	}
	if os.Getenv("VERIF_SMOKE_QMIN") != "" {
		for i := range cfgs {
			cfgs[i].QMin = 5
		}
	}
	if os.Getenv("VERIF_SMOKE_V6") != "" {
		cfgs = []h_rpipe.Config{{Mode: "shadow", Budget: vkTiny, IPv6: true}, {Mode: "enforce", IPv6: true}}
	}
	for _, tp := range w.g.topos {
		if f != "1" && !strings.Contains(tp.ID, f) {
			continue
		}
		for _, cfg := range cfgs {
			r := w.run(vkCase{Topo: tp.ID, Cfg: cfg, Client: vkClient{OPT: true, DO: true}}, cfg.Mode == "enforce")
			a := r.First
			snap := ""
			if a.Snap != nil {
				snap = fmt.Sprintf(" ledger{out=%d int=%d sigs=%d ds=%d n3=%d exh=%v latched=%q}", a.Snap.Out, a.Snap.Int, a.Snap.Sigs, a.Snap.DS, a.Snap.N3, a.Snap.Exhausted, a.Latched)
			}
			sec := ""
			if r.Second != nil {
				sec = fmt.Sprintf(" second{%s pk=%d latched=%q}", r.Second.outcome(), r.Second.Packets, r.Second.Latched)
			}
			fmt.Printf("%-34s %-28s %-22s pk=%-3d tcp=%-2d %7v dist=%v%s%s fail=%v unscripted=%v\n", tp.ID, cfg, a.outcome(), a.Packets, a.TCP, a.Elapsed.Round(time.Millisecond), r.Disturbed, snap, sec, r.Failures, r.Unscript)
			if os.Getenv("VERIF_SMOKE_PATH") != "" {
				fmt.Printf("    answer: %s\n    path: %s\n", a.Answer, vkPath(r.Log))
			}
		}
	}
	fmt.Printf("total %v, pipelines built %d\n", time.Since(t0), w.built)
	_ = json.Marshal
}
