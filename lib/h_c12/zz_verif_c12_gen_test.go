//go:build verif

// Package h_c12 is the harness of unit C12/topo (bounded work per request:
// resolution always terminates within its budgets): the real default sdns
// chain resolving against an ENUMERATED family of adversarial DNS topologies
// served by authsim, with the upstream packet log as the oracle.
package h_c12

// The topology generator. One universe per process holds every topology of
// the grammar (each in its own names / zones, so that a cold resolver sees
// exactly one of them per run); the per-run part of a topology (lame servers,
// scripted referrals, flaky exchanges) is a list of authsim scripts installed
// after every reset.

import (
	"encoding/base64"
	"fmt"
	"sort"
	"strings"
	"sync"
	"time"

	"github.com/miekg/dns"
	"github.com/semihalev/sdns/internal/verifshim/authsim"
	"github.com/semihalev/sdns/internal/verifshim/zonemodel"
)

// vkBeh is the scripted behaviour of one whole server during one run.
type vkBeh struct {
	Server string `json:"server"`
	Kind   string `json:"kind"` // refused | servfail | drop | garbage | notimp
}

// vkTopo is one element of the enumerated space.
type vkTopo struct {
	ID      string  `json:"id"`
	Family  string  `json:"family"`
	QName   string  `json:"qname"`
	QType   uint16  `json:"qtype"`
	Beh     []vkBeh `json:"beh,omitempty"`     // lame servers
	Special string  `json:"special,omitempty"` // scripted exchange family (see vkInstall)
	Arg     string  `json:"arg,omitempty"`
	Dead    string  `json:"dead,omitempty"`  // zone every one of whose servers is lame in this topology ("" = none)
	Slow    bool    `json:"slow,omitempty"`  // involves scripted drops (upstream timeouts)
	Multi   bool    `json:"multi,omitempty"` // several servers race: replies may legitimately differ between runs
	Tier    int     `json:"tier,omitempty"`  // 0 quick+thorough, 1 thorough only
	V6      bool    `json:"v6,omitempty"`    // also run with detached IPv6 NS enrichment
	Signed  bool    `json:"signed,omitempty"`
}

type vkUniverse struct {
	u        *zonemodel.Universe
	topos    []vkTopo
	replicas []string            // replica-pool server names, in delegation order
	fanZone  map[string]int      // apex of a multi-server zone -> number of servers
	sigMult  map[string]int      // server -> RRSIGs per RRset
	nsHosts  map[string][]string // zone apex -> NS host names published in the parent
	nextAddr int
}

func (g *vkUniverse) addr() string {
	n := g.nextAddr
	g.nextAddr++
	switch {
	case n < 240:
		return fmt.Sprintf("192.0.2.%d", 10+n)
	case n < 480:
		return fmt.Sprintf("198.51.100.%d", 10+n-240)
	default:
		return fmt.Sprintf("203.0.113.%d", 10+n-480)
	}
}

const vkSeed = "c12"

// zone adds a zone with an explicit address (the generator needs to know it).
func (g *vkUniverse) zone(spec zonemodel.ZoneSpec) (*zonemodel.Zone, string) {
	if spec.NSAddr == "" {
		spec.NSAddr = g.addr()
	}
	if spec.TTL == 0 {
		spec.TTL = 300
	}
	return g.u.AddZone(spec), spec.NSAddr
}

func vkCorruptSig(sig *dns.RRSIG, n int) *dns.RRSIG {
	c := dns.Copy(sig).(*dns.RRSIG)
	raw, err := base64.StdEncoding.DecodeString(c.Signature)
	if err != nil || len(raw) == 0 {
		return c
	}
	raw[(n*7+3)%len(raw)] ^= byte(0x11 * (n + 1))
	c.Signature = base64.StdEncoding.EncodeToString(raw)
	return c
}

// vkMultiplySigs places k-1 syntactically valid but wrong signatures (same
// signer, key tag and window) in front of every RRSIG.
func vkMultiplySigs(rrs []dns.RR, k int) []dns.RR {
	if k <= 1 {
		return rrs
	}
	var out []dns.RR
	for _, rr := range rrs {
		if s, ok := rr.(*dns.RRSIG); ok {
			for i := 0; i < k-1; i++ {
				out = append(out, vkCorruptSig(s, i))
			}
		}
		out = append(out, rr)
	}
	return out
}

// honest is the honest responder installed in authsim: replica-pool servers
// host every multi-server zone, and the "many signatures" zones multiply
// their RRSIGs.
func (g *vkUniverse) honest(server string, q dns.Question, do bool) *dns.Msg {
	srv := server
	if g.isReplica(server) {
		if z := g.fanZoneOf(q.Name); z != "" {
			srv = z
		}
	}
	m := g.u.ServerAnswer(srv, q, do)
	if k := g.sigMult[srv]; k > 1 {
		m.Answer = vkMultiplySigs(m.Answer, k)
		m.Ns = vkMultiplySigs(m.Ns, k)
	}
	return m
}

func (g *vkUniverse) isReplica(server string) bool {
	for _, r := range g.replicas {
		if r == server {
			return true
		}
	}
	return false
}

func (g *vkUniverse) fanZoneOf(name string) string {
	name = zonemodel.Canon(name)
	for z := range g.fanZone {
		if dns.IsSubDomain(z, name) {
			return z
		}
	}
	return ""
}

// servers of a multi-server zone in delegation order: replicas first, the
// zone's own server last (Build appends the zone's own NS after ours).
func (g *vkUniverse) serversOf(zone string) []string {
	n := g.fanZone[zone]
	out := append([]string{}, g.replicas[:n-1]...)
	return append(out, zone)
}

// fan declares zone (already added, own server = apex) to be served by n
// servers: n-1 replica-pool addresses are published as extra NS + glue in the
// parent zone.
func (g *vkUniverse) fan(parent *zonemodel.Zone, zone string, n int, replicaAddrs []string) {
	g.fanZone[zone] = n
	label := strings.TrimSuffix(zone, "."+parent.Apex)
	for i := 0; i < n-1; i++ {
		host := fmt.Sprintf("r%02d.%s", i, zone)
		parent.Add(fmt.Sprintf("%s NS %s", label, host))
		parent.Add(fmt.Sprintf("r%02d.%s A %s", i, label, replicaAddrs[i]))
		g.nsHosts[zone] = append(g.nsHosts[zone], host)
	}
	g.nsHosts[zone] = append(g.nsHosts[zone], "ns."+zone)
}

const vkMaxReplicas = 12

// vkBuild enumerates the grammar. The thorough tier enlarges it (CNAME graphs on 4 names, every
// assignment of behaviours to the 4 servers of a fan-out zone, the full clones x signatures x
// denial-mode product, signed glueless graphs).
func vkBuild(thorough bool) *vkUniverse {
	g := &vkUniverse{u: zonemodel.NewUniverse(vkSeed), fanZone: map[string]int{}, sigMult: map[string]int{}, nsHosts: map[string][]string{}}
	ec, ed := uint8(zonemodel.AlgECDSAP256), uint8(zonemodel.AlgED25519)
	g.zone(zonemodel.ZoneSpec{Apex: ".", Mode: zonemodel.NSEC, Alg: ec})
	t, _ := g.zone(zonemodel.ZoneSpec{Apex: "t.", Mode: zonemodel.NSEC, Alg: ed})
	add := func(tp vkTopo) {
		if tp.QType == 0 {
			tp.QType = dns.TypeA
		}
		g.topos = append(g.topos, tp)
	}

	// ---- replica pool: servers that host nothing of their own interest; they are the extra
	// addresses of multi-server delegations (lame unless the honest responder routes to them).
	var replicaAddrs []string
	for i := 0; i < vkMaxReplicas; i++ {
		apex := fmt.Sprintf("p%02d.pool.", i)
		_, a := g.zone(zonemodel.ZoneSpec{Apex: apex, Mode: zonemodel.Unsigned})
		g.replicas = append(g.replicas, apex)
		replicaAddrs = append(replicaAddrs, a)
	}

	// ---- A: CNAME graphs on <= 3 names, in one zone and split over two zones (signed).
	ca, _ := g.zone(zonemodel.ZoneSpec{Apex: "ca.t.", Mode: zonemodel.NSEC, Alg: ed})
	cb, _ := g.zone(zonemodel.ZoneSpec{Apex: "cb.t.", Mode: zonemodel.NSEC, Alg: ed})
	maxK := 3
	if thorough {
		maxK = 4
	}
	for k := 1; k <= maxK; k++ {
		total := 1
		for i := 0; i < k; i++ {
			total *= k + 1
		}
		for code := 0; code < total; code++ {
			for place := 1; place <= 2; place++ {
				if k == 1 && place == 2 {
					continue
				}
				id := fmt.Sprintf("k%dg%dp%d", k, code, place)
				zoneOf := func(j int) (*zonemodel.Zone, string) {
					if place == 2 && j%2 == 1 {
						return cb, "cb.t."
					}
					return ca, "ca.t."
				}
				name := func(j int) string { _, z := zoneOf(j); return fmt.Sprintf("%sn%d.%s", id, j, z) }
				c := code
				var edges []string
				for j := 0; j < k; j++ {
					v := c % (k + 1)
					c /= k + 1
					z, _ := zoneOf(j)
					if v == k {
						z.Add(fmt.Sprintf("%sn%d A 10.12.%d.%d", id, j, k, j+1))
						edges = append(edges, "A")
					} else {
						z.Add(fmt.Sprintf("%sn%d CNAME %s", id, j, name(v)))
						edges = append(edges, fmt.Sprintf("n%d", v))
					}
				}
				add(vkTopo{ID: "cname/" + id, Family: "cname", QName: name(0), Arg: strings.Join(edges, ","), Signed: true})
			}
		}
	}

	// ---- B: DNAME graphs between two zones (signed): each of two DNAME owners points at the
	// other owner, at itself, below itself (ever longer names) or at a terminal subtree.
	da, _ := g.zone(zonemodel.ZoneSpec{Apex: "da.t.", Mode: zonemodel.NSEC, Alg: ed})
	db, _ := g.zone(zonemodel.ZoneSpec{Apex: "db.t.", Mode: zonemodel.NSEC, Alg: ed})
	tgt := []string{"other", "self", "below", "term"}
	for i := 0; i < 4; i++ {
		for j := 0; j < 4; j++ {
			id := fmt.Sprintf("d%d%d", i, j)
			x, y := id+"x.da.t.", id+"y.db.t."
			target := func(self, other, term string, v int) string {
				switch tgt[v] {
				case "other":
					return other
				case "self":
					return self
				case "below":
					return "l." + self
				}
				return term
			}
			da.Add(fmt.Sprintf("%sx DNAME %s", id, target(x, y, id+"z.db.t.", i)))
			db.Add(fmt.Sprintf("%sy DNAME %s", id, target(y, x, id+"z.da.t.", j)))
			db.Add(fmt.Sprintf("q.%sz A 10.12.9.1", id))
			da.Add(fmt.Sprintf("q.%sz A 10.12.9.2", id))
			add(vkTopo{ID: "dname/" + id, Family: "dname", QName: "q." + x, Arg: tgt[i] + "," + tgt[j], Signed: true})
		}
	}

	// ---- C: glueless NS dependency graphs on <= 3 zones (unsigned): zone i's only name server is
	// a host of zone f(i); f(i) = i means in-bailiwick with glue.
	gmodes := []zonemodel.Mode{zonemodel.Unsigned}
	if thorough {
		gmodes = append(gmodes, zonemodel.NSEC)
	}
	for _, gmode := range gmodes {
		for k := 1; k <= 3; k++ {
			total := 1
			for i := 0; i < k; i++ {
				total *= k
			}
			for code := 0; code < total; code++ {
				id := fmt.Sprintf("gk%dc%d", k, code)
				if gmode.Signed() {
					id = fmt.Sprintf("gsk%dc%d", k, code)
				}
				apex := func(i int) string { return fmt.Sprintf("%sz%d.t.", id, i) }
				f := make([]int, k)
				c := code
				for i := 0; i < k; i++ {
					f[i] = c % k
					c /= k
				}
				zs := make([]*zonemodel.Zone, k)
				addrs := make([]string, k)
				for i := 0; i < k; i++ {
					host := "ns." + apex(i)
					if f[i] != i {
						host = fmt.Sprintf("nsfor%d.%s", i, apex(f[i]))
					}
					zs[i], addrs[i] = g.zone(zonemodel.ZoneSpec{Apex: apex(i), Mode: gmode, Alg: ed, NSHost: host})
				}
				var fs []string
				for i := 0; i < k; i++ {
					if f[i] != i {
						zs[f[i]].Add(fmt.Sprintf("nsfor%d A %s", i, addrs[i]))
					}
					fs = append(fs, fmt.Sprint(f[i]))
				}
				zs[0].Add("w A 10.12.20.1")
				add(vkTopo{ID: "glueless/" + id, Family: "glueless", QName: "w." + apex(0), Arg: strings.Join(fs, ""), V6: !gmode.Signed(), Signed: gmode.Signed()})
			}
		}
	}

	// ---- D: referral chains of depth 2..6 below t. (a signed and an unsigned chain).
	for _, signed := range []bool{true, false} {
		pre, mode := "u", zonemodel.Unsigned
		if signed {
			pre, mode = "s", zonemodel.NSEC
		}
		apex := "t."
		for d := 1; d <= 6; d++ {
			apex = fmt.Sprintf("%s%d.%s", pre, d, apex)
			z, _ := g.zone(zonemodel.ZoneSpec{Apex: apex, Mode: mode, Alg: ed})
			z.Add("w A 10.12.30.1")
			if d >= 2 {
				add(vkTopo{ID: fmt.Sprintf("chain/%s%d", pre, d), Family: "chain", QName: "w." + apex, Signed: signed, V6: d == 6 || d == 2})
			}
		}
	}

	// ---- D': scripted referrals by a self-referring / upward-referring / ever-deeper server.
	g.zone(zonemodel.ZoneSpec{Apex: "sr.t.", Mode: zonemodel.Unsigned})
	for _, sp := range []string{"selfref", "upref-t", "upref-root", "sideways", "deeper", "restart-deeper"} {
		q := "w.sr.t."
		if sp == "deeper" || sp == "restart-deeper" {
			q = "a.b.c.d.e.f.g.h.sr.t."
		}
		add(vkTopo{ID: "referral/" + sp, Family: "referral", QName: q, Special: sp})
	}

	// ---- E: NS fan-out 1 / 4 / 13 where all but possibly one server are lame (unsigned zones).
	for _, n := range []int{1, 4, 13} {
		apex := fmt.Sprintf("f%d.t.", n)
		z, _ := g.zone(zonemodel.ZoneSpec{Apex: apex, Mode: zonemodel.Unsigned})
		z.Add("w A 10.12.40.1")
		g.fan(t, apex, n, replicaAddrs)
		srv := g.serversOf(apex)
		for _, kind := range []string{"refused", "servfail", "drop"} {
			for _, healthy := range []string{"none", "first", "last"} {
				if n == 1 && healthy == "first" {
					continue
				}
				var beh []vkBeh
				for i, s := range srv {
					if (healthy == "first" && i == 0) || (healthy == "last" && i == len(srv)-1) {
						continue
					}
					beh = append(beh, vkBeh{Server: s, Kind: kind})
				}
				tp := vkTopo{ID: fmt.Sprintf("fanout/n%d-%s-%s", n, kind, healthy), Family: "fanout", QName: "w." + apex, Beh: beh,
					Slow: kind == "drop", Multi: n > 1}
				if healthy == "none" {
					tp.Dead = apex
				}
				if kind == "drop" && n == 13 {
					tp.Tier = 1
				}
				add(tp)
			}
		}
		if n == 1 {
			add(vkTopo{ID: "fanout/n1-healthy", Family: "fanout", QName: "w." + apex})
		}
		if n == 4 && thorough {
			// every assignment of {healthy, refused, servfail, drop} to the four servers
			letters := []string{"healthy", "refused", "servfail", "drop"}
			for code := 0; code < 256; code++ {
				var beh []vkBeh
				var name []string
				c, healthy, drops := code, 0, 0
				for i := 0; i < 4; i++ {
					k := letters[c%4]
					c /= 4
					name = append(name, k[:1])
					if k == "healthy" {
						healthy++
						continue
					}
					if k == "drop" {
						drops++
					}
					beh = append(beh, vkBeh{Server: srv[i], Kind: k})
				}
				tp := vkTopo{ID: "fanout/n4-mix-" + strings.Join(name, ""), Family: "fanout", QName: "w." + apex, Beh: beh, Slow: drops > 0, Multi: true, Tier: 1}
				if healthy == 0 {
					tp.Dead = apex
				}
				add(tp)
			}
		}
	}

	// ---- F: DNSSEC work: 1..4 same-key-tag clones of the ZSK, 1..4 RRSIGs per RRset (NSEC zones);
	// NSEC3 iterations 0 / 150 / 151; DS RRsets with many same-tag DS records and cloned KSKs.
	minC := 1
	if thorough {
		minC = 0
	}
	for c := minC; c <= 4; c++ {
		for s := 1; s <= 4; s++ {
			apex := fmt.Sprintf("k%ds%d.t.", c, s)
			z, _ := g.zone(zonemodel.ZoneSpec{Apex: apex, Mode: zonemodel.NSEC, Alg: ed})
			zsk := zonemodel.GenKey(vkSeed, apex, "zsk", ed, 256)
			for i := 0; i < c; i++ {
				z.AddRR(dns.Copy(zonemodel.CloneKey(fmt.Sprintf("%s-clone%d", vkSeed, i), zsk)))
			}
			z.Add("w A 10.12.50.1")
			g.sigMult[apex] = s
			for _, nm := range []string{"w", "nx"} {
				add(vkTopo{ID: fmt.Sprintf("dnssec/clones%d-sigs%d-%s", c, s, nm), Family: "dnssec", QName: nm + "." + apex, Signed: true})
			}
		}
	}
	for _, it := range []uint16{0, 150, 151} {
		n3 := [][2]int{{0, 1}, {2, 4}}
		if thorough {
			n3 = [][2]int{{0, 1}, {0, 4}, {2, 1}, {2, 4}, {4, 1}, {4, 4}}
		}
		for _, cs := range n3 {
			apex := fmt.Sprintf("i%dk%ds%d.t.", it, cs[0], cs[1])
			z, _ := g.zone(zonemodel.ZoneSpec{Apex: apex, Mode: zonemodel.NSEC3, Alg: ed, Iter: it, Salt: "ab"})
			zsk := zonemodel.GenKey(vkSeed, apex, "zsk", ed, 256)
			for i := 0; i < cs[0]; i++ {
				z.AddRR(dns.Copy(zonemodel.CloneKey(fmt.Sprintf("%s-clone%d", vkSeed, i), zsk)))
			}
			z.Add("w A 10.12.51.1", "*.wild A 10.12.51.2")
			g.sigMult[apex] = cs[1]
			for _, nm := range []string{"w", "nx", "x.wild"} {
				add(vkTopo{ID: fmt.Sprintf("dnssec/nsec3-iter%d-clones%d-sigs%d-%s", it, cs[0], cs[1], strings.ReplaceAll(nm, ".", "")), Family: "dnssec", QName: nm + "." + apex, Signed: true})
			}
		}
	}
	for _, m := range []int{4, 40} {
		apex := fmt.Sprintf("ds%d.t.", m)
		z, _ := g.zone(zonemodel.ZoneSpec{Apex: apex, Mode: zonemodel.NSEC, Alg: ed})
		ksk := zonemodel.GenKey(vkSeed, apex, "ksk", ed, 257)
		for i := 0; i < m; i++ {
			t.Add(fmt.Sprintf("ds%d DS %d %d 2 %064x", m, ksk.Tag, ed, i+1))
		}
		for i := 0; i < 3; i++ {
			z.AddRR(dns.Copy(zonemodel.CloneKey(fmt.Sprintf("%s-kclone%d", vkSeed, i), ksk)))
		}
		z.Add("w A 10.12.52.1")
		add(vkTopo{ID: fmt.Sprintf("dnssec/ds%d-kskclones3", m), Family: "dnssec", QName: "w." + apex, Signed: true})
	}

	// ---- G: flaky final exchange (retries and TCP fallbacks): truncation, garbage, wrong id, drops.
	fl, _ := g.zone(zonemodel.ZoneSpec{Apex: "fl.t.", Mode: zonemodel.NSEC, Alg: ed})
	fl.Add("w A 10.12.60.1")
	for _, sp := range []string{"truncate", "truncate-dnskey", "garbage-once", "wrongid-once", "drop-once", "drop-twice", "drop-all"} {
		add(vkTopo{ID: "flaky/" + sp, Family: "flaky", QName: "w.fl.t.", Special: sp, Signed: true, Slow: strings.HasPrefix(sp, "drop") || sp == "wrongid-once",
			Dead: map[bool]string{true: "fl.t."}[sp == "drop-all"]})
	}

	g.u.Build()
	return g
}

// vkLameTypes: every query type the resolver may send to a zone's servers.
var vkLameTypes = []uint16{dns.TypeA, dns.TypeAAAA, dns.TypeNS, dns.TypeDS, dns.TypeDNSKEY, dns.TypeSOA, dns.TypeCNAME, dns.TypeTXT}

func vkSuffixes(name string) []string {
	var out []string
	for n := zonemodel.Canon(name); n != "."; {
		out = append(out, n)
		off, end := dns.NextLabel(n, 0)
		if end {
			break
		}
		n = n[off:]
	}
	return out
}

func vkBehTransformer(kind string, delay time.Duration) authsim.Transformer {
	switch kind {
	case "refused":
		return authsim.Rcode(dns.RcodeRefused)
	case "servfail":
		return authsim.Rcode(dns.RcodeServerFailure)
	case "notimp":
		return authsim.Rcode(dns.RcodeNotImplemented)
	case "drop":
		return authsim.Drop()
	case "garbage":
		return authsim.Garbage()
	case "slow":
		return authsim.Delay(delay)
	}
	panic("unknown behaviour " + kind)
}

// vkScriptServer makes a whole server behave as kind for every question it can be asked about names.
func vkScriptServer(sim *authsim.Sim, server, kind string, delay time.Duration, names []string) {
	tr := vkBehTransformer(kind, delay)
	for _, n := range names {
		for _, t := range vkLameTypes {
			sim.Script(authsim.Key{Server: server, QName: n, QType: t, Occ: -1}, tr)
		}
	}
}

func vkReferral(zone, host, addr string) authsim.Transformer {
	return func(q authsim.Query, h *dns.Msg) authsim.Action {
		m := new(dns.Msg)
		m.Response = true
		m.Question = h.Question
		m.Ns = []dns.RR{&dns.NS{Hdr: dns.RR_Header{Name: zone, Rrtype: dns.TypeNS, Class: dns.ClassINET, Ttl: 300}, Ns: host}}
		if addr != "" {
			m.Extra = []dns.RR{&dns.A{Hdr: dns.RR_Header{Name: host, Rrtype: dns.TypeA, Class: dns.ClassINET, Ttl: 300}, A: vkIP(addr)}}
		}
		return authsim.Action{Msg: m, Changed: true}
	}
}

// vkInstall installs the per-run scripts of a topology (call after every sim.Reset()).
func (g *vkUniverse) vkInstall(sim *authsim.Sim, tp vkTopo) {
	names := vkSuffixes(tp.QName)
	if z := g.fanZoneOf(tp.QName); z != "" {
		names = append(names, g.nsHosts[z]...)
	}
	for _, b := range tp.Beh {
		vkScriptServer(sim, b.Server, b.Kind, 0, names)
	}
	zoneAddr := func(apex string) string { return g.u.Zone(apex).NSAddr }
	key := func(server, name string, t uint16, occ int) authsim.Key {
		return authsim.Key{Server: server, QName: name, QType: t, Occ: occ}
	}
	switch tp.Special {
	case "":
	case "selfref", "upref-t", "upref-root", "sideways":
		var tr authsim.Transformer
		switch tp.Special {
		case "selfref":
			tr = vkReferral("sr.t.", "ns.sr.t.", zoneAddr("sr.t."))
		case "upref-t":
			tr = vkReferral("t.", "ns.t.", zoneAddr("t."))
		case "upref-root":
			tr = vkReferral(".", "ns.root-servers.test.", zoneAddr("."))
		case "sideways":
			tr = vkReferral("ca.t.", "ns.ca.t.", zoneAddr("ca.t."))
		}
		for _, n := range vkSuffixes(tp.QName) {
			if !dns.IsSubDomain("sr.t.", n) || n == "sr.t." {
				continue
			}
			for _, t := range []uint16{dns.TypeA, dns.TypeNS} {
				sim.Script(key("sr.t.", n, t, -1), tr)
			}
		}
	case "deeper", "restart-deeper":
		if tp.Special == "restart-deeper" {
			// The parent's server answers the first minimised probes with empty NOERROR, so the resolver's
			// minimisation level walks past the zone cut, and then returns a valid, progressing referral
			// whose owner (sr.t.) has FEWER labels than the level reached: the resolver starts over at the
			// root without minimisation. The restarted resolution then meets the ever-deeper chain below —
			// all of it is the same request tree and counts against the same budgets.
			empty := func(q authsim.Query, h *dns.Msg) authsim.Action {
				m := new(dns.Msg)
				m.Response = true
				m.Authoritative = true
				m.Question = h.Question
				return authsim.Action{Msg: m, Changed: true}
			}
			labels := dns.SplitDomainName(tp.QName)
			for _, t := range []uint16{dns.TypeA, dns.TypeNS} {
				sim.Script(key("t.", "sr.t.", t, -1), empty)
				sim.Script(key("t.", zonemodel.Canon(strings.Join(labels[len(labels)-3:], ".")), t, -1), empty) // h.sr.t.
				for k := 4; k < len(labels); k++ { // g.h.sr.t., f.g.h.sr.t., ... (never the full name)
					n := zonemodel.Canon(strings.Join(labels[len(labels)-k:], "."))
					sim.Script(key("t.", n, t, -1), vkReferral("sr.t.", "ns.sr.t.", zoneAddr("sr.t.")))
				}
			}
		}
		// every query below sr.t. is answered with a referral one label deeper than the last one
		// (all "zones" served by this same server): an ever-deeper delegation chain.
		var mu sync.Mutex
		last := "sr.t."
		addr := zoneAddr("sr.t.")
		tr := func(q authsim.Query, h *dns.Msg) authsim.Action {
			mu.Lock()
			defer mu.Unlock()
			qn := zonemodel.Canon(q.QName)
			next := last
			if dns.IsSubDomain(last, qn) && qn != last {
				labels := dns.SplitDomainName(qn)
				k := dns.CountLabel(last) + 1
				next = zonemodel.Canon(strings.Join(labels[len(labels)-k:], "."))
			}
			last = next
			return vkReferral(next, "ns."+next, addr)(q, h)
		}
		for _, n := range vkSuffixes(tp.QName) {
			if !dns.IsSubDomain("sr.t.", n) || n == "sr.t." {
				continue
			}
			for _, t := range []uint16{dns.TypeA, dns.TypeNS} {
				sim.Script(key("sr.t.", n, t, -1), tr)
			}
		}
	case "truncate":
		sim.Script(key("fl.t.", tp.QName, tp.QType, -1), authsim.Truncate())
	case "truncate-dnskey":
		sim.Script(key("fl.t.", "fl.t.", dns.TypeDNSKEY, -1), authsim.Truncate())
		sim.Script(key("fl.t.", tp.QName, tp.QType, -1), authsim.Truncate())
	case "garbage-once":
		sim.Script(key("fl.t.", tp.QName, tp.QType, 0), authsim.Garbage())
	case "wrongid-once":
		sim.Script(key("fl.t.", tp.QName, tp.QType, 0), authsim.WrongID())
	case "drop-once":
		sim.Script(key("fl.t.", tp.QName, tp.QType, 0), authsim.Drop())
	case "drop-twice":
		sim.Script(key("fl.t.", tp.QName, tp.QType, 0), authsim.Drop())
		sim.Script(key("fl.t.", tp.QName, tp.QType, 1), authsim.Drop())
	case "drop-all":
		vkScriptServer(sim, "fl.t.", "drop", 0, vkSuffixes(tp.QName))
	default:
		panic("unknown special " + tp.Special)
	}
}

// vkUnscripted lists queries that reached a server scripted as lame without hitting a script
// (the generator's key enumeration missed a question): broken machinery, never a verdict.
func vkUnscripted(tp vkTopo, log []authsim.Query) []string {
	lame := map[string]bool{}
	for _, b := range tp.Beh {
		lame[b.Server] = true
	}
	if tp.Special == "drop-all" {
		lame["fl.t."] = true
	}
	var out []string
	for _, q := range log {
		if lame[q.Server] && !q.Scripted && !q.Malformed {
			out = append(out, q.Key().String())
		}
	}
	sort.Strings(out)
	return out
}
