//go:build verif

package h_c12

// The explorer and the oracle of C12/topo.

import (
	"encoding/json"
	"fmt"
	"strings"
	"testing"

	"github.com/miekg/dns"
	"github.com/semihalev/sdns/internal/verifshim/h_rpipe"
	"github.com/semihalev/sdns/internal/verifshim/vkit"
)

const (
	vkBudgetEDE1 = "Recursion work budget exceeded"
	vkBudgetEDE2 = "DNSSEC validation work budget exceeded"
)

type vkViol struct {
	Class string `json:"class"`
	Msg   string `json:"-"`
}

// vkReplay is the replay payload of one violation.
type vkReplay struct {
	Case  vkCase `json:"case"`
	Class string `json:"class"`
}

func (a vkAsk) overBudget() bool {
	return a.Latched != "" || strings.Contains(a.EDEText, vkBudgetEDE1) || strings.Contains(a.EDEText, vkBudgetEDE2)
}

func (a vkAsk) hasEDE(code uint16) bool {
	for _, e := range a.EDE {
		if e == code {
			return true
		}
	}
	return false
}

// judge applies the oracle to one run. resolvable: the firewall-off resolution of this topology
// produced a reply other than SERVFAIL (so nothing about the data justifies a cached failure).
func (w *vkWorld) judge(tp vkTopo, r vkRun, resolvable bool) []vkViol {
	var out []vkViol
	bad := func(class, f string, a ...any) { out = append(out, vkViol{Class: class, Msg: fmt.Sprintf(f, a...)}) }
	a := r.First
	if !a.Returned {
		bad("does-not-terminate", "no reply and no return within the wall cap of 10 x QueryTimeout (%v), three runs in a row", 10*vkQueryTimeout)
		return out
	}
	if a.Writes != 1 {
		bad("reply-count", "the client was sent %d replies (exactly one expected)", a.Writes)
	}
	mode := r.Case.Cfg.Mode
	if mode != "enforce" {
		if a.overBudget() {
			bad(mode+"-rejects", "firewall mode %q produced a work-budget rejection (latched=%q, EDE text %q): budgets must only be counted", mode, a.Latched, a.EDEText)
		}
		return out
	}
	lim := w.pipe(r.Case.Cfg).Limits()
	total := a.Packets
	if total > int(lim.MaxOutboundQueries) {
		bad("outbound-exceeded", "the upstream servers received %d packets (%d over TCP) for this one request tree, budget MaxOutboundQueries=%d (ledger counted %s)",
			total, a.TCP, lim.MaxOutboundQueries, vkSnapStr(a.Snap))
	}
	if s := a.Snap; s != nil {
		for _, d := range []struct {
			n      string
			got, m uint32
		}{{"internal-queries", s.Int, lim.MaxInternalQueries}, {"signature-checks", s.Sigs, lim.MaxSignatureChecks}, {"ds-digests", s.DS, lim.MaxDSDigests}, {"nsec3-hashes", s.N3, lim.MaxNSEC3Hashes}, {"outbound-ledger", s.Out, lim.MaxOutboundQueries}} {
			if d.got > d.m {
				bad("ledger-exceeded:"+d.n, "the request tree's ledger accepted %d %s, budget %d", d.got, d.n, d.m)
			}
		}
	}
	if a.overBudget() {
		if a.Rcode != dns.RcodeServerFailure {
			bad("overbudget-not-servfail", "the request tree ran over budget (%q) but the reply is %s", a.Latched, a.outcome())
		} else if r.Case.Client.OPT || r.Case.Client.DO {
			if len(a.EDE) == 0 {
				bad("overbudget-no-ede", "over-budget SERVFAIL (%q) without an Extended DNS Error although the client sent OPT", a.Latched)
			}
		}
		if resolvable {
			q := strings.ToLower(tp.QName)
			for _, f := range r.FailuresFirst {
				covers := (f.Kind == "question" && strings.EqualFold(f.QName, q) && f.QType == tp.QType) ||
					(f.Kind == "zone" && dns.IsSubDomain(f.Zone, q) && f.Zone != tp.Dead)
				if covers && f.Active {
					bad("overbudget-recorded", "the over-budget SERVFAIL (%q) left shared failure state %s in the cache although the data resolves fine with the firewall off", a.Latched, f)
				}
			}
			if b := r.Second; b != nil && b.Returned {
				// EDE 13, or a SERVFAIL with no EDE at all, no upstream packet and no budget rejection of its own
				fromCache := b.hasEDE(dns.ExtendedErrorCodeCachedError) ||
					(b.Rcode == dns.RcodeServerFailure && b.Packets == 0 && !b.overBudget() && len(b.EDE) == 0)
				if fromCache {
					bad("overbudget-cached", "a second client asking the same question right after the over-budget SERVFAIL (%q) was answered %s with %d upstream packets: a cached failure", a.Latched, b.outcome(), b.Packets)
				}
			}
		}
	}
	return out
}

func vkSnapStr(s *vkSnap) string {
	if s == nil {
		return "no ledger"
	}
	return fmt.Sprintf("out=%d int=%d sigs=%d ds=%d n3=%d exhausted=%v", s.Out, s.Int, s.Sigs, s.DS, s.N3, s.Exhausted)
}

func (w *vkWorld) describe(tp vkTopo) string {
	s := fmt.Sprintf("topology %s (%s/%s", tp.ID, tp.QName, dns.TypeToString[tp.QType])
	if tp.Arg != "" {
		s += "; " + tp.Arg
	}
	if tp.Special != "" {
		s += "; scripted " + tp.Special
	}
	if len(tp.Beh) > 0 {
		s += fmt.Sprintf("; %d servers scripted %s", len(tp.Beh), tp.Beh[0].Kind)
	}
	return s + ")"
}

// confirm re-runs a violating case from a cold state and requires the same class every time.
func (w *vkWorld) confirm(tp vkTopo, cs vkCase, class string, resolvable bool) (bool, vkRun, string) {
	var last vkRun
	msg := ""
	for i := 0; i < 3; i++ {
		last = w.run(cs, true)
		found := false
		for _, v := range w.judge(tp, last, resolvable) {
			if v.Class == class {
				found, msg = true, v.Msg
			}
		}
		if !found {
			return false, last, ""
		}
	}
	return true, last, msg
}

func (w *vkWorld) report(tp vkTopo, cs vkCase, v vkViol, resolvable bool) {
	ok, r, msg := w.confirm(tp, cs, v.Class, resolvable)
	if !ok {
		w.c.Add("dropped_unreproducible", 1)
		w.c.Note(fmt.Sprintf("dropped (not reproduced 3/3): %s: %s: %s", v.Class, cs, v.Msg))
		return
	}
	w.c.Violation(v.Class+"|"+cs.key(), fmt.Sprintf("%s — %s; config %s; upstream path: %s", msg, w.describe(tp), cs.Cfg, vkClip(vkPath(r.LogFirst), 900)),
		vkReplay{Case: cs, Class: v.Class})
}

func vkClip(s string, n int) string {
	if len(s) > n {
		return s[:n] + "..."
	}
	return s
}

// shadowEqualsOff: metamorphic relation SHADOW == OFF (same rcode, same answer RRsets). A difference is
// a violation only if both sides are self-consistent over repeated cold runs.
func (w *vkWorld) shadowEqualsOff(tp vkTopo, off, sh vkRun) {
	if off.First.reply() == sh.First.reply() {
		return
	}
	offSet, shSet := map[string]int{off.First.reply(): 1}, map[string]int{sh.First.reply(): 1}
	for i := 0; i < 3; i++ {
		offSet[w.run(off.Case, false).First.reply()]++
		shSet[w.run(sh.Case, false).First.reply()]++
	}
	if len(offSet) == 1 && len(shSet) == 1 {
		w.c.Violation("shadow-differs|"+sh.Case.key(), fmt.Sprintf("shadow mode changes the reply (4 of 4 cold runs each): firewall off -> %s ; shadow -> %s — %s; config %s",
			vkClip(off.First.reply(), 300), vkClip(sh.First.reply(), 300), w.describe(tp), sh.Case.Cfg), vkReplay{Case: sh.Case, Class: "shadow-differs"})
		return
	}
	w.c.Add("nondeterministic_baseline", 1)
	w.c.Note(fmt.Sprintf("replies vary between cold runs, shadow==off not judged: %s off=%v shadow=%v", sh.Case, len(offSet), len(shSet)))
}

type vkBudgetKind struct {
	Name string
	B    h_rpipe.Budget
}

// budgets: the fixed levels plus the calibrated ones (one below what the shadow run counted, per dimension).
func vkBudgets(s *vkSnap, thorough bool) []vkBudgetKind {
	out := []vkBudgetKind{
		{"tiny", vkTiny},
		{"default", h_rpipe.Budget{}},
		{"tiny-out", h_rpipe.Budget{Out: 4}},
		{"tiny-int", h_rpipe.Budget{Int: 2}},
		{"tiny-sigs", h_rpipe.Budget{Sigs: 4, RRSigs: 2, Keys: 2}},
	}
	if s == nil {
		return out
	}
	edge := func(name string, v uint32, set func(*h_rpipe.Budget, uint32)) {
		if v >= 2 {
			b := h_rpipe.Budget{}
			set(&b, v-1)
			out = append(out, vkBudgetKind{"edge-" + name, b})
		}
		// exactly what the shadow run's ledger counted: a run that puts MORE packets on the wire than
		// its ledger admits to (work the ledger never saw) completes here and is caught by the packet count
		if (thorough || name == "out") && v >= 1 {
			b := h_rpipe.Budget{}
			set(&b, v)
			out = append(out, vkBudgetKind{"exact-" + name, b})
		}
		if thorough {
			if v >= 6 {
				b := h_rpipe.Budget{}
				set(&b, v/2)
				out = append(out, vkBudgetKind{"half-" + name, b})
			}
		}
	}
	edge("out", s.Out, func(b *h_rpipe.Budget, v uint32) { b.Out = v })
	edge("int", s.Int, func(b *h_rpipe.Budget, v uint32) { b.Int = v })
	edge("sigs", s.Sigs, func(b *h_rpipe.Budget, v uint32) { b.Sigs = v })
	edge("ds", s.DS, func(b *h_rpipe.Budget, v uint32) { b.DS = v })
	edge("n3", s.N3, func(b *h_rpipe.Budget, v uint32) { b.N3 = v })
	return out
}

// group explores one (topology, qname-minimisation, ipv6) cell over modes and budgets.
func (w *vkWorld) group(tp vkTopo, qmin int, v6 bool, pin int) {
	c := w.c
	client := vkClient{OPT: true, DO: true}
	base := h_rpipe.Config{QMin: qmin, IPv6: v6}
	mk := func(mode string, b h_rpipe.Budget, kind ...string) vkCase {
		cfg := base
		cfg.Mode, cfg.Budget = mode, b
		cs := vkCase{Topo: tp.ID, Cfg: cfg, Client: client, Pin: pin}
		if len(kind) > 0 {
			cs.Kind = kind[0]
		}
		return cs
	}
	check := func(r vkRun, resolvable bool) bool {
		if len(r.Unscript) > 0 {
			c.HarnessError(fmt.Sprintf("queries reached a server scripted as lame without hitting a script (%s): %v", r.Case, r.Unscript))
			return false
		}
		for _, v := range w.judge(tp, r, resolvable) {
			w.report(tp, r.Case, v, resolvable)
		}
		a := r.First
		c.Outcome(fmt.Sprintf("%s:%s:%s", tp.Family, r.Case.Cfg.Mode, a.outcome()))
		c.DistinctStr("states", r.Case.String()+"|"+a.outcome())
		if a.Snap != nil && len(a.Snap.Exhausted) > 0 {
			c.DistinctStr("nontrivial", r.Case.String())
		}
		c.Max("max_packets", int64(a.Packets))
		c.Max("max_elapsed_ms", a.Elapsed.Milliseconds())
		return true
	}
	var off, sh vkRun
	var snap *vkSnap
	resolvable := false
	if !v6 {
		off = w.run(mk("off", h_rpipe.Budget{}), false)
		resolvable = off.First.Returned && off.First.Writes == 1 && off.First.Rcode != dns.RcodeServerFailure
		if !check(off, resolvable) {
			return
		}
	}
	sh = w.run(mk("shadow", vkTiny, "tiny"), false)
	if !check(sh, resolvable) {
		return
	}
	snap = sh.First.Snap
	if !v6 {
		w.shadowEqualsOff(tp, off, sh)
		if c.Thorough() {
			sd := w.run(mk("shadow", h_rpipe.Budget{}, "default"), false)
			check(sd, resolvable)
			w.shadowEqualsOff(tp, off, sd)
		}
	} else {
		// the IPv6 variant costs >= 2 s per run (the detached enrichment job sleeps first): the
		// firewall-off reference is the shadow reply itself
		resolvable = sh.First.Returned && sh.First.Rcode != dns.RcodeServerFailure
	}
	kinds := vkBudgets(snap, c.Thorough())
	if v6 {
		var sub []vkBudgetKind
		for _, k := range kinds {
			if k.Name == "edge-out" || k.Name == "default" || (c.Thorough() && (k.Name == "edge-int" || k.Name == "tiny-out")) {
				sub = append(sub, k)
			}
		}
		kinds = sub
	}
	for i, k := range kinds {
		if c.OverBudget() {
			return
		}
		r := w.run(mk("enforce", k.B, k.Name), true)
		if !check(r, resolvable) {
			return
		}
		c.Outcome(fmt.Sprintf("budget:%s:%s", k.Name, r.First.outcome()))
		if r.First.overBudget() {
			c.Add("overbudget_runs", 1)
			if resolvable && r.Second != nil {
				c.Add("second_client_checks", 1)
				c.Outcome("second-client:" + r.Second.outcome())
			}
		}
		if i == 0 && len(tp.ID)%7 == 0 {
			c.Sample(map[string]any{"case": r.Case.String(), "reply": r.First.outcome(), "upstream_packets": r.First.Packets, "ledger": vkSnapStr(r.First.Snap), "shadow_ledger": vkSnapStr(snap)})
		}
		if c.Thorough() && !v6 && (k.Name == "tiny" || k.Name == "edge-out") {
			// a client without EDNS: same bound, no EDE expected
			cs := r.Case
			cs.Client = vkClient{}
			check(w.run(cs, true), resolvable)
		}
	}
}

func TestVerifC12Topo(t *testing.T) {
	c := vkit.Init("C12/topo")
	defer c.Close()
	w, err := vkNewWorld(c)
	if err != nil {
		c.HarnessError(err.Error())
		return
	}
	defer w.sim.Close()
	if c.Replay != nil {
		var rp vkReplay
		if err := json.Unmarshal(c.Replay, &rp); err != nil {
			c.HarnessError("bad replay: " + err.Error())
			return
		}
		tp, ok := w.topo(rp.Case.Topo)
		if !ok {
			c.HarnessError("replay names an unknown topology: " + rp.Case.Topo)
			return
		}
		offCase := rp.Case
		offCase.Cfg.Mode, offCase.Cfg.Budget = "off", h_rpipe.Budget{}
		off := w.run(offCase, false)
		resolvable := off.First.Returned && off.First.Rcode != dns.RcodeServerFailure
		r := w.run(rp.Case, true)
		if rp.Class == "shadow-differs" {
			if off.First.reply() != r.First.reply() {
				c.Violation("shadow-differs|"+rp.Case.key(), fmt.Sprintf("off -> %s ; shadow -> %s", off.First.reply(), r.First.reply()), rp)
			}
			return
		}
		for _, v := range w.judge(tp, r, resolvable) {
			c.Violation(v.Class+"|"+rp.Case.key(), v.Msg+" — "+w.describe(tp)+"; path: "+vkClip(vkPath(r.LogFirst), 900), vkReplay{Case: rp.Case, Class: v.Class})
		}
		return
	}
	c.Note(fmt.Sprintf("C12/topo: universe of %d zones on %d loopback servers, %d topologies; upstream timeout %v, query timeout %v", len(w.g.u.Zones()), len(w.g.u.Servers()), len(w.g.topos), vkTimeout, vkQueryTimeout))
	type cell struct {
		tp   vkTopo
		qmin int
		v6   bool
		pin  int
	}
	var cells []cell
	for _, tp := range w.g.topos {
		if tp.Tier > 0 && !c.Thorough() {
			continue
		}
		for _, qmin := range []int{0, 5} {
			cells = append(cells, cell{tp, qmin, false, 0})
		}
		if tp.Multi && c.Thorough() {
			cells = append(cells, cell{tp, 0, false, 1})
		}
		if tp.V6 && (c.Thorough() || tp.Family != "glueless" || strings.HasPrefix(tp.ID, "glueless/gk2") || strings.HasPrefix(tp.ID, "glueless/gk1")) {
			cells = append(cells, cell{tp, 0, true, 0})
		}
	}
	capped := false
	for i, cl := range cells {
		if !c.Mine(i) {
			continue
		}
		if c.OverBudget() {
			capped = true
			break
		}
		w.group(cl.tp, cl.qmin, cl.v6, cl.pin)
		c.Add("cells", 1)
		if c.NumViolations() > 4 {
			break // enough counterexamples from this shard
		}
	}
	if capped {
		c.Cap("time budget reached before every (topology, qmin) cell was explored")
	}
	c.Add("pipelines_built", int64(w.built))
}
