//go:build verif

package h_c12

// C12/endless — one client query against an authority that supplies UNBOUNDED,
// never-repeating data ends by a STRUCTURAL bound of the resolver, not by the
// request deadline.
//
// The finite topologies of C12/topo cannot contain this: a chain that never
// repeats defeats every loop detector and is only ended by a counter. Here the
// authority side is GENERATIVE (authsim.SetHonest): what a server answers is a
// pure function of (socket, question) - no counters, so retries, duplicates and
// arrival order do not matter.
//
// Families (one shape of endless data each; qname in brackets):
//
//	alias     [a0.ch. A]        aN.ch.  CNAME a(N+1).ch.            one zone, one hop per response
//	salias    [a0.sc. A]        the same in a SIGNED zone (Ed25519), each CNAME with its RRSIG
//	xalias    [a0.z0.x. A]      aN.zN.x. CNAME a(N+1).z(N+1).x.     every target in a never-seen zone (referral + answer per hop)
//	dname     [www.d0.dn. A]    dN.dn. DNAME d(N+1).dn. (+ the synthesised CNAME), never repeating
//	deep      [w.l.l. ... .deep. A]  120 nested zones: every answer is a referral one label deeper, with glue
//	                            (a name holds < 128 labels, so this family is the longest chain DNS can express, not an endless one)
//	glueless1 [www.g1n0.gl. A]  zone g1nK.gl. NS ns.g1n(K+1).gl. without glue: the NS host of zone k lives in fresh zone k+1, without end
//	glueless2 [www.g2n0.gl. A]  the same with TWO NS hosts per zone (zones 2K+1 and 2K+2): a binary tree of fresh zones
//	gltree    [www.t0.gl. A]    a FINITE glueless tree: 3 NS hosts per zone, each in a fresh zone, 12 levels, then NXDOMAIN (3^12 leaves)
//	nsalias   [www.n0.na. A]    n0.na. NS a0.na. without glue; aN.na. CNAME a(N+1).na.: the NS host's address is an endless alias chain
//
// Space: family x firewall {off, shadow (tiny budgets, counted only), enforce
// small (out 8 / int 4), enforce default} x qname-minimisation {off, 5} x
// client {plain, DO, CD} [+ validation off for the plain client].
//
// Oracle (no verdict depends on the clock: the authority answers at once, the
// query timeout is 10 s, the upstream timeout 1 s):
//
//	(a) exactly one reply, NOERROR or SERVFAIL;
//	(b) off / shadow: no budget rejection, and the upstream packets the
//	    authority RECEIVED for the query (authsim log) <= B(family), a ceiling
//	    derived from the resolver's own constants (vkEBound). A case whose log
//	    passes 10 x B is "unbounded": at that point the verdict is fixed, and
//	    only then the authority stops being endless (it answers every generated
//	    name with a terminal A record) so that the case does not have to wait
//	    for the deadline;
//	(c) enforce: packets <= MaxOutboundQueries, ledger counters <= caps, an
//	    over-budget tree is answered SERVFAIL with an EDE for EDNS clients;
//	(d) shadow reply == off reply (rcode + answer RRsets) when both ended
//	    structurally.
//
// A violation is re-run 3 x from a cold state and dropped (and counted) when
// it does not reproduce every time.
//
// Families known to violate on the unchanged tree are listed in vkEKnownBad
// and are skipped unless VERIF_C12_ENDLESS_ALL=1 (a replay runs whatever it
// names).

import (
	"encoding/json"
	"fmt"
	"math/big"
	"net"
	"os"
	"strconv"
	"strings"
	"sync/atomic"
	"testing"
	"time"

	"github.com/miekg/dns"
	"github.com/semihalev/sdns/internal/verifshim/authsim"
	"github.com/semihalev/sdns/internal/verifshim/h_rpipe"
	"github.com/semihalev/sdns/internal/verifshim/vkit"
	"github.com/semihalev/sdns/internal/verifshim/zonemodel"
)

const (
	vkETimeout      = 1 * time.Second  // per upstream exchange: nothing is ever dropped, so it only matters on a disturbed machine
	vkEQueryTimeout = 10 * time.Second // generous: a structural bound must end the case long before
	vkEDeepLevels   = 120
	vkETripFactor   = 10
)

// resolver constants the ceilings are derived from (the code's own numbers)
const (
	vkECnameLoop   = 10 // cache.additionalAnswer: cnameDepth := 10 (hops per invocation)
	vkECnameNest   = 10 // cache.maxCnameChaseDepth (nested invocations)
	vkEDnameDepth  = 10 // resolver.maxDnameDepth
	vkEMaxdepth    = 30 // cfg.Maxdepth (h_rpipe sets 30 = the sdns default): delegations followed per Resolve
	vkEQueryerNest = 32 // middleware.maxQueryerRecursion: nested internal queries
	vkETreeFan     = 3  // gltree: NS hosts per delegation
	vkETreeDepth   = 12 // gltree: the tree ends here
	vkESetup       = 10 // root referral, root DNSKEY, TLD DNSKEY/DS denial, a retry or two
)

// vkEKnownBad: families that violated clause (b) before the repairs 818b195 (the four alias shapes) and 8a4f7d4 (gltree).
var vkEKnownBad = map[string]string{
	"alias":   "cache CNAME chase: 10 hops per invocation ^ 10 nested invocations, ended only by the deadline",
	"salias":  "cache CNAME chase (signed zone)",
	"xalias":  "cache CNAME chase (fresh zone per hop)",
	"nsalias": "cache CNAME chase inside a name-server address lookup",
	"gltree":  "NS-address lookups: fan-out ^ nesting, every sibling of a failed lookup is tried at every level",
}

type vkEFamily struct {
	Name  string
	QName string
	// PerHop: upstream packets one step of the chain costs at most (referral + answer, + one for a minimised probe)
	PerHop int
	// Steps: the largest number of chain steps the code's constants can be read to intend
	Steps int
	Why   string
}

func vkEDeepApex(levels int) string { return strings.Repeat("l.", levels) + "deep." }

var vkEFamilies = []vkEFamily{
	{"alias", "a0.ch.", 1, vkECnameLoop * vkECnameNest,
		"cnameDepth 10 hops per additionalAnswer invocation x maxCnameChaseDepth 10 nested invocations, 1 packet per hop"},
	{"salias", "a0.sc.", 1, vkECnameLoop * vkECnameNest,
		"as alias; the zone's DNSKEY is fetched once (setup)"},
	{"xalias", "a0.z0.x.", 3, vkECnameLoop * vkECnameNest,
		"as alias, but every hop crosses a fresh delegation: referral + answer (+ 1 minimised probe) per hop"},
	{"dname", "www.d0.dn.", 2, vkECnameLoop * vkECnameNest,
		"maxDnameDepth 10 nested DNAME follow-ups; every DNAME answer carries a synthesised CNAME, which the cache chases like an alias chain: 10 x 10 hops, 1 packet (+ 1 minimised probe) per hop"},
	{"deep", "w." + vkEDeepApex(vkEDeepLevels), 1, vkEMaxdepth,
		"Maxdepth 30 delegations per Resolve, 1 packet per referral (names deeper than the minimisation level are not probed)"},
	{"glueless1", "www.g1n0.gl.", 2, vkEQueryerNest,
		"every NS-address lookup is one nested internal query: maxQueryerRecursion 32 levels, referral (+ 1 minimised probe) per level"},
	{"glueless2", "www.g2n0.gl.", 2, 2 * vkEQueryerNest,
		"as glueless1 with 2 NS hosts per delegation: 2 lookups per level x 32 levels if the fan-out adds, 2^32 if it multiplies"},
	{"gltree", "www.t0.gl.", 2, vkETreeFan * vkEQueryerNest,
		"a finite but exponential tree: every zone has 3 glueless NS hosts in 3 fresh zones, the names of level 12 do not exist (NXDOMAIN); 3 lookups per level x 32 levels if the fan-out adds - 3^12 = 531441 lookups if fan-out and nesting multiply"},
	{"nsalias", "www.n0.na.", 1, vkECnameLoop * vkECnameNest,
		"one NS-address lookup whose answer is chased like an alias chain: 10 x 10 hops, 1 packet per hop"},
}

func vkEFamilyOf(name string) (vkEFamily, bool) {
	for _, f := range vkEFamilies {
		if f.Name == name {
			return f, true
		}
	}
	return vkEFamily{}, false
}

// vkEBound: ceiling B on the upstream packets of one client query with no budget in force:
// 2 x (setup + steps x packets per step).
func vkEBound(f vkEFamily) int { return 2 * (vkESetup + f.Steps*f.PerHop) }

// ---------------------------------------------------------------- the generative authority

type vkEGen struct {
	u   *zonemodel.Universe
	sim *authsim.Sim
	sc  *zonemodel.Zone

	base    atomic.Int64 // log length when the case started
	limit   atomic.Int64 // trip threshold (packets); 0 = never
	tripped atomic.Bool
}

func (g *vkEGen) arm(limit int) {
	g.base.Store(int64(g.sim.Count("")))
	g.limit.Store(int64(limit))
	g.tripped.Store(false)
}

// vkENum parses "<prefix><digits>" ("a17" -> 17).
func vkENum(label, prefix string) (uint64, bool) {
	if !strings.HasPrefix(label, prefix) || len(label) == len(prefix) {
		return 0, false
	}
	d := label[len(prefix):]
	for _, ch := range d {
		if ch < '0' || ch > '9' {
			return 0, false
		}
	}
	n, err := strconv.ParseUint(d, 10, 63)
	return n, err == nil
}

// vkEGlLabel: glueless zone labels g<fan-out 1|2>n<number>; the NS hosts of zone number N live in the zones
// N+1 (fan-out 1) or 2N+1 and 2N+2 (fan-out 2: a binary tree that never repeats).
func vkEGlLabel(l string) (fan int, children []string, ok bool) {
	if len(l) < 4 || l[0] != 'g' || (l[1] != '1' && l[1] != '2') || l[2] != 'n' {
		return 0, nil, false
	}
	n, good := new(big.Int).SetString(l[3:], 10)
	if !good || n.Sign() < 0 || strings.Trim(l[3:], "0123456789") != "" {
		return 0, nil, false
	}
	fan = int(l[1] - '0')
	if fan == 1 {
		children = []string{l[:3] + new(big.Int).Add(n, big.NewInt(1)).String()}
	} else {
		d := new(big.Int).Lsh(n, 1)
		children = []string{l[:3] + new(big.Int).Add(d, big.NewInt(1)).String(), l[:3] + new(big.Int).Add(d, big.NewInt(2)).String()}
	}
	return fan, children, true
}

func vkEAddr4(zone string) net.IP {
	h := vkDHash(zone)
	return net.IPv4(198, 18, byte(h>>8), byte(1+h%250)).To4()
}

func vkEHdr(name string, t uint16, ttl uint32) dns.RR_Header {
	return dns.RR_Header{Name: name, Rrtype: t, Class: dns.ClassINET, Ttl: ttl}
}

func vkECname(owner, target string) *dns.CNAME {
	return &dns.CNAME{Hdr: vkEHdr(owner, dns.TypeCNAME, 300), Target: target}
}

func vkETerminalA(owner string) *dns.A {
	return &dns.A{Hdr: vkEHdr(owner, dns.TypeA, 60), A: net.IPv4(198, 18, 0, 200).To4()} // leads to the leaf socket
}

func vkENodata(m *dns.Msg, zone string) *dns.Msg {
	m.Authoritative = true
	m.Ns = []dns.RR{vkDSOA(zone)}
	return m
}

// honest: generated names by rule (a pure function of socket + question), the rest from the model.
func (g *vkEGen) honest(server string, q dns.Question, do bool) *dns.Msg {
	if lim := g.limit.Load(); lim > 0 && !g.tripped.Load() && int64(g.sim.Count(""))-g.base.Load() > lim {
		g.tripped.Store(true)
	}
	name := strings.ToLower(q.Name)
	labels := dns.SplitDomainName(name)
	if len(labels) < 2 || q.Qclass != dns.ClassINET {
		return g.u.ServerAnswer(server, q, do)
	}
	tld := labels[len(labels)-1]
	second := labels[len(labels)-2]
	m := new(dns.Msg)
	// the verdict is fixed once the log passed 10 x B: end every chain
	terminal := func() *dns.Msg {
		m.Authoritative = true
		if q.Qtype == dns.TypeA {
			m.Answer = []dns.RR{vkETerminalA(q.Name)}
			return m
		}
		return vkENodata(m, tld+".")
	}
	switch {
	case (server == "ch" && tld == "ch") || (server == "na" && tld == "na" && second[0] == 'a'):
		// aN.<tld>.  CNAME  a(N+1).<tld>.
		n, ok := vkENum(second, "a")
		if !ok || len(labels) != 2 {
			break
		}
		if g.tripped.Load() {
			return terminal()
		}
		m.Authoritative = true
		m.Answer = []dns.RR{vkECname(q.Name, fmt.Sprintf("a%d.%s.", n+1, tld))}
		return m
	case server == "sc" && tld == "sc":
		n, ok := vkENum(second, "a")
		if !ok || len(labels) != 2 {
			break
		}
		if g.tripped.Load() {
			// unsigned data in a signed zone would be bogus: end the chain with a signed record
			m.Authoritative = true
			if q.Qtype != dns.TypeA {
				break
			}
			a := vkETerminalA(name)
			m.Answer = []dns.RR{a}
			if do {
				m.Answer = append(m.Answer, zonemodel.SignWith(g.sc.ZSK, "sc.", []dns.RR{a}, g.u.Now))
			}
			return m
		}
		m.Authoritative = true
		cn := vkECname(name, fmt.Sprintf("a%d.sc.", n+1))
		m.Answer = []dns.RR{cn}
		if do {
			m.Answer = append(m.Answer, zonemodel.SignWith(g.sc.ZSK, "sc.", []dns.RR{cn}, g.u.Now))
		}
		return m
	case tld == "x" && (server == "x" || server == "leaf"):
		n, ok := vkENum(second, "z")
		if !ok {
			break
		}
		zone := second + ".x."
		host := "ns." + zone
		if server == "x" {
			// the parent side: a referral to the fresh zone, in-bailiwick NS host with glue
			m.Ns = []dns.RR{&dns.NS{Hdr: vkEHdr(zone, dns.TypeNS, 3600), Ns: host}}
			m.Extra = []dns.RR{&dns.A{Hdr: vkEHdr(host, dns.TypeA, 3600), A: vkEAddr4(zone)}}
			return m
		}
		m.Authoritative = true
		switch {
		case name == host && q.Qtype == dns.TypeA:
			m.Answer = []dns.RR{&dns.A{Hdr: vkEHdr(q.Name, dns.TypeA, 3600), A: vkEAddr4(zone)}}
		case name == zone && q.Qtype == dns.TypeNS:
			m.Answer = []dns.RR{&dns.NS{Hdr: vkEHdr(q.Name, dns.TypeNS, 3600), Ns: host}}
		case len(labels) == 3 && strings.HasPrefix(labels[0], "a"):
			if g.tripped.Load() {
				return terminal()
			}
			m.Answer = []dns.RR{vkECname(q.Name, fmt.Sprintf("a%d.z%d.x.", n+1, n+1))}
		default:
			return vkENodata(m, zone)
		}
		return m
	case server == "dn" && tld == "dn":
		n, ok := vkENum(second, "d")
		if !ok {
			break
		}
		owner := second + ".dn."
		if len(labels) == 2 {
			m.Authoritative = true
			if q.Qtype == dns.TypeDNAME && !g.tripped.Load() {
				m.Answer = []dns.RR{&dns.DNAME{Hdr: vkEHdr(q.Name, dns.TypeDNAME, 300), Target: fmt.Sprintf("d%d.dn.", n+1)}}
				return m
			}
			return vkENodata(m, "dn.")
		}
		if g.tripped.Load() {
			return terminal()
		}
		m.Authoritative = true
		target := fmt.Sprintf("d%d.dn.", n+1)
		prefix := name[:len(name)-len(owner)]
		m.Answer = []dns.RR{&dns.DNAME{Hdr: vkEHdr(owner, dns.TypeDNAME, 300), Target: target}}
		if q.Qtype != dns.TypeDNAME {
			m.Answer = append(m.Answer, &dns.CNAME{Hdr: vkEHdr(q.Name, dns.TypeCNAME, 0), Target: prefix + target})
		}
		return m
	case tld == "gl" && (server == "gl" || server == "leaf") && strings.HasPrefix(second, "t0"):
		path := second[2:]
		if strings.Trim(path, "abc") != "" {
			break
		}
		if server == "leaf" || g.tripped.Load() {
			return terminal()
		}
		m.Authoritative = len(path) >= vkETreeDepth
		if len(path) >= vkETreeDepth {
			m.Rcode = dns.RcodeNameError
			m.Ns = []dns.RR{vkDSOA("gl.")}
			return m
		}
		for i := 0; i < vkETreeFan; i++ {
			m.Ns = append(m.Ns, &dns.NS{Hdr: vkEHdr(second+".gl.", dns.TypeNS, 3600), Ns: "ns." + second + string(rune('a'+i)) + ".gl."})
		}
		return m
	case tld == "gl" && (server == "gl" || server == "leaf"):
		_, children, ok := vkEGlLabel(second)
		if !ok {
			break
		}
		zone := second + ".gl."
		if server == "leaf" || g.tripped.Load() {
			// only reachable after the trip (no address is ever handed out before)
			return terminal()
		}
		for _, ch := range children {
			if len(ch) > 63 {
				// only a resolver that nests ~200 levels deep gets here (fan-out 2); fan-out 1 never does
				m.Ns = nil
				m.Rcode = dns.RcodeServerFailure
				return m
			}
			m.Ns = append(m.Ns, &dns.NS{Hdr: vkEHdr(zone, dns.TypeNS, 3600), Ns: "ns." + ch + ".gl."})
		}
		return m
	case server == "na" && tld == "na":
		if _, ok := vkENum(second, "n"); !ok {
			break
		}
		if g.tripped.Load() {
			return terminal()
		}
		m.Ns = []dns.RR{&dns.NS{Hdr: vkEHdr(second+".na.", dns.TypeNS, 3600), Ns: "a0.na."}}
		return m
	case server == "leaf" && tld == "na":
		// reachable only after the trip (a0.na. never resolves before)
		return terminal()
	}
	return g.u.ServerAnswer(server, q, do)
}

func vkEUniverse() *zonemodel.Universe {
	u := zonemodel.NewUniverse("c12-endless")
	u.AddZone(zonemodel.ZoneSpec{Apex: ".", Mode: zonemodel.NSEC, Alg: zonemodel.AlgECDSAP256})
	for _, t := range []string{"ch", "x", "dn", "gl", "na", "leaf"} {
		u.AddZone(zonemodel.ZoneSpec{Apex: t + ".", Mode: zonemodel.Unsigned, Server: t, TTL: 3600})
	}
	u.AddZone(zonemodel.ZoneSpec{Apex: "sc.", Mode: zonemodel.NSEC, Alg: zonemodel.AlgED25519, CSK: true, Server: "sc", TTL: 3600})
	for i := 0; i <= vkEDeepLevels; i++ {
		u.AddZone(zonemodel.ZoneSpec{Apex: vkEDeepApex(i), Mode: zonemodel.Unsigned, TTL: 3600})
	}
	u.Build()
	return u
}

// ---------------------------------------------------------------- the world

type vkEWorld struct {
	c     *vkit.Ctx
	u     *zonemodel.Universe
	sim   *authsim.Sim
	gen   *vkEGen
	pipes map[string]*h_rpipe.Pipeline
	built int
}

func vkENewWorld(c *vkit.Ctx) (*vkEWorld, error) {
	u := vkEUniverse()
	sim, err := authsim.Start(u)
	if err != nil {
		return nil, err
	}
	g := &vkEGen{u: u, sim: sim, sc: u.Zone("sc.")}
	sim.SetHonest(g.honest)
	h_rpipe.PinServerOrder(func(n int) int { return 0 })
	return &vkEWorld{c: c, u: u, sim: sim, gen: g, pipes: map[string]*h_rpipe.Pipeline{}}, nil
}

func (w *vkEWorld) close() {
	for _, p := range w.pipes {
		p.Close()
	}
	w.sim.Close()
}

func (w *vkEWorld) remap(addr string) string {
	if host, _, err := net.SplitHostPort(addr); err == nil {
		if ip := net.ParseIP(host); ip != nil && vkDNet4.Contains(ip) {
			return w.sim.Addr("leaf")
		}
	}
	return w.sim.Remap(addr)
}

var (
	vkESmall  = h_rpipe.Budget{Out: 8, Int: 4}
	vkEShadow = h_rpipe.Budget{Out: 4, Int: 2, Keys: 2, RRSigs: 2, Sigs: 4, DS: 2, N3: 2}
)

// vkECase is one replayable evaluation.
type vkECase struct {
	Family    string `json:"family"`
	Mode      string `json:"mode"`             // off | shadow | enforce
	Budget    string `json:"budget,omitempty"` // enforce: small | default | out-only | int-only (thorough)
	QMin      int    `json:"qmin"`
	Client    string `json:"client"` // plain | opt (EDNS, no DO) | do | cd (DO + CD)
	DNSSECOff bool   `json:"dnssec_off,omitempty"`
}

func (cs vkECase) fw() string {
	if cs.Mode == "enforce" {
		return "enforce-" + cs.Budget
	}
	return cs.Mode
}

func (cs vkECase) cell() string {
	s := fmt.Sprintf("%s|qmin%d|client=%s", cs.Family, cs.QMin, cs.Client)
	if cs.DNSSECOff {
		s += "|nodnssec"
	}
	return s
}

func (cs vkECase) key() string { return cs.cell() + "|" + cs.fw() }

func (cs vkECase) cfg() h_rpipe.Config {
	cfg := h_rpipe.Config{Mode: cs.Mode, QMin: cs.QMin, DNSSECOff: cs.DNSSECOff, Timeout: vkETimeout, QueryTimeout: vkEQueryTimeout}
	switch {
	case cs.Mode == "shadow":
		cfg.Budget = vkEShadow
	case cs.Mode == "enforce" && cs.Budget == "small":
		cfg.Budget = vkESmall
	case cs.Mode == "enforce" && cs.Budget == "out-only":
		cfg.Budget = h_rpipe.Budget{Out: 12}
	case cs.Mode == "enforce" && cs.Budget == "int-only":
		cfg.Budget = h_rpipe.Budget{Int: 6}
	}
	return cfg
}

func (w *vkEWorld) pipe(cfg h_rpipe.Config) (*h_rpipe.Pipeline, error) {
	k := cfg.String()
	if p := w.pipes[k]; p != nil {
		return p, nil
	}
	p, err := h_rpipe.New(w.sim, cfg, w.remap)
	if err != nil {
		return nil, err
	}
	w.pipes[k] = p
	w.built++
	return p, nil
}

type vkERun struct {
	Case      vkECase
	A         vkAsk
	Tripped   bool // the log passed 10 x B while the query was being resolved
	B         int
	Servers   map[string]int // packets per socket
	Log       []authsim.Query
	Deepest   string // the longest / last generated name the authority was asked for
	Abandoned bool
}

func (r vkERun) structural() bool { return r.A.Returned && !r.Tripped && r.A.Packets <= r.B }

// runOnce: cold state, one client ask, watched to quiescence.
func (w *vkEWorld) runOnce(cs vkECase) (vkERun, error) {
	f, ok := vkEFamilyOf(cs.Family)
	if !ok {
		return vkERun{}, fmt.Errorf("unknown family %q", cs.Family)
	}
	cfg := cs.cfg()
	pl, err := w.pipe(cfg)
	if err != nil {
		return vkERun{}, err
	}
	pl.Reset()
	w.sim.Reset()
	run := vkERun{Case: cs, B: vkEBound(f)}
	w.gen.arm(vkETrip() * run.B)
	before := w.sim.Count("")
	opt, do := cs.Client != "plain", cs.Client == "do" || cs.Client == "cd"
	req := pl.Query(f.QName, dns.TypeA, opt, do)
	if cs.Client == "cd" {
		req.CheckingDisabled = true
	}
	r := pl.Ask(req, "tcp", h_rpipe.AskOpt{WallCap: 4 * vkEQueryTimeout})
	w.c.Add("evaluations", 1)
	w.c.Add("traces", 1)
	a := vkAsk{Returned: r.Returned, Writes: r.Writes, Elapsed: r.Elapsed}
	if r.Latched != nil {
		a.Latched = r.Latched.Error()
	}
	if r.Msg != nil {
		a.Rcode = r.Msg.Rcode
		a.Answer = vkAnswerKey(r.Msg)
		if o := r.Msg.IsEdns0(); o != nil {
			for _, e := range o.Option {
				if ede, ok := e.(*dns.EDNS0_EDE); ok {
					a.EDE = append(a.EDE, ede.InfoCode)
					a.EDEText = ede.ExtraText
				}
			}
		}
	}
	if !r.Returned {
		// the abandoned ask may still be running: this pipeline is unusable
		delete(w.pipes, cfg.String())
		run.Abandoned = true
		run.A = a
		run.Tripped = w.gen.tripped.Load()
		w.gen.limit.Store(1) // end whatever is still running
		return run, nil
	}
	a.Settled, _ = pl.Settle(6*time.Second, r.Ledger)
	a.Snap = vkSnapOf(r.Ledger)
	run.Tripped = w.gen.tripped.Load()
	log := w.sim.Log()
	run.Servers = map[string]int{}
	if before <= len(log) {
		run.Log = log[before:]
		for _, q := range run.Log {
			a.Packets++
			if q.Transport == "tcp" {
				a.TCP++
			}
			s := q.Server
			if strings.HasSuffix(s, "deep.") {
				s = "deep*"
			}
			run.Servers[s]++
			if n := strings.ToLower(q.QName); s != "." && len(n) >= len(run.Deepest) {
				run.Deepest = n
			}
		}
	}
	w.c.Add("transitions", int64(a.Packets))
	run.A = a
	return run, nil
}

func (w *vkEWorld) run(cs vkECase) (vkERun, error) {
	for try := 0; ; try++ {
		r, err := w.runOnce(cs)
		if err != nil {
			return r, err
		}
		if r.A.Returned && !r.A.Settled && try < 2 {
			w.c.Add("disturbed_reruns", 1)
			continue
		}
		return r, nil
	}
}

type vkEViol struct {
	Class string
	Msg   string
}

func (r vkERun) perServer() string {
	var s []string
	for _, k := range []string{".", "ch", "sc", "x", "dn", "gl", "na", "leaf", "deep*"} {
		if n := r.Servers[k]; n > 0 {
			s = append(s, fmt.Sprintf("%s=%d", k, n))
		}
	}
	return strings.Join(s, " ")
}

func (w *vkEWorld) judge(r vkERun) []vkEViol {
	var out []vkEViol
	bad := func(class, f string, a ...any) { out = append(out, vkEViol{class, fmt.Sprintf(f, a...)}) }
	a, cs := r.A, r.Case
	fam, _ := vkEFamilyOf(cs.Family)
	if !a.Returned {
		bad("does-not-terminate", "no reply and no return within 4 x QueryTimeout (%v); the authority had received %d packets (tripped=%v)", 4*vkEQueryTimeout, w.sim.Count(""), r.Tripped)
		return out
	}
	if a.Writes != 1 {
		bad("reply-count", "the client was sent %d replies (exactly one expected)", a.Writes)
	}
	if a.Rcode != dns.RcodeSuccess && a.Rcode != dns.RcodeServerFailure {
		bad("neither-answer-nor-servfail", "the query ended in %s", a.outcome())
	}
	if cs.Mode != "enforce" {
		if a.overBudget() {
			bad(cs.Mode+"-rejects", "firewall mode %q produced a work-budget rejection (latched=%q, EDE text %q): budgets must only be counted", cs.Mode, a.Latched, a.EDEText)
		}
		switch {
		case r.Tripped:
			bad("unbounded-work", "one client query %s/A is not ended by any structural bound with the firewall %s: the authority had received more than %d upstream packets (10 x B; B = %d = 2 x (%d setup + %d steps x %d packets): %s) and the resolution was still going - only the request deadline would have ended it; the case was cut short there (%d packets in the end, per socket: %s; last generated name asked: %s; reply after the cut: %s, %d answer records; ledger %s)",
				fam.QName, cs.Mode, vkETrip()*r.B, r.B, vkESetup, fam.Steps, fam.PerHop, fam.Why, a.Packets, r.perServer(), vkClip(r.Deepest, 80), a.outcome(), strings.Count(a.Answer, ";")+1, vkSnapStr(a.Snap))
		case a.Packets > r.B:
			bad("over-ceiling", "one client query %s/A cost %d upstream packets with the firewall %s, ceiling B = %d = 2 x (%d setup + %d steps x %d packets): %s (per socket: %s; last generated name asked: %s; reply %s; ledger %s)",
				fam.QName, a.Packets, cs.Mode, r.B, vkESetup, fam.Steps, fam.PerHop, fam.Why, r.perServer(), vkClip(r.Deepest, 80), a.outcome(), vkSnapStr(a.Snap))
		}
		return out
	}
	pl, err := w.pipe(cs.cfg())
	if err != nil {
		return out
	}
	lim := pl.Limits()
	if a.Packets > int(lim.MaxOutboundQueries) {
		bad("outbound-exceeded", "the upstream servers received %d packets (%d over TCP; per socket: %s) for this one request tree, budget MaxOutboundQueries=%d (ledger counted %s)",
			a.Packets, a.TCP, r.perServer(), lim.MaxOutboundQueries, vkSnapStr(a.Snap))
	}
	if s := a.Snap; s != nil {
		for _, d := range []struct {
			n      string
			got, m uint32
		}{{"internal-queries", s.Int, lim.MaxInternalQueries}, {"signature-checks", s.Sigs, lim.MaxSignatureChecks}, {"ds-digests", s.DS, lim.MaxDSDigests}, {"nsec3-hashes", s.N3, lim.MaxNSEC3Hashes}, {"outbound-ledger", s.Out, lim.MaxOutboundQueries}} {
			if d.got > d.m {
				bad("ledger-exceeded:"+d.n, "the request tree's ledger accepted %d %s, budget %d", d.got, d.n, d.m)
			}
		}
	}
	if a.overBudget() {
		if a.Rcode != dns.RcodeServerFailure {
			bad("overbudget-not-servfail", "the request tree ran over budget (%q) but the reply is %s", a.Latched, a.outcome())
		} else if cs.Client != "plain" && len(a.EDE) == 0 {
			bad("overbudget-no-ede", "over-budget SERVFAIL (%q) without an Extended DNS Error although the client sent OPT", a.Latched)
		}
	}
	return out
}

type vkEReplay struct {
	Case  vkECase `json:"case"`
	Class string  `json:"class"`
}

func (w *vkEWorld) message(r vkERun, v vkEViol) string {
	return fmt.Sprintf("%s — case %s (real default chain; generative authority, family %s); first upstream exchanges: %s", v.Msg, r.Case.key(), r.Case.Family, vkClip(vkPath(vkEHead(r.Log, 24)), 1400))
}

func vkEHead(l []authsim.Query, n int) []authsim.Query {
	if len(l) > n {
		return l[:n]
	}
	return l
}

// report: a violation must reproduce 3 x from a cold state.
func (w *vkEWorld) report(r vkERun, v vkEViol) {
	last, msg := r, v.Msg
	for i := 0; i < 3; i++ {
		rr, err := w.run(r.Case)
		if err != nil {
			w.c.HarnessError(err.Error())
			return
		}
		found := false
		for _, x := range w.judge(rr) {
			if x.Class == v.Class {
				found, msg, last = true, x.Msg, rr
			}
		}
		if !found {
			w.c.Add("dropped_unreproducible", 1)
			w.c.Note(fmt.Sprintf("dropped (not reproduced 3/3): %s: %s: %s", v.Class, r.Case.key(), vkClip(v.Msg, 300)))
			return
		}
	}
	w.c.Violation(v.Class+"|"+r.Case.key(), w.message(last, vkEViol{v.Class, msg}), vkEReplay{r.Case, v.Class})
}

func (w *vkEWorld) account(r vkERun) {
	c, a, cs := w.c, r.A, r.Case
	end := "structural"
	switch {
	case !a.Returned:
		end = "no-return"
	case r.Tripped:
		end = "unbounded"
	case a.Packets > r.B:
		end = "over-ceiling"
	}
	c.Outcome(fmt.Sprintf("%s:%s:%s:%s", cs.Family, cs.fw(), a.outcome(), end))
	c.DistinctStr("states", cs.key()+"|"+a.reply()+"|"+end)
	c.Max("max_packets_"+cs.Family+"_"+cs.fw(), int64(a.Packets))
	c.Max("max_elapsed_ms", a.Elapsed.Milliseconds())
	if a.Snap != nil {
		c.Max("max_internal_queries_"+cs.Family+"_"+cs.fw(), int64(a.Snap.Int))
		if len(a.Snap.Exhausted) > 0 {
			// non-trivial: the endless data really drove the request tree across a budget
			c.DistinctStr("nontrivial", cs.key())
		}
	}
	if end == "structural" {
		c.Add("ended_structurally", 1)
	}
}

// cell: one (family, qmin, client, validation) cell over the four firewall settings.
func (w *vkEWorld) cell(base vkECase) {
	c := w.c
	var off, sh *vkERun
	modes := []struct{ mode, budget string }{{"off", ""}, {"shadow", ""}, {"enforce", "small"}, {"enforce", "default"}}
	if c.Thorough() {
		modes = append(modes, struct{ mode, budget string }{"enforce", "out-only"}, struct{ mode, budget string }{"enforce", "int-only"})
	}
	for _, m := range modes {
		cs := base
		cs.Mode, cs.Budget = m.mode, m.budget
		r, err := w.run(cs)
		if err != nil {
			c.HarnessError("C12/endless: " + err.Error())
			return
		}
		w.account(r)
		for _, v := range w.judge(r) {
			w.report(r, v)
		}
		rr := r
		switch m.mode {
		case "off":
			off = &rr
		case "shadow":
			sh = &rr
		}
		if m.mode == "shadow" && base.Client == "do" && !base.DNSSECOff {
			c.Sample(map[string]any{"case": cs.key(), "reply": r.A.outcome(), "answer_records": strings.Count(r.A.Answer, ";") + 1, "upstream_packets": r.A.Packets, "ceiling_B": r.B,
				"per_socket": r.perServer(), "shadow_ledger": vkSnapStr(r.A.Snap), "last_name_asked": vkClip(r.Deepest, 60), "tripped": r.Tripped})
		}
	}
	if off != nil && sh != nil && off.structural() && sh.structural() {
		c.Add("shadow_off_comparisons", 1)
		if off.A.reply() != sh.A.reply() {
			// a difference counts only if both sides are self-consistent over 3 more cold runs each
			offSet, shSet := map[string]bool{off.A.reply(): true}, map[string]bool{sh.A.reply(): true}
			for i := 0; i < 3; i++ {
				if r, err := w.run(off.Case); err == nil {
					offSet[r.A.reply()] = true
				}
				if r, err := w.run(sh.Case); err == nil {
					shSet[r.A.reply()] = true
				}
			}
			if len(offSet) == 1 && len(shSet) == 1 {
				c.Violation("shadow-differs|"+sh.Case.key(), fmt.Sprintf("shadow mode changes the reply (4 of 4 cold runs each): firewall off -> %s ; shadow -> %s — case %s", vkClip(off.A.reply(), 300), vkClip(sh.A.reply(), 300), sh.Case.key()),
					vkEReplay{sh.Case, "shadow-differs"})
			} else {
				c.Add("nondeterministic_baseline", 1)
			}
		}
	}
}

// vkETrip: the cut-off as a multiple of B (VERIF_C12_ENDLESS_TRIP overrides it for manual exploration only).
func vkETrip() int {
	if v, err := strconv.Atoi(os.Getenv("VERIF_C12_ENDLESS_TRIP")); err == nil && v > 0 {
		return v
	}
	return vkETripFactor
}

// The five families of vkEKnownBad violated on /repo before 818b195 / 8a4f7d4; repaired there, every family is part of
// every run (VERIF_C12_ENDLESS_ALL=0 leaves those five out).
func vkEAll() bool { return os.Getenv("VERIF_C12_ENDLESS_ALL") != "0" }

func TestVerifC12Endless(t *testing.T) {
	c := vkit.Init("C12/endless")
	defer c.Close()
	w, err := vkENewWorld(c)
	if err != nil {
		c.HarnessError(err.Error())
		return
	}
	defer w.close()
	if c.Replay != nil {
		var rp vkEReplay
		if err := json.Unmarshal(c.Replay, &rp); err != nil {
			c.HarnessError("bad replay: " + err.Error())
			return
		}
		r, err := w.run(rp.Case)
		if err != nil {
			c.HarnessError(err.Error())
			return
		}
		if rp.Class == "shadow-differs" {
			oc := rp.Case
			oc.Mode, oc.Budget = "off", ""
			if off, err := w.run(oc); err == nil && off.A.reply() != r.A.reply() {
				c.Violation("shadow-differs|"+rp.Case.key(), fmt.Sprintf("off -> %s ; shadow -> %s", off.A.reply(), r.A.reply()), rp)
			}
			return
		}
		for _, v := range w.judge(r) {
			c.Violation(v.Class+"|"+rp.Case.key(), w.message(r, v), vkEReplay{rp.Case, v.Class})
		}
		return
	}
	// cells, simplest first
	var cells []vkECase
	skipped := map[string]bool{}
	for _, f := range vkEFamilies {
		if _, bad := vkEKnownBad[f.Name]; bad && !vkEAll() {
			skipped[f.Name] = true
			continue
		}
		for _, qmin := range []int{0, 5} {
			for _, cl := range []string{"plain", "do", "cd"} {
				cells = append(cells, vkECase{Family: f.Name, QMin: qmin, Client: cl})
			}
			cells = append(cells, vkECase{Family: f.Name, QMin: qmin, Client: "plain", DNSSECOff: true})
			if c.Thorough() {
				// an EDNS client without DO, and validation off for every client
				cells = append(cells, vkECase{Family: f.Name, QMin: qmin, Client: "opt"})
				for _, cl := range []string{"opt", "do", "cd"} {
					cells = append(cells, vkECase{Family: f.Name, QMin: qmin, Client: cl, DNSSECOff: true})
				}
			}
		}
	}
	for f := range skipped {
		c.Note("C12/endless: family " + f + " is switched off (known finding: " + vkEKnownBad[f] + "); VERIF_C12_ENDLESS_ALL=1 runs it")
	}
	var bs []string
	for _, f := range vkEFamilies {
		bs = append(bs, fmt.Sprintf("%s B=%d", f.Name, vkEBound(f)))
	}
	c.Note(fmt.Sprintf("C12/endless: %d cells x 4 firewall settings; ceilings: %s; a case is cut short at 10 x B; upstream timeout %v, query timeout %v", len(cells), strings.Join(bs, ", "), vkETimeout, vkEQueryTimeout))
	capped := false
	for i, cl := range cells {
		if !c.Mine(i) {
			continue
		}
		if c.OverBudget() {
			capped = true
			break
		}
		w.cell(cl)
		c.Add("cells", 1)
		if c.NumViolations() > 4 {
			break
		}
	}
	if capped {
		c.Cap("time budget reached before every cell was explored")
	}
	c.Add("pipelines_built", int64(w.built))
}

// TestVerifC12EndlessSmoke prints one line per case (VERIF_ESMOKE=1, or a substring of the case key).
func TestVerifC12EndlessSmoke(t *testing.T) {
	f := os.Getenv("VERIF_ESMOKE")
	if f == "" {
		t.Skip()
	}
	c := vkit.Init("C12/endless-smoke")
	t0 := time.Now()
	w, err := vkENewWorld(c)
	if err != nil {
		t.Fatal(err)
	}
	defer w.close()
	fmt.Printf("universe: %d zones on %d sockets, started in %v\n", len(w.u.Zones()), len(w.u.Servers()), time.Since(t0).Round(time.Millisecond))
	for _, fam := range vkEFamilies {
		for _, qmin := range []int{0, 5} {
			for _, cl := range []string{"plain", "do", "cd", "plain/nodnssec"} {
				for _, m := range []struct{ mode, budget string }{{"off", ""}, {"shadow", ""}, {"enforce", "small"}, {"enforce", "default"}} {
					cs := vkECase{Family: fam.Name, Mode: m.mode, Budget: m.budget, QMin: qmin, Client: strings.TrimSuffix(cl, "/nodnssec"), DNSSECOff: strings.HasSuffix(cl, "/nodnssec")}
					if f != "1" && !strings.Contains(cs.key(), f) {
						continue
					}
					t1 := time.Now()
					r, err := w.run(cs)
					if err != nil {
						t.Fatal(err)
					}
					var vs []string
					for _, v := range w.judge(r) {
						vs = append(vs, v.Class)
					}
					fmt.Printf("%-52s %-20s pk=%-6d B=%-4d trip=%-5v ans=%-4d %7v wall=%7v settled=%v ledger{%s latched=%q} sockets{%s} viol=%v\n", cs.key(), r.A.outcome(), r.A.Packets, r.B, r.Tripped,
						strings.Count(r.A.Answer, ";")+1, r.A.Elapsed.Round(time.Millisecond), time.Since(t1).Round(time.Millisecond), r.A.Settled, vkSnapStr(r.A.Snap), r.A.Latched, r.perServer(), vs)
					if os.Getenv("VERIF_ESMOKE_PATH") != "" {
						fmt.Printf("    last: %s\n    path: %s\n", vkClip(r.Deepest, 100), vkClip(vkPath(vkEHead(r.Log, 60)), 4000))
					}
				}
			}
		}
	}
	fmt.Printf("total %v, pipelines built %d\n", time.Since(t0).Round(time.Millisecond), w.built)
}
