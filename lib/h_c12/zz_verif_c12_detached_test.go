//go:build verif

package h_c12

// C12/detached — the work that the DETACHED helper jobs of one client query
// perform is bounded.
//
// World: the real default chain (h_rpipe) with cfg.IPv6Access ON against an
// authsim universe whose authority side is GENERATIVE: below "evil." one
// server answers for an unbounded supply of fresh zones by rule (SetHonest):
//
//	server "evil" (the parent side): any name in a generated zone L.evil.
//	    -> referral  L.evil. NS ns.hLa.evil. [ns.hLb.evil. ...] + A glue only
//	       (the NS hosts live in zones that have never been seen before)
//	server "leaf" (every glue address leads here; the child side):
//	    A -> an answer, everything else -> NODATA with the zone's SOA
//
// so the detached IPv6 enrichment job of a delegation (Resolver.lookupV6Nss,
// started by processDelegation, sleeps 2 s, then looks up AAAA for the
// delegation's NS names) is referred into a fresh zone for every NS name it
// asks about - the shape of mutants/C12/v6chain_probe_test.go.txt. The zone
// names are a function of the referring zone alone (no counters), so the
// authority's behaviour does not depend on arrival order, retries or
// duplicates.
//
// Space: {firewall off, shadow, enforce with MaxOutboundQueries 3 / 6 / 10 / 32}
// x qname-minimisation {off, 5} x NS names per referral {1, 2} (3 in the
// thorough tier) x what the NS name's AAAA lookup meets {referral to a fresh
// zone ("chain"), NODATA, an AAAA answer, SERVFAIL} [x a second client query
// for a sibling name, thorough tier].
//
// Oracle (nothing is judged by the clock; polls only decide when to look):
//   - the client is sent exactly one reply, NOERROR or SERVFAIL;
//   - off / shadow: no budget rejection; after the reply the upstream log is
//     watched until it has been stable (all resolver pools empty incl. the
//     detached-job pool, ledger published, log length unchanged) over 3
//     consecutive polls 2.5 s apart - each longer than the job's 2 s sleep - or
//     until more than B distinct fresh zones have been referred to:
//     beyond B = "detached helper lookups of one client query keep walking
//     ever-deeper referrals". In these modes no budget bounds the work, so
//     the bound must come from the structure: B = 2 + 2n + 2 (n = NS names per
//     referral), see vkDBound;
//   - enforce: every packet any upstream server received between the ask and
//     quiescence (client path + detached jobs) <= MaxOutboundQueries, ledger
//     counters <= caps, an over-budget request tree is answered SERVFAIL with
//     an EDE. (How many zones the jobs touch INSIDE the budget is not judged:
//     the property bounds enforce mode by the budgets.)
//   - shadow reply == off reply (rcode + answer RRsets).
//
// A case that neither stabilises nor exceeds B within the hard cap is a
// harness error, never a verdict.
//
// Each case costs ~10 s of real time (4 polls), nearly all of it sleeping:
// every case owns its sim + pipeline, and a shard runs its cases concurrently.

import (
	"encoding/json"
	"fmt"
	"hash/fnv"
	"net"
	"os"
	"sort"
	"strings"
	"sync"
	"testing"
	"time"

	"github.com/miekg/dns"
	"github.com/semihalev/sdns/internal/verifshim/authsim"
	"github.com/semihalev/sdns/internal/verifshim/h_rpipe"
	"github.com/semihalev/sdns/internal/verifshim/vkit"
	"github.com/semihalev/sdns/internal/verifshim/zonemodel"
	"github.com/semihalev/sdns/middleware"
)

const (
	vkDPoll      = 2500 * time.Millisecond // longer than the enrichment job's 2 s sleep (resolver.defaultTimeout)
	vkDStable    = 3
	vkDCap       = 40 * time.Second // off / shadow: B is exceeded long before
	vkDMaxConc   = 12               // cases in flight per process
	vkDShadowOut = 6                // shadow counts against a budget the case crosses
)

// vkDBound: how many distinct fresh zones the authority may be made to refer to by ONE client
// query (and its detached helpers) when nothing but the structure bounds the work.
//
// Derivation from the fixed code on the chain variant: the client's own path crosses one generated
// delegation (z0.evil.; "evil." itself is static and its NS host is no generated name) = 1 zone.
// processDelegation starts ONE enrichment job for that delegation; the job looks up AAAA for the
// delegation's n NS names and each lookup is referred into one fresh zone = n zones. Those
// referrals carry A glue (no address lookups) and a job running as best-effort enrichment starts no
// further job, so it ends there: 1 + n. A second client query for a sibling name finds the
// delegation cached (0 more); allowing it to repeat everything gives 2(1 + n) = 2 + 2n, plus 2
// slack. The unfixed code adds n^k zones at hop k, one hop every 2 s, without end.
func vkDBound(ns int) int { return 2 + 2*ns + 2 }

// vkDVariant is one replayable case.
type vkDVariant struct {
	Mode   string `json:"mode"`          // off | shadow | enforce
	Out    uint32 `json:"out,omitempty"` // MaxOutboundQueries (shadow: counted only)
	QMin   int    `json:"qmin"`
	NS     int    `json:"ns"`   // NS names per generated referral
	AAAA   string `json:"aaaa"` // what an NS name's AAAA lookup meets: chain | nodata | answer | servfail
	Second bool   `json:"second,omitempty"`
}

func (v vkDVariant) fw() string {
	if v.Mode == "enforce" {
		return fmt.Sprintf("enforce%d", v.Out)
	}
	return v.Mode
}

func (v vkDVariant) cell() string {
	s := fmt.Sprintf("qmin=%d|ns=%d|aaaa=%s", v.QMin, v.NS, v.AAAA)
	if v.Second {
		s += "|second"
	}
	return s
}

func (v vkDVariant) key() string { return "fw=" + v.fw() + "|" + v.cell() }

// ---------------------------------------------------------------- the generative authority

const vkDSuffix = "evil."

// vkDLabel: the generated-zone label of a name below evil. ("www.z0.evil." -> "z0"), false for
// anything else. Labels: z<digits> (client zones), h..h z<digits> [a-c].. (k h's, k letters: the
// zone of the i-th NS host of the zone one h and one letter shorter).
func vkDLabel(name string) (string, bool) {
	name = strings.ToLower(name)
	if !strings.HasSuffix(name, "."+vkDSuffix) {
		return "", false
	}
	labels := dns.SplitDomainName(name)
	if len(labels) < 2 {
		return "", false
	}
	l := labels[len(labels)-2]
	k := 0
	for k < len(l) && l[k] == 'h' {
		k++
	}
	rest := l[k:]
	if len(rest) < 2 || rest[0] != 'z' {
		return "", false
	}
	i := 1
	for i < len(rest) && rest[i] >= '0' && rest[i] <= '9' {
		i++
	}
	if i == 1 || len(rest)-i != k {
		return "", false
	}
	for _, ch := range rest[i:] {
		if ch < 'a' || ch > 'c' {
			return "", false
		}
	}
	return l, true
}

func vkDHash(s string) uint32 {
	h := fnv.New32a()
	h.Write([]byte(s))
	return h.Sum32()
}

// glue addresses: 198.18.0.0/15 (v4) and 2001:db8::/32 (v6); the dial seam leads both to the sim
func vkDAddr4(hostZone string) net.IP {
	h := vkDHash(hostZone)
	return net.IPv4(198, 18, byte(h>>8), byte(1+h%250)).To4()
}

func vkDAddr6(hostZone string) net.IP {
	h := vkDHash(hostZone)
	return net.ParseIP(fmt.Sprintf("2001:db8::%x:%x", h>>16, 1+h&0xffff))
}

type vkDEvent struct {
	At     time.Duration
	Server string
	Q      string
	Kind   string // referral | answer | nodata | aaaa | servfail | static
}

type vkDGen struct {
	u     *zonemodel.Universe
	ns    int
	aaaa  string
	start time.Time

	mu       sync.Mutex
	referred map[string]bool // generated zones a referral was handed out for
	order    []string
	events   []vkDEvent
}

func (g *vkDGen) zones() int {
	g.mu.Lock()
	defer g.mu.Unlock()
	return len(g.order)
}

func (g *vkDGen) zoneList() []string {
	g.mu.Lock()
	defer g.mu.Unlock()
	return append([]string(nil), g.order...)
}

func (g *vkDGen) note(server string, q dns.Question, kind, zone string) {
	g.mu.Lock()
	if kind == "referral" && !g.referred[zone] {
		g.referred[zone] = true
		g.order = append(g.order, zone)
	}
	if len(g.events) < 400 {
		g.events = append(g.events, vkDEvent{At: time.Since(g.start), Server: server, Q: strings.ToLower(q.Name) + "/" + dns.TypeToString[q.Qtype], Kind: kind})
	}
	g.mu.Unlock()
}

func vkDSOA(zone string) dns.RR {
	return &dns.SOA{Hdr: dns.RR_Header{Name: zone, Rrtype: dns.TypeSOA, Class: dns.ClassINET, Ttl: 60},
		Ns: "ns." + zone, Mbox: "h." + zone, Serial: 1, Refresh: 3600, Retry: 600, Expire: 86400, Minttl: 60}
}

// honest is the sim's responder (authsim.SetHonest): generated names by rule, the rest from the model.
func (g *vkDGen) honest(server string, q dns.Question, do bool) *dns.Msg {
	label, ok := vkDLabel(q.Name)
	if !ok || (server != "evil" && server != "leaf" && server != "leaf6") {
		g.note(server, q, "static", "")
		return g.u.ServerAnswer(server, q, do)
	}
	zone := label + "." + vkDSuffix
	name := strings.ToLower(q.Name)
	m := new(dns.Msg)
	if server == "evil" {
		if strings.HasPrefix(label, "h") && g.aaaa != "chain" {
			// the NS hosts' names are plain data of evil. itself
			m.Authoritative = true
			isHost := name == "ns."+zone
			switch {
			case isHost && q.Qtype == dns.TypeA:
				m.Answer = []dns.RR{&dns.A{Hdr: dns.RR_Header{Name: q.Name, Rrtype: dns.TypeA, Class: dns.ClassINET, Ttl: 3600}, A: vkDAddr4(label)}}
				g.note(server, q, "answer", zone)
			case isHost && q.Qtype == dns.TypeAAAA && g.aaaa == "answer":
				m.Answer = []dns.RR{&dns.AAAA{Hdr: dns.RR_Header{Name: q.Name, Rrtype: dns.TypeAAAA, Class: dns.ClassINET, Ttl: 3600}, AAAA: vkDAddr6(label)}}
				g.note(server, q, "aaaa", zone)
			case isHost && q.Qtype == dns.TypeAAAA && g.aaaa == "servfail":
				m.Authoritative = false
				m.Rcode = dns.RcodeServerFailure
				g.note(server, q, "servfail", zone)
			default:
				m.Ns = []dns.RR{vkDSOA(vkDSuffix)}
				g.note(server, q, "nodata", zone)
			}
			return m
		}
		if len(label)+2 > 60 {
			m.Rcode = dns.RcodeServerFailure
			g.note(server, q, "servfail", zone)
			return m
		}
		// referral to the fresh zone: NS hosts in zones nobody has seen yet, A glue only
		for i := 0; i < g.ns; i++ {
			hl := "h" + label + string(rune('a'+i))
			host := "ns." + hl + "." + vkDSuffix
			m.Ns = append(m.Ns, &dns.NS{Hdr: dns.RR_Header{Name: zone, Rrtype: dns.TypeNS, Class: dns.ClassINET, Ttl: 3600}, Ns: host})
			m.Extra = append(m.Extra, &dns.A{Hdr: dns.RR_Header{Name: host, Rrtype: dns.TypeA, Class: dns.ClassINET, Ttl: 3600}, A: vkDAddr4(hl)})
		}
		g.note(server, q, "referral", zone)
		return m
	}
	// the child side
	m.Authoritative = true
	if q.Qtype == dns.TypeA {
		m.Answer = []dns.RR{&dns.A{Hdr: dns.RR_Header{Name: q.Name, Rrtype: dns.TypeA, Class: dns.ClassINET, Ttl: 60}, A: net.IPv4(192, 0, 2, 200).To4()}}
		g.note(server, q, "answer", zone)
		return m
	}
	m.Ns = []dns.RR{vkDSOA(zone)}
	g.note(server, q, "nodata", zone)
	return m
}

var (
	vkDUniOnce sync.Once
	vkDUni     *zonemodel.Universe
)

// one universe per process (read-only once built): signed root, insecure evil., two leaf sockets
func vkDUniverse() *zonemodel.Universe {
	vkDUniOnce.Do(func() {
		u := zonemodel.NewUniverse("c12-detached")
		u.AddZone(zonemodel.ZoneSpec{Apex: ".", Mode: zonemodel.NSEC, Alg: zonemodel.AlgECDSAP256})
		u.AddZone(zonemodel.ZoneSpec{Apex: vkDSuffix, Mode: zonemodel.Unsigned, Server: "evil", TTL: 3600})
		u.AddZone(zonemodel.ZoneSpec{Apex: "leaf.", Mode: zonemodel.Unsigned, Server: "leaf"})
		u.AddZone(zonemodel.ZoneSpec{Apex: "leaf6.", Mode: zonemodel.Unsigned, Server: "leaf6"})
		u.Build()
		vkDUni = u
	})
	return vkDUni
}

// ---------------------------------------------------------------- one case

type vkDWorld struct {
	v   vkDVariant
	sim *authsim.Sim
	gen *vkDGen
	pl  *h_rpipe.Pipeline
}

var (
	_, vkDNet4, _ = net.ParseCIDR("198.18.0.0/15")
	_, vkDNet6, _ = net.ParseCIDR("2001:db8::/32")
)

// vkDNewWorld must not run concurrently with itself (h_rpipe.New goes through the handler registry).
func vkDNewWorld(v vkDVariant) (*vkDWorld, error) {
	u := vkDUniverse()
	sim, err := authsim.Start(u)
	if err != nil {
		return nil, err
	}
	g := &vkDGen{u: u, ns: v.NS, aaaa: v.AAAA, start: time.Now(), referred: map[string]bool{}}
	sim.SetHonest(g.honest)
	leaf, leaf6 := sim.Addr("leaf"), sim.Addr("leaf6")
	remap := func(addr string) string {
		if host, _, err := net.SplitHostPort(addr); err == nil {
			if ip := net.ParseIP(host); ip != nil {
				if vkDNet4.Contains(ip) {
					return leaf
				}
				if vkDNet6.Contains(ip) {
					return leaf6 // a learnt IPv6 address is never dialled for real: it leads to a loopback socket of its own
				}
			}
		}
		return sim.Remap(addr)
	}
	cfg := h_rpipe.Config{Mode: v.Mode, QMin: v.QMin, IPv6: true, Timeout: vkTimeout, QueryTimeout: vkQueryTimeout}
	if v.Mode != "off" {
		cfg.Budget = h_rpipe.Budget{Out: v.Out}
	}
	pl, err := h_rpipe.New(sim, cfg, remap)
	if err != nil {
		sim.Close()
		return nil, err
	}
	return &vkDWorld{v: v, sim: sim, gen: g, pl: pl}, nil
}

func (w *vkDWorld) close() {
	w.pl.Close()
	w.sim.Close()
}

type vkDAsk struct {
	QName    string
	A        vkAsk
	AtReply  int // upstream packets when the chain returned
	Zones    int // distinct fresh zones referred to so far (cumulative over the case) when the watch ended
	Stable   bool
	Exceeded bool // off / shadow: more than B zones (watch abandoned)
	Watched  time.Duration
	Jobs     int // peak occupancy of the detached-job pool seen by the polls
}

type vkDRun struct {
	V      vkDVariant
	Asks   []vkDAsk
	Zones  []string
	Log    []authsim.Query
	Events []vkDEvent
	V6Hits int // packets that arrived over a learnt IPv6 address
}

func (w *vkDWorld) cap() time.Duration {
	if w.v.Mode == "enforce" {
		// the budget bounds the walk: at most one hop per 2 s per remaining packet
		return vkDCap + time.Duration(w.v.Out)*time.Second
	}
	return vkDCap
}

func (w *vkDWorld) ask(qname string) vkDAsk {
	pl := w.pl
	before := w.sim.Count("")
	req := pl.Query(qname, dns.TypeA, true, true)
	r := pl.Ask(req, "tcp", h_rpipe.AskOpt{})
	out := vkDAsk{QName: qname}
	a := vkAsk{Returned: r.Returned, Writes: r.Writes, Elapsed: r.Elapsed}
	if r.Latched != nil {
		a.Latched = r.Latched.Error()
	}
	if r.Msg != nil {
		a.Rcode = r.Msg.Rcode
		a.Answer = vkAnswerKey(r.Msg)
		if opt := r.Msg.IsEdns0(); opt != nil {
			for _, o := range opt.Option {
				if e, ok := o.(*dns.EDNS0_EDE); ok {
					a.EDE = append(a.EDE, e.InfoCode)
					a.EDEText = e.ExtraText
				}
			}
		}
	}
	out.AtReply = w.sim.Count("") - before
	if !r.Returned {
		out.A = a
		return out
	}
	// watch the upstream log
	bound := vkDBound(w.v.NS)
	start := time.Now()
	stable, last := 0, -1
	for {
		next := time.Now().Add(vkDPoll)
		for time.Now().Before(next) {
			if w.v.Mode != "enforce" && w.gen.zones() > bound {
				out.Exceeded = true
				break
			}
			time.Sleep(50 * time.Millisecond)
		}
		if out.Exceeded {
			break
		}
		at, lk, pr, v6 := pl.Inflight()
		if v6 > out.Jobs {
			out.Jobs = v6
		}
		busy := at+lk+pr+v6 > 0
		if r.Ledger != nil && w.v.Mode != "off" {
			if _, fin := middleware.VerifLedgerState(r.Ledger); !fin {
				busy = true
			}
		}
		n := w.sim.Count("")
		if !busy && n == last {
			stable++
		} else {
			stable = 0
		}
		last = n
		if stable >= vkDStable {
			out.Stable = true
			break
		}
		if time.Since(start) > w.cap() {
			break
		}
	}
	out.Watched = time.Since(start)
	out.Zones = w.gen.zones()
	a.Settled = out.Stable
	a.Snap = vkSnapOf(r.Ledger)
	log := w.sim.Log()
	if before <= len(log) {
		for _, q := range log[before:] {
			a.Packets++
			if q.Transport == "tcp" {
				a.TCP++
			}
		}
	}
	out.A = a
	return out
}

func (w *vkDWorld) run() vkDRun {
	run := vkDRun{V: w.v}
	names := []string{"www.z0." + vkDSuffix}
	if w.v.Second {
		names = append(names, "www2.z0."+vkDSuffix)
	}
	for _, n := range names {
		a := w.ask(n)
		run.Asks = append(run.Asks, a)
		if !a.A.Returned || !a.Stable {
			break
		}
	}
	run.Zones = w.gen.zoneList()
	run.Log = w.sim.Log()
	for _, q := range run.Log {
		if q.Server == "leaf6" {
			run.V6Hits++
		}
	}
	w.gen.mu.Lock()
	run.Events = append([]vkDEvent(nil), w.gen.events...)
	w.gen.mu.Unlock()
	return run
}

func (r vkDRun) reply() string {
	var s []string
	for _, a := range r.Asks {
		s = append(s, a.A.reply())
	}
	return strings.Join(s, " / ")
}

func (r vkDRun) outcome() string {
	var s []string
	for _, a := range r.Asks {
		s = append(s, a.A.outcome())
	}
	return strings.Join(s, "/")
}

func (r vkDRun) timeline(max int) string {
	var s []string
	for _, e := range r.Events {
		if e.Kind == "static" {
			continue
		}
		s = append(s, fmt.Sprintf("+%.1fs %s<-%s %s", e.At.Seconds(), e.Server, e.Q, e.Kind))
	}
	if len(s) > max {
		s = append(s[:max:max], fmt.Sprintf("... (%d more)", len(s)-max))
	}
	return strings.Join(s, "; ")
}

type vkDViol struct {
	Class string
	Msg   string
}

// unsettled: a watch that ended at the hard cap (neither stable nor beyond B): no verdict.
func (r vkDRun) unsettled() bool {
	for _, a := range r.Asks {
		if a.A.Returned && !a.Stable && !a.Exceeded {
			return true
		}
	}
	return false
}

func vkDJudge(r vkDRun) []vkDViol {
	lim := r.V.Out
	var out []vkDViol
	bad := func(class, f string, a ...any) { out = append(out, vkDViol{class, fmt.Sprintf(f, a...)}) }
	v := r.V
	for i, da := range r.Asks {
		a := da.A
		who := "the client query"
		if i > 0 {
			who = "the second client query (sibling name)"
		}
		if !a.Returned {
			bad("does-not-terminate", "%s %s: no reply and no return within the wall cap of 10 x QueryTimeout (%v)", who, da.QName, 10*vkQueryTimeout)
			return out
		}
		if a.Writes != 1 {
			bad("reply-count", "%s was sent %d replies (exactly one expected)", who, a.Writes)
		}
		if a.Rcode != dns.RcodeSuccess && a.Rcode != dns.RcodeServerFailure {
			bad("neither-answer-nor-servfail", "%s ended in %s", who, a.outcome())
		}
		if v.Mode != "enforce" {
			if a.overBudget() {
				bad(v.Mode+"-rejects", "firewall mode %q produced a work-budget rejection (latched=%q, EDE text %q): budgets must only be counted", v.Mode, a.Latched, a.EDEText)
			}
			if da.Exceeded {
				bad("detached-chain", "detached helper lookups of one client query keep walking ever-deeper referrals: %s %s/A was answered %s after %d upstream packets, and %.1f s later the authority had been made to refer to %d distinct fresh zones (bound %d = what one level of IPv6 enrichment of the delegations on the client's own path can touch, twice, + 2) with %d packets received and the walk still going; nothing bounds it with the firewall %s. Zones in order: %s",
					who, da.QName, a.outcome(), da.AtReply, da.Watched.Seconds(), da.Zones, vkDBound(v.NS), a.Packets, v.Mode, strings.Join(r.Zones, " "))
			}
			continue
		}
		if a.Packets > int(lim) {
			bad("outbound-exceeded", "the upstream servers received %d packets (%d by the time the client was answered, the rest from detached helper jobs; %d over TCP) for this one request tree, budget MaxOutboundQueries=%d (ledger counted %s)",
				a.Packets, da.AtReply, a.TCP, lim, vkSnapStr(a.Snap))
		}
		if s := a.Snap; s != nil {
			in, sg, ds, n3 := vkDDefaultLimits.in, vkDDefaultLimits.sg, vkDDefaultLimits.ds, vkDDefaultLimits.n3
			for _, d := range []struct {
				n      string
				got, m uint32
			}{{"internal-queries", s.Int, in}, {"signature-checks", s.Sigs, sg}, {"ds-digests", s.DS, ds}, {"nsec3-hashes", s.N3, n3}, {"outbound-ledger", s.Out, lim}} {
				if d.got > d.m {
					bad("ledger-exceeded:"+d.n, "the request tree's ledger accepted %d %s, budget %d", d.got, d.n, d.m)
				}
			}
		}
		if a.overBudget() {
			if a.Rcode != dns.RcodeServerFailure {
				bad("overbudget-not-servfail", "the request tree ran over budget (%q) but the reply is %s", a.Latched, a.outcome())
			} else if len(a.EDE) == 0 {
				bad("overbudget-no-ede", "over-budget SERVFAIL (%q) without an Extended DNS Error although the client sent OPT", a.Latched)
			}
		}
	}
	return out
}

// ---------------------------------------------------------------- the explorer

type vkDReplay struct {
	V     vkDVariant `json:"v"`
	Class string     `json:"class"`
}

type vkDExplorer struct {
	c      *vkit.Ctx
	hErr   sync.Once
	worlds int64
}

func (e *vkDExplorer) harnessErr(msg string) { e.hErr.Do(func() { e.c.HarnessError(msg) }) }

// runAll builds the worlds one after the other, then runs the cases concurrently.
func (e *vkDExplorer) runAll(vs []vkDVariant) []*vkDRun {
	out := make([]*vkDRun, len(vs))
	ws := make([]*vkDWorld, len(vs))
	for i, v := range vs {
		w, err := vkDNewWorld(v)
		if err != nil {
			e.harnessErr("C12/detached: cannot build the world of " + v.key() + ": " + err.Error())
			break
		}
		ws[i] = w
		e.worlds++
	}
	var wg sync.WaitGroup
	for i, w := range ws {
		if w == nil {
			continue
		}
		wg.Add(1)
		go func(i int, w *vkDWorld) {
			defer wg.Done()
			r := w.run()
			out[i] = &r
		}(i, w)
	}
	wg.Wait()
	for _, w := range ws {
		if w != nil {
			w.close()
		}
	}
	return out
}

func (e *vkDExplorer) judge(r *vkDRun) []vkDViol { return vkDJudge(*r) }

func (e *vkDExplorer) account(r *vkDRun) {
	c := e.c
	c.Add("evaluations", int64(len(r.Asks)))
	c.Add("traces", 1)
	c.Add("transitions", int64(len(r.Log)))
	last := r.Asks[len(r.Asks)-1]
	zones := fmt.Sprintf("zones=%d", len(r.Zones))
	if last.Exceeded {
		zones = "zones>B"
	}
	c.Outcome(fmt.Sprintf("%s:%s:%s:%s", r.V.AAAA, r.V.fw(), r.outcome(), zones))
	c.DistinctStr("states", r.V.key()+"|"+r.outcome()+"|"+zones)
	post := 0
	for _, a := range r.Asks {
		post += a.A.Packets - a.AtReply
		c.Max("max_packets", int64(a.A.Packets))
		c.Max("max_watch_ms", a.Watched.Milliseconds())
		c.Max("max_detached_jobs", int64(a.Jobs))
	}
	if post > 0 {
		// non-trivial: detached helpers really sent upstream packets after the client was answered
		c.DistinctStr("nontrivial", r.V.key())
		c.Add("cases_with_detached_traffic", 1)
	}
	c.Max("max_zones", int64(len(r.Zones)))
	c.Max("max_post_reply_packets", int64(post))
	if r.V6Hits > 0 {
		c.Add("cases_using_learnt_ipv6_address", 1)
	}
	if r.V.AAAA == "chain" && r.V.QMin == 0 {
		c.Sample(map[string]any{"case": r.V.key(), "reply": r.outcome(), "upstream_packets": last.A.Packets, "packets_when_answered": r.Asks[0].AtReply,
			"fresh_zones_referred": r.Zones, "ledger": vkSnapStr(last.A.Snap), "authority_timeline": vkClip(r.timeline(16), 900)})
	}
}

func (e *vkDExplorer) message(r *vkDRun, v vkDViol) string {
	return fmt.Sprintf("%s — case %s (real default chain, IPv6Access on; authority refers every name of a fresh zone L.evil. to %d NS host(s) in never-seen zones with A glue only; an NS host's AAAA lookup meets: %s). Authority timeline: %s",
		v.Msg, r.V.key(), r.V.NS, r.V.AAAA, vkClip(r.timeline(40), 1800))
}

// group: the cases of some cells, run concurrently; judged; violations confirmed on fresh worlds.
func (e *vkDExplorer) group(vs []vkDVariant) {
	c := e.c
	runs := e.runAll(vs)
	type pend struct {
		v     vkDVariant
		class string
	}
	var pends []pend
	byKey := map[string]*vkDRun{}
	for _, r := range runs {
		if r == nil {
			continue
		}
		byKey[r.V.key()] = r
		e.account(r)
		if r.unsettled() {
			e.harnessErr(fmt.Sprintf("C12/detached: case %s neither became stable nor exceeded the zone bound within the hard cap (zones %d, timeline: %s)", r.V.key(), len(r.Zones), vkClip(r.timeline(30), 1200)))
			continue
		}
		if r.V.Mode == "off" && len(r.Asks) > 0 && r.Asks[0].A.Returned {
			a := r.Asks[0].A
			if a.Rcode != dns.RcodeSuccess || !strings.Contains(a.Answer, "192.0.2.200") {
				e.harnessErr(fmt.Sprintf("C12/detached: the scripted world is broken: firewall off resolves www.z0.evil./A to %s (case %s; timeline: %s)", a.reply(), r.V.key(), vkClip(r.timeline(30), 1200)))
				continue
			}
		}
		for _, v := range e.judge(r) {
			pends = append(pends, pend{r.V, v.Class})
		}
	}
	// shadow == off
	for _, r := range runs {
		if r == nil || r.V.Mode != "shadow" {
			continue
		}
		ov := r.V
		ov.Mode, ov.Out = "off", 0
		off := byKey[ov.key()]
		if off == nil || off.unsettled() || r.unsettled() {
			continue
		}
		c.Add("shadow_off_comparisons", 1)
		if off.reply() != r.reply() {
			pends = append(pends, pend{r.V, "shadow-differs"})
		}
	}
	if len(pends) == 0 {
		return
	}
	// confirm on fresh objects (all pending cases concurrently; shadow-differs re-runs its off twin too)
	var again []vkDVariant
	seen := map[string]bool{}
	add := func(v vkDVariant) {
		if !seen[v.key()] {
			seen[v.key()] = true
			again = append(again, v)
		}
	}
	for _, p := range pends {
		add(p.v)
		if p.class == "shadow-differs" {
			ov := p.v
			ov.Mode, ov.Out = "off", 0
			add(ov)
		}
	}
	c.Add("confirmation_runs", int64(len(again)))
	re := map[string]*vkDRun{}
	for _, r := range e.runAll(again) {
		if r != nil {
			re[r.V.key()] = r
		}
	}
	for _, p := range pends {
		r := re[p.v.key()]
		if r == nil {
			continue
		}
		confirmed := false
		if p.class == "shadow-differs" {
			ov := p.v
			ov.Mode, ov.Out = "off", 0
			if off := re[ov.key()]; off != nil && !off.unsettled() && !r.unsettled() && off.reply() != r.reply() {
				confirmed = true
				c.Violation("shadow-differs|"+p.v.key(), fmt.Sprintf("shadow mode changed the reply: firewall off -> %s ; shadow (MaxOutboundQueries=%d, counted only) -> %s — case %s", off.reply(), p.v.Out, r.reply(), p.v.key()), vkDReplay{p.v, p.class})
			}
		} else {
			for _, v := range e.judge(r) {
				if v.Class == p.class {
					confirmed = true
					c.Violation(p.class+"|"+p.v.key(), e.message(r, v), vkDReplay{p.v, p.class})
					break
				}
			}
		}
		if !confirmed {
			e.harnessErr(fmt.Sprintf("C12/detached: %s of case %s did not reproduce on fresh objects", p.class, p.v.key()))
		}
	}
}

// the default caps of the budget dimensions this unit leaves alone (read from a built pipeline)
var vkDDefaultLimits struct{ in, sg, ds, n3 uint32 }

func vkDModes() []vkDVariant {
	return []vkDVariant{{Mode: "off"}, {Mode: "shadow", Out: vkDShadowOut}, {Mode: "enforce", Out: 3}, {Mode: "enforce", Out: 6}, {Mode: "enforce", Out: 10}, {Mode: "enforce", Out: 32}}
}

var vkDKinds = []string{"chain", "nodata", "answer", "servfail"}

func TestVerifC12Detached(t *testing.T) {
	c := vkit.Init("C12/detached")
	defer c.Close()
	h_rpipe.PinServerOrder(func(n int) int { return 0 })
	e := &vkDExplorer{c: c}
	// the default caps of the dimensions this unit leaves alone
	{
		w, err := vkDNewWorld(vkDVariant{Mode: "enforce", Out: 32, NS: 1, AAAA: "nodata"})
		if err != nil {
			c.HarnessError(err.Error())
			return
		}
		l := w.pl.Limits()
		vkDDefaultLimits.in, vkDDefaultLimits.sg, vkDDefaultLimits.ds, vkDDefaultLimits.n3 = l.MaxInternalQueries, l.MaxSignatureChecks, l.MaxDSDigests, l.MaxNSEC3Hashes
		w.close()
	}
	if c.Replay != nil {
		var rp vkDReplay
		if err := json.Unmarshal(c.Replay, &rp); err != nil {
			c.HarnessError("bad replay: " + err.Error())
			return
		}
		vs := []vkDVariant{rp.V}
		if rp.Class == "shadow-differs" {
			ov := rp.V
			ov.Mode, ov.Out = "off", 0
			vs = append(vs, ov)
		}
		runs := e.runAll(vs)
		if runs[0] == nil {
			return
		}
		if rp.Class == "shadow-differs" {
			if runs[1] != nil && runs[0].reply() != runs[1].reply() {
				c.Violation("shadow-differs|"+rp.V.key(), fmt.Sprintf("off -> %s ; shadow -> %s", runs[1].reply(), runs[0].reply()), rp)
			}
			return
		}
		for _, v := range e.judge(runs[0]) {
			c.Violation(v.Class+"|"+rp.V.key(), e.message(runs[0], v), vkDReplay{rp.V, v.Class})
		}
		return
	}
	nss := []int{1, 2}
	seconds := []bool{false}
	if c.Thorough() {
		nss = []int{1, 2, 3}
		seconds = []bool{false, true}
	}
	// cells, simplest first
	var cells [][]vkDVariant
	for _, second := range seconds {
		for _, ns := range nss {
			for _, kind := range vkDKinds {
				for _, qmin := range []int{0, 5} {
					var cell []vkDVariant
					for _, m := range vkDModes() {
						m.QMin, m.NS, m.AAAA, m.Second = qmin, ns, kind, second
						cell = append(cell, m)
					}
					cells = append(cells, cell)
				}
			}
		}
	}
	c.Note(fmt.Sprintf("C12/detached: %d cells x %d firewall settings; zone bound B = 2 + 2n + 2; poll %v x %d stable; upstream timeout %v, query timeout %v", len(cells), len(vkDModes()), vkDPoll, vkDStable, vkTimeout, vkQueryTimeout))
	var mine []vkDVariant
	for i, cell := range cells {
		if c.Mine(i) {
			mine = append(mine, cell...)
		}
	}
	capped := false
	for len(mine) > 0 {
		if c.OverBudget() {
			capped = true
			break
		}
		n := vkDMaxConc
		if n > len(mine) {
			n = len(mine)
		}
		// keep a cell's cases in one wave (shadow is compared with off)
		for n < len(mine) && n%len(vkDModes()) != 0 {
			n++
		}
		e.group(mine[:n])
		mine = mine[n:]
		if c.NumViolations() > 4 {
			break
		}
	}
	if capped {
		c.Cap("time budget reached before every cell was explored")
	}
	c.Add("worlds_built", e.worlds)
}

// TestVerifC12DetachedSmoke prints one case's authority timeline (VERIF_DSMOKE="mode out qmin ns kind [second]").
func TestVerifC12DetachedSmoke(t *testing.T) {
	s := os.Getenv("VERIF_DSMOKE")
	if s == "" {
		t.Skip()
	}
	h_rpipe.PinServerOrder(func(n int) int { return 0 })
	var v vkDVariant
	var sec string
	fmt.Sscan(s, &v.Mode, &v.Out, &v.QMin, &v.NS, &v.AAAA, &sec)
	v.Second = sec != ""
	w, err := vkDNewWorld(v)
	if err != nil {
		t.Fatal(err)
	}
	r := w.run()
	w.close()
	for _, a := range r.Asks {
		fmt.Printf("%s %s -> %s [%s] elapsed=%v atReply=%d packets=%d zones=%d stable=%v exceeded=%v watched=%v jobs=%d ledger{%s latched=%q}\n", v.key(), a.QName, a.A.outcome(), a.A.Answer,
			a.A.Elapsed.Round(time.Millisecond), a.AtReply, a.A.Packets, a.Zones, a.Stable, a.Exceeded, a.Watched.Round(time.Millisecond), a.Jobs, vkSnapStr(a.A.Snap), a.A.Latched)
	}
	fmt.Printf("zones: %v  v6hits=%d\n", r.Zones, r.V6Hits)
	ev := append([]vkDEvent(nil), r.Events...)
	sort.SliceStable(ev, func(i, j int) bool { return ev[i].At < ev[j].At })
	for _, e := range ev {
		fmt.Printf("  +%6.2fs %-6s %-40s %s\n", e.At.Seconds(), e.Server, e.Q, e.Kind)
	}
}
