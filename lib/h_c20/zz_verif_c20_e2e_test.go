//go:build verif

package h_c20

// C20 unit e2e — DNS64 on the REAL default chain (… edns … dns64 … cache …
// resolver …, validation on) against a scripted signed hierarchy.
//
// Space: question (name, AAAA) x client flags (RD, CD, DO, AD) x history
// {cold; the A answer cached immediately before; the A answer cached and the
// clock advanced past every DNSKEY/DS/NS TTL} x the C01 tamper alphabet applied
// to exactly one AAAA-side upstream exchange, at every position. The AAAA-side
// exchanges are the upstream exchanges of the SAME scenario on the chain built
// WITHOUT dns64 (the reference): the exchanges whose question type is AAAA and
// the DS / DNSKEY exchanges made on behalf of the AAAA question.
//
// Oracle: the reference chain's reply says what the AAAA lookup itself
// concluded. A reply of the dns64 chain that carries an AAAA inside the
// configured prefix is a synthesis; then the client must have set RD and not
// CD, the reference reply must not be NXDOMAIN and must not be a SERVFAIL
// caused by the tamper breaking validation, AD must be clear, and the
// synthesised set must be exactly the RFC 6052 embedding of the A records the
// zone publishes at the end of the alias chain (minus excluded ranges), owned
// by that name, with TTL <= the A TTL and <= the zone's negative TTL.

import (
	"encoding/json"
	"fmt"
	"net"
	"sort"
	"strings"
	"testing"

	"github.com/miekg/dns"
	"github.com/semihalev/sdns/internal/verifshim/authsim"
	"github.com/semihalev/sdns/internal/verifshim/h_resolver"
	"github.com/semihalev/sdns/internal/verifshim/vkit"
	"github.com/semihalev/sdns/internal/verifshim/zonemodel"
)

// vkFlagSets: RD x CD x DO x AD-requested. Without DO the query carries an OPT
// record exactly when AD is not requested, so "no EDNS at all" and "EDNS
// without DO" both occur. Simplest first.
func vkFlagSets() []h_resolver.Flags {
	var out []h_resolver.Flags
	for _, nord := range []bool{false, true} {
		for _, cd := range []bool{false, true} {
			for _, do := range []bool{true, false} {
				for _, ad := range []bool{false, true} {
					out = append(out, h_resolver.Flags{DO: do, CD: cd, AD: ad, NoRD: nord, OPT: !do && !ad})
				}
			}
		}
	}
	return out
}

type vkVerdict struct {
	Viol    string
	Class   string
	Outcome string
	VF      bool // the reference reply is a SERVFAIL caused by the tamper breaking validation (or by the loss of the trust anchors)
	VFLeg   bool // the reference reply is a dangling alias caused by the tamper breaking validation of the target's lookup
	Synth   bool
}

// vkBase is what the untampered reference run of the same (name, flags, history) replied — for a no-anchor
// history: of the same history with the trust anchors left in place.
type vkBase struct {
	offRcode int
	offSOA   bool // the untampered reference reply carries a SOA (a complete negative answer)
}

// vkBreaks: a SERVFAIL of the reference chain that appears only under this tamper is a DNSSEC
// validation failure — the tamper rewrote DNSSEC material (signatures, keys, DS, denials) or signed
// data in a response of a zone under an unbroken signed chain. Pure additions of unsigned
// out-of-zone records and an altered (unsigned) referral NS are not: a SERVFAIL there is lameness.
func (w *vkWorld) vkBreaks(tm vkTamper) bool {
	z := w.u.HostedZone(tm.Key.Server, tm.Key.QName, tm.Key.QType)
	if z == nil || !z.Mode.Signed() || w.u.ZoneStatus(z) != zonemodel.Secure {
		return false
	}
	switch tm.Kind {
	case "inject-answer-oz", "inject-authority-oz", "inject-authority-oz-neg":
		return false
	case "flip-authority", "forge-unsigned":
		// on a referral these rewrite the (unsigned) delegation NS first: a SERVFAIL is then "no reachable authority"
		h := w.u.ServerAnswer(tm.Key.Server, dns.Question{Name: tm.Key.QName, Qtype: tm.Key.QType, Qclass: dns.ClassINET}, true)
		return len(h.Answer) > 0 || hasSOA(h.Ns)
	}
	return true
}

func (w *vkWorld) embed(v4 net.IP) net.IP {
	ip := make(net.IP, 16)
	copy(ip, w.pfx.IP.To16()[:12])
	copy(ip[12:], v4.To4())
	return ip
}

func vkRcodeClass(m *dns.Msg) string {
	if m == nil {
		return "none"
	}
	switch {
	case m.Rcode == dns.RcodeSuccess && len(m.Answer) == 0:
		return "nodata"
	case m.Rcode == dns.RcodeSuccess:
		for _, rr := range m.Answer {
			if rr.Header().Rrtype == dns.TypeAAAA {
				return "aaaa"
			}
		}
		return "alias-nodata"
	}
	return strings.ToLower(dns.RcodeToString[m.Rcode])
}

// judge applies the property to the dns64 chain's reply, given the reference chain's reply.
func (w *vkWorld) judge(s vkScenario, base *vkBase, off, on vkRun) vkVerdict {
	var v vkVerdict
	bad := func(class, format string, a ...any) vkVerdict {
		v.Class = class
		v.Viol = fmt.Sprintf(format, a...) + " | dns64 reply: " + vkMsgStr(on.reply) + " | reference (dns64 off) reply: " + vkMsgStr(off.reply)
		v.Outcome = "VIOLATION:" + class
		return v
	}
	if on.reply == nil || off.reply == nil {
		v.Outcome = "no-reply"
		return v
	}
	offC, onC := vkRcodeClass(off.reply), vkRcodeClass(on.reply)
	if off.reply.AuthenticatedData {
		offC += "+ad"
	}
	// a SERVFAIL that appears only because the tamper rewrote DNSSEC material, or only because the chain lost its
	// trust anchors ("refusing to validate"), is a validation failure of the AAAA lookup
	byTamper := s.Tamper != nil && off.fired && w.vkBreaks(*s.Tamper)
	byAnchors := s.Tamper == nil && vkHistNoAnchor(s.Hist)
	v.VF = (byTamper || byAnchors) && base != nil && off.reply.Rcode == dns.RcodeServerFailure &&
		base.offRcode != dns.RcodeServerFailure && !s.F.CD && !s.F.NoRD
	if v.VF {
		offC = "validation-failure"
	}
	// the reference reply stops at an alias (NOERROR, alias records only, neither the target's data nor a SOA)
	// although the untampered one is complete: the TARGET's AAAA lookup failed validation and was dropped
	v.VFLeg = s.Tamper != nil && base != nil && off.fired && base.offSOA && !s.F.CD && !s.F.NoRD && w.vkBreaks(*s.Tamper) &&
		off.reply.Rcode == dns.RcodeSuccess && vkRcodeClass(off.reply) == "alias-nodata" && !hasSOA(off.reply.Ns)
	if v.VFLeg {
		offC = "dangling-alias(target failed validation)"
	}
	var synth, native []*dns.AAAA
	for _, rr := range on.reply.Answer {
		if a, ok := rr.(*dns.AAAA); ok {
			if w.pfx.Contains(a.AAAA) {
				synth = append(synth, a)
			} else {
				native = append(native, a)
			}
		}
	}
	v.Synth = len(synth) > 0
	if !v.Synth {
		if on.reply.AuthenticatedData {
			onC += "+ad"
		}
		v.Outcome = "off:" + offC + " -> on:" + onC
		if off.reply.Rcode != on.reply.Rcode {
			v.Outcome += " (rcode differs)"
		}
		return v
	}
	// ---- the reply is a synthesis
	if s.F.CD {
		return bad("synth-with-cd", "synthesised AAAA toward a client that set CD")
	}
	if s.F.NoRD {
		return bad("synth-without-rd", "synthesised AAAA toward a client that did not set RD")
	}
	if off.reply.Rcode == dns.RcodeNameError {
		return bad("synth-over-nxdomain", "synthesised AAAA although the AAAA lookup ended in NXDOMAIN")
	}
	if v.VF {
		if byAnchors {
			return bad("synth-over-validation-failure", "synthesised AAAA although the chain has no trust anchor and the AAAA lookup itself was refused validation (reference chain: SERVFAIL, %s)", vkEDEs(off.reply))
		}
		return bad("synth-over-validation-failure", "synthesised AAAA although the AAAA lookup itself failed DNSSEC validation (reference chain: SERVFAIL, %s)", vkEDEs(off.reply))
	}
	if v.VFLeg {
		return bad("synth-over-validation-failure/alias-target", "synthesised AAAA for an alias target whose own AAAA lookup failed DNSSEC validation (reference chain: NOERROR, the alias records only, no SOA)")
	}
	if on.reply.AuthenticatedData {
		return bad("synth-with-ad", "synthesised reply carries AD")
	}
	if len(native) > 0 {
		return bad("synth-next-to-native", "synthesised AAAA next to an AAAA outside the prefix")
	}
	// exactly the embedding of the zone's A records at the end of the alias chain
	t := w.u.Truth(s.Name, dns.TypeA)
	var aset *zonemodel.TruthRRset
	for i := range t.Answer {
		if t.Answer[i].Type == dns.TypeA {
			aset = &t.Answer[i]
		}
	}
	if aset == nil {
		return bad("synth-without-a", "synthesised AAAA for a name whose alias chain ends without A records")
	}
	want := map[string]uint32{}
	for _, rr := range aset.RRs {
		a := rr.(*dns.A)
		if w.excl.Contains(a.A) {
			continue
		}
		want[w.embed(a.A).String()] = a.Hdr.Ttl
	}
	negTTL := uint32(0)
	haveNeg := false
	if z := w.u.AuthZone(aset.Owner, dns.TypeAAAA); z != nil && off.reply.Rcode == dns.RcodeSuccess && hasSOA(off.reply.Ns) {
		negTTL, haveNeg = z.TTL, true // SOA TTL = SOA MINIMUM = zone TTL in this universe
	}
	got := map[string]bool{}
	for _, a := range synth {
		key := a.AAAA.String()
		attl, ok := want[key]
		if !ok {
			return bad("synth-not-embedding", "synthesised %s is not the RFC 6052 embedding of an A record %s publishes (or embeds an excluded address)", key, aset.Owner)
		}
		if got[key] {
			return bad("synth-duplicate", "synthesised %s twice", key)
		}
		got[key] = true
		if zonemodel.Canon(a.Hdr.Name) != aset.Owner {
			return bad("synth-owner", "synthesised AAAA owned by %s, the alias chain of %s ends at %s", a.Hdr.Name, s.Name, aset.Owner)
		}
		if a.Hdr.Ttl > attl {
			return bad("synth-ttl-above-a", "synthesised TTL %d exceeds the A TTL %d", a.Hdr.Ttl, attl)
		}
		if haveNeg && a.Hdr.Ttl > negTTL {
			return bad("synth-ttl-above-negative", "synthesised TTL %d exceeds the AAAA negative TTL %d", a.Hdr.Ttl, negTTL)
		}
	}
	if len(got) != len(want) {
		return bad("synth-incomplete", "synthesised set has %d of the %d translatable A records of %s", len(got), len(want), aset.Owner)
	}
	// the alias chain shown to the client is the zone's
	for _, rr := range on.reply.Answer {
		if c, ok := rr.(*dns.CNAME); ok {
			set, st, found := w.u.AuthRRset(zonemodel.Canon(c.Hdr.Name), dns.TypeCNAME)
			if st == zonemodel.Secure && (!found || zonemodel.SetKey(set) != zonemodel.SetKey([]dns.RR{c})) {
				return bad("synth-alias-altered", "alias record %s is not what its (secure) zone publishes", c.String())
			}
		}
	}
	v.Outcome = "off:" + offC + " -> on:synth"
	if len(t.Answer) > 1 {
		v.Outcome += ":alias"
	}
	return v
}

// ---------------------------------------------------------------- reporting

func (w *vkWorld) roleOf(k authsim.Key) (zone, role string) {
	zone, role = "?", "?"
	if z := w.u.HostedZone(k.Server, k.QName, k.QType); z != nil {
		zone = z.Apex
		h := w.u.ServerAnswer(k.Server, dns.Question{Name: k.QName, Qtype: k.QType, Qclass: dns.ClassINET}, true)
		switch {
		case k.QType == dns.TypeDNSKEY && len(h.Answer) > 0:
			role = "dnskey"
		case k.QType == dns.TypeDS:
			role = "ds"
		case len(h.Answer) > 0:
			role = "answer"
		case hasSOA(h.Ns) || h.Rcode == dns.RcodeNameError:
			role = "negative"
		default:
			role = "referral"
		}
	}
	return
}

// vkKey: class + what the reference chain's failure looked like to the client (the SERVFAIL's EDE codes, or their
// absence) + the shape of the rewritten response. Name, flags, history, tamper kind and zone are in the message and
// the replay, so that one defect maps to a handful of keys rather than one per point of the space.
func (w *vkWorld) vkKey(s vkScenario, class string, off *dns.Msg) string {
	k := "C20:e2e/" + class
	if off != nil && off.Rcode == dns.RcodeServerFailure {
		k += "|reference=SERVFAIL " + vkEDEClass(off)
	}
	switch {
	case s.Tamper != nil:
		_, role := w.roleOf(s.Tamper.Key)
		k += "|tampered=" + role
		if s.Then != nil {
			_, role2 := w.roleOf(s.Then.Key)
			k += "|then=" + s.Then.Kind + "@" + role2
		}
	case vkHistNoAnchor(s.Hist):
		k += "|trust-anchors-removed"
	default:
		k += "|untampered:" + s.Name
	}
	return k
}

type vkPair struct {
	off, on vkRun
	v       vkVerdict
}

func (w *vkWorld) runPair(s vkScenario, base *vkBase) vkPair {
	off := w.run(w.off, s)
	on := w.run(w.on, s)
	return vkPair{off, on, w.judge(s, base, off, on)}
}

// report re-runs a violating scenario 3 times from a cold state; it is dropped (and counted) unless
// every re-run reproduces the same class.
func (w *vkWorld) report(s vkScenario, base *vkBase, p vkPair) {
	n := 0
	last := p
	for i := 0; i < 3; i++ {
		q := w.runPair(s, base)
		if q.v.Viol != "" && q.v.Class == p.v.Class {
			n++
			last = q
		}
	}
	if n < 3 {
		w.c.Add("dropped_unreproducible", 1)
		w.c.Note(fmt.Sprintf("dropped (reproduced %d/3): %s: %s", n, s, p.v.Viol[:min(len(p.v.Viol), 200)]))
		return
	}
	w.c.Violation(w.vkKey(s, p.v.Class, last.off.reply), fmt.Sprintf("%s — scenario: %s; dns64-on exchanges: [%s]; reference exchanges: [%s]",
		last.v.Viol, s, vkPathStr(last.on.path), vkPathStr(last.off.path)), s)
}

// ---------------------------------------------------------------- enumeration

var vkCDKinds = map[string]bool{"flip-sig": true, "drop-sigs": true, "downgrade": true, "forge-positive": true, "sig-expired": true, "drop-denial": true}

func TestVerifC20E2E(t *testing.T) {
	c := vkit.Init("C20/e2e")
	defer c.Close()
	if c.Replay != nil {
		var s vkScenario
		if err := json.Unmarshal(c.Replay, &s); err != nil {
			c.HarnessError("bad replay: " + err.Error())
			return
		}
		w, err := vkGetWorld(c, s.Rot)
		if err != nil {
			c.HarnessError(err.Error())
			return
		}
		var base *vkBase
		if s.Tamper != nil || vkHistNoAnchor(s.Hist) {
			s0 := s
			s0.Tamper, s0.Then, s0.Hist = nil, nil, vkHistAnchored(s.Hist)
			b := w.run(w.off, s0)
			if b.reply != nil {
				base = &vkBase{offRcode: b.reply.Rcode, offSOA: hasSOA(b.reply.Ns)}
			}
		}
		p := w.runPair(s, base)
		if p.v.Viol != "" {
			c.Violation(w.vkKey(s, p.v.Class, p.off.reply), p.v.Viol+" — scenario: "+s.String()+"; dns64-on exchanges: ["+vkPathStr(p.on.path)+"]", s)
		}
		return
	}
	rots := []int{0}
	if c.Thorough() {
		rots = []int{0, 1, 2}
	}
	w, err := vkGetWorld(c, 0)
	if err != nil {
		c.HarnessError(err.Error())
		return
	}
	c.Note("dns64 chain: " + strings.Join(w.on.HandlerNames(), ","))
	tier := 0
	if c.Thorough() {
		tier = 1
	}
	var kinds []vkKind
	for _, k := range vkKinds {
		if k.Tier <= tier {
			kinds = append(kinds, k)
		}
	}
	capped := false
	hists := []string{vkHistCold, vkHistWarm, vkHistStale}
	if vkExtraOn {
		hists = append(hists, vkHistNoAnchors, vkHistNoAnchorsStale)
	}
outer:
	for _, rot := range rots {
		w, err := vkGetWorld(c, rot)
		if err != nil {
			c.HarnessError(err.Error())
			return
		}
		for _, nm := range vkNames {
			if nm.Tier > tier {
				continue
			}
			for _, f := range vkFlagSets() {
				for _, h := range hists {
					id := fmt.Sprintf("%d|%s|%s|%s", rot, nm.Name, f, h)
					if !c.Mine(int(vkit.Hash(id) % 1000003)) {
						continue
					}
					if c.OverBudget() {
						capped = true
						break outer
					}
					if vkHistNoAnchor(h) {
						w.anchorCase(vkScenario{Rot: rot, Name: nm.Name, F: f, Hist: h})
						continue
					}
					w.cases(vkScenario{Rot: rot, Name: nm.Name, F: f, Hist: h}, kinds)
				}
			}
		}
	}
	if capped {
		c.Cap("time budget reached before every (name, flags, history) was explored")
	}
}

// cases: the untampered pair, then every (AAAA-side position, kind).
func (w *vkWorld) cases(s0 vkScenario, kinds []vkKind) {
	c := w.c
	p0 := w.runPair(s0, nil)
	c.Add("scenarios", 1)
	if p0.v.Viol != "" {
		w.report(s0, nil, p0)
		return
	}
	// the reference path must be repeatable: positions are taken from it
	for try := 0; ; try++ {
		again := w.run(w.off, s0)
		if vkPathStr(again.path) == vkPathStr(p0.off.path) {
			break
		}
		c.Add("baseline_reruns", 1)
		if try == 3 {
			c.HarnessError("untampered reference path of " + s0.String() + " is not repeatable")
			return
		}
		p0 = w.runPair(s0, nil)
	}
	c.Outcome("baseline " + s0.Hist + ": " + p0.v.Outcome)
	c.Add("baselines", 1)
	c.Max("max_aaaa_side_path", int64(len(p0.off.path)))
	if s0.Hist != vkHistCold && p0.off.hist != nil {
		c.Outcome("history A: " + vkRcodeClass(p0.off.hist))
	}
	eligible := !s0.F.CD && !s0.F.NoRD
	if p0.v.Synth {
		c.DistinctStr("nontrivial", "base|"+s0.String())
		if s0.F.DO && !s0.F.AD && s0.Hist == vkHistCold {
			c.Sample(map[string]any{"scenario": s0.String(), "reference": vkMsgStr(p0.off.reply), "dns64": vkMsgStr(p0.on.reply),
				"reference_path": vkPathStr(p0.off.path), "dns64_path": vkPathStr(p0.on.path)})
			w.ptrRoundTrip(s0, p0.on.reply)
		}
	} else if eligible && vkRcodeClass(p0.off.reply) == "nodata" || eligible && vkRcodeClass(p0.off.reply) == "alias-nodata" {
		if tr := w.u.Truth(s0.Name, dns.TypeA); tr.Terminal == "answer" && s0.Name != "priv.s.t." {
			c.Add("baseline_synthesis_missing", 1)
			c.Note("no synthesis in an untampered eligible scenario (not judged): " + s0.String() + " -> " + vkMsgStr(p0.on.reply))
		}
	}
	base := &vkBase{offRcode: p0.off.reply.Rcode, offSOA: hasSOA(p0.off.reply.Ns)}
	if !eligible && c.Quick() {
		// toward a CD / RD=0 client the property only forbids synthesis: the quick tier runs a
		// representative subset of the kinds there (the thorough tier runs them all)
		var sub []vkKind
		for _, k := range kinds {
			if vkCDKinds[k.Name] {
				sub = append(sub, k)
			}
		}
		kinds = sub
	}
	for pos, ex := range p0.off.path {
		q := dns.Question{Name: ex.QName, Qtype: ex.QType, Qclass: dns.ClassINET}
		honest := w.u.ServerAnswer(ex.Server, q, ex.DO)
		ctx := &vkTamperCtx{u: w.u, server: ex.Server, q: q, zone: w.u.HostedZone(ex.Server, ex.QName, ex.QType)}
		zone, role := w.roleOf(ex.Key())
		for _, k := range kinds {
			if !k.Fn(ctx, honest.Copy()) {
				c.Add("inapplicable", 1)
				continue
			}
			s := s0
			s.Tamper = &vkTamper{Key: ex.Key(), Kind: k.Name}
			p := w.runPair(s, base)
			w.account(s, base, p, pos, zone, role)
			if !vkExtraOn || !eligible {
				continue
			}
			// family: the tamper provokes DS sub-queries (the resolver asks whether the name sits under an insecure
			// delegation); ONE of them is answered with nothing but a header
			for _, dx := range p.off.path {
				if dx.QType != dns.TypeDS || dx.Key() == ex.Key() {
					continue
				}
				dq := dns.Question{Name: dx.QName, Qtype: dx.QType, Qclass: dns.ClassINET}
				dctx := &vkTamperCtx{u: w.u, server: dx.Server, q: dq, zone: w.u.HostedZone(dx.Server, dx.QName, dx.QType)}
				for _, bk := range vkBareKinds {
					if !vkKindByName(bk).Fn(dctx, w.u.ServerAnswer(dx.Server, dq, dx.DO)) {
						continue
					}
					s2 := s
					s2.Then = &vkTamper{Key: dx.Key(), Kind: bk}
					c.Add("ds_family_scenarios", 1)
					w.account(s2, base, w.runPair(s2, base), pos, zone, role)
				}
			}
		}
	}
}

// account: counters, outcomes and the violation report of one tampered scenario.
func (w *vkWorld) account(s vkScenario, base *vkBase, p vkPair, pos int, zone, role string) {
	c := w.c
	kind := s.Tamper.Kind
	if s.Then != nil {
		kind += "+" + s.Then.Kind + "@ds"
	}
	eligible := !s.F.CD && !s.F.NoRD
	c.Add("scenarios", 1)
	if p.v.VFLeg {
		c.Add("validation_failure_alias_target_scenarios", 1)
	}
	if p.v.VF {
		c.Add("validation_failure_scenarios", 1)
		c.Add("vf:"+kind, 1)
		c.Add("vf-hist:"+s.Hist, 1)
		c.Add(fmt.Sprintf("vf-at:%s:%s", zone, role), 1)
		lbl := "on:" + vkRcodeClass(p.on.reply)
		if p.v.Synth {
			lbl = "on:SYNTHESIS"
		}
		c.Outcome("validation failure, reference SERVFAIL " + vkEDEClass(p.off.reply) + " -> " + lbl)
		if vkEDEClass(p.off.reply) == "EDE 0" {
			c.Outcome("reference " + vkEDEs(p.off.reply) + " <- " + kind + " on " + role)
		}
	}
	if eligible && w.vkBreaks(*s.Tamper) {
		c.Add("breaking:"+kind, 1)
	}
	if p.v.Viol != "" {
		// one confirmation (3 cold re-runs) per key and shard; every violating scenario is counted
		c.Add("violating_scenarios", 1)
		c.Add("violating:"+p.v.Class, 1)
		key := w.vkKey(s, p.v.Class, p.off.reply)
		if !w.reported[key] {
			w.reported[key] = true
			w.report(s, base, p)
		}
		return
	}
	switch {
	case !p.off.fired || !p.on.fired:
		c.Add("tamper_not_reached", 1)
		c.Note(fmt.Sprintf("tamper not reached (off=%v on=%v): %s", p.off.fired, p.on.fired, s))
	case s.Then != nil && !p.off.fired2:
		c.Add("second_tamper_not_reached", 1)
	default:
		c.DistinctStr("nontrivial", fmt.Sprintf("%s|%d|%s", s, pos, kind))
	}
	c.Outcome(p.v.Outcome)
	if p.v.Synth && p.off.reply.Rcode == dns.RcodeServerFailure {
		c.Outcome(fmt.Sprintf("synthesis over a SERVFAIL that is not classed as a validation failure (allowed): %s on %s, reference %s", kind, role, vkEDEs(p.off.reply)))
	}
}

// anchorCase: one no-anchor scenario (no tamper). The baseline is the reference chain's reply in the same
// history with the trust anchors in place.
func (w *vkWorld) anchorCase(s vkScenario) {
	c := w.c
	s0 := s
	s0.Hist = vkHistAnchored(s.Hist)
	b := w.run(w.off, s0)
	if b.reply == nil {
		c.HarnessError("no reference reply: " + s0.String())
		return
	}
	base := &vkBase{offRcode: b.reply.Rcode, offSOA: hasSOA(b.reply.Ns)}
	p := w.runPair(s, base)
	c.Add("scenarios", 1)
	c.Add("anchor_scenarios", 1)
	if p.v.VF {
		c.Add("validation_failure_scenarios", 1)
		c.Add("vf:trust-anchors-removed", 1)
		c.Add("vf-hist:"+s.Hist, 1)
		lbl := "on:" + vkRcodeClass(p.on.reply)
		if p.v.Synth {
			lbl = "on:SYNTHESIS"
		}
		c.Outcome("trust anchors removed, reference SERVFAIL " + vkEDEs(p.off.reply) + " -> " + lbl)
	}
	if p.v.Viol != "" {
		c.Add("violating_scenarios", 1)
		c.Add("violating:"+p.v.Class, 1)
		key := w.vkKey(s, p.v.Class, p.off.reply)
		if !w.reported[key] {
			w.reported[key] = true
			w.report(s, base, p)
		}
		return
	}
	if p.v.VF || p.v.Synth {
		c.DistinctStr("nontrivial", "anchors|"+s.String())
	}
	c.Outcome("baseline " + s.Hist + ": " + p.v.Outcome)
}

func vkEDEClass(m *dns.Msg) string {
	opt := m.IsEdns0()
	if opt == nil {
		return "without OPT"
	}
	var codes []string
	for _, o := range opt.Option {
		if e, ok := o.(*dns.EDNS0_EDE); ok {
			codes = append(codes, fmt.Sprint(e.InfoCode))
		}
	}
	if len(codes) == 0 {
		return "without EDE"
	}
	sort.Strings(codes)
	return "EDE " + strings.Join(codes, "+")
}

// ptrRoundTrip: the ip6.arpa PTR question for every synthesised address is answered by the dns64 chain
// with a CNAME onto the in-addr.arpa name of the SAME IPv4 address.
func (w *vkWorld) ptrRoundTrip(s vkScenario, reply *dns.Msg) {
	for _, rr := range reply.Answer {
		a, ok := rr.(*dns.AAAA)
		if !ok || !w.pfx.Contains(a.AAAA) {
			continue
		}
		rev, err := dns.ReverseAddr(a.AAAA.String())
		if err != nil {
			w.c.HarnessError("reverse name: " + err.Error())
			return
		}
		v4 := net.IP(a.AAAA[12:16])
		want, _ := dns.ReverseAddr(v4.String())
		r := w.on.Ask(rev, dns.TypePTR, h_resolver.Flags{}, "tcp")
		w.c.Add("evaluations", 1)
		w.c.Add("ptr_round_trips", 1)
		got := ""
		if r.Msg != nil {
			for _, x := range r.Msg.Answer {
				if cn, ok := x.(*dns.CNAME); ok && strings.EqualFold(cn.Hdr.Name, rev) {
					got = strings.ToLower(cn.Target)
				}
			}
		}
		if got != strings.ToLower(want) {
			w.c.Violation("C20:e2e/ptr-not-reversible|"+s.Name, fmt.Sprintf("PTR %s: expected a CNAME onto %s, got %s", rev, want, vkMsgStr(r.Msg)), s)
			continue
		}
		w.c.Outcome("ptr: CNAME onto the in-addr.arpa name of the embedded address")
	}
}
