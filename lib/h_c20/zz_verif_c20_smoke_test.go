//go:build verif

package h_c20

import (
	"encoding/json"
	"fmt"
	"os"
	"testing"
	"time"

	"github.com/semihalev/sdns/internal/verifshim/h_resolver"
	"github.com/semihalev/sdns/internal/verifshim/vkit"
)

// TestVerifC20Smoke prints the untampered resolutions of every name and history on both chains
// (manual aid: VERIF_SMOKE=1).
func TestVerifC20Smoke(t *testing.T) {
	if os.Getenv("VERIF_SMOKE") == "" {
		t.Skip()
	}
	c := vkit.Init("C20/e2e-smoke")
	t0 := time.Now()
	w, err := vkGetWorld(c, 0)
	if err != nil {
		t.Fatal(err)
	}
	fmt.Println("world built in", time.Since(t0))
	fmt.Println("on :", w.on.HandlerNames())
	fmt.Println("off:", w.off.HandlerNames())
	flags := []h_resolver.Flags{{DO: true}, {}, {DO: true, CD: true}, {NoRD: true}}
	for _, nm := range vkNames {
		if f := os.Getenv("VERIF_SMOKE_NAME"); f != "" && f != nm.Name {
			continue
		}
		for _, h := range []string{vkHistCold, vkHistWarm, vkHistStale} {
			for _, f := range flags {
				s := vkScenario{Name: nm.Name, F: f, Hist: h}
				off := w.run(w.off, s)
				on := w.run(w.on, s)
				v := w.judge(s, nil, off, on)
				fmt.Printf("%-11s %-5s %-6s\n   off %v hist=%d [%s]\n       %s\n   on  %v hist=%d [%s]\n       %s\n   => %s %s\n", nm.Name, h, f,
					off.elapsed.Round(100*time.Microsecond), off.histLen, vkPathStr(off.path), vkMsgStr(off.reply),
					on.elapsed.Round(100*time.Microsecond), on.histLen, vkPathStr(on.path), vkMsgStr(on.reply), v.Outcome, v.Viol)
			}
		}
	}
}

// TestVerifC20Debug runs ONE scenario (VERIF_C20_SCEN = the replay JSON of a vkScenario) on both chains and prints
// the exchange logs and the full replies.
func TestVerifC20Debug(t *testing.T) {
	js := os.Getenv("VERIF_C20_SCEN")
	if js == "" {
		t.Skip()
	}
	var s vkScenario
	if err := json.Unmarshal([]byte(js), &s); err != nil {
		t.Fatal(err)
	}
	c := vkit.Init("C20/e2e-debug")
	w, err := vkGetWorld(c, s.Rot)
	if err != nil {
		t.Fatal(err)
	}
	s0 := s
	s0.Tamper, s0.Then, s0.Hist = nil, nil, vkHistAnchored(s.Hist)
	b := w.run(w.off, s0)
	base := &vkBase{offRcode: b.reply.Rcode, offSOA: hasSOA(b.reply.Ns)}
	p := w.runPair(s, base)
	fmt.Println("scenario:", s)
	for _, x := range []struct {
		n string
		r vkRun
	}{{"REFERENCE (dns64 off)", p.off}, {"DNS64 ON", p.on}} {
		fmt.Printf("---- %s: history exchanges=%d, exchanges of the AAAA ask:\n", x.n, x.r.histLen)
		for i, q := range x.r.path {
			fmt.Printf("  %2d %-4s %-28s do=%v cd=%v tampered=%v\n", i, q.Transport, q.Key(), q.DO, q.CD, q.Scripted && q.Changed)
		}
		fmt.Println(x.r.reply)
	}
	fmt.Println("verdict:", p.v.Outcome, "|", p.v.Viol)
}
