//go:build verif

package h_c20

import (
	"fmt"
	"net"
	"strings"
	"time"

	"github.com/miekg/dns"
	"github.com/semihalev/sdns/config"
	"github.com/semihalev/sdns/internal/verifshim/authsim"
	"github.com/semihalev/sdns/internal/verifshim/h_resolver"
	"github.com/semihalev/sdns/internal/verifshim/vkit"
	"github.com/semihalev/sdns/internal/verifshim/vtime"
	"github.com/semihalev/sdns/internal/verifshim/zonemodel"
)

// Histories before the AAAA question.
const (
	vkHistCold  = "cold"  // nothing asked before
	vkHistWarm  = "warm"  // the A answer asked (DO, CD=0) and cached immediately before
	vkHistStale = "stale" // the A answer asked, then the clock advanced past every DNSKEY / DS / NS / negative TTL but not past the A TTL
	// the same two histories, after which the chain LOSES ITS TRUST ANCHORS (what the automatic trust-anchor
	// maintenance does at run time when it fails closed) before the AAAA question is asked
	vkHistNoAnchors      = "noanchors"
	vkHistNoAnchorsStale = "noanchors-stale"
)

func vkHistNoAnchor(h string) bool { return h == vkHistNoAnchors || h == vkHistNoAnchorsStale }
func vkHistAdvances(h string) bool { return h == vkHistStale || h == vkHistNoAnchorsStale }

// vkHistAnchored: the same history with the anchors left in place (the baseline of a no-anchor scenario).
func vkHistAnchored(h string) string {
	switch h {
	case vkHistNoAnchors:
		return vkHistWarm
	case vkHistNoAnchorsStale:
		return vkHistStale
	}
	return h
}

type vkTamper struct {
	Key  authsim.Key `json:"key"`
	Kind string      `json:"kind"`
}

// vkScenario is one replayable case.
type vkScenario struct {
	Rot    int              `json:"rot,omitempty"` // algorithm rotation of the universe (thorough tier: 0..2)
	Name   string           `json:"name"`
	F      h_resolver.Flags `json:"flags"`
	Hist   string           `json:"hist"`
	Tamper *vkTamper        `json:"tamper,omitempty"`
	Then   *vkTamper        `json:"then,omitempty"` // a second rewritten response: a sub-query the first tamper provokes
}

func (s vkScenario) String() string {
	t := "untampered"
	if s.Tamper != nil {
		t = s.Tamper.Kind + "@" + s.Tamper.Key.String()
	}
	if s.Then != nil {
		t += ", then " + s.Then.Kind + "@" + s.Then.Key.String()
	}
	return fmt.Sprintf("rot%d %s AAAA %s hist=%s [%s]", s.Rot, s.Name, s.F, s.Hist, t)
}

type vkWorld struct {
	u        *zonemodel.Universe
	sim      *authsim.Sim
	on       *h_resolver.Pipeline // default chain with dns64
	off      *h_resolver.Pipeline // default chain without dns64 (the reference)
	c        *vkit.Ctx
	pfx      *net.IPNet
	excl     *net.IPNet
	lastN    int
	reported map[string]bool // violation keys already confirmed and reported by this process
}

var vkWorlds = map[int]*vkWorld{}

func vkGetWorld(c *vkit.Ctx, rot int) (*vkWorld, error) {
	if w := vkWorlds[rot]; w != nil {
		w.c = c
		return w, nil
	}
	u := vkUniverse(rot)
	sim, err := authsim.Start(u)
	if err != nil {
		return nil, err
	}
	on, err := h_resolver.New(sim, h_resolver.Options{Mod: func(cfg *config.Config) {
		cfg.DNS64 = config.DNS64Config{Enabled: true, Prefixes: []string{vkPrefix},
			ExcludeANetworks: []string{vkExcludeV4}, ExcludeAAAANetworks: []string{}}
	}})
	if err != nil {
		return nil, err
	}
	off, err := h_resolver.New(sim, h_resolver.Options{})
	if err != nil {
		return nil, err
	}
	has := func(pl *h_resolver.Pipeline) bool {
		for _, n := range pl.HandlerNames() {
			if n == "dns64" {
				return true
			}
		}
		return false
	}
	if !has(on) || has(off) {
		return nil, fmt.Errorf("dns64 handler: enabled chain %v, reference chain %v", on.HandlerNames(), off.HandlerNames())
	}
	_, pfx, _ := net.ParseCIDR(vkPrefix)
	_, excl, _ := net.ParseCIDR(vkExcludeV4)
	w := &vkWorld{u: u, sim: sim, on: on, off: off, c: c, pfx: pfx, excl: excl, reported: map[string]bool{}}
	vkWorlds[rot] = w
	return w, nil
}

type vkRun struct {
	reply     *dns.Msg
	hist      *dns.Msg        // reply to the history's A question (nil when cold)
	path      []authsim.Query // upstream exchanges of the AAAA ask only
	histLen   int             // upstream exchanges of the history
	fired     bool            // the scripted exchange occurred and the response sent differs from the honest one
	fired2    bool            // the same for the second tamper (Then)
	disturbed bool
	elapsed   time.Duration
}

func (w *vkWorld) transformer(tm vkTamper) authsim.Transformer {
	k := vkKindByName(tm.Kind)
	return func(q authsim.Query, honest *dns.Msg) authsim.Action {
		ctx := &vkTamperCtx{u: w.u, server: q.Server, q: dns.Question{Name: q.QName, Qtype: q.QType, Qclass: dns.ClassINET},
			zone: w.u.HostedZone(q.Server, q.QName, q.QType)}
		if k == nil || !k.Fn(ctx, honest) {
			return authsim.Action{}
		}
		return authsim.Action{Msg: honest, Changed: true}
	}
}

// runOnce executes the scenario on one pipeline from a cold state.
func (w *vkWorld) runOnce(pl *h_resolver.Pipeline, s vkScenario) vkRun {
	if n := w.sim.Count(""); n != w.lastN {
		w.c.Add("straggler_scenarios", 1)
	}
	defer func() { w.lastN = w.sim.Count("") }()
	vtime.SetOffset(0)
	pl.Reset()
	var res vkRun
	if s.Hist != vkHistCold {
		r := pl.Ask(s.Name, dns.TypeA, h_resolver.Flags{DO: true}, "tcp")
		res.hist = r.Msg
		if r.Elapsed > 300*time.Millisecond {
			res.disturbed = true
		}
		if vkHistAdvances(s.Hist) {
			vtime.Advance(vkStaleStep * time.Second)
		}
		if vkHistNoAnchor(s.Hist) {
			_ = pl.SetTrustAnchors(nil)
			defer func() { _ = pl.SetTrustAnchors(w.u.TrustAnchors()) }() // (pl.Reset restores them as well)
		}
	}
	res.histLen = len(w.sim.Log())
	if s.Tamper != nil {
		w.sim.Script(s.Tamper.Key, w.transformer(*s.Tamper))
	}
	if s.Then != nil {
		w.sim.Script(s.Then.Key, w.transformer(*s.Then))
	}
	r := pl.Ask(s.Name, dns.TypeAAAA, s.F, "tcp")
	w.c.Add("evaluations", 1)
	res.reply, res.elapsed = r.Msg, r.Elapsed
	if r.Elapsed > 300*time.Millisecond {
		res.disturbed = true
	}
	log := w.sim.Log()
	res.path = log[res.histLen:]
	for i, tm := range []*vkTamper{s.Tamper, s.Then} {
		if tm == nil {
			continue
		}
		want := authsim.Key{Server: tm.Key.Server, QName: zonemodel.Canon(tm.Key.QName), QType: tm.Key.QType, Occ: tm.Key.Occ}
		for _, lq := range res.path {
			if lq.Scripted && lq.Changed && lq.Key() == want {
				if i == 0 {
					res.fired = true
				} else {
					res.fired2 = true
				}
			}
		}
	}
	vtime.SetOffset(0)
	return res
}

// run repeats a run that was disturbed by the machine (an ask that waited out an upstream timeout
// although nothing is ever scripted to be dropped or delayed).
func (w *vkWorld) run(pl *h_resolver.Pipeline, s vkScenario) vkRun {
	for try := 0; ; try++ {
		r := w.runOnce(pl, s)
		if !r.disturbed {
			return r
		}
		if try == 3 {
			w.c.Add("disturbed_kept", 1)
			return r
		}
		w.c.Add("disturbed_reruns", 1)
	}
}

func vkPathStr(p []authsim.Query) string {
	var s []string
	for _, q := range p {
		mark := ""
		if q.Scripted && q.Changed {
			mark = "*"
		}
		s = append(s, mark+q.Key().String())
	}
	return strings.Join(s, " ")
}

func vkEDEs(m *dns.Msg) string {
	if m == nil {
		return "no-reply"
	}
	opt := m.IsEdns0()
	if opt == nil {
		return "no-opt"
	}
	var out []string
	for _, o := range opt.Option {
		if e, ok := o.(*dns.EDNS0_EDE); ok {
			out = append(out, fmt.Sprintf("ede%d(%s)", e.InfoCode, e.ExtraText))
		}
	}
	if len(out) == 0 {
		return "no-ede"
	}
	return strings.Join(out, ",")
}

func vkMsgStr(m *dns.Msg) string {
	if m == nil {
		return "<no reply>"
	}
	p := []string{fmt.Sprintf("%s ad=%v %s", dns.RcodeToString[m.Rcode], m.AuthenticatedData, vkEDEs(m))}
	for _, rr := range m.Answer {
		if rr.Header().Rrtype == dns.TypeRRSIG {
			continue
		}
		p = append(p, strings.Join(strings.Fields(rr.String()), " "))
	}
	for _, rr := range m.Ns {
		if rr.Header().Rrtype == dns.TypeSOA {
			p = append(p, "auth: "+strings.Join(strings.Fields(rr.String()), " "))
		}
	}
	s := strings.Join(p, " ; ")
	if len(s) > 700 {
		s = s[:700] + "..."
	}
	return s
}
