//go:build verif

// Package h_c20 is the end-to-end harness of check C20 (DNS64): the real
// default sdns chain WITH the dns64 handler (… edns … dns64 … cache …
// resolver …, validation on) resolving over loopback against a scripted signed
// hierarchy (zonemodel + authsim), side by side with the same chain built
// without dns64 as the reference for "what did the AAAA lookup itself say".
package h_c20

import (
	"github.com/semihalev/sdns/internal/verifshim/zonemodel"
)

const (
	vkPrefix    = "64:ff9b::/96"
	vkExcludeV4 = "10.0.0.0/8" // exclude_a_networks, given explicitly
	vkLongTTL   = 7200         // A / alias TTL that outlives DNSKEY (3600), DS and NS TTLs
	vkZoneTTL   = 300          // zone default = SOA TTL = SOA MINIMUM (the AAAA negative TTL)
	vkStaleStep = 3700         // seconds: every DNSKEY / DS / NS / negative entry has expired, a vkLongTTL answer has not
)

// vkUniverse:
//
//	.      NSEC    signed root (trust anchor)
//	t.     NSEC    TLD
//	s.t.   NSEC    signed; names with A only (TTL above / below the negative TTL), a dual-stack name, a name whose
//	               only A is in an excluded range, in-zone and cross-zone aliases onto A-only names, a TXT-only name
//	h.t.   NSEC3   signed (salt, 2 iterations); A-only name
//	u.t.   unsigned, no DS (proven insecure delegation)                       — control
//	i.t.   NSEC    signed island: no DS in the parent (insecure delegation)   — control
func vkUniverse(rot int) *zonemodel.Universe {
	alg := func(i int) uint8 { return zonemodel.Algorithms[(i+rot)%len(zonemodel.Algorithms)] }
	u := zonemodel.NewUniverse("c20")
	u.AddZone(zonemodel.ZoneSpec{Apex: ".", Mode: zonemodel.NSEC, Alg: alg(0), TTL: vkZoneTTL, NSTTL: vkLongTTL, DSTTL: vkLongTTL})
	u.AddZone(zonemodel.ZoneSpec{Apex: "t.", Mode: zonemodel.NSEC, Alg: alg(1), TTL: vkZoneTTL, NSTTL: vkLongTTL, DSTTL: vkLongTTL})
	s := u.AddZone(zonemodel.ZoneSpec{Apex: "s.t.", Mode: zonemodel.NSEC, Alg: alg(2), TTL: vkZoneTTL, NSTTL: vkLongTTL, DSTTL: vkLongTTL})
	h := u.AddZone(zonemodel.ZoneSpec{Apex: "h.t.", Mode: zonemodel.NSEC3, Alg: alg(0), Salt: "ab", Iter: 2, TTL: vkZoneTTL, NSTTL: vkLongTTL, DSTTL: vkLongTTL})
	ut := u.AddZone(zonemodel.ZoneSpec{Apex: "u.t.", Mode: zonemodel.Unsigned, TTL: vkZoneTTL, NSTTL: vkLongTTL, DSTTL: vkLongTTL})
	it := u.AddZone(zonemodel.ZoneSpec{Apex: "i.t.", Mode: zonemodel.NSEC, Alg: alg(1), NoDS: true, TTL: vkZoneTTL, NSTTL: vkLongTTL, DSTTL: vkLongTTL})
	s.Add(
		"v4 7200 A 93.184.216.34", "v4 7200 A 93.184.216.35", `v4 TXT "v4-in-s"`,
		"short 60 A 93.184.216.36",
		"dual A 93.184.216.40", "dual AAAA 2001:db8:1::40",
		"priv 7200 A 10.1.2.3",
		"mixed 7200 A 10.1.2.4", "mixed 7200 A 93.184.216.41",
		"al 7200 CNAME v4.s.t.",
		"x 7200 CNAME v4.h.t.",
		`txt TXT "no address at all"`,
	)
	h.Add("v4 7200 A 198.41.0.4", `v4 TXT "v4-in-h"`)
	ut.Add("v4 7200 A 198.41.0.5")
	it.Add("v4 7200 A 198.41.0.6")
	return u.Build()
}

type vkName struct {
	Name string
	Tier int // 0 = quick and thorough, 1 = thorough only
}

var vkNames = []vkName{
	{"v4.s.t.", 0},    // secure (NSEC), A only, A TTL above the negative TTL
	{"v4.h.t.", 0},    // secure (NSEC3), A only
	{"al.s.t.", 0},    // in-zone alias onto an A-only name
	{"x.s.t.", 0},     // cross-zone alias onto an A-only name
	{"short.s.t.", 0}, // A TTL below the negative TTL
	{"nx.s.t.", 0},    // NXDOMAIN
	{"dual.s.t.", 0},  // native AAAA
	{"priv.s.t.", 0},  // only A is in an excluded range
	{"v4.u.t.", 0},    // control: unsigned zone
	{"v4.i.t.", 0},    // control: signed island (no DS)
	{"mixed.s.t.", 1}, // one excluded and one translatable A
	{"txt.s.t.", 1},   // neither A nor AAAA
}
