//go:build verif

package h_c20

// Kinds beyond the verbatim copy of the C01 alphabet (zz_verif_c20_tamper_test.go), taken from
// lib/h_c01/zz_verif_c01_xnew_test.go:
//
//	forge-bare-nodata   a positive answer or a referral replaced by a response that is nothing but a header
//	                    (NOERROR, every section empty)
//	strip-negative      a genuine negative response with every section emptied, rcode kept
//
// A DS sub-query answered like that makes resolver.lookupDS fail with the untyped error
// "DS or NSEC records not found". With VERIF_C20_E2E_ANCHORS=1 they are enumerated like every other kind AND
// as the second tamper of the family "a tamper provokes DS sub-queries, one of them is answered bare"
// (vkScenario.Then); without the switch they are registered (a recorded violation replays by kind name) but
// not enumerated.

import (
	"os"

	"github.com/miekg/dns"
)

// vkExtraOn switches on the histories and kinds that the unchanged tree (/repo 192514c) violates.
// Since /repo c1e29cf (the four failures carry DNSSEC codes) these histories are part of every run; =0 leaves them out.
var vkExtraOn = os.Getenv("VERIF_C20_E2E_ANCHORS") != "0"

const vkTierFamily = 9 // never enumerated on its own

var vkBareKinds = []string{"forge-bare-nodata", "strip-negative"}

func isNegative(m *dns.Msg) bool {
	return len(m.Answer) == 0 && (m.Rcode == dns.RcodeNameError || (m.Rcode == dns.RcodeSuccess && hasSOA(m.Ns)))
}

func vkBare(m *dns.Msg, rcode int) { m.Answer, m.Ns, m.Extra, m.Rcode = nil, nil, nil, rcode }

func init() {
	tier := vkTierFamily
	if vkExtraOn {
		tier = 0
	}
	vkKinds = append(vkKinds,
		vkKind{"forge-bare-nodata", tier, func(c *vkTamperCtx, m *dns.Msg) bool {
			if c.zone == nil || isNegative(m) || m.Rcode != dns.RcodeSuccess {
				return false
			}
			vkBare(m, dns.RcodeSuccess)
			return true
		}},
		vkKind{"strip-negative", tier, func(c *vkTamperCtx, m *dns.Msg) bool {
			if c.zone == nil || !isNegative(m) {
				return false
			}
			vkBare(m, m.Rcode)
			return true
		}},
	)
}
