//go:build verif

package h_c01

// Decoy-signature combinations: a tampering of ONE response combined with junk
// RRSIGs next to the real ones. Every field of an RRSIG (labels, signer, window,
// key tag) is unauthenticated until that very signature verifies, and a verifier
// needs only one verifying signature per RRset — so any decision taken from "the
// first" (or "the last") RRSIG of an RRset can be steered by a junk signature
// placed there. This file must sort after the other harness files: its init
// derives kinds from the complete vkKinds list.

import (
	"encoding/base64"
	"strings"

	"github.com/miekg/dns"
)

func vkDecoy(s *dns.RRSIG) *dns.RRSIG {
	d := dns.Copy(s).(*dns.RRSIG)
	raw, err := base64.StdEncoding.DecodeString(d.Signature)
	if err != nil || len(raw) == 0 {
		raw = make([]byte, 64)
	}
	for i := range raw {
		raw[i] = 0x42
	}
	d.Signature = base64.StdEncoding.EncodeToString(raw)
	// claims to be an ordinary, non-expanded signature over this owner
	n := dns.CountLabel(d.Hdr.Name)
	if strings.HasPrefix(d.Hdr.Name, "*.") {
		n--
	}
	d.Labels = uint8(n)
	return d
}

func vkAddDecoys(m *dns.Msg, first bool) bool {
	any := false
	for _, sec := range []*[]dns.RR{&m.Answer, &m.Ns} {
		var out, tail []dns.RR
		for _, rr := range *sec {
			if s, ok := rr.(*dns.RRSIG); ok {
				any = true
				if first {
					out = append(out, vkDecoy(s), rr)
				} else {
					out = append(out, rr)
					tail = append(tail, vkDecoy(s))
				}
				continue
			}
			out = append(out, rr)
		}
		*sec = append(out, tail...)
	}
	return any
}

func init() {
	vkKinds = append(vkKinds, vkKind{"forge-cname-foreign-dname", 0, func(c *vkTamperCtx, m *dns.Msg) bool {
		// A forged, unsigned CNAME at the query name dressed up as an RFC 6672 synthesis: an
		// unsigned DNAME owned by an ANCESTOR OUTSIDE the signed zone sits in the authority
		// section (where out-of-zone records are tolerated as referral remnants) and a junk
		// RRSIG(CNAME) names the zone as signer so that this signer is proposed at all.
		if c.zone == nil || !c.zone.Mode.Signed() || c.zone.Apex == "." {
			return false
		}
		switch c.q.Qtype {
		case dns.TypeDNSKEY, dns.TypeDS, dns.TypeCNAME, dns.TypeDNAME:
			return false
		}
		qn := strings.ToLower(dns.Fqdn(c.q.Name))
		if qn == c.zone.Apex || !dns.IsSubDomain(c.zone.Apex, qn) {
			return false
		}
		off, end := dns.NextLabel(c.zone.Apex, 0)
		parent := "."
		if !end {
			parent = c.zone.Apex[off:]
		}
		tgtZone := "u.t."
		target := strings.TrimSuffix(qn, parent) + tgtZone
		if parent == "." {
			target = qn + tgtZone
		}
		var tmpl *dns.RRSIG
		for _, sec := range [][]dns.RR{m.Answer, m.Ns} {
			for _, rr := range sec {
				if sgn, ok := rr.(*dns.RRSIG); ok && tmpl == nil {
					tmpl = sgn
				}
			}
		}
		if tmpl == nil {
			return false
		}
		junk := vkDecoy(tmpl)
		junk.Hdr.Name, junk.Hdr.Ttl, junk.OrigTtl = c.q.Name, 300, 300
		junk.TypeCovered = dns.TypeCNAME
		junk.Labels = uint8(dns.CountLabel(qn))
		junk.SignerName = c.zone.Apex
		m.Rcode = dns.RcodeSuccess
		m.Answer = []dns.RR{
			&dns.CNAME{Hdr: dns.RR_Header{Name: c.q.Name, Rrtype: dns.TypeCNAME, Class: dns.ClassINET, Ttl: 300}, Target: target},
			junk,
		}
		m.Ns = []dns.RR{&dns.DNAME{Hdr: dns.RR_Header{Name: parent, Rrtype: dns.TypeDNAME, Class: dns.ClassINET, Ttl: 300}, Target: tgtZone}}
		return true
	}})
	bases := []struct {
		name string
		tier int
	}{{"wildcard-replay", 0}, {"flip-answer", 0}, {"labels-1", 1}, {"sig-expired", 1}, {"signer-ancestor", 1}, {"flip-authority", 1}}
	for _, b := range bases {
		base := vkKindByName(b.name)
		if base == nil {
			panic("decoy base kind missing: " + b.name)
		}
		fn := base.Fn
		for _, first := range []bool{true, false} {
			first := first
			suffix := "+decoy-last"
			if first {
				suffix = "+decoy-first"
			}
			vkKinds = append(vkKinds, vkKind{b.name + suffix, b.tier, func(c *vkTamperCtx, m *dns.Msg) bool {
				return fn(c, m) && vkAddDecoys(m, first)
			}})
		}
	}
}
