//go:build verif

package h_c01

import (
	"fmt"
	"os"
	"testing"
	"time"

	"github.com/semihalev/sdns/internal/verifshim/vkit"
)

// TestVerifC01Stragglers: manual aid — looks for upstream traffic after the reply was written.
func TestVerifC01Stragglers(t *testing.T) {
	if os.Getenv("VERIF_DEBUG2") == "" {
		t.Skip()
	}
	c := vkit.Init("C01/debug2")
	w, _ := vkGetWorld(c, 0)
	for _, nm := range vkNames {
		for _, qt := range vkTypes {
			for _, f := range vkFlagSets() {
				q := vkQuery{Name: nm.Name, Type: qt, F: f}
				w.pl.Reset()
				r := w.pl.Ask(q.Name, q.Type, q.F, "tcp")
				n1 := len(w.sim.Log())
				time.Sleep(15 * time.Millisecond)
				n2 := len(w.sim.Log())
				if n2 != n1 || n1 > 12 {
					fmt.Printf("%s: upstream=%d at-return=%d later=%d path=%s\n", q, r.Upstream, n1, n2, vkPathStr(w.sim.Log()))
				}
			}
		}
	}
}
