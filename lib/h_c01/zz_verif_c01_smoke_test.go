//go:build verif

package h_c01

import (
	"fmt"
	"os"
	"strings"
	"testing"
	"time"

	"github.com/miekg/dns"
	"github.com/semihalev/sdns/internal/verifshim/authsim"
	"github.com/semihalev/sdns/internal/verifshim/h_resolver"
	"github.com/semihalev/sdns/internal/verifshim/zonemodel"
)

// TestVerifC01Smoke prints baseline resolutions (manual aid: VERIF_SMOKE=1).
func TestVerifC01Smoke(t *testing.T) {
	if os.Getenv("VERIF_SMOKE") == "" {
		t.Skip()
	}
	t0 := time.Now()
	u := vkUniverse(0)
	fmt.Println("universe built in", time.Since(t0))
	sim, err := authsim.Start(u)
	if err != nil {
		t.Fatal(err)
	}
	defer sim.Close()
	pl, err := h_resolver.New(sim, h_resolver.Options{})
	if err != nil {
		t.Fatal(err)
	}
	defer pl.Close()
	fmt.Println("handlers:", pl.HandlerNames())
	var total time.Duration
	n := 0
	for _, nm := range vkNames {
		if f := os.Getenv("VERIF_SMOKE_NAME"); f != "" && f != nm.Name {
			continue
		}
		for _, qt := range vkTypes {
			pl.Reset()
			r := pl.Ask(nm.Name, qt, h_resolver.Flags{DO: true}, "tcp")
			total += r.Elapsed
			n++
			tr := u.Truth(nm.Name, qt)
			var path []string
			for _, q := range sim.Log() {
				path = append(path, fmt.Sprintf("%s<-%s/%s", q.Server, q.QName, dns.TypeToString[q.QType]))
			}
			got := "<none>"
			if r.Msg != nil {
				got = fmt.Sprintf("%s ad=%v ans=%d", dns.RcodeToString[r.Msg.Rcode], r.Msg.AuthenticatedData, len(r.Msg.Answer))
			}
			fmt.Printf("%-16s %-7s truth=%s/%s/%s(%d) got=%s  %v n=%d [%s]\n", nm.Name, dns.TypeToString[qt], dns.RcodeToString[tr.Rcode], tr.Terminal, tr.Status, len(tr.Answer),
				got, r.Elapsed.Round(100*time.Microsecond), len(path), strings.Join(path, " "))
			if os.Getenv("VERIF_SMOKE") == "2" && r.Msg != nil {
				fmt.Println(r.Msg)
			}
		}
	}
	fmt.Printf("avg %v over %d\n", total/time.Duration(n), n)
	_ = zonemodel.Secure
}
