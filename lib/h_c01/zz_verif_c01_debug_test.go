//go:build verif

package h_c01

import (
	"fmt"
	"os"
	"strings"
	"testing"

	"github.com/miekg/dns"
	"github.com/semihalev/sdns/internal/verifshim/h_resolver"
	"github.com/semihalev/sdns/internal/verifshim/vkit"
)

// TestVerifC01Debug: manual aid. VERIF_DEBUG="name type kind" lists every position's outcome.
func TestVerifC01Debug(t *testing.T) {
	spec := os.Getenv("VERIF_DEBUG")
	if spec == "" {
		t.Skip()
	}
	c := vkit.Init("C01/debug")
	w, err := vkGetWorld(c, 0)
	if err != nil {
		t.Fatal(err)
	}
	f := strings.Fields(spec)
	q := vkQuery{Name: f[0], Type: dns.StringToType[f[1]], F: h_resolver.Flags{DO: true}}
	r0 := w.vkRun(vkScenario{Q: q}, false)
	fmt.Println("baseline", r0.outcomes, vkPathStr(r0.firstPath))
	for pos, ex := range r0.firstPath {
		for _, k := range vkKinds {
			if len(f) > 2 && f[2] != k.Name {
				continue
			}
			s := vkScenario{Q: q, Tampers: []vkTamper{{Key: ex.Key(), Kind: k.Name}}}
			r := w.vkRun(s, true)
			fmt.Printf("pos %d %-28s %-24s fired=%v up=%d out=%v viol=%s\n   path: %s\n", pos, ex.Key(), k.Name, r.fired, r.upstream, r.outcomes, r.verdict.Viol, vkPathStr(w.sim.Log()))
		}
	}
}

// TestVerifC01Seq: manual aid. VERIF_SEQ="name type flags[;name type flags…]" (flags: letters of d=DO c=CD a=AD o=OPT, "-" for none)
// asks the queries in order from one cold state and prints every reply with its upstream exchanges.
func TestVerifC01Seq(t *testing.T) {
	spec := os.Getenv("VERIF_SEQ")
	if spec == "" {
		t.Skip()
	}
	c := vkit.Init("C01/seq")
	w, err := vkGetWorld(c, 0)
	if err != nil {
		t.Fatal(err)
	}
	w.pl.Reset()
	for _, one := range strings.Split(spec, ";") {
		f := strings.Fields(one)
		fl := h_resolver.Flags{DO: strings.Contains(f[2], "d"), CD: strings.Contains(f[2], "c"), AD: strings.Contains(f[2], "a"), OPT: strings.Contains(f[2], "o")}
		q := vkQuery{Name: f[0], Type: dns.StringToType[f[1]], F: fl}
		n0 := len(w.sim.Log())
		r := w.pl.Ask(q.Name, q.Type, q.F, "tcp")
		v := w.vkJudge(q, r, false)
		fmt.Printf("== %s -> %s %s\n   upstream: %s\n%v\n", q, v.Outcome, v.Viol, vkPathStr(w.sim.Log()[n0:]), r.Msg)
	}
}
