//go:build verif

package h_c01

// Kinds added after the seeding round C01m (its "side observations" S1-S3 and the seed itself):
//
//	forge-bare-nxdomain / forge-bare-nodata   a positive answer or a referral replaced by a response that is
//	                                          nothing but a header: NXDOMAIN / NOERROR, every section empty
//	strip-negative                            a genuine negative response with every section emptied, rcode kept
//	replay-other-type[-2..-4]                 the question answered with the genuine, correctly signed RRset of
//	                                          ANOTHER type at the same owner (pure replay, no key needed)
//	downgrade-by-attacker-nods-proof          four cooperating tampers (family, see vkNoDSFamily)
//
// The file sorts after the files that fill vkKinds and before zz_verif_c01_zdecoy_test.go.

import (
	"fmt"
	"os"
	"strings"
	"time"

	"github.com/miekg/dns"
	"github.com/semihalev/sdns/internal/verifshim/authsim"
	"github.com/semihalev/sdns/internal/verifshim/zonemodel"
)

// vkTierFamily marks kinds that are only used as members of a family (never enumerated on their own).
const vkTierFamily = 9

// vkNewKindsOn: VERIF_C01_NEWKINDS=1 enumerates the kinds that the unchanged tree (/repo 7de9b45) violates.
// They are registered either way (a recorded violation replays by kind name); without the switch they are
// not part of the default run.
// Since /repo 3d9aea3 / 4abddf1 / f0f00a7 (the three repairs) they are part of every run; VERIF_C01_NEWKINDS=0 leaves them out.
var vkNewKindsOn = os.Getenv("VERIF_C01_NEWKINDS") != "0"

// vkGatedKinds: kinds that violated on /repo before those repairs; see mutants/C01/RESULTS.md ("27 Sep").
var vkGatedKinds = map[string]bool{"forge-bare-nxdomain": true, "forge-bare-nodata": true, "strip-negative": true,
	"replay-other-type": true, "replay-other-type-2": true, "replay-other-type-3": true, "replay-other-type-4": true}

func vkGate(name string, tier int) int {
	if vkGatedKinds[name] && !vkNewKindsOn {
		return vkTierFamily
	}
	return tier
}

func isNegative(m *dns.Msg) bool {
	return len(m.Answer) == 0 && (m.Rcode == dns.RcodeNameError || (m.Rcode == dns.RcodeSuccess && hasSOA(m.Ns)))
}

func vkBare(m *dns.Msg, rcode int) {
	m.Answer, m.Ns, m.Extra, m.Rcode = nil, nil, nil, rcode
}

// vkOtherTypes: candidate types for replay-other-type, ordinary data first.
var vkOtherTypes = []uint16{dns.TypeTXT, dns.TypeA, dns.TypeAAAA, dns.TypeCAA, dns.TypeSOA, dns.TypeNS, dns.TypeDNSKEY, dns.TypeDS}

// replayOtherType replaces the answer by the zone's own signed RRset of the k-th OTHER type that exists at
// the query name (wildcard-expanded like a real server would). It applies to a positive answer for the
// question type and to a NODATA at an existing owner (there the authority section, i.e. the proof, goes).
func replayOtherType(c *vkTamperCtx, m *dns.Msg, k int) bool {
	if c.zone == nil || !c.zone.Mode.Signed() || m.Rcode != dns.RcodeSuccess {
		return false
	}
	positive := len(m.Answer) > 0 && strings.EqualFold(m.Answer[0].Header().Name, c.q.Name) && m.Answer[0].Header().Rrtype == c.q.Qtype
	nodata := len(m.Answer) == 0 && hasSOA(m.Ns)
	if !positive && !nodata {
		return false
	}
	n := 0
	for _, ot := range vkOtherTypes {
		if ot == c.q.Qtype {
			continue
		}
		o := c.u.Answer(c.zone.Apex, c.q.Name, ot, true)
		if o.Rcode != dns.RcodeSuccess || len(o.Answer) == 0 || o.Answer[0].Header().Rrtype != ot || !strings.EqualFold(o.Answer[0].Header().Name, c.q.Name) {
			continue
		}
		if n < k {
			n++
			continue
		}
		m.Answer = o.Answer
		if nodata {
			m.Ns = nil
		}
		return true
	}
	return false
}

func init() {
	add := func(name string, tier int, fn func(c *vkTamperCtx, m *dns.Msg) bool) {
		vkKinds = append(vkKinds, vkKind{name, vkGate(name, tier), fn})
	}
	add("forge-bare-nxdomain", 0, func(c *vkTamperCtx, m *dns.Msg) bool {
		if c.zone == nil || isNegative(m) || m.Rcode != dns.RcodeSuccess {
			return false
		}
		vkBare(m, dns.RcodeNameError)
		return true
	})
	add("forge-bare-nodata", 0, func(c *vkTamperCtx, m *dns.Msg) bool {
		if c.zone == nil || isNegative(m) || m.Rcode != dns.RcodeSuccess {
			return false
		}
		vkBare(m, dns.RcodeSuccess)
		return true
	})
	add("strip-negative", 0, func(c *vkTamperCtx, m *dns.Msg) bool {
		if c.zone == nil || !isNegative(m) {
			return false
		}
		vkBare(m, m.Rcode)
		return true
	})
	for k := 0; k < 4; k++ {
		k := k
		name, tier := "replay-other-type", 0
		if k > 0 {
			name = fmt.Sprintf("replay-other-type-%d", k+1)
		}
		if k > 1 {
			tier = 1
		}
		add(name, tier, func(c *vkTamperCtx, m *dns.Msg) bool { return replayOtherType(c, m, k) })
	}

	// members of the family downgrade-by-attacker-nods-proof
	vkKinds = append(vkKinds,
		vkKind{"nods-proof-attacker-signed", vkTierFamily, func(c *vkTamperCtx, m *dns.Msg) bool {
			// the DS question for a signed child answered NODATA: the parent's genuine signed SOA plus a
			// forged insecure-delegation proof — an NSEC (NSEC3 parent: the matching NSEC3) at the cut whose
			// bitmap has NS but no DS — signed with the attacker's own key under the parent's name
			if c.q.Qtype != dns.TypeDS || c.zone == nil || !c.zone.Mode.Signed() {
				return false
			}
			has := false
			for _, rr := range m.Answer {
				if rr.Header().Rrtype == dns.TypeDS {
					has = true
				}
			}
			if !has {
				return false
			}
			p := c.zone
			child := zonemodel.Canon(c.q.Name)
			ttl := uint32(300)
			soa := p.SignedRRset(p.Apex, dns.TypeSOA)
			if len(soa) == 0 {
				return false
			}
			if s, ok := soa[0].(*dns.SOA); ok {
				ttl = s.Minttl
			}
			var proof dns.RR
			if p.Mode == zonemodel.NSEC {
				proof = &dns.NSEC{Hdr: dns.RR_Header{Name: child, Rrtype: dns.TypeNSEC, Class: dns.ClassINET, Ttl: ttl},
					NextDomain: "zz-" + child, TypeBitMap: []uint16{dns.TypeNS, dns.TypeRRSIG, dns.TypeNSEC}}
			} else {
				h := dns.HashName(child, dns.SHA1, p.Iter, p.Salt)
				next := []byte(h)
				if next[len(next)-1] == 'V' {
					next[len(next)-1] = 'U'
				} else {
					next[len(next)-1] = 'V'
				}
				flags := uint8(0)
				if p.Mode == zonemodel.NSEC3OptOut {
					flags = 1
				}
				salt := p.Salt
				proof = &dns.NSEC3{Hdr: dns.RR_Header{Name: strings.ToLower(h) + "." + p.Apex, Rrtype: dns.TypeNSEC3, Class: dns.ClassINET, Ttl: ttl},
					Hash: dns.SHA1, Flags: flags, Iterations: p.Iter, SaltLength: uint8(len(salt) / 2), Salt: salt,
					HashLength: 20, NextDomain: string(next), TypeBitMap: []uint16{dns.TypeNS}}
				if p.Apex == "." {
					proof.Header().Name = strings.ToLower(h) + "."
				}
			}
			m.Rcode, m.Answer = dns.RcodeSuccess, nil
			m.Ns = append(soa, proof, zonemodel.SignWith(attackerKey(c), p.Apex, []dns.RR{proof}, time.Now()))
			return true
		}},
		vkKind{"attacker-key-appended", vkTierFamily, func(c *vkTamperCtx, m *dns.Msg) bool {
			// DNSKEY response: the genuine keys and their genuine RRSIGs with the attacker's key appended to
			// the RRset (which therefore no longer verifies under the DS / trust anchor)
			if c.q.Qtype != dns.TypeDNSKEY || c.zone == nil || !c.zone.Mode.Signed() || !strings.EqualFold(zonemodel.Canon(c.q.Name), c.zone.Apex) {
				return false
			}
			ttl, has := uint32(0), false
			for _, rr := range m.Answer {
				if rr.Header().Rrtype == dns.TypeDNSKEY {
					has, ttl = true, rr.Header().Ttl
				}
			}
			if !has {
				return false
			}
			ak := dns.Copy(attackerKey(c).DNSKEY)
			ak.Header().Ttl = ttl
			m.Answer = append(m.Answer, ak)
			return true
		}},
	)
}

// vkNoDSFamily — downgrade-by-attacker-nods-proof: for every referral to a SIGNED child on the path
//
//	(1) the referral loses everything DNSSEC (kind downgrade: DS, RRSIG, NSEC gone),
//	(2) every DS question for the child at the parent is answered with a forged no-DS proof signed by an
//	    attacker key (nods-proof-attacker-signed),
//	(3) every DNSKEY answer of the PARENT carries that attacker key appended (attacker-key-appended),
//	(4) one later exchange with the child (or below) is forged and unsigned (forge-unsigned / forge-positive).
//
// (2) and (3) are scripted for every occurrence (Occ -1): the exchanges of the validator's own DS / DNSKEY
// sub-queries are not on the untampered path.
func (w *vkWorld) vkNoDSFamily(rot int, q vkQuery, path []authsim.Query) []vkScenario {
	var scen []vkScenario
	for i, ex := range path {
		honest := w.u.ServerAnswer(ex.Server, dns.Question{Name: ex.QName, Qtype: ex.QType, Qclass: dns.ClassINET}, ex.DO)
		if len(honest.Answer) > 0 || hasSOA(honest.Ns) || honest.Rcode != dns.RcodeSuccess {
			continue
		}
		parent := w.u.HostedZone(ex.Server, ex.QName, ex.QType)
		child := ""
		for _, rr := range honest.Ns {
			if rr.Header().Rrtype == dns.TypeDS {
				child = zonemodel.Canon(rr.Header().Name)
			}
		}
		if parent == nil || !parent.Mode.Signed() || child == "" {
			continue
		}
		pserver := ex.Server
		for j := i + 1; j < len(path); j++ {
			ej := path[j]
			if ej.QType == dns.TypeDNSKEY && zonemodel.Canon(ej.QName) != zonemodel.Canon(q.Name) {
				continue // the validator's own key fetches: not reached once the child counts as insecure
			}
			zj := w.u.HostedZone(ej.Server, ej.QName, ej.QType)
			if zj == nil || !dns.IsSubDomain(child, zj.Apex) {
				continue
			}
			hj := w.u.ServerAnswer(ej.Server, dns.Question{Name: ej.QName, Qtype: ej.QType, Qclass: dns.ClassINET}, ej.DO)
			cj := &vkTamperCtx{u: w.u, server: ej.Server, q: dns.Question{Name: ej.QName, Qtype: ej.QType, Qclass: dns.ClassINET}, zone: zj}
			for _, kind := range []string{"forge-unsigned", "forge-positive"} {
				if !vkKindByName(kind).Fn(cj, hj.Copy()) {
					continue
				}
				scen = append(scen, vkScenario{Rot: rot, Q: q, Tampers: []vkTamper{
					{Key: ex.Key(), Kind: "downgrade"},
					{Key: authsim.Key{Server: pserver, QName: child, QType: dns.TypeDS, Occ: -1}, Kind: "nods-proof-attacker-signed"},
					{Key: authsim.Key{Server: pserver, QName: parent.Apex, QType: dns.TypeDNSKEY, Occ: -1}, Kind: "attacker-key-appended"},
					{Key: ej.Key(), Kind: kind},
				}})
			}
		}
	}
	return scen
}

// vkRunFamily runs the scenarios of one family; non-trivial = the first need tampers fired (the later ones
// are reached only by a resolver that has already been fooled).
func (w *vkWorld) vkRunFamily(name string, scen []vkScenario, need int, q vkQuery) {
	c := w.c
	for _, s := range scen {
		res := w.vkRun(s, true)
		c.Add("scenarios", 1)
		c.Add("family_scenarios:"+name, 1)
		if res.verdict.Viol != "" {
			w.vkReport(s, res)
			if c.NumViolations() > 30 {
				return
			}
			continue
		}
		all := true
		for i, f := range res.fired {
			if f {
				c.Add("fired:"+name+"/"+s.Tampers[i].Kind, 1)
			} else if i < need {
				all = false
			}
		}
		if all {
			c.DistinctStr("nontrivial", fmt.Sprintf("%d|%s|%s|%s", s.Rot, q, name, s))
		}
		c.Outcome(name + "->" + res.outcomes[0])
	}
}
