//go:build verif

package h_c01

// C01 — DNSSEC: validating clients get only authenticated data; AD implies
// authentic. Bounded-exhaustive exploration: for every query of the alphabet
// the untampered resolution path is recorded from authsim's log; then every
// (position on that path) x (tamper kind) is applied — exactly one tampered
// upstream response per scenario (the thorough tier adds pairs) — and the
// query is re-resolved from a cold state, followed by a cache-served history
// (the same query again and two related ones). Every client-visible reply is
// judged against the zone model.

import (
	"encoding/json"
	"fmt"
	"sort"
	"strings"
	"testing"
	"time"

	"github.com/miekg/dns"
	"github.com/semihalev/sdns/internal/verifshim/authsim"
	"github.com/semihalev/sdns/internal/verifshim/h_resolver"
	"github.com/semihalev/sdns/internal/verifshim/vkit"
	"github.com/semihalev/sdns/internal/verifshim/zonemodel"
)

type vkQuery struct {
	Name string           `json:"name"`
	Type uint16           `json:"type"`
	F    h_resolver.Flags `json:"flags"`
}

func (q vkQuery) String() string {
	return fmt.Sprintf("%s/%s/%s", q.Name, dns.TypeToString[q.Type], q.F)
}

type vkTamper struct {
	Key  authsim.Key `json:"key"`
	Kind string      `json:"kind"`
}

// vkScenario is one replayable case.
type vkScenario struct {
	Rot       int        `json:"rot"`
	Q         vkQuery    `json:"q"`
	Tampers   []vkTamper `json:"tampers,omitempty"`
	NoAnchors bool       `json:"no_anchors,omitempty"`
	// BadAnchors: the trust set is non-empty but unusable (key material does not decode: no root DS derivable)
	BadAnchors bool `json:"bad_anchors,omitempty"`
}

func (s vkScenario) String() string {
	var t []string
	for _, x := range s.Tampers {
		t = append(t, x.Kind+"@"+x.Key.String())
	}
	extra := ""
	if s.BadAnchors {
		extra = " unusable-anchors"
	} else if s.NoAnchors {
		extra = " no-anchors"
	}
	return fmt.Sprintf("rot%d %s [%s]%s", s.Rot, s.Q, strings.Join(t, ", "), extra)
}

// vkFlagSets: DO x CD x AD-requested. Without DO the query carries an OPT
// record exactly when AD is not requested, so both "no EDNS at all" and
// "EDNS without DO" occur.
func vkFlagSets() []h_resolver.Flags {
	var out []h_resolver.Flags
	for _, do := range []bool{true, false} {
		for _, cd := range []bool{false, true} {
			for _, ad := range []bool{false, true} {
				out = append(out, h_resolver.Flags{DO: do, CD: cd, AD: ad, OPT: !do && !ad})
			}
		}
	}
	return out
}

type vkWorld struct {
	lastLog  int    // authsim log length when the previous scenario finished
	lastScen string // previous scenario
	rot      int
	u        *zonemodel.Universe
	sim      *authsim.Sim
	pl       *h_resolver.Pipeline
	c        *vkit.Ctx
}

var vkWorlds = map[int]*vkWorld{}

func vkGetWorld(c *vkit.Ctx, rot int) (*vkWorld, error) {
	if w := vkWorlds[rot]; w != nil {
		w.c = c
		return w, nil
	}
	// rot >= 100: the same universe (rotation rot-100) resolved with QNAME minimisation at the shipped default level
	// (the plain rotations run with minimisation off): the minimised questions take other branches of the resolver
	opts := h_resolver.Options{}
	if rot >= 100 {
		opts.QnameMinLevel = 5
	}
	u := vkUniverse(rot % 100)
	sim, err := authsim.Start(u)
	if err != nil {
		return nil, err
	}
	pl, err := h_resolver.New(sim, opts)
	if err != nil {
		return nil, err
	}
	w := &vkWorld{rot: rot, u: u, sim: sim, pl: pl, c: c}
	vkWorlds[rot] = w
	return w, nil
}

// ---------------------------------------------------------------- oracle

type vkVerdict struct {
	Viol    string // "" = property holds for this reply
	Class   string // stable class of the violation
	Outcome string
}

func vkHasEDE(m *dns.Msg) bool {
	if opt := m.IsEdns0(); opt != nil {
		for _, o := range opt.Option {
			if o.Option() == dns.EDNS0EDE {
				return true
			}
		}
	}
	return false
}

type vkSet struct {
	owner string
	rtype uint16
	rrs   []dns.RR
}

func vkGroup(rrs []dns.RR) []vkSet {
	var out []vkSet
	idx := map[string]int{}
	for _, rr := range rrs {
		h := rr.Header()
		if h.Rrtype == dns.TypeRRSIG || h.Rrtype == dns.TypeOPT {
			continue
		}
		k := fmt.Sprintf("%s|%d", strings.ToLower(h.Name), h.Rrtype)
		i, ok := idx[k]
		if !ok {
			i = len(out)
			idx[k] = i
			out = append(out, vkSet{owner: strings.ToLower(h.Name), rtype: h.Rrtype})
		}
		out[i].rrs = append(out[i].rrs, rr)
	}
	return out
}

// vkOnChain splits the reply's answer RRsets into those on the answer chain of q
// (owner = qname, then CNAME / DNAME-substituted targets) and counts the rest.
func vkOnChain(q vkQuery, all []vkSet) (chain []vkSet, off int) {
	used := make([]bool, len(all))
	cur := zonemodel.Canon(q.Name)
	for hop := 0; hop < 24; hop++ {
		next := ""
		for i, s := range all {
			if used[i] {
				continue
			}
			switch {
			case s.owner == cur:
				used[i] = true
				chain = append(chain, s)
				if s.rtype == dns.TypeCNAME && q.Type != dns.TypeCNAME {
					next = zonemodel.Canon(s.rrs[0].(*dns.CNAME).Target)
				}
			case s.rtype == dns.TypeDNAME && s.owner != cur && dns.IsSubDomain(s.owner, cur):
				used[i] = true
				chain = append(chain, s)
			}
		}
		if next == "" {
			break
		}
		cur = next
	}
	for i := range all {
		if !used[i] {
			off++
		}
	}
	return chain, off
}

func vkOffChain(q vkQuery, all []vkSet) []vkSet {
	chain, _ := vkOnChain(q, all)
	on := map[string]bool{}
	for _, s := range chain {
		on[fmt.Sprintf("%s|%d", s.owner, s.rtype)] = true
	}
	var off []vkSet
	for _, s := range all {
		if !on[fmt.Sprintf("%s|%d", s.owner, s.rtype)] {
			off = append(off, s)
		}
	}
	return off
}

// vkAllAuthentic: every RRset is exactly what a secure zone of the model publishes.
func (w *vkWorld) vkAllAuthentic(sets []vkSet) bool {
	for _, s := range sets {
		var want []dns.RR
		var st zonemodel.Status
		var found bool
		if s.rtype == dns.TypeNSEC || s.rtype == dns.TypeNSEC3 {
			want, st, found = w.u.DenialRRset(s.owner, s.rtype)
		} else {
			want, st, found = w.u.AuthRRset(s.owner, s.rtype)
		}
		if st != zonemodel.Secure || !found || zonemodel.SetKey(want) != zonemodel.SetKey(s.rrs) {
			return false
		}
	}
	return true
}

func vkSecStr(rrs []dns.RR) string {
	var p []string
	for _, rr := range rrs {
		if rr.Header().Rrtype != dns.TypeRRSIG {
			p = append(p, strings.Join(strings.Fields(rr.String()), " "))
		}
	}
	s := strings.Join(p, " ; ")
	if len(s) > 400 {
		s = s[:400] + "..."
	}
	return s
}

// vkJudge applies exactly the property to one client-visible reply.
func (w *vkWorld) vkJudge(q vkQuery, r h_resolver.Reply, noAnchors bool) vkVerdict {
	if r.Msg == nil {
		return vkVerdict{Outcome: "no-reply"} // one-reply discipline is C11's property
	}
	m := r.Msg
	rc := dns.RcodeToString[m.Rcode]
	bad := func(class, format string, a ...any) vkVerdict {
		return vkVerdict{Class: class, Viol: fmt.Sprintf(format, a...) + " | reply: " + vkMsgStr(m), Outcome: "VIOLATION:" + class}
	}
	if m.AuthenticatedData && q.F.CD {
		return bad("ad-with-cd", "AD=1 toward a client that set CD")
	}
	if m.AuthenticatedData && !q.F.DO && !q.F.AD {
		return bad("ad-unrequested", "AD=1 toward a client that set neither DO nor AD")
	}
	if q.F.CD {
		return vkVerdict{Outcome: "cd:" + rc}
	}
	if m.Rcode == dns.RcodeServerFailure {
		if m.AuthenticatedData {
			return bad("ad-on-servfail", "AD=1 on SERVFAIL")
		}
		// a SERVFAIL may carry the part of an alias chain that did validate; it must still be authentic
		onChain, _ := vkOnChain(q, vkGroup(m.Answer))
		for _, st := range onChain {
			want, sec, found := w.u.AuthRRset(st.owner, st.rtype)
			if sec == zonemodel.Secure && (!found || zonemodel.SetKey(want) != zonemodel.SetKey(st.rrs)) {
				return bad("altered-data", "SERVFAIL carries answer RRset %s/%s that differs from what its (secure) zone publishes", st.owner, dns.TypeToString[st.rtype])
			}
		}
		if q.F.HasOPT() && !vkHasEDE(m) {
			var ts []string
			for _, st := range vkGroup(m.Answer) {
				ts = append(ts, dns.TypeToString[st.rtype])
			}
			carries := "nothing"
			if len(ts) > 0 {
				carries = strings.Join(ts, "+")
			}
			return bad("servfail-without-ede|reply-carries:"+carries, "SERVFAIL without an Extended DNS Error although the query carried OPT")
		}
		if q.F.HasOPT() {
			return vkVerdict{Outcome: "servfail+ede"}
		}
		return vkVerdict{Outcome: "servfail"}
	}
	if noAnchors {
		return bad("answer-without-anchors", "no trust anchor configured, CD=0, but the reply is %s instead of SERVFAIL", rc)
	}
	// every RRset of the reply's answer chain (qname, then alias targets) that is owned under an
	// unbroken signed chain must be exactly what its zone publishes. Records that are not on the
	// chain answer nothing for this question (bailiwick hygiene is C07's property, not this one).
	all := vkGroup(m.Answer)
	sets, offChain := vkOnChain(q, all)
	allSecure := true
	for _, s := range sets {
		want, st, found := w.u.AuthRRset(s.owner, s.rtype)
		if st != zonemodel.Secure {
			allSecure = false
			continue
		}
		if !found {
			return bad("altered-data", "answer RRset %s/%s does not exist in its (secure) zone", s.owner, dns.TypeToString[s.rtype])
		}
		if zonemodel.SetKey(want) != zonemodel.SetKey(s.rrs) {
			return bad("altered-data", "answer RRset %s/%s differs from what its (secure) zone publishes: want {%s}", s.owner, dns.TypeToString[s.rtype], zonemodel.SetKey(want))
		}
		for _, rr := range s.rrs {
			if rr.Header().Ttl > want[0].Header().Ttl {
				return bad("ttl-raised", "answer RRset %s/%s TTL %d exceeds the signed original %d", s.owner, dns.TypeToString[s.rtype], rr.Header().Ttl, want[0].Header().Ttl)
			}
		}
	}
	// The answer chain must answer the QUESTION: an RRset owned by the query name (or by an alias target on the
	// chain) whose type is neither the question's nor an alias type answers another question. Genuine and
	// correctly signed as it may be, it is not what the signer published for this question.
	for _, s := range sets {
		if s.rtype == q.Type || s.rtype == dns.TypeCNAME || s.rtype == dns.TypeDNAME {
			continue
		}
		if _, st, _ := w.u.AuthRRset(s.owner, s.rtype); st == zonemodel.Secure {
			return bad("answers-another-question", "the answer to a %s question carries the %s RRset of %s (a name under an unbroken signed chain) as its answer", dns.TypeToString[q.Type], dns.TypeToString[s.rtype], s.owner)
		}
	}
	t := w.u.Truth(q.Name, q.Type)
	// relation of the reply to the model's answer chain
	got := map[string]string{}
	for _, s := range sets {
		got[fmt.Sprintf("%s|%d", s.owner, s.rtype)] = zonemodel.SetKey(s.rrs)
	}
	matchFirst := func(k int) bool {
		if len(got) != k {
			return false
		}
		for _, ts := range t.Answer[:k] {
			if got[fmt.Sprintf("%s|%d", ts.Owner, ts.Type)] != zonemodel.SetKey(ts.RRs) {
				return false
			}
		}
		return true
	}
	full := m.Rcode == t.Rcode && matchFirst(len(t.Answer))
	prefix := false
	if !full && m.Rcode == dns.RcodeSuccess {
		for k := 1; k < len(t.Answer); k++ {
			if t.Answer[k-1].Type == dns.TypeCNAME && matchFirst(k) {
				prefix = true
			}
		}
	}
	if prefix && t.Status == zonemodel.Secure {
		// The reply ends in an alias and says NOERROR, but the model's chain goes on inside secure zones: the target's
		// lookup did not deliver its data. Untampered, the target's records are missing; tampered, "a response on the
		// path is mis-signed … the client gets SERVFAIL" — a NOERROR (with AD when the alias validated) is neither.
		return bad("alias-without-target", "the reply ends in an alias (%s, %d of %d answer RRsets of the model's chain) although the chain continues under secure zones: the client must get the whole answer or SERVFAIL",
			rc, len(sets), len(t.Answer))
	}
	if t.Status == zonemodel.Secure && !full && !prefix {
		return bad("altered-data", "name is secure in the model but the reply (%s, %d answer RRsets) is neither SERVFAIL nor the model's truth (%s/%s, %d RRsets)",
			rc, len(sets), dns.RcodeToString[t.Rcode], t.Terminal, len(t.Answer))
	}
	if t.Status != zonemodel.Secure && !full && (m.Rcode == dns.RcodeNameError || m.Rcode == dns.RcodeSuccess) {
		// The model's chain ends outside the signed tree, but its first steps may lie inside it. A reply that stops
		// short and DENIES the next step (NXDOMAIN after the part it carries; an empty NOERROR for the query name
		// itself) denies an RRset that a secure zone publishes.
		k := 0
		for k < len(t.Answer) && got[fmt.Sprintf("%s|%d", t.Answer[k].Owner, t.Answer[k].Type)] == zonemodel.SetKey(t.Answer[k].RRs) {
			k++
		}
		if k == len(got) && k < len(t.Answer) && t.Answer[k].Secure && (m.Rcode == dns.RcodeNameError || k == 0) {
			return bad("altered-data", "the reply (%s, %d answer RRsets) denies %s/%s, which its secure zone publishes (the model's chain turns insecure only later)",
				rc, len(sets), t.Answer[k].Owner, dns.TypeToString[t.Answer[k].Type])
		}
	}
	// Does the reply present a denial? NXDOMAIN does, a NOERROR without any answer does; a NOERROR that ends in an
	// alias does only when its authority section carries denial records (without them it asserts just the alias
	// RRsets it carries — sdns answers a DS question at an alias owner that way, untampered).
	presentsDenial := m.Rcode == dns.RcodeNameError || len(t.Answer) == 0
	for _, s := range vkGroup(m.Ns) {
		if s.rtype == dns.TypeSOA || s.rtype == dns.TypeNSEC || s.rtype == dns.TypeNSEC3 {
			presentsDenial = true
		}
	}
	if full && presentsDenial && q.F.DO && t.Status == zonemodel.Secure && (t.Terminal == "nodata" || t.Terminal == "nxdomain") {
		// A denial is "what the signer published" only with its proof: toward a DO client the authority section
		// carries the zone's SOA and NSEC/NSEC3 records, and they are the zone's own.
		var soa, denial bool
		for _, s := range vkGroup(m.Ns) {
			switch {
			case s.rtype == dns.TypeSOA && s.owner == zonemodel.Canon(t.Zone):
				soa = true
			case s.rtype == dns.TypeNSEC || s.rtype == dns.TypeNSEC3:
				denial = true
			default:
				continue
			}
			if !w.vkAllAuthentic([]vkSet{s}) {
				return bad("denial-with-forged-proof", "the %s/%s reply's authority section carries %s/%s that is not what its (secure) zone publishes: %s", rc, t.Terminal, s.owner, dns.TypeToString[s.rtype], vkSecStr(m.Ns))
			}
		}
		if !soa || !denial {
			return bad("denial-without-proof", "the reply denies (%s/%s) a name under an unbroken signed chain toward a DO client without the proof (SOA of %s present=%v, NSEC/NSEC3 present=%v): authority = {%s}", rc, t.Terminal, t.Zone, soa, denial, vkSecStr(m.Ns))
		}
	}
	// Does the reply itself assert the terminal step? A NOERROR reply that ends in an alias without
	// data for the target asserts only the alias RRsets it carries (AD then covers exactly those).
	assertsTerminal := len(t.Answer) == 0 || t.Terminal == "answer" || m.Rcode == dns.RcodeNameError
	if m.AuthenticatedData {
		switch {
		case offChain > 0 && !w.vkAllAuthentic(vkOffChain(q, all)):
			return bad("ad-on-unauthentic", "AD=1 on a reply whose answer section carries RRset(s) off the answer chain that are not authentic zone data")
		case !w.vkAllAuthentic(vkGroup(m.Ns)):
			return bad("ad-on-unauthentic", "AD=1 on a reply whose authority section carries an RRset that is not authentic zone data: %s", vkSecStr(m.Ns))
		case !full && !prefix:
			return bad("ad-on-unauthentic", "AD=1 but the reply is not the model's truth (%s/%s/%s)", dns.RcodeToString[t.Rcode], t.Terminal, t.Status)
		case !allSecure:
			return bad("ad-on-insecure", "AD=1 although an answer RRset is not under an unbroken signed chain (model status %s)", t.Status)
		case full && assertsTerminal && t.Status != zonemodel.Secure:
			return bad("ad-on-insecure", "AD=1 although the model status of the answer is %s (opt-out=%v)", t.Status, t.OptOut)
		}
	}
	out := "differs-insecure"
	switch {
	case full && t.Status == zonemodel.Secure:
		out = "truth"
	case full:
		out = "insecure-ok"
	case prefix:
		out = "truth-prefix"
	}
	if m.AuthenticatedData {
		out += "+ad"
	}
	if offChain > 0 {
		out += "+offchain"
	}
	return vkVerdict{Outcome: out + ":" + rc}
}

func vkMsgStr(m *dns.Msg) string {
	var p []string
	p = append(p, fmt.Sprintf("%s ad=%v", dns.RcodeToString[m.Rcode], m.AuthenticatedData))
	for _, rr := range m.Answer {
		if rr.Header().Rrtype == dns.TypeRRSIG {
			continue
		}
		p = append(p, strings.Join(strings.Fields(rr.String()), " "))
	}
	s := strings.Join(p, " ; ")
	if len(s) > 500 {
		s = s[:500] + "..."
	}
	return s
}

// ---------------------------------------------------------------- running

// vkRelated: the same name with another type, and the DNSKEY of the zone that owns the name.
func (w *vkWorld) vkRelated(q vkQuery) []vkQuery {
	alt := uint16(dns.TypeA)
	if q.Type == dns.TypeA {
		alt = dns.TypeTXT
	}
	f := h_resolver.Flags{DO: true}
	out := []vkQuery{{Name: q.Name, Type: alt, F: f}}
	if z := w.u.AuthZone(q.Name, dns.TypeA); z != nil {
		out = append(out, vkQuery{Name: z.Apex, Type: dns.TypeDNSKEY, F: f})
	} else {
		out = append(out, vkQuery{Name: "t.", Type: dns.TypeDNSKEY, F: f})
	}
	return out
}

type vkRunResult struct {
	verdict   vkVerdict
	step      string // which ask failed
	fired     []bool // per tamper: scripted exchange occurred and changed the response
	upstream  int
	disturbed bool
	elapsed   []string
	outcomes  []string
	firstPath []authsim.Query
}

func (w *vkWorld) transformer(tm vkTamper) authsim.Transformer {
	k := vkKindByName(tm.Kind)
	return func(q authsim.Query, honest *dns.Msg) authsim.Action {
		ctx := &vkTamperCtx{u: w.u, server: q.Server, q: dns.Question{Name: q.QName, Qtype: q.QType, Qclass: dns.ClassINET},
			zone: w.u.HostedZone(q.Server, q.QName, q.QType)}
		if k == nil || !k.Fn(ctx, honest) {
			return authsim.Action{}
		}
		return authsim.Action{Msg: honest, Changed: true}
	}
}

// vkRun executes one scenario; a run during which some ask took longer than any scripted
// behaviour can explain (C01 scripts no delays or drops, so only a lost loopback datagram or a
// starved process makes the resolver wait out its 400 ms upstream timeout) is discarded and
// repeated, so that only undisturbed executions are judged.
func (w *vkWorld) vkRun(s vkScenario, history bool) vkRunResult {
	for try := 0; ; try++ {
		r := w.vkRunOnce(s, history)
		if !r.disturbed {
			return r
		}
		if try == 3 {
			w.c.Add("disturbed_kept", 1)
			return r
		}
		w.c.Add("disturbed_reruns", 1)
	}
}

// vkRunOnce executes one scenario from a cold state and judges every reply of its history.
func (w *vkWorld) vkRunOnce(s vkScenario, history bool) vkRunResult {
	if n := w.sim.Count(""); n != w.lastLog {
		w.c.Add("straggler_scenarios", 1)
		w.c.Note(fmt.Sprintf("upstream traffic after the last reply of a scenario (%d late queries): %s", n-w.lastLog, w.lastScen))
	}
	defer func() { w.lastLog, w.lastScen = w.sim.Count(""), s.String() }()
	w.pl.Reset()
	if s.BadAnchors {
		_ = w.pl.SetUnusableTrustAnchors()
	} else if s.NoAnchors {
		_ = w.pl.SetTrustAnchors(nil)
	}
	for _, tm := range s.Tampers {
		w.sim.Script(tm.Key, w.transformer(tm))
	}
	res := vkRunResult{fired: make([]bool, len(s.Tampers))}
	ask := func(step string, q vkQuery) bool {
		r := w.pl.Ask(q.Name, q.Type, q.F, "tcp")
		w.c.Add("evaluations", 1)
		res.upstream += r.Upstream
		res.elapsed = append(res.elapsed, r.Elapsed.Round(time.Millisecond).String())
		if r.Elapsed > 300*time.Millisecond {
			res.disturbed = true
		}
		v := w.vkJudge(q, r, s.NoAnchors)
		res.outcomes = append(res.outcomes, v.Outcome)
		if v.Viol != "" {
			res.verdict, res.step = v, step
			return false
		}
		return true
	}
	ok := ask("tampered resolution", s.Q)
	res.firstPath = w.sim.Log()
	if len(res.firstPath) > 40 {
		w.c.Note(fmt.Sprintf("long path (%d upstream queries): %s", len(res.firstPath), s))
	}
	for _, lq := range res.firstPath {
		for i, tm := range s.Tampers {
			want := authsim.Key{Server: tm.Key.Server, QName: zonemodel.Canon(tm.Key.QName), QType: tm.Key.QType, Occ: tm.Key.Occ}
			if tm.Key.Occ < 0 {
				want.Occ = lq.Occ // scripted for every occurrence
			}
			if lq.Scripted && lq.Changed && lq.Key() == want {
				res.fired[i] = true
			}
		}
	}
	if ok && history {
		if ask("same query again", s.Q) {
			more := w.vkRelated(s.Q)
			if !s.Q.F.DO && !s.Q.F.CD {
				// what a client without DO was told cannot be judged for its proof: ask the same question with DO=1
				more = append([]vkQuery{{Name: s.Q.Name, Type: s.Q.Type, F: h_resolver.Flags{DO: true}}}, more...)
			}
			for i, rq := range more {
				if !ask(fmt.Sprintf("related query %d (%s)", i+1, rq), rq) {
					break
				}
			}
		}
	}
	return res
}

func vkPathStr(p []authsim.Query) string {
	var s []string
	for _, q := range p {
		s = append(s, q.Key().String())
	}
	return strings.Join(s, " ")
}

// vkConfirm re-runs a violating scenario 5 times from freshly reset state.
func (w *vkWorld) vkConfirm(s vkScenario, class string) (int, string) {
	n, last := 0, ""
	for i := 0; i < 5; i++ {
		r := w.vkRun(s, true)
		if r.verdict.Viol != "" && r.verdict.Class == class {
			n++
			last = r.step + ": " + r.verdict.Viol
		}
	}
	return n, last
}

func (w *vkWorld) vkReport(s vkScenario, r vkRunResult) {
	c := w.c
	// shortest counterexample first: a violating pair is reduced to one of its tampers when that
	// tamper alone produces the same class of violation
	// (a family of n tampers is reduced one tamper at a time)
	if len(s.Tampers) > 1 {
		for i := range s.Tampers {
			s1 := s
			s1.Tampers = append(append([]vkTamper{}, s.Tampers[:i]...), s.Tampers[i+1:]...)
			if r1 := w.vkRun(s1, true); r1.verdict.Viol != "" && r1.verdict.Class == r.verdict.Class {
				w.vkReport(s1, r1)
				return
			}
		}
	}
	n, msg := w.vkConfirm(s, r.verdict.Class)
	if n < 5 {
		c.Add("dropped_unreproducible", 1)
		c.Note(fmt.Sprintf("dropped (reproduced %d/5): %s: %s", n, s, r.verdict.Viol[:min(len(r.verdict.Viol), 200)]))
		return
	}
	c.Violation(w.vkKey(s, r.verdict.Class), fmt.Sprintf("%s — scenario: %s; expected: SERVFAIL(+EDE) or the zone model's data with AD only when authentic; path: %s", msg, s, vkPathStr(r.firstPath)), s)
}

// vkKey is the stable id of a failing input: the violation class plus, per tamper, its kind and
// the zone and shape (dnskey / referral / negative / answer) of the upstream response it rewrote.
// The client question and flags are in the message and the replay, not in the key, so that one
// defect in the resolver maps to a handful of keys rather than to one per query of the alphabet.
func (w *vkWorld) vkKey(s vkScenario, class string) string {
	if strings.HasPrefix(class, "servfail-without-ede") {
		return class // the class already names the mechanism (what the EDE-less SERVFAIL carries)
	}
	var t []string
	for _, x := range s.Tampers {
		zone, role := "?", "?"
		if z := w.u.HostedZone(x.Key.Server, x.Key.QName, x.Key.QType); z != nil {
			zone = z.Apex
			h := w.u.ServerAnswer(x.Key.Server, dns.Question{Name: x.Key.QName, Qtype: x.Key.QType, Qclass: dns.ClassINET}, true)
			switch {
			case x.Key.QType == dns.TypeDNSKEY && len(h.Answer) > 0:
				role = "dnskey"
			case len(h.Answer) > 0:
				role = "answer"
			case hasSOA(h.Ns):
				role = "negative"
			default:
				role = "referral"
			}
		}
		t = append(t, fmt.Sprintf("%s@%s:%s", x.Kind, zone, role))
	}
	sort.Strings(t)
	k := class + "|" + strings.Join(t, "+")
	if len(s.Tampers) == 0 {
		k = fmt.Sprintf("%s|untampered:%s/%s", class, s.Q.Name, dns.TypeToString[s.Q.Type])
	}
	if s.BadAnchors {
		k += "|unusable-anchors"
	} else if s.NoAnchors {
		k += "|no-anchors"
	}
	return k
}

func TestVerifC01Tamper(t *testing.T) {
	c := vkit.Init("C01/tamper")
	defer c.Close()
	if c.Replay != nil {
		var s vkScenario
		if err := json.Unmarshal(c.Replay, &s); err != nil {
			c.HarnessError("bad replay: " + err.Error())
			return
		}
		w, err := vkGetWorld(c, s.Rot)
		if err != nil {
			c.HarnessError(err.Error())
			return
		}
		r := w.vkRun(s, true)
		if r.verdict.Viol != "" {
			c.Violation(w.vkKey(s, r.verdict.Class), r.step+": "+r.verdict.Viol+" — scenario: "+s.String()+"; path: "+vkPathStr(r.firstPath), s)
		}
		return
	}

	rots := []int{0}
	tier := 0
	if c.Thorough() {
		rots = []int{0, 1, 2}
		tier = 1
	}
	var kinds []vkKind
	for _, k := range vkKinds {
		if k.Tier <= tier {
			kinds = append(kinds, k)
		}
	}
	capped := false
	for _, rot := range rots {
		w, err := vkGetWorld(c, rot)
		if err != nil {
			c.HarnessError(err.Error())
			return
		}
		if rot == 0 {
			c.Note("pipeline handlers: " + strings.Join(w.pl.HandlerNames(), ","))
			var kn []string
			for _, k := range kinds {
				kn = append(kn, k.Name)
			}
			c.Note(fmt.Sprintf("%d single-tamper kinds enumerated (VERIF_C01_NEWKINDS on=%v): %s", len(kn), vkNewKindsOn, strings.Join(kn, " ")))
		}
		for _, nm := range vkNames {
			if nm.Tier > tier {
				continue
			}
			for _, qt := range vkTypes {
				for _, f := range vkFlagSets() {
					q := vkQuery{Name: nm.Name, Type: qt, F: f}
					// spread by hash: the flag sets have period 8, a plain index would pin one flag set per shard
					if !c.Mine(int(vkit.Hash(fmt.Sprintf("%d|%s", rot, q)) % 1000003)) {
						continue
					}
					if c.OverBudget() {
						capped = true
						break
					}
					w.vkQueryCases(rot, q, kinds)
					if c.NumViolations() > 30 {
						return
					}
				}
			}
		}
	}
	// QNAME minimisation on (level 5, the shipped default): every query again, with the kinds that act on negative
	// responses and on authority sections (what a minimised question meets on its way down)
	if !capped {
		var qk []vkKind
		for _, k := range kinds {
			if vkQminKinds[k.Name] {
				qk = append(qk, k)
			}
		}
		w, err := vkGetWorld(c, 100)
		if err != nil {
			c.HarnessError(err.Error())
			return
		}
		for _, nm := range vkNames {
			if nm.Tier > tier {
				continue
			}
			for _, qt := range vkTypes {
				for _, f := range vkFlagSets() {
					q := vkQuery{Name: nm.Name, Type: qt, F: f}
					if !c.Mine(int(vkit.Hash(fmt.Sprintf("%d|%s", 100, q)) % 1000003)) {
						continue
					}
					if c.OverBudget() {
						capped = true
						break
					}
					w.vkQueryCases(100, q, qk)
					if c.NumViolations() > 30 {
						return
					}
				}
			}
		}
	}
	if capped {
		c.Cap("time budget reached before every query of the alphabet was explored")
	}
	if c.Thorough() && !capped {
		vkPairs(c)
	}
}

// vkQminKinds: the kinds of the minimisation-on pass
var vkQminKinds = map[string]bool{"inject-authority-oz-neg": true, "inject-authority-ns-neg": true, "strip-negative": true,
	"forge-bare-nxdomain": true, "forge-bare-nodata": true, "forge-nxdomain": true, "forge-nodata": true, "drop-denial": true,
	"flip-authority": true, "drop-sigs": true, "foreign-denial": true, "downgrade": true}

var vkCDKinds = map[string]bool{"flip-answer": true, "flip-sig": true, "drop-sigs": true, "downgrade": true, "forge-unsigned": true,
	"inject-answer-oz": true, "attacker-resign": true, "signer-ancestor-inject": true}

// vkQueryCases: baseline, no-anchor run, and every (position, kind) single tamper for one query.
func (w *vkWorld) vkQueryCases(rot int, q vkQuery, kinds []vkKind) {
	c := w.c
	base := vkScenario{Rot: rot, Q: q}
	r0 := w.vkRun(base, true)
	if r0.verdict.Viol != "" {
		w.vkReport(base, r0)
		return
	}
	c.Outcome("baseline:" + r0.outcomes[0])
	// determinism of the path itself
	for try := 0; ; try++ {
		r0b := w.vkRun(base, false)
		if vkPathStr(r0.firstPath) == vkPathStr(r0b.firstPath) && r0.outcomes[0] == r0b.outcomes[0] {
			break
		}
		c.Add("baseline_reruns", 1)
		c.Note(fmt.Sprintf("untampered resolution of %s differed between two cold runs: %s %v [%s] vs %s %v [%s]", q, r0.outcomes[0], r0.elapsed, vkPathStr(r0.firstPath), r0b.outcomes[0], r0b.elapsed, vkPathStr(r0b.firstPath)))
		if try == 3 {
			c.HarnessError(fmt.Sprintf("untampered resolution path of %s is not repeatable", q))
			return
		}
		r0 = w.vkRun(base, true)
	}
	c.Max("max_path_len", int64(len(r0.firstPath)))
	c.Add("queries", 1)
	// trust anchors removed
	na := vkScenario{Rot: rot, Q: q, NoAnchors: true}
	rn := w.vkRun(na, true)
	if rn.verdict.Viol != "" {
		w.vkReport(na, rn)
	} else {
		c.Outcome("no-anchors:" + rn.outcomes[0])
	}
	// ... and a trust set that is there but unusable
	ua := vkScenario{Rot: rot, Q: q, NoAnchors: true, BadAnchors: true}
	ru := w.vkRun(ua, true)
	if ru.verdict.Viol != "" {
		w.vkReport(ua, ru)
	} else {
		c.Outcome("unusable-anchors:" + ru.outcomes[0])
	}
	if !q.F.CD {
		w.vkKeyPairs(rot, q, r0.firstPath)
		w.vkRunFamily("downgrade-by-attacker-nods-proof", w.vkNoDSFamily(rot, q, r0.firstPath), 3, q)
	}
	if q.F.CD && c.Quick() {
		// toward a CD client the property only withholds AD: the quick tier runs a representative subset
		// of the kinds for the four CD=1 flag sets (the thorough tier runs them all)
		var sub []vkKind
		for _, k := range kinds {
			if vkCDKinds[k.Name] {
				sub = append(sub, k)
			}
		}
		kinds = sub
	}
	sampled := false
	for pos, ex := range r0.firstPath {
		honest := w.u.ServerAnswer(ex.Server, dns.Question{Name: ex.QName, Qtype: ex.QType, Qclass: dns.ClassINET}, ex.DO)
		ctx := &vkTamperCtx{u: w.u, server: ex.Server, q: dns.Question{Name: ex.QName, Qtype: ex.QType, Qclass: dns.ClassINET}, zone: w.u.HostedZone(ex.Server, ex.QName, ex.QType)}
		for _, k := range kinds {
			if !k.Fn(ctx, honest.Copy()) {
				c.Add("inapplicable", 1)
				continue
			}
			s := vkScenario{Rot: rot, Q: q, Tampers: []vkTamper{{Key: ex.Key(), Kind: k.Name}}}
			r := w.vkRun(s, true)
			c.Add("scenarios", 1)
			if r.verdict.Viol != "" {
				w.vkReport(s, r)
				if c.NumViolations() > 30 {
					return
				}
				continue
			}
			if r.fired[0] {
				c.DistinctStr("nontrivial", fmt.Sprintf("%d|%s|%d|%s", rot, q, pos, k.Name))
				c.Add("fired:"+k.Name, 1)
			} else {
				c.Add("tamper_not_reached", 1)
				c.Note(fmt.Sprintf("tamper not reached: %s elapsed=%v outcomes=%v path=[%s]", s, r.elapsed, r.outcomes, vkPathStr(r.firstPath)))
			}
			out := r.outcomes[0]
			if strings.HasPrefix(out, "truth") && r.upstream > r0.upstream {
				out = "truth-after-retry"
			}
			c.Outcome(k.Name + "->" + out)
			for _, o := range r.outcomes[1:] {
				c.Outcome("history->" + o)
			}
			if !sampled && pos == len(r0.firstPath)-2 && k.Name == "flip-sig" {
				sampled = true
				c.Sample(map[string]any{"scenario": s.String(), "path": vkPathStr(r0.firstPath), "outcomes": r.outcomes})
			}
		}
	}
}

// vkKeyPairs: the classic two-step forgery — the attacker's own key slipped into a zone's DNSKEY
// response (position i) and another response of the SAME zone altered and re-signed with that key
// (position j) — for every such (i, j) on the path.
func (w *vkWorld) vkKeyPairs(rot int, q vkQuery, path []authsim.Query) {
	c := w.c
	type cand struct {
		pos  int
		key  authsim.Key
		zone string
	}
	var keys, selfKeys, resigns, cloneKeys, cloneResigns []cand
	for pos, ex := range path {
		z := w.u.HostedZone(ex.Server, ex.QName, ex.QType)
		if z == nil {
			continue
		}
		honest := w.u.ServerAnswer(ex.Server, dns.Question{Name: ex.QName, Qtype: ex.QType, Qclass: dns.ClassINET}, ex.DO)
		ctx := &vkTamperCtx{u: w.u, server: ex.Server, q: dns.Question{Name: ex.QName, Qtype: ex.QType, Qclass: dns.ClassINET}, zone: z}
		if vkKindByName("attacker-key").Fn(ctx, honest.Copy()) {
			keys = append(keys, cand{pos, ex.Key(), z.Apex})
		}
		if vkKindByName("attacker-key-selfsigned").Fn(ctx, honest.Copy()) {
			selfKeys = append(selfKeys, cand{pos, ex.Key(), z.Apex})
		}
		if vkKindByName("attacker-resign").Fn(ctx, honest.Copy()) {
			resigns = append(resigns, cand{pos, ex.Key(), z.Apex})
		}
		if vkKindByName("attacker-ksk-clone-selfsigned").Fn(ctx, honest.Copy()) {
			cloneKeys = append(cloneKeys, cand{pos, ex.Key(), z.Apex})
		}
		if vkKindByName("attacker-resign-kskclone").Fn(ctx, honest.Copy()) {
			cloneResigns = append(cloneResigns, cand{pos, ex.Key(), z.Apex})
		}
	}
	var scen []vkScenario
	for _, k := range keys {
		for _, r := range resigns {
			if k.zone == r.zone {
				scen = append(scen, vkScenario{Rot: rot, Q: q, Tampers: []vkTamper{{Key: k.key, Kind: "attacker-key"}, {Key: r.key, Kind: "attacker-resign"}}})
			}
		}
	}
	for _, k := range selfKeys {
		for _, r := range resigns {
			if k.zone == r.zone {
				scen = append(scen, vkScenario{Rot: rot, Q: q, Tampers: []vkTamper{{Key: k.key, Kind: "attacker-key-selfsigned"}, {Key: r.key, Kind: "attacker-resign"}}})
			}
		}
	}
	for _, k := range cloneKeys {
		for _, r := range cloneResigns {
			if k.zone == r.zone {
				scen = append(scen, vkScenario{Rot: rot, Q: q, Tampers: []vkTamper{{Key: k.key, Kind: "attacker-ksk-clone-selfsigned"}, {Key: r.key, Kind: "attacker-resign-kskclone"}}})
			}
		}
	}
	// the classic downgrade: a referral stripped of everything DNSSEC (position i), then unsigned
	// forged data from any later exchange (position j > i)
	for i, ex := range path {
		honest := w.u.ServerAnswer(ex.Server, dns.Question{Name: ex.QName, Qtype: ex.QType, Qclass: dns.ClassINET}, ex.DO)
		if len(honest.Answer) > 0 || hasSOA(honest.Ns) || honest.Rcode != dns.RcodeSuccess {
			continue
		}
		for j := i + 1; j < len(path); j++ {
			ej := path[j]
			hj := w.u.ServerAnswer(ej.Server, dns.Question{Name: ej.QName, Qtype: ej.QType, Qclass: dns.ClassINET}, ej.DO)
			cj := &vkTamperCtx{u: w.u, server: ej.Server, q: dns.Question{Name: ej.QName, Qtype: ej.QType, Qclass: dns.ClassINET}, zone: w.u.HostedZone(ej.Server, ej.QName, ej.QType)}
			for _, kind := range []string{"forge-unsigned", "forge-positive"} {
				if vkKindByName(kind).Fn(cj, hj.Copy()) {
					scen = append(scen, vkScenario{Rot: rot, Q: q, Tampers: []vkTamper{{Key: ex.Key(), Kind: "downgrade"}, {Key: ej.Key(), Kind: kind}}})
				}
			}
		}
	}
	for _, s := range scen {
		{
			res := w.vkRun(s, true)
			c.Add("scenarios", 1)
			c.Add("keypair_scenarios", 1)
			if res.verdict.Viol != "" {
				w.vkReport(s, res)
				if c.NumViolations() > 30 {
					return
				}
				continue
			}
			if res.fired[0] && res.fired[1] {
				c.DistinctStr("nontrivial", fmt.Sprintf("%d|%s|pair|%s", rot, q, s))
			}
			c.Outcome(s.Tampers[0].Kind + "+" + s.Tampers[1].Kind + "->" + res.outcomes[0])
		}
	}
}

// vkPairs (thorough): every unordered pair of single tampers on distinct
// positions for the secure-answer queries.
func vkPairs(c *vkit.Ctx) {
	w, err := vkGetWorld(c, 0)
	if err != nil {
		c.HarnessError(err.Error())
		return
	}
	var kinds []vkKind
	for _, k := range vkKinds {
		if k.Tier == 0 {
			kinds = append(kinds, k)
		}
	}
	f := h_resolver.Flags{DO: true}
	var qs []vkQuery
	for _, nm := range vkNames {
		for _, qt := range []uint16{dns.TypeA, dns.TypeDS} {
			qs = append(qs, vkQuery{Name: nm.Name, Type: qt, F: f})
		}
	}
	type single struct {
		pos int
		tm  vkTamper
	}
	item := 0
	for _, q := range qs {
		r0 := w.vkRun(vkScenario{Q: q}, false)
		var singles []single
		for pos, ex := range r0.firstPath {
			honest := w.u.ServerAnswer(ex.Server, dns.Question{Name: ex.QName, Qtype: ex.QType, Qclass: dns.ClassINET}, ex.DO)
			ctx := &vkTamperCtx{u: w.u, server: ex.Server, q: dns.Question{Name: ex.QName, Qtype: ex.QType, Qclass: dns.ClassINET}, zone: w.u.HostedZone(ex.Server, ex.QName, ex.QType)}
			for _, k := range kinds {
				if k.Fn(ctx, honest.Copy()) {
					singles = append(singles, single{pos, vkTamper{Key: ex.Key(), Kind: k.Name}})
				}
			}
		}
		sort.SliceStable(singles, func(i, j int) bool { return singles[i].pos < singles[j].pos })
		for i := range singles {
			for j := i + 1; j < len(singles); j++ {
				if singles[i].pos == singles[j].pos {
					continue
				}
				item++
				if !c.Mine(item) {
					continue
				}
				if c.OverBudget() {
					c.Cap("time budget reached inside the tamper-pair enumeration")
					return
				}
				s := vkScenario{Q: q, Tampers: []vkTamper{singles[i].tm, singles[j].tm}}
				r := w.vkRun(s, false)
				c.Add("scenarios", 1)
				c.Add("pair_scenarios", 1)
				if r.verdict.Viol != "" {
					w.vkReport(s, r)
					if c.NumViolations() > 30 {
						return
					}
					continue
				}
				if r.fired[0] && r.fired[1] {
					c.DistinctStr("nontrivial", fmt.Sprintf("pair|%s|%d|%s|%d|%s", q, singles[i].pos, singles[i].tm.Kind, singles[j].pos, singles[j].tm.Kind))
				}
				c.Outcome("pair->" + r.outcomes[0])
			}
		}
	}
}
