//go:build verif

package h_c01

// Tamper kinds: each rewrites ONE honest upstream response the way an on-path
// attacker (who owns no zone key of the path) could. A kind returns false when
// it does not apply to the response (nothing to change).

import (
	"encoding/base64"
	"fmt"
	"strings"
	"sync"
	"time"

	"github.com/miekg/dns"
	"github.com/semihalev/sdns/internal/verifshim/zonemodel"
)

type vkTamperCtx struct {
	u      *zonemodel.Universe
	server string
	q      dns.Question    // the upstream question
	zone   *zonemodel.Zone // zone that produced the honest response
}

type vkKind struct {
	Name string
	Tier int // 0 quick+thorough, 1 thorough only
	Fn   func(c *vkTamperCtx, m *dns.Msg) bool
}

func isSigLike(t uint16) bool { return t == dns.TypeRRSIG || t == dns.TypeOPT }

// sibling returns another signed child of z's parent ("" if none).
func (c *vkTamperCtx) sibling() *zonemodel.Zone {
	z := c.zone
	if z == nil || z.Parent == nil {
		return nil
	}
	for _, s := range z.Parent.Children {
		if s != z && s.Mode.Signed() && !s.NoDS {
			return s
		}
	}
	return nil
}

func flipRR(rr dns.RR) dns.RR {
	c := dns.Copy(rr)
	switch x := c.(type) {
	case *dns.A:
		x.A = append([]byte{}, x.A.To4()...)
		x.A[3] ^= 0x40
	case *dns.AAAA:
		x.AAAA = append([]byte{}, x.AAAA...)
		x.AAAA[15] ^= 0x40
	case *dns.TXT:
		x.Txt = append([]string{"forged-" + x.Txt[0]}, x.Txt[1:]...)
	case *dns.CNAME:
		x.Target = "forged." + x.Target
	case *dns.DNAME:
		x.Target = "forged." + x.Target
	case *dns.NS:
		x.Ns = "forged." + x.Ns
	case *dns.DS:
		b := []byte(x.Digest)
		if b[len(b)-1] == '0' {
			b[len(b)-1] = '1'
		} else {
			b[len(b)-1] = '0'
		}
		x.Digest = string(b)
	case *dns.DNSKEY:
		raw, _ := base64.StdEncoding.DecodeString(x.PublicKey)
		raw[len(raw)/2] ^= 0x10
		x.PublicKey = base64.StdEncoding.EncodeToString(raw)
	case *dns.SOA:
		x.Serial += 7
	case *dns.NSEC:
		x.NextDomain = "0forged." + x.NextDomain
	case *dns.NSEC3:
		b := []byte(x.NextDomain)
		if b[len(b)-1] == '0' {
			b[len(b)-1] = '2'
		} else {
			b[len(b)-1] = '0'
		}
		x.NextDomain = string(b)
	default:
		return nil
	}
	return c
}

func flipIn(sec []dns.RR, last bool) bool {
	idx := -1
	for i, rr := range sec {
		if isSigLike(rr.Header().Rrtype) {
			continue
		}
		if idx == -1 || last {
			idx = i
		}
		if !last {
			break
		}
	}
	if idx < 0 {
		return false
	}
	f := flipRR(sec[idx])
	if f == nil {
		return false
	}
	sec[idx] = f
	return true
}

func eachSig(m *dns.Msg, f func(s *dns.RRSIG)) bool {
	n := 0
	for _, sec := range [][]dns.RR{m.Answer, m.Ns} {
		for _, rr := range sec {
			if s, ok := rr.(*dns.RRSIG); ok {
				f(s)
				n++
			}
		}
	}
	return n > 0
}

func dropTypes(rrs []dns.RR, drop func(rr dns.RR) bool) ([]dns.RR, bool) {
	out := rrs[:0:0]
	ch := false
	for _, rr := range rrs {
		if drop(rr) {
			ch = true
			continue
		}
		out = append(out, rr)
	}
	return out, ch
}

func isDenial(t uint16) bool { return t == dns.TypeNSEC || t == dns.TypeNSEC3 }

func sigCovers(rr dns.RR, f func(t uint16) bool) bool {
	s, ok := rr.(*dns.RRSIG)
	return ok && f(s.TypeCovered)
}

func signerOf(m *dns.Msg) string {
	s := ""
	eachSig(m, func(g *dns.RRSIG) {
		if s == "" {
			s = g.SignerName
		}
	})
	return s
}

func garbageSig(s *dns.RRSIG) {
	raw, _ := base64.StdEncoding.DecodeString(s.Signature)
	for i := range raw {
		raw[i] = byte(0xA5 ^ i)
	}
	s.Signature = base64.StdEncoding.EncodeToString(raw)
}

var vkKinds = []vkKind{
	{"flip-answer", 0, func(c *vkTamperCtx, m *dns.Msg) bool { return flipIn(m.Answer, false) }},
	{"flip-answer-last", 0, func(c *vkTamperCtx, m *dns.Msg) bool {
		first, last := -1, -1
		for i, rr := range m.Answer {
			if !isSigLike(rr.Header().Rrtype) {
				if first < 0 {
					first = i
				}
				last = i
			}
		}
		if first < 0 || m.Answer[first].Header().Rrtype == m.Answer[last].Header().Rrtype && strings.EqualFold(m.Answer[first].Header().Name, m.Answer[last].Header().Name) {
			return false // same RRset as flip-answer
		}
		return flipIn(m.Answer, true)
	}},
	{"flip-authority", 0, func(c *vkTamperCtx, m *dns.Msg) bool { return flipIn(m.Ns, false) }},
	{"flip-authority-last", 1, func(c *vkTamperCtx, m *dns.Msg) bool { return flipIn(m.Ns, true) }},
	{"flip-sig", 0, func(c *vkTamperCtx, m *dns.Msg) bool {
		done := false
		eachSig(m, func(s *dns.RRSIG) {
			if done {
				return
			}
			raw, _ := base64.StdEncoding.DecodeString(s.Signature)
			raw[len(raw)/2] ^= 0x01
			s.Signature = base64.StdEncoding.EncodeToString(raw)
			done = true
		})
		return done
	}},
	{"flip-sig-all", 1, func(c *vkTamperCtx, m *dns.Msg) bool {
		return eachSig(m, func(s *dns.RRSIG) {
			raw, _ := base64.StdEncoding.DecodeString(s.Signature)
			raw[len(raw)-1] ^= 0x80
			s.Signature = base64.StdEncoding.EncodeToString(raw)
		})
	}},
	{"signer-sibling", 0, func(c *vkTamperCtx, m *dns.Msg) bool {
		sib := "zz-sibling."
		if s := c.sibling(); s != nil {
			sib = s.Apex
		} else if c.zone != nil && c.zone.Parent != nil && c.zone.Parent.Apex != "." {
			sib = "zz-sibling." + c.zone.Parent.Apex
		}
		return eachSig(m, func(s *dns.RRSIG) { s.SignerName = sib })
	}},
	{"signer-descendant", 0, func(c *vkTamperCtx, m *dns.Msg) bool {
		return eachSig(m, func(s *dns.RRSIG) {
			if s.SignerName == "." {
				s.SignerName = "sub."
			} else {
				s.SignerName = "sub." + s.SignerName
			}
		})
	}},
	{"signer-qname", 0, func(c *vkTamperCtx, m *dns.Msg) bool {
		q := zonemodel.Canon(c.q.Name)
		if strings.EqualFold(signerOf(m), q) {
			return false
		}
		return eachSig(m, func(s *dns.RRSIG) { s.SignerName = q })
	}},
	{"signer-ancestor", 0, func(c *vkTamperCtx, m *dns.Msg) bool {
		if c.zone == nil || c.zone.Parent == nil {
			return false
		}
		anc := c.zone.Parent.Apex
		return eachSig(m, func(s *dns.RRSIG) { s.SignerName = anc; garbageSig(s) })
	}},
	{"signer-ancestor-inject", 0, func(c *vkTamperCtx, m *dns.Msg) bool {
		// a garbage RRSIG naming an ancestor AHEAD of every genuine one
		if c.zone == nil || c.zone.Parent == nil {
			return false
		}
		anc := c.zone.Parent
		ch := false
		inject := func(sec []dns.RR) []dns.RR {
			var out []dns.RR
			for _, rr := range sec {
				if s, ok := rr.(*dns.RRSIG); ok {
					g := dns.Copy(s).(*dns.RRSIG)
					g.SignerName = anc.Apex
					if anc.ZSK != nil {
						g.KeyTag = anc.ZSK.Tag
						g.Algorithm = anc.ZSK.DNSKEY.Algorithm
					}
					garbageSig(g)
					out = append(out, g)
					ch = true
				}
				out = append(out, rr)
			}
			return out
		}
		m.Answer, m.Ns = inject(m.Answer), inject(m.Ns)
		return ch
	}},
	{"labels+1", 0, func(c *vkTamperCtx, m *dns.Msg) bool { return eachSig(m, func(s *dns.RRSIG) { s.Labels++ }) }},
	{"labels-1", 0, func(c *vkTamperCtx, m *dns.Msg) bool {
		ch := false
		eachSig(m, func(s *dns.RRSIG) {
			if s.Labels > 0 {
				s.Labels--
				ch = true
			}
		})
		return ch
	}},
	{"sig-expired", 0, func(c *vkTamperCtx, m *dns.Msg) bool {
		now := time.Now()
		return eachSig(m, func(s *dns.RRSIG) {
			s.Inception, s.Expiration = uint32(now.Add(-240*time.Hour).Unix()), uint32(now.Add(-1*time.Hour).Unix())
		})
	}},
	{"sig-notyet", 0, func(c *vkTamperCtx, m *dns.Msg) bool {
		now := time.Now()
		return eachSig(m, func(s *dns.RRSIG) {
			s.Inception, s.Expiration = uint32(now.Add(24*time.Hour).Unix()), uint32(now.Add(240*time.Hour).Unix())
		})
	}},
	{"drop-sigs", 0, func(c *vkTamperCtx, m *dns.Msg) bool {
		var a, b bool
		m.Answer, a = dropTypes(m.Answer, func(rr dns.RR) bool { return rr.Header().Rrtype == dns.TypeRRSIG })
		m.Ns, b = dropTypes(m.Ns, func(rr dns.RR) bool { return rr.Header().Rrtype == dns.TypeRRSIG })
		return a || b
	}},
	{"drop-ds", 0, func(c *vkTamperCtx, m *dns.Msg) bool {
		if len(m.Answer) > 0 {
			return false
		}
		var ch bool
		m.Ns, ch = dropTypes(m.Ns, func(rr dns.RR) bool {
			return rr.Header().Rrtype == dns.TypeDS || sigCovers(rr, func(t uint16) bool { return t == dns.TypeDS })
		})
		return ch
	}},
	{"swap-ds", 0, func(c *vkTamperCtx, m *dns.Msg) bool {
		// the referral's DS replaced by the genuine DS of another signed child of the same parent
		if c.zone == nil {
			return false
		}
		ch := false
		for _, sec := range [][]dns.RR{m.Answer, m.Ns} {
			for i, rr := range sec {
				ds, ok := rr.(*dns.DS)
				if !ok {
					continue
				}
				for _, sib := range c.zone.Children {
					if strings.EqualFold(sib.Apex, ds.Hdr.Name) || !sib.Mode.Signed() || sib.NoDS {
						continue
					}
					if o := c.zone.RRset(sib.Apex, dns.TypeDS); len(o) > 0 {
						n := dns.Copy(o[0]).(*dns.DS)
						n.Hdr.Name = ds.Hdr.Name
						sec[i] = n
						ch = true
					}
					break
				}
			}
		}
		return ch
	}},
	{"drop-denial", 0, func(c *vkTamperCtx, m *dns.Msg) bool {
		var ch bool
		m.Ns, ch = dropTypes(m.Ns, func(rr dns.RR) bool { return isDenial(rr.Header().Rrtype) || sigCovers(rr, isDenial) })
		return ch
	}},
	{"foreign-denial", 0, func(c *vkTamperCtx, m *dns.Msg) bool {
		// genuine, correctly signed NSEC/NSEC3 of a FOREIGN zone in place of the zone's own
		has := false
		for _, rr := range m.Ns {
			if isDenial(rr.Header().Rrtype) {
				has = true
			}
		}
		if !has || c.zone == nil {
			return false
		}
		var foreign *zonemodel.Zone
		for _, z := range c.u.Zones() {
			if z != c.zone && z.Mode == c.zone.Mode && z.Apex != "." {
				foreign = z
			}
		}
		if foreign == nil {
			for _, z := range c.u.Zones() {
				if z != c.zone && z.Mode.Signed() && z.Apex != "." {
					foreign = z
				}
			}
		}
		if foreign == nil {
			return false
		}
		nx := c.u.Answer(foreign.Apex, "zz-nope."+foreign.Apex, dns.TypeA, true)
		var repl []dns.RR
		for _, rr := range nx.Ns {
			if isDenial(rr.Header().Rrtype) || sigCovers(rr, isDenial) {
				repl = append(repl, rr)
			}
		}
		m.Ns, _ = dropTypes(m.Ns, func(rr dns.RR) bool { return isDenial(rr.Header().Rrtype) || sigCovers(rr, isDenial) })
		m.Ns = append(m.Ns, repl...)
		return len(repl) > 0
	}},
	{"inject-answer-oz", 0, func(c *vkTamperCtx, m *dns.Msg) bool {
		if len(m.Answer) == 0 {
			return false
		}
		owner := "victim.zz-other."
		if s := c.sibling(); s != nil {
			owner = "a." + s.Apex
		}
		rr, _ := dns.NewRR(owner + " 300 IN A 6.6.6.6")
		m.Answer = append(m.Answer, rr)
		return true
	}},
	{"inject-authority-oz", 0, func(c *vkTamperCtx, m *dns.Msg) bool {
		victim := "zz-other."
		if s := c.sibling(); s != nil {
			victim = s.Apex
		}
		ns, _ := dns.NewRR(victim + " 300 IN NS ns.evil." + victim)
		gl, _ := dns.NewRR("ns.evil." + victim + " 300 IN A 203.0.113.66")
		m.Ns = append(m.Ns, ns)
		m.Extra = append(m.Extra, gl)
		return true
	}},
	{"inject-authority-oz-neg", 0, func(c *vkTamperCtx, m *dns.Msg) bool {
		// a (validly signed) negative answer padded with unsigned records of OTHER zones in its authority
		// section: a foreign SOA, a foreign NSEC and a foreign TXT
		if len(m.Answer) != 0 || len(m.Ns) == 0 {
			return false
		}
		victim := "zz-other."
		if s := c.sibling(); s != nil {
			victim = s.Apex
		}
		for _, l := range []string{
			victim + " 300 IN SOA ns.evil." + victim + " h.evil." + victim + " 1 2 3 4 5",
			"a." + victim + " 300 IN NSEC z." + victim + " A RRSIG NSEC",
			"inj." + victim + " 300 IN TXT \"injected\"",
		} {
			rr, err := dns.NewRR(l)
			if err != nil {
				panic(err)
			}
			m.Ns = append(m.Ns, rr)
		}
		return true
	}},
	{"inject-authority-ns-neg", 0, func(c *vkTamperCtx, m *dns.Msg) bool {
		// a (validly signed) negative answer padded with an UNSIGNED NS RRset owned INSIDE the zone (its apex): the
		// validator leaves authority-section NS records out (referral remnants) and the zone filter keeps in-zone owners
		if len(m.Answer) != 0 || !hasSOA(m.Ns) || c.zone == nil {
			return false
		}
		rr, err := dns.NewRR(c.zone.Apex + " 300 IN NS ns.attacker.zz-other.")
		if err != nil {
			panic(err)
		}
		m.Ns = append(m.Ns, rr)
		return true
	}},
	{"clone-first", 0, func(c *vkTamperCtx, m *dns.Msg) bool {
		// a same-key-tag clone of the zone signing key ahead of the genuine keys
		if c.q.Qtype != dns.TypeDNSKEY || c.zone == nil || c.zone.ZSK == nil {
			return false
		}
		var keys, rest []dns.RR
		var clone dns.RR
		for _, rr := range m.Answer {
			k, ok := rr.(*dns.DNSKEY)
			switch {
			case !ok:
				rest = append(rest, rr)
			case c.zone.CloneRR != nil && k.PublicKey == c.zone.CloneRR.PublicKey:
				clone = rr
			default:
				keys = append(keys, rr)
			}
		}
		if len(keys) == 0 {
			return false
		}
		if clone == nil {
			clone = dns.Copy(zonemodel.CloneKey(c.u.Seed, c.zone.ZSK))
		}
		m.Answer = append(append([]dns.RR{clone}, keys...), rest...)
		return true
	}},
	{"wildcard-replay", 0, func(c *vkTamperCtx, m *dns.Msg) bool {
		// the zone's genuine wildcard RRset + RRSIG replayed over the (existing) qname
		if c.zone == nil || len(m.Answer) == 0 || m.Answer[0].Header().Rrtype == dns.TypeRRSIG {
			return false
		}
		q := zonemodel.Canon(c.q.Name)
		for _, o := range c.zone.Owners() {
			if !strings.HasPrefix(o, "*.") || !dns.IsSubDomain(o[2:], q) || q == o[2:] || q == o {
				continue
			}
			set := c.zone.SignedRRset(o, c.q.Qtype)
			if len(set) == 0 {
				continue
			}
			for _, rr := range set {
				rr.Header().Name = c.q.Name
			}
			if zonemodel.SetKey(stripSigs(set)) == zonemodel.SetKey(stripSigs(m.Answer)) {
				return false // the honest answer IS this expansion
			}
			m.Answer = set
			return true
		}
		return false
	}},
	{"downgrade", 0, func(c *vkTamperCtx, m *dns.Msg) bool {
		// everything DNSSEC removed: the response of an "unsigned" zone
		sec := func(rr dns.RR) bool {
			t := rr.Header().Rrtype
			return t == dns.TypeRRSIG || t == dns.TypeDS || isDenial(t)
		}
		var a, b bool
		if c.q.Qtype == dns.TypeDS {
			m.Answer, a = dropTypes(m.Answer, func(rr dns.RR) bool { return rr.Header().Rrtype == dns.TypeRRSIG })
		} else {
			m.Answer, a = dropTypes(m.Answer, sec)
		}
		m.Ns, b = dropTypes(m.Ns, sec)
		return a || b
	}},
	{"forge-unsigned", 0, func(c *vkTamperCtx, m *dns.Msg) bool {
		// altered data with every signature and denial removed
		if !flipIn(m.Answer, false) && !flipIn(m.Ns, false) {
			return false
		}
		m.Answer, _ = dropTypes(m.Answer, func(rr dns.RR) bool { return rr.Header().Rrtype == dns.TypeRRSIG })
		m.Ns, _ = dropTypes(m.Ns, func(rr dns.RR) bool { t := rr.Header().Rrtype; return t == dns.TypeRRSIG || isDenial(t) })
		return true
	}},
	{"forge-nxdomain", 0, func(c *vkTamperCtx, m *dns.Msg) bool {
		// a positive answer replaced by NXDOMAIN carrying the zone's genuine SOA and a genuine but non-covering denial
		if c.zone == nil || len(m.Answer) == 0 {
			return false
		}
		nx := c.u.Answer(c.zone.Apex, c.zone.Apex, dns.TypeNULL, true) // apex NODATA: SOA + apex NSEC/NSEC3
		m.Answer, m.Ns, m.Rcode = nil, nx.Ns, dns.RcodeNameError
		return true
	}},
	{"forge-nodata", 0, func(c *vkTamperCtx, m *dns.Msg) bool {
		if c.zone == nil || len(m.Answer) == 0 {
			return false
		}
		nx := c.u.Answer(c.zone.Apex, c.zone.Apex, dns.TypeNULL, true)
		m.Answer, m.Ns, m.Rcode = nil, nx.Ns, dns.RcodeSuccess
		return true
	}},
	{"wildcard-nsec-rename", 0, func(c *vkTamperCtx, m *dns.Msg) bool {
		// a positive answer replaced by a NODATA "proved" with the zone's genuine WILDCARD NSEC (and its
		// genuine RRSIG, Labels = the wildcard's closest encloser) renamed to the query name: a validator
		// that rebuilds the wildcard owner from the RRSIG's label count verifies the signature although
		// the record was never generated for this owner
		if c.zone == nil || !c.zone.Mode.Signed() || len(m.Answer) == 0 || m.Rcode != dns.RcodeSuccess {
			return false
		}
		q := zonemodel.Canon(c.q.Name)
		labels := dns.SplitDomainName(q)
		for i := 1; i < len(labels); i++ {
			wild := "*." + strings.Join(labels[i:], ".") + "."
			nd := c.u.Answer(c.zone.Apex, wild, dns.TypeNULL, true) // NODATA at the wildcard itself: SOA + the wildcard's own NSEC
			if nd.Rcode != dns.RcodeSuccess || len(nd.Answer) != 0 {
				continue
			}
			var out []dns.RR
			found := false
			for _, rr := range nd.Ns {
				cp := dns.Copy(rr)
				owner := strings.EqualFold(cp.Header().Name, wild)
				if n, ok := cp.(*dns.NSEC); ok && owner {
					for _, t := range n.TypeBitMap {
						if t == c.q.Qtype {
							return false // the wildcard owns the type too: nothing to deny with it
						}
					}
					cp.Header().Name = c.q.Name
					found = true
				} else if s, ok := cp.(*dns.RRSIG); ok && owner && s.TypeCovered == dns.TypeNSEC {
					cp.Header().Name = c.q.Name
				}
				out = append(out, cp)
			}
			if !found {
				continue
			}
			m.Answer, m.Ns = nil, out
			return true
		}
		return false
	}},
	{"replay-nodata-own", 0, func(c *vkTamperCtx, m *dns.Msg) bool {
		// a positive answer replaced by the zone's own, correctly signed NODATA for ANOTHER type at the
		// SAME owner: SOA + the owner's NSEC/NSEC3, whose bitmap lists the type that was asked
		if c.zone == nil || len(m.Answer) == 0 || m.Rcode != dns.RcodeSuccess || !strings.EqualFold(m.Answer[0].Header().Name, c.q.Name) || m.Answer[0].Header().Rrtype != c.q.Qtype {
			return false
		}
		nd := c.u.Answer(c.zone.Apex, c.q.Name, dns.TypeNULL, true)
		if nd.Rcode != dns.RcodeSuccess || len(nd.Answer) != 0 || len(nd.Ns) == 0 {
			return false
		}
		m.Answer, m.Ns = nil, nd.Ns
		return true
	}},
	{"forge-positive", 0, func(c *vkTamperCtx, m *dns.Msg) bool {
		// a negative answer replaced by unsigned data
		if len(m.Answer) > 0 || (m.Rcode != dns.RcodeNameError && !hasSOA(m.Ns)) {
			return false
		}
		var rr dns.RR
		switch c.q.Qtype {
		case dns.TypeA:
			rr, _ = dns.NewRR(c.q.Name + " 300 IN A 6.6.6.6")
		case dns.TypeAAAA:
			rr, _ = dns.NewRR(c.q.Name + " 300 IN AAAA 2001:db8:666::6")
		case dns.TypeTXT:
			rr, _ = dns.NewRR(c.q.Name + ` 300 IN TXT "forged"`)
		case dns.TypeCNAME:
			rr, _ = dns.NewRR(c.q.Name + " 300 IN CNAME a.u.t.")
		default:
			return false
		}
		m.Answer, m.Ns, m.Rcode = []dns.RR{rr}, nil, dns.RcodeSuccess
		return true
	}},
}

// attackerKey is a zone-signing key the attacker generated for zone z (never published by z).
func attackerKey(c *vkTamperCtx) *zonemodel.Key {
	return zonemodel.GenKey("attacker", c.zone.Apex, "zsk", zonemodel.AlgED25519, 256)
}

var vkKSKClones sync.Map // zone apex + tag -> *zonemodel.Key | false

// attackerKSKClone is a key the ATTACKER generated that shares owner, flags, algorithm and key tag
// with the zone's DS-matched KSK (about 2^16 key generations; ECDSA and Ed25519 zones only).
func attackerKSKClone(c *vkTamperCtx) *zonemodel.Key {
	ksk := c.zone.KSK
	if ksk == nil {
		return nil
	}
	alg := ksk.DNSKEY.Algorithm
	if alg != zonemodel.AlgED25519 && alg != zonemodel.AlgECDSAP256 {
		return nil
	}
	id := fmt.Sprintf("%s|%d|%d", c.zone.Apex, alg, ksk.Tag)
	if v, ok := vkKSKClones.Load(id); ok {
		k, _ := v.(*zonemodel.Key)
		return k
	}
	for i := 0; i < 1<<20; i++ {
		k := zonemodel.GenKey(fmt.Sprintf("kskclone-%s-%d", id, i), c.zone.Apex, "ksk", alg, ksk.DNSKEY.Flags)
		if k.Tag == ksk.Tag && k.DNSKEY.PublicKey != ksk.DNSKEY.PublicKey {
			vkKSKClones.Store(id, k)
			return k
		}
	}
	vkKSKClones.Store(id, false)
	return nil
}

func init() {
	vkKinds = append(vkKinds,
		vkKind{"attacker-ksk-clone-selfsigned", 0, func(c *vkTamperCtx, m *dns.Msg) bool {
			// as attacker-key-selfsigned, but the attacker's key COLLIDES with the DS-matched KSK in owner,
			// flags, algorithm and key tag: the DS still authenticates only the genuine key's material
			if c.q.Qtype != dns.TypeDNSKEY || c.zone == nil || !c.zone.Mode.Signed() || !strings.EqualFold(zonemodel.Canon(c.q.Name), c.zone.Apex) {
				return false
			}
			var set []dns.RR
			for _, rr := range m.Answer {
				if rr.Header().Rrtype == dns.TypeDNSKEY {
					set = append(set, rr)
				}
			}
			k := attackerKSKClone(c)
			if len(set) == 0 || k == nil {
				return false
			}
			ak := dns.Copy(k.DNSKEY)
			ak.Header().Ttl = set[0].Header().Ttl
			set = append(set, ak)
			m.Answer = append(set, zonemodel.SignWith(k, c.zone.Apex, set, time.Now()))
			return true
		}},
		vkKind{"attacker-key", 0, func(c *vkTamperCtx, m *dns.Msg) bool {
			// DNSKEY response: the attacker's own key added to the RRset, signatures removed
			if c.q.Qtype != dns.TypeDNSKEY || c.zone == nil || !c.zone.Mode.Signed() || !strings.EqualFold(zonemodel.Canon(c.q.Name), c.zone.Apex) {
				return false
			}
			has := false
			for _, rr := range m.Answer {
				if rr.Header().Rrtype == dns.TypeDNSKEY {
					has = true
				}
			}
			if !has {
				return false
			}
			m.Answer, _ = dropTypes(m.Answer, func(rr dns.RR) bool { return rr.Header().Rrtype == dns.TypeRRSIG })
			m.Answer = append(m.Answer, dns.Copy(attackerKey(c).DNSKEY))
			return true
		}},
		vkKind{"attacker-key-selfsigned", 0, func(c *vkTamperCtx, m *dns.Msg) bool {
			// DNSKEY response: the attacker's own key added to the RRset and the RRset signed ONLY with
			// that key. The genuine KSK still matches the parent's DS, but no DS-authenticated key vouches
			// for the set (RFC 4035 5.2: the DNSKEY RRset must be signed by a key the DS authenticates).
			if c.q.Qtype != dns.TypeDNSKEY || c.zone == nil || !c.zone.Mode.Signed() || !strings.EqualFold(zonemodel.Canon(c.q.Name), c.zone.Apex) {
				return false
			}
			var set []dns.RR
			for _, rr := range m.Answer {
				if rr.Header().Rrtype == dns.TypeDNSKEY {
					set = append(set, rr)
				}
			}
			if len(set) == 0 {
				return false
			}
			k := attackerKey(c)
			ak := dns.Copy(k.DNSKEY)
			ak.Header().Ttl = set[0].Header().Ttl
			set = append(set, ak)
			m.Answer = append(set, zonemodel.SignWith(k, c.zone.Apex, set, time.Now()))
			return true
		}},
		vkKind{"attacker-resign", 0, func(c *vkTamperCtx, m *dns.Msg) bool {
			if c.zone == nil {
				return false
			}
			return vkResignWith(c, m, attackerKey(c))
		}},
		vkKind{"attacker-resign-kskclone", 0, func(c *vkTamperCtx, m *dns.Msg) bool {
			if c.zone == nil {
				return false
			}
			return vkResignWith(c, m, attackerKSKClone(c))
		}},
	)
}

// vkResignWith: altered data, every in-zone RRset re-signed with key k under the zone's name.
func vkResignWith(c *vkTamperCtx, m *dns.Msg, k *zonemodel.Key) bool {
	if k == nil {
		return false
	}
	// altered data, every in-zone RRset re-signed with the attacker's key under the zone's name
	if c.zone == nil || !c.zone.Mode.Signed() || c.q.Qtype == dns.TypeDNSKEY {
		return false
	}
	altered := flipIn(m.Answer, false)
	if !altered {
		for i, rr := range m.Ns {
			if t := rr.Header().Rrtype; t == dns.TypeNS || isSigLike(t) {
				continue
			}
			if f := flipRR(rr); f != nil {
				m.Ns[i] = f
				altered = true
			}
			break
		}
	}
	if !altered {
		return false
	}
	resign := func(sec []dns.RR, authority bool) []dns.RR {
		var out []dns.RR
		var order []string
		groups := map[string][]dns.RR{}
		for _, rr := range sec {
			h := rr.Header()
			if h.Rrtype == dns.TypeRRSIG {
				continue
			}
			out = append(out, rr)
			if (authority && h.Rrtype == dns.TypeNS && !m.Authoritative) || !dns.IsSubDomain(c.zone.Apex, h.Name) {
				continue
			}
			id := strings.ToLower(h.Name) + "|" + dns.TypeToString[h.Rrtype]
			if groups[id] == nil {
				order = append(order, id)
			}
			groups[id] = append(groups[id], rr)
		}
		for _, id := range order {
			out = append(out, zonemodel.SignWith(k, c.zone.Apex, groups[id], time.Now()))
		}
		return out
	}
	m.Answer, m.Ns = resign(m.Answer, false), resign(m.Ns, true)
	return true
}

// replayOld: the first answer RRset replaced by altered data that the ZONE ITSELF signed, with a
// validity window that lies entirely in the past (future=false) or in the future (future=true).
func replayOld(c *vkTamperCtx, m *dns.Msg, future bool) bool {
	if c.zone == nil || !c.zone.Mode.Signed() || len(m.Answer) == 0 || c.q.Qtype == dns.TypeDNSKEY {
		return false
	}
	first := m.Answer[0]
	if isSigLike(first.Header().Rrtype) || !dns.IsSubDomain(c.zone.Apex, first.Header().Name) {
		return false
	}
	var set, rest []dns.RR
	for _, rr := range m.Answer {
		h := rr.Header()
		same := strings.EqualFold(h.Name, first.Header().Name)
		switch {
		case same && h.Rrtype == first.Header().Rrtype:
			set = append(set, rr)
		case same && sigCovers(rr, func(t uint16) bool { return t == first.Header().Rrtype }):
		default:
			rest = append(rest, rr)
		}
	}
	f := flipRR(set[0])
	if f == nil {
		return false
	}
	set[0] = f
	now := time.Now()
	inc, exp := now.Add(-30*24*time.Hour), now.Add(-2*time.Hour)
	if future {
		inc, exp = now.Add(2*time.Hour), now.Add(30*24*time.Hour)
	}
	// wildcard expansions keep the wildcard's label count: sign under the stored owner
	sig := c.zone.SignWindow(set, inc, exp)
	m.Answer = append(append(set, sig), rest...)
	return true
}

func init() {
	vkKinds = append(vkKinds,
		vkKind{"forge-signer-qname", 0, func(c *vkTamperCtx, m *dns.Msg) bool {
			// altered data whose RRSIGs claim the query name itself as signer: a name that is no zone
			// cut has no DS, and "no DS for the signer" must not be read as "insecure"
			q := zonemodel.Canon(c.q.Name)
			if c.zone == nil || !c.zone.Mode.Signed() || q == c.zone.Apex || c.q.Qtype == dns.TypeDNSKEY {
				return false
			}
			if !flipIn(m.Answer, false) {
				return false
			}
			return eachSig(m, func(s *dns.RRSIG) { s.SignerName = q })
		}},
		vkKind{"replay-expired", 0, func(c *vkTamperCtx, m *dns.Msg) bool { return replayOld(c, m, false) }},
		vkKind{"replay-future", 0, func(c *vkTamperCtx, m *dns.Msg) bool { return replayOld(c, m, true) }},
		vkKind{"forge-partial-unsigned", 0, func(c *vkTamperCtx, m *dns.Msg) bool {
			// one RRset of a multi-RRset response altered and left without its RRSIG; the other RRsets stay signed
			nsig := 0
			eachSig(m, func(*dns.RRSIG) { nsig++ })
			if nsig < 2 {
				return false
			}
			sec := &m.Answer
			idx := -1
			for i, rr := range m.Answer {
				if !isSigLike(rr.Header().Rrtype) {
					idx = i
				}
			}
			if idx < 0 {
				sec = &m.Ns
				for i, rr := range m.Ns {
					if t := rr.Header().Rrtype; !isSigLike(t) && t != dns.TypeNS {
						idx = i
					}
				}
			}
			if idx < 0 {
				return false
			}
			victim := (*sec)[idx]
			f := flipRR(victim)
			if f == nil {
				return false
			}
			(*sec)[idx] = f
			vh := victim.Header()
			*sec, _ = dropTypes(*sec, func(rr dns.RR) bool {
				return strings.EqualFold(rr.Header().Name, vh.Name) && sigCovers(rr, func(t uint16) bool { return t == vh.Rrtype })
			})
			return true
		}},
	)
}

func hasSOA(rrs []dns.RR) bool {
	for _, rr := range rrs {
		if rr.Header().Rrtype == dns.TypeSOA {
			return true
		}
	}
	return false
}

func stripSigs(rrs []dns.RR) []dns.RR {
	var out []dns.RR
	for _, rr := range rrs {
		if !isSigLike(rr.Header().Rrtype) {
			out = append(out, rr)
		}
	}
	return out
}

func vkKindByName(n string) *vkKind {
	for i := range vkKinds {
		if vkKinds[i].Name == n {
			return &vkKinds[i]
		}
	}
	return nil
}
