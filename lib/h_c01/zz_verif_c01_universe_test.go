//go:build verif

// Package h_c01 is the harness of check C01 (DNSSEC: validating clients get
// only authenticated data; AD implies authentic): the real default sdns chain
// resolving against a scripted signed hierarchy (zonemodel + authsim).
package h_c01

import (
	"github.com/miekg/dns"
	"github.com/semihalev/sdns/internal/verifshim/zonemodel"
)

// vkUniverse builds the fixed universe U. rot rotates the algorithm
// assignment (thorough tier: every algorithm at every level).
//
//	.            NSEC   signed root (trust anchor)
//	t.           NSEC   TLD
//	s.t.         NSEC   wildcard, in-zone and cross-zone CNAMEs, ENT
//	h.t.         NSEC3  (salt, 2 iterations), wildcard, same-key-tag clone key
//	o.t.         NSEC3 opt-out, unsigned child uc.o.t.
//	u.t.         unsigned, no DS (proven insecure delegation)
//	p.t.+c.p.t.  one server; p signed (CSK), c unsigned (no DS)
//	d.t.         NSEC, DNAME alias.d.t. -> s.t., DNAME ins.d.t. -> u.t.
//	rs.t.        unsigned, no DS, hosted by the ROOT server (the
//	             root-servers.net shape: the root answers it without a referral)
func vkUniverse(rot int) *zonemodel.Universe {
	alg := func(i int) uint8 { return zonemodel.Algorithms[(i+rot)%len(zonemodel.Algorithms)] }
	u := zonemodel.NewUniverse("c01")
	u.AddZone(zonemodel.ZoneSpec{Apex: ".", Mode: zonemodel.NSEC, Alg: alg(0)})
	u.AddZone(zonemodel.ZoneSpec{Apex: "t.", Mode: zonemodel.NSEC, Alg: alg(1)})
	s := u.AddZone(zonemodel.ZoneSpec{Apex: "s.t.", Mode: zonemodel.NSEC, Alg: alg(2)})
	h := u.AddZone(zonemodel.ZoneSpec{Apex: "h.t.", Mode: zonemodel.NSEC3, Alg: alg(0), Salt: "ab", Iter: 2, Clone: true})
	o := u.AddZone(zonemodel.ZoneSpec{Apex: "o.t.", Mode: zonemodel.NSEC3OptOut, Alg: alg(1)})
	uc := u.AddZone(zonemodel.ZoneSpec{Apex: "uc.o.t.", Mode: zonemodel.Unsigned})
	ut := u.AddZone(zonemodel.ZoneSpec{Apex: "u.t.", Mode: zonemodel.Unsigned})
	p := u.AddZone(zonemodel.ZoneSpec{Apex: "p.t.", Mode: zonemodel.NSEC, Alg: alg(2), CSK: true, Server: "p.t."})
	c := u.AddZone(zonemodel.ZoneSpec{Apex: "c.p.t.", Mode: zonemodel.Unsigned, Server: "p.t."})
	d := u.AddZone(zonemodel.ZoneSpec{Apex: "d.t.", Mode: zonemodel.NSEC, Alg: alg(0)})
	rs := u.AddZone(zonemodel.ZoneSpec{Apex: "rs.t.", Mode: zonemodel.Unsigned, Server: "."})

	s.Add(
		"a A 10.1.0.1", "a A 10.1.0.2", "a AAAA 2001:db8:1::1", `a TXT "a-in-s"`, `a CAA 0 issue "ca.t"`,
		"b A 10.1.0.3",
		"www CNAME a.s.t.",
		"ext CNAME a.h.t.",
		"toins CNAME a.u.t.",
		"*.w A 10.1.7.7", `*.w TXT "wild-s"`,
		"exact.w A 10.1.7.8", "exact.w AAAA 2001:db8:1::78",
		"x.ent A 10.1.9.1",
		"wc CNAME x.w.s.t.",
	)
	h.Add(
		"a A 10.2.0.1", "a AAAA 2001:db8:2::1", `a TXT "a-in-h"`, `a CAA 0 issue "ca.t"`,
		"*.w A 10.2.7.7",
		"www CNAME a.h.t.",
	)
	o.Add(
		"a A 10.3.0.1", `a TXT "a-in-o"`,
		"*.w A 10.3.7.7",
	)
	uc.Add("a A 10.4.0.1", `a TXT "a-in-uc"`)
	ut.Add("a A 10.5.0.1", "a AAAA 2001:db8:5::1", `a TXT "a-in-u"`, "www CNAME a.u.t.")
	p.Add("a A 10.6.0.1", `a TXT "a-in-p"`)
	c.Add("a A 10.7.0.1", `a TXT "a-in-c"`)
	d.Add("alias DNAME s.t.", "ins DNAME u.t.", "a A 10.8.0.1")
	rs.Add("a A 10.9.0.1", `a TXT "a-in-rs"`)
	return u.Build()
}

type vkName struct {
	Name string
	Tier int // 0 = quick and thorough, 1 = thorough only
}

// vkNames are the query names.
var vkNames = []vkName{
	{"a.s.t.", 0},       // secure, NSEC, multi-RR RRset
	{"nx.s.t.", 0},      // secure NXDOMAIN (NSEC)
	{"a.b.nx.s.t.", 0},  // a name two labels below a denied name: with minimisation on the NXDOMAIN comes back for a MINIMISED question (RFC 8020 shortcut)
	{"www.s.t.", 0},     // in-zone CNAME
	{"x.w.s.t.", 0},     // wildcard expansion (NSEC)
	{"exact.w.s.t.", 0}, // existing name next to a wildcard
	{"t.", 0},           // TLD apex: DS answered by the root itself
	{"nxtld.", 0},       // name denied by the root itself
	{"ext.s.t.", 0},     // CNAME secure -> secure (other zone, NSEC3)
	{"toins.s.t.", 0},   // CNAME secure -> insecure
	{"a.h.t.", 0},       // secure, NSEC3, clone key in DNSKEY RRset
	{"nx.h.t.", 0},      // secure NXDOMAIN (NSEC3)
	{"y.w.h.t.", 0},     // wildcard expansion (NSEC3)
	{"a.o.t.", 0},       // signed data in an opt-out zone
	{"nx.o.t.", 0},      // NXDOMAIN under an opt-out span (never AD)
	{"a.uc.o.t.", 0},    // unsigned child under opt-out
	{"a.u.t.", 0},       // insecure zone (proven no DS)
	{"a.p.t.", 0},       // signed parent on the shared server
	{"a.c.p.t.", 0},     // unsigned child answered by the shared server without a referral
	{"a.alias.d.t.", 0}, // DNAME into s.t.
	{"a.ins.d.t.", 0},   // DNAME from a secure zone into the insecure u.t.
	{"y.w.o.t.", 0},     // wildcard expansion in an opt-out zone (never AD)
	{"s.t.", 0},         // apex: DS at the parent, DNSKEY at the child
	{"a.rs.t.", 0},      // unsigned grandchild answered by the root server without a referral
	{"ent.s.t.", 1},     // empty non-terminal
	{"wc.s.t.", 1},      // CNAME onto a wildcard-expanded name
	{"www.h.t.", 1},     // in-zone CNAME (NSEC3)
	{"nx.u.t.", 1},      // insecure NXDOMAIN
	{"nx.alias.d.t.", 1},
	{"h.t.", 1},
	{"u.t.", 0},         // apex of the INSECURE child: its DS question is answered, and denied, by the signed parent t.
	{".", 1},
}

// (CAA = 257: a type code above 63, outside every small-bitmask shortcut)
var vkTypes = []uint16{dns.TypeA, dns.TypeAAAA, dns.TypeTXT, dns.TypeDS, dns.TypeDNSKEY, dns.TypeCNAME, dns.TypeCAA}
