// Package sched is a cooperative controlled scheduler plus an iterative
// preemption-bounded depth-first explorer (CHESS style) that runs REAL code:
// the code under test is compiled against the vsync/vatomic shims, whose every
// operation calls Point/Block here. Exactly one managed goroutine holds the
// baton at any time; an execution is a pure function of its choice sequence.
package sched

import (
	"fmt"
	"os"
	"strings"
)

// Thread is one managed goroutine.
type Thread struct {
	ID      int
	Name    string
	wake    chan struct{}
	done    bool
	started bool
	pred    func() bool // non-nil while blocked
	fn      func()
	Steps   int
}

// PointRec records one scheduling decision.
type PointRec struct {
	Enabled        []int // canonical order: running first (if enabled), then ascending ids
	RunningEnabled bool
	Chosen         int // index into Enabled
	Kind           string
}

// Run is one controlled execution.
type Run struct {
	threads   []*Thread
	running   *Thread
	prefix    []int
	Points    []PointRec
	Choices   []int
	steps     int
	Horizon   int
	aborted   bool
	Deadlock  bool
	Livelock  bool
	Diverged  string
	Panic     string
	fin       chan struct{}
	Trace     []string // optional per-step trace (thread:kind)
	KeepTrace bool
	// Monitor, if set, is called at every scheduling point (before the switch)
	// by the running thread; a non-empty return aborts the run as a violation.
	Monitor    func() string
	MonitorMsg string
	// user data for harness
	Data any
}

var active *Run

// Current returns the thread holding the baton.
func (r *Run) Current() *Thread { return r.running }

// Steps returns the number of scheduling points executed so far (a logical clock).
func (r *Run) StepCount() int { return r.steps }

// Active returns the run in progress (nil = pass-through mode).
func Active() *Run { return active }

// IOHook, when set by a harness, observes every IOPoint: once when the thread
// arrives (resumed=false: everything the I/O call will read is prepared) and
// once when it holds the baton again and is about to perform the call
// (resumed=true). It runs on the thread holding the baton.
var IOHook func(r *Run, t *Thread, kind string, resumed bool)

// IOPoint is the scheduling point that an overlay patch (vk unit key "patch")
// places immediately BEFORE a real I/O call of the code under test (never
// inside it: a thread must not yield while it holds a runtime-level fd lock).
// With no controlled run active it does nothing.
func IOPoint(kind string) {
	r := active
	if r == nil || r.aborted {
		return
	}
	t := r.running
	if IOHook != nil {
		IOHook(r, t, kind, false)
	}
	r.Point("io:" + kind)
	if IOHook != nil {
		IOHook(r, t, kind, true)
	}
}

type abortSentinel struct{}

// Go registers a managed thread. Must be called before Start (from the setup function).
func (r *Run) Go(name string, fn func()) *Thread {
	t := &Thread{ID: len(r.threads), Name: name, wake: make(chan struct{}, 1), fn: fn}
	r.threads = append(r.threads, t)
	return t
}

func (r *Run) enabledFrom(cur *Thread) ([]*Thread, bool) {
	var en []*Thread
	runEn := false
	if cur != nil && !cur.done && (cur.pred == nil || cur.pred()) {
		en = append(en, cur)
		runEn = true
	}
	for _, t := range r.threads {
		if t == cur || t.done {
			continue
		}
		if t.pred == nil || t.pred() {
			en = append(en, t)
		}
	}
	return en, runEn
}

// pick consults the schedule. Returns nil when nothing is enabled.
func (r *Run) pick(cur *Thread, kind string) *Thread {
	en, runEn := r.enabledFrom(cur)
	if len(en) == 0 {
		return nil
	}
	idx := 0
	i := len(r.Choices)
	if i < len(r.prefix) {
		idx = r.prefix[i]
		if idx < 0 || idx >= len(en) {
			r.Diverged = fmt.Sprintf("choice %d at point %d out of range (enabled %d)", idx, i, len(en))
			idx = 0
		}
	}
	ids := make([]int, len(en))
	for k, t := range en {
		ids[k] = t.ID
	}
	r.Points = append(r.Points, PointRec{Enabled: ids, RunningEnabled: runEn, Chosen: idx, Kind: kind})
	r.Choices = append(r.Choices, idx)
	return en[idx]
}

func (r *Run) switchTo(cur, next *Thread) {
	if next == cur {
		return
	}
	r.running = next
	next.pred = nil
	next.wake <- struct{}{}
	if cur != nil && !cur.done {
		<-cur.wake
		if r.aborted {
			panic(abortSentinel{})
		}
	}
}

func (r *Run) abort() {
	r.aborted = true
}

// Point is a scheduling point: called by the running thread BEFORE a visible operation.
func (r *Run) Point(kind string) {
	if r.aborted {
		return
	}
	t := r.running
	r.steps++
	t.Steps++
	if r.KeepTrace {
		r.Trace = append(r.Trace, fmt.Sprintf("%s:%s", t.Name, kind))
	}
	if r.Monitor != nil && r.MonitorMsg == "" {
		if m := r.Monitor(); m != "" {
			r.MonitorMsg = m
		}
	}
	if r.steps > r.Horizon {
		r.Livelock = true
		r.abort()
		panic(abortSentinel{})
	}
	next := r.pick(t, kind)
	r.switchTo(t, next)
}

// Block parks the running thread until pred() holds. pred is evaluated by
// whichever thread holds the baton, so it must only read shim model state.
func (r *Run) Block(kind string, pred func() bool) {
	if r.aborted {
		return
	}
	for !pred() {
		t := r.running
		t.pred = pred
		next := r.pick(t, "blocked:"+kind)
		if next == nil {
			r.Deadlock = true
			r.abort()
			panic(abortSentinel{})
		}
		if next == t { // became enabled (pred true) — cannot happen since pred false, but be safe
			t.pred = nil
			return
		}
		r.switchTo(t, next)
		t.pred = nil
	}
}

func (r *Run) threadMain(t *Thread) {
	<-t.wake
	defer func() {
		if x := recover(); x != nil {
			if _, ok := x.(abortSentinel); !ok {
				// real panic in code under test: record and abort the run
				r.Panic = fmt.Sprintf("%v", x)
				r.abort()
			}
		}
		t.done = true
		if r.aborted {
			// unwind the others one by one
			for _, o := range r.threads {
				if !o.done && o.started {
					r.running = o
					o.wake <- struct{}{}
					return
				}
			}
			close(r.fin)
			return
		}
		next := r.pick(nil, "exit")
		if next == nil {
			for _, o := range r.threads {
				if !o.done {
					r.Deadlock = true
					r.abort()
					if o.started {
						r.running = o
						o.wake <- struct{}{}
						return
					}
				}
			}
			close(r.fin)
			return
		}
		r.running = next
		next.pred = nil
		next.wake <- struct{}{}
	}()
	if r.aborted {
		return
	}
	t.fn()
}

// Panic holds a non-scheduler panic message from code under test.
func (r *Run) PanicMsg() string { return r.Panic }

// execute runs all registered threads to completion under the schedule prefix.
func (r *Run) execute() {
	r.fin = make(chan struct{})
	if len(r.threads) == 0 {
		return
	}
	active = r
	for _, t := range r.threads {
		t.started = true
		go r.threadMain(t)
	}
	first := r.pick(nil, "start")
	r.running = first
	first.wake <- struct{}{}
	<-r.fin
	active = nil
}

// ---------------------------------------------------------------- exploration

// Config bounds one exploration.
type Config struct {
	Name       string
	Bound      int // preemption bound (iterated 0..Bound by caller if desired)
	Horizon    int // max scheduling points per execution
	MaxExec    int // internal cap on executions (0 = none); hitting it => Exhaustive=false
	Shard, Of  int // process sharding: this process explores shard Shard of Of (Of<=1: everything)
	ShardDepth int // tree depth at which subtrees are distributed (default 2)
	KeepTrace  bool
	Stop       func() bool // polled between executions; true => stop, Exhaustive=false
}

// Result summarises one exploration.
type Result struct {
	Executions int
	Points     int // total scheduling decisions executed
	MaxPoints  int
	Exhaustive bool
	Violations []Violation
	Outcomes   map[string]int
	HarnessErr string
}

// Violation is one failing execution with its replayable schedule.
type Violation struct {
	Scenario string   `json:"scenario"`
	Choices  []int    `json:"choices"`
	Message  string   `json:"message"`
	Trace    []string `json:"trace,omitempty"`
}

// Scenario builds a fresh world for one execution: it must construct new real
// objects, register threads with r.Go, and return a check run after completion
// (returning "" when the property held) plus an outcome label used to count
// distinct observable outcomes.
type Scenario func(r *Run) (check func() (violation string, outcome string))

// RunOnce executes a single schedule.
func RunOnce(cfg Config, sc Scenario, prefix []int) (*Run, string, string) {
	r := &Run{prefix: prefix, Horizon: cfg.Horizon, KeepTrace: cfg.KeepTrace}
	if r.Horizon == 0 {
		r.Horizon = 10000
	}
	check := sc(r)
	r.execute()
	if r.Diverged != "" {
		return r, "", ""
	}
	if r.Panic != "" {
		return r, "panic in code under test: " + r.Panic, "panic"
	}
	if r.Deadlock {
		return r, "deadlock: no enabled thread while some thread is not finished", "deadlock"
	}
	if r.Livelock {
		return r, fmt.Sprintf("livelock: more than %d scheduling points", r.Horizon), "livelock"
	}
	if r.MonitorMsg != "" {
		return r, "monitor: " + r.MonitorMsg, "monitor"
	}
	v, o := check()
	return r, v, o
}

type node struct {
	prefix []int
	depth  int
}

// Explore enumerates every schedule whose preemption count is <= cfg.Bound.
func Explore(cfg Config, sc Scenario) Result {
	res := Result{Exhaustive: true, Outcomes: map[string]int{}}
	if cfg.ShardDepth == 0 {
		cfg.ShardDepth = 2
	}
	stack := []node{{prefix: nil, depth: 0}}
	subtree := 0
	for len(stack) > 0 {
		n := stack[len(stack)-1]
		stack = stack[:len(stack)-1]
		owned := true // does this shard report this node?
		if cfg.Of > 1 {
			if n.depth < cfg.ShardDepth {
				owned = cfg.Shard == 0
			} else if n.depth == cfg.ShardDepth {
				mine := subtree%cfg.Of == cfg.Shard
				subtree++
				if !mine {
					continue
				}
			}
		}
		if (cfg.MaxExec > 0 && res.Executions >= cfg.MaxExec) || (cfg.Stop != nil && res.Executions%64 == 63 && cfg.Stop()) {
			res.Exhaustive = false
			break
		}
		r, viol, outcome := RunOnce(cfg, sc, n.prefix)
		if r.Diverged != "" {
			res.HarnessErr = fmt.Sprintf("%s: schedule diverged on replay of prefix %v: %s", cfg.Name, n.prefix, r.Diverged)
			res.Exhaustive = false
			return res
		}
		if owned {
			res.Executions++
			res.Points += len(r.Points)
			if len(r.Points) > res.MaxPoints {
				res.MaxPoints = len(r.Points)
			}
			res.Outcomes[outcome]++
			if viol != "" {
				if len(res.Violations) < 5 {
					// re-run with trace for the artefact and determinism check
					c2 := cfg
					c2.KeepTrace = true
					r2, v2, _ := RunOnce(c2, sc, r.Choices)
					if v2 == "" || r2.Diverged != "" {
						res.HarnessErr = fmt.Sprintf("%s: violation did not reproduce from its own schedule %v (%q vs %q)", cfg.Name, r.Choices, viol, v2)
						return res
					}
					res.Violations = append(res.Violations, Violation{Scenario: cfg.Name, Choices: append([]int{}, r.Choices...), Message: viol, Trace: r2.Trace})
				}
			}
		}
		// children: deviations after the prefix
		pre := 0
		for i := 0; i < len(r.Points); i++ {
			p := r.Points[i]
			if i >= len(n.prefix) {
				cost := pre
				if p.RunningEnabled {
					cost++
				}
				if cost <= cfg.Bound {
					for alt := len(p.Enabled) - 1; alt >= 1; alt-- {
						np := make([]int, i+1)
						copy(np, r.Choices[:i])
						np[i] = alt
						stack = append(stack, node{prefix: np, depth: n.depth + 1})
					}
				}
			}
			if p.RunningEnabled && p.Chosen != 0 {
				pre++
			}
		}
	}
	return res
}

// Debugf prints when VERIF_DEBUG is set.
func Debugf(format string, a ...any) {
	if os.Getenv("VERIF_DEBUG") != "" {
		fmt.Fprintf(os.Stderr, format+"\n", a...)
	}
}

// FormatSchedule renders a choice list compactly.
func FormatSchedule(c []int) string {
	var b strings.Builder
	for i, x := range c {
		if i > 0 {
			b.WriteByte(',')
		}
		fmt.Fprintf(&b, "%d", x)
	}
	return b.String()
}
