//go:build verif

// Package h_c13 is the harness of unit C13/zone: the part of "cached failures
// suppress only what failed" that lives in the resolver. A zone failure may
// become shared state only for a zone EVERY ONE of whose servers failed to
// give a usable response; failures local to one request (work budget, client
// cancellation, deadline, optional enrichment) never become shared state; a
// useful answer resets the back-off.
//
// The real default chain resolves against authsim zones with 1..4 name
// servers; every assignment of per-server behaviours {healthy, healthy but
// slow, SERVFAIL, REFUSED, drop, garbage} is enumerated, the cache handler's
// RFC 9520 failure store is read after each client query and follow-up
// queries (another name of the zone, a sibling zone) probe it behaviourally.
package h_c13

import (
	"encoding/json"
	"fmt"
	"os"
	"sort"
	"strings"
	"testing"
	"time"

	"github.com/miekg/dns"
	"github.com/semihalev/sdns/internal/verifshim/authsim"
	"github.com/semihalev/sdns/internal/verifshim/h_rpipe"
	"github.com/semihalev/sdns/internal/verifshim/vkit"
	"github.com/semihalev/sdns/internal/verifshim/zonemodel"
	"github.com/semihalev/sdns/middleware/cache"
)

const (
	vkTimeout      = 300 * time.Millisecond // per upstream exchange: above the "slow" delay
	vkQueryTimeout = 3 * time.Second
	vkSlow         = 150 * time.Millisecond
	vkMaxN         = 4
)

var vkKinds = []string{"healthy", "slow", "servfail", "refused", "drop", "garbage"}

func vkUsable(kind string) bool { return kind == "healthy" || kind == "slow" }

// vkCase is one replayable case.
type vkCase struct {
	Mode  string   `json:"mode"` // plain | budget | cancel | deadline | recovery | enrich | unreachable
	Beh   []string `json:"beh"`  // behaviour per server, in delegation order (the zone has len(Beh) servers)
	QMin  int      `json:"qmin,omitempty"`
	Param int      `json:"param,omitempty"` // budget: MaxOutboundQueries (>0) or -MaxInternalQueries (<0); cancel: ms
}

func (cs vkCase) String() string {
	s := fmt.Sprintf("%s[%s]", cs.Mode, strings.Join(cs.Beh, ","))
	if cs.QMin != 0 {
		s += fmt.Sprintf("/qmin%d", cs.QMin)
	}
	if cs.Param != 0 {
		s += fmt.Sprintf("/%d", cs.Param)
	}
	return s
}

type vkWorld struct {
	u        *zonemodel.Universe
	sim      *authsim.Sim
	c        *vkit.Ctx
	replicas []string
	pipes    map[string]*h_rpipe.Pipeline
}

func vkZone(n int) string { return fmt.Sprintf("z%d.t.", n) }

// servers of z<n>.t. in delegation order: replicas first, the zone's own server last.
func (w *vkWorld) servers(n int) []string {
	return append(append([]string{}, w.replicas[:n-1]...), vkZone(n))
}

func vkNewWorld(c *vkit.Ctx) (*vkWorld, error) {
	u := zonemodel.NewUniverse("c13zone")
	w := &vkWorld{u: u, c: c, pipes: map[string]*h_rpipe.Pipeline{}}
	next := 0
	addr := func() string { next++; return fmt.Sprintf("192.0.2.%d", 9+next) }
	u.AddZone(zonemodel.ZoneSpec{Apex: ".", Mode: zonemodel.NSEC, Alg: zonemodel.AlgECDSAP256, NSAddr: addr()})
	t := u.AddZone(zonemodel.ZoneSpec{Apex: "t.", Mode: zonemodel.NSEC, Alg: zonemodel.AlgED25519, NSAddr: addr()})
	var raddr []string
	for i := 0; i < vkMaxN-1; i++ {
		apex := fmt.Sprintf("p%d.pool.", i)
		a := addr()
		u.AddZone(zonemodel.ZoneSpec{Apex: apex, Mode: zonemodel.Unsigned, NSAddr: a})
		w.replicas = append(w.replicas, apex)
		raddr = append(raddr, a)
	}
	for n := 1; n <= vkMaxN; n++ {
		z := u.AddZone(zonemodel.ZoneSpec{Apex: vkZone(n), Mode: zonemodel.Unsigned, NSAddr: addr()})
		z.Add("a A 10.13.0.1", "b A 10.13.0.2", "c A 10.13.0.3")
		for i := 0; i < n-1; i++ {
			t.Add(fmt.Sprintf("z%d NS r%d.z%d.t.", n, i, n), fmt.Sprintf("r%d.z%d A %s", i, n, raddr[i]))
		}
	}
	sib := u.AddZone(zonemodel.ZoneSpec{Apex: "sib.t.", Mode: zonemodel.Unsigned, NSAddr: addr()})
	sib.Add("a A 10.13.1.1")
	// a delegation none of whose name servers has an address anywhere: no server can be reached
	gl := u.AddZone(zonemodel.ZoneSpec{Apex: "gl.t.", Mode: zonemodel.Unsigned, NSAddr: addr(), NSHost: "ns.nowhere.t."})
	gl.Add("a A 10.13.2.1")
	u.Build()
	sim, err := authsim.Start(u)
	if err != nil {
		return nil, err
	}
	w.sim = sim
	sim.SetHonest(func(server string, q dns.Question, do bool) *dns.Msg {
		for _, r := range w.replicas {
			if r == server {
				for n := 2; n <= vkMaxN; n++ {
					if dns.IsSubDomain(vkZone(n), zonemodel.Canon(q.Name)) {
						return u.ServerAnswer(vkZone(n), q, do)
					}
				}
			}
		}
		return u.ServerAnswer(server, q, do)
	})
	h_rpipe.PinServerOrder(func(n int) int { return 0 })
	return w, nil
}

func (w *vkWorld) pipe(cfg h_rpipe.Config) *h_rpipe.Pipeline {
	if cfg.Timeout == 0 {
		cfg.Timeout = vkTimeout
	}
	if cfg.QueryTimeout == 0 {
		cfg.QueryTimeout = vkQueryTimeout
	}
	k := cfg.String() + cfg.QueryTimeout.String()
	if p := w.pipes[k]; p != nil {
		return p
	}
	p, err := h_rpipe.New(w.sim, cfg, nil)
	if err != nil {
		panic("h_c13: pipeline build failed: " + err.Error())
	}
	w.pipes[k] = p
	return p
}

var vkTypes = []uint16{dns.TypeA, dns.TypeAAAA, dns.TypeNS, dns.TypeDS, dns.TypeDNSKEY, dns.TypeSOA, dns.TypeCNAME, dns.TypeTXT}

func vkTransformer(kind string) authsim.Transformer {
	switch kind {
	case "slow":
		return authsim.Delay(vkSlow)
	case "servfail":
		return authsim.Rcode(dns.RcodeServerFailure)
	case "refused":
		return authsim.Rcode(dns.RcodeRefused)
	case "drop":
		return authsim.Drop()
	case "garbage":
		return authsim.Garbage()
	}
	return nil
}

// install scripts the servers of z<n>.t. (every question they can be asked in this unit).
func (w *vkWorld) install(beh []string, onlyTypes []uint16) {
	n := len(beh)
	zone := vkZone(n)
	names := []string{zone, "a." + zone, "b." + zone, "c." + zone, "ns." + zone}
	for i := 0; i < n-1; i++ {
		names = append(names, fmt.Sprintf("r%d.%s", i, zone))
	}
	types := vkTypes
	if onlyTypes != nil {
		types = onlyTypes
	}
	for i, srv := range w.servers(n) {
		tr := vkTransformer(beh[i])
		if tr == nil {
			continue
		}
		for _, nm := range names {
			for _, t := range types {
				w.sim.Script(authsim.Key{Server: srv, QName: nm, QType: t, Occ: -1}, tr)
			}
		}
	}
}

type vkAsk struct {
	Returned bool
	Writes   int
	Rcode    int
	EDE      []uint16
	Answers  int
	Elapsed  time.Duration
	Packets  int
	Latched  string
	Settled  bool
	// DeadlineMode: asked on the pipeline whose query timeout is a few tens of ms: a SERVFAIL without any
	// upstream packet is then the ask's own deadline, not a cached failure (only EDE 13 identifies one).
	DeadlineMode bool
}

func (a vkAsk) outcome() string {
	if !a.Returned {
		return "NO-RETURN"
	}
	if a.Writes != 1 {
		return fmt.Sprintf("writes=%d", a.Writes)
	}
	s := dns.RcodeToString[a.Rcode]
	if len(a.EDE) > 0 {
		s += fmt.Sprintf("+ede%v", a.EDE)
	}
	return s
}

// fromCache: a SERVFAIL served from shared failure state (EDE 13, or no upstream traffic at all without a local cause).
func (a vkAsk) fromCache() bool {
	if !a.Returned || a.Writes != 1 || a.Rcode != dns.RcodeServerFailure {
		return false
	}
	for _, e := range a.EDE {
		if e == dns.ExtendedErrorCodeCachedError {
			return true
		}
	}
	// no EDE at all, no upstream packet, no local cause: nothing but shared state can have produced it
	return a.Packets == 0 && a.Latched == "" && !a.DeadlineMode && len(a.EDE) == 0
}

func (w *vkWorld) ask(pl *h_rpipe.Pipeline, qname string, o h_rpipe.AskOpt) vkAsk {
	before := w.sim.Count("")
	if o.WallCap == 0 {
		o.WallCap = 10 * vkQueryTimeout // also for the pipelines with a query timeout of a few tens of ms
	}
	r := pl.Ask(pl.Query(qname, dns.TypeA, true, true), "tcp", o)
	w.c.Add("evaluations", 1)
	a := vkAsk{Returned: r.Returned, Writes: r.Writes, Elapsed: r.Elapsed, DeadlineMode: pl.Cfg.QueryTimeout < time.Second}
	if r.Latched != nil {
		a.Latched = r.Latched.Error()
	}
	if r.Msg != nil {
		a.Rcode = r.Msg.Rcode
		a.Answers = len(r.Msg.Answer)
		if opt := r.Msg.IsEdns0(); opt != nil {
			for _, o := range opt.Option {
				if e, ok := o.(*dns.EDNS0_EDE); ok {
					a.EDE = append(a.EDE, e.InfoCode)
				}
			}
		}
	}
	if !r.Returned {
		return a
	}
	max := 6 * time.Second
	if pl.Cfg.IPv6 {
		max = 40 * time.Second
	}
	a.Settled, _ = pl.Settle(max, r.Ledger)
	a.Packets = w.sim.Count("") - before
	return a
}

type vkResult struct {
	Case      vkCase
	First     vkAsk
	F1        []cache.VerifFailure // failure store after the client query
	Follow    *vkAsk               // another name of the same zone, asked right afterwards
	F2        []cache.VerifFailure
	Sibling   *vkAsk // a name of a sibling zone
	Viol      []vkViol
	Disturbed bool
	Unscript  []string
	Notes     []string
	Path      string
}

type vkViol struct {
	Class string
	Msg   string
}

func vkFailStr(f []cache.VerifFailure) string {
	var s []string
	for _, x := range f {
		s = append(s, fmt.Sprintf("%s(streak %d, active %v)", x, x.Streak, x.Active))
	}
	return "[" + strings.Join(s, " ") + "]"
}

func vkPath(log []authsim.Query) string {
	var s []string
	for _, q := range log {
		sc := ""
		if q.Scripted {
			sc = "*"
		}
		s = append(s, fmt.Sprintf("%s<-%s/%s/%s%s", q.Server, strings.ToLower(q.QName), dns.TypeToString[q.QType], q.Transport, sc))
	}
	r := strings.Join(s, " ")
	if len(r) > 1200 {
		r = r[:1200] + "..."
	}
	return r
}

// judgeStore: which failure entries may exist. zone = the zone under test, allFailed = none of its
// servers gives a usable response, local = the client query ended for a request-local reason
// (budget, cancellation, deadline) so that nothing at all may have been recorded for it.
func vkJudgeStore(res *vkResult, when string, f []cache.VerifFailure, zone, qname string, allFailed, local bool) {
	bad := func(class, format string, a ...any) {
		res.Viol = append(res.Viol, vkViol{Class: class, Msg: fmt.Sprintf(format, a...)})
	}
	for _, e := range f {
		switch e.Kind {
		case "zone":
			switch {
			case e.Zone != zone && !(zone == "gl.t." && e.Zone == "nowhere.t."):
				bad("zone-failure-wrong-zone", "%s: a zone failure is recorded for %s, a zone whose servers all answer (the failing servers belong to %s); store %s", when, e.Zone, zone, vkFailStr(f))
			case !allFailed:
				bad("zone-failure-with-usable-server", "%s: a zone failure is recorded for %s although at least one of its servers gives a usable response; store %s", when, e.Zone, vkFailStr(f))
			case local:
				bad("local-failure-recorded", "%s: the client query ended for a request-local reason, yet a zone failure for %s became shared state; store %s", when, e.Zone, vkFailStr(f))
			}
		case "question":
			if local && strings.EqualFold(e.QName, qname) {
				bad("local-failure-recorded", "%s: the client query ended for a request-local reason, yet a question failure %s became shared state; store %s", when, e, vkFailStr(f))
			}
			if !dns.IsSubDomain(zone, strings.ToLower(e.QName)) && !strings.HasSuffix(strings.ToLower(e.QName), "nowhere.t.") {
				bad("question-failure-elsewhere", "%s: a question failure is recorded for %s, which has nothing to do with the failing zone %s; store %s", when, e, zone, vkFailStr(f))
			}
		}
	}
}

func (w *vkWorld) runOnce(cs vkCase) vkResult {
	res := vkResult{Case: cs}
	n := len(cs.Beh)
	zone := vkZone(n)
	allFailed := true
	scriptedWait := false
	for _, b := range cs.Beh {
		if vkUsable(b) {
			allFailed = false
		}
		if b == "drop" || b == "slow" {
			scriptedWait = true
		}
	}
	cfg := h_rpipe.Config{Mode: "shadow", QMin: cs.QMin}
	opt := h_rpipe.AskOpt{}
	local := false
	switch cs.Mode {
	case "budget":
		cfg.Mode = "enforce"
		if cs.Param > 0 {
			cfg.Budget.Out = uint32(cs.Param)
		} else {
			cfg.Budget.Int = uint32(-cs.Param)
		}
	case "cancel":
		opt.CancelAfter = time.Duration(cs.Param) * time.Millisecond
	case "deadline":
		cfg.QueryTimeout = time.Duration(cs.Param) * time.Millisecond
	case "enrich":
		cfg.IPv6 = true
	case "unreachable":
		zone, allFailed = "gl.t.", true
	}
	pl := w.pipe(cfg)
	pl.Reset()
	w.sim.Reset()
	var only []uint16
	if cs.Mode == "enrich" {
		only = []uint16{dns.TypeAAAA} // the servers answer everything but AAAA questions
		allFailed = false
	}
	if cs.Mode != "unreachable" {
		w.install(cs.Beh, only)
	}
	qname := "a." + zone
	res.First = w.ask(pl, qname, opt)
	w.c.Add("traces", 1)
	if !res.First.Returned {
		res.Viol = append(res.Viol, vkViol{"does-not-terminate", "no reply within the wall cap"})
		return res
	}
	a := res.First
	switch cs.Mode {
	case "budget":
		local = a.Latched != ""
	case "cancel":
		local = a.Writes == 0 || a.Rcode == dns.RcodeServerFailure
	case "deadline":
		local = a.Rcode == dns.RcodeServerFailure
	}
	res.F1 = pl.Failures()
	vkJudgeStore(&res, "after the client query ("+a.outcome()+")", res.F1, zone, qname, allFailed, local)
	if cs.Mode == "enrich" {
		// every server answers everything the client's resolution needs; only the detached, optional AAAA
		// lookups for the name server hosts fail: nothing at all may have become shared failure state
		for _, e := range res.F1 {
			res.Viol = append(res.Viol, vkViol{"enrichment-failure-recorded", fmt.Sprintf("the failing optional IPv6 enrichment of the delegation left %s in the shared failure store (client reply %s); store %s", e, a.outcome(), vkFailStr(res.F1))})
			break
		}
	}

	// follow-up: another name of the same zone, asked of the same pipeline instance (= the same shared
	// state) by a client that is not cancelled and has its own fresh budget.
	// Precondition, not oracle: a client query that ended early (cancelled, over budget, deadline) can leave
	// a "slow" server still holding back its delayed answer; authsim serves one datagram at a time per
	// server, so a follow-up sent right away would queue behind it and see that server answer after
	// 2 x 150 ms = not within the 300 ms exchange timeout, i.e. not the "healthy but slow" server this
	// case is about. Let the scripted delays drain first.
	if local || cs.Mode == "cancel" || cs.Mode == "budget" || cs.Mode == "deadline" {
		for _, b := range cs.Beh {
			if b == "slow" {
				time.Sleep(2*vkSlow + 50*time.Millisecond)
				break
			}
		}
	}
	f := w.ask(pl, "b."+zone, h_rpipe.AskOpt{})
	res.Follow = &f
	res.F2 = pl.Failures()
	if f.Returned {
		followLocal := f.Latched != "" || (cs.Mode == "deadline" && f.Rcode == dns.RcodeServerFailure)
		vkJudgeStore(&res, "after the follow-up query ("+f.outcome()+")", res.F2, zone, "b."+zone, allFailed, followLocal && local)
		if !allFailed && f.fromCache() {
			res.Viol = append(res.Viol, vkViol{"followup-suppressed", fmt.Sprintf("a query for another name of %s was answered %s with %d upstream packets (served from a cached failure) although the zone has a server that gives a usable response; first reply %s; store %s",
				zone, f.outcome(), f.Packets, a.outcome(), vkFailStr(res.F2))})
		}
		if local && f.fromCache() {
			res.Viol = append(res.Viol, vkViol{"local-failure-suppresses", fmt.Sprintf("after a client query that ended for a request-local reason (%s) another name of %s was answered %s from a cached failure; store %s", a.outcome(), zone, f.outcome(), vkFailStr(res.F2))})
		}
	}
	// sibling zone: never affected
	s := w.ask(pl, "a.sib.t.", h_rpipe.AskOpt{})
	res.Sibling = &s
	if s.Returned && (s.fromCache() || (s.Rcode != dns.RcodeSuccess && s.Latched == "" && cs.Mode != "deadline")) {
		res.Viol = append(res.Viol, vkViol{"sibling-suppressed", fmt.Sprintf("a name of the healthy sibling zone sib.t. was answered %s (%d upstream packets) after the failure in %s; store %s", s.outcome(), s.Packets, zone, vkFailStr(pl.Failures()))})
	}
	log := w.sim.Log()
	w.c.Add("transitions", int64(len(log)))
	res.Path = vkPath(log)
	lame := map[string]string{}
	if cs.Mode != "unreachable" && cs.Mode != "enrich" {
		for i, srv := range w.servers(n) {
			if cs.Beh[i] != "healthy" {
				lame[srv] = cs.Beh[i]
			}
		}
	}
	for _, q := range log {
		if _, ok := lame[q.Server]; ok && !q.Scripted && !q.Malformed && dns.IsSubDomain(zone, zonemodel.Canon(q.QName)) {
			res.Unscript = append(res.Unscript, q.Key().String())
		}
	}
	if !scriptedWait && cs.Mode == "plain" && a.Elapsed > vkTimeout*9/10 {
		res.Disturbed = true
	}
	if !a.Settled || !f.Settled || !s.Settled {
		res.Disturbed = true
	}
	// nothing scripted here keeps an ask busy for more than ~1.5 s (4 dropping servers, staggered): an ask
	// that ran into the 3 s query timeout was starved by the machine
	if cs.Mode != "deadline" {
		for _, x := range []vkAsk{a, f, s} {
			if x.Elapsed > vkQueryTimeout*8/10 {
				res.Disturbed = true
			}
		}
	}
	return res
}

func (w *vkWorld) run(cs vkCase) vkResult {
	for try := 0; ; try++ {
		var r vkResult
		switch cs.Mode {
		case "recovery":
			r = w.runRecovery(cs)
		default:
			r = w.runOnce(cs)
		}
		if !r.Disturbed || try >= 3 {
			if r.Disturbed {
				w.c.Add("disturbed_kept", 1)
			}
			return r
		}
		w.c.Add("disturbed_reruns", 1)
	}
}

// runRecovery: every server fails -> (zone failure, streak 1) -> back-off expires -> servers healthy,
// another name resolves -> servers fail again: the new episode must start at the initial back-off.
func (w *vkWorld) runRecovery(cs vkCase) vkResult {
	res := vkResult{Case: cs}
	n := len(cs.Beh)
	zone := vkZone(n)
	pl := w.pipe(h_rpipe.Config{Mode: "shadow", FailMinTTL: time.Second})
	pl.Reset()
	w.sim.Reset()
	w.install(cs.Beh, nil)
	res.First = w.ask(pl, "a."+zone, h_rpipe.AskOpt{})
	w.c.Add("traces", 1)
	res.F1 = pl.Failures()
	zoneEntry := func(f []cache.VerifFailure) *cache.VerifFailure {
		for i := range f {
			if f[i].Kind == "zone" && f[i].Zone == zone {
				return &f[i]
			}
		}
		return nil
	}
	e := zoneEntry(res.F1)
	if e == nil {
		res.Notes = append(res.Notes, "no zone failure recorded (permitted): nothing to reset")
		return res
	}
	if e.Streak != 1 {
		res.Viol = append(res.Viol, vkViol{"backoff-start", fmt.Sprintf("first zone failure of %s has streak %d", zone, e.Streak)})
	}
	// wait for the observed state "back-off expired" (initial back-off 1 s)
	deadline := time.Now().Add(4 * time.Second)
	for time.Now().Before(deadline) {
		if z := zoneEntry(pl.Failures()); z == nil || !z.Active {
			break
		}
		time.Sleep(20 * time.Millisecond)
	}
	w.sim.ClearScripts() // the servers recover
	f := w.ask(pl, "b."+zone, h_rpipe.AskOpt{})
	res.Follow = &f
	if f.Rcode != dns.RcodeSuccess || f.Answers == 0 {
		res.Disturbed = true // the probe after expiry did not get the healthy answer: not the history we wanted
		res.Notes = append(res.Notes, "recovery probe answered "+f.outcome())
		return res
	}
	mid := pl.Failures()
	if z := zoneEntry(mid); z != nil {
		res.Viol = append(res.Viol, vkViol{"backoff-not-reset", fmt.Sprintf("a useful answer from %s did not reset its zone failure: store %s", zone, vkFailStr(mid))})
	}
	w.install(cs.Beh, nil) // ... and fail again
	s := w.ask(pl, "c."+zone, h_rpipe.AskOpt{})
	res.Sibling = &s
	res.F2 = pl.Failures()
	if z := zoneEntry(res.F2); z != nil && z.Streak > 1 {
		res.Viol = append(res.Viol, vkViol{"backoff-not-reset", fmt.Sprintf("after failure, expiry, a useful answer and a new failure the zone failure of %s has streak %d (the back-off was not reset): store %s", zone, z.Streak, vkFailStr(res.F2))})
	}
	res.Path = vkPath(w.sim.Log())
	return res
}

// ---------------------------------------------------------------- enumeration

func vkAssignments(n int, kinds []string) [][]string {
	if n == 0 {
		return [][]string{{}}
	}
	var out [][]string
	for _, rest := range vkAssignments(n-1, kinds) {
		for _, k := range kinds {
			out = append(out, append(append([]string{}, rest...), k))
		}
	}
	return out
}

func vkCases(thorough bool) []vkCase {
	var out []vkCase
	seen := map[string]bool{}
	add := func(cs vkCase) {
		if k := cs.String(); !seen[k] {
			seen[k] = true
			out = append(out, cs)
		}
	}
	maxAll := 3
	if thorough {
		maxAll = 4
	}
	// simplest first: 1 server, then 2, ...
	for n := 1; n <= maxAll; n++ {
		for _, beh := range vkAssignments(n, vkKinds) {
			add(vkCase{Mode: "plain", Beh: beh})
		}
	}
	// the "three lame fast + one healthy slow" family (quick: the full 4-server space is thorough-only)
	lameKinds := []string{"servfail", "refused"}
	if thorough {
		lameKinds = append(lameKinds, "garbage")
	}
	for _, lame := range vkAssignments(3, lameKinds) {
		for pos := 0; pos < 4; pos++ {
			for _, h := range []string{"slow", "healthy"} {
				beh := append([]string{}, lame[:pos]...)
				beh = append(beh, h)
				beh = append(beh, lame[pos:]...)
				add(vkCase{Mode: "plain", Beh: beh})
			}
		}
	}
	healthy := func(n int, k string) []string {
		b := make([]string, n)
		for i := range b {
			b[i] = k
		}
		return b
	}
	lameSlow := [][]string{{"servfail", "servfail", "servfail", "slow"}, {"refused", "servfail", "refused", "slow"}, {"slow", "servfail", "servfail", "servfail"}}
	// request-local causes: work budget (every outbound budget 1..8, internal 1..3), cancellation, deadline
	for n := 1; n <= 4; n++ {
		arr := [][]string{healthy(n, "healthy"), healthy(n, "slow")}
		if n == 4 {
			arr = append(arr, lameSlow...)
		}
		if n == 2 {
			arr = append(arr, []string{"servfail", "healthy"}, []string{"drop", "drop"})
		}
		for _, beh := range arr {
			for out := 1; out <= 8; out++ {
				if !thorough && n == 3 {
					continue
				}
				add(vkCase{Mode: "budget", Beh: beh, Param: out})
			}
			for in := 1; in <= 3; in++ {
				add(vkCase{Mode: "budget", Beh: beh, Param: -in})
			}
		}
	}
	for n := 1; n <= 4; n++ {
		arr := [][]string{healthy(n, "slow"), healthy(n, "drop")}
		if n == 4 {
			arr = append(arr, lameSlow...)
		}
		for _, beh := range arr {
			for _, ms := range []int{1, 30, 100, 250} {
				if !thorough && n == 3 {
					continue
				}
				add(vkCase{Mode: "cancel", Beh: beh, Param: ms})
			}
			add(vkCase{Mode: "deadline", Beh: beh, Param: 100})
			if thorough {
				add(vkCase{Mode: "deadline", Beh: beh, Param: 40})
			}
		}
	}
	// a useful answer resets the back-off
	for n := 1; n <= 2; n++ {
		for _, k := range []string{"servfail", "refused", "drop"} {
			add(vkCase{Mode: "recovery", Beh: healthy(n, k)})
		}
	}
	// optional enrichment (detached AAAA lookups for the name servers) fails, the zone itself is fine
	for n := 1; n <= 2; n++ {
		for _, k := range []string{"servfail", "refused"} {
			add(vkCase{Mode: "enrich", Beh: healthy(n, k)})
		}
	}
	add(vkCase{Mode: "unreachable", Beh: []string{"healthy"}})
	if thorough {
		for n := 1; n <= 2; n++ {
			for _, beh := range vkAssignments(n, vkKinds) {
				add(vkCase{Mode: "plain", Beh: beh, QMin: 5})
			}
		}
		for _, beh := range lameSlow {
			add(vkCase{Mode: "plain", Beh: beh, QMin: 5})
		}
	}
	return out
}

func vkKey(cs vkCase, class string) string { return class + "|" + cs.String() }

func (w *vkWorld) report(cs vkCase, r vkResult) {
	classes := map[string]string{}
	var order []string
	for _, v := range r.Viol {
		if _, ok := classes[v.Class]; !ok {
			classes[v.Class] = v.Msg
			order = append(order, v.Class)
		}
	}
	for _, class := range order {
		ok := true
		msg := classes[class]
		var last vkResult
		for i := 0; i < 3 && ok; i++ {
			last = w.run(cs)
			found := false
			for _, v := range last.Viol {
				if v.Class == class {
					found, msg = true, v.Msg
				}
			}
			ok = found
		}
		if !ok {
			w.c.Add("dropped_unreproducible", 1)
			w.c.Note(fmt.Sprintf("dropped (not reproduced 3/3): %s %s: %s", class, cs, classes[class]))
			continue
		}
		desc := fmt.Sprintf("zone z%d.t. with servers %v behaving %v (in delegation order)", len(cs.Beh), w.servers(len(cs.Beh)), cs.Beh)
		switch cs.Mode {
		case "unreachable":
			desc = "zone gl.t. whose only name server ns.nowhere.t. has no address anywhere (no server reachable)"
		case "enrich":
			desc += " for AAAA questions only (everything else is answered): only the detached IPv6 enrichment of the delegation fails"
		case "budget":
			desc += fmt.Sprintf("; firewall in enforce mode, budget parameter %d (>0 MaxOutboundQueries, <0 MaxInternalQueries)", cs.Param)
		case "cancel":
			desc += fmt.Sprintf("; the client's context is cancelled %d ms after the query was sent", cs.Param)
		case "deadline":
			desc += fmt.Sprintf("; query timeout %d ms", cs.Param)
		}
		w.c.Violation(vkKey(cs, class), fmt.Sprintf("%s — case %s: %s; upstream exchanges (* = scripted): %s", msg, cs, desc, last.Path), cs)
	}
}

func TestVerifC13Zone(t *testing.T) {
	c := vkit.Init("C13/zone")
	defer c.Close()
	w, err := vkNewWorld(c)
	if err != nil {
		c.HarnessError(err.Error())
		return
	}
	defer w.sim.Close()
	if c.Replay != nil {
		var cs vkCase
		if err := json.Unmarshal(c.Replay, &cs); err != nil {
			c.HarnessError("bad replay: " + err.Error())
			return
		}
		r := w.run(cs)
		seen := map[string]bool{}
		for _, v := range r.Viol {
			if !seen[v.Class] {
				seen[v.Class] = true
				c.Violation(vkKey(cs, v.Class), v.Msg+" — path: "+r.Path, cs)
			}
		}
		return
	}
	cases := vkCases(c.Thorough())
	c.Note(fmt.Sprintf("C13/zone: %d cases; upstream timeout %v, slow server delay %v, query timeout %v", len(cases), vkTimeout, vkSlow, vkQueryTimeout))
	// interleave cheap and expensive cases over the shards
	capped := false
	for i, cs := range cases {
		if !c.Mine(i) {
			continue
		}
		if c.OverBudget() {
			capped = true
			break
		}
		tc := time.Now()
		r := w.run(cs)
		c.Add("cases", 1)
		if d := time.Since(tc); d > 12*time.Second {
			c.Add("slow_cases", 1)
			fo := "-"
			if r.Follow != nil {
				fo = fmt.Sprintf("%s/%v", r.Follow.outcome(), r.Follow.Elapsed.Round(time.Millisecond))
			}
			c.Note(fmt.Sprintf("slow case %s took %v: first %s in %v (settled %v), follow-up %s, disturbed=%v", cs, d.Round(time.Millisecond), r.First.outcome(), r.First.Elapsed.Round(time.Millisecond), r.First.Settled, fo, r.Disturbed))
		}
		if len(r.Unscript) > 0 {
			sort.Strings(r.Unscript)
			c.HarnessError(fmt.Sprintf("queries reached a scripted server without hitting a script (%s): %v", cs, r.Unscript))
			return
		}
		if len(r.Viol) > 0 {
			w.report(cs, r)
			if c.NumViolations() > 6 {
				break
			}
			continue
		}
		zoneRecorded := false
		for _, f := range append(append([]cache.VerifFailure{}, r.F1...), r.F2...) {
			if f.Kind == "zone" {
				zoneRecorded = true
			}
		}
		failing := 0
		for _, b := range cs.Beh {
			if !vkUsable(b) {
				failing++
			}
		}
		st := fmt.Sprintf("%s|%s|zone-recorded=%v", cs, r.First.outcome(), zoneRecorded)
		c.DistinctStr("states", st)
		if zoneRecorded || (failing > 0 && failing < len(cs.Beh)) || cs.Mode != "plain" {
			c.DistinctStr("nontrivial", cs.String())
		}
		fo := "-"
		if r.Follow != nil {
			fo = r.Follow.outcome()
		}
		c.Outcome(fmt.Sprintf("%s n=%d failing=%d: %s zone-failure=%v follow-up=%s", cs.Mode, len(cs.Beh), failing, r.First.outcome(), zoneRecorded, fo))
		if i%97 == 0 {
			c.Sample(map[string]any{"case": cs.String(), "reply": r.First.outcome(), "store_after_query": vkFailStr(r.F1), "follow_up": fo, "path": r.Path})
		}
		for _, n := range r.Notes {
			c.Outcome(cs.Mode + ": " + n)
		}
	}
	if capped {
		c.Cap("time budget reached before every case was run")
	}
}

// TestVerifC13ZoneSmoke prints cases (manual aid: VERIF_SMOKE=<substring of the case name>, "1" = all).
func TestVerifC13ZoneSmoke(t *testing.T) {
	f := os.Getenv("VERIF_SMOKE")
	if f == "" {
		t.Skip()
	}
	c := vkit.Init("C13/zone-smoke")
	w, err := vkNewWorld(c)
	if err != nil {
		t.Fatal(err)
	}
	t0 := time.Now()
	n := 0
	for _, cs := range vkCases(os.Getenv("VERIF_TIER") == "thorough") {
		if f != "1" && !strings.Contains(cs.String(), f) {
			continue
		}
		r := w.run(cs)
		n++
		fo, si := "-", "-"
		if r.Follow != nil {
			fo = fmt.Sprintf("%s/pk%d", r.Follow.outcome(), r.Follow.Packets)
		}
		if r.Sibling != nil {
			si = r.Sibling.outcome()
		}
		fmt.Printf("%-52s first=%-18s pk=%-3d %6v latched=%q F1=%s follow=%s sib=%s viol=%v notes=%v unscripted=%v\n", cs, r.First.outcome(), r.First.Packets, r.First.Elapsed.Round(time.Millisecond), r.First.Latched, vkFailStr(r.F1), fo, si, r.Viol, r.Notes, r.Unscript)
		if os.Getenv("VERIF_SMOKE_PATH") != "" {
			fmt.Println("     ", r.Path)
		}
	}
	fmt.Printf("%d cases in %v\n", n, time.Since(t0))
}

// ---------------------------------------------------------------- CD partitions of question failures

// TestVerifC13CDPart — "a question failure applies to exactly that name, type, class, CD VALUE …":
// a resolution that fails WITHOUT a zone failure being recorded (the zone's only server answers the
// question with a referral back to the parent: the resolver gives up on the referral, no server "failed")
// leaves a question failure. Enumerated: validation on / off (with validation off the resolver handler
// forces CD=1 on the upstream exchange and restores the client's bit) x CD of the first client x every
// sequence of <= 2 follow-up asks from {same name CD=0, same name CD=1, sibling name CD=0} inside the
// back-off. A follow-up in the partition that failed is served from the failure cache (SERVFAIL EDE 13,
// no upstream packet); a follow-up in the OTHER CD partition, or for another name, goes upstream.
func TestVerifC13CDPart(t *testing.T) {
	c := vkit.Init("C13/cdpart")
	defer c.Close()
	w, err := vkNewWorld(c)
	if err != nil {
		c.HarnessError(err.Error())
		return
	}
	defer w.sim.Close()
	zone := vkZone(1)
	upref := func(_ authsim.Query, h *dns.Msg) authsim.Action {
		h.Rcode, h.Authoritative = dns.RcodeSuccess, false
		h.Answer, h.Extra = nil, nil
		h.Ns = []dns.RR{&dns.NS{Hdr: dns.RR_Header{Name: "t.", Rrtype: dns.TypeNS, Class: dns.ClassINET, Ttl: 300}, Ns: "ns.t."}}
		return authsim.Action{Msg: h}
	}
	type fu struct {
		Name string
		CD   bool
	}
	fus := []fu{{"a." + zone, false}, {"a." + zone, true}, {"b." + zone, false}}
	var seqs [][]int
	for i := range fus {
		seqs = append(seqs, []int{i})
		for j := range fus {
			seqs = append(seqs, []int{i, j})
		}
	}
	askCD := func(pl *h_rpipe.Pipeline, name string, cd bool) (vkAsk, int) {
		before := w.sim.Count("")
		q := pl.Query(name, dns.TypeA, true, false)
		q.CheckingDisabled = cd
		r := pl.Ask(q, "tcp", h_rpipe.AskOpt{WallCap: 10 * vkQueryTimeout})
		c.Add("evaluations", 1)
		a := vkAsk{Returned: r.Returned, Writes: r.Writes}
		if r.Msg != nil {
			a.Rcode = r.Msg.Rcode
			if opt := r.Msg.IsEdns0(); opt != nil {
				for _, o := range opt.Option {
					if e, ok := o.(*dns.EDNS0_EDE); ok {
						a.EDE = append(a.EDE, e.InfoCode)
					}
				}
			}
		}
		if r.Returned {
			a.Settled, _ = pl.Settle(6*time.Second, r.Ledger)
		}
		return a, w.sim.Count("") - before
	}
	n := 0
	for _, off := range []bool{false, true} {
		for _, firstCD := range []bool{false, true} {
			for _, sq := range seqs {
				n++
				if !c.Mine(n) {
					continue
				}
				if c.OverBudget() {
					c.Cap("time budget")
					return
				}
				run := func() (string, string) {
					w.sim.Reset()
					for _, nm := range []string{"a." + zone, "b." + zone} {
						for _, ty := range vkTypes {
							w.sim.Script(authsim.Key{Server: zone, QName: nm, QType: ty, Occ: -1}, upref)
						}
					}
					pl := w.pipe(h_rpipe.Config{Mode: "shadow", DNSSECOff: off, FailMinTTL: 30 * time.Second})
					pl.Reset()
					first, pk := askCD(pl, "a."+zone, firstCD)
					if !first.Returned || first.Writes != 1 || first.Rcode != dns.RcodeServerFailure || pk == 0 {
						return "", fmt.Sprintf("first:%s/%dpk (no failure to partition)", first.outcome(), pk)
					}
					if fl := pl.Failures(); len(fl) != 1 || fl[0].Kind != "question" {
						return "", "first: not a lone question failure: " + vkFailStr(fl)
					}
					outs := []string{"first:SERVFAIL"}
					for _, i := range sq {
						f := fus[i]
						a, pk := askCD(pl, f.Name, f.CD)
						same := f.Name == "a."+zone && f.CD == firstCD
						served := a.Returned && a.Rcode == dns.RcodeServerFailure && pk == 0
						outs = append(outs, fmt.Sprintf("%s/cd=%v:%s/%dpk", f.Name[:1], f.CD, a.outcome(), pk))
						where := fmt.Sprintf("validation off=%v, first client a.%s CD=%v failed (question failure), follow-up %s CD=%v", off, zone, firstCD, f.Name, f.CD)
						if same && !served {
							return fmt.Sprintf("%s: the retry in the partition that failed went upstream (%d packets, %s) inside the 30 s back-off", where, pk, a.outcome()), strings.Join(outs, " ")
						}
						if !same && served {
							return fmt.Sprintf("%s: answered %s without any upstream packet - another partition's failure was applied to it", where, a.outcome()), strings.Join(outs, " ")
						}
						if !same {
							break // this ask recorded a failure of its own: later steps would be judged against two failures
						}
					}
					return "", strings.Join(outs, " ")
				}
				v, out := run()
				c.Outcome(out)
				if strings.HasPrefix(out, "first:SERVFAIL") {
					c.DistinctStr("nontrivial", fmt.Sprintf("%v|%v|%v", off, firstCD, sq))
				}
				c.Sample(map[string]any{"validation_off": off, "first_cd": firstCD, "seq": sq, "out": out})
				if v == "" {
					continue
				}
				if v2, _ := run(); v2 == "" {
					c.Add("dropped_unreproducible", 1)
					continue
				}
				kind := "other-partition-suppressed"
				if strings.Contains(v, "went upstream") {
					kind = "own-partition-not-suppressed"
				}
				c.Violation(fmt.Sprintf("cdpart:%s|nodnssec=%v|firstcd=%v", kind, off, firstCD), v, nil)
			}
		}
	}
}
