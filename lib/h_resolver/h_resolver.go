// Package h_resolver builds the REAL sdns pipeline under test (the default
// middleware chain: ... edns ... cache ... resolver ...) against an authsim
// universe without touching process globals, and drives it like the server
// does (Pipeline.NewChain + Chain.Reset + Chain.Next on a request-deadline
// context) with a capturing transport.
//
// Requires these export seams in the unit's harness spec:
//
//	"middleware":          ["zz_verif_export.go"],
//	"middleware/resolver": ["zz_verif_export_authsim.go"],
//	"middleware/cache":    ["zz_verif_export_authsim.go"],
//	"internal/authority":  ["zz_verif_export_authsim.go"],
package h_resolver

import (
	"context"
	"fmt"
	"net"
	"os"
	"time"

	"github.com/miekg/dns"
	"github.com/semihalev/sdns/config"
	"github.com/semihalev/sdns/internal/contextutil"
	"github.com/semihalev/sdns/internal/verifshim/authsim"
	"github.com/semihalev/sdns/middleware"
	"github.com/semihalev/sdns/middleware/cache"
	"github.com/semihalev/sdns/middleware/defaults"
	"github.com/semihalev/sdns/middleware/resolver"
	"github.com/semihalev/zlog/v2"
)

func init() {
	logger := zlog.NewStructured()
	logger.SetLevel(zlog.LevelFatal)
	zlog.SetDefault(logger)
}

// Options configure the pipeline.
type Options struct {
	DNSSECOff     bool          // validation off (default on)
	NoAnchors     bool          // start with an empty trust set
	Timeout       time.Duration // per upstream exchange (default 400ms)
	QueryTimeout  time.Duration // per client query (default 5s)
	QnameMinLevel int           // 0 = minimisation off
	RecycleEvery  int           // rebuild the whole pipeline every N Reset calls (default 2000)
	Mod           func(*config.Config)
}

// Flags of a client query.
type Flags struct {
	DO    bool `json:"do,omitempty"`
	CD    bool `json:"cd,omitempty"`
	AD    bool `json:"ad,omitempty"`
	NoRD  bool `json:"nord,omitempty"`  // RD is set unless NoRD
	OPT   bool `json:"opt,omitempty"`   // send an OPT record even without DO
	NoOPT bool `json:"noopt,omitempty"` // never send OPT (DO is then impossible)
}

func (f Flags) String() string {
	s := ""
	for _, p := range []struct {
		on bool
		n  string
	}{{f.DO, "DO"}, {f.CD, "CD"}, {f.AD, "AD"}, {f.OPT && !f.DO, "OPT"}, {f.NoRD, "noRD"}} {
		if p.on {
			s += "+" + p.n
		}
	}
	if s == "" {
		return "plain"
	}
	return s[1:]
}

// HasOPT reports whether the query built from f carries an OPT record.
func (f Flags) HasOPT() bool { return (f.DO || f.OPT) && !f.NoOPT }

// Pipeline is the system under test.
type Pipeline struct {
	sim    *authsim.Sim
	opt    Options
	cfg    *config.Config
	p      *middleware.Pipeline
	res    *resolver.DNSHandler
	cache  *cache.Cache
	dir    string
	resets int
	builds int
	nextID uint16
}

const clientAddr = "198.51.100.77:40000"

// New builds the pipeline against sim.
func New(sim *authsim.Sim, opt Options) (*Pipeline, error) {
	if opt.Timeout == 0 {
		opt.Timeout = 400 * time.Millisecond
	}
	if opt.QueryTimeout == 0 {
		opt.QueryTimeout = 5 * time.Second
	}
	if opt.RecycleEvery == 0 {
		opt.RecycleEvery = 2000
	}
	pl := &Pipeline{sim: sim, opt: opt, nextID: 100}
	if err := pl.build(); err != nil {
		return nil, err
	}
	return pl, nil
}

func (pl *Pipeline) build() error {
	if pl.dir == "" {
		dir, err := os.MkdirTemp("", "vk-hres-")
		if err != nil {
			return err
		}
		pl.dir = dir
	}
	cfg := &config.Config{
		Bind:          "127.0.0.1:0",
		RootServers:   pl.sim.RootAddrs(),
		DNSSEC:        "on",
		Maxdepth:      30,
		Expire:        600,
		CacheSize:     4096,
		RateLimit:     0,
		Prefetch:      0,
		QnameMinLevel: pl.opt.QnameMinLevel,
		CookieSecret:  "6c6f6f6b61686172646c6f6f6b6168617264",
		Directory:     pl.dir,
		BlockListDir:  pl.dir + "/bl",
		Nullroute:     "0.0.0.0",
		Nullroutev6:   "::0",
	}
	if pl.opt.DNSSECOff {
		cfg.DNSSEC = "off"
	}
	if !pl.opt.NoAnchors {
		cfg.RootKeys = pl.sim.U.TrustAnchors()
	}
	cfg.Timeout.Duration = pl.opt.Timeout
	cfg.QueryTimeout.Duration = pl.opt.QueryTimeout
	if pl.opt.Mod != nil {
		pl.opt.Mod(cfg)
	}
	// the production chain, built like middleware.Setup does it but never published:
	// middleware.Ready() stays false, so the resolver's background priming /
	// trust-anchor loop never runs.
	middleware.Reset()
	defaults.Register()
	p := middleware.DefaultRegistry.Build(cfg)
	middleware.VerifAutoWire(p)
	middleware.Reset()
	res, _ := p.Get("resolver").(*resolver.DNSHandler)
	ch, _ := p.Get("cache").(*cache.Cache)
	if res == nil || ch == nil {
		return fmt.Errorf("h_resolver: default chain lacks resolver/cache handler: %v", p.List())
	}
	resolver.VerifSetResolveTarget(res, pl.sim.Remap)
	pl.cfg, pl.p, pl.res, pl.cache = cfg, p, res, ch
	pl.builds++
	return nil
}

// HandlerNames lists the enabled handlers of the built chain, in order.
func (pl *Pipeline) HandlerNames() []string {
	var n []string
	for _, h := range pl.p.Handlers() {
		n = append(n, h.Name())
	}
	return n
}

// Builds reports how many times the whole pipeline was (re)built.
func (pl *Pipeline) Builds() int { return pl.builds }

// Config returns the live configuration.
func (pl *Pipeline) Config() *config.Config { return pl.cfg }

// Resolver / Cache expose the live handlers (for in-package exports of a check).
func (pl *Pipeline) Resolver() *resolver.DNSHandler { return pl.res }
func (pl *Pipeline) Cache() *cache.Cache            { return pl.cache }

// SetTrustAnchors replaces the resolver's live trust set (nil = none).
func (pl *Pipeline) SetTrustAnchors(keys []string) error {
	var rrs []dns.RR
	for _, k := range keys {
		rr, err := dns.NewRR(k)
		if err != nil {
			return err
		}
		rrs = append(rrs, rr)
	}
	resolver.VerifSetTrustAnchors(pl.res, rrs)
	return nil
}

// SetUnusableTrustAnchors installs the universe's trust anchors with their key material made undecodable (the
// first base64 character mistyped, as in a damaged rootkeys line): a NON-EMPTY trust set from which no root
// DS can be derived, so no chain of trust can start.
func (pl *Pipeline) SetUnusableTrustAnchors() error {
	var rrs []dns.RR
	for _, k := range pl.sim.U.TrustAnchors() {
		rr, err := dns.NewRR(k)
		if err != nil {
			return err
		}
		if dk, ok := rr.(*dns.DNSKEY); ok && len(dk.PublicKey) > 1 {
			dk.PublicKey = "!" + dk.PublicKey[1:]
		}
		rrs = append(rrs, rr)
	}
	resolver.VerifSetTrustAnchors(pl.res, rrs)
	return nil
}

// Reset returns resolver and cache to the cold state (delegations, glue,
// answers, negative / failure / proof state, circuit breaker, singleflight,
// zone in-flight counters, root RTT statistics) and clears authsim's scripts
// and log. Every RecycleEvery calls the whole pipeline is rebuilt, because
// each resolver instance leaves background goroutines behind.
func (pl *Pipeline) Reset() {
	pl.resets++
	if pl.resets%pl.opt.RecycleEvery == 0 {
		pl.stop()
		if err := pl.build(); err != nil {
			panic("h_resolver: rebuild failed: " + err.Error())
		}
	} else {
		resolver.VerifResetState(pl.res)
		cache.VerifResetState(pl.cache)
		if !pl.opt.NoAnchors {
			_ = pl.SetTrustAnchors(pl.sim.U.TrustAnchors())
		} else {
			_ = pl.SetTrustAnchors(nil)
		}
	}
	pl.sim.Reset()
}

// ResetState is Reset without touching authsim's scripts/log.
func (pl *Pipeline) ResetState() {
	resolver.VerifResetState(pl.res)
	cache.VerifResetState(pl.cache)
}

func (pl *Pipeline) stop() {
	for _, h := range pl.p.Handlers() {
		if s, ok := h.(interface{ Stop() }); ok {
			s.Stop()
		}
	}
}

// Close stops the handlers and removes the working directory.
func (pl *Pipeline) Close() {
	pl.stop()
	if pl.dir != "" {
		_ = os.RemoveAll(pl.dir)
	}
}

// transport captures the reply exactly as a client would decode it.
type transport struct {
	proto  string
	remote net.Addr
	local  net.Addr
	msgs   []*dns.Msg
	bad    int
}

func (t *transport) LocalAddr() net.Addr  { return t.local }
func (t *transport) RemoteAddr() net.Addr { return t.remote }
func (t *transport) WriteMsg(m *dns.Msg) error {
	// what goes on the wire is what the client sees
	b, err := m.Pack()
	if err != nil {
		t.bad++
		t.msgs = append(t.msgs, m.Copy())
		return nil
	}
	_, err = t.Write(b)
	return err
}
func (t *transport) Write(b []byte) (int, error) {
	m := new(dns.Msg)
	if err := m.Unpack(b); err != nil {
		t.bad++
		return len(b), nil
	}
	t.msgs = append(t.msgs, m)
	return len(b), nil
}
func (t *transport) Close() error { return nil }
func (t *transport) Proto() string {
	if t.proto == "udp" || t.proto == "tcp" {
		return ""
	}
	return t.proto
}

func newTransport(kind string) *transport {
	host, _, _ := net.SplitHostPort(clientAddr)
	ip := net.ParseIP(host)
	switch kind {
	case "tcp", "doh":
		return &transport{proto: kind, remote: &net.TCPAddr{IP: ip, Port: 40000}, local: &net.TCPAddr{IP: net.IPv4(192, 0, 2, 53), Port: 53}}
	default:
		return &transport{proto: kind, remote: &net.UDPAddr{IP: ip, Port: 40000}, local: &net.UDPAddr{IP: net.IPv4(192, 0, 2, 53), Port: 53}}
	}
}

// Query builds the client request for (qname, qtype, flags).
func (pl *Pipeline) Query(qname string, qtype uint16, f Flags) *dns.Msg {
	m := new(dns.Msg)
	pl.nextID++
	m.Id = pl.nextID
	m.RecursionDesired = !f.NoRD
	m.CheckingDisabled = f.CD
	m.AuthenticatedData = f.AD
	m.Question = []dns.Question{{Name: dns.Fqdn(qname), Qtype: qtype, Qclass: dns.ClassINET}}
	if f.HasOPT() {
		opt := &dns.OPT{Hdr: dns.RR_Header{Name: ".", Rrtype: dns.TypeOPT}}
		opt.SetUDPSize(1232)
		if f.DO {
			opt.SetDo()
		}
		m.Extra = []dns.RR{opt}
	}
	return m
}

// Reply is the client-visible outcome of one query.
type Reply struct {
	Msg      *dns.Msg // nil when nothing was written
	Writes   int      // number of replies written (must be 1)
	Upstream int      // upstream queries authsim received during this Ask
	Elapsed  time.Duration
}

// Ask sends one query through the chain; transport is "udp" (default), "tcp" or "doh".
func (pl *Pipeline) Ask(qname string, qtype uint16, f Flags, transportKind string) Reply {
	return pl.AskMsg(pl.Query(qname, qtype, f), transportKind)
}

// AskMsg is Ask with a caller-built request.
func (pl *Pipeline) AskMsg(req *dns.Msg, transportKind string) Reply {
	if transportKind == "" {
		transportKind = "udp"
	}
	t := newTransport(transportKind)
	before := pl.sim.Count("")
	start := time.Now()
	ctx := contextutil.WithLazyDeadline(context.Background(), start.Add(pl.cfg.QueryTimeout.Duration))
	ch := pl.p.NewChain()
	ch.Reset(t, req)
	ch.Next(ctx)
	pl.p.PutChain(ch)
	ctx.Cancel()
	r := Reply{Writes: len(t.msgs), Upstream: pl.sim.Count("") - before, Elapsed: time.Since(start)}
	if len(t.msgs) > 0 {
		r.Msg = t.msgs[len(t.msgs)-1]
	}
	return r
}
