// Package h_rpipe builds the REAL default sdns chain against an authsim
// universe exactly like h_resolver does (middleware.Reset; defaults.Register;
// DefaultRegistry.Build(cfg); VerifAutoWire; never published) and drives it
// like server.serveMsgBy does, but additionally hands out what the
// resolver-level units of C12 (bounded work) and C13 (zone failures) need:
//
//   - the request tree's work ledger (Chain.Meta.RecursionWork()) of each ask,
//   - a client context that can be cancelled mid-resolution,
//   - an exact quiescence test (no resolver goroutine left that could still
//     send an upstream packet, ledger published, authsim log stable),
//   - a listing of the cache handler's RFC 9520 failure store.
//
// Several pipelines with different recursion-firewall settings may share one
// authsim; the caller runs them one at a time.
//
// Harness spec a unit needs (all export seams, no behaviour change):
//
//	"middleware":          ["zz_verif_export.go", "zz_verif_export_c12topo.go"],
//	"middleware/resolver": ["zz_verif_export_authsim.go", "zz_verif_export_c12topo.go"],
//	"middleware/cache":    ["zz_verif_export_authsim.go", "zz_verif_export_c13zone.go"],
//	"internal/authority":  ["zz_verif_export_authsim.go", "zz_verif_export_c12topo.go"],
package h_rpipe

import (
	"context"
	"fmt"
	"net"
	"os"
	"time"

	"github.com/miekg/dns"
	"github.com/semihalev/sdns/config"
	"github.com/semihalev/sdns/internal/authority"
	"github.com/semihalev/sdns/internal/contextutil"
	"github.com/semihalev/sdns/internal/verifshim/authsim"
	"github.com/semihalev/sdns/middleware"
	"github.com/semihalev/sdns/middleware/cache"
	"github.com/semihalev/sdns/middleware/defaults"
	"github.com/semihalev/sdns/middleware/resolver"
	"github.com/semihalev/zlog/v2"
)

func init() {
	logger := zlog.NewStructured()
	logger.SetLevel(zlog.LevelFatal)
	zlog.SetDefault(logger)
}

// Budget is the recursion-firewall budget; a zero field means the sdns default.
type Budget struct {
	Out    uint32 `json:"out,omitempty"`    // MaxOutboundQueries
	Int    uint32 `json:"int,omitempty"`    // MaxInternalQueries
	Keys   uint32 `json:"keys,omitempty"`   // MaxDNSKEYCandidates
	RRSigs uint32 `json:"rrsigs,omitempty"` // MaxRRsetSignatureChecks
	Sigs   uint32 `json:"sigs,omitempty"`   // MaxSignatureChecks
	DS     uint32 `json:"ds,omitempty"`     // MaxDSDigests
	N3     uint32 `json:"n3,omitempty"`     // MaxNSEC3Hashes
}

func (b Budget) String() string {
	if b == (Budget{}) {
		return "default"
	}
	return fmt.Sprintf("out%d/int%d/keys%d/rrsigs%d/sigs%d/ds%d/n3%d", b.Out, b.Int, b.Keys, b.RRSigs, b.Sigs, b.DS, b.N3)
}

// Config selects one pipeline.
type Config struct {
	Mode         string        `json:"mode"` // "off" | "shadow" | "enforce"
	Budget       Budget        `json:"budget"`
	QMin         int           `json:"qmin,omitempty"` // cfg.QnameMinLevel (0 = off)
	IPv6         bool          `json:"ipv6,omitempty"` // cfg.IPv6Access: detached AAAA enrichment of every referral
	DNSSECOff    bool          `json:"dnssec_off,omitempty"`
	Timeout      time.Duration `json:"timeout"`                // per upstream exchange
	QueryTimeout time.Duration `json:"query_timeout"`          // per client query
	FailMinTTL   time.Duration `json:"fail_min_ttl,omitempty"` // RFC 9520 initial back-off (0 = sdns default 5 s)
}

func (c Config) String() string {
	s := fmt.Sprintf("%s/%s/qmin%d", c.Mode, c.Budget, c.QMin)
	if c.IPv6 {
		s += "/ipv6"
	}
	if c.DNSSECOff {
		s += "/nodnssec"
	}
	if c.FailMinTTL != 0 {
		s += "/failmin" + c.FailMinTTL.String()
	}
	return s
}

// Pipeline is the system under test.
type Pipeline struct {
	Cfg    Config
	sim    *authsim.Sim
	cfg    *config.Config
	p      *middleware.Pipeline
	res    *resolver.DNSHandler
	cache  *cache.Cache
	dir    string
	nextID uint16
	remap  func(string) string
}

const clientAddr = "198.51.100.77:40000"

// New builds a pipeline. remap (optional) replaces sim.Remap as the
// resolver's dial-target seam (it should fall back to sim.Remap).
func New(sim *authsim.Sim, c Config, remap func(string) string) (*Pipeline, error) {
	if c.Timeout == 0 {
		c.Timeout = 400 * time.Millisecond
	}
	if c.QueryTimeout == 0 {
		c.QueryTimeout = 5 * time.Second
	}
	dir, err := os.MkdirTemp("", "vk-rpipe-")
	if err != nil {
		return nil, err
	}
	cfg := &config.Config{
		Bind:          "127.0.0.1:0",
		RootServers:   sim.RootAddrs(),
		DNSSEC:        "on",
		Maxdepth:      30,
		Expire:        600,
		CacheSize:     4096,
		RateLimit:     0,
		Prefetch:      0,
		QnameMinLevel: c.QMin,
		IPv6Access:    c.IPv6,
		CookieSecret:  "6c6f6f6b61686172646c6f6f6b6168617264",
		Directory:     dir,
		BlockListDir:  dir + "/bl",
		Nullroute:     "0.0.0.0",
		Nullroutev6:   "::0",
		RootKeys:      sim.U.TrustAnchors(),
	}
	if c.DNSSECOff {
		cfg.DNSSEC = "off"
	}
	cfg.Timeout.Duration = c.Timeout
	cfg.QueryTimeout.Duration = c.QueryTimeout
	switch c.Mode {
	case "off":
		cfg.RecursionFirewall.Mode = config.RecursionFirewallModeOff
	case "shadow":
		cfg.RecursionFirewall.Mode = config.RecursionFirewallModeShadow
	case "enforce":
		cfg.RecursionFirewall.Mode = config.RecursionFirewallModeEnforce
	default:
		return nil, fmt.Errorf("h_rpipe: unknown mode %q", c.Mode)
	}
	rf := &cfg.RecursionFirewall
	rf.FailureCacheMinTTL.Duration = c.FailMinTTL
	rf.MaxOutboundQueries, rf.MaxInternalQueries = c.Budget.Out, c.Budget.Int
	rf.MaxDNSKEYCandidates, rf.MaxRRsetSignatureChecks = c.Budget.Keys, c.Budget.RRSigs
	rf.MaxSignatureChecks, rf.MaxDSDigests, rf.MaxNSEC3Hashes = c.Budget.Sigs, c.Budget.DS, c.Budget.N3

	middleware.Reset()
	defaults.Register()
	p := middleware.DefaultRegistry.Build(cfg)
	middleware.VerifAutoWire(p)
	middleware.Reset()
	res, _ := p.Get("resolver").(*resolver.DNSHandler)
	ch, _ := p.Get("cache").(*cache.Cache)
	if res == nil || ch == nil {
		return nil, fmt.Errorf("h_rpipe: default chain lacks resolver/cache handler: %v", p.List())
	}
	if remap == nil {
		remap = sim.Remap
	}
	resolver.VerifSetResolveTarget(res, remap)
	return &Pipeline{Cfg: c, sim: sim, cfg: cfg, p: p, res: res, cache: ch, dir: dir, nextID: 100, remap: remap}, nil
}

// PinServerOrder makes the order in which a delegation's servers are tried a
// function of the delegation alone (process-wide; the ranking's own test seam).
func PinServerOrder(f func(n int) int) { authority.VerifSetRandN(f) }

// Limits returns the normalised firewall limits of this pipeline.
func (pl *Pipeline) Limits() config.RecursionFirewallConfig {
	rf := pl.cfg.RecursionFirewall
	rf.Normalize()
	return rf
}

// HandlerNames lists the enabled handlers of the built chain, in order.
func (pl *Pipeline) HandlerNames() []string {
	var n []string
	for _, h := range pl.p.Handlers() {
		n = append(n, h.Name())
	}
	return n
}

// Reset returns resolver and cache to the cold state (see h_resolver.Reset).
// It does not touch authsim. Call only at quiescence.
func (pl *Pipeline) Reset() {
	resolver.VerifResetState(pl.res)
	cache.VerifResetState(pl.cache)
	var rrs []dns.RR
	for _, k := range pl.sim.U.TrustAnchors() {
		if rr, err := dns.NewRR(k); err == nil {
			rrs = append(rrs, rr)
		}
	}
	resolver.VerifSetTrustAnchors(pl.res, rrs)
}

// Close stops the handlers and removes the working directory.
func (pl *Pipeline) Close() {
	for _, h := range pl.p.Handlers() {
		if s, ok := h.(interface{ Stop() }); ok {
			s.Stop()
		}
	}
	if pl.dir != "" {
		_ = os.RemoveAll(pl.dir)
	}
}

// Failures lists the cache handler's RFC 9520 failure store.
func (pl *Pipeline) Failures() []cache.VerifFailure { return cache.VerifFailureEntries(pl.cache) }

// Inflight reports busy resolver goroutines (attempts, lookups, probes, v6 jobs).
func (pl *Pipeline) Inflight() (int, int, int, int) { return resolver.VerifInflight(pl.res) }

// transport captures replies exactly as a client would decode them.
type transport struct {
	proto  string
	remote net.Addr
	local  net.Addr
	msgs   []*dns.Msg
}

func (t *transport) LocalAddr() net.Addr  { return t.local }
func (t *transport) RemoteAddr() net.Addr { return t.remote }
func (t *transport) WriteMsg(m *dns.Msg) error {
	b, err := m.Pack()
	if err != nil {
		t.msgs = append(t.msgs, m.Copy())
		return nil
	}
	_, err = t.Write(b)
	return err
}
func (t *transport) Write(b []byte) (int, error) {
	m := new(dns.Msg)
	if err := m.Unpack(b); err != nil {
		t.msgs = append(t.msgs, nil)
		return len(b), nil
	}
	t.msgs = append(t.msgs, m)
	return len(b), nil
}
func (t *transport) Close() error { return nil }
func (t *transport) Proto() string {
	if t.proto == "udp" || t.proto == "tcp" {
		return ""
	}
	return t.proto
}

func newTransport(kind string) *transport {
	host, _, _ := net.SplitHostPort(clientAddr)
	ip := net.ParseIP(host)
	if kind == "udp" {
		return &transport{proto: kind, remote: &net.UDPAddr{IP: ip, Port: 40000}, local: &net.UDPAddr{IP: net.IPv4(192, 0, 2, 53), Port: 53}}
	}
	return &transport{proto: kind, remote: &net.TCPAddr{IP: ip, Port: 40000}, local: &net.TCPAddr{IP: net.IPv4(192, 0, 2, 53), Port: 53}}
}

// Query builds a client request. opt: send an OPT record; do: set DO (implies OPT).
func (pl *Pipeline) Query(qname string, qtype uint16, opt, do bool) *dns.Msg {
	m := new(dns.Msg)
	pl.nextID++
	m.Id = pl.nextID
	m.RecursionDesired = true
	m.Question = []dns.Question{{Name: dns.Fqdn(qname), Qtype: qtype, Qclass: dns.ClassINET}}
	if opt || do {
		o := &dns.OPT{Hdr: dns.RR_Header{Name: ".", Rrtype: dns.TypeOPT}}
		o.SetUDPSize(1232)
		if do {
			o.SetDo()
		}
		m.Extra = []dns.RR{o}
	}
	return m
}

// Reply is the client-visible outcome of one ask.
type Reply struct {
	Msg      *dns.Msg // last reply written (nil when nothing was written)
	Writes   int
	Elapsed  time.Duration
	Returned bool                            // the chain returned within the wall cap
	Ledger   *middleware.RecursionWorkLedger // the request tree's ledger (nil: firewall off or no recursive work)
	Latched  error                           // ledger.EnforcementError() read the moment the chain returned
}

// AskOpt modifies one ask.
type AskOpt struct {
	CancelAfter time.Duration // cancel the client's context (parent of the request context) after this long; 0 = never
	WallCap     time.Duration // give up waiting for the chain after this long (default 10 x QueryTimeout)
}

// Ask sends req through the chain like server.serveMsgBy (lazy-deadline
// request context on a parent, NewChain, Reset, Next, PutChain, Cancel).
// transport kind: "udp", "tcp" (default) or "doh".
func (pl *Pipeline) Ask(req *dns.Msg, kind string, o AskOpt) Reply {
	if kind == "" {
		kind = "tcp"
	}
	if o.WallCap == 0 {
		o.WallCap = 10 * pl.cfg.QueryTimeout.Duration
	}
	t := newTransport(kind)
	start := time.Now()
	parent, cancelParent := context.WithCancel(context.Background())
	defer cancelParent()
	done := make(chan Reply, 1)
	go func() {
		var r Reply
		ctx := contextutil.WithLazyDeadline(parent, start.Add(pl.cfg.QueryTimeout.Duration))
		ch := pl.p.NewChain()
		ch.Reset(t, req)
		ch.Next(ctx)
		r.Ledger = ch.Meta.RecursionWork()
		if r.Ledger != nil {
			r.Latched = r.Ledger.EnforcementError()
		}
		pl.p.PutChain(ch)
		ctx.Cancel()
		r.Elapsed = time.Since(start)
		r.Writes = len(t.msgs)
		if len(t.msgs) > 0 {
			r.Msg = t.msgs[len(t.msgs)-1]
		}
		r.Returned = true
		done <- r
	}()
	var cancelC <-chan time.Time
	if o.CancelAfter > 0 {
		tm := time.NewTimer(o.CancelAfter)
		defer tm.Stop()
		cancelC = tm.C
	}
	wall := time.NewTimer(o.WallCap)
	defer wall.Stop()
	for {
		select {
		case r := <-done:
			return r
		case <-cancelC:
			cancelParent()
			cancelC = nil
		case <-wall.C:
			return Reply{Elapsed: time.Since(start)}
		}
	}
}

// Settle waits until nothing of the previous asks can still reach upstream:
// every resolver pool empty, the given ledgers published (all retained
// detached jobs released) and the authsim log length unchanged over
// consecutive polls. It returns false when that state was not reached within
// max (the caller then discards the run). No fixed sleep decides anything: the
// loop ends on observed state.
func (pl *Pipeline) Settle(max time.Duration, ledgers ...*middleware.RecursionWorkLedger) (bool, time.Duration) {
	start := time.Now()
	stable := 0
	last := -1
	for {
		a, l, p, v := pl.Inflight()
		busy := a+l+p+v > 0
		for _, lg := range ledgers {
			if lg == nil {
				continue
			}
			if _, fin := middleware.VerifLedgerState(lg); !fin && pl.Cfg.Mode != "off" {
				busy = true
			}
		}
		n := pl.sim.Count("")
		if !busy && n == last {
			stable++
		} else {
			stable = 0
		}
		last = n
		if stable >= 3 {
			return true, time.Since(start)
		}
		if time.Since(start) > max {
			return false, time.Since(start)
		}
		time.Sleep(1500 * time.Microsecond)
	}
}
