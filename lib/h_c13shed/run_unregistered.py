#!/usr/bin/env python3
"""dev driver: build/run the (unregistered) C13 'shed' unit exactly as `vk check` would.
usage: [VERIF_REPO=<worktree>] run_unregistered.py shards [quick|thorough] [-o]
       [VERIF_REPO=<worktree>] run_unregistered.py one [ENV=VAL ...] -- <test binary args>
exit status of `shards`: 0 = no violation, 1 = violation(s), 2 = harness error"""
import importlib.machinery, importlib.util, os, sys, json, time, subprocess
here = "/verif"
loader = importlib.machinery.SourceFileLoader("vk", os.path.join(here, "vk"))
spec = importlib.util.spec_from_loader("vk", loader)
vk = importlib.util.module_from_spec(spec)
argv = sys.argv[1:]
sys.argv = ["vk"]
loader.exec_module(vk)
UNIT = {"pkg": "internal/verifshim/h_c13shed", "run": "TestVerifC13Shed",
        "harness": {"middleware": ["zz_verif_export.go"],
                    "middleware/resolver": ["zz_verif_export_authsim.go", "zz_verif_export_c12topo.go", "zz_verif_export_c13shed.go"],
                    "middleware/cache": ["zz_verif_export_authsim.go", "zz_verif_export_c13zone.go"],
                    "internal/authority": ["zz_verif_export_authsim.go"]},
        "shards": 16, "gomaxprocs": 2, "budget_s": {"quick": 60, "thorough": 400}}
mode = argv[0] if argv else "shards"
if mode == "one":
    env = dict(os.environ)
    rest = argv[1:]
    while rest and rest[0] != "--":
        k, v = rest.pop(0).split("=", 1); env[k] = v
    rest = rest[1:]
    b, s = vk.build_unit(UNIT, "C13_shed")
    print("built in %.1fs" % s, file=sys.stderr)
    wd = os.path.join(vk.BUILD, "run_manual"); os.makedirs(wd, exist_ok=True)
    env.setdefault("GOMAXPROCS", "2")
    sys.exit(subprocess.call([b] + rest, cwd=wd, env=env))
tier = argv[1] if len(argv) > 1 and not argv[1].startswith("-") else "quick"
t0 = time.time()
m = vk.run_unit("C13", "shed", UNIT, tier)
print("wall %.1fs build %.1fs" % (time.time() - t0, m["build_s"]))
print("counters", json.dumps(m["counters"]))
print("distinct", m["distinct"], "outcomes", len(m["outcomes"]), "exhaustive", m["exhaustive"], "caps", m["caps"])
for e in m["harness_errors"][:5]: print("HARNESS", e[:2500])
for n in m["notes"][:10]: print("NOTE", n[:600])
seen = set()
for v in m["violations"]:
    if v["key"] in seen: continue
    seen.add(v["key"]); print("VIOLATION", v["key"]); print("    ", v["message"][:1800]); print("    ", json.dumps(v["replay"]))
if "-o" in argv:
    for k, v in sorted(m["outcomes"].items()): print(v, k)
sys.exit(2 if m["harness_errors"] else (1 if seen else 0))
