//go:build verif

package h_c13shed

// C13/shed — scenario, oracle, enumeration.
//
// One case = one history on one pipeline state:
//
//	[warm-up]  A asks a.z1.t. -> its upstream query is HELD by z1.t.'s server
//	(A's lookup now occupies the only slot of the limit under test)
//	-> B asks (order held/early: returns while A is held; race: together with
//	the release; after: control, only after A finished)  [-> early follow-up
//	while A is still held]  -> release -> A (and B) return -> quiescence ->
//	fresh clients ask B's question, a sibling name of B's zone, A's question.
//
// The real failure store is listed after every step.
//
// Oracle, strictly from the property text. Every authority of the universe
// answers every query correctly, and no timeout fires: nothing fails in a run
// except what the resolver itself refuses for lack of capacity. Hence
//   - C13 "failures local to one request (... shed load ...) never become
//     shared state": the failure store holds NO entry at any listing;
//   - C13 "cached failures suppress only what failed": at quiescence every
//     follow-up is answered with the zone's data, and a follow-up while the
//     slot is still occupied is either refused by a shed of its own (the
//     resolver's shed counter moves) or answered — never served a failure out
//     of shared state;
//   - C11 "capacity-refused resolution surfaces as SERVFAIL to that client
//     only": the refused client gets exactly one reply; the holder of the slot
//     and a client waiting on the holder's name get the zone's data.

import (
	"encoding/json"
	"fmt"
	"os"
	"sort"
	"strings"
	"testing"
	"time"

	"github.com/miekg/dns"
	"github.com/semihalev/sdns/internal/verifshim/authsim"
	"github.com/semihalev/sdns/internal/verifshim/vkit"
	"github.com/semihalev/sdns/middleware/cache"
	"github.com/semihalev/sdns/middleware/resolver"
)

const (
	ipWarm  = "198.51.100.9"
	ipA     = "198.51.100.11"
	ipB     = "198.51.100.12"
	ipEarly = "198.51.100.13"
	ipC1    = "198.51.100.21"
	ipC2    = "198.51.100.22"
	ipC3    = "198.51.100.23"
)

// vkCase is one replayable case.
type vkCase struct {
	Quota string `json:"quota"`           // zone | global | none (control: production limits)
	B     string `json:"b"`               // same | name | zone2 | glueless
	Proto string `json:"proto"`           // udp | tcp (B's transport)
	Opt   string `json:"opt"`             // none | opt | do | docd (B's OPT / DO / CD)
	Order string `json:"order"`           // held | early | race | after
	Warm  bool   `json:"warm,omitempty"`  // delegations of every zone learned before A asks
	Mode  string `json:"mode,omitempty"`  // recursion firewall mode ("" = shadow, the default)
	QType string `json:"qtype,omitempty"` // B's question type ("" = A)
}

func (cs vkCase) String() string {
	s := fmt.Sprintf("quota=%s/b=%s/%s/%s/%s", cs.Quota, cs.B, cs.Proto, cs.Opt, cs.Order)
	if cs.Warm {
		s += "/warm"
	}
	if cs.Mode != "" {
		s += "/fw=" + cs.Mode
	}
	if cs.QType != "" {
		s += "/" + cs.QType
	}
	return s
}

func (cs vkCase) bName() string {
	switch cs.B {
	case "same":
		return vkHeldName
	case "name":
		return "b." + vkHeldZone
	case "zone2":
		return "b." + vkOtherZone
	}
	return "b." + vkGlueless
}

func (cs vkCase) bZone() string {
	switch cs.B {
	case "same", "name":
		return vkHeldZone
	case "zone2":
		return vkOtherZone
	}
	return vkGlueless
}

func (cs vkCase) bType() uint16 {
	if cs.QType == "AAAA" {
		return dns.TypeAAAA
	}
	return dns.TypeA
}

// follow-ups carry B's CD bit (the failure store partitions by it)
func (cs vkCase) followOpt() string {
	if cs.Opt == "docd" {
		return "docd"
	}
	return "do"
}

type vkStep struct {
	Name    string               `json:"step"`
	Q       string               `json:"q"`
	Reply   vkReply              `json:"reply"`
	Parked  string               `json:"parked,omitempty"` // where the client waited when the harness went on
	ShedG   int64                `json:"shed_global"`      // resolver shed counters: delta over this step
	ShedZ   int64                `json:"shed_zone"`
	Packets int                  `json:"packets"`
	Path    string               `json:"path"`
	Store   []cache.VerifFailure `json:"store"` // failure store after the step
	Held    bool                 `json:"held"`  // A's lookup still occupied its slot when this step ended
}

type vkViol struct {
	Key string
	Msg string
}

type vkResult struct {
	Case      vkCase
	Steps     []vkStep
	ShedG     int64
	ShedZ     int64
	Viol      []vkViol
	Disturbed string
}

func (r *vkResult) step(name string) *vkStep {
	for i := range r.Steps {
		if r.Steps[i].Name == name {
			return &r.Steps[i]
		}
	}
	return nil
}

func vkFailStr(f []cache.VerifFailure) string {
	var s []string
	for _, x := range f {
		cd := ""
		if x.CD {
			cd = ",cd"
		}
		s = append(s, fmt.Sprintf("%s(streak %d, active %v%s)", x, x.Streak, x.Active, cd))
	}
	return "[" + strings.Join(s, " ") + "]"
}

func vkPath(log []authsim.Query) string {
	var s []string
	for _, q := range log {
		sc := ""
		if q.Scripted {
			sc = "*"
		}
		s = append(s, fmt.Sprintf("%s<-%s/%s/%s%s", q.Server, strings.ToLower(q.QName), dns.TypeToString[q.QType], q.Transport, sc))
	}
	r := strings.Join(s, " ")
	if len(r) > 900 {
		r = r[:900] + "..."
	}
	return r
}

func (r *vkResult) history() string {
	var s []string
	for _, st := range r.Steps {
		h := ""
		if st.Held {
			h = " [A still held]"
		}
		p := ""
		if st.Parked != "" {
			p = " (waited at " + st.Parked + ")"
		}
		s = append(s, fmt.Sprintf("%s %s -> %s%s, shed global+%d zone+%d, %d upstream packets {%s}, failure store %s%s",
			st.Name, st.Q, st.Reply.outcome(), p, st.ShedG, st.ShedZ, st.Packets, st.Path, vkFailStr(st.Store), h))
	}
	return strings.Join(s, "; ")
}

type vkWorld struct {
	lab   *vkLab
	c     *vkit.Ctx
	pipes map[string]*vkPipe
}

func (w *vkWorld) pipe(cs vkCase, fresh bool) (*vkPipe, error) {
	k := cs.Quota + "/" + cs.Mode
	if fresh {
		return w.lab.newPipe(cs.Quota, cs.Mode)
	}
	if p := w.pipes[k]; p != nil {
		return p, nil
	}
	p, err := w.lab.newPipe(cs.Quota, cs.Mode)
	if err != nil {
		return nil, err
	}
	w.pipes[k] = p
	return p, nil
}

type vkErrCollision struct{ what string }

func (e *vkErrCollision) Error() string { return e.what }

// ask runs one client in its own goroutine (entry vkClientB) and waits for its
// return. mayPark: while A's reply is held the client may be unable to return:
// (a) it asked A's question and waits for A's result in the cache handler's
// dedup — seen exactly in the goroutine snapshot (3 consecutive polls); or
// (b) nobody refused it and its own upstream query queues behind the held one
// at z1.t.'s server (authsim serves one datagram at a time) — only possible
// with the production limits (controls) or on a tree whose limiter does not
// refuse; recognised when the client's goroutine stays blocked, exactly one
// upstream attempt besides A's stays in flight and the authority log does not
// move over a long series of polls. Then ask stops waiting and reports where
// the client was parked. That decision only schedules the release (the order
// explored becomes "release first"); it judges nothing.
func (w *vkWorld) ask(pl *vkPipe, res *vkResult, name, ip string, req *dns.Msg, proto string, mayPark bool) (done chan vkReply, stp *vkStep, err error) {
	g0, z0 := resolver.VerifShedCounts()
	n0 := len(w.lab.sim.Log())
	done = make(chan vkReply, 1)
	go vkClientB(pl, ip, req, proto, done)
	w.c.Add("evaluations", 1)
	q := req.Question[0]
	st := vkStep{Name: name, Q: fmt.Sprintf("%s/%s/%s", q.Name, dns.TypeToString[q.Qtype], proto)}
	deadline := time.Now().Add(vkSafety)
	follower, blocked := 0, 0
	lastCount := -1
	for {
		select {
		case r := <-done:
			st.Reply = r
			done = nil
		default:
		}
		if done == nil {
			break
		}
		if mayPark {
			state, inner, found := vkFindGoroutine("h_c13shed.vkClientB(")
			cnt := w.lab.sim.Count("")
			att, _, _, _ := pl.inflight()
			switch {
			case found && vkFollowerWait(state, inner):
				follower++
			case found && (state == "IO wait" || state == "select" || state == "chan receive") && cnt == lastCount && att == 2:
				blocked++
			default:
				follower, blocked = 0, 0
			}
			lastCount = cnt
			window := 400 // >= 200 ms without any movement
			if pl.quota == "none" {
				window = 40
			}
			if follower >= 3 || blocked >= window {
				st.Parked = state + " @ " + inner
				break
			}
		}
		if time.Now().After(deadline) {
			return nil, nil, &vkHarnessErr{fmt.Sprintf("client %s (%s) did not return within %v in case %s", name, st.Q, vkSafety, res.Case)}
		}
		time.Sleep(500 * time.Microsecond)
	}
	if done == nil {
		w.closeStep(pl, &st, g0, z0, n0)
	}
	res.Steps = append(res.Steps, st)
	return done, &res.Steps[len(res.Steps)-1], nil
}

func (w *vkWorld) closeStep(pl *vkPipe, st *vkStep, g0, z0 int64, n0 int) {
	g1, z1 := resolver.VerifShedCounts()
	st.ShedG, st.ShedZ = g1-g0, z1-z0
	log := w.lab.sim.Log()
	if n0 <= len(log) {
		st.Packets = len(log) - n0
		st.Path = vkPath(log[n0:])
	}
	st.Store = pl.failures()
	_, lk, _, _ := pl.inflight()
	st.Held = lk > 0
}

func (w *vkWorld) await(done chan vkReply, what string, cs vkCase) (vkReply, error) {
	t := time.NewTimer(vkSafety)
	defer t.Stop()
	select {
	case r := <-done:
		return r, nil
	case <-t.C:
		return vkReply{}, &vkHarnessErr{fmt.Sprintf("client %s did not return within %v after the held reply was released (case %s)", what, vkSafety, cs)}
	}
}

func (w *vkWorld) runOnce(cs vkCase, pl *vkPipe) (res vkResult, err error) {
	res.Case = cs
	lab := w.lab
	defer lab.gate.open() // never leave the authority blocked
	resolver.VerifResetState(pl.res)
	cache.VerifResetState(pl.cache)
	lab.sim.Reset()
	lab.sim.Script(authsim.Key{Server: vkHeldZone, QName: vkHeldName, QType: dns.TypeA, Occ: -1}, lab.gate.transformer())
	late0 := lab.gate.late.Load()
	if f := pl.failures(); len(f) != 0 {
		return res, &vkHarnessErr{"failure store not empty after reset: " + vkFailStr(f)}
	}
	gStart, zStart := resolver.VerifShedCounts()

	if cs.Warm {
		for _, z := range []string{vkHeldZone, vkOtherZone, vkGlueless} {
			_, st, e := w.ask(pl, &res, "warm-up", ipWarm, lab.query("c."+z, dns.TypeA, "do"), "tcp", false)
			if e != nil {
				return res, e
			}
			if st.Reply.Rcode != dns.RcodeSuccess || len(st.Reply.A) != 1 || st.Reply.A[0] != vkData["c."+z] {
				res.Disturbed = "warm-up " + st.Q + " answered " + st.Reply.outcome()
				return res, nil
			}
		}
		if e := lab.settle(pl); e != nil {
			return res, e
		}
	}

	// --- A: its upstream query is held by z1.t.'s server
	lab.gate.arm()
	doneA := make(chan vkReply, 1)
	gA, zA := resolver.VerifShedCounts()
	nA := len(lab.sim.Log())
	go vkClientA(pl, ipA, lab.query(vkHeldName, dns.TypeA, "do"), "tcp", doneA)
	w.c.Add("evaluations", 1)
	tm := time.NewTimer(vkSafety)
	select {
	case <-lab.gate.arrived:
	case r := <-doneA:
		tm.Stop()
		res.Disturbed = "A returned (" + r.outcome() + ") before its query for " + vkHeldName + " reached the authority"
		return res, nil
	case <-tm.C:
		return res, &vkHarnessErr{"A's upstream query never reached z1.t.'s server (case " + cs.String() + ")"}
	}
	tm.Stop()
	att, lk, pr, v6 := pl.inflight()
	if att != 1 || lk != 1 || pr != 0 || v6 != 0 {
		return res, &vkHarnessErr{fmt.Sprintf("while A's query is held the resolver pools are attempts=%d lookups=%d probes=%d v6=%d (want 1/1/0/0), case %s", att, lk, pr, v6, cs)}
	}
	if n := resolver.VerifZoneInflight(pl.res, vkHeldZone); n != 1 {
		return res, &vkHarnessErr{fmt.Sprintf("while A's query is held zone %s has %d reservations (want 1)", vkHeldZone, n)}
	}
	for _, z := range []string{".", "t.", vkOtherZone, vkGlueless} {
		if n := resolver.VerifZoneInflight(pl.res, z); n != 0 {
			return res, &vkErrCollision{fmt.Sprintf("zone %s shares the quota bucket of %s in this pipeline", z, vkHeldZone)}
		}
	}

	released := false
	var aReply vkReply
	release := func() error {
		if released {
			return nil
		}
		released = true
		lab.gate.open()
		r, e := w.await(doneA, "A", cs)
		if e != nil {
			return e
		}
		aReply = r
		return nil
	}

	bReq := lab.query(cs.bName(), cs.bType(), cs.Opt)
	switch cs.Order {
	case "held", "early":
		g0, z0 := resolver.VerifShedCounts()
		n0 := len(lab.sim.Log())
		doneB, stB, e := w.ask(pl, &res, "B", ipB, bReq, cs.Proto, true)
		if e != nil {
			return res, e
		}
		if doneB == nil && cs.Order == "early" {
			// a fresh client asks B's question while A still occupies the slot
			doneE, stE, e := w.ask(pl, &res, "early", ipEarly, lab.query(cs.bName(), cs.bType(), cs.followOpt()), "tcp", true)
			if e != nil {
				return res, e
			}
			if doneE != nil {
				if e := release(); e != nil {
					return res, e
				}
				r, e := w.await(doneE, "early", cs)
				if e != nil {
					return res, e
				}
				stE.Reply = r
				w.closeStep(pl, stE, g0, z0, n0)
			}
		}
		if e := release(); e != nil {
			return res, e
		}
		if doneB != nil {
			r, e := w.await(doneB, "B", cs)
			if e != nil {
				return res, e
			}
			stB.Reply = r
			w.closeStep(pl, stB, g0, z0, n0)
		}
	case "race":
		g0, z0 := resolver.VerifShedCounts()
		n0 := len(lab.sim.Log())
		doneB := make(chan vkReply, 1)
		go vkClientB(pl, ipB, bReq, cs.Proto, doneB)
		w.c.Add("evaluations", 1)
		if e := release(); e != nil {
			return res, e
		}
		r, e := w.await(doneB, "B", cs)
		if e != nil {
			return res, e
		}
		st := vkStep{Name: "B", Q: fmt.Sprintf("%s/%s/%s", bReq.Question[0].Name, dns.TypeToString[cs.bType()], cs.Proto), Reply: r}
		w.closeStep(pl, &st, g0, z0, n0)
		res.Steps = append(res.Steps, st)
	case "after":
		if e := release(); e != nil {
			return res, e
		}
		if e := lab.settle(pl); e != nil {
			return res, e
		}
		if _, _, e := w.ask(pl, &res, "B", ipB, bReq, cs.Proto, false); e != nil {
			return res, e
		}
	default:
		return res, &vkHarnessErr{"unknown order " + cs.Order}
	}
	if e := lab.settle(pl); e != nil {
		return res, e
	}
	stA := vkStep{Name: "A", Q: vkHeldName + "/A/tcp", Reply: aReply}
	w.closeStep(pl, &stA, gA, zA, nA)
	stA.ShedG, stA.ShedZ, stA.Packets, stA.Path = 0, 0, 0, "(held until released)"
	res.Steps = append(res.Steps, stA)

	// --- at quiescence: fresh clients
	for _, f := range []struct{ name, ip, q string }{
		{"C-question", ipC1, cs.bName()},
		{"C-sibling", ipC2, "d." + cs.bZone()},
		{"C-holder", ipC3, vkHeldName},
	} {
		qt, opt := dns.TypeA, cs.followOpt()
		if f.name == "C-question" {
			qt = cs.bType()
		}
		if f.name == "C-holder" {
			opt = "do" // exactly A's question
		}
		if _, _, e := w.ask(pl, &res, f.name, f.ip, lab.query(f.q, qt, opt), "tcp", false); e != nil {
			return res, e
		}
		if e := lab.settle(pl); e != nil {
			return res, e
		}
	}
	gEnd, zEnd := resolver.VerifShedCounts()
	res.ShedG, res.ShedZ = gEnd-gStart, zEnd-zStart
	if lab.gate.late.Load() != late0 {
		return res, &vkHarnessErr{"the gate's safety timeout fired in case " + cs.String()}
	}
	for _, st := range res.Steps {
		if st.Name != "A" && st.Parked == "" && st.Reply.Elapsed > vkSlowAsk {
			res.Disturbed = fmt.Sprintf("%s took %v", st.Name, st.Reply.Elapsed)
		}
	}
	w.c.Add("traces", 1)
	w.c.Add("transitions", int64(len(res.Steps)))
	w.judge(&res)
	return res, nil
}

func vkGoodAnswer(r vkReply, qname string, qtype uint16) bool {
	if !r.Returned || r.Writes != 1 || r.Rcode != dns.RcodeSuccess {
		return false
	}
	if qtype != dns.TypeA {
		return len(r.A) == 0
	}
	return len(r.A) == 1 && r.A[0] == vkData[strings.ToLower(qname)]
}

func (w *vkWorld) judge(res *vkResult) {
	cs := res.Case
	shed := res.ShedG+res.ShedZ > 0
	via := ""
	if cs.B == "glueless" {
		via = "|via=nsaddr"
	}
	seen := map[string]bool{}
	bad := func(key, format string, a ...any) {
		if !seen[key] {
			seen[key] = true
			res.Viol = append(res.Viol, vkViol{Key: key, Msg: fmt.Sprintf(format, a...)})
		}
	}
	// 1. the failure store stays empty: nothing failed but the resolver's own load shedding
	for _, st := range res.Steps {
		for _, e := range st.Store {
			class := "shed-failure-recorded"
			why := "the only failure in this history is the resolver's own load shedding"
			if !shed {
				class = "failure-recorded-without-failure"
				why = "nothing at all failed in this history"
			}
			bad(fmt.Sprintf("%s|quota=%s|kind=%s%s", class, cs.Quota, e.Kind, via),
				"after step %s (%s -> %s) the shared RFC 9520 failure store holds %s although every authority answers every query and %s; store %s",
				st.Name, st.Q, st.Reply.outcome(), e, why, vkFailStr(st.Store))
		}
	}
	b := res.step("B")
	overlap := cs.Order == "race" || (b != nil && b.Parked != "")
	// 2. the refused client itself: exactly one reply
	if b != nil && b.Reply.Returned && b.Reply.Writes != 1 {
		bad(fmt.Sprintf("shed-reply-count|quota=%s", cs.Quota), "client B (%s) was written %d replies", b.Q, b.Reply.Writes)
	}
	if b != nil && !vkGoodAnswer(b.Reply, cs.bName(), cs.bType()) && b.Reply.Writes == 1 {
		if b.Reply.Rcode != dns.RcodeServerFailure || b.ShedG+b.ShedZ == 0 {
			res.Disturbed = fmt.Sprintf("B answered %s with shed global+%d zone+%d: not a capacity refusal, and nothing else can fail here", b.Reply.outcome(), b.ShedG, b.ShedZ)
		}
	}
	// 3. nobody else is failed by the refusal
	if a := res.step("A"); a != nil && !vkGoodAnswer(a.Reply, vkHeldName, dns.TypeA) && !(overlap && shed) {
		bad(fmt.Sprintf("shed-fails-other-client|quota=%s|who=holder", cs.Quota),
			"client A, whose lookup held the slot, was answered %s instead of the zone's data %s", a.Reply.outcome(), vkData[vkHeldName])
	}
	if cs.B == "same" && b != nil && !shed && !vkGoodAnswer(b.Reply, cs.bName(), cs.bType()) {
		bad(fmt.Sprintf("shed-fails-other-client|quota=%s|who=follower", cs.Quota),
			"client B asked the holder's question and was answered %s instead of the zone's data", b.Reply.outcome())
	}
	// 4. a follow-up while the slot is still occupied: refused by a shed of its own, or answered
	if e := res.step("early"); e != nil && e.Parked == "" && !vkGoodAnswer(e.Reply, cs.bName(), cs.bType()) {
		if e.ShedG+e.ShedZ == 0 || e.Reply.hasEDE(dns.ExtendedErrorCodeCachedError) {
			bad(fmt.Sprintf("shed-followup-suppressed|quota=%s|when=held%s", cs.Quota, via),
				"a fresh client asking %s while A's lookup still held the slot was answered %s with %d upstream packets and without a shed of its own (shed global+%d zone+%d): it was served the failure an earlier client's capacity refusal left in shared state; store %s",
				e.Q, e.Reply.outcome(), e.Packets, e.ShedG, e.ShedZ, vkFailStr(e.Store))
		}
	}
	// 5. at quiescence everything resolves
	answered := map[string]bool{}
	for _, st := range res.Steps {
		qn := strings.ToLower(strings.SplitN(st.Q, "/", 2)[0])
		isFollow := strings.HasPrefix(st.Name, "C-")
		if isFollow {
			qt := dns.TypeA
			if st.Name == "C-question" {
				qt = cs.bType()
			}
			probe := strings.TrimPrefix(st.Name, "C-")
			if !vkGoodAnswer(st.Reply, qn, qt) {
				if st.Reply.Rcode == dns.RcodeServerFailure && (st.Reply.hasEDE(dns.ExtendedErrorCodeCachedError) || st.Packets == 0) {
					bad(fmt.Sprintf("shed-followup-suppressed|quota=%s|probe=%s%s", cs.Quota, probe, via),
						"at quiescence (every slot free) a fresh client asking %s was answered %s with %d upstream packets: served from a cached failure although nothing failed but this server's own load shedding; store %s",
						st.Q, st.Reply.outcome(), st.Packets, vkFailStr(st.Store))
				} else if st.Reply.Rcode == dns.RcodeServerFailure && st.ShedG+st.ShedZ == 0 && len(st.Store) > 0 && shed {
					// upstream traffic, no EDE 13 of its own, nothing refused — yet it failed, and the only thing that
					// is wrong anywhere is the failure state a capacity refusal left behind (e.g. the address lookup
					// of the zone's name server answered from a cached failure)
					bad(fmt.Sprintf("shed-followup-suppressed|quota=%s|probe=%s%s", cs.Quota, probe, via),
						"at quiescence (every slot free) a fresh client asking %s was answered %s after %d upstream packets {%s} although every authority answers and nothing was refused: a sub-lookup was served the failure a capacity refusal left in shared state; store %s",
						st.Q, st.Reply.outcome(), st.Packets, st.Path, vkFailStr(st.Store))
				} else if st.ShedG+st.ShedZ > 0 {
					bad(fmt.Sprintf("shed-at-quiescence|quota=%s|probe=%s%s", cs.Quota, probe, via),
						"at quiescence a fresh client asking %s was refused for lack of capacity (%s, shed global+%d zone+%d): a slot was never returned", st.Q, st.Reply.outcome(), st.ShedG, st.ShedZ)
				} else {
					res.Disturbed = fmt.Sprintf("follow-up %s answered %s with %d upstream packets", st.Q, st.Reply.outcome(), st.Packets)
				}
			} else if !answered[qn+"/"+dns.TypeToString[qt]] && !strings.Contains(st.Path, "<-"+qn+"/"+dns.TypeToString[qt]+"/") {
				res.Disturbed = fmt.Sprintf("follow-up %s got the zone's data without an upstream query although nobody had been answered that question before", st.Q)
			}
		}
		if st.Reply.Rcode == dns.RcodeSuccess && st.Reply.Writes == 1 {
			qt := "A"
			if (st.Name == "B" || st.Name == "early" || st.Name == "C-question") && cs.QType != "" {
				qt = cs.QType
			}
			answered[qn+"/"+qt] = true
		}
	}
}

// run repeats a disturbed history (machine hiccup, quota-bucket collision) on a new pipeline.
func (w *vkWorld) run(cs vkCase, fresh bool) (vkResult, error) {
	for try := 0; ; try++ {
		pl, err := w.pipe(cs, fresh || try > 0)
		if err != nil {
			return vkResult{}, err
		}
		res, err := w.runOnce(cs, pl)
		if fresh || try > 0 {
			defer pl.close()
		}
		if _, coll := err.(*vkErrCollision); coll {
			w.c.Add("bucket_collisions", 1)
			if !fresh && try == 0 {
				delete(w.pipes, cs.Quota+"/"+cs.Mode)
				pl.close()
			}
			if try < 5 {
				continue
			}
		}
		if err != nil {
			return res, err
		}
		if res.Disturbed == "" {
			return res, nil
		}
		w.c.Add("disturbed_reruns", 1)
		if try >= 3 {
			return res, &vkHarnessErr{fmt.Sprintf("case %s stayed disturbed: %s; history: %s", cs, res.Disturbed, res.history())}
		}
	}
}

// ---------------------------------------------------------------- enumeration

func vkCases(thorough bool) []vkCase {
	var out []vkCase
	modes := []string{""}
	qtypes := []string{""}
	if thorough {
		modes = []string{"", "enforce", "off"}
		qtypes = []string{"", "AAAA"}
	}
	// simplest first
	for _, mode := range modes {
		for _, qt := range qtypes {
			for _, warm := range []bool{false, true} {
				for _, order := range []string{"held", "early", "race", "after"} {
					for _, opt := range []string{"do", "opt", "none", "docd"} {
						for _, proto := range []string{"tcp", "udp"} {
							for _, b := range []string{"name", "zone2", "same", "glueless"} {
								for _, quota := range []string{"zone", "global"} {
									if b == "same" && (order == "early" || qt != "") {
										continue // a follower cannot return while A is held; its question is A's
									}
									out = append(out, vkCase{Quota: quota, B: b, Proto: proto, Opt: opt, Order: order, Warm: warm, Mode: mode, QType: qt})
								}
							}
						}
					}
				}
			}
		}
	}
	// controls with the production limits: nobody is ever refused
	for _, warm := range []bool{false, true} {
		for _, order := range []string{"held", "early", "race", "after"} {
			for _, b := range []string{"name", "zone2", "same", "glueless"} {
				if b == "same" && order == "early" {
					continue
				}
				out = append(out, vkCase{Quota: "none", B: b, Proto: "tcp", Opt: "do", Order: order, Warm: warm})
			}
		}
	}
	return out
}

func (w *vkWorld) report(cs vkCase, r vkResult, reported map[string]bool) error {
	for _, v := range r.Viol {
		if reported[v.Key] {
			w.c.Add("violating_cases_same_key", 1)
			continue
		}
		ok, msg, hist := true, v.Msg, r.history()
		for i := 0; i < 3 && ok; i++ {
			again, err := w.run(cs, true) // a fresh pipeline each time
			if err != nil {
				return err
			}
			ok = false
			for _, x := range again.Viol {
				if x.Key == v.Key {
					ok, msg = true, x.Msg
				}
			}
			hist = again.history()
		}
		if !ok {
			w.c.Add("dropped_unreproducible", 1)
			w.c.Note(fmt.Sprintf("dropped (not reproduced 3/3 on fresh pipelines): %s in %s: %s ||| the run that did not show it: %s", v.Key, cs, v.Msg, hist))
			continue
		}
		reported[v.Key] = true
		w.c.Violation(v.Key, fmt.Sprintf("%s — case %s (reproduced 3/3 on fresh pipelines). History: %s", msg, cs, hist), cs)
	}
	return nil
}

func TestVerifC13Shed(t *testing.T) {
	c := vkit.Init("C13/shed")
	defer c.Close()
	lab, err := vkNewLab()
	if err != nil {
		c.HarnessError(err.Error())
		return
	}
	defer lab.close()
	w := &vkWorld{lab: lab, c: c, pipes: map[string]*vkPipe{}}
	defer func() {
		for _, p := range w.pipes {
			p.close()
		}
	}()
	if c.Replay != nil {
		var cs vkCase
		if err := json.Unmarshal(c.Replay, &cs); err != nil {
			c.HarnessError("bad replay: " + err.Error())
			return
		}
		r, err := w.run(cs, true)
		if err != nil {
			c.HarnessError(err.Error())
			return
		}
		for _, v := range r.Viol {
			c.Violation(v.Key, v.Msg+" — history: "+r.history(), cs)
		}
		return
	}
	cases := vkCases(c.Thorough())
	c.Note(fmt.Sprintf("C13/shed: %d cases; upstream exchange timeout %v, query budget %v (neither fires in a run)", len(cases), vkNetTO, vkQueryTO))
	reported := map[string]bool{}
	capped := false
	for i, cs := range cases {
		if !c.Mine(i) {
			continue
		}
		if c.OverBudget() {
			capped = true
			break
		}
		r, err := w.run(cs, false)
		if err != nil {
			c.HarnessError(err.Error())
			return
		}
		c.Add("cases", 1)
		b := r.step("B")
		refused := b != nil && b.Reply.Rcode == dns.RcodeServerFailure && b.ShedG+b.ShedZ > 0
		var stores []string
		for _, st := range r.Steps {
			stores = append(stores, st.Name+"="+st.Reply.outcome()+vkFailStr(st.Store))
		}
		c.DistinctStr("states", cs.String()+"|"+strings.Join(stores, "|"))
		if refused || r.ShedG+r.ShedZ > 0 {
			c.DistinctStr("nontrivial", cs.String())
		}
		if refused {
			c.Add("refused_B", 1)
		}
		fo := []string{}
		for _, n := range []string{"early", "C-question", "C-sibling", "C-holder"} {
			if st := r.step(n); st != nil {
				o := dns.RcodeToString[st.Reply.Rcode]
				if len(st.Reply.EDE) > 0 {
					o += fmt.Sprintf("+ede%v", st.Reply.EDE)
				}
				fo = append(fo, n+"="+o)
			}
		}
		bo := "-"
		if b != nil {
			bo = dns.RcodeToString[b.Reply.Rcode]
			if len(b.Reply.EDE) > 0 {
				bo += fmt.Sprintf("+ede%v", b.Reply.EDE)
			}
			if b.Parked != "" {
				bo += " after waiting"
			}
		}
		c.Outcome(fmt.Sprintf("quota=%s b=%s order=%s warm=%v: B %s (shed global+%d zone+%d) %s violations=%d", cs.Quota, cs.B, cs.Order, cs.Warm, bo, r.ShedG, r.ShedZ, strings.Join(fo, " "), len(r.Viol)))
		if i%61 == 0 {
			c.Sample(map[string]any{"case": cs.String(), "history": r.history()})
		}
		if len(r.Viol) > 0 {
			c.Add("violating_cases", 1)
			if err := w.report(cs, r, reported); err != nil {
				c.HarnessError(err.Error())
				return
			}
		}
	}
	c.Add("pipelines_built", int64(lab.builds))
	if capped {
		c.Cap("time budget reached before every case was run")
	}
}

// TestVerifC13ShedSmoke prints cases (manual aid: VERIF_SMOKE=<substring of the case name>, "1" = all).
func TestVerifC13ShedSmoke(t *testing.T) {
	f := os.Getenv("VERIF_SMOKE")
	if f == "" {
		t.Skip()
	}
	c := vkit.Init("C13/shed-smoke")
	lab, err := vkNewLab()
	if err != nil {
		t.Fatal(err)
	}
	defer lab.close()
	w := &vkWorld{lab: lab, c: c, pipes: map[string]*vkPipe{}}
	t0 := time.Now()
	n := 0
	keys := map[string]int{}
	for _, cs := range vkCases(os.Getenv("VERIF_TIER") == "thorough") {
		if f != "1" && !strings.Contains(cs.String(), f) {
			continue
		}
		tc := time.Now()
		r, err := w.run(cs, os.Getenv("VERIF_FRESH") != "")
		n++
		if err != nil {
			fmt.Printf("%-46s ERROR %v\n", cs, err)
			continue
		}
		var ks []string
		for _, v := range r.Viol {
			ks = append(ks, v.Key)
			keys[v.Key]++
		}
		fmt.Printf("%-46s %6v shed g+%d z+%d viol=%v\n", cs, time.Since(tc).Round(100*time.Microsecond), r.ShedG, r.ShedZ, ks)
		if os.Getenv("VERIF_SMOKE_PATH") != "" {
			for _, st := range r.Steps {
				fmt.Printf("      %-11s %-22s -> %-34s parked=%q shed g+%d z+%d pk=%d store=%s held=%v\n         {%s}\n", st.Name, st.Q, st.Reply.outcome(), st.Parked, st.ShedG, st.ShedZ, st.Packets, vkFailStr(st.Store), st.Held, st.Path)
			}
			for _, v := range r.Viol {
				fmt.Println("      VIOL", v.Key, "::", v.Msg)
			}
		}
	}
	var kk []string
	for k := range keys {
		kk = append(kk, k)
	}
	sort.Strings(kk)
	for _, k := range kk {
		fmt.Printf("%5d  %s\n", keys[k], k)
	}
	fmt.Printf("%d cases in %v, %d pipelines built\n", n, time.Since(t0), lab.builds)
}
