//go:build verif

// Package h_c13shed is the harness of unit C13/shed: load shedding is a
// failure local to one request and must never become shared failure state
// (C13), and a capacity-refused resolution surfaces as SERVFAIL to that client
// only (C11).
//
// Machinery (this file). The REAL default sdns chain (... edns -> cache ->
// ... -> resolver ...; built exactly like h_rpipe builds it, never published)
// resolves against an authsim universe root -> t. -> {z1.t., z2.t., gl.t.} in
// which EVERY authority answers EVERY query correctly. The only thing that
// ever goes wrong in a run is the resolver's own load shedding: the capacity of
// the production limiters (global in-flight pool / per-zone quota) is forced
// to 1 through an export seam, client A's upstream query for a.z1.t. is HELD
// by its authority (a gate inside an authsim transformer: the reply is sent
// when the harness releases it), and while A's lookup occupies the only slot
// other clients ask.
//
// Exactness: "A's query is on the wire" is the gate's own observation (the
// authority has received it; the resolver's pools then show exactly one lookup
// and one zone reservation); a refused client returns synchronously; "released"
// is followed by waiting for the clients' return and for quiescence (every
// resolver pool empty, authority log stable). Nothing is judged on wall time;
// the 30 s safety timeouts are harness errors. The upstream exchange timeout
// (10 s) and the client query budget (40 s) never fire inside a run (checked).
package h_c13shed

import (
	"context"
	"fmt"
	"net"
	"os"
	"runtime"
	"strings"
	"sync"
	"sync/atomic"
	"time"

	"github.com/miekg/dns"
	"github.com/semihalev/sdns/config"
	"github.com/semihalev/sdns/internal/contextutil"
	"github.com/semihalev/sdns/internal/verifshim/authsim"
	"github.com/semihalev/sdns/internal/verifshim/zonemodel"
	"github.com/semihalev/sdns/middleware"
	"github.com/semihalev/sdns/middleware/cache"
	"github.com/semihalev/sdns/middleware/defaults"
	"github.com/semihalev/sdns/middleware/resolver"
	"github.com/semihalev/zlog/v2"
)

func init() {
	logger := zlog.NewStructured()
	logger.SetLevel(zlog.LevelFatal)
	zlog.SetDefault(logger)
}

const (
	vkSafety  = 30 * time.Second
	vkNetTO   = 10 * time.Second // upstream exchange timeout: never fires inside a run (checked)
	vkQueryTO = 40 * time.Second // client query budget: never fires inside a run
	vkSlowAsk = 2 * time.Second  // an un-held ask that takes this long was disturbed by the machine

	vkHeldZone  = "z1.t."
	vkHeldName  = "a.z1.t."
	vkOtherZone = "z2.t."
	vkGlueless  = "gl.t." // its only name server nsgl.z1.t. has its address in the held zone, no glue
)

var vkDebug = os.Getenv("VERIF_DEBUG") != ""

type vkHarnessErr struct{ msg string }

func (e *vkHarnessErr) Error() string { return e.msg }

// ------------------------------------------------------------ universe

// vkData: the A record every name of the universe publishes.
var vkData = map[string]string{}

func vkNewUniverse() *zonemodel.Universe {
	u := zonemodel.NewUniverse("c13shed")
	u.AddZone(zonemodel.ZoneSpec{Apex: ".", Mode: zonemodel.NSEC, Alg: zonemodel.AlgECDSAP256, NSAddr: "192.0.2.10"})
	u.AddZone(zonemodel.ZoneSpec{Apex: "t.", Mode: zonemodel.NSEC, Alg: zonemodel.AlgED25519, NSAddr: "192.0.2.11"})
	add := func(apex string, idx int, spec zonemodel.ZoneSpec) *zonemodel.Zone {
		spec.Apex, spec.Mode = apex, zonemodel.Unsigned
		z := u.AddZone(spec)
		for i, l := range []string{"a", "b", "c", "d"} {
			ip := fmt.Sprintf("10.13.%d.%d", idx, i+1)
			z.Add(l + " A " + ip)
			vkData[l+"."+apex] = ip
		}
		return z
	}
	z1 := add(vkHeldZone, 1, zonemodel.ZoneSpec{NSAddr: "192.0.2.21"})
	add(vkOtherZone, 2, zonemodel.ZoneSpec{NSAddr: "192.0.2.22"})
	add(vkGlueless, 3, zonemodel.ZoneSpec{NSHost: "nsgl." + vkHeldZone, NSAddr: "192.0.2.23"})
	z1.Add("nsgl A 192.0.2.23")
	u.Build()
	return u
}

// ------------------------------------------------------------ gate

// vkGate holds the reply to ONE query (the first a.z1.t./A that reaches
// z1.t.'s server after arm) until release. It lives inside an authsim
// transformer: authsim has logged the query before it calls the transformer.
type vkGate struct {
	mu      sync.Mutex
	armed   bool
	arrived chan struct{}
	release chan struct{}
	opened  bool
	late    atomic.Int64
}

func (g *vkGate) arm() {
	g.mu.Lock()
	g.armed, g.opened = true, false
	g.arrived, g.release = make(chan struct{}), make(chan struct{})
	g.mu.Unlock()
}

func (g *vkGate) open() {
	g.mu.Lock()
	if !g.opened && g.release != nil {
		g.opened = true
		close(g.release)
	}
	g.armed = false
	g.mu.Unlock()
}

func (g *vkGate) transformer() authsim.Transformer {
	return func(q authsim.Query, honest *dns.Msg) authsim.Action {
		g.mu.Lock()
		if !g.armed {
			g.mu.Unlock()
			return authsim.Action{}
		}
		g.armed = false
		arrived, release := g.arrived, g.release
		g.mu.Unlock()
		close(arrived)
		t := time.NewTimer(vkSafety)
		defer t.Stop()
		select {
		case <-release:
		case <-t.C:
			g.late.Add(1)
		}
		return authsim.Action{} // the honest answer, late
	}
}

// ------------------------------------------------------------ the system under test

type vkLab struct {
	u      *zonemodel.Universe
	sim    *authsim.Sim
	gate   *vkGate
	nextID atomic.Uint32
	builds int
}

func vkNewLab() (*vkLab, error) {
	u := vkNewUniverse()
	sim, err := authsim.Start(u)
	if err != nil {
		return nil, err
	}
	l := &vkLab{u: u, sim: sim, gate: &vkGate{}}
	l.nextID.Store(1000)
	return l, nil
}

func (l *vkLab) close() { l.gate.open(); l.sim.Close() }

type vkPipe struct {
	quota string
	cfg   *config.Config
	p     *middleware.Pipeline
	res   *resolver.DNSHandler
	cache *cache.Cache
	dir   string
}

// newPipe builds the production chain (same config as h_rpipe: DNSSEC on, no
// qname minimisation, no IPv6) and forces the limit named by quota to 1.
func (l *vkLab) newPipe(quota, mode string) (*vkPipe, error) {
	dir, err := os.MkdirTemp("", "vk-c13shed-")
	if err != nil {
		return nil, err
	}
	cfg := &config.Config{
		Bind:         "127.0.0.1:0",
		RootServers:  l.sim.RootAddrs(),
		DNSSEC:       "on",
		Maxdepth:     30,
		Expire:       600,
		CacheSize:    4096,
		RateLimit:    0,
		Prefetch:     0,
		CookieSecret: "6c6f6f6b61686172646c6f6f6b6168617264",
		Directory:    dir,
		BlockListDir: dir + "/bl",
		Nullroute:    "0.0.0.0",
		Nullroutev6:  "::0",
		RootKeys:     l.u.TrustAnchors(),
	}
	cfg.Timeout.Duration = vkNetTO
	cfg.QueryTimeout.Duration = vkQueryTO
	switch mode {
	case "", "shadow":
		cfg.RecursionFirewall.Mode = config.RecursionFirewallModeShadow
	case "enforce":
		cfg.RecursionFirewall.Mode = config.RecursionFirewallModeEnforce
	case "off":
		cfg.RecursionFirewall.Mode = config.RecursionFirewallModeOff
	default:
		return nil, fmt.Errorf("unknown firewall mode %q", mode)
	}
	middleware.Reset()
	defaults.Register()
	p := middleware.DefaultRegistry.Build(cfg)
	middleware.VerifAutoWire(p)
	middleware.Reset()
	res, _ := p.Get("resolver").(*resolver.DNSHandler)
	ch, _ := p.Get("cache").(*cache.Cache)
	if res == nil || ch == nil {
		return nil, fmt.Errorf("default chain lacks resolver/cache handler: %v", p.List())
	}
	resolver.VerifSetResolveTarget(res, l.sim.Remap)
	slots0, perZone0 := resolver.VerifShedLimits(res)
	switch quota {
	case "zone":
		resolver.VerifSetZoneQuota(res, 1)
	case "global":
		resolver.VerifSetResolutionSlots(res, 1)
	case "none":
	default:
		return nil, fmt.Errorf("unknown quota %q", quota)
	}
	slots, perZone := resolver.VerifShedLimits(res)
	if slots0 < 16 || perZone0 < 16 || (quota == "zone") != (perZone == 1) || (quota == "global") != (slots == 1) {
		return nil, fmt.Errorf("limits not as configured: NewResolver made %d/%d, now %d/%d for quota %s", slots0, perZone0, slots, perZone, quota)
	}
	l.builds++
	return &vkPipe{quota: quota, cfg: cfg, p: p, res: res, cache: ch, dir: dir}, nil
}

func (pl *vkPipe) handlerNames() []string {
	var n []string
	for _, h := range pl.p.Handlers() {
		n = append(n, h.Name())
	}
	return n
}

func (pl *vkPipe) close() {
	for _, h := range pl.p.Handlers() {
		if s, ok := h.(interface{ Stop() }); ok {
			s.Stop()
		}
	}
	if pl.dir != "" {
		_ = os.RemoveAll(pl.dir)
	}
}

func (pl *vkPipe) failures() []cache.VerifFailure { return cache.VerifFailureEntries(pl.cache) }

func (pl *vkPipe) inflight() (attempts, lookups, probes, v6 int) { return resolver.VerifInflight(pl.res) }

// settle: every resolver pool empty and the authority log unchanged over
// consecutive polls (h_rpipe.Settle). The loop ends on observed state.
func (l *vkLab) settle(pl *vkPipe) error {
	start := time.Now()
	stable, last := 0, -1
	for {
		a, lk, p, v := pl.inflight()
		n := l.sim.Count("")
		if a+lk+p+v == 0 && n == last {
			stable++
		} else {
			stable = 0
		}
		last = n
		if stable >= 3 {
			return nil
		}
		if time.Since(start) > vkSafety {
			return &vkHarnessErr{fmt.Sprintf("no quiescence within %v: attempts=%d lookups=%d probes=%d v6=%d", vkSafety, a, lk, p, v)}
		}
		time.Sleep(time.Millisecond)
	}
}

// ------------------------------------------------------------ clients

type vkTransport struct {
	proto  string
	remote net.Addr
	local  net.Addr
	msgs   []*dns.Msg
}

func (t *vkTransport) LocalAddr() net.Addr  { return t.local }
func (t *vkTransport) RemoteAddr() net.Addr { return t.remote }
func (t *vkTransport) WriteMsg(m *dns.Msg) error {
	b, err := m.Pack()
	if err != nil {
		t.msgs = append(t.msgs, m.Copy())
		return nil
	}
	_, err = t.Write(b)
	return err
}
func (t *vkTransport) Write(b []byte) (int, error) {
	m := new(dns.Msg)
	if err := m.Unpack(b); err != nil {
		t.msgs = append(t.msgs, nil)
		return len(b), nil
	}
	t.msgs = append(t.msgs, m)
	return len(b), nil
}
func (t *vkTransport) Close() error  { return nil }
func (t *vkTransport) Proto() string { return "" }

func vkNewTransport(proto, clientIP string) *vkTransport {
	ip := net.ParseIP(clientIP)
	if proto == "udp" {
		return &vkTransport{proto: proto, remote: &net.UDPAddr{IP: ip, Port: 40000}, local: &net.UDPAddr{IP: net.IPv4(192, 0, 2, 53), Port: 53}}
	}
	return &vkTransport{proto: proto, remote: &net.TCPAddr{IP: ip, Port: 40000}, local: &net.TCPAddr{IP: net.IPv4(192, 0, 2, 53), Port: 53}}
}

// query builds a client request. opt: none | opt | do | docd.
func (l *vkLab) query(qname string, qtype uint16, opt string) *dns.Msg {
	m := new(dns.Msg)
	m.Id = uint16(l.nextID.Add(1))
	m.RecursionDesired = true
	m.Question = []dns.Question{{Name: dns.Fqdn(qname), Qtype: qtype, Qclass: dns.ClassINET}}
	if opt != "none" {
		o := &dns.OPT{Hdr: dns.RR_Header{Name: ".", Rrtype: dns.TypeOPT}}
		o.SetUDPSize(1232)
		if opt == "do" || opt == "docd" {
			o.SetDo()
		}
		m.Extra = []dns.RR{o}
	}
	if opt == "docd" {
		m.CheckingDisabled = true
	}
	return m
}

// vkReply is what one client was handed.
type vkReply struct {
	Returned bool          `json:"returned"`
	Writes   int           `json:"writes"`
	Rcode    int           `json:"rcode"`
	TC       bool          `json:"tc,omitempty"`
	EDE      []uint16      `json:"ede,omitempty"`
	EDEText  []string      `json:"ede_text,omitempty"`
	A        []string      `json:"a,omitempty"`
	Elapsed  time.Duration `json:"elapsed"`
}

func (r vkReply) outcome() string {
	if !r.Returned {
		return "NO-RETURN"
	}
	if r.Writes != 1 {
		return fmt.Sprintf("writes=%d", r.Writes)
	}
	s := dns.RcodeToString[r.Rcode]
	if r.TC {
		s += "+tc"
	}
	if len(r.EDE) > 0 {
		s += fmt.Sprintf("+ede%v", r.EDE)
	}
	if len(r.A) > 0 {
		s += "(" + strings.Join(r.A, ",") + ")"
	}
	return s
}

func (r vkReply) hasEDE(code uint16) bool {
	for _, e := range r.EDE {
		if e == code {
			return true
		}
	}
	return false
}

// vkAskRun drives one request through the chain the way server.serveMsgBy does
// (lazy-deadline request context, NewChain, Reset, Next, PutChain, Cancel).
func vkAskRun(pl *vkPipe, clientIP string, req *dns.Msg, proto string) vkReply {
	t := vkNewTransport(proto, clientIP)
	start := time.Now()
	ctx := contextutil.WithLazyDeadline(context.Background(), start.Add(pl.cfg.QueryTimeout.Duration))
	ch := pl.p.NewChain()
	ch.Reset(t, req)
	ch.Next(ctx)
	pl.p.PutChain(ch)
	ctx.Cancel()
	r := vkReply{Returned: true, Writes: len(t.msgs), Elapsed: time.Since(start), Rcode: -1}
	if len(t.msgs) > 0 && t.msgs[len(t.msgs)-1] != nil {
		m := t.msgs[len(t.msgs)-1]
		r.Rcode, r.TC = m.Rcode, m.Truncated
		for _, rr := range m.Answer {
			if a, ok := rr.(*dns.A); ok {
				r.A = append(r.A, a.A.String())
			}
		}
		if o := m.IsEdns0(); o != nil {
			for _, e := range o.Option {
				if x, ok := e.(*dns.EDNS0_EDE); ok {
					r.EDE = append(r.EDE, x.InfoCode)
					r.EDEText = append(r.EDEText, x.ExtraText)
				}
			}
		}
	}
	return r
}

// vkClientA / vkClientB are goroutine entry points with their own frame names:
// the goroutine snapshot finds a client by them.
//
//go:noinline
func vkClientA(pl *vkPipe, ip string, req *dns.Msg, proto string, done chan<- vkReply) {
	done <- vkAskRun(pl, ip, req, proto)
}

//go:noinline
func vkClientB(pl *vkPipe, ip string, req *dns.Msg, proto string, done chan<- vkReply) {
	done <- vkAskRun(pl, ip, req, proto)
}

// ------------------------------------------------------------ goroutine snapshot (scheduling aid only)

var vkStackBuf = make([]byte, 1<<20)

// vkFindGoroutine returns the state and the innermost sdns frame of the
// goroutine whose stack contains marker.
func vkFindGoroutine(marker string) (state, inner string, found bool) {
	n := runtime.Stack(vkStackBuf, true)
	for n == len(vkStackBuf) {
		vkStackBuf = make([]byte, 2*len(vkStackBuf))
		n = runtime.Stack(vkStackBuf, true)
	}
	for _, blk := range strings.Split(string(vkStackBuf[:n]), "\n\n") {
		if !strings.Contains(blk, marker) {
			continue
		}
		nl := strings.IndexByte(blk, '\n')
		if nl < 0 || !strings.HasPrefix(blk, "goroutine ") {
			continue
		}
		head, body := blk[:nl], blk[nl+1:]
		lb, rb := strings.IndexByte(head, '['), strings.LastIndexByte(head, ']')
		if lb < 0 || rb < lb {
			continue
		}
		state = head[lb+1 : rb]
		if c := strings.IndexByte(state, ','); c >= 0 {
			state = state[:c]
		}
		for _, ln := range strings.Split(body, "\n") {
			if strings.HasPrefix(ln, "\t") || strings.HasPrefix(ln, "created by ") {
				continue
			}
			if strings.Contains(ln, "semihalev/sdns/") && !strings.Contains(ln, "verifshim/") {
				inner = ln
				if p := strings.LastIndexByte(inner, '('); p > 0 {
					inner = inner[:p]
				}
				if p := strings.LastIndexByte(inner, '/'); p >= 0 {
					inner = inner[p+1:]
				}
				break
			}
		}
		return state, inner, true
	}
	return "", "", false
}

// vkFollowerWait: the goroutine is parked where a request waits for ANOTHER
// request's result: the cache handler's dedup wait. (A request that resolves
// on its own never blocks there: it runs the rest of the chain in its own
// goroutine; in the resolver's singleflight both the leader and its followers
// wait in the same select, so that frame says nothing.)
func vkFollowerWait(state, inner string) bool {
	return state == "select" && strings.HasSuffix(inner, "cache.(*Cache).ServeDNS")
}
