// Package vkit is the harness-side reporting library: every harness test
// (compiled into a `go test -c` binary and run by /verif/vk in N shard
// processes) records what it explored through a Ctx, which writes ONE JSON
// object to $VERIF_OUT. The driver merges shards into evidence/<id>.json.
package vkit

import (
	"encoding/binary"
	"encoding/json"
	"fmt"
	"hash/fnv"
	"os"
	"sort"
	"strconv"
	"strings"
	"sync"
	"time"
)

// Violation is one property violation with a stable key (the specific failing
// input / call site / history) and a replay payload.
type Violation struct {
	Key     string `json:"key"`
	Message string `json:"message"`
	Replay  any    `json:"replay,omitempty"`
}

// Out is the JSON object one shard writes.
type Out struct {
	Unit       string           `json:"unit"`
	Shard      int              `json:"shard"`
	Of         int              `json:"of"`
	Tier       string           `json:"tier"`
	Counters   map[string]int64 `json:"counters"`
	Outcomes   map[string]int64 `json:"outcomes"`
	Samples    []any            `json:"samples"`
	Violations []Violation      `json:"violations"`
	Exhaustive bool             `json:"exhaustive"`
	Caps       []string         `json:"caps,omitempty"`
	HarnessErr string           `json:"harness_error,omitempty"`
	Notes      []string         `json:"notes,omitempty"`
	WallS      float64          `json:"wall_s"`
	Distinct   map[string]int   `json:"distinct"`
}

// Ctx is a per-process recorder (safe for concurrent use).
type Ctx struct {
	mu       sync.Mutex
	o        Out
	start    time.Time
	path     string
	distinct map[string]map[uint64]struct{}
	maxSamp  int
	deadline time.Time
	Replay   json.RawMessage // non-nil in replay mode
}

// Init reads the environment contract set by the driver.
func Init(unit string) *Ctx {
	c := &Ctx{start: time.Now(), path: os.Getenv("VERIF_OUT"), distinct: map[string]map[uint64]struct{}{}, maxSamp: 6}
	c.o = Out{Unit: unit, Tier: os.Getenv("VERIF_TIER"), Counters: map[string]int64{}, Outcomes: map[string]int64{}, Exhaustive: true, Of: 1, Distinct: map[string]int{}}
	if c.o.Tier == "" {
		c.o.Tier = "quick"
	}
	if s := os.Getenv("VERIF_SHARD"); s != "" {
		p := strings.Split(s, "/")
		if len(p) == 2 {
			c.o.Shard, _ = strconv.Atoi(p[0])
			c.o.Of, _ = strconv.Atoi(p[1])
		}
	}
	if c.o.Of < 1 {
		c.o.Of = 1
	}
	if s := os.Getenv("VERIF_BUDGET_S"); s != "" {
		if f, err := strconv.ParseFloat(s, 64); err == nil && f > 0 {
			c.deadline = c.start.Add(time.Duration(f * float64(time.Second)))
		}
	}
	if p := os.Getenv("VERIF_REPLAY"); p != "" {
		b, err := os.ReadFile(p)
		if err != nil {
			c.HarnessError("cannot read replay file: " + err.Error())
		} else {
			var w struct {
				Replay json.RawMessage `json:"replay"`
			}
			if json.Unmarshal(b, &w) == nil && len(w.Replay) > 0 {
				c.Replay = w.Replay
			} else {
				c.Replay = b
			}
		}
	}
	return c
}

func (c *Ctx) Quick() bool    { return c.o.Tier != "thorough" }
func (c *Ctx) Thorough() bool { return c.o.Tier == "thorough" }
func (c *Ctx) Shard() int     { return c.o.Shard }
func (c *Ctx) Of() int        { return c.o.Of }

// Mine reports whether work item i belongs to this shard.
func (c *Ctx) Mine(i int) bool { return c.o.Of <= 1 || i%c.o.Of == c.o.Shard }

// OverBudget reports whether the internal time cap was hit; callers stop, and
// the run is recorded as not exhaustive (exit 0, never a violation).
func (c *Ctx) OverBudget() bool {
	if c.deadline.IsZero() {
		return false
	}
	return time.Now().After(c.deadline)
}

func (c *Ctx) Add(name string, n int64) {
	c.mu.Lock()
	c.o.Counters[name] += n
	c.mu.Unlock()
}

func (c *Ctx) Max(name string, n int64) {
	c.mu.Lock()
	if n > c.o.Counters[name] {
		c.o.Counters[name] = n
	}
	c.mu.Unlock()
}

// Outcome counts a distinct observable outcome label (bounded label set).
func (c *Ctx) Outcome(label string) {
	c.mu.Lock()
	if _, ok := c.o.Outcomes[label]; ok || len(c.o.Outcomes) < 4000 {
		c.o.Outcomes[label]++
	} else {
		c.o.Outcomes["<other>"]++
	}
	c.mu.Unlock()
}

// Distinct records a digest in a named set; set sizes are unioned across shards by the driver.
func (c *Ctx) Distinct(set string, digest uint64) bool {
	c.mu.Lock()
	m := c.distinct[set]
	if m == nil {
		m = map[uint64]struct{}{}
		c.distinct[set] = m
	}
	_, seen := m[digest]
	if !seen {
		m[digest] = struct{}{}
	}
	c.mu.Unlock()
	return !seen
}

// DistinctStr hashes s with FNV-1a 64.
func (c *Ctx) DistinctStr(set, s string) bool { return c.Distinct(set, Hash(s)) }

func Hash(s string) uint64 {
	h := fnv.New64a()
	h.Write([]byte(s))
	return h.Sum64()
}

func (c *Ctx) Sample(v any) {
	c.mu.Lock()
	if len(c.o.Samples) < c.maxSamp {
		c.o.Samples = append(c.o.Samples, v)
	}
	c.mu.Unlock()
}

func (c *Ctx) Note(s string) {
	c.mu.Lock()
	if len(c.o.Notes) < 50 {
		c.o.Notes = append(c.o.Notes, s)
	}
	c.mu.Unlock()
}

// Violation records a violation (at most 40 kept per shard; all are counted).
func (c *Ctx) Violation(key, msg string, replay any) {
	c.mu.Lock()
	c.o.Counters["violations_total"]++
	dup := false
	for _, v := range c.o.Violations {
		if v.Key == key {
			dup = true
			break
		}
	}
	if !dup && len(c.o.Violations) < 40 {
		c.o.Violations = append(c.o.Violations, Violation{Key: key, Message: msg, Replay: replay})
	}
	c.mu.Unlock()
}

func (c *Ctx) NumViolations() int {
	c.mu.Lock()
	defer c.mu.Unlock()
	return len(c.o.Violations)
}

// Cap records that an internal cap was hit: the run is not exhaustive.
func (c *Ctx) Cap(reason string) {
	c.mu.Lock()
	c.o.Exhaustive = false
	for _, x := range c.o.Caps {
		if x == reason {
			c.mu.Unlock()
			return
		}
	}
	c.o.Caps = append(c.o.Caps, reason)
	c.mu.Unlock()
}

// HarnessError marks the run as broken machinery (driver exits 2, never VIOLATION).
func (c *Ctx) HarnessError(msg string) {
	c.mu.Lock()
	if c.o.HarnessErr == "" {
		c.o.HarnessErr = msg
	}
	c.mu.Unlock()
}

// Close writes the result object.
func (c *Ctx) Close() {
	c.mu.Lock()
	defer c.mu.Unlock()
	c.o.WallS = time.Since(c.start).Seconds()
	names := make([]string, 0, len(c.distinct))
	for k := range c.distinct {
		names = append(names, k)
	}
	sort.Strings(names)
	for _, k := range names {
		c.o.Distinct[k] = len(c.distinct[k])
		if c.path != "" {
			buf := make([]byte, 0, 8*len(c.distinct[k]))
			for d := range c.distinct[k] {
				buf = binary.LittleEndian.AppendUint64(buf, d)
			}
			_ = os.WriteFile(c.path+".distinct."+k, buf, 0o644)
		}
	}
	b, err := json.Marshal(c.o)
	if err != nil {
		b = []byte(fmt.Sprintf(`{"unit":%q,"harness_error":%q}`, c.o.Unit, "marshal: "+err.Error()))
	}
	if c.path == "" {
		fmt.Println(string(b))
		return
	}
	_ = os.WriteFile(c.path, b, 0o644)
}

// FreeRun reports whether this is the separate free-running (-race) pass.
func FreeRun() bool { return os.Getenv("VERIF_FREE") != "" }
