#!/usr/bin/env python3
"""Regenerates MANIFEST.json from checks.py (single source of truth) and validates it."""
import json, os, sys
sys.path.insert(0, os.path.dirname(os.path.abspath(__file__)))
from checks import CHECKS, NOT_APPLICABLE, CLAIMED
ALL = ["C%02d" % i for i in range(1, 21)]
m = {
 "version": 1,
 "setup_cmd": "./vk setup",
 "hooks": {
  "guard": "verif",
  "enable": "every hook is injected with `go test -c -tags verif -overlay <generated>`: import-rewritten copies of sdns sources (sync->vsync, sync/atomic->vatomic, time->vtime, os->vos), virtual packages under internal/verifshim/, in-package zz_verif_*_test.go harnesses, and textual overlay patches of the build copy (vk unit key `patch`, used by C10/txsched: `sched.IOPoint` scheduling points immediately before the UDP engine's send calls in server/udp_batch_linux.go and server/udp_engine.go; by C13/probe: one `sched.Block` statement in front of the follower's bare select in middleware/cache/cache.go; and by C12/metering: one-line operation counters (`vkcount.Bump`) at the entry of the DS-digest, signature-verification and NSEC3-hash primitives of middleware/resolver/dnssec; an anchor that does not match exactly once fails the build); nothing is committed to /repo",
  "baseline_off_cmd": "cd /repo && go test -mod=mod -json -vet=off -count=1 -timeout 25m ./...",
  "source_commits": [],
  "add_only": True,
 },
 "engines": [
  {"name": "sched", "path": "lib/sched", "kind_free_text": "controlled cooperative scheduler + iterative preemption-bounded DFS over the real code (vsync/vatomic shims)", "serves_properties": sorted(p for p, c in CHECKS.items() if p in CLAIMED and "sched" in c.get("engines", []))},
  {"name": "space", "path": "harness/*", "kind_free_text": "explicit-state BFS / bounded-exhaustive enumeration over real objects, lock-step against Go reference models", "serves_properties": sorted(p for p, c in CHECKS.items() if p in CLAIMED and "space" in c.get("engines", []))},
  {"name": "crashfs", "path": "lib/crashfs", "kind_free_text": "crash-point (every prefix / dropped-unsynced subsets) and k-th-operation fault enumeration over the real persistence path via the vos shim", "serves_properties": sorted(p for p, c in CHECKS.items() if p in CLAIMED and "crashfs" in c.get("engines", []))},
  {"name": "authsim", "path": "lib/authsim", "kind_free_text": "scripted DNS universe (zone model + loopback authoritative servers with per-response transformers)", "serves_properties": sorted(p for p, c in CHECKS.items() if p in CLAIMED and "authsim" in c.get("engines", []))},
 ],
 "checks": [],
 "not_applicable": [],
 "notes": "All checks: ./vk check <ID> --tier quick|thorough. Exit 0 held / 1 VIOLATION / 2 broken machinery. KNOWN_FINDINGS.json lists recorded genuine defects.",
}
for pid in ALL:
    if pid in CHECKS and pid in CLAIMED:
        c = CHECKS[pid]
        m["checks"].append({
            "property_id": pid,
            "quick_cmd": "./vk check %s --tier quick" % pid,
            "thorough_cmd": "./vk check %s --tier thorough" % pid,
            "evidence_file": "/verif/evidence/%s.json" % pid,
            "replay_cmd_template": "./vk replay {path}",
            "engine": "+".join(c.get("engines", [])),
            "level_claimed": {"category": c["level"], "text": c["level_text"], "design_ref": c.get("design_ref", "DESIGN.md §4 " + pid)},
            "level_note": c["level_note"],
            "technique": c["technique"],
        })
    else:
        m["not_applicable"].append({"property_id": pid, "reason": NOT_APPLICABLE.get(pid, "check not built yet (time)")})
json.dump(m, open(os.path.join(os.path.dirname(os.path.abspath(__file__)), "MANIFEST.json"), "w"), indent=1)
try:
    import jsonschema
    jsonschema.validate(m, json.load(open("/root/.vp/MANIFEST.schema.json")))
    print("MANIFEST.json valid; %d checks, %d not_applicable" % (len(m["checks"]), len(m["not_applicable"])))
except ImportError:
    print("MANIFEST.json written (jsonschema not available to validate)")
