//go:build verif

package middleware

// Export seam for C12/topo (overlay-injected, never part of a normal build):
// lifecycle of one request tree's work ledger. Read-only.

// VerifLedgerState reports the ledger's outstanding references (root owner +
// retained detached jobs) and whether it has been published (root finished and
// every retained job released).
func VerifLedgerState(l *RecursionWorkLedger) (refs int64, finished bool) {
	if l == nil {
		return 0, true
	}
	return l.refs.Load(), l.finished.Load()
}
