//go:build verif

package middleware

// C10/lease — the wire-body lease a reply is built in never exposes the bytes
// a previous reply left in the transport's (reused) job slab. For every body
// size and reserve in a range, BeginWire over a leasing transport whose slab
// is filled with another client's marker bytes must return a zero-length
// slice whose capacity is exactly size+reserve (so reading up to cap, or
// appending past the reserve, meets a boundary instead of the old bytes), and
// what reaches the transport after CommitWire is exactly the body.

import (
	"bytes"
	"encoding/json"
	"fmt"
	"testing"

	"github.com/miekg/dns"
	"github.com/semihalev/sdns/internal/verifshim/vkit"
)

type vkLeaseCase struct {
	Size    int `json:"size"`
	Reserve int `json:"reserve"`
	Slab    int `json:"slab"`
}

func vkRunLeaseCase(lc vkLeaseCase) (string, string) {
	marker := []byte("OTHER-CLIENT-SECRET-")
	lt := &vkLeasingTransport{}
	lt.slab = bytes.Repeat(marker, lc.Slab/len(marker)+1)[:lc.Slab]
	req := new(dns.Msg)
	req.SetQuestion("lease.c10.test.", dns.TypeA)
	ch := NewChain(nil)
	ch.Reset(lt, req)
	ch.AllowDirectPack()
	w := ch.Writer.(*responseWriter)
	buf := w.BeginWire(lc.Size, lc.Reserve)
	need := lc.Size + lc.Reserve
	if need > lc.Slab {
		// the transport declines: the writer must fall back to a fresh buffer
		if buf == nil {
			return "", "declined"
		}
		if len(buf) != 0 || cap(buf) < need {
			return fmt.Sprintf("BeginWire(%d,%d) over a %d-byte slab returned len=%d cap=%d", lc.Size, lc.Reserve, lc.Slab, len(buf), cap(buf)), "bad"
		}
		if bytes.Contains(buf[:cap(buf)], marker[:8]) {
			return fmt.Sprintf("BeginWire(%d,%d): fallback buffer exposes slab bytes", lc.Size, lc.Reserve), "bad"
		}
		return "", "fallback"
	}
	if buf == nil {
		return fmt.Sprintf("BeginWire(%d,%d) declined although the %d-byte slab fits", lc.Size, lc.Reserve, lc.Slab), "bad"
	}
	if len(buf) != 0 || cap(buf) != need {
		return fmt.Sprintf("BeginWire(%d,%d) returned len=%d cap=%d, want 0/%d: %d bytes of the previous tenant are readable/writable past the lease",
			lc.Size, lc.Reserve, len(buf), cap(buf), need, cap(buf)-need), "bad"
	}
	body := append(buf, bytes.Repeat([]byte{0x5a}, lc.Size)...)
	// a wrapper appending its reserve and then one byte too many must reallocate, not run into the slab
	grown := append(body, bytes.Repeat([]byte{0x6b}, lc.Reserve+1)...)
	if lc.Slab > need && lt.slab[need] == 0x6b {
		return fmt.Sprintf("BeginWire(%d,%d): appending past the reserve wrote into the job slab", lc.Size, lc.Reserve), "bad"
	}
	_ = grown
	if err := w.CommitWire(body, WireInfo{}); err != nil {
		return "CommitWire failed: " + err.Error(), "bad"
	}
	if len(lt.payloads) != 1 || len(lt.payloads[0]) != lc.Size || bytes.Contains(lt.payloads[0], marker[:8]) {
		return fmt.Sprintf("BeginWire(%d,%d): transport received %d payloads / foreign bytes in the reply", lc.Size, lc.Reserve, len(lt.payloads)), "bad"
	}
	return "", "leased"
}

func TestVerifC10Lease(t *testing.T) {
	c := vkit.Init("C10/lease")
	defer c.Close()
	if c.Replay != nil {
		var lc vkLeaseCase
		if err := json.Unmarshal(c.Replay, &lc); err != nil {
			c.HarnessError("bad replay: " + err.Error())
			return
		}
		if v, _ := vkRunLeaseCase(lc); v != "" {
			c.Violation(fmt.Sprintf("lease:size=%d,reserve=%d,slab=%d", lc.Size, lc.Reserve, lc.Slab), v, nil)
		}
		return
	}
	maxSize := 600
	if c.Thorough() {
		maxSize = 4200
	}
	i := 0
	for _, slab := range []int{512, 4096} {
		for size := 12; size <= maxSize; size++ {
			i++
			if !c.Mine(i) {
				continue
			}
			for _, reserve := range []int{0, 1, 11, 28, 64} {
				lc := vkLeaseCase{Size: size, Reserve: reserve, Slab: slab}
				v, out := vkRunLeaseCase(lc)
				c.Add("evaluations", 1)
				c.Add("traces", 1)
				c.Add("transitions", 2)
				c.Outcome(out)
				c.DistinctStr("states", fmt.Sprintf("%s|%d|%d", out, slab, reserve))
				if out == "leased" {
					c.DistinctStr("nontrivial", fmt.Sprintf("%d|%d|%d", slab, size, reserve))
				}
				if v != "" {
					if v2, _ := vkRunLeaseCase(lc); v2 != v {
						c.HarnessError("lease violation did not reproduce")
						return
					}
					c.Violation(fmt.Sprintf("lease:size=%d,reserve=%d,slab=%d", lc.Size, lc.Reserve, lc.Slab), v, lc)
				}
			}
		}
	}
}
