//go:build verif

package middleware

// C11/writer — the base responseWriter emits at most one reply per request.
// Every sequence of <= 3 (quick) / 5 (thorough) operations from
// {WriteMsg, Write(raw), Write(undecodable raw), WriteWire,
//  BeginWire+CommitWire, BeginWire+AbortWire}
// is applied to one chain-owned writer over a counting transport, in every
// configuration {directPack on/off} x {transport offers LeaseWire or not} x
// {transport succeeds / fails every send}, lock-step against a one-bit model.

import (
	"encoding/json"
	"errors"
	"fmt"
	"net"
	"strings"
	"testing"

	"github.com/miekg/dns"
	"github.com/semihalev/sdns/internal/verifshim/vkit"
)

var vkErrSend = errors.New("vk: transport send failed")

// vkCountingTransport records every payload the writer hands it.
type vkCountingTransport struct {
	payloads [][]byte // packed bytes of every send attempt
	kinds    []string // "Write" / "WriteMsg"
	fail     bool
	slab     []byte // when non-nil the transport implements LeaseWire
	leases   int
}

func (t *vkCountingTransport) LocalAddr() net.Addr {
	return &net.UDPAddr{IP: net.IPv4(127, 0, 0, 1), Port: 53}
}
func (t *vkCountingTransport) RemoteAddr() net.Addr {
	return &net.UDPAddr{IP: net.IPv4(198, 51, 100, 7), Port: 4000}
}
func (t *vkCountingTransport) Close() error { return nil }
func (t *vkCountingTransport) Write(b []byte) (int, error) {
	t.payloads = append(t.payloads, append([]byte{}, b...))
	t.kinds = append(t.kinds, "Write")
	if t.fail {
		return 0, vkErrSend
	}
	return len(b), nil
}
func (t *vkCountingTransport) WriteMsg(m *dns.Msg) error {
	b, err := m.Pack()
	if err != nil {
		return err
	}
	t.payloads = append(t.payloads, b)
	t.kinds = append(t.kinds, "WriteMsg")
	if t.fail {
		return vkErrSend
	}
	return nil
}

// vkLeasingTransport adds job-slab leasing (as udpJob/tcpJob do).
type vkLeasingTransport struct{ vkCountingTransport }

func (t *vkLeasingTransport) LeaseWire(capacity int) []byte {
	t.leases++
	if capacity > len(t.slab) {
		return nil
	}
	return t.slab[:0]
}

type vkWOp int

const (
	vkWMsg vkWOp = iota
	vkWRaw
	vkWRawBad
	vkWWire
	vkWCommit
	vkWAbort
	vkWOps
)

var vkWOpNames = []string{"WriteMsg", "Write", "Write(bad)", "WriteWire", "Begin+Commit", "Begin+Abort"}

type vkWCase struct {
	Ops        []vkWOp `json:"ops"`
	DirectPack bool    `json:"direct_pack"`
	Leaser     bool    `json:"leaser"`
	Fail       bool    `json:"fail"`
}

func (c vkWCase) String() string {
	s := make([]string, len(c.Ops))
	for i, o := range c.Ops {
		s[i] = vkWOpNames[o]
	}
	return fmt.Sprintf("[%s] directPack=%v leaser=%v failingTransport=%v", strings.Join(s, ","), c.DirectPack, c.Leaser, c.Fail)
}

func vkWReply(req *dns.Msg, marker int) *dns.Msg {
	m := new(dns.Msg)
	m.SetReply(req)
	m.Answer = []dns.RR{&dns.A{Hdr: dns.RR_Header{Name: req.Question[0].Name, Rrtype: dns.TypeA, Class: dns.ClassINET, Ttl: 60},
		A: net.IPv4(10, 11, 0, byte(marker)).To4()}}
	return m
}

func vkWMarker(b []byte) int {
	m := new(dns.Msg)
	if err := m.Unpack(b); err != nil || len(m.Answer) != 1 {
		return -1
	}
	a, ok := m.Answer[0].(*dns.A)
	if !ok {
		return -1
	}
	return int(a.A.To4()[3])
}

// vkRunWriterCase returns "" or the violation, plus an outcome label.
func vkRunWriterCase(c vkWCase) (string, string) {
	req := new(dns.Msg)
	req.SetQuestion("one.reply.test.", dns.TypeA)
	req.Id = 0x1234
	var tr Transport
	var ct *vkCountingTransport
	if c.Leaser {
		lt := &vkLeasingTransport{}
		lt.slab = make([]byte, 2048)
		lt.fail = c.Fail
		tr, ct = lt, &lt.vkCountingTransport
	} else {
		ct = &vkCountingTransport{fail: c.Fail}
		tr = ct
	}
	ch := NewChain(nil)
	ch.Reset(tr, req)
	if c.DirectPack {
		ch.AllowDirectPack()
	}
	w, ok := ch.Writer.(*responseWriter)
	if !ok {
		return "chain writer is not the base responseWriter", "harness"
	}
	written := false // the model
	first := -1      // marker of the reply that must be the only payload
	var trace []string
	for i, op := range c.Ops {
		marker := i + 1
		resp := vkWReply(req, marker)
		raw, err := resp.Pack()
		if err != nil {
			return "harness: cannot pack reply: " + err.Error(), "harness"
		}
		before := len(ct.payloads)
		var opErr error
		refused := false
		switch op {
		case vkWMsg:
			opErr = w.WriteMsg(resp)
		case vkWRaw:
			_, opErr = w.Write(raw)
		case vkWRawBad:
			_, opErr = w.Write([]byte{0x12, 0x34, 0x80}) // shorter than a header: undecodable
		case vkWWire:
			opErr = w.WriteWire(raw, WireInfo{Rcode: dns.RcodeSuccess})
		case vkWCommit, vkWAbort:
			buf := w.BeginWire(len(raw), 11)
			if buf == nil {
				refused = true
				opErr = errAlreadyWritten
				break
			}
			if len(buf) != 0 || cap(buf) != len(raw)+11 {
				return fmt.Sprintf("%s: step %d BeginWire(%d,11) returned len=%d cap=%d, want len 0 cap %d", c, i, len(raw), len(buf), cap(buf), len(raw)+11), "lease-shape"
			}
			if op == vkWAbort {
				w.AbortWire()
			} else {
				opErr = w.CommitWire(append(buf, raw...), WireInfo{Rcode: dns.RcodeSuccess})
			}
		}
		sent := len(ct.payloads) - before
		trace = append(trace, fmt.Sprintf("%s->sent=%d,err=%v", vkWOpNames[op], sent, opErr))
		where := fmt.Sprintf("%s: step %d (%s)", c, i, vkWOpNames[op])
		if written {
			if sent != 0 {
				return fmt.Sprintf("%s reached the transport although a reply was already written (second reply) [%s]", where, strings.Join(trace, " ")), "double"
			}
			if opErr == nil && op != vkWAbort {
				return fmt.Sprintf("%s was accepted (nil error) although a reply was already written [%s]", where, strings.Join(trace, " ")), "accepted"
			}
			if (op == vkWCommit || op == vkWAbort) && !refused {
				return fmt.Sprintf("%s: BeginWire leased a buffer although a reply was already written [%s]", where, strings.Join(trace, " ")), "lease-after-write"
			}
			continue
		}
		switch op {
		case vkWRawBad:
			if sent != 0 || opErr == nil {
				return fmt.Sprintf("%s: undecodable bytes were sent/accepted (sent=%d err=%v)", where, sent, opErr), "bad-sent"
			}
		case vkWAbort:
			if sent != 0 {
				return fmt.Sprintf("%s: an aborted lease sent %d payload(s)", where, sent), "abort-sent"
			}
		default:
			if sent != 1 {
				return fmt.Sprintf("%s: first reply produced %d transport sends, want exactly 1 [%s]", where, sent, strings.Join(trace, " ")), "first-count"
			}
			if (opErr != nil) != c.Fail {
				return fmt.Sprintf("%s: error %v does not reflect the transport (failing=%v)", where, opErr, c.Fail), "err-mismatch"
			}
			written = true
			first = marker
		}
		if w.Written() != written {
			return fmt.Sprintf("%s: Written()=%v, model says %v", where, w.Written(), written), "written-flag"
		}
	}
	want := 0
	if written {
		want = 1
	}
	if len(ct.payloads) != want {
		return fmt.Sprintf("%s: transport received %d payloads in total, want %d [%s]", c, len(ct.payloads), want, strings.Join(trace, " ")), "total"
	}
	if written {
		if got := vkWMarker(ct.payloads[0]); got != first {
			return fmt.Sprintf("%s: the payload on the wire carries marker %d, the first successful write had %d", c, got, first), "wrong-payload"
		}
		if id := uint16(ct.payloads[0][0])<<8 | uint16(ct.payloads[0][1]); id != req.Id {
			return fmt.Sprintf("%s: reply ID %#x != query ID %#x", c, id, req.Id), "wrong-id"
		}
	}
	// The chain is recycled for the next client: its first write must be
	// accepted, reach only the new transport, and the old one stays silent.
	ch.Finish()
	next := &vkCountingTransport{}
	req2 := new(dns.Msg)
	req2.SetQuestion("next.client.test.", dns.TypeA)
	req2.Id = 0x4321
	ch.Reset(next, req2)
	w2 := ch.Writer.(*responseWriter)
	if w2.Written() {
		return fmt.Sprintf("%s: recycled writer reports Written() before any write", c), "recycled-written"
	}
	if err := w2.WriteMsg(vkWReply(req2, 99)); err != nil {
		return fmt.Sprintf("%s: recycled writer refused the next client's reply: %v", c, err), "recycled-refused"
	}
	if len(next.payloads) != 1 || vkWMarker(next.payloads[0]) != 99 || len(ct.payloads) != want {
		return fmt.Sprintf("%s: after recycling: new transport got %d payloads, old transport %d (want 1 and %d)", c, len(next.payloads), len(ct.payloads), want), "recycled-count"
	}
	return "", fmt.Sprintf("written=%v first=%d kind=%s", written, first, strings.Join(ct.kinds, "+"))
}

func vkWriterSeqs(maxLen int) [][]vkWOp {
	var out [][]vkWOp
	var rec func(cur []vkWOp)
	rec = func(cur []vkWOp) {
		if len(cur) > 0 {
			out = append(out, append([]vkWOp{}, cur...))
		}
		if len(cur) == maxLen {
			return
		}
		for o := vkWOp(0); o < vkWOps; o++ {
			rec(append(cur, o))
		}
	}
	rec(nil)
	// shortest first
	var sorted [][]vkWOp
	for l := 1; l <= maxLen; l++ {
		for _, s := range out {
			if len(s) == l {
				sorted = append(sorted, s)
			}
		}
	}
	return sorted
}

func TestVerifC11Writer(t *testing.T) {
	c := vkit.Init("C11/writer")
	defer c.Close()
	if c.Replay != nil {
		var wc vkWCase
		if err := json.Unmarshal(c.Replay, &wc); err != nil {
			c.HarnessError("bad replay: " + err.Error())
			return
		}
		if v, _ := vkRunWriterCase(wc); v != "" {
			c.Violation("writer:"+wc.String(), v, nil)
		}
		return
	}
	maxLen := 3
	if c.Thorough() {
		maxLen = 5
	}
	seqs := vkWriterSeqs(maxLen)
	for i, ops := range seqs {
		if !c.Mine(i) {
			continue
		}
		for cfg := 0; cfg < 8; cfg++ {
			wc := vkWCase{Ops: ops, DirectPack: cfg&1 != 0, Leaser: cfg&2 != 0, Fail: cfg&4 != 0}
			v, out := vkRunWriterCase(wc)
			c.Add("evaluations", 1)
			c.Add("traces", 1)
			c.Add("transitions", int64(len(ops)))
			c.Outcome(out)
			c.DistinctStr("states", fmt.Sprintf("%v|%s", cfg, out))
			if len(ops) >= 2 {
				c.DistinctStr("nontrivial", wc.String())
			}
			if v != "" {
				if v2, _ := vkRunWriterCase(wc); v2 != v {
					c.HarnessError("writer violation did not reproduce: " + v + " vs " + v2)
					return
				}
				c.Violation("writer:"+wc.String(), v, wc)
			}
		}
		if i%97 == 0 {
			c.Sample(map[string]any{"ops": vkWCase{Ops: ops}.String()})
		}
	}
}
