//go:build verif

package middleware

// Export seams for cross-package verification harnesses (overlay-injected,
// never part of a normal build).

// VerifNewPipeline builds a Pipeline over the given handlers exactly as
// Registry.Build does (own chain pool, work policy).
func VerifNewPipeline(handlers []Handler, policy RecursionWorkPolicy) *Pipeline {
	byName := make(map[string]Handler, len(handlers))
	names := make([]string, 0, len(handlers))
	for _, h := range handlers {
		byName[h.Name()] = h
		names = append(names, h.Name())
	}
	return newPipeline(handlers, byName, names, policy)
}

// VerifAutoWire runs the pipeline's auto-wiring (queryers, stores, limiters).
func VerifAutoWire(p *Pipeline) { p.autoWire() }
