//go:build verif

package middleware

// C12 (primitives) — bounded work per request: the request-tree work ledger and
// the RFC 9520 attempt guard never admit more than their limits, under every
// interleaving of concurrent debits (controlled scheduler over the real code
// compiled against vsync/vatomic) and over every begin sequence that crosses
// the guard's 8-slot -> overflow-map boundary (explicit-state BFS).

import (
	"encoding/json"
	"fmt"
	"sort"
	"strings"
	"testing"

	"github.com/miekg/dns"
	"github.com/semihalev/sdns/internal/verifshim/sched"
	"github.com/semihalev/sdns/internal/verifshim/vkit"
)

type vkLOp struct {
	Op   string `json:"op"` // debit, best, retain, finish, read, begin
	Kind int    `json:"kind,omitempty"`
	T    int    `json:"t,omitempty"` // begin: tuple index
}

func (o vkLOp) String() string {
	switch o.Op {
	case "debit", "best":
		return fmt.Sprintf("%s(k%d)", o.Op, o.Kind)
	case "begin":
		return fmt.Sprintf("begin(t%d)", o.T)
	}
	return o.Op
}

type vkLScenario struct {
	Name    string    `json:"name"`
	Mode    int       `json:"mode"` // RecursionWorkMode
	Limit   uint32    `json:"limit"`
	Threads [][]vkLOp `json:"threads"`
}

func (s vkLScenario) String() string {
	var b strings.Builder
	fmt.Fprintf(&b, "mode=%d limit=%d", s.Mode, s.Limit)
	for i, t := range s.Threads {
		ops := make([]string, len(t))
		for j, o := range t {
			ops[j] = o.String()
		}
		fmt.Fprintf(&b, " T%d=[%s]", i, strings.Join(ops, " "))
	}
	return b.String()
}

type vkLRes struct {
	T   int
	Op  vkLOp
	Err bool
}

func vkLedgerScenario(sc vkLScenario) sched.Scenario {
	return func(r *sched.Run) func() (string, string) {
		pol := RecursionWorkPolicy{Mode: RecursionWorkMode(sc.Mode), MaxOutboundQueries: sc.Limit, MaxInternalQueries: sc.Limit,
			MaxDNSKEYCandidates: sc.Limit, MaxRRsetSignatureChecks: sc.Limit, MaxSignatureChecks: sc.Limit, MaxDSDigests: sc.Limit,
			MaxNSEC3Hashes: sc.Limit, MaxConcurrentCrypto: sc.Limit}
		l := NewRecursionWorkLedger(pol)
		guard := NewResolutionAttemptGuard()
		var results []vkLRes
		var releases []func()
		finishCalls := 0
		monitorMsg := ""
		r.Monitor = func() string {
			if n := l.refs.Peek(); n < 0 {
				return fmt.Sprintf("ledger reference count went negative (%d)", n)
			}
			if sc.Mode == int(RecursionWorkEnforce) {
				if l.outbound.Peek() > sc.Limit || l.internal.Peek() > sc.Limit {
					return fmt.Sprintf("accepted work exceeds the limit mid-flight: outbound=%d internal=%d limit=%d", l.outbound.Peek(), l.internal.Peek(), sc.Limit)
				}
			}
			return monitorMsg
		}
		for ti, ops := range sc.Threads {
			ti, ops := ti, ops
			r.Go(fmt.Sprintf("T%d", ti), func() {
				for _, o := range ops {
					switch o.Op {
					case "debit":
						err := l.Debit(RecursionWorkKind(o.Kind))
						results = append(results, vkLRes{ti, o, err != nil})
					case "best":
						err := l.DebitBestEffort(RecursionWorkKind(o.Kind))
						results = append(results, vkLRes{ti, o, err != nil})
					case "retain":
						if rel, ok := l.Retain(); ok {
							releases = append(releases, rel)
							rel()
							rel() // idempotent by contract
						}
					case "finish":
						finishCalls++
						l.finish()
					case "read":
						_ = l.EnforcementError()
						_ = l.Snapshot()
					case "begin":
						q := dns.Question{Name: fmt.Sprintf("t%d.example.", o.T), Qtype: dns.TypeA, Qclass: dns.ClassINET}
						err := guard.BeginCanonical(q, "192.0.2.1:53", "udp")
						results = append(results, vkLRes{ti, o, err != nil})
					}
				}
			})
		}
		return func() (string, string) {
			accepted := map[int]int{}
			rejectedLatched := map[int]bool{}
			rejectedAny := map[int]bool{}
			attempts := map[int]int{}
			begins := map[int][2]int{}
			for _, x := range results {
				switch x.Op.Op {
				case "debit", "best":
					attempts[x.Op.Kind]++
					if !x.Err {
						accepted[x.Op.Kind]++
					} else {
						rejectedAny[x.Op.Kind] = true
						if x.Op.Op == "debit" {
							rejectedLatched[x.Op.Kind] = true
						}
					}
				case "begin":
					b := begins[x.Op.T]
					if x.Err {
						b[1]++
					} else {
						b[0]++
					}
					begins[x.Op.T] = b
				}
			}
			var out []string
			for k, n := range accepted {
				out = append(out, fmt.Sprintf("k%d=%d", k, n))
			}
			for t, b := range begins {
				out = append(out, fmt.Sprintf("t%d=%d/%d", t, b[0], b[1]))
			}
			// which thread's operation was the one refused varies with the schedule: it shows contention
			for _, x := range results {
				if x.Err {
					out = append(out, fmt.Sprintf("T%d:%v refused", x.T, x.Op))
				}
			}
			sort.Strings(out)
			outcome := strings.Join(out, ",")
			for k, n := range attempts {
				switch RecursionWorkMode(sc.Mode) {
				case RecursionWorkEnforce:
					want := n
					if want > int(sc.Limit) {
						want = int(sc.Limit)
					}
					if accepted[k] > int(sc.Limit) {
						return fmt.Sprintf("enforce mode accepted %d debits of kind %d, limit %d (%s)", accepted[k], k, sc.Limit, sc), outcome
					}
					if accepted[k] != want {
						return fmt.Sprintf("enforce mode accepted %d of %d debits of kind %d with limit %d (work refused below the budget) (%s)", accepted[k], n, k, sc.Limit, sc), outcome
					}
				case RecursionWorkShadow:
					if accepted[k] != n {
						return fmt.Sprintf("shadow mode rejected a debit of kind %d (%s)", k, sc), outcome
					}
				}
			}
			snap := l.Snapshot()
			if sc.Mode == int(RecursionWorkEnforce) {
				if int(snap.OutboundQueries) != accepted[int(RecursionWorkOutboundQuery)] || int(snap.InternalQueries) != accepted[int(RecursionWorkInternalQuery)] {
					return fmt.Sprintf("ledger counters (%d outbound, %d internal) differ from the debits it accepted (%v) (%s)", snap.OutboundQueries, snap.InternalQueries, accepted, sc), outcome
				}
				err := l.EnforcementError()
				anyLatched := len(rejectedLatched) > 0
				if (err != nil) != anyLatched && l.lifecycleState() != recursionWorkLedgerClosed {
					return fmt.Sprintf("EnforcementError()=%v but latched rejections=%v (%s)", err, rejectedLatched, sc), outcome
				}
				if le, ok := err.(*RecursionWorkLimitError); ok && !rejectedLatched[int(le.Kind)] {
					return fmt.Sprintf("EnforcementError names kind %d which was never rejected (%s)", le.Kind, sc), outcome
				}
				if snap.OutboundExhausted != rejectedAny[int(RecursionWorkOutboundQuery)] || snap.InternalExhausted != rejectedAny[int(RecursionWorkInternalQuery)] {
					return fmt.Sprintf("exhaustion flags (%v,%v) disagree with rejections %v (%s)", snap.OutboundExhausted, snap.InternalExhausted, rejectedAny, sc), outcome
				}
			}
			if sc.Mode == int(RecursionWorkShadow) {
				over := attempts[int(RecursionWorkOutboundQuery)] > int(sc.Limit)
				if snap.OutboundExhausted != over {
					return fmt.Sprintf("shadow mode exhaustion flag %v but %d outbound debits against limit %d (%s)", snap.OutboundExhausted, attempts[0], sc.Limit, sc), outcome
				}
			}
			// lifecycle: published exactly when the root finished and every retain was released
			wantFinished := finishCalls > 0
			if l.finished.Peek() != wantFinished {
				return fmt.Sprintf("ledger finished=%v, want %v (finish calls %d, refs %d) (%s)", l.finished.Peek(), wantFinished, finishCalls, l.refs.Peek(), sc), outcome
			}
			for t, b := range begins {
				if b[0] > maxResolutionAttempts {
					return fmt.Sprintf("attempt guard admitted %d attempts for tuple t%d (limit %d) (%s)", b[0], t, maxResolutionAttempts, sc), outcome
				}
				want := b[0] + b[1]
				if want > maxResolutionAttempts {
					want = maxResolutionAttempts
				}
				if b[0] != want {
					return fmt.Sprintf("attempt guard admitted %d of %d attempts for tuple t%d (%s)", b[0], b[0]+b[1], t, sc), outcome
				}
			}
			return "", outcome
		}
	}
}

func vkLedgerScenarios(thorough bool) []vkLScenario {
	ops := []vkLOp{
		{Op: "debit", Kind: int(RecursionWorkOutboundQuery)}, {Op: "best", Kind: int(RecursionWorkOutboundQuery)},
		{Op: "debit", Kind: int(RecursionWorkInternalQuery)}, {Op: "retain"}, {Op: "finish"}, {Op: "read"},
		{Op: "begin", T: 0}, {Op: "begin", T: 1},
	}
	two := [][]vkLOp{
		{ops[0], ops[0]}, {ops[0], ops[1]}, {ops[1], ops[0]}, {ops[0], ops[2]}, {ops[3], ops[0]}, {ops[0], ops[4]}, {ops[4], ops[0]}, {ops[0], ops[5]},
		{ops[6], ops[6]}, {ops[6], ops[7]}, {ops[3], ops[4]},
	}
	var out []vkLScenario
	for _, mode := range []int{int(RecursionWorkEnforce), int(RecursionWorkShadow)} {
		for _, limit := range []uint32{1, 2} {
			// all multisets of 3 two-op threads
			for a := 0; a < len(two); a++ {
				for b := a; b < len(two); b++ {
					for c := b; c < len(two); c++ {
						if !thorough && (a+b+c)%3 != 0 && mode == int(RecursionWorkShadow) {
							continue
						}
						out = append(out, vkLScenario{Mode: mode, Limit: limit, Threads: [][]vkLOp{two[a], two[b], two[c]}})
					}
				}
			}
		}
	}
	for i := range out {
		out[i].Name = fmt.Sprintf("ledger-%d", i)
	}
	return out
}

func TestVerifC12Ledger(t *testing.T) {
	c := vkit.Init("C12/ledger")
	defer c.Close()
	if c.Replay != nil {
		var r struct {
			Scenario vkLScenario `json:"scenario"`
			Choices  []int       `json:"choices"`
		}
		if json.Unmarshal(c.Replay, &r) != nil {
			c.HarnessError("bad replay")
			return
		}
		run, v, _ := sched.RunOnce(sched.Config{Name: r.Scenario.Name, KeepTrace: true}, vkLedgerScenario(r.Scenario), r.Choices)
		if run.Diverged != "" {
			c.HarnessError("replay diverged: " + run.Diverged)
			return
		}
		if v != "" {
			c.Violation("ledger:"+r.Scenario.String(), v, nil)
		}
		return
	}
	bound := 2
	if c.Thorough() {
		bound = 3
	}
	for i, sc := range vkLedgerScenarios(c.Thorough()) {
		if !c.Mine(i) {
			continue
		}
		if c.OverBudget() {
			c.Cap("time budget")
			break
		}
		res := sched.Explore(sched.Config{Name: sc.Name, Bound: bound, Horizon: 2000, Stop: c.OverBudget}, vkLedgerScenario(sc))
		if res.HarnessErr != "" {
			c.HarnessError(res.HarnessErr)
			return
		}
		c.Add("evaluations", int64(res.Executions))
		c.Add("traces", int64(res.Executions))
		c.Add("transitions", int64(res.Points))
		if !res.Exhaustive {
			c.Cap("execution cap in " + sc.Name)
		}
		for o := range res.Outcomes {
			if c.DistinctStr("states", sc.String()+"|"+o) && len(res.Outcomes) > 1 {
				c.DistinctStr("nontrivial", sc.String()+"|"+o)
			}
		}
		c.Outcome(fmt.Sprintf("outcomes=%d", len(res.Outcomes)))
		if i%211 == 0 {
			c.Sample(map[string]any{"scenario": sc.String(), "schedules": res.Executions, "distinct_outcomes": len(res.Outcomes), "preemption_bound": bound})
		}
		for _, v := range res.Violations {
			key := v.Message
			if j := strings.Index(key, " ("); j > 0 {
				key = key[:j]
			}
			c.Violation("ledger:"+key, fmt.Sprintf("%s\n  schedule=%v\n  trace: %s", v.Message, v.Choices, strings.Join(v.Trace, " ")),
				map[string]any{"scenario": sc, "choices": v.Choices})
			break
		}
	}
}

// ---- attempt guard: explicit-state BFS over begin sequences (tuples are symmetric: a state is the
// list of per-tuple counts in order of first appearance, which is exactly what decides slot vs overflow).

func TestVerifC12Guard(t *testing.T) {
	c := vkit.Init("C12/guard")
	defer c.Close()
	maxTuples := 10
	if c.Thorough() {
		maxTuples = 11
	}
	type st struct{ hist []int } // history of tuple indices
	replay := func(h []int) (string, string) {
		g := NewResolutionAttemptGuard()
		counts := map[int]int{}
		order := []int{}
		for step, t := range h {
			q := dns.Question{Name: fmt.Sprintf("T%d.Example.", t), Qtype: dns.TypeA, Qclass: dns.ClassINET}
			ep := "192.0.2.1:53"
			if step%2 == 1 {
				ep = " 192.0.2.1:53 " // spelling variant: must be the same tuple
			}
			err := g.Begin(q, ep, []string{"udp", "UDP", ""}[step%3])
			want := counts[t] < maxResolutionAttempts
			if (err == nil) != want {
				return fmt.Sprintf("begin #%d for tuple t%d returned err=%v but the tuple had %d admitted attempts (limit %d); history %v", step, t, err, counts[t], maxResolutionAttempts, h), ""
			}
			if _, ok := counts[t]; !ok {
				order = append(order, t)
			}
			if want {
				counts[t]++
			} // a full tuple stays full: a further rejected begin leads to the same state
		}
		var d []string
		for _, t := range order {
			d = append(d, fmt.Sprint(counts[t]))
		}
		return "", strings.Join(d, ",")
	}
	if c.Replay != nil {
		var r struct {
			Hist []int `json:"hist"`
		}
		if json.Unmarshal(c.Replay, &r) != nil {
			c.HarnessError("bad replay")
			return
		}
		if v, _ := replay(r.Hist); v != "" {
			c.Violation("guard:replay", v, r)
		}
		return
	}
	seen := map[string]bool{"": true}
	frontier := []st{{}}
	depth := 0
	for len(frontier) > 0 {
		depth++
		var next []st
		for fi, s := range frontier {
			if depth > 2 && !c.Mine(fi) && false {
				continue
			}
			distinct := 0
			for _, t := range s.hist {
				if t+1 > distinct {
					distinct = t + 1
				}
			}
			for t := 0; t <= distinct && t < maxTuples; t++ {
				h := append(append([]int{}, s.hist...), t)
				c.Add("transitions", 1)
				c.Add("evaluations", 1)
				c.Add("traces", 1)
				v, d := replay(h)
				if v != "" {
					c.Violation("guard:limit", v, map[string]any{"hist": h})
					return
				}
				if seen[d] {
					continue
				}
				seen[d] = true
				c.DistinctStr("states", d)
				if strings.Count(d, ",") >= 8 {
					c.DistinctStr("nontrivial", d) // past the 8 inline slots: the overflow map is in use
				}
				if len(seen)%20000 == 7 {
					c.Sample(map[string]any{"begins": len(h), "per_tuple_counts_in_first_seen_order": d})
				}
				next = append(next, st{hist: h})
			}
		}
		// shard: every process explores the same BFS (deterministic, cheap); only shard 0 reports
		frontier = next
		c.Max("max_depth", int64(depth))
	}
	c.Outcome(fmt.Sprintf("closed: %d states, max depth %d", len(seen), depth))
	c.Note(fmt.Sprintf("C12/guard: state space closed (%d states; every begin sequence over %d symmetric tuples up to 4 begins each, crossing the 8-slot/overflow boundary at every count pattern)", len(seen), maxTuples))
}
