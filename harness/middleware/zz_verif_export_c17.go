//go:build verif

package middleware

// Export seams for the C17 cross-package harness (internal/verifshim/h_c17).
// Nothing here changes behaviour: VkAutoWire runs the real autoWire that
// Setup runs (without publishing the pipeline globally), and
// VkQueryerHandlerNames reads the handler list of the sub-pipeline a
// PipelineQueryer dispatches into.

// VkAutoWire runs the production auto-wiring step on p.
func VkAutoWire(p *Pipeline) { p.autoWire() }

// VkQueryerHandlerNames returns the handler names of the sub-pipeline behind
// q, in order, or nil if q is not the production pipelineQueryer.
func VkQueryerHandlerNames(q Queryer) []string {
	pq, ok := q.(*pipelineQueryer)
	if !ok || pq == nil || pq.sub == nil {
		return nil
	}
	out := make([]string, 0, len(pq.sub.handlers))
	for _, h := range pq.sub.handlers {
		out = append(out, h.Name())
	}
	return out
}
