//go:build verif

package middleware

// C04 unit "cutfold": the lease of the delegation chain an answer was learned through is the MINIMUM of every
// bound reported while it was resolved, whatever the order and whether a bound came with a delegation identity
// (BoundCutFor) or without one (BoundCut: entry-TTL expiries, subtree cuts, synthesised denials). Every sequence
// of <= 4 (thorough 5) operations on the real ResponseMeta — bounds of three distinct deadlines, key-less or
// under one of two keys, a zero deadline, a fork whose own bounds are folded back into the parent — is compared
// with a reference that keeps the plain minimum; the identity returned must belong to a bound that carried
// exactly the winning deadline.

import (
	"encoding/json"
	"fmt"
	"strings"
	"testing"
	"time"

	"github.com/semihalev/sdns/internal/verifshim/vkit"
)

type vkCutOp struct {
	D    int    `json:"d"`   // deadline index: 0 = zero time (ignored), 1..3 = base + d*100 s
	Key  uint64 `json:"key"` // 0 = key-less (BoundCut)
	Fork bool   `json:"fork,omitempty"`
}

func (o vkCutOp) String() string {
	s := fmt.Sprintf("bound(t%d", o.D)
	if o.Key != 0 {
		s += fmt.Sprintf(",key%d", o.Key)
	}
	s += ")"
	if o.Fork {
		s = "fork{" + s + "}"
	}
	return s
}

var vkCutBase = time.Unix(1_800_000_000, 0)

func vkCutTime(d int) time.Time {
	if d == 0 {
		return time.Time{}
	}
	return vkCutBase.Add(time.Duration(d) * 100 * time.Second)
}

func vkCutRun(seq []vkCutOp) string {
	m := new(ResponseMeta)
	best := 0
	keysAt := map[int]map[uint64]bool{}
	for i, o := range seq {
		t := vkCutTime(o.D)
		if o.Fork {
			// a sub-query accumulates its own bound; the deriving request folds it back in
			child := m.ForkCut()
			if o.Key != 0 {
				child.BoundCutFor(t, o.Key)
			} else {
				child.BoundCut(t)
			}
			ct, ck := child.Cut()
			m.BoundCutFor(ct, ck)
		} else if o.Key != 0 {
			m.BoundCutFor(t, o.Key)
		} else {
			m.BoundCut(t)
		}
		if o.D != 0 {
			if best == 0 || o.D < best {
				best = o.D
			}
			if keysAt[o.D] == nil {
				keysAt[o.D] = map[uint64]bool{}
			}
			keysAt[o.D][o.Key] = true
		}
		got, key := m.Cut()
		want := vkCutTime(best)
		if !got.Equal(want) {
			return fmt.Sprintf("after step %d the lease is %s, the minimum of the bounds reported so far is %s", i+1, vkCutName(got), vkCutName(want))
		}
		if best != 0 && !keysAt[best][key] {
			return fmt.Sprintf("after step %d the lease %s is attributed to delegation key %d, which never reported that deadline", i+1, vkCutName(got), key)
		}
		if best == 0 && key != 0 {
			return fmt.Sprintf("after step %d there is no lease but a delegation key %d", i+1, key)
		}
		if !m.CutUntil().Equal(got) || m.CutKey() != key {
			return fmt.Sprintf("after step %d CutUntil/CutKey disagree with Cut", i+1)
		}
	}
	return ""
}

func vkCutName(t time.Time) string {
	if t.IsZero() {
		return "none"
	}
	return fmt.Sprintf("t%d", int(t.Sub(vkCutBase)/(100*time.Second)))
}

func TestVerifC04CutFold(t *testing.T) {
	c := vkit.Init("C04/cutfold")
	defer c.Close()
	if c.Replay != nil {
		var seq []vkCutOp
		if err := json.Unmarshal(c.Replay, &seq); err != nil {
			c.HarnessError("bad replay: " + err.Error())
			return
		}
		if v := vkCutRun(seq); v != "" {
			c.Violation("cutfold:replay", v, seq)
		}
		return
	}
	var ops []vkCutOp
	for d := 0; d <= 3; d++ {
		for _, k := range []uint64{0, 7, 9} {
			ops = append(ops, vkCutOp{D: d, Key: k}, vkCutOp{D: d, Key: k, Fork: true})
		}
	}
	depth := 4
	if c.Thorough() {
		depth = 5
	}
	var rec func(cur []vkCutOp)
	n := 0
	rec = func(cur []vkCutOp) {
		if len(cur) > 0 {
			n++
			if c.Mine(n) {
				v := vkCutRun(cur)
				c.Add("evaluations", 1)
				c.Add("traces", 1)
				if len(cur) >= 2 {
					c.Add("nontrivial_sequences", 1)
				}
				if v != "" && c.NumViolations() < 6 {
					var s []string
					for _, o := range cur {
						s = append(s, o.String())
					}
					c.Violation("cutfold:"+strings.Join(s, " "), "["+strings.Join(s, " ")+"]: "+v, cur)
				}
			}
		}
		if len(cur) == depth {
			return
		}
		for _, o := range ops {
			rec(append(cur, o))
		}
	}
	rec(nil)
	c.Outcome(fmt.Sprintf("sequences<=%d", depth))
	c.DistinctStr("nontrivial", fmt.Sprintf("depth%d", depth))
}
