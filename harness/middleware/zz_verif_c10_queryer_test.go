//go:build verif

package middleware

// C10/queryer — the pooled writer of internal sub-queries. Every composing handler (alias
// chase, DNS64, failover, NS-address lookups, prefetch) asks through pipelineQueryer.Query,
// which borrows a BufferWriter from a pool. A sub-query that ends without a usable response —
// its handler wrote nothing, wrote a response the queryer rejects as request-local, or ran
// out of its work budget after writing — must hand its caller an error, never what an
// EARLIER sub-query left in the recycled writer ("a request that ends without a reply never
// causes a leftover reply to be sent to a later client").
//
// Every sequence of <= 3 (thorough <= 4) sub-queries, each for its OWN question, with the
// terminal handler behaving per step as {answer, nothing, request-local SERVFAIL, answer then
// work budget exhausted, SERVFAIL}, through ONE pipeline whose pools hand back the object
// released last (vsync.PoolLIFO): a (msg, nil) result is legal only when this step's own
// handler wrote a response for this step's own question and the queryer's own rules did not
// reject it.

import (
	"context"
	"encoding/json"
	"errors"
	"fmt"
	"strings"
	"testing"

	"github.com/miekg/dns"
	"github.com/semihalev/sdns/internal/verifshim/vkit"
	"github.com/semihalev/sdns/internal/verifshim/vsync"
)

type vkQYStep string // answer | nothing | local | overbudget | servfail

type vkQYTerminal struct {
	step vkQYStep
	seen []string
}

func (h *vkQYTerminal) Name() string { return "vkqyterminal" }

func (h *vkQYTerminal) ServeDNS(ctx context.Context, ch *Chain) {
	req := ch.Request.Msg()
	if req == nil {
		ch.Cancel()
		return
	}
	h.seen = append(h.seen, req.Question[0].Name)
	m := new(dns.Msg)
	m.SetReply(req)
	switch h.step {
	case "nothing":
		ch.Cancel()
		return
	case "answer":
		m.Answer = []dns.RR{&dns.TXT{Hdr: dns.RR_Header{Name: req.Question[0].Name, Rrtype: dns.TypeTXT, Class: dns.ClassINET, Ttl: 60}, Txt: []string{"for " + req.Question[0].Name}}}
	case "servfail":
		m.Rcode = dns.RcodeServerFailure
	case "local":
		m.Rcode = dns.RcodeServerFailure
		MarkRequestLocalFailureResponse(ctx, m, ErrResolutionAttemptLimit)
	case "overbudget":
		m.Answer = []dns.RR{&dns.TXT{Hdr: dns.RR_Header{Name: req.Question[0].Name, Rrtype: dns.TypeTXT, Class: dns.ClassINET, Ttl: 60}, Txt: []string{"for " + req.Question[0].Name}}}
		// spend the tree's whole outbound budget after the response is built: the ledger latches its error
		for i := 0; i < 8; i++ {
			_ = DebitRecursionWork(ctx, RecursionWorkOutboundQuery)
		}
	}
	_ = ch.Writer.WriteMsg(m)
	ch.Cancel()
}

func vkQYRun(hist []vkQYStep) (viol string, outcome string) {
	term := &vkQYTerminal{}
	pl := VerifNewPipeline([]Handler{term}, RecursionWorkPolicy{Mode: RecursionWorkEnforce, MaxOutboundQueries: 2, MaxInternalQueries: 64})
	q := NewPipelineQueryer(pl)
	var outs []string
	for i, st := range hist {
		term.step = st
		name := fmt.Sprintf("q%d.%s.t.", i, st)
		req := new(dns.Msg)
		req.SetQuestion(name, dns.TypeTXT)
		req.Id = uint16(0x7000 + i)
		// every sub-query belongs to its own client request tree (own ledger, own attempt guard)
		ctx, _ := EnsureRecursionWork(context.Background(), pl.workPolicy)
		resp, err := q.Query(ctx, req)
		FinishRecursionWork(ctx)
		o := "err"
		if err == nil {
			o = "msg"
		}
		outs = append(outs, o)
		legalMsg := st == "answer" || st == "servfail"
		switch {
		case err == nil && resp == nil:
			return fmt.Sprintf("step %d (%s): Query returned (nil, nil)", i, st), "violation"
		case err == nil && !legalMsg:
			return fmt.Sprintf("step %d (%s, question %s): this sub-query ended without a usable response of its own, yet Query returned a message for question %q (rcode %s): %s", i, st, name,
				vkQYQuestion(resp), dns.RcodeToString[resp.Rcode], strings.ReplaceAll(resp.String(), "\n", " | ")), "violation"
		case err == nil && vkQYQuestion(resp) != name:
			return fmt.Sprintf("step %d (%s): Query for %s returned a message for question %q", i, st, name, vkQYQuestion(resp)), "violation"
		case err != nil && legalMsg:
			return fmt.Sprintf("step %d (%s): the handler wrote a response for %s but Query returned error %v", i, st, name, err), "violation"
		case err != nil && st == "nothing" && !errors.Is(err, ErrNoResponse):
			return fmt.Sprintf("step %d (nothing): want ErrNoResponse, got %v", i, err), "violation"
		}
	}
	return "", strings.Join(outs, ",")
}

func vkQYQuestion(m *dns.Msg) string {
	if m == nil || len(m.Question) == 0 {
		return ""
	}
	return m.Question[0].Name
}

func TestVerifC10Queryer(t *testing.T) {
	c := vkit.Init("C10/queryer")
	defer c.Close()
	vsync.PoolLIFO = true
	if c.Replay != nil {
		var r struct {
			Hist []vkQYStep `json:"hist"`
		}
		if json.Unmarshal(c.Replay, &r) != nil {
			c.HarnessError("bad replay")
			return
		}
		if v, _ := vkQYRun(r.Hist); v != "" {
			c.Violation("queryer:replay", v, r)
		}
		return
	}
	steps := []vkQYStep{"answer", "nothing", "local", "overbudget", "servfail"}
	depth := 3
	if c.Thorough() {
		depth = 5
	}
	n := 0
	var rec func(h []vkQYStep)
	rec = func(h []vkQYStep) {
		if len(h) > 0 {
			n++
			v, out := vkQYRun(h)
			c.Add("evaluations", 1)
			c.Outcome(out)
			if len(h) >= 2 {
				c.DistinctStr("nontrivial", fmt.Sprint(h))
			}
			c.Sample(map[string]any{"hist": fmt.Sprint(h), "results": out})
			if v != "" {
				if v2, _ := vkQYRun(h); v2 == "" {
					c.Add("dropped_unreproducible", 1)
					return
				}
				c.Violation(fmt.Sprintf("queryer:leftover:%s>%s", h[max(0, len(h)-2)], h[len(h)-1]), fmt.Sprintf("after %v: %s", h, v), map[string]any{"hist": h})
				return
			}
		}
		if len(h) == depth || c.NumViolations() > 8 {
			return
		}
		for i, s := range steps {
			if len(h) == 0 && !c.Mine(i) {
				continue
			}
			rec(append(append([]vkQYStep{}, h...), s))
		}
	}
	rec(nil)
}
