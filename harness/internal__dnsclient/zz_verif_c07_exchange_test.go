//go:build verif

package dnsclient

// C07 unit "exchange" — a reply is accepted only when it matches the
// outstanding query's ID and question.
//
// Bounded-exhaustive: EVERY sequence of <= 3 datagrams (UDP: scripted
// net.PacketConn) / length-prefixed frames (TCP: scripted net.Conn) drawn
// from an alphabet of {right answer, right answer with another letter case,
// wrong ID (3 forms), wrong question (name / parent name / type / class /
// none / two), QR=0 with right and wrong ID, short garbage, right-ID header
// with a cut body, TC=1} is fed to the real (*Conn).Exchange (and through
// ExchangeContext / ExchangeInterruptible) for several requests. Every
// datagram carries its position in an answer record, so the oracle knows
// which one was returned.
//
// Oracle (exactly the property text): Exchange returns err == nil only with a
// message whose ID equals the request's and whose question section is exactly
// one question equal to the request's (type, class, name compared
// case-insensitively), and that message is one of the datagrams of the script
// that has these properties. Whether the call succeeds at all is not judged
// (rejection is always allowed); it is recorded as outcomes.
//
// QuestionMatches is additionally compared against a reference on a product of
// name / type / class / count variants.

import (
	"bytes"
	"context"
	"encoding/binary"
	"encoding/json"
	"fmt"
	"io"
	"net"
	"os"
	"strings"
	"testing"
	"time"

	"github.com/miekg/dns"
	"github.com/semihalev/sdns/internal/verifshim/vkit"
)

type vkSym struct {
	name  string
	match bool // ID and question match the request (the property's notion of a matching reply)
	build func(req *dns.Msg, pos int) []byte
}

func vkC07Reply(req *dns.Msg, pos int, sym int) *dns.Msg {
	m := new(dns.Msg)
	m.SetReply(req)
	m.Authoritative = true
	// marker: which datagram of the script this is
	rr, _ := dns.NewRR(fmt.Sprintf("marker.test. 60 IN A 10.77.%d.%d", sym, pos))
	m.Answer = []dns.RR{rr}
	return m
}

func vkC07Pack(m *dns.Msg) []byte {
	b, err := m.Pack()
	if err != nil {
		panic("pack: " + err.Error())
	}
	return b
}

func vkC07Upper(s string) string { return strings.ToUpper(s) }
func vkC07Flip(s string) string {
	b := []byte(s)
	for i := range b {
		if b[i] >= 'a' && b[i] <= 'z' {
			b[i] -= 32
		} else if b[i] >= 'A' && b[i] <= 'Z' {
			b[i] += 32
		}
	}
	return string(b)
}

func vkC07Alphabet() []vkSym {
	var syms []vkSym
	add := func(name string, match bool, f func(req *dns.Msg, m *dns.Msg) []byte) {
		i := len(syms)
		syms = append(syms, vkSym{name: name, match: match, build: func(req *dns.Msg, pos int) []byte {
			return f(req, vkC07Reply(req, pos, i))
		}})
	}
	add("ok", true, func(req, m *dns.Msg) []byte { return vkC07Pack(m) })
	add("wrong-id", false, func(req, m *dns.Msg) []byte { m.Id ^= 0x5a5a; return vkC07Pack(m) })
	add("wq-name", false, func(req, m *dns.Msg) []byte { m.Question[0].Name = "www.v.t."; return vkC07Pack(m) })
	add("wq-type", false, func(req, m *dns.Msg) []byte {
		if m.Question[0].Qtype == dns.TypeAAAA {
			m.Question[0].Qtype = dns.TypeA
		} else {
			m.Question[0].Qtype = dns.TypeAAAA
		}
		return vkC07Pack(m)
	})
	add("wq-class", false, func(req, m *dns.Msg) []byte { m.Question[0].Qclass = dns.ClassCHAOS; return vkC07Pack(m) })
	add("short-garbage", false, func(req, m *dns.Msg) []byte { return []byte{0xde, 0xad, 0xbe, 0xef, 0x01} })
	add("qr0", true, func(req, m *dns.Msg) []byte { m.Response = false; return vkC07Pack(m) })
	add("ok-case", true, func(req, m *dns.Msg) []byte { m.Question[0].Name = vkC07Flip(m.Question[0].Name); return vkC07Pack(m) })
	add("wrong-id+1", false, func(req, m *dns.Msg) []byte { m.Id++; return vkC07Pack(m) })
	add("wrong-id-swapped", false, func(req, m *dns.Msg) []byte { m.Id = m.Id<<8 | m.Id>>8; return vkC07Pack(m) })
	add("wq-parent", false, func(req, m *dns.Msg) []byte {
		n := m.Question[0].Name
		if off, end := dns.NextLabel(n, 0); !end {
			m.Question[0].Name = n[off:]
		} else {
			m.Question[0].Name = "other."
		}
		return vkC07Pack(m)
	})
	add("wq-none", false, func(req, m *dns.Msg) []byte { m.Question = nil; return vkC07Pack(m) })
	add("wq-two", false, func(req, m *dns.Msg) []byte {
		m.Question = append(m.Question, dns.Question{Name: "www.v.t.", Qtype: dns.TypeA, Qclass: dns.ClassINET})
		return vkC07Pack(m)
	})
	add("qr0-wrong-id", false, func(req, m *dns.Msg) []byte { m.Response = false; m.Id ^= 0x0101; return vkC07Pack(m) })
	add("cut-body", false, func(req, m *dns.Msg) []byte { b := vkC07Pack(m); return b[:len(b)-3] })
	add("tc", true, func(req, m *dns.Msg) []byte { m.Truncated = true; return vkC07Pack(m) })
	return syms
}

// vkC07PacketConn: a connected datagram socket with a scripted receive queue.
type vkC07PacketConn struct {
	q     [][]byte
	i     int
	wrote int
}

func (c *vkC07PacketConn) Read(p []byte) (int, error) {
	if c.i >= len(c.q) {
		return 0, os.ErrDeadlineExceeded
	}
	n := copy(p, c.q[c.i])
	c.i++
	return n, nil
}
func (c *vkC07PacketConn) Write(p []byte) (int, error) { c.wrote++; return len(p), nil }
func (c *vkC07PacketConn) Close() error                { return nil }
func (c *vkC07PacketConn) LocalAddr() net.Addr {
	return &net.UDPAddr{IP: net.IPv4(127, 0, 0, 1), Port: 1}
}
func (c *vkC07PacketConn) RemoteAddr() net.Addr {
	return &net.UDPAddr{IP: net.IPv4(127, 0, 0, 1), Port: 53}
}
func (c *vkC07PacketConn) SetDeadline(time.Time) error { return nil }
func (c *vkC07PacketConn) SetReadDeadline(time.Time) error {
	return nil
}
func (c *vkC07PacketConn) SetWriteDeadline(time.Time) error { return nil }
func (c *vkC07PacketConn) ReadFrom(p []byte) (int, net.Addr, error) {
	n, err := c.Read(p)
	return n, c.RemoteAddr(), err
}
func (c *vkC07PacketConn) WriteTo(p []byte, _ net.Addr) (int, error) { return c.Write(p) }

// vkC07StreamConn: a stream with scripted bytes (length-prefixed frames).
type vkC07StreamConn struct {
	r     *bytes.Reader
	wrote int
}

func (c *vkC07StreamConn) Read(p []byte) (int, error) {
	n, err := c.r.Read(p)
	if err == io.EOF {
		return n, io.EOF
	}
	return n, err
}
func (c *vkC07StreamConn) Write(p []byte) (int, error) { c.wrote++; return len(p), nil }
func (c *vkC07StreamConn) Close() error                { return nil }
func (c *vkC07StreamConn) LocalAddr() net.Addr {
	return &net.TCPAddr{IP: net.IPv4(127, 0, 0, 1), Port: 1}
}
func (c *vkC07StreamConn) RemoteAddr() net.Addr {
	return &net.TCPAddr{IP: net.IPv4(127, 0, 0, 1), Port: 53}
}
func (c *vkC07StreamConn) SetDeadline(time.Time) error      { return nil }
func (c *vkC07StreamConn) SetReadDeadline(time.Time) error  { return nil }
func (c *vkC07StreamConn) SetWriteDeadline(time.Time) error { return nil }

type vkC07Case struct {
	Req   int    `json:"req"`
	Proto string `json:"proto"`
	Via   string `json:"via"`
	Seq   []int  `json:"seq"`
}

func vkC07Requests() []*dns.Msg {
	mk := func(name string, qt uint16, edns bool) *dns.Msg {
		m := new(dns.Msg)
		m.Id = 0x1234
		m.Question = []dns.Question{{Name: name, Qtype: qt, Qclass: dns.ClassINET}}
		if edns {
			m.SetEdns0(1232, true)
		}
		return m
	}
	return []*dns.Msg{mk("a.z.t.", dns.TypeA, false), mk("A.z.T.", dns.TypeA, true), mk("z.t.", dns.TypeNS, true), mk("a.z.t.", dns.TypeAAAA, false)}
}

// vkC07RefMatch is the property's notion of "matches the outstanding query".
func vkC07RefMatch(req *dns.Msg, r *dns.Msg) bool {
	if r == nil || r.Id != req.Id || len(r.Question) != 1 {
		return false
	}
	a, b := req.Question[0], r.Question[0]
	return a.Qtype == b.Qtype && a.Qclass == b.Qclass && vkC07Lower(a.Name) == vkC07Lower(b.Name)
}

func vkC07Lower(s string) string {
	b := []byte(s)
	for i := range b {
		if b[i] >= 'A' && b[i] <= 'Z' {
			b[i] += 32
		}
	}
	return string(b)
}

func vkC07Run(syms []vkSym, reqs []*dns.Msg, cs vkC07Case) (viol string, outcome string) {
	vkC07Accepted = ""
	req := reqs[cs.Req].Copy()
	var raw [][]byte
	for pos, s := range cs.Seq {
		raw = append(raw, syms[s].build(req, pos))
	}
	var co *Conn
	if cs.Proto == "udp" {
		co = &Conn{Conn: &vkC07PacketConn{q: raw}}
	} else {
		var buf bytes.Buffer
		for i, d := range raw {
			var l [2]byte
			binary.BigEndian.PutUint16(l[:], uint16(len(d)))
			if syms[cs.Seq[i]].name == "cut-body" && i == len(raw)-1 {
				// last frame: the length prefix promises more than the stream delivers
				binary.BigEndian.PutUint16(l[:], uint16(len(d)+3))
			}
			buf.Write(l[:])
			buf.Write(d)
		}
		co = &Conn{Conn: &vkC07StreamConn{r: bytes.NewReader(buf.Bytes())}}
	}
	var r *dns.Msg
	var err error
	switch cs.Via {
	case "context":
		ctx, cancel := context.WithCancel(context.Background())
		r, _, err = co.ExchangeContext(ctx, req)
		cancel()
	case "group":
		ctx, cancel := context.WithCancel(context.Background())
		g := NewInterruptGroup(ctx)
		r, _, err = co.ExchangeInterruptible(ctx, g, req)
		cancel()
		g.Close()
	default:
		r, _, err = co.Exchange(req)
	}
	if err != nil {
		return "", "rejected"
	}
	if r == nil {
		return "Exchange returned neither a message nor an error", ""
	}
	// which datagram is it?
	sym, pos := -1, -1
	for _, rr := range r.Answer {
		if a, ok := rr.(*dns.A); ok && rr.Header().Name == "marker.test." {
			ip := a.A.To4()
			sym, pos = int(ip[2]), int(ip[3])
		}
	}
	if pos >= 0 && pos < len(cs.Seq) && cs.Seq[pos] == sym {
		vkC07Accepted = syms[sym].name
	}
	orig := reqs[cs.Req]
	if !vkC07RefMatch(orig, r) {
		q := "<none>"
		if len(r.Question) > 0 {
			q = fmt.Sprintf("%s/%s/%s (+%d more)", r.Question[0].Name, dns.TypeToString[r.Question[0].Qtype], dns.ClassToString[r.Question[0].Qclass], len(r.Question)-1)
		}
		return fmt.Sprintf("accepted a reply that does not match the outstanding query: request id=%#04x %s/%s/IN, accepted id=%#04x question=%s",
			orig.Id, orig.Question[0].Name, dns.TypeToString[orig.Question[0].Qtype], r.Id, q), ""
	}
	if pos < 0 || pos >= len(cs.Seq) || cs.Seq[pos] != sym {
		return fmt.Sprintf("accepted message is none of the scripted datagrams (marker sym=%d pos=%d)", sym, pos), ""
	}
	if !syms[sym].match {
		return fmt.Sprintf("accepted datagram #%d (%s), which does not match the outstanding query", pos, syms[sym].name), ""
	}
	return "", "accepted:" + syms[sym].name
}

func vkC07SeqName(syms []vkSym, seq []int) string {
	var n []string
	for _, s := range seq {
		n = append(n, syms[s].name)
	}
	return strings.Join(n, ",")
}

func TestVerifC07Exchange(t *testing.T) {
	c := vkit.Init("C07/exchange")
	defer c.Close()
	syms := vkC07Alphabet()
	reqs := vkC07Requests()
	if c.Replay != nil {
		var cs vkC07Case
		if err := json.Unmarshal(c.Replay, &cs); err != nil {
			c.HarnessError("bad replay: " + err.Error())
			return
		}
		if v, _ := vkC07Run(syms, reqs, cs); v != "" {
			c.Violation(vkC07Key(syms, cs), v, cs)
		}
		return
	}
	nsym := len(syms)
	if c.Quick() {
		nsym = 8 // the first eight symbols (simplest first); thorough uses all
	}
	vias := []string{"plain", "context", "group"}
	// QuestionMatches against the reference
	vkC07QuestionMatches(c)

	var seqs [][]int
	for a := 0; a < nsym; a++ {
		seqs = append(seqs, []int{a})
	}
	for a := 0; a < nsym; a++ {
		for b := 0; b < nsym; b++ {
			seqs = append(seqs, []int{a, b})
		}
	}
	for a := 0; a < nsym; a++ {
		for b := 0; b < nsym; b++ {
			for d := 0; d < nsym; d++ {
				seqs = append(seqs, []int{a, b, d})
			}
		}
	}
	seqs = append([][]int{{}}, seqs...)
	for i, seq := range seqs {
		if !c.Mine(i) {
			continue
		}
		if c.OverBudget() {
			c.Cap("time budget reached")
			return
		}
		for ri := range reqs {
			for _, proto := range []string{"udp", "tcp"} {
				for _, via := range vias {
					cs := vkC07Case{Req: ri, Proto: proto, Via: via, Seq: seq}
					v, out := vkC07Run(syms, reqs, cs)
					c.Add("evaluations", 1)
					if v != "" {
						// re-run on fresh objects
						if v2, _ := vkC07Run(syms, reqs, cs); v2 == "" {
							c.HarnessError("violation did not reproduce: " + v)
							return
						}
						c.Violation(vkC07Key(syms, cs), fmt.Sprintf("%s — %s script [%s] via %s", v, proto, vkC07SeqName(syms, seq), via), cs)
						if c.NumViolations() > 30 {
							return
						}
						continue
					}
					c.Outcome(proto + ":" + out)
					// non-trivial: a script holding both a matching and a non-matching datagram
					hasM, hasN := false, false
					for _, s := range seq {
						if syms[s].match {
							hasM = true
						} else {
							hasN = true
						}
					}
					if hasM && hasN {
						c.DistinctStr("nontrivial", fmt.Sprintf("%d|%s|%v", ri, proto, seq))
					}
					// recorded, not judged: a matching UDP datagram preceded only by wrong-ID datagrams should be found
					if proto == "udp" && via == "plain" && out == "rejected" {
						for _, s := range seq {
							if syms[s].match {
								c.Add("udp_rejected_although_match_follows_only_wrong_ids", 1)
								break
							}
							if !strings.HasPrefix(syms[s].name, "wrong-id") && syms[s].name != "qr0-wrong-id" {
								break
							}
						}
					}
				}
			}
		}
	}
	if len(seqs) > 0 {
		c.Sample(map[string]any{"alphabet": func() []string {
			var n []string
			for _, s := range syms[:nsym] {
				n = append(n, s.name)
			}
			return n
		}(), "sequences": len(seqs)})
	}
}

// vkC07Accepted names the scripted datagram the last vkC07Run call saw accepted ("" if unknown).
var vkC07Accepted string

// vkC07Key: the non-matching datagram that got accepted identifies the defect.
func vkC07Key(syms []vkSym, cs vkC07Case) string {
	if vkC07Accepted != "" {
		return "exchange-accepts|" + cs.Proto + "|" + vkC07Accepted
	}
	for _, s := range cs.Seq {
		if !syms[s].match {
			return "exchange-accepts|" + cs.Proto + "|" + syms[s].name
		}
	}
	return "exchange-accepts|" + cs.Proto + "|" + vkC07SeqName(syms, cs.Seq)
}

func vkC07QuestionMatches(c *vkit.Ctx) {
	if c.Shard() != 0 {
		return
	}
	names := []string{"a.z.t.", "A.Z.T.", "a.Z.t.", "z.t.", "b.a.z.t.", "a.z.u.", "b.z.t.", ".", "a\\.z.t.", "a.z.t"}
	types := []uint16{dns.TypeA, dns.TypeAAAA, dns.TypeNS, dns.TypeANY, dns.TypeCNAME}
	classes := []uint16{dns.ClassINET, dns.ClassCHAOS, dns.ClassANY, 0}
	for _, rn := range names[:3] {
		for _, rt := range types[:3] {
			req := dns.Question{Name: rn, Qtype: rt, Qclass: dns.ClassINET}
			for _, n := range names {
				for _, ty := range types {
					for _, cl := range classes {
						q := dns.Question{Name: n, Qtype: ty, Qclass: cl}
						for _, list := range [][]dns.Question{nil, {q}, {q, q}, {req, q}, {q, req}} {
							got := QuestionMatches(req, list)
							want := len(list) == 1 && list[0].Qtype == req.Qtype && list[0].Qclass == req.Qclass &&
								vkC07Lower(dns.Fqdn(list[0].Name)) == vkC07Lower(dns.Fqdn(req.Name))
							c.Add("evaluations", 1)
							if got && !want {
								c.Violation(fmt.Sprintf("question-matches|%s", vkC07QMClass(req, list)),
									fmt.Sprintf("QuestionMatches(%v, %v) = true: the response question does not match the request", req, list), nil)
							}
							if got {
								c.Outcome("qm:true")
							} else {
								c.Outcome("qm:false")
							}
						}
					}
				}
			}
		}
	}
}

func vkC07QMClass(req dns.Question, list []dns.Question) string {
	if len(list) != 1 {
		return fmt.Sprintf("count-%d", len(list))
	}
	switch {
	case list[0].Qtype != req.Qtype:
		return "type-differs"
	case list[0].Qclass != req.Qclass:
		return "class-differs"
	default:
		return "name-differs"
	}
}
