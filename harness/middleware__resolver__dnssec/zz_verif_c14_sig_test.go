//go:build verif

package dnssec

// C14 — signature section: (key, RRset) bases x structural mutations x
// signature-octet mutations, sdns verifySignature/cryptoVerify vs the
// reference (library RRSIG.Verify; independent math/big for wide exponents).

import (
	"encoding/base64"
	"fmt"
	"math/big"
	"strings"

	"github.com/miekg/dns"
	"github.com/semihalev/sdns/internal/verifshim/vkit"
)

// vkRun carries sharding/replay selection shared by all sections.
type vkRun struct {
	c      *vkit.Ctx
	only   string // replay: run just this case key
	n      int
	chunk  int
	halted bool
}

// take decides whether this process executes the case with the given key.
func (r *vkRun) take(key string) bool {
	if r.only != "" {
		return key == r.only
	}
	r.n++
	return r.c.Mine(r.n / r.chunk)
}

func (r *vkRun) stop() bool {
	if r.halted {
		return true
	}
	if r.only == "" && (r.c.OverBudget() || r.c.NumViolations() > 25) {
		if r.c.OverBudget() {
			r.c.Cap("time budget reached")
		}
		r.halted = true
	}
	return r.halted
}

// vkSdnsVerify runs the two sdns entry points for one candidate key.
func vkSdnsVerify(k *dns.DNSKEY, sig *dns.RRSIG, rrset []dns.RR) (accept bool, dispatchAccept bool, panicMsg string) {
	defer func() {
		if p := recover(); p != nil {
			panicMsg = fmt.Sprint(p)
			accept, dispatchAccept = false, false
		}
	}()
	accept = verifySignature(k, sig, rrset) == nil
	if k != nil && sig != nil {
		dispatchAccept = cryptoVerify(k, sig, rrset) == nil
	}
	return
}

type vkSigVerdict struct {
	sdns, dispatch bool
	panicMsg       string
	lib, libPanic  bool
	ref            bool   // the reference verdict (library, or math for wide exponents)
	refHow         string // library | math
	strict         string // documented reason sdns may refuse although the reference accepts
	selfCheck      string // non-empty: the harness's own reference disagrees with the library
}

func vkECSize(alg uint8) int {
	switch alg {
	case dns.ECDSAP256SHA256:
		return 32
	case dns.ECDSAP384SHA384:
		return 48
	}
	return 0
}

// vkJudge evaluates one (key, sig, rrset) triple on fresh copies.
func vkJudge(k *dns.DNSKEY, sig *dns.RRSIG, rrset []dns.RR) vkSigVerdict {
	var v vkSigVerdict
	var k1, k2 *dns.DNSKEY
	var s1, s2 *dns.RRSIG
	if k != nil {
		k1, k2 = dns.Copy(k).(*dns.DNSKEY), dns.Copy(k).(*dns.DNSKEY)
	}
	if sig != nil {
		s1, s2 = dns.Copy(sig).(*dns.RRSIG), dns.Copy(sig).(*dns.RRSIG)
	}
	v.sdns, v.dispatch, v.panicMsg = vkSdnsVerify(k1, s1, vkCopyRRs(rrset))
	if k == nil || sig == nil {
		v.refHow = "nil-input"
		return v
	}
	for _, r := range rrset {
		if r == nil {
			v.refHow = "nil-record"
			return v
		}
	}
	v.lib, v.libPanic = vkLibVerify(k2, s2, vkCopyRRs(rrset))
	v.ref, v.refHow = v.lib, "library"

	// RSA: independent arithmetic, decides for wide exponents and cross-checks the library elsewhere
	if _, isRSA := vkRSAAlgHash(sig.Algorithm); isRSA && sig.Algorithm == k.Algorithm && len(rrset) > 0 {
		if pub, err := base64.StdEncoding.DecodeString(k.PublicKey); err == nil {
			if n, e, canonical, ok := vkRefRSAParse(pub); ok && n.Sign() > 0 && e.Sign() > 0 {
				math := false
				if vkRefBinding(k, sig, rrset) {
					if sb, ok := vkSigBytes(sig); ok {
						if signed, ok := vkRefSigned(sig, rrset); ok {
							math = vkRefRSAVerify(n, e, sig.Algorithm, signed, sb)
						}
					}
				}
				wide := e.BitLen() > 31
				if wide {
					v.ref = v.lib || (math && vkRSAWithinLimits(n, e, canonical))
					if v.ref && !v.lib {
						v.refHow = "math"
					}
				} else {
					if v.lib && !math {
						v.selfCheck = "library accepts but the independent canonical-form/modexp reference rejects"
					}
					small := e.Cmp(big.NewInt(3)) == 0 || e.Cmp(big.NewInt(65537)) == 0 || e.Cmp(big.NewInt(2147483647)) == 0
					if !v.lib && !v.libPanic && math && canonical && small && n.BitLen() >= 1024 && n.BitLen() <= 4096 {
						v.selfCheck = "independent reference accepts a plain in-range RSA signature the library rejects"
					}
				}
			}
		}
	}
	if v.ref {
		v.strict = vkStrictReason(sig, rrset)
	}
	return v
}

// vkStrictReason names the documented places where sdns refuses what the
// library takes; "" when none applies.
func vkStrictReason(sig *dns.RRSIG, rrset []dns.RR) string {
	if size := vkECSize(sig.Algorithm); size > 0 {
		if sb, ok := vkSigBytes(sig); ok && len(sb) != 2*size {
			return "ecdsa-signature-width"
		}
	}
	if !dns.IsFqdn(sig.SignerName) {
		return "signer-not-fqdn"
	}
	if len(rrset) > 0 && !vkOnLabelBoundary(rrset[0].Header().Name, sig.SignerName) {
		return "signer-label-boundary"
	}
	return ""
}

// ---------------------------------------------------------------- mutations

type vkMut struct {
	Name  string
	Near  bool // within one bit / one octet / one field step of the signed input
	Apply func(b *vkBase) (*dns.DNSKEY, *dns.RRSIG, []dns.RR)
}

type vkBase struct {
	key   *vkKey
	spec  *vkRRsetSpec
	sig   *dns.RRSIG
	view  []dns.RR
	raw   []byte // decoded signature
	err   error
	ready bool
}

func (b *vkBase) name() string { return b.key.Name + "/" + b.spec.Name }

func (b *vkBase) prepare() error {
	if b.ready {
		return b.err
	}
	b.ready = true
	b.sig, b.view, b.err = vkSignBase(b.key, b.spec, "", 0)
	if b.err == nil {
		b.raw, _ = vkSigBytes(b.sig)
	}
	return b.err
}

func (b *vkBase) fresh() (*dns.DNSKEY, *dns.RRSIG, []dns.RR) {
	return b.key.clone(), dns.Copy(b.sig).(*dns.RRSIG), vkCopyRRs(b.view)
}

func (b *vkBase) withSig(raw []byte) (*dns.DNSKEY, *dns.RRSIG, []dns.RR) {
	k, s, rr := b.fresh()
	s.Signature = vkB64(raw)
	return k, s, rr
}

func vkUpper(s string) string { return strings.ToUpper(s) }

// vkStructMuts: mutations of the RRset, the RRSIG fields and the key binding.
func vkStructMuts() []vkMut {
	m := []vkMut{
		{"asis", true, func(b *vkBase) (*dns.DNSKEY, *dns.RRSIG, []dns.RR) { return b.fresh() }},
		{"owner-upper", true, func(b *vkBase) (*dns.DNSKEY, *dns.RRSIG, []dns.RR) {
			k, s, rr := b.fresh()
			for _, r := range rr {
				r.Header().Name = vkUpper(r.Header().Name)
			}
			return k, s, rr
		}},
		{"owner-upper-sig-too", true, func(b *vkBase) (*dns.DNSKEY, *dns.RRSIG, []dns.RR) {
			k, s, rr := b.fresh()
			for _, r := range rr {
				r.Header().Name = vkUpper(r.Header().Name)
			}
			s.Hdr.Name = vkUpper(s.Hdr.Name)
			return k, s, rr
		}},
		{"owner-mixed-per-record", true, func(b *vkBase) (*dns.DNSKEY, *dns.RRSIG, []dns.RR) {
			k, s, rr := b.fresh()
			if len(rr) > 1 {
				rr[1].Header().Name = vkUpper(rr[1].Header().Name)
			}
			return k, s, rr
		}},
		{"ttl-decayed", true, func(b *vkBase) (*dns.DNSKEY, *dns.RRSIG, []dns.RR) {
			k, s, rr := b.fresh()
			for i, r := range rr {
				r.Header().Ttl = uint32(1 + i)
			}
			return k, s, rr
		}},
		{"reversed", true, func(b *vkBase) (*dns.DNSKEY, *dns.RRSIG, []dns.RR) {
			k, s, rr := b.fresh()
			for i, j := 0, len(rr)-1; i < j; i, j = i+1, j-1 {
				rr[i], rr[j] = rr[j], rr[i]
			}
			return k, s, rr
		}},
		{"rotated", true, func(b *vkBase) (*dns.DNSKEY, *dns.RRSIG, []dns.RR) {
			k, s, rr := b.fresh()
			if len(rr) > 1 {
				rr = append(rr[1:], rr[0])
			}
			return k, s, rr
		}},
		{"dup-appended", true, func(b *vkBase) (*dns.DNSKEY, *dns.RRSIG, []dns.RR) {
			k, s, rr := b.fresh()
			rr = append(rr, dns.Copy(rr[0]))
			return k, s, rr
		}},
		{"dup-appended-othercase-ttl", true, func(b *vkBase) (*dns.DNSKEY, *dns.RRSIG, []dns.RR) {
			k, s, rr := b.fresh()
			d := dns.Copy(rr[len(rr)-1])
			d.Header().Ttl = 7
			rr = append(rr, d)
			return k, s, rr
		}},
		{"rr-dropped", true, func(b *vkBase) (*dns.DNSKEY, *dns.RRSIG, []dns.RR) {
			k, s, rr := b.fresh()
			return k, s, rr[:len(rr)-1]
		}},
		{"rr-added", true, func(b *vkBase) (*dns.DNSKEY, *dns.RRSIG, []dns.RR) {
			k, s, rr := b.fresh()
			x := dns.Copy(rr[0])
			vkTweakRdata(x)
			return k, s, append(rr, x)
		}},
		{"rdata-changed", true, func(b *vkBase) (*dns.DNSKEY, *dns.RRSIG, []dns.RR) {
			k, s, rr := b.fresh()
			vkTweakRdata(rr[0])
			return k, s, rr
		}},
		{"mixed-type-set", false, func(b *vkBase) (*dns.DNSKEY, *dns.RRSIG, []dns.RR) {
			k, s, rr := b.fresh()
			x, _ := dns.NewRR(rr[0].Header().Name + " 300 IN HINFO \"a\" \"b\"")
			return k, s, append(rr, x)
		}},
		{"empty-set", false, func(b *vkBase) (*dns.DNSKEY, *dns.RRSIG, []dns.RR) {
			k, s, _ := b.fresh()
			return k, s, nil
		}},
		{"nil-key", false, func(b *vkBase) (*dns.DNSKEY, *dns.RRSIG, []dns.RR) {
			_, s, rr := b.fresh()
			return nil, s, rr
		}},
		{"nil-sig", false, func(b *vkBase) (*dns.DNSKEY, *dns.RRSIG, []dns.RR) {
			k, _, rr := b.fresh()
			return k, nil, rr
		}},
		{"owner-other", true, func(b *vkBase) (*dns.DNSKEY, *dns.RRSIG, []dns.RR) {
			k, s, rr := b.fresh()
			for _, r := range rr {
				r.Header().Name = "zz." + vkZone
			}
			s.Hdr.Name = "zz." + vkZone
			return k, s, rr
		}},
		{"sig-owner-other", true, func(b *vkBase) (*dns.DNSKEY, *dns.RRSIG, []dns.RR) {
			k, s, rr := b.fresh()
			s.Hdr.Name = "zz." + vkZone
			return k, s, rr
		}},
		{"signer-upper", true, func(b *vkBase) (*dns.DNSKEY, *dns.RRSIG, []dns.RR) {
			k, s, rr := b.fresh()
			s.SignerName = vkUpper(s.SignerName)
			return k, s, rr
		}},
		{"key-owner-upper", true, func(b *vkBase) (*dns.DNSKEY, *dns.RRSIG, []dns.RR) {
			k, s, rr := b.fresh()
			k.Hdr.Name = vkUpper(k.Hdr.Name)
			return k, s, rr
		}},
		{"signer-nodot", true, func(b *vkBase) (*dns.DNSKEY, *dns.RRSIG, []dns.RR) {
			k, s, rr := b.fresh()
			s.SignerName = strings.TrimSuffix(s.SignerName, ".")
			return k, s, rr
		}},
		{"signer-parent", true, func(b *vkBase) (*dns.DNSKEY, *dns.RRSIG, []dns.RR) {
			k, s, rr := b.fresh()
			s.SignerName = "org."
			return k, s, rr
		}},
		{"signer-and-key-parent", true, func(b *vkBase) (*dns.DNSKEY, *dns.RRSIG, []dns.RR) {
			k, s, rr := b.fresh()
			s.SignerName, k.Hdr.Name = "org.", "org."
			return k, s, rr
		}},
		{"signer-and-key-root", true, func(b *vkBase) (*dns.DNSKEY, *dns.RRSIG, []dns.RR) {
			k, s, rr := b.fresh()
			s.SignerName, k.Hdr.Name = ".", "."
			return k, s, rr
		}},
		{"sig-class-ch", true, func(b *vkBase) (*dns.DNSKEY, *dns.RRSIG, []dns.RR) {
			k, s, rr := b.fresh()
			s.Hdr.Class = dns.ClassCHAOS
			return k, s, rr
		}},
		{"all-class-ch", true, func(b *vkBase) (*dns.DNSKEY, *dns.RRSIG, []dns.RR) {
			k, s, rr := b.fresh()
			s.Hdr.Class, k.Hdr.Class = dns.ClassCHAOS, dns.ClassCHAOS
			for _, r := range rr {
				r.Header().Class = dns.ClassCHAOS
			}
			return k, s, rr
		}},
		{"typecovered+1", true, func(b *vkBase) (*dns.DNSKEY, *dns.RRSIG, []dns.RR) {
			k, s, rr := b.fresh()
			s.TypeCovered++
			return k, s, rr
		}},
		{"labels-1", true, func(b *vkBase) (*dns.DNSKEY, *dns.RRSIG, []dns.RR) {
			k, s, rr := b.fresh()
			s.Labels--
			return k, s, rr
		}},
		{"labels+1", true, func(b *vkBase) (*dns.DNSKEY, *dns.RRSIG, []dns.RR) {
			k, s, rr := b.fresh()
			s.Labels++
			return k, s, rr
		}},
		{"labels=0", false, func(b *vkBase) (*dns.DNSKEY, *dns.RRSIG, []dns.RR) {
			k, s, rr := b.fresh()
			s.Labels = 0
			return k, s, rr
		}},
		{"labels=255", false, func(b *vkBase) (*dns.DNSKEY, *dns.RRSIG, []dns.RR) {
			k, s, rr := b.fresh()
			s.Labels = 255
			return k, s, rr
		}},
		{"origttl+1", true, func(b *vkBase) (*dns.DNSKEY, *dns.RRSIG, []dns.RR) {
			k, s, rr := b.fresh()
			s.OrigTtl++
			return k, s, rr
		}},
		{"origttl=rrttl-after-decay", true, func(b *vkBase) (*dns.DNSKEY, *dns.RRSIG, []dns.RR) {
			k, s, rr := b.fresh()
			for _, r := range rr {
				r.Header().Ttl = 17
			}
			s.OrigTtl = 17
			return k, s, rr
		}},
		{"expiration-1", true, func(b *vkBase) (*dns.DNSKEY, *dns.RRSIG, []dns.RR) {
			k, s, rr := b.fresh()
			s.Expiration--
			return k, s, rr
		}},
		{"inception+1", true, func(b *vkBase) (*dns.DNSKEY, *dns.RRSIG, []dns.RR) {
			k, s, rr := b.fresh()
			s.Inception++
			return k, s, rr
		}},
		{"keytag+1", true, func(b *vkBase) (*dns.DNSKEY, *dns.RRSIG, []dns.RR) {
			k, s, rr := b.fresh()
			s.KeyTag++
			return k, s, rr
		}},
		{"alg-sibling", true, func(b *vkBase) (*dns.DNSKEY, *dns.RRSIG, []dns.RR) {
			k, s, rr := b.fresh()
			s.Algorithm = vkSiblingAlg(s.Algorithm)
			return k, s, rr
		}},
		{"alg-sibling-key-too", true, func(b *vkBase) (*dns.DNSKEY, *dns.RRSIG, []dns.RR) {
			k, s, rr := b.fresh()
			s.Algorithm = vkSiblingAlg(s.Algorithm)
			k.Algorithm = s.Algorithm
			s.KeyTag, _ = vkLibKeyTag(k)
			return k, s, rr
		}},
		{"wrong-key", false, func(b *vkBase) (*dns.DNSKEY, *dns.RRSIG, []dns.RR) {
			_, s, rr := b.fresh()
			return vkOtherKey(b.key).clone(), s, rr
		}},
		{"wrong-key-tag-forced", true, func(b *vkBase) (*dns.DNSKEY, *dns.RRSIG, []dns.RR) {
			_, s, rr := b.fresh()
			o := vkOtherKey(b.key).clone()
			s.KeyTag, _ = vkLibKeyTag(o)
			return o, s, rr
		}},
		{"key-zone-bit-cleared", true, func(b *vkBase) (*dns.DNSKEY, *dns.RRSIG, []dns.RR) {
			k, s, rr := b.fresh()
			k.Flags &^= 0x0100
			s.KeyTag, _ = vkLibKeyTag(k)
			return k, s, rr
		}},
		{"key-protocol-2", true, func(b *vkBase) (*dns.DNSKEY, *dns.RRSIG, []dns.RR) {
			k, s, rr := b.fresh()
			k.Protocol = 2
			s.KeyTag, _ = vkLibKeyTag(k)
			return k, s, rr
		}},
		{"key-material-truncated", true, func(b *vkBase) (*dns.DNSKEY, *dns.RRSIG, []dns.RR) {
			k, s, rr := b.fresh()
			raw, _ := base64.StdEncoding.DecodeString(k.PublicKey)
			k.PublicKey = vkB64(raw[:len(raw)-1])
			s.KeyTag, _ = vkLibKeyTag(k)
			return k, s, rr
		}},
		{"key-material-extended", true, func(b *vkBase) (*dns.DNSKEY, *dns.RRSIG, []dns.RR) {
			k, s, rr := b.fresh()
			raw, _ := base64.StdEncoding.DecodeString(k.PublicKey)
			k.PublicKey = vkB64(append(raw, 1))
			s.KeyTag, _ = vkLibKeyTag(k)
			return k, s, rr
		}},
		{"key-material-lastbit", true, func(b *vkBase) (*dns.DNSKEY, *dns.RRSIG, []dns.RR) {
			k, s, rr := b.fresh()
			raw, _ := base64.StdEncoding.DecodeString(k.PublicKey)
			raw[len(raw)-1] ^= 2
			k.PublicKey = vkB64(raw)
			s.KeyTag, _ = vkLibKeyTag(k)
			return k, s, rr
		}},
		{"key-material-wrapped", true, func(b *vkBase) (*dns.DNSKEY, *dns.RRSIG, []dns.RR) {
			k, s, rr := b.fresh()
			k.PublicKey = vkWrap(k.PublicKey, 64, "\n")
			return k, s, rr
		}},
		{"key-material-space", true, func(b *vkBase) (*dns.DNSKEY, *dns.RRSIG, []dns.RR) {
			k, s, rr := b.fresh()
			k.PublicKey = k.PublicKey[:8] + " " + k.PublicKey[8:]
			s.KeyTag, _ = vkLibKeyTag(k)
			return k, s, rr
		}},
		{"key-material-zero", false, func(b *vkBase) (*dns.DNSKEY, *dns.RRSIG, []dns.RR) {
			k, s, rr := b.fresh()
			raw, _ := base64.StdEncoding.DecodeString(k.PublicKey)
			k.PublicKey = vkB64(make([]byte, len(raw)))
			s.KeyTag, _ = vkLibKeyTag(k)
			return k, s, rr
		}},
		{"key-material-empty", false, func(b *vkBase) (*dns.DNSKEY, *dns.RRSIG, []dns.RR) {
			k, s, rr := b.fresh()
			k.PublicKey = ""
			s.KeyTag, _ = vkLibKeyTag(k)
			return k, s, rr
		}},
		{"sig-b64-newline", true, func(b *vkBase) (*dns.DNSKEY, *dns.RRSIG, []dns.RR) {
			k, s, rr := b.fresh()
			s.Signature = s.Signature[:5] + "\r\n" + s.Signature[5:]
			return k, s, rr
		}},
		{"sig-b64-space", true, func(b *vkBase) (*dns.DNSKEY, *dns.RRSIG, []dns.RR) {
			k, s, rr := b.fresh()
			s.Signature = s.Signature[:5] + " " + s.Signature[5:]
			return k, s, rr
		}},
		{"sig-b64-nopad", true, func(b *vkBase) (*dns.DNSKEY, *dns.RRSIG, []dns.RR) {
			k, s, rr := b.fresh()
			s.Signature = strings.TrimRight(s.Signature, "=")
			return k, s, rr
		}},
		{"sig-b64-extrapad", true, func(b *vkBase) (*dns.DNSKEY, *dns.RRSIG, []dns.RR) {
			k, s, rr := b.fresh()
			s.Signature += "="
			return k, s, rr
		}},
		{"sig-b64-urlsafe", true, func(b *vkBase) (*dns.DNSKEY, *dns.RRSIG, []dns.RR) {
			k, s, rr := b.fresh()
			s.Signature = strings.NewReplacer("+", "-", "/", "_").Replace(s.Signature)
			return k, s, rr
		}},
		{"sig-empty", false, func(b *vkBase) (*dns.DNSKEY, *dns.RRSIG, []dns.RR) { return b.withSig(nil) }},
		{"sig-zero", false, func(b *vkBase) (*dns.DNSKEY, *dns.RRSIG, []dns.RR) { return b.withSig(make([]byte, len(b.raw))) }},
		{"sig-ones", false, func(b *vkBase) (*dns.DNSKEY, *dns.RRSIG, []dns.RR) {
			x := make([]byte, len(b.raw))
			for i := range x {
				x[i] = 0xff
			}
			return b.withSig(x)
		}},
		{"sig-append0", true, func(b *vkBase) (*dns.DNSKEY, *dns.RRSIG, []dns.RR) {
			return b.withSig(append(append([]byte{}, b.raw...), 0))
		}},
		{"sig-prepend0", true, func(b *vkBase) (*dns.DNSKEY, *dns.RRSIG, []dns.RR) {
			return b.withSig(append([]byte{0}, b.raw...))
		}},
		{"sig-dropfirst", true, func(b *vkBase) (*dns.DNSKEY, *dns.RRSIG, []dns.RR) { return b.withSig(b.raw[1:]) }},
		{"sig-doubled", false, func(b *vkBase) (*dns.DNSKEY, *dns.RRSIG, []dns.RR) {
			return b.withSig(append(append([]byte{}, b.raw...), b.raw...))
		}},
	}
	return m
}

func vkSiblingAlg(a uint8) uint8 {
	switch a {
	case dns.RSASHA1:
		return dns.RSASHA1NSEC3SHA1
	case dns.RSASHA1NSEC3SHA1:
		return dns.RSASHA1
	case dns.RSASHA256:
		return dns.RSASHA512
	case dns.RSASHA512:
		return dns.RSASHA256
	case dns.ECDSAP256SHA256:
		return dns.ECDSAP384SHA384
	case dns.ECDSAP384SHA384:
		return dns.ECDSAP256SHA256
	case dns.ED25519:
		return dns.ED448
	}
	return a + 1
}

func vkTweakRdata(r dns.RR) {
	switch x := r.(type) {
	case *dns.A:
		x.A = append([]byte{}, x.A.To4()...)
		x.A[3] ^= 1
	case *dns.AAAA:
		x.AAAA = append([]byte{}, x.AAAA...)
		x.AAAA[15] ^= 1
	case *dns.MX:
		x.Preference++
	case *dns.TXT:
		x.Txt = append(append([]string{}, x.Txt...), "x")
	case *dns.NS:
		x.Ns = "q" + x.Ns
	case *dns.CNAME:
		x.Target = "q" + x.Target
	case *dns.SOA:
		x.Serial++
	case *dns.SRV:
		x.Port++
	case *dns.NSEC:
		x.TypeBitMap = append(append([]uint16{}, x.TypeBitMap...), dns.TypeCAA)
	case *dns.DS:
		x.KeyTag++
	case *dns.DNAME:
		x.Target = "q" + x.Target
	default:
		r.Header().Rrtype++ // makes the set inconsistent
	}
}

func vkWrap(s string, every int, sep string) string {
	var b strings.Builder
	for i := 0; i < len(s); i += every {
		end := i + every
		if end > len(s) {
			end = len(s)
		}
		b.WriteString(s[i:end])
		b.WriteString(sep)
	}
	return b.String()
}

// vkOctetMuts: every single-bit flip and every truncation of the signature,
// plus algorithm-specific arithmetic variants.
func vkOctetMuts(b *vkBase, flipStride int) []vkMut {
	var m []vkMut
	nbits := len(b.raw) * 8
	for bit := 0; bit < nbits; bit += flipStride {
		bit := bit
		m = append(m, vkMut{fmt.Sprintf("flip:%d", bit), true, func(b *vkBase) (*dns.DNSKEY, *dns.RRSIG, []dns.RR) {
			x := append([]byte{}, b.raw...)
			x[bit/8] ^= 0x80 >> (bit % 8)
			return b.withSig(x)
		}})
	}
	for l := 0; l < len(b.raw); l++ {
		l := l
		m = append(m, vkMut{fmt.Sprintf("trunc:%d", l), l == len(b.raw)-1, func(b *vkBase) (*dns.DNSKEY, *dns.RRSIG, []dns.RR) {
			return b.withSig(b.raw[:l])
		}})
	}
	switch b.key.Fam {
	case "rsa":
		n := vkRSA(b.key.Bits).n
		m = append(m, vkMut{"rsa-plus-n", true, func(b *vkBase) (*dns.DNSKEY, *dns.RRSIG, []dns.RR) {
			c := new(big.Int).SetBytes(b.raw)
			c.Add(c, n)
			out := c.Bytes()
			if len(out) < len(b.raw) {
				out = c.FillBytes(make([]byte, len(b.raw)))
			}
			return b.withSig(out)
		}})
		m = append(m, vkMut{"rsa-n-minus-s", true, func(b *vkBase) (*dns.DNSKEY, *dns.RRSIG, []dns.RR) {
			c := new(big.Int).SetBytes(b.raw)
			c.Sub(n, c)
			return b.withSig(c.FillBytes(make([]byte, len(b.raw))))
		}})
	case "p256", "p384":
		size := len(b.raw) / 2
		order := b.key.Signer.curve.Params().N
		m = append(m,
			vkMut{"ecdsa-neg-s", true, func(b *vkBase) (*dns.DNSKEY, *dns.RRSIG, []dns.RR) {
				x := append([]byte{}, b.raw...)
				s := new(big.Int).SetBytes(x[size:])
				s.Sub(order, s)
				s.FillBytes(x[size:])
				return b.withSig(x) // (r, n-s) is the other valid signature
			}},
			vkMut{"ecdsa-pad-both", true, func(b *vkBase) (*dns.DNSKEY, *dns.RRSIG, []dns.RR) {
				x := append([]byte{0}, b.raw[:size]...)
				x = append(x, 0)
				x = append(x, b.raw[size:]...)
				return b.withSig(x) // 0||r||0||s : the 66/98-octet shape
			}},
			vkMut{"ecdsa-pad-both-2", true, func(b *vkBase) (*dns.DNSKEY, *dns.RRSIG, []dns.RR) {
				x := append([]byte{0, 0}, b.raw[:size]...)
				x = append(x, 0, 0)
				x = append(x, b.raw[size:]...)
				return b.withSig(x)
			}},
			vkMut{"ecdsa-r-plus-n", true, func(b *vkBase) (*dns.DNSKEY, *dns.RRSIG, []dns.RR) {
				x := append([]byte{}, b.raw...)
				r := new(big.Int).SetBytes(x[:size])
				r.Add(r, order)
				if r.BitLen() > size*8 {
					return b.withSig(x[:1])
				}
				r.FillBytes(x[:size])
				return b.withSig(x)
			}},
			vkMut{"ecdsa-swap-rs", true, func(b *vkBase) (*dns.DNSKEY, *dns.RRSIG, []dns.RR) {
				x := append(append([]byte{}, b.raw[size:]...), b.raw[:size]...)
				return b.withSig(x)
			}},
			vkMut{"ecdsa-short-r", true, func(b *vkBase) (*dns.DNSKEY, *dns.RRSIG, []dns.RR) {
				// a signature whose r has a leading zero octet, sent without it:
				// 2*size-1 octets that the library splits into the right r and s
				for stream := 1; stream < 4000; stream++ {
					sig, _, err := vkSignBase(b.key, b.spec, "", stream)
					if err != nil {
						break
					}
					raw, _ := vkSigBytes(sig)
					if raw[0] == 0 && raw[1] != 0 {
						k, _, rr := b.fresh()
						sig.Signature = vkB64(raw[1:])
						return k, sig, rr
					}
				}
				return b.fresh()
			}},
		)
	case "ed25519":
		l, _ := new(big.Int).SetString("7237005577332262213973186563042994240857116359379907606001950938285454250989", 10)
		m = append(m, vkMut{"ed25519-s-plus-l", true, func(b *vkBase) (*dns.DNSKEY, *dns.RRSIG, []dns.RR) {
			x := append([]byte{}, b.raw...)
			le := x[32:]
			be := make([]byte, 32)
			for i := range le {
				be[31-i] = le[i]
			}
			s := new(big.Int).SetBytes(be)
			s.Add(s, l)
			s.FillBytes(be)
			for i := range le {
				le[i] = be[31-i]
			}
			return b.withSig(x) // non-canonical S: same point equation, must be refused
		}})
	}
	return m
}

// vkEMMuts: RSA signatures over malformed encoded messages, produced with the
// private key (so s^e mod n IS the malformed block).
func vkEMMuts() []vkMut {
	var m []vkMut
	for _, mode := range []string{"type2", "ps-nonff", "garbage", "no-null", "wrong-oid", "no-sep"} {
		mode := mode
		m = append(m, vkMut{"em:" + mode, true, func(b *vkBase) (*dns.DNSKEY, *dns.RRSIG, []dns.RR) {
			sig, view, err := vkSignBase(b.key, b.spec, mode, 0)
			if err != nil {
				return b.fresh()
			}
			return b.key.clone(), sig, view
		}})
	}
	return m
}
