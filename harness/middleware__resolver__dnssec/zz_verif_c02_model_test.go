//go:build verif

package dnssec

// C02 — reference ZONE MODEL (ground truth) for the denial-of-existence check.
//
// Everything in this file is independent of sdns: names are label slices,
// canonical ordering (RFC 4034 §6.1) is implemented here, NSEC3 hashing uses
// miekg's dns.HashName. The model answers, for any query name: does it exist,
// is it an empty non-terminal, which types does it own, is it at/below a
// delegation, below a DNAME, which wildcard (RFC 4592) would synthesise it.
// From the model the GENUINE NSEC chain and NSEC3 chains are generated.

import (
	"fmt"
	"sort"
	"strings"

	"github.com/miekg/dns"
)

// ---------------------------------------------------------------- names

// A name is a slice of raw labels, leftmost first, INCLUDING the apex labels;
// the root is the empty slice. Labels are raw octet strings.

func vkLabelPres(l string) string {
	var b strings.Builder
	for i := 0; i < len(l); i++ {
		c := l[i]
		switch {
		case c == '.' || c == '\\':
			b.WriteByte('\\')
			b.WriteByte(c)
		case c <= 32 || c >= 127:
			fmt.Fprintf(&b, "\\%03d", c)
		default:
			b.WriteByte(c)
		}
	}
	return b.String()
}

// vkPres is the presentation form (case preserved).
func vkPres(n []string) string {
	if len(n) == 0 {
		return "."
	}
	var b strings.Builder
	for _, l := range n {
		b.WriteString(vkLabelPres(l))
		b.WriteByte('.')
	}
	return b.String()
}

func vkLower(l string) string {
	bs := []byte(l)
	for i, c := range bs {
		if c >= 'A' && c <= 'Z' {
			bs[i] = c + 32
		}
	}
	return string(bs)
}

// vkKey is the canonical identity of a name (case folded presentation).
func vkKey(n []string) string {
	if len(n) == 0 {
		return "."
	}
	var b strings.Builder
	for _, l := range n {
		b.WriteString(vkLabelPres(vkLower(l)))
		b.WriteByte('.')
	}
	return b.String()
}

// vkCanonCmp orders names per RFC 4034 §6.1: labels right to left, each
// compared as case-folded unsigned octet strings, absent label sorts first.
func vkCanonCmp(a, b []string) int {
	i, j := len(a)-1, len(b)-1
	for i >= 0 && j >= 0 {
		if c := strings.Compare(vkLower(a[i]), vkLower(b[j])); c != 0 {
			return c
		}
		i--
		j--
	}
	switch {
	case i < 0 && j < 0:
		return 0
	case i < 0:
		return -1
	}
	return 1
}

// vkIsSub reports whether n is a PROPER subdomain of anc.
func vkIsSub(n, anc []string) bool {
	if len(n) <= len(anc) {
		return false
	}
	off := len(n) - len(anc)
	for i := range anc {
		if vkLower(n[off+i]) != vkLower(anc[i]) {
			return false
		}
	}
	return true
}

func vkEq(a, b []string) bool { return len(a) == len(b) && vkCanonCmp(a, b) == 0 }

func vkJoin(rel, apex []string) []string {
	out := make([]string, 0, len(rel)+len(apex))
	out = append(out, rel...)
	return append(out, apex...)
}

// ---------------------------------------------------------------- candidates

type vkCand struct {
	Rel   []string // labels relative to the apex, leftmost first
	Types []uint16
	Role  string // "", "deleg", "dname"
	Desc  string
}

var vkApex = []string{"z"}

// vkCands is the candidate owner list; zones are ALL subsets (up to a size cap)
// without two candidates of the same canonical owner name. Ordered simplest
// first so that low zone indices are the smallest zones.
var vkCands = []vkCand{
	0:  {Rel: []string{"a"}, Types: []uint16{dns.TypeA}, Desc: "a A"},
	1:  {Rel: []string{"b"}, Types: []uint16{dns.TypeTXT}, Desc: "b TXT"},
	2:  {Rel: []string{"*"}, Types: []uint16{dns.TypeA}, Desc: "* A"},
	3:  {Rel: []string{"a", "b"}, Types: []uint16{dns.TypeA}, Desc: "a.b A"},
	4:  {Rel: []string{"b"}, Types: []uint16{dns.TypeNS}, Role: "deleg", Desc: "b NS (insecure delegation)"},
	5:  {Rel: []string{"b"}, Types: []uint16{dns.TypeNS, dns.TypeDS}, Role: "deleg", Desc: "b NS DS (secure delegation)"},
	6:  {Rel: []string{"a"}, Types: []uint16{dns.TypeDNAME}, Role: "dname", Desc: "a DNAME"},
	7:  {Rel: []string{"*", "a"}, Types: []uint16{dns.TypeTXT}, Desc: "*.a TXT"},
	8:  {Rel: []string{"b", "a"}, Types: []uint16{dns.TypeA, dns.TypeTXT, dns.TypeCAA}, Desc: "b.a A TXT CAA (a type code above 63)"},
	9:  {Rel: []string{"\x00"}, Types: []uint16{dns.TypeA}, Desc: "\\000 A"},
	10: {Rel: []string{"a.b"}, Types: []uint16{dns.TypeCNAME}, Desc: "a\\.b CNAME"},
	11: {Rel: []string{"a", "a", "b"}, Types: []uint16{dns.TypeA}, Desc: "a.a.b A"},
	12: {Rel: []string{"a", "*"}, Types: []uint16{dns.TypeA}, Desc: "a.* A (makes * an ENT)"},
	13: {Rel: []string{"A", "b"}, Types: []uint16{dns.TypeTXT}, Desc: "A.b TXT (upper-case owner)"},
	// the "alias a whole zone" deployment: the DNAME sits at the apex, whose NSEC/NSEC3 bitmap therefore
	// carries SOA and DNAME together; every name below the apex is then below a DNAME
	14: {Rel: []string{}, Types: []uint16{dns.TypeDNAME}, Role: "dname", Desc: "apex DNAME"},
	// a secure delegation that is NOT the canonically last subtree of the zone (b, a.b, A.b sort after it)
	15: {Rel: []string{"a"}, Types: []uint16{dns.TypeNS, dns.TypeDS}, Role: "deleg", Desc: "a NS DS (secure delegation)"},
}

// vkEnumZones returns every admissible subset of candidates of size <= maxOwners
// drawn from the first nCands candidates, ordered by size then lexicographic.
func vkEnumZones(nCands, maxOwners int) [][]int {
	var out [][]int
	var cur []int
	var rec func(start, size int)
	rec = func(start, size int) {
		if len(cur) == size {
			out = append(out, append([]int(nil), cur...))
			return
		}
		for i := start; i < nCands; i++ {
			clash := false
			for _, j := range cur {
				if vkEq(vkCands[i].Rel, vkCands[j].Rel) {
					clash = true
					break
				}
			}
			if clash {
				continue
			}
			cur = append(cur, i)
			rec(i+1, size)
			cur = cur[:len(cur)-1]
		}
	}
	for size := 0; size <= maxOwners; size++ {
		rec(0, size)
	}
	return out
}

// ---------------------------------------------------------------- zone model

type vkNode struct {
	Name  []string // full name, presentation case preserved
	Types []uint16 // authoritative/parent-side types (without RRSIG/NSEC)
	Apex  bool
	Deleg bool
	Dname bool
	ENT   bool // only used for NSEC3 chain entries
}

func (n *vkNode) has(t uint16) bool {
	for _, x := range n.Types {
		if x == t {
			return true
		}
	}
	return false
}

type vkZone struct {
	Cands    []int
	Apex     []string
	Owners   map[string]*vkNode // non-occluded owners incl. apex, by key
	Occluded map[string]bool    // owner names hidden below a delegation / DNAME
	ENTs     map[string][]string
	Auth     []*vkNode // non-occluded owners in canonical order (apex first)
}

func vkBuildZone(cands []int) *vkZone {
	z := &vkZone{Cands: cands, Apex: vkApex, Owners: map[string]*vkNode{}, Occluded: map[string]bool{}, ENTs: map[string][]string{}}
	apex := &vkNode{Name: vkApex, Types: []uint16{dns.TypeNS, dns.TypeSOA, dns.TypeDNSKEY}, Apex: true}
	var all []*vkNode
	for _, ci := range cands {
		c := vkCands[ci]
		if len(c.Rel) == 0 {
			apex.Types = append(apex.Types, c.Types...)
			apex.Dname = apex.Dname || c.Role == "dname"
			continue
		}
		all = append(all, &vkNode{Name: vkJoin(c.Rel, vkApex), Types: append([]uint16(nil), c.Types...), Deleg: c.Role == "deleg", Dname: c.Role == "dname"})
	}
	// occlusion: anything strictly below a delegation point or a DNAME owner
	for _, n := range all {
		occ := false
		for _, m := range append(all[:len(all):len(all)], apex) {
			if (m.Deleg || m.Dname) && vkIsSub(n.Name, m.Name) {
				occ = true
			}
		}
		if occ {
			z.Occluded[vkKey(n.Name)] = true
		} else {
			z.Owners[vkKey(n.Name)] = n
			z.Auth = append(z.Auth, n)
		}
	}
	z.Owners[vkKey(apex.Name)] = apex
	z.Auth = append(z.Auth, apex)
	sort.Slice(z.Auth, func(i, j int) bool { return vkCanonCmp(z.Auth[i].Name, z.Auth[j].Name) < 0 })
	z.ENTs = vkENTs(z.Auth, vkApex)
	return z
}

// vkENTs: proper ancestors (strictly below the apex) of the given nodes that are not nodes themselves.
func vkENTs(nodes []*vkNode, apex []string) map[string][]string {
	own := map[string]bool{}
	for _, n := range nodes {
		own[vkKey(n.Name)] = true
	}
	ents := map[string][]string{}
	for _, n := range nodes {
		for k := 1; k < len(n.Name)-len(apex); k++ {
			anc := n.Name[k:]
			if !own[vkKey(anc)] {
				ents[vkKey(anc)] = anc
			}
		}
	}
	return ents
}

func (z *vkZone) Digest() string {
	var parts []string
	for _, ci := range z.Cands {
		parts = append(parts, vkCands[ci].Desc)
	}
	return "z.{" + strings.Join(parts, "; ") + "}"
}

// vkTruth is the model's verdict on one query name.
type vkTruth struct {
	InZone     bool
	Apex       bool
	Exists     bool // authoritative owner (incl. a delegation point or DNAME owner itself)
	ENT        bool
	AtDeleg    bool
	BelowDeleg bool
	DelegHasDS bool // for AtDeleg/BelowDeleg
	BelowDname bool
	Node       *vkNode  // if Exists
	CE         []string // closest encloser (longest existing proper ancestor), when !Exists && !ENT
	Wildcard   *vkNode  // source of synthesis when the name is wildcard-matched
	WildENT    bool     // the source of synthesis *.CE exists as an empty non-terminal (RFC 4592: NODATA, not NXDOMAIN)
}

func (z *vkZone) Truth(q []string) vkTruth {
	var t vkTruth
	if !vkEq(q, z.Apex) && !vkIsSub(q, z.Apex) {
		return t
	}
	t.InZone = true
	if vkEq(q, z.Apex) {
		t.Apex, t.Exists, t.Node = true, true, z.Owners[vkKey(q)]
		return t
	}
	for _, n := range z.Auth {
		if n.Deleg && vkIsSub(q, n.Name) {
			t.BelowDeleg, t.DelegHasDS = true, n.has(dns.TypeDS)
			return t
		}
		if n.Dname && vkIsSub(q, n.Name) {
			t.BelowDname = true
			return t
		}
	}
	if n, ok := z.Owners[vkKey(q)]; ok {
		t.Exists, t.Node = true, n
		if n.Deleg {
			t.AtDeleg, t.DelegHasDS = true, n.has(dns.TypeDS)
		}
		return t
	}
	if _, ok := z.ENTs[vkKey(q)]; ok {
		t.ENT = true
		return t
	}
	for k := 1; k <= len(q)-len(z.Apex); k++ {
		anc := q[k:]
		_, own := z.Owners[vkKey(anc)]
		_, ent := z.ENTs[vkKey(anc)]
		if own || ent {
			t.CE = anc
			break
		}
	}
	src := append([]string{"*"}, t.CE...)
	if n, ok := z.Owners[vkKey(src)]; ok {
		t.Wildcard = n
	} else if _, ok := z.ENTs[vkKey(src)]; ok {
		t.WildENT = true
	}
	return t
}

func (t vkTruth) String() string {
	switch {
	case !t.InZone:
		return "out-of-zone"
	case t.Apex:
		return "apex"
	case t.BelowDeleg:
		return fmt.Sprintf("below-delegation(ds=%v)", t.DelegHasDS)
	case t.BelowDname:
		return "below-dname"
	case t.AtDeleg:
		return fmt.Sprintf("delegation-point(ds=%v)", t.DelegHasDS)
	case t.Exists:
		return "exists" + vkTypesStr(t.Node.Types)
	case t.ENT:
		return "empty-non-terminal"
	case t.WildENT:
		return "wildcard-source-is-ENT(*." + vkPres(t.CE) + ")"
	case t.Wildcard != nil:
		return "wildcard-match(" + vkPres(t.Wildcard.Name) + vkTypesStr(t.Wildcard.Types) + ")"
	}
	return "nonexistent(ce=" + vkPres(t.CE) + ")"
}

func vkTypesStr(ts []uint16) string {
	s := make([]string, len(ts))
	for i, t := range ts {
		s[i] = dns.TypeToString[t]
	}
	return "[" + strings.Join(s, " ") + "]"
}

// ---------------------------------------------------------------- genuine chains

func vkSortedTypes(ts ...uint16) []uint16 {
	out := append([]uint16(nil), ts...)
	sort.Slice(out, func(i, j int) bool { return out[i] < out[j] })
	return out
}

// vkNSECChain: one NSEC per authoritative owner (occluded names get none), in
// canonical order, last wrapping to the apex. Bitmap = types + RRSIG + NSEC;
// a delegation NSEC carries NS (+DS) but never SOA.
func (z *vkZone) NSECChain() []*dns.NSEC {
	out := make([]*dns.NSEC, 0, len(z.Auth))
	for i, n := range z.Auth {
		next := z.Auth[(i+1)%len(z.Auth)]
		ts := append(append([]uint16(nil), n.Types...), dns.TypeRRSIG, dns.TypeNSEC)
		out = append(out, &dns.NSEC{
			Hdr:        dns.RR_Header{Name: vkPres(n.Name), Rrtype: dns.TypeNSEC, Class: dns.ClassINET, Ttl: 300},
			NextDomain: vkPres(next.Name),
			TypeBitMap: vkSortedTypes(ts...),
		})
	}
	return out
}

type vkN3Params struct {
	Salt string
	Iter uint16
}

var vkN3ParamSets = []vkN3Params{{"", 0}, {"ab", 5}, {"ab", 0}, {"", 5}}

// vkN3Rec is one genuine NSEC3 record plus what it stands for.
type vkN3Rec struct {
	RR   *dns.NSEC3
	Name []string // original owner name the hash was computed from
	Node *vkNode
}

// NSEC3Chain. optMode 0: no opt-out (every delegation has an NSEC3, flags 0).
// optMode 1: opt-out, insecure delegations are skipped, Opt-Out flag on EVERY
// record (what dnssec-signzone -A produces). optMode 2: insecure delegations
// skipped, flag only on the records whose span contains a skipped hash.
// Returns nil for optMode 2 when nothing is skipped (identical to mode 0).
func (z *vkZone) NSEC3Chain(p vkN3Params, optMode int) []vkN3Rec {
	var nodes []*vkNode
	var skipped []*vkNode
	for _, n := range z.Auth {
		if optMode > 0 && n.Deleg && !n.has(dns.TypeDS) {
			skipped = append(skipped, n)
			continue
		}
		nodes = append(nodes, n)
	}
	if optMode == 2 && len(skipped) == 0 {
		return nil
	}
	ents := vkENTs(nodes, z.Apex)
	for _, name := range ents {
		nodes = append(nodes, &vkNode{Name: name, ENT: true})
	}
	apexPres := strings.ToLower(vkPres(z.Apex))
	type hn struct {
		h string
		n *vkNode
	}
	var hs []hn
	for _, n := range nodes {
		h := dns.HashName(vkPres(n.Name), dns.SHA1, p.Iter, p.Salt)
		if h == "" {
			panic("vk: HashName failed for " + vkPres(n.Name))
		}
		hs = append(hs, hn{h, n})
	}
	sort.Slice(hs, func(i, j int) bool { return hs[i].h < hs[j].h })
	var skippedH []string
	for _, n := range skipped {
		skippedH = append(skippedH, dns.HashName(vkPres(n.Name), dns.SHA1, p.Iter, p.Salt))
	}
	out := make([]vkN3Rec, 0, len(hs))
	for i, e := range hs {
		next := hs[(i+1)%len(hs)].h
		var ts []uint16
		switch {
		case e.n.ENT:
		case e.n.Apex:
			ts = append(append(ts, e.n.Types...), dns.TypeNSEC3PARAM, dns.TypeRRSIG)
		case e.n.Deleg && !e.n.has(dns.TypeDS):
			ts = append(ts, e.n.Types...) // nothing signed at an insecure delegation
		default:
			ts = append(append(ts, e.n.Types...), dns.TypeRRSIG)
		}
		flags := uint8(0)
		switch optMode {
		case 1:
			flags = 1
		case 2:
			for _, sh := range skippedH {
				in := false
				switch {
				case e.h == next:
					in = sh != e.h
				case e.h < next:
					in = sh > e.h && sh < next
				default:
					in = sh > e.h || sh < next
				}
				if in {
					flags = 1
				}
			}
		}
		out = append(out, vkN3Rec{
			RR: &dns.NSEC3{
				Hdr:        dns.RR_Header{Name: strings.ToLower(e.h) + "." + apexPres, Rrtype: dns.TypeNSEC3, Class: dns.ClassINET, Ttl: 300},
				Hash:       dns.SHA1,
				Flags:      flags,
				Iterations: p.Iter,
				SaltLength: uint8(len(p.Salt) / 2),
				Salt:       p.Salt,
				HashLength: 20,
				NextDomain: next,
				TypeBitMap: vkSortedTypes(ts...),
			},
			Name: e.n.Name,
			Node: e.n,
		})
	}
	return out
}

// ---------------------------------------------------------------- query names

type vkQuery struct {
	Labels []string
	Pres   string
}

// vkQueryNames: every name of depth <= 2 over the full label alphabet, depth 3
// over alpha3, depth 4 over alpha4 (below the apex), the apex, and names
// outside the zone. Ordered shortest first.
func vkQueryNames(alpha, alpha3, alpha4 []string) []vkQuery {
	var out []vkQuery
	add := func(n []string) { out = append(out, vkQuery{Labels: n, Pres: vkPres(n)}) }
	add(vkApex)
	for _, a := range alpha {
		add(vkJoin([]string{a}, vkApex))
	}
	for _, a := range alpha {
		for _, b := range alpha {
			add(vkJoin([]string{a, b}, vkApex))
		}
	}
	for _, a := range alpha3 {
		for _, b := range alpha3 {
			for _, c := range alpha3 {
				add(vkJoin([]string{a, b, c}, vkApex))
			}
		}
	}
	for _, a := range alpha4 {
		for _, b := range alpha4 {
			for _, c := range alpha4 {
				for _, d := range alpha4 {
					add(vkJoin([]string{a, b, c, d}, vkApex))
				}
			}
		}
	}
	// outside the zone: the root, a sibling TLD, a name sorting after the apex
	// (would fall into the last NSEC's wrap-around span), and a name in a sibling zone
	add(nil)
	add([]string{"y"})
	add([]string{"zz"})
	add([]string{"a", "y"})
	add([]string{"a", "zz"})
	return out
}
