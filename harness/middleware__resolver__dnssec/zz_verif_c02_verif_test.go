//go:build verif

package dnssec

// C02 — denial of existence is accepted or synthesised only when proven.
//
// Unit "verifiers": for every zone of an enumerated family (zone model in
// zz_verif_c02_model_test.go), its genuine NSEC chain and genuine NSEC3 chains
// are generated; EVERY subset of <= 3 chain records (plus the full chain),
// optionally polluted with one foreign record, is fed to the REAL verifiers
// for EVERY query name of the alphabet x qtype x claimed result. Oracle =
// soundness only: an acceptance must be true in the model. Rejections are
// always allowed.

import (
	"encoding/json"
	"fmt"
	"sort"
	"strings"
	"testing"

	"github.com/miekg/dns"
	"github.com/semihalev/sdns/internal/dnsutil"
	"github.com/semihalev/sdns/internal/verifshim/vkit"
)

var vkQtypes = []uint16{dns.TypeA, dns.TypeNS, dns.TypeDS, dns.TypeCNAME, dns.TypeTXT, dns.TypeCAA}

// ---------------------------------------------------------------- setup (one zone, one chain)

type vkSetup struct {
	Z     *vkZone
	Kind  string // "nsec" | "nsec3"
	Par   int    // NSEC3 parameter set index
	Opt   int    // NSEC3 opt-out mode
	Recs  []dns.RR
	Names [][]string // per record: the name it stands for
	Alt   []dns.RR   // NSEC3: same zone, second parameter set
}

func vkApexPres() string { return vkPres(vkApex) }

func vkNewSetup(z *vkZone, kind string, par, opt int) *vkSetup {
	st := &vkSetup{Z: z, Kind: kind, Par: par, Opt: opt}
	if kind == "nsec" {
		for _, r := range z.NSECChain() {
			st.Recs = append(st.Recs, r)
		}
		for _, n := range z.Auth {
			st.Names = append(st.Names, n.Name)
		}
		return st
	}
	ch := z.NSEC3Chain(vkN3ParamSets[par], opt)
	if ch == nil {
		return nil
	}
	for _, r := range ch {
		st.Recs = append(st.Recs, r.RR)
		st.Names = append(st.Names, r.Name)
	}
	for _, r := range z.NSEC3Chain(vkN3ParamSets[(par+1)%len(vkN3ParamSets)], opt) {
		st.Alt = append(st.Alt, r.RR)
	}
	return st
}

func (st *vkSetup) delegName() []string {
	for _, n := range st.Z.Auth {
		if n.Deleg {
			return n.Name
		}
	}
	return nil
}

// Pollution kinds. Expect: "refuse" = any acceptance is a violation;
// "sound" = acceptances are judged against the model as usual.
type vkPol struct {
	Kind string `json:"kind"`
	Arg  int    `json:"arg"`
}

func (st *vkSetup) pollutions(k int) []vkPol {
	var out []vkPol
	if st.Kind == "nsec" {
		out = append(out, vkPol{"sibling-wrap", 0})
		if st.delegName() != nil {
			out = append(out, vkPol{"child-apex", 0})
			out = append(out, vkPol{"child-wrap", 0})
		}
	} else {
		for i := 0; i < len(st.Alt) && i < 2; i++ {
			out = append(out, vkPol{"params2", i})
		}
		out = append(out, vkPol{"sibling", 0})
		if st.delegName() != nil {
			out = append(out, vkPol{"child-zone", 0})
		}
	}
	if k >= 2 { // a homogeneous one-record CH set is not a MIXED set
		for i := 0; i < k; i++ {
			out = append(out, vkPol{"class-flip", i})
		}
	}
	return out
}

func vkPolRefuse(kind, pol string) bool {
	if kind == "nsec3" {
		return pol != ""
	}
	return false
}

// makeSet builds the record set handed to the verifiers.
func (st *vkSetup) makeSet(idx []int, pol vkPol) []dns.RR {
	set := make([]dns.RR, 0, len(idx)+1)
	for _, i := range idx {
		set = append(set, st.Recs[i])
	}
	switch pol.Kind {
	case "":
	case "class-flip":
		cp := dns.Copy(set[pol.Arg])
		cp.Header().Class = dns.ClassCHAOS
		set[pol.Arg] = cp
	case "sibling-wrap":
		set = append(set, &dns.NSEC{Hdr: dns.RR_Header{Name: "a.y.", Rrtype: dns.TypeNSEC, Class: dns.ClassINET, Ttl: 300},
			NextDomain: "y.", TypeBitMap: []uint16{dns.TypeA, dns.TypeRRSIG, dns.TypeNSEC}})
	case "child-apex":
		d := vkPres(st.delegName())
		set = append(set, &dns.NSEC{Hdr: dns.RR_Header{Name: d, Rrtype: dns.TypeNSEC, Class: dns.ClassINET, Ttl: 300},
			NextDomain: "a." + d, TypeBitMap: vkSortedTypes(dns.TypeNS, dns.TypeSOA, dns.TypeRRSIG, dns.TypeNSEC, dns.TypeDNSKEY)})
	case "child-wrap":
		// the LAST NSEC of the child zone (its NextDomain wraps back to the child apex), replayed next to the
		// parent's records: under the parent signer it bounds nothing above the child's subtree
		d := vkPres(st.delegName())
		set = append(set, &dns.NSEC{Hdr: dns.RR_Header{Name: "z." + d, Rrtype: dns.TypeNSEC, Class: dns.ClassINET, Ttl: 300},
			NextDomain: d, TypeBitMap: vkSortedTypes(dns.TypeA, dns.TypeRRSIG, dns.TypeNSEC)})
	case "params2":
		set = append(set, st.Alt[pol.Arg])
	case "sibling", "child-zone":
		p := vkN3ParamSets[st.Par]
		zone := "y."
		name := "y."
		if pol.Kind == "child-zone" {
			zone = strings.ToLower(vkPres(st.delegName()))
			name = zone
		}
		h := dns.HashName(name, dns.SHA1, p.Iter, p.Salt)
		set = append(set, &dns.NSEC3{Hdr: dns.RR_Header{Name: strings.ToLower(h) + "." + zone, Rrtype: dns.TypeNSEC3, Class: dns.ClassINET, Ttl: 300},
			Hash: dns.SHA1, Flags: 0, Iterations: p.Iter, SaltLength: uint8(len(p.Salt) / 2), Salt: p.Salt, HashLength: 20, NextDomain: h,
			TypeBitMap: vkSortedTypes(dns.TypeNS, dns.TypeSOA, dns.TypeRRSIG, dns.TypeDNSKEY, dns.TypeNSEC3PARAM)})
	default:
		panic("vk: unknown pollution " + pol.Kind)
	}
	return set
}

// ---------------------------------------------------------------- calling the real verifiers

type vkVerdict struct {
	Accepted bool
	Secure   bool
	Rcode    int
	Pre      bool // rejected by the caller-side precondition (ValidateSigner / zone filter)
	Err      string
}

func vkMsg(q string, qtype uint16, rcode int) *dns.Msg {
	m := new(dns.Msg)
	m.Question = []dns.Question{{Name: q, Qtype: qtype, Qclass: dns.ClassINET}}
	m.Response = true
	m.Rcode = rcode
	return m
}

// vkPreparedSet carries per-set derived inputs (computed once per record set).
type vkPreparedSet struct {
	raw      []dns.RR
	filtered []dns.RR // NSEC: after the caller's FilterRRsToZone
	prep     []PreparedNSEC
	prepErr  bool
	aset     *AggressiveNSECSet
}

func vkPrepareSet(kind string, set []dns.RR) *vkPreparedSet {
	ps := &vkPreparedSet{raw: set}
	if kind == "nsec" {
		ps.filtered = dnsutil.FilterRRsToZone(set, vkApexPres())
		for _, rr := range set {
			p, err := PrepareAggressiveNSEC(rr.(*dns.NSEC))
			if err != nil {
				ps.prepErr = true
				break
			}
			ps.prep = append(ps.prep, p)
		}
		if !ps.prepErr {
			if s, err := NewAggressiveNSECSet(ps.prep, vkApexPres()); err == nil {
				ps.aset = s
			}
		}
	}
	return ps
}

func vkErrStr(err error) string {
	if err == nil {
		return ""
	}
	return err.Error()
}

// vkCall runs one real verifier. claim: nxdomain | nodata | deleg | wildcard |
// aggr | aggrset | aggrprep. For NSEC exact-answer claims it reproduces what
// Resolver.authority does before calling the verifier: ValidateSigner(signer,
// qname) and FilterRRsToZone(records, signer). wl = RRSIG Labels for "wildcard".
func vkCall(kind, claim string, ps *vkPreparedSet, q *vkQuery, qtype uint16, wl int) vkVerdict {
	apex := vkApexPres()
	if kind == "nsec" {
		switch claim {
		case "nxdomain", "nodata", "deleg", "wildcard":
			if ValidateSigner(apex, q.Pres) != nil || len(ps.filtered) == 0 {
				return vkVerdict{Pre: true, Err: "caller precondition"}
			}
		}
		switch claim {
		case "nxdomain":
			err := VerifyNameErrorNSEC(vkMsg(q.Pres, qtype, dns.RcodeNameError), ps.filtered)
			return vkVerdict{Accepted: err == nil, Secure: true, Rcode: dns.RcodeNameError, Err: vkErrStr(err)}
		case "nodata":
			err := VerifyNODATANSEC(vkMsg(q.Pres, qtype, dns.RcodeSuccess), ps.filtered)
			return vkVerdict{Accepted: err == nil, Secure: true, Rcode: dns.RcodeSuccess, Err: vkErrStr(err)}
		case "deleg":
			err := VerifyDelegationNSEC(q.Pres, ps.filtered)
			return vkVerdict{Accepted: err == nil, Secure: true, Err: vkErrStr(err)}
		case "wildcard":
			resp := vkMsg(q.Pres, qtype, dns.RcodeSuccess)
			resp.Answer = []dns.RR{&dns.RRSIG{Hdr: dns.RR_Header{Name: q.Pres, Rrtype: dns.TypeRRSIG, Class: dns.ClassINET, Ttl: 300},
				TypeCovered: qtype, Algorithm: dns.ECDSAP256SHA256, Labels: uint8(wl), SignerName: apex}}
			resp.Ns = ps.filtered
			sec, err := VerifyWildcardAnswerForZoneWithWork(resp, apex, nil)
			return vkVerdict{Accepted: err == nil, Secure: sec, Err: vkErrStr(err)}
		case "aggr":
			r, err := EvaluateAggressiveNSEC(dns.Question{Name: q.Pres, Qtype: qtype, Qclass: dns.ClassINET}, apex, ps.raw)
			return vkVerdict{Accepted: err == nil, Secure: true, Rcode: r.Rcode, Err: vkErrStr(err)}
		case "aggrprep":
			if ps.prepErr {
				return vkVerdict{Err: "prepare failed"}
			}
			r, err := EvaluateAggressiveNSECPrepared(dns.Question{Name: q.Pres, Qtype: qtype, Qclass: dns.ClassINET}, apex, ps.prep)
			return vkVerdict{Accepted: err == nil, Secure: true, Rcode: r.Rcode, Err: vkErrStr(err)}
		case "aggrset":
			if ps.aset == nil {
				return vkVerdict{Err: "set construction failed"}
			}
			r, err := EvaluateAggressiveNSECSet(dns.Question{Name: q.Pres, Qtype: qtype, Qclass: dns.ClassINET}, ps.aset)
			return vkVerdict{Accepted: err == nil, Secure: true, Rcode: r.Rcode, Err: vkErrStr(err)}
		}
		panic("vk: bad claim " + claim)
	}
	switch claim {
	case "nxdomain":
		sec, err := VerifyNameErrorForZoneWithWork(vkMsg(q.Pres, qtype, dns.RcodeNameError), ps.raw, apex, nil)
		return vkVerdict{Accepted: err == nil, Secure: sec, Rcode: dns.RcodeNameError, Err: vkErrStr(err)}
	case "nodata":
		sec, err := VerifyNODATAForZoneWithWork(vkMsg(q.Pres, qtype, dns.RcodeSuccess), ps.raw, apex, nil)
		return vkVerdict{Accepted: err == nil, Secure: sec, Rcode: dns.RcodeSuccess, Err: vkErrStr(err)}
	case "deleg":
		err := VerifyDelegationForZoneWithWork(q.Pres, apex, ps.raw, nil)
		return vkVerdict{Accepted: err == nil, Secure: false, Err: vkErrStr(err)}
	case "wildcard":
		resp := vkMsg(q.Pres, qtype, dns.RcodeSuccess)
		resp.Answer = []dns.RR{&dns.RRSIG{Hdr: dns.RR_Header{Name: q.Pres, Rrtype: dns.TypeRRSIG, Class: dns.ClassINET, Ttl: 300},
			TypeCovered: qtype, Algorithm: dns.ECDSAP256SHA256, Labels: uint8(wl), SignerName: apex}}
		resp.Ns = ps.raw
		sec, err := VerifyWildcardAnswerForZoneWithWork(resp, apex, nil)
		return vkVerdict{Accepted: err == nil, Secure: sec, Err: vkErrStr(err)}
	case "aggr":
		r, err := EvaluateAggressiveNSEC3(dns.Question{Name: q.Pres, Qtype: qtype, Qclass: dns.ClassINET}, apex, ps.raw, nil)
		return vkVerdict{Accepted: err == nil, Secure: true, Rcode: r.Rcode, Err: vkErrStr(err)}
	}
	panic("vk: bad claim " + claim)
}

func vkVerifierName(kind, claim string) string {
	if kind == "nsec" {
		switch claim {
		case "nxdomain":
			return "VerifyNameErrorNSEC"
		case "nodata":
			return "VerifyNODATANSEC"
		case "deleg":
			return "VerifyDelegationNSEC"
		case "wildcard":
			return "VerifyWildcardAnswerForZoneWithWork(NSEC)"
		case "aggr":
			return "EvaluateAggressiveNSEC"
		case "aggrprep":
			return "EvaluateAggressiveNSECPrepared"
		case "aggrset":
			return "EvaluateAggressiveNSECSet"
		}
	}
	switch claim {
	case "nxdomain":
		return "VerifyNameErrorForZoneWithWork"
	case "nodata":
		return "VerifyNODATAForZoneWithWork"
	case "deleg":
		return "VerifyDelegationForZoneWithWork"
	case "wildcard":
		return "VerifyWildcardAnswerForZoneWithWork(NSEC3)"
	case "aggr":
		return "EvaluateAggressiveNSEC3"
	}
	return kind + "/" + claim
}

// ---------------------------------------------------------------- oracle (soundness only)

func vkHasType(ts []uint16, t uint16) bool {
	for _, x := range ts {
		if x == t {
			return true
		}
	}
	return false
}

// insecureOK: the verdict is flagged not-secure and the name lies at/below an
// INSECURE delegation — that space is unsigned, an unauthenticated verdict
// about it claims nothing (RFC 5155 §9.2 / §12.2 opt-out tradeoff).
func vkInsecureOK(t vkTruth, secure bool) bool {
	return !secure && (t.AtDeleg || t.BelowDeleg) && !t.DelegHasDS
}

func vkJudgeNX(t vkTruth, secure bool) string {
	switch {
	case !t.InZone:
		return "out-of-zone"
	case t.Apex:
		return "apex"
	case t.BelowDeleg:
		if vkInsecureOK(t, secure) {
			return ""
		}
		return "below-delegation"
	case t.AtDeleg:
		if vkInsecureOK(t, secure) {
			return ""
		}
		return "at-delegation"
	case t.BelowDname:
		return "below-dname"
	case t.Exists:
		return "exists"
	case t.ENT:
		return "ent"
	case t.Wildcard != nil:
		return "wildcard-match"
	case t.WildENT:
		return "wildcard-ent"
	}
	return ""
}

func vkJudgeNODATA(t vkTruth, qtype uint16, secure bool) string {
	switch {
	case !t.InZone:
		return "out-of-zone"
	case t.BelowDeleg:
		if vkInsecureOK(t, secure) {
			return ""
		}
		return "below-delegation"
	case t.BelowDname:
		return "below-dname"
	case t.Apex:
		if qtype == dns.TypeDS {
			return "ds-at-apex"
		}
	case t.AtDeleg:
		if qtype != dns.TypeDS {
			if vkInsecureOK(t, secure) {
				return ""
			}
			return "at-delegation-nonds"
		}
	}
	switch {
	case t.Exists:
		if vkHasType(t.Node.Types, qtype) {
			return "type-present"
		}
		if vkHasType(t.Node.Types, dns.TypeCNAME) {
			return "cname-present"
		}
		return ""
	case t.ENT, t.WildENT:
		return ""
	case t.Wildcard != nil:
		if vkHasType(t.Wildcard.Types, qtype) {
			return "wildcard-type-present"
		}
		if vkHasType(t.Wildcard.Types, dns.TypeCNAME) {
			return "wildcard-cname-present"
		}
		return ""
	}
	// The name does not exist at all (true answer NXDOMAIN). An insecure
	// (opt-out) NODATA about it claims nothing authenticated.
	if !secure {
		return ""
	}
	return "nonexistent-name"
}

func vkJudgeDeleg(st *vkSetup, t vkTruth) string {
	optout := st.Kind == "nsec3" && st.Opt > 0
	switch {
	case !t.InZone:
		return "out-of-zone"
	case t.Apex:
		return "apex"
	case t.AtDeleg:
		if t.DelegHasDS {
			return "ds-present"
		}
		return ""
	case t.BelowDeleg:
		if optout && !t.DelegHasDS {
			return ""
		}
		return "below-delegation"
	case t.BelowDname:
		return "below-dname"
	case t.Exists, t.ENT:
		return "not-a-delegation"
	}
	if optout {
		return "" // documented opt-out tradeoff: any name inside an opt-out span may be an insecure delegation
	}
	return "nonexistent-name"
}

// vkJudgeWildcard: a wildcard-expanded positive answer for q synthesised from
// *.<suffix of wl labels> (that owner exists in the model, otherwise no RRSIG
// could exist) is authentic iff the NEXT CLOSER name (wl+1 labels) does not
// exist in any form: then nothing between the wildcard's parent and q exists.
func vkJudgeWildcard(z *vkZone, q []string, t vkTruth, wl int, secure bool) string {
	if !t.InZone || wl+1 > len(q) {
		return "out-of-zone"
	}
	nc := q[len(q)-wl-1:]
	tn := z.Truth(nc)
	switch {
	case tn.BelowDeleg, tn.AtDeleg:
		if vkInsecureOK(tn, secure) {
			return ""
		}
		return "next-closer-at-or-below-delegation"
	case tn.BelowDname:
		return "next-closer-below-dname"
	case tn.Exists:
		return "next-closer-exists"
	case tn.ENT:
		return "next-closer-ent"
	}
	if t.Wildcard != nil && len(t.CE) == wl {
		return ""
	}
	return "not-the-source"
}

// vkJudge returns "" when the acceptance is true in the model, else the defect class.
func vkJudge(st *vkSetup, pol vkPol, claim string, q []string, t vkTruth, qtype uint16, wl int, v vkVerdict, exactInSet bool) string {
	if !v.Accepted {
		return ""
	}
	if pol.Kind == "child-apex" {
		// A child-zone apex NSEC replayed next to parent records: only the
		// "no DS at the delegation" conclusions are judged against the parent model.
		if !t.AtDeleg || (strings.HasPrefix(claim, "aggr") && v.Rcode != dns.RcodeSuccess) {
			return ""
		}
	}
	if vkPolRefuse(st.Kind, pol.Kind) {
		return "mixed-" + pol.Kind + "-accepted"
	}
	if pol.Kind == "class-flip" && strings.HasPrefix(claim, "aggr") {
		return "mixed-class-accepted"
	}
	optAll := st.Kind == "nsec3" && st.Opt == 1
	switch claim {
	case "nxdomain":
		if optAll && v.Secure {
			return "optout-secure"
		}
		return vkJudgeNX(t, v.Secure)
	case "nodata":
		if optAll && v.Secure && !exactInSet {
			return "optout-secure"
		}
		return vkJudgeNODATA(t, qtype, v.Secure)
	case "deleg":
		return vkJudgeDeleg(st, t)
	case "wildcard":
		if optAll && v.Secure {
			return "optout-secure"
		}
		return vkJudgeWildcard(st.Z, q, t, wl, v.Secure)
	default: // aggressive evaluators
		if v.Rcode == dns.RcodeNameError {
			if optAll {
				return "optout-aggressive"
			}
			return vkJudgeNX(t, true)
		}
		if v.Rcode == dns.RcodeSuccess {
			if optAll && !exactInSet {
				return "optout-aggressive"
			}
			return vkJudgeNODATA(t, qtype, true)
		}
		return fmt.Sprintf("unexpected-rcode-%d", v.Rcode)
	}
}

// vkClaimTrue: is this claim TRUE in the model (used only for the completeness sanity counters)?
func vkClaimTrue(st *vkSetup, claim string, t vkTruth, qtype uint16, wl int) bool {
	if !t.InZone {
		return false
	}
	switch claim {
	case "nxdomain":
		return !t.Apex && !t.Exists && !t.ENT && !t.BelowDeleg && !t.BelowDname && t.Wildcard == nil && !t.WildENT
	case "nodata":
		if t.BelowDeleg || t.BelowDname || (t.Apex && qtype == dns.TypeDS) || (t.AtDeleg && qtype != dns.TypeDS) {
			return false
		}
		if t.Exists {
			return !vkHasType(t.Node.Types, qtype) && !vkHasType(t.Node.Types, dns.TypeCNAME)
		}
		if t.ENT || t.WildENT {
			return true
		}
		if t.Wildcard != nil {
			return !vkHasType(t.Wildcard.Types, qtype) && !vkHasType(t.Wildcard.Types, dns.TypeCNAME)
		}
		return false
	case "deleg":
		return t.AtDeleg && !t.DelegHasDS
	case "wildcard":
		return !t.Exists && !t.ENT && !t.BelowDeleg && !t.BelowDname && t.Wildcard != nil && len(t.CE) == wl
	}
	return false
}

// ---------------------------------------------------------------- one case (replayable)

type vkCase struct {
	Zone   []int    `json:"zone"`
	Kind   string   `json:"kind"`
	Par    int      `json:"par"`
	Opt    int      `json:"opt"`
	Recs   []int    `json:"recs"`
	Pol    vkPol    `json:"pol"`
	QL     []string `json:"ql"`
	Qname  string   `json:"qname"`
	Qtype  uint16   `json:"qtype"`
	Claim  string   `json:"claim"`
	WL     int      `json:"wl"`
	ZoneIs string   `json:"zone_is,omitempty"`
	Set    []string `json:"set,omitempty"`
}

func (st *vkSetup) exactInSet(idx []int, q []string) bool {
	for _, i := range idx {
		if vkEq(st.Names[i], q) {
			return true
		}
	}
	return false
}

// vkRunCase re-creates everything from the model and runs one case on fresh objects.
func vkRunCase(cs vkCase) (class string, v vkVerdict, t vkTruth, desc string, err error) {
	for _, ci := range cs.Zone {
		if ci < 0 || ci >= len(vkCands) {
			return "", v, t, "", fmt.Errorf("bad candidate index %d", ci)
		}
	}
	z := vkBuildZone(cs.Zone)
	st := vkNewSetup(z, cs.Kind, cs.Par, cs.Opt)
	if st == nil {
		return "", v, t, "", fmt.Errorf("no such chain variant")
	}
	for _, i := range cs.Recs {
		if i < 0 || i >= len(st.Recs) {
			return "", v, t, "", fmt.Errorf("bad record index %d", i)
		}
	}
	set := st.makeSet(cs.Recs, cs.Pol)
	ps := vkPrepareSet(st.Kind, set)
	q := &vkQuery{Labels: cs.QL, Pres: vkPres(cs.QL)}
	t = z.Truth(q.Labels)
	v = vkCall(st.Kind, cs.Claim, ps, q, cs.Qtype, cs.WL)
	class = vkJudge(st, cs.Pol, cs.Claim, q.Labels, t, cs.Qtype, cs.WL, v, st.exactInSet(cs.Recs, q.Labels))
	var rs []string
	for _, rr := range set {
		rs = append(rs, strings.Join(strings.Fields(rr.String()), " "))
	}
	desc = fmt.Sprintf("zone %s; records {%s}; claim %s for %s %s", z.Digest(), strings.Join(rs, " | "), cs.Claim, q.Pres, dns.TypeToString[cs.Qtype])
	if cs.Claim == "wildcard" {
		desc += fmt.Sprintf(" (RRSIG labels=%d)", cs.WL)
	}
	return class, v, t, desc, nil
}

// ---------------------------------------------------------------- exploration

type vkTier struct {
	nCands, maxOwners int
	alpha, alpha3     []string
	alpha4            []string
	maxSub            int // max subset size of genuine records
	polBase           int // max base subset size for polluted sets
	n3Variants        func(zi int) [][2]int
	prepVariants      bool
}

type vkExplorer struct {
	c        *vkit.Ctx
	tier     vkTier
	qs       []vkQuery
	evals    int64
	accepted int64
	ntCap    int
	ntSeen   int
	oc       map[string]int64
	seenKey  map[string]bool
	stop     bool
	complete map[string]int64 // "<KIND>/<claim>/accepted|rejected" over the whole shard
}

func vkSubsets(n, maxK int) [][]int {
	var out [][]int
	var cur []int
	var rec func(start, k int)
	rec = func(start, k int) {
		if len(cur) == k {
			out = append(out, append([]int(nil), cur...))
			return
		}
		for i := start; i < n; i++ {
			cur = append(cur, i)
			rec(i+1, k)
			cur = cur[:len(cur)-1]
		}
	}
	for k := 1; k <= maxK && k <= n; k++ {
		rec(0, k)
	}
	return out
}

func (e *vkExplorer) count(kind, claim, res string) {
	e.oc[strings.ToUpper(kind)+"/"+claim+"/"+res]++
}

func (e *vkExplorer) flush() {
	e.c.Add("evaluations", e.evals)
	e.c.Add("accepted_cases", e.accepted)
	e.evals, e.accepted = 0, 0
	keys := make([]string, 0, len(e.oc))
	for k := range e.oc {
		keys = append(keys, k)
	}
	sort.Strings(keys)
	for _, k := range keys {
		e.c.Outcome(k)
		e.c.Add("n:"+k, e.oc[k])
	}
	e.oc = map[string]int64{}
}

func (e *vkExplorer) one(st *vkSetup, zi, si int, idx []int, pol vkPol, polIdx int, ps *vkPreparedSet, qi int, t vkTruth, claim string, qtype uint16, wl int, exact, full bool) {
	q := &e.qs[qi]
	v := vkCall(st.Kind, claim, ps, q, qtype, wl)
	e.evals++
	if v.Pre {
		e.count(st.Kind, claim, "precondition-reject")
		return
	}
	if full && pol.Kind == "" && vkClaimTrue(st, claim, t, qtype, wl) {
		if v.Accepted {
			e.complete[strings.ToUpper(st.Kind)+"/"+claim+"/accepted"]++
		} else {
			e.complete[strings.ToUpper(st.Kind)+"/"+claim+"/rejected"]++
		}
	}
	if !v.Accepted {
		e.count(st.Kind, claim, "reject")
		return
	}
	e.accepted++
	if e.ntSeen < e.ntCap {
		// distinct accepted case (zone, chain variant, subset, pollution, qname, qtype, claim)
		var cl uint64
		switch claim {
		case "nxdomain":
			cl = 0
		case "nodata":
			cl = 1
		case "deleg":
			cl = 2
		case "wildcard":
			cl = 3 + uint64(wl&3)
		case "aggr":
			cl = 8
		case "aggrprep":
			cl = 9
		default:
			cl = 10
		}
		variant := uint64(0)
		if st.Kind == "nsec3" {
			variant = 1 + uint64(st.Par)*3 + uint64(st.Opt)
		}
		d := uint64(zi)<<48 | variant<<43 | uint64(si)<<30 | uint64(polIdx)<<24 | uint64(qi)<<10 | uint64(qtype&0xff)<<4 | cl
		d ^= d >> 30
		d *= 0xbf58476d1ce4e5b9
		d ^= d >> 27
		d *= 0x94d049bb133111eb
		d ^= d >> 31
		if e.c.Distinct("nontrivial", d) {
			e.ntSeen++
		}
	}
	class := vkJudge(st, pol, claim, q.Labels, t, qtype, wl, v, exact)
	if class == "" {
		res := "accept-true"
		if !v.Secure && claim != "deleg" {
			res = "accept-insecure"
		}
		if claim != "deleg" && strings.HasPrefix(claim, "aggr") {
			if v.Rcode == dns.RcodeNameError {
				res = "synth-nxdomain-true"
			} else {
				res = "synth-nodata-true"
			}
		}
		e.count(st.Kind, claim, res)
		if e.accepted%200000 == 1 {
			e.c.Sample(map[string]any{"zone": st.Z.Digest(), "kind": st.Kind, "claim": claim, "qname": q.Pres, "qtype": dns.TypeToString[qtype], "records": len(idx), "pollution": pol.Kind, "truth": t.String(), "verdict": "accepted"})
		}
		return
	}
	e.count(st.Kind, claim, "accept-FALSE")
	key := vkVerifierName(st.Kind, claim) + "/" + class
	e.oc["FALSE:"+key]++
	if e.seenKey[key] {
		return
	}
	e.seenKey[key] = true
	cs := vkCase{Zone: st.Z.Cands, Kind: st.Kind, Par: st.Par, Opt: st.Opt, Recs: idx, Pol: pol, QL: q.Labels, Qname: q.Pres, Qtype: qtype, Claim: claim, WL: wl}
	class2, v2, t2, desc, err := vkRunCase(cs)
	if err != nil || class2 != class || !v2.Accepted {
		e.c.HarnessError(fmt.Sprintf("violation %s did not reproduce on fresh objects (err=%v class=%q accepted=%v): %s", key, err, class2, v2.Accepted, desc))
		e.stop = true
		return
	}
	cs.ZoneIs = st.Z.Digest()
	inst := fmt.Sprintf("%s:%s:%s:%s", vkVerifierName(st.Kind, claim), class, st.Z.Digest(), q.Pres)
	msg := fmt.Sprintf("%s ACCEPTED a denial that is false in the zone model [%s]: %s; verdict accepted secure=%v rcode=%s; model truth for %s: %s. instance=%s",
		vkVerifierName(st.Kind, claim), class, desc, v2.Secure, dns.RcodeToString[v2.Rcode], q.Pres, t2.String(), inst)
	e.c.Violation(key, msg, cs)
}

// evalSet runs every query name x qtype x claim against one record set.
func (e *vkExplorer) evalSet(st *vkSetup, zi, si int, idx []int, pol vkPol, polIdx int, truths []vkTruth, full bool) {
	set := st.makeSet(idx, pol)
	ps := vkPrepareSet(st.Kind, set)
	aggrClaims := []string{"aggr"}
	if st.Kind == "nsec" {
		aggrClaims = []string{"aggr", "aggrset"}
		if e.tier.prepVariants {
			aggrClaims = append(aggrClaims, "aggrprep")
		}
	}
	onlyDS := pol.Kind == "child-apex"
	// child-wrap: judged on the aggressive (RFC 8198) evaluators, which bind a set to its signer zone themselves;
	// the validator-side verifiers rely on the caller's signature check for that (C01 territory)
	onlyAggr := st.Kind == "nsec" && (pol.Kind == "class-flip" || pol.Kind == "child-wrap")
	for qi := range e.qs {
		t := truths[qi]
		q := e.qs[qi].Labels
		exact := st.exactInSet(idx, q)
		if !onlyDS && !onlyAggr {
			e.one(st, zi, si, idx, pol, polIdx, ps, qi, t, "nxdomain", dns.TypeA, 0, exact, full)
		}
		for _, qt := range vkQtypes {
			if onlyDS && qt != dns.TypeDS {
				continue
			}
			if !onlyAggr {
				e.one(st, zi, si, idx, pol, polIdx, ps, qi, t, "nodata", qt, 0, exact, full)
			}
			for _, ac := range aggrClaims {
				e.one(st, zi, si, idx, pol, polIdx, ps, qi, t, ac, qt, 0, exact, full)
			}
		}
		if !onlyAggr {
			e.one(st, zi, si, idx, pol, polIdx, ps, qi, t, "deleg", dns.TypeDS, 0, exact, full)
		}
		if !onlyDS && !onlyAggr {
			// wildcard-expanded positive answer: only where a wildcard RRSIG could exist
			// (the model has the owner *.suffix); RRSIG Labels = labels of that suffix.
			for wl := len(vkApex); wl < len(q); wl++ {
				src := append([]string{"*"}, q[len(q)-wl:]...)
				if _, ok := st.Z.Owners[vkKey(src)]; !ok {
					continue
				}
				e.one(st, zi, si, idx, pol, polIdx, ps, qi, t, "wildcard", dns.TypeA, wl, exact, full)
			}
		}
		if e.stop {
			return
		}
	}
}

func (e *vkExplorer) exploreSetup(st *vkSetup, zi int, truths []vkTruth) {
	n := len(st.Recs)
	subs := vkSubsets(n, e.tier.maxSub)
	if n > e.tier.maxSub {
		all := make([]int, n)
		for i := range all {
			all[i] = i
		}
		subs = append(subs, all)
	}
	for si, idx := range subs {
		e.evalSet(st, zi, si, idx, vkPol{}, 0, truths, len(idx) == n)
		if e.stop || e.c.OverBudget() {
			return
		}
	}
	for si, idx := range vkSubsets(n, e.tier.polBase) {
		for pi, pol := range st.pollutions(len(idx)) {
			e.evalSet(st, zi, si, idx, pol, pi+1, truths, false)
			if e.stop {
				return
			}
		}
		if e.c.OverBudget() {
			return
		}
	}
}

func vkTierFor(c *vkit.Ctx) vkTier {
	full := []string{"a", "b", "*", "A", "\x00", "a.b"}
	one := func(zi int) [][2]int {
		p := zi % len(vkN3ParamSets)
		return [][2]int{{p, 0}, {p, 1}, {p, 2}}
	}
	if c.Quick() {
		return vkTier{nCands: 13, maxOwners: 3, alpha: full, alpha3: []string{"a", "b", "*"}, alpha4: []string{"a", "b"},
			maxSub: 3, polBase: 2, prepVariants: false, n3Variants: one}
	}
	return vkTier{nCands: len(vkCands), maxOwners: 4, alpha: append(full, "c"), alpha3: []string{"a", "b", "*"}, alpha4: []string{"a", "b"},
		maxSub: 3, polBase: 2, prepVariants: true, n3Variants: one}
}

func TestVerifC02Verifiers(t *testing.T) {
	c := vkit.Init("C02/verifiers")
	defer c.Close()
	if c.Replay != nil {
		var cs vkCase
		if err := json.Unmarshal(c.Replay, &cs); err != nil {
			c.HarnessError("bad replay payload: " + err.Error())
			return
		}
		class, v, tr, desc, err := vkRunCase(cs)
		if err != nil {
			c.HarnessError("replay: " + err.Error())
			return
		}
		if class != "" {
			c.Violation(vkVerifierName(cs.Kind, cs.Claim)+"/"+class,
				fmt.Sprintf("%s ACCEPTED a denial that is false in the zone model [%s]: %s; secure=%v rcode=%s; model truth: %s",
					vkVerifierName(cs.Kind, cs.Claim), class, desc, v.Secure, dns.RcodeToString[v.Rcode], tr.String()), cs)
		} else {
			c.Note(fmt.Sprintf("replay: accepted=%v err=%q truth=%s — sound", v.Accepted, v.Err, tr.String()))
		}
		return
	}

	tier := vkTierFor(c)
	zones := vkEnumZones(tier.nCands, tier.maxOwners)
	if tier.nCands < len(vkCands) {
		// quick tier: the apex-DNAME candidate alone and next to every one of the other quick candidates
		zones = append(zones, []int{14})
		for i := 0; i < tier.nCands; i++ {
			zones = append(zones, []int{i, 14})
		}
		// ... and the delegation at "a" (owners exist canonically after its subtree), likewise
		zones = append(zones, []int{15})
		for i := 0; i < tier.nCands; i++ {
			if !vkEq(vkCands[i].Rel, vkCands[15].Rel) {
				zones = append(zones, []int{i, 15})
			}
		}
	}
	e := &vkExplorer{c: c, tier: tier, qs: vkQueryNames(tier.alpha, tier.alpha3, tier.alpha4), ntCap: 1500000, oc: map[string]int64{}, seenKey: map[string]bool{}, complete: map[string]int64{}}
	c.Note(fmt.Sprintf("%d zones (<=%d owners of %d candidates), %d query names, qtypes %d, NSEC3 parameter sets %v", len(zones), tier.maxOwners, tier.nCands, len(e.qs), len(vkQtypes), vkN3ParamSets))
	done := 0
	for zi, cands := range zones {
		if !c.Mine(zi) {
			continue
		}
		if c.OverBudget() {
			c.Cap(fmt.Sprintf("time budget reached after %d of this shard's zones (zones are ordered smallest first)", done))
			break
		}
		z := vkBuildZone(cands)
		truths := make([]vkTruth, len(e.qs))
		for qi := range e.qs {
			truths[qi] = z.Truth(e.qs[qi].Labels)
		}
		e.exploreSetup(vkNewSetup(z, "nsec", 0, 0), zi, truths)
		for _, pv := range tier.n3Variants(zi) {
			if e.stop {
				break
			}
			if st := vkNewSetup(z, "nsec3", pv[0], pv[1]); st != nil {
				e.exploreSetup(st, zi, truths)
			}
		}
		c.Add("zones", 1)
		e.flush()
		done++
		if e.stop {
			break
		}
	}
	e.flush()
	// sanity: genuine full proofs of model-true claims MUST be accepted by the real code
	var acc int64
	for k, n := range e.complete {
		if strings.HasSuffix(k, "/accepted") {
			acc += n
			c.Add("complete_proofs_accepted", n)
		} else {
			c.Add("complete_proofs_rejected", n)
		}
		c.Add("complete:"+k, n)
	}
	if done > 0 && !e.stop {
		for _, must := range []string{"NSEC/nxdomain", "NSEC/nodata", "NSEC3/nxdomain", "NSEC3/nodata"} {
			if e.complete[must+"/accepted"] == 0 {
				c.HarnessError("vacuous: no genuine complete " + must + " proof was accepted by the real verifier — inputs are malformed")
			}
		}
		_ = acc
	}
}
