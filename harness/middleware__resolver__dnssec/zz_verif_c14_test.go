//go:build verif

package dnssec

// C14 — in-house DNSSEC primitives agree with an independent reference.
// Bounded-exhaustive differential enumeration; see checks/C14.py for the
// grammar and the oracle.

import (
	"encoding/json"
	"fmt"
	"strings"
	"testing"

	"github.com/miekg/dns"
	"github.com/semihalev/sdns/internal/verifshim/vkit"
)

// vkSigCase evaluates one mutation of one base and reports.
func vkSigCase(r *vkRun, caseKey string, b *vkBase, m vkMut) {
	c := r.c
	k, s, rr := m.Apply(b)
	v := vkJudge(k, s, rr)
	c.Add("evaluations", 1)
	fam := b.key.Fam
	report := func(kind, msg string) {
		// reproduce on fresh objects (fresh signature for randomized-free signers is identical)
		k2, s2, rr2 := m.Apply(b)
		v2 := vkJudge(k2, s2, rr2)
		if v2.sdns != v.sdns || v2.ref != v.ref || v2.dispatch != v.dispatch || (v2.panicMsg == "") != (v.panicMsg == "") {
			c.HarnessError(fmt.Sprintf("%s: verdicts not reproducible (%+v vs %+v)", caseKey, v, v2))
			return
		}
		c.Violation(caseKey+"|"+kind, fmt.Sprintf("%s: key=%s rrset=%s mutation=%s: %s (sdns verifySignature accept=%v, cryptoVerify accept=%v, library accept=%v, reference accept=%v via %s)",
			kind, b.key.Name, b.spec.Name, m.Name, msg, v.sdns, v.dispatch, v.lib, v.ref, v.refHow),
			map[string]any{"section": strings.SplitN(caseKey, "|", 2)[0], "case": caseKey})
	}
	if v.selfCheck != "" {
		c.HarnessError(caseKey + ": reference self-check: " + v.selfCheck)
		return
	}
	if v.panicMsg != "" {
		report("panic", "sdns panicked: "+v.panicMsg)
		return
	}
	if v.sdns != v.dispatch {
		report("dispatch-differs", "cryptoVerify and verifySignature disagree")
		return
	}
	if v.refHow == "nil-input" || v.refHow == "nil-record" {
		if v.sdns {
			report("accepts-nil", "accepted a nil key/signature/record")
			return
		}
		c.Outcome("sig:reject-nil-input")
		return
	}
	nontrivial := v.ref || m.Near
	switch {
	case v.sdns && !v.ref:
		report("more-permissive", "sdns ACCEPTS a signature the reference rejects")
	case !v.sdns && v.ref && v.strict == "":
		report("rejects-valid", "sdns rejects a signature that is valid for this key over the canonical RRset, key within the documented limits, and no documented strictness applies")
	case !v.sdns && v.ref:
		c.Outcome("sig:stricter:" + v.strict + ":" + fam)
	case v.sdns && v.refHow == "math":
		c.Outcome("sig:both-accept(wide exponent, math/big reference):" + fam)
	case v.sdns:
		c.Outcome("sig:both-accept:" + fam)
	default:
		c.Outcome("sig:both-reject:" + fam)
	}
	if nontrivial {
		c.DistinctStr("nontrivial", caseKey)
	}
	if v.ref && m.Name == "asis" {
		c.Sample(map[string]any{"section": "sig", "case": caseKey, "sdns": v.sdns, "reference": v.ref, "via": v.refHow})
	}
}

// vkSigSection enumerates bases x mutations.
func vkSigSection(r *vkRun, thorough bool) {
	keys := vkSigKeys(thorough)
	structural := vkStructMuts()
	em := vkEMMuts()
	quickFlipSets := map[string]bool{"a1": true, "mx2": true, "wild-a": true, "txt3": true, "ns2-apex": true, "soa": true, "evil-boundary": true, "aaaa-dup": true, "wild-deep": true, "esc-owner": true, "wild-esc": true}
	bases := 0
	for ki, key := range keys {
		for si := range vkRRsets {
			spec := &vkRRsets[si]
			if r.stop() {
				return
			}
			// which RRsets a key meets: the first (simplest) keys meet all of
			// them; later keys meet the first three (quick) or all (thorough)
			_, _ = ki, si
			b := &vkBase{key: key, spec: spec}
			bases++
			run := func(m vkMut) {
				if !r.take("sig|" + b.name() + "|" + m.Name) {
					return
				}
				if err := b.prepare(); err != nil {
					r.c.Outcome("sig:base-unsignable")
					return
				}
				vkSigCase(r, "sig|"+b.name()+"|"+m.Name, b, m)
			}
			for _, m := range structural {
				run(m)
			}
			if key.Fam == "rsa" {
				for _, m := range em {
					run(m)
				}
			}
			// octet mutations need the signature length; computing it needs the base
			wantOctets := quickFlipSets[spec.Name]
			if thorough {
				switch {
				case key.Bits >= 4096:
					wantOctets = si < 4
				case key.Bits >= 2048 || key.Fam == "p384":
					wantOctets = si < 10
				default:
					wantOctets = true
				}
			}
			if !wantOctets {
				continue
			}
			stride := 1
			if !thorough && (key.Bits >= 4096 || key.Fam == "p384") && spec.Name != "a1" {
				stride = 8
			}
			if r.only != "" {
				if len(r.only) < len("sig|"+b.name()) || r.only[:len("sig|"+b.name())] != "sig|"+b.name() {
					continue
				}
			}
			if err := b.prepare(); err != nil {
				continue
			}
			for _, m := range vkOctetMuts(b, stride) {
				if r.stop() {
					return
				}
				run(m)
			}
		}
	}
	r.c.Note(fmt.Sprintf("signature section: %d keys, %d RRsets, %d (key,RRset) bases, %d structural + %d EM mutations per base, every bit flip and truncation of each signature", len(keys), len(vkRRsets), bases, len(structural), len(em)))
}

// vkDispatchSection: every algorithm number 0-255 through cryptoVerify and
// verifySignature, for each family of key material.
func vkDispatchSection(r *vkRun) {
	mats := []*vkKey{
		vkRSAKey(1024, "e65537", dns.RSASHA256, 0, 257, 3),
		vkRSAKey(1024, "e2p32p1", dns.RSASHA256, 0, 257, 3),
	}
	for _, k := range vkSigKeys(false) {
		if k.Fam != "rsa" && k.Key.Flags == 257 && k.Key.Protocol == 3 {
			mats = append(mats, k)
		}
	}
	spec := vkRRset("a1")
	for _, mat := range mats {
		for alg := 0; alg < 256; alg++ {
			caseKey := fmt.Sprintf("dispatch|%s|alg%d", mat.Name, alg)
			if !r.take(caseKey) {
				continue
			}
			k := *mat
			k.Key = mat.clone()
			k.Key.Algorithm = uint8(alg)
			k.Name = fmt.Sprintf("%s-as-alg%d", mat.Name, alg)
			b := &vkBase{key: &k, spec: spec}
			if err := b.prepare(); err != nil {
				// the library cannot sign under this algorithm number: take the
				// native signature and relabel it (mathematically meaningless)
				nb := &vkBase{key: mat, spec: spec}
				if err := nb.prepare(); err != nil {
					r.c.HarnessError("dispatch: native base unsignable: " + err.Error())
					return
				}
				b.ready, b.err = true, nil
				b.sig = dns.Copy(nb.sig).(*dns.RRSIG)
				b.sig.Algorithm = uint8(alg)
				b.sig.KeyTag, _ = vkLibKeyTag(k.Key)
				b.view = nb.view
				b.raw = nb.raw
			}
			vkSigCase(r, caseKey, b, vkMut{Name: fmt.Sprintf("alg%d", alg), Near: false, Apply: func(b *vkBase) (*dns.DNSKEY, *dns.RRSIG, []dns.RR) { return b.fresh() }})
		}
	}
}

// vkUnicodeFoldSection: names are compared octet-wise with ASCII case folding
// only (RFC 4343). Owner / signer names that differ from the RRSIG's or the
// key's by a non-ASCII rune whose Unicode simple fold is an ASCII letter
// (U+212A KELVIN SIGN -> k, U+017F LONG S -> s) are DIFFERENT names.
func vkUnicodeFoldSection(r *vkRun) {
	key := vkEdKey(0, dns.ED25519, 257, 3)
	type uc struct {
		id    string
		apply func(b *vkBase) (*dns.DNSKEY, *dns.RRSIG, []dns.RR)
	}
	sign := func(k *vkKey, owner, signer, sigOwner string, keyOwner string) (*dns.DNSKEY, *dns.RRSIG, []dns.RR) {
		kk := *k
		kk.Key = k.clone()
		kk.Key.Hdr.Name = signer
		spec := &vkRRsetSpec{Name: "x", Signed: []string{"placeholder.example.org. 300 IN A 192.0.2.1"}}
		signed := vkParse(spec.Signed)
		signed[0].Header().Name = owner
		tag, _ := vkLibKeyTag(kk.Key)
		sig := &dns.RRSIG{Hdr: dns.RR_Header{Rrtype: dns.TypeRRSIG, Class: dns.ClassINET, Ttl: 300}, Algorithm: kk.Key.Algorithm,
			Expiration: 1<<32 - 1, OrigTtl: 300, KeyTag: tag, SignerName: signer}
		sg := *k.Signer
		if err := sig.Sign(&sg, signed); err != nil {
			panic(err)
		}
		sig.Hdr.Name = sigOwner
		out := kk.clone()
		out.Hdr.Name = keyOwner
		return out, sig, signed
	}
	cases := []uc{
		{"control-ascii-case", func(b *vkBase) (*dns.DNSKEY, *dns.RRSIG, []dns.RR) {
			return sign(key, "K.example.org.", "example.org.", "k.example.org.", "Example.ORG.")
		}},
		{"rrsig-owner-kelvin", func(b *vkBase) (*dns.DNSKEY, *dns.RRSIG, []dns.RR) {
			return sign(key, "\u212a.example.org.", "example.org.", "k.example.org.", "example.org.")
		}},
		{"key-owner-kelvin", func(b *vkBase) (*dns.DNSKEY, *dns.RRSIG, []dns.RR) {
			return sign(key, "a.key.org.", "key.org.", "a.key.org.", "\u212aey.org.")
		}},
	}
	for _, u := range cases {
		caseKey := "sig|unicode-fold|" + u.id
		if !r.take(caseKey) {
			continue
		}
		b := &vkBase{key: key, spec: &vkRRsetSpec{Name: "unicode-fold"}, ready: true}
		vkSigCase(r, caseKey, b, vkMut{Name: u.id, Near: true, Apply: u.apply})
	}
}

func TestVerifC14(t *testing.T) {
	c := vkit.Init("C14/diff")
	defer c.Close()
	r := &vkRun{c: c, chunk: 16}
	thorough := c.Thorough()
	if c.Replay != nil {
		var p struct {
			Section string `json:"section"`
			Case    string `json:"case"`
			Tier    string `json:"tier"`
		}
		if err := json.Unmarshal(c.Replay, &p); err != nil || p.Case == "" {
			c.HarnessError("bad replay payload")
			return
		}
		r.only = p.Case
		thorough = true // the thorough grammar is a superset of the quick one
	}
	defer func() {
		if p := recover(); p != nil {
			c.HarnessError(fmt.Sprintf("harness panic: %v", p))
		}
	}()
	sections := []struct {
		prefix string
		run    func()
	}{
		{"keytag|", func() { vkKeyTagSection(r, thorough) }},
		{"ds|", func() { vkDSSection(r, thorough) }},
		{"sig|", func() { vkSigSection(r, thorough) }},
		{"sig|unicode-fold|", func() { vkUnicodeFoldSection(r) }},
		{"dispatch|", func() { vkDispatchSection(r) }},
		{"verify", func() { vkMsgSection(r, thorough) }},
		{"work|", func() { vkWorkSection(r) }},
	}
	for _, s := range sections {
		if r.only != "" && !strings.HasPrefix(r.only, s.prefix) {
			continue
		}
		s.run()
	}
	if r.only != "" && c.NumViolations() == 0 {
		c.Note("replayed case " + r.only + ": property held")
	}
}
