//go:build verif

package dnssec

// C14 — independent reference side: signers (plain math/big RSA incl. wide
// exponents, deterministic ECDSA, Ed25519), an independent RFC 4034 canonical
// signed-data builder, an independent EMSA-PKCS1-v1_5 verifier, and guarded
// wrappers around the miekg/dns library (DNSKEY.KeyTag, DNSKEY.ToDS,
// RRSIG.Verify). Nothing here calls sdns code.

import (
	"bytes"
	"crypto"
	"crypto/ed25519"
	"crypto/elliptic"
	"crypto/sha1"
	"crypto/sha256"
	"crypto/sha512"
	"encoding/asn1"
	"encoding/base64"
	"encoding/binary"
	"errors"
	"fmt"
	"io"
	"math/big"
	"sort"
	"strings"
	"sync"

	"github.com/miekg/dns"
)

// ---------------------------------------------------------------- RSA private side

type vkRSAPriv struct {
	bits         int
	n, p, q      *big.Int
	pm1, qm1     *big.Int
	qinv         *big.Int
	mu           sync.Mutex
	dCache       map[string]*big.Int
}

var (
	vkRSAMu    sync.Mutex
	vkRSACache = map[int]*vkRSAPriv{}
	vkOne      = big.NewInt(1)
)

func vkHexInt(s string) *big.Int {
	v, ok := new(big.Int).SetString(s, 16)
	if !ok {
		panic("vk: bad embedded hex")
	}
	return v
}

func vkRSA(bits int) *vkRSAPriv {
	vkRSAMu.Lock()
	defer vkRSAMu.Unlock()
	if k, ok := vkRSACache[bits]; ok {
		return k
	}
	for _, pp := range vkPrimes {
		if pp.bits != bits {
			continue
		}
		p, q := vkHexInt(pp.p), vkHexInt(pp.q)
		k := &vkRSAPriv{bits: bits, p: p, q: q, n: new(big.Int).Mul(p, q), dCache: map[string]*big.Int{}}
		k.pm1 = new(big.Int).Sub(p, vkOne)
		k.qm1 = new(big.Int).Sub(q, vkOne)
		k.qinv = new(big.Int).ModInverse(q, p)
		if k.n.BitLen() != bits {
			panic(fmt.Sprintf("vk: embedded modulus has %d bits, want %d", k.n.BitLen(), bits))
		}
		vkRSACache[bits] = k
		return k
	}
	panic(fmt.Sprintf("vk: no embedded primes for %d bits", bits))
}

// privExp returns d = e^-1 mod (p-1)(q-1), nil when e is not invertible.
func (k *vkRSAPriv) privExp(e *big.Int) *big.Int {
	k.mu.Lock()
	defer k.mu.Unlock()
	if d, ok := k.dCache[e.String()]; ok {
		return d
	}
	phi := new(big.Int).Mul(k.pm1, k.qm1)
	d := new(big.Int).ModInverse(e, phi)
	k.dCache[e.String()] = d
	return d
}

// rawSign computes em^d mod n with the CRT, left-padded to the modulus width.
func (k *vkRSAPriv) rawSign(e *big.Int, em []byte) ([]byte, error) {
	d := k.privExp(e)
	if d == nil {
		return nil, errors.New("vk: exponent not invertible")
	}
	c := new(big.Int).SetBytes(em)
	if c.Cmp(k.n) >= 0 {
		return nil, errors.New("vk: encoded message >= modulus")
	}
	dp := new(big.Int).Mod(d, k.pm1)
	dq := new(big.Int).Mod(d, k.qm1)
	m1 := new(big.Int).Exp(c, dp, k.p)
	m2 := new(big.Int).Exp(c, dq, k.q)
	h := new(big.Int).Sub(m1, m2)
	h.Mul(h, k.qinv)
	h.Mod(h, k.p)
	m := h.Mul(h, k.q)
	m.Add(m, m2)
	size := (k.n.BitLen() + 7) / 8
	return m.FillBytes(make([]byte, size)), nil
}

// vkRSAPub encodes an RFC 3110 public key.
// form 0: canonical; 1: three-octet exponent length; 2: leading zero octet on
// the exponent; 3: leading zero octet on the modulus.
func vkRSAPub(e, n *big.Int, form int) []byte {
	eb := e.Bytes()
	nb := n.Bytes()
	if form == 2 {
		eb = append([]byte{0}, eb...)
	}
	if form == 3 {
		nb = append([]byte{0}, nb...)
	}
	var out []byte
	if len(eb) < 256 && form != 1 {
		out = append(out, byte(len(eb)))
	} else {
		out = append(out, 0, byte(len(eb)>>8), byte(len(eb)))
	}
	out = append(out, eb...)
	return append(out, nb...)
}

// ---------------------------------------------------------------- DigestInfo / EMSA-PKCS1-v1_5 (independent)

type vkAlgID struct {
	Algorithm  asn1.ObjectIdentifier
	Parameters asn1.RawValue `asn1:"optional"`
}
type vkDigestInfo struct {
	Alg    vkAlgID
	Digest []byte
}

var (
	vkOIDSHA1   = asn1.ObjectIdentifier{1, 3, 14, 3, 2, 26}
	vkOIDSHA256 = asn1.ObjectIdentifier{2, 16, 840, 1, 101, 3, 4, 2, 1}
	vkOIDSHA512 = asn1.ObjectIdentifier{2, 16, 840, 1, 101, 3, 4, 2, 3}
)

func vkHashOID(h crypto.Hash) asn1.ObjectIdentifier {
	switch h {
	case crypto.SHA1:
		return vkOIDSHA1
	case crypto.SHA256:
		return vkOIDSHA256
	case crypto.SHA512:
		return vkOIDSHA512
	}
	return nil
}

// vkDigestInfoDER builds T of RFC 8017 §9.2 with encoding/asn1. withNull=false
// gives the parameter-less variant some signers emit and verifiers must refuse.
func vkDigestInfoDER(oid asn1.ObjectIdentifier, digest []byte, withNull bool) []byte {
	di := vkDigestInfo{Alg: vkAlgID{Algorithm: oid}, Digest: digest}
	if withNull {
		di.Alg.Parameters = asn1.NullRawValue
	}
	b, err := asn1.Marshal(di)
	if err != nil {
		panic(err)
	}
	return b
}

// vkEM builds an encoded message of `size` octets. Modes:
//
//	ok          00 01 FF..FF 00 T
//	type2       00 02 FF..FF 00 T
//	ps-nonff    one 0xFE inside the padding string
//	garbage     00 01 FF*8 00 T garbage.. (short padding, trailing junk)
//	no-null     DigestInfo without the NULL parameters
//	wrong-oid   DigestInfo names SHA-256 for a SHA-1/512 digest and vice versa
//	no-sep      the 00 separator replaced by FF
func vkEM(mode string, size int, h crypto.Hash, digest []byte) ([]byte, error) {
	oid := vkHashOID(h)
	if oid == nil {
		return nil, errors.New("vk: unsupported hash")
	}
	t := vkDigestInfoDER(oid, digest, true)
	switch mode {
	case "no-null":
		t = vkDigestInfoDER(oid, digest, false)
	case "wrong-oid":
		o := vkOIDSHA256
		if h == crypto.SHA256 {
			o = vkOIDSHA512
		}
		t = vkDigestInfoDER(o, digest, true)
	}
	if size < len(t)+11 {
		return nil, errors.New("vk: modulus too short for EM")
	}
	em := make([]byte, size)
	em[1] = 1
	psEnd := size - len(t) - 1
	if mode == "garbage" {
		psEnd = 10
	}
	for i := 2; i < psEnd; i++ {
		em[i] = 0xff
	}
	copy(em[psEnd+1:], t)
	if mode == "garbage" {
		for i := psEnd + 1 + len(t); i < size; i++ {
			em[i] = 0xa5
		}
	}
	switch mode {
	case "type2":
		em[1] = 2
	case "ps-nonff":
		em[5] = 0xfe
	case "no-sep":
		em[psEnd] = 0xff
	}
	return em, nil
}

// vkRefRSAParse splits an RFC 3110 key without judging it.
func vkRefRSAParse(pub []byte) (n, e *big.Int, canonical, ok bool) {
	if len(pub) < 1 {
		return
	}
	explen, off := int(pub[0]), 1
	if explen == 0 {
		if len(pub) < 3 {
			return
		}
		explen, off = int(pub[1])<<8|int(pub[2]), 3
	}
	if explen == 0 || len(pub) <= off+explen {
		return
	}
	eb, nb := pub[off:off+explen], pub[off+explen:]
	canonical = eb[0] != 0 && nb[0] != 0
	return new(big.Int).SetBytes(nb), new(big.Int).SetBytes(eb), canonical, true
}

func vkRSAAlgHash(alg uint8) (crypto.Hash, bool) {
	switch alg {
	case dns.RSASHA1, dns.RSASHA1NSEC3SHA1:
		return crypto.SHA1, true
	case dns.RSASHA256:
		return crypto.SHA256, true
	case dns.RSASHA512:
		return crypto.SHA512, true
	}
	return 0, false
}

func vkDigest(h crypto.Hash, data []byte) []byte {
	switch h {
	case crypto.SHA1:
		s := sha1.Sum(data)
		return s[:]
	case crypto.SHA256:
		s := sha256.Sum256(data)
		return s[:]
	case crypto.SHA384:
		s := sha512.Sum384(data)
		return s[:]
	case crypto.SHA512:
		s := sha512.Sum512(data)
		return s[:]
	}
	return nil
}

// vkRefRSAVerify: s^e mod n parsed (not rebuilt) as EMSA-PKCS1-v1_5.
func vkRefRSAVerify(n, e *big.Int, alg uint8, signed, sig []byte) bool {
	h, ok := vkRSAAlgHash(alg)
	if !ok || n.Sign() <= 0 || e.Sign() <= 0 {
		return false
	}
	size := (n.BitLen() + 7) / 8
	if len(sig) != size {
		return false
	}
	c := new(big.Int).SetBytes(sig)
	if c.Cmp(n) >= 0 {
		return false
	}
	em := new(big.Int).Exp(c, e, n).FillBytes(make([]byte, size))
	t := vkDigestInfoDER(vkHashOID(h), vkDigest(h, signed), true)
	if size < len(t)+11 {
		return false
	}
	if em[0] != 0 || em[1] != 1 {
		return false
	}
	sep := size - len(t) - 1
	for i := 2; i < sep; i++ {
		if em[i] != 0xff {
			return false
		}
	}
	return em[sep] == 0 && bytes.Equal(em[sep+1:], t)
}

// ---------------------------------------------------------------- signers (crypto.Signer for RRSIG.Sign)

type vkSigner struct {
	kind  string // rsa | ecdsa | ed25519
	rsa   *vkRSAPriv
	e     *big.Int
	em    string // RSA encoded-message mode ("" = ok)
	curve elliptic.Curve
	d     *big.Int
	ed    ed25519.PrivateKey
	nonce int // ECDSA: nonce stream selector
}

func (s *vkSigner) Public() crypto.PublicKey { return nil }

func (s *vkSigner) Sign(_ io.Reader, digest []byte, opts crypto.SignerOpts) ([]byte, error) {
	switch s.kind {
	case "rsa":
		mode := s.em
		if mode == "" {
			mode = "ok"
		}
		size := (s.rsa.n.BitLen() + 7) / 8
		em, err := vkEM(mode, size, opts.HashFunc(), digest)
		if err != nil {
			return nil, err
		}
		if s.e.Cmp(vkOne) == 0 {
			return em, nil // e = 1: the "signature" is the encoded message itself
		}
		return s.rsa.rawSign(s.e, em)
	case "ecdsa":
		r, ss := vkECDSASign(s.curve, s.d, digest, s.nonce)
		return asn1.Marshal(struct{ R, S *big.Int }{r, ss})
	case "ed25519":
		return ed25519.Sign(s.ed, digest), nil
	}
	return nil, errors.New("vk: unknown signer")
}

// vkECDSASign is textbook ECDSA with a nonce derived from (d, digest, stream).
func vkECDSASign(curve elliptic.Curve, d *big.Int, digest []byte, stream int) (r, s *big.Int) {
	n := curve.Params().N
	z := new(big.Int).SetBytes(digest)
	if excess := len(digest)*8 - n.BitLen(); excess > 0 {
		z.Rsh(z, uint(excess))
	}
	for ctr := 0; ; ctr++ {
		seed := sha512.Sum512(append(append(d.Bytes(), digest...), byte(stream), byte(stream>>8), byte(ctr), byte(ctr>>8)))
		k := new(big.Int).SetBytes(seed[:])
		k.Mod(k, new(big.Int).Sub(n, vkOne))
		k.Add(k, vkOne)
		x, _ := curve.ScalarBaseMult(k.Bytes()) //nolint:staticcheck // independent textbook signer
		r = new(big.Int).Mod(x, n)
		if r.Sign() == 0 {
			continue
		}
		s = new(big.Int).Mul(r, d)
		s.Add(s, z)
		s.Mul(s, new(big.Int).ModInverse(k, n))
		s.Mod(s, n)
		if s.Sign() == 0 {
			continue
		}
		return r, s
	}
}

func vkECDSAPub(curve elliptic.Curve, d *big.Int) []byte {
	x, y := curve.ScalarBaseMult(d.Bytes()) //nolint:staticcheck
	size := (curve.Params().BitSize + 7) / 8
	out := make([]byte, 2*size)
	x.FillBytes(out[:size])
	y.FillBytes(out[size:])
	return out
}

// ---------------------------------------------------------------- library wrappers (guarded)

func vkB64(b []byte) string { return base64.StdEncoding.EncodeToString(b) }

// vkLibKeyTag is dns.DNSKEY.KeyTag; the library panics on RSAMD5 material that
// decodes to exactly two octets, in which case RFC 4034 B.1 is applied by hand
// (the 16 bits above the lowest 8 of the modulus; none -> 0).
func vkLibKeyTag(k *dns.DNSKEY) (tag uint16, how string) {
	defer func() {
		if r := recover(); r != nil {
			tag, how = 0, "library-panicked"
			if k != nil && k.Algorithm == dns.RSAMD5 {
				buf := make([]byte, base64.StdEncoding.DecodedLen(len(k.PublicKey)))
				n, _ := base64.StdEncoding.Decode(buf, []byte(k.PublicKey))
				if n >= 3 {
					tag = binary.BigEndian.Uint16(buf[n-3:])
				}
			}
		}
	}()
	return k.KeyTag(), "library"
}

func vkLibToDS(k *dns.DNSKEY, dt uint8) (ds *dns.DS) {
	defer func() {
		if r := recover(); r != nil {
			ds = nil
		}
	}()
	return k.ToDS(dt)
}

// vkLibVerify: nil error = library accepts; panicked reports a library crash
// (reference unavailable, counted as "rejects").
func vkLibVerify(k *dns.DNSKEY, sig *dns.RRSIG, rrset []dns.RR) (accept, panicked bool) {
	defer func() {
		if r := recover(); r != nil {
			accept, panicked = false, true
		}
	}()
	return sig.Verify(k, rrset) == nil, false
}

// ---------------------------------------------------------------- independent canonical signed data + binding

func vkASCIILower(s string) string {
	b := []byte(s)
	for i, c := range b {
		if c >= 'A' && c <= 'Z' {
			b[i] = c + 32
		}
	}
	return string(b)
}

func vkFqdnLower(s string) string {
	s = vkASCIILower(s)
	if !dns.IsFqdn(s) {
		s += "."
	}
	return s
}

func vkWireName(name string) ([]byte, bool) {
	buf := make([]byte, 300)
	off, err := dns.PackDomainName(name, buf, 0, nil, false)
	if err != nil {
		return nil, false
	}
	return buf[:off], true
}

func vkLowerRdataNames(r dns.RR) {
	switch x := r.(type) {
	case *dns.NS:
		x.Ns = vkFqdnLower(x.Ns)
	case *dns.CNAME:
		x.Target = vkFqdnLower(x.Target)
	case *dns.SOA:
		x.Ns, x.Mbox = vkFqdnLower(x.Ns), vkFqdnLower(x.Mbox)
	case *dns.PTR:
		x.Ptr = vkFqdnLower(x.Ptr)
	case *dns.MX:
		x.Mx = vkFqdnLower(x.Mx)
	case *dns.SRV:
		x.Target = vkFqdnLower(x.Target)
	case *dns.DNAME:
		x.Target = vkFqdnLower(x.Target)
	// the rest of the RFC 4034 6.2 list (RFC 6840 5.1 takes NSEC out; the library leaves RRSIG's signer as is)
	case *dns.MD:
		x.Md = vkFqdnLower(x.Md)
	case *dns.MF:
		x.Mf = vkFqdnLower(x.Mf)
	case *dns.MB:
		x.Mb = vkFqdnLower(x.Mb)
	case *dns.MG:
		x.Mg = vkFqdnLower(x.Mg)
	case *dns.MR:
		x.Mr = vkFqdnLower(x.Mr)
	case *dns.MINFO:
		x.Rmail, x.Email = vkFqdnLower(x.Rmail), vkFqdnLower(x.Email)
	case *dns.RP:
		x.Mbox, x.Txt = vkFqdnLower(x.Mbox), vkFqdnLower(x.Txt)
	case *dns.AFSDB:
		x.Hostname = vkFqdnLower(x.Hostname)
	case *dns.RT:
		x.Host = vkFqdnLower(x.Host)
	case *dns.SIG:
		x.SignerName = vkFqdnLower(x.SignerName)
	case *dns.PX:
		x.Map822, x.Mapx400 = vkFqdnLower(x.Map822), vkFqdnLower(x.Mapx400)
	case *dns.NAPTR:
		x.Replacement = vkFqdnLower(x.Replacement)
	case *dns.KX:
		x.Exchanger = vkFqdnLower(x.Exchanger)
	}
}

// vkRefSigned is RFC 4034 §3.1.8.1: RRSIG RDATA (without signature) followed
// by the canonical RRset (§6.2 form, §6.3 order, duplicates dropped).
func vkRefSigned(sig *dns.RRSIG, rrset []dns.RR) ([]byte, bool) {
	var buf []byte
	buf = binary.BigEndian.AppendUint16(buf, sig.TypeCovered)
	buf = append(buf, sig.Algorithm, sig.Labels)
	buf = binary.BigEndian.AppendUint32(buf, sig.OrigTtl)
	buf = binary.BigEndian.AppendUint32(buf, sig.Expiration)
	buf = binary.BigEndian.AppendUint32(buf, sig.Inception)
	buf = binary.BigEndian.AppendUint16(buf, sig.KeyTag)
	sn, ok := vkWireName(vkFqdnLower(sig.SignerName))
	if !ok {
		return nil, false
	}
	buf = append(buf, sn...)

	type rec struct{ head, rdata []byte }
	var recs []rec
	for _, r := range rrset {
		c := dns.Copy(r)
		h := c.Header()
		h.Ttl = sig.OrigTtl
		labels := dns.SplitDomainName(h.Name)
		owner := h.Name
		if len(labels) > int(sig.Labels) {
			owner = "*." + strings.Join(labels[len(labels)-int(sig.Labels):], ".") + "."
		}
		h.Name = vkFqdnLower(owner)
		vkLowerRdataNames(c)
		w := make([]byte, dns.Len(c)+16)
		n, err := dns.PackRR(c, w, 0, nil, false)
		if err != nil {
			return nil, false
		}
		on, ok := vkWireName(h.Name)
		if !ok {
			return nil, false
		}
		cut := len(on) + 10
		if cut > n {
			return nil, false
		}
		recs = append(recs, rec{head: w[:cut], rdata: w[cut:n]})
	}
	sort.SliceStable(recs, func(i, j int) bool { return bytes.Compare(recs[i].rdata, recs[j].rdata) < 0 })
	for i, r := range recs {
		if i > 0 && bytes.Equal(r.rdata, recs[i-1].rdata) && bytes.Equal(r.head, recs[i-1].head) {
			continue
		}
		buf = append(buf, r.head...)
		buf = append(buf, r.rdata...)
	}
	return buf, true
}

func vkASCIIEqualFold(a, b string) bool { return vkASCIILower(a) == vkASCIILower(b) }

// vkRefBinding is the RFC 4034 §3.1 / RFC 4035 §5.3.1 preflight as the library
// applies it (suffix containment, not label-boundary containment).
func vkRefBinding(k *dns.DNSKEY, sig *dns.RRSIG, rrset []dns.RR) bool {
	if k == nil || sig == nil || len(rrset) == 0 {
		return false
	}
	h0 := rrset[0].Header()
	for _, r := range rrset[1:] {
		h := r.Header()
		if h.Name != h0.Name || h.Rrtype != h0.Rrtype || h.Class != h0.Class {
			return false
		}
	}
	tag, _ := vkLibKeyTag(k)
	if sig.KeyTag != tag || sig.Hdr.Class != k.Hdr.Class || sig.Algorithm != k.Algorithm {
		return false
	}
	signer := vkFqdnLower(sig.SignerName)
	if !vkASCIIEqualFold(signer, k.Hdr.Name) {
		return false
	}
	if k.Protocol != 3 || k.Flags&0x0100 == 0 {
		return false
	}
	if h0.Class != sig.Hdr.Class || h0.Rrtype != sig.TypeCovered ||
		uint8(dns.CountLabel(h0.Name)) < sig.Labels ||
		!vkASCIIEqualFold(h0.Name, sig.Hdr.Name) ||
		!strings.HasSuffix(vkFqdnLower(h0.Name), signer) {
		return false
	}
	return true
}

// vkOnLabelBoundary reports whether owner lies in zone on a label boundary
// (RFC 4035 §5.3.1 containment), honouring escaped dots.
func vkOnLabelBoundary(owner, zone string) bool {
	owner, zone = vkFqdnLower(owner), vkFqdnLower(zone)
	if zone == "." || owner == zone {
		return true
	}
	if !strings.HasSuffix(owner, zone) || len(owner) <= len(zone) {
		return false
	}
	cut := len(owner) - len(zone)
	if owner[cut-1] != '.' {
		return false
	}
	bs := 0
	for i := cut - 2; i >= 0 && owner[i] == '\\'; i-- {
		bs++
	}
	return bs%2 == 0
}

func vkSigBytes(sig *dns.RRSIG) ([]byte, bool) {
	b, err := base64.StdEncoding.DecodeString(sig.Signature)
	if err != nil {
		// the library and sdns both use Decode on a DecodedLen buffer; DecodeString is the same decoder
		return nil, false
	}
	return b, true
}

// documented RSA bounds (rsa.go): modulus 1024..4096 bits, exponent odd, >= 3,
// < n, at most 64 bits, no leading zero octets.
func vkRSAWithinLimits(n, e *big.Int, canonical bool) bool {
	if !canonical {
		return false
	}
	if b := n.BitLen(); b < 1024 || b > 4096 {
		return false
	}
	return e.Bit(0) == 1 && e.Cmp(big.NewInt(3)) >= 0 && e.Cmp(n) < 0 && e.BitLen() <= 64
}
