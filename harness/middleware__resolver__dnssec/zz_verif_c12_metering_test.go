//go:build verif

package dnssec

// C12 / unit "metering" — every DNSSEC operation the validator performs is
// individually charged to the request tree's budget.
//
// The other C12 units count upstream packets and the ledger's own counters. A
// validator that computes twelve DS digests under ONE reservation never trips
// either. This unit counts the REAL primitive operations: vk's "patch" unit
// key puts a one-line vkcount.Bump("op:<kind>") into the build copy of the
// functions that actually compute a DS digest (dsDigestMatches, at the point
// the hash is created; DNSKEYToDSWithWork's key.ToDS call), run one
// cryptographic signature verification (cryptoVerify) and compute one iterated
// NSEC3 hash (calculateAggressiveNSEC3Hash). The harness drives the exported,
// work-metered primitives with an adapter over the REAL request-tree ledger
// (middleware.EnsureRecursionWork, enforce / shadow policy) that transcribes
// resolver.dnssecWorkBudget (package resolver itself cannot be imported from
// here: it imports dnssec) and logs every granted reservation in the same
// ordered event log.
//
// Oracle, per run and per kind k in {ds, sig, n3}:
//   - every prefix of the event log has ops[k] <= grants[k]  (each operation
//     was preceded by its own successful reservation; an operation without one
//     is work outside the budget), hence ops[k] <= B[k] in enforce mode;
//   - the ledger's own counter equals the reservations it granted;
//   - a run in which some reservation / local limit was refused ends in a work
//     error (IsWorkError), not in a verdict;
//   - a run in which nothing was refused (large budget, exact budget, shadow
//     mode) returns exactly the verdict of the same call with no work object;
//   - local limits: signature operations <= MaxRRsetSignatureChecks per RRset
//     and <= MaxDNSKEYCandidates per distinct RRSIG; DS digests <=
//     MaxDNSKEYCandidates per distinct DS.
// Not demanded: reserving more than is used, stopping early, charging a pair
// twice are all fine.

import (
	"context"
	"crypto"
	"crypto/ecdsa"
	"crypto/ed25519"
	"crypto/elliptic"
	"crypto/rand"
	"crypto/sha256"
	"encoding/base64"
	"encoding/json"
	"fmt"
	"sort"
	"strings"
	"testing"
	"time"

	"github.com/miekg/dns"
	"github.com/semihalev/sdns/internal/verifshim/vkcount"
	"github.com/semihalev/sdns/internal/verifshim/vkit"
	"github.com/semihalev/sdns/middleware"
)

const (
	vkMTLarge = uint32(1 << 20)
	vkMTZone  = "z.test."
)

var vkMTKinds = []string{"ds", "sig", "n3"}

// ---------------------------------------------------------------- budgets

type vkMTBudget struct {
	Mode string `json:"mode"` // "enforce" | "shadow"
	Sig  uint32 `json:"sig"`  // MaxSignatureChecks
	DS   uint32 `json:"ds"`   // MaxDSDigests
	N3   uint32 `json:"n3"`   // MaxNSEC3Hashes
	R    uint32 `json:"r"`    // MaxRRsetSignatureChecks (local)
	K    uint32 `json:"k"`    // MaxDNSKEYCandidates (local)
}

func vkMTLargeBudget(mode string) vkMTBudget {
	return vkMTBudget{Mode: mode, Sig: vkMTLarge, DS: vkMTLarge, N3: vkMTLarge, R: vkMTLarge, K: vkMTLarge}
}

func (b vkMTBudget) cap(kind string) uint32 {
	switch kind {
	case "ds":
		return b.DS
	case "sig":
		return b.Sig
	}
	return b.N3
}

func (b vkMTBudget) with(kind string, v uint32) vkMTBudget {
	switch kind {
	case "ds":
		b.DS = v
	case "sig":
		b.Sig = v
	default:
		b.N3 = v
	}
	return b
}

func vkMTu(v uint32) string {
	if v >= vkMTLarge {
		return "L"
	}
	return fmt.Sprint(v)
}

func (b vkMTBudget) String() string {
	return fmt.Sprintf("%s[sig=%s ds=%s n3=%s rrset=%s cand=%s]", b.Mode, vkMTu(b.Sig), vkMTu(b.DS), vkMTu(b.N3), vkMTu(b.R), vkMTu(b.K))
}

// ---------------------------------------------------------------- work adapter on the real ledger

// vkMTWork transcribes resolver.dnssecWorkBudget (limiter nil, as for a
// zero-value Resolver) over the real ledger and logs grants.
type vkMTWork struct {
	ctx     context.Context
	ledger  *middleware.RecursionWorkLedger
	refused int
	refKind []string
}

func vkMTNewWork(b vkMTBudget) *vkMTWork {
	mode := middleware.RecursionWorkEnforce
	if b.Mode == "shadow" {
		mode = middleware.RecursionWorkShadow
	}
	ctx, ledger := middleware.EnsureRecursionWork(context.Background(), middleware.RecursionWorkPolicy{
		Mode:                    mode,
		MaxOutboundQueries:      vkMTLarge,
		MaxInternalQueries:      vkMTLarge,
		MaxDNSKEYCandidates:     b.K,
		MaxRRsetSignatureChecks: b.R,
		MaxSignatureChecks:      b.Sig,
		MaxDSDigests:            b.DS,
		MaxNSEC3Hashes:          b.N3,
		MaxConcurrentCrypto:     4,
	})
	return &vkMTWork{ctx: ctx, ledger: ledger}
}

func (w *vkMTWork) refuse(what string, err error) error {
	w.refused++
	w.refKind = append(w.refKind, what)
	return err
}

func (w *vkMTWork) CheckDNSKEYCandidate(used uint32) error {
	if err := middleware.CheckRecursionWorkLocalLimit(w.ctx, middleware.RecursionWorkDNSKEYCandidate, used); err != nil {
		return w.refuse("candidates", err)
	}
	return nil
}

func (w *vkMTWork) CheckRRsetSignature(used uint32) error {
	if err := middleware.CheckRecursionWorkLocalLimit(w.ctx, middleware.RecursionWorkRRsetSignature, used); err != nil {
		return w.refuse("rrset-signatures", err)
	}
	return nil
}

func (w *vkMTWork) begin(kind string, k middleware.RecursionWorkKind) (func(), error) {
	if err := w.ctx.Err(); err != nil {
		return nil, err
	}
	if err := middleware.DebitRecursionWork(w.ctx, k); err != nil {
		return nil, w.refuse(kind, err)
	}
	vkcount.Bump("grant:" + kind)
	return func() { vkcount.Bump("release:" + kind) }, nil
}

func (w *vkMTWork) BeginSignature() (func(), error) {
	return w.begin("sig", middleware.RecursionWorkSignature)
}
func (w *vkMTWork) BeginDSDigest() (func(), error) {
	return w.begin("ds", middleware.RecursionWorkDSDigest)
}
func (w *vkMTWork) BeginNSEC3Hash() (func(), error) {
	return w.begin("n3", middleware.RecursionWorkNSEC3Hash)
}

// vkMTWorkMemo adds the production adapter's NSEC3HashMemoProvider side.
type vkMTWorkMemo struct {
	*vkMTWork
	memo *NSEC3HashMemo
}

func (w vkMTWorkMemo) NSEC3HashMemos() NSEC3HashMemoAccess {
	return NSEC3HashMemoAccess{Read: w.memo, Write: w.memo}
}

// ---------------------------------------------------------------- key material

type vkMTKeys struct {
	alg    uint8
	real   *dns.DNSKEY
	signer crypto.Signer
	tag    uint16
	before []*dns.DNSKEY // same-tag keys that sort before the real key
	after  []*dns.DNSKEY // ... after
	pool   []*dns.DNSKEY // 4 same-tag keys in sorted order (DS family)
	other  []*dns.DNSKEY // 4 unrelated keys (bogus digests of the right length)
}

func vkMTDNSKEY(alg uint8, pub []byte) *dns.DNSKEY {
	return &dns.DNSKEY{
		Hdr:       dns.RR_Header{Name: vkMTZone, Rrtype: dns.TypeDNSKEY, Class: dns.ClassINET, Ttl: 3600},
		Flags:     257,
		Protocol:  3,
		Algorithm: alg,
		PublicKey: base64.StdEncoding.EncodeToString(pub),
	}
}

// vkMTTune sets the last two octets of pub so that the key has the wanted tag.
func vkMTTune(alg uint8, pub []byte, want uint16) *dns.DNSKEY {
	n := len(pub)
	for v := 0; v < 1<<16; v++ {
		pub[n-2], pub[n-1] = byte(v>>8), byte(v)
		k := vkMTDNSKEY(alg, pub)
		if KeyTag(k) == want {
			return k
		}
	}
	return nil
}

func vkMTSeedBytes(label string, n int) []byte {
	out := make([]byte, 0, n+32)
	for i := 0; len(out) < n; i++ {
		s := sha256.Sum256([]byte(fmt.Sprintf("vkMT/%s/%d", label, i)))
		out = append(out, s[:]...)
	}
	return out[:n]
}

var vkMTKeyCache = map[uint8]*vkMTKeys{}

func vkMTKeysFor(alg uint8) (*vkMTKeys, error) {
	if k, ok := vkMTKeyCache[alg]; ok {
		return k, nil
	}
	ks := &vkMTKeys{alg: alg}
	size := 32
	switch alg {
	case dns.ED25519:
		priv := ed25519.NewKeyFromSeed(vkMTSeedBytes("ed25519", ed25519.SeedSize))
		ks.signer = priv
		ks.real = vkMTDNSKEY(alg, priv.Public().(ed25519.PublicKey))
	case dns.ECDSAP256SHA256:
		size = 64
		priv, err := ecdsa.GenerateKey(elliptic.P256(), rand.Reader)
		if err != nil {
			return nil, err
		}
		raw, err := priv.PublicKey.Bytes()
		if err != nil || len(raw) != 65 {
			return nil, fmt.Errorf("cannot encode the P-256 key")
		}
		ks.signer = priv
		ks.real = vkMTDNSKEY(alg, raw[1:])
	default:
		return nil, fmt.Errorf("unsupported harness algorithm %d", alg)
	}
	ks.tag = KeyTag(ks.real)
	for i := 0; len(ks.before) < 3 || len(ks.after) < 3; i++ {
		if i > 4000 {
			return nil, fmt.Errorf("cannot find same-tag keys around the real key")
		}
		k := vkMTTune(alg, vkMTSeedBytes(fmt.Sprintf("fake/%d/%d", alg, i), size), ks.tag)
		if k == nil || k.PublicKey == ks.real.PublicKey {
			continue
		}
		if k.PublicKey < ks.real.PublicKey {
			if len(ks.before) < 3 {
				ks.before = append(ks.before, k)
			}
		} else if len(ks.after) < 3 {
			ks.after = append(ks.after, k)
		}
	}
	byKey := func(s []*dns.DNSKEY) {
		sort.Slice(s, func(i, j int) bool { return s[i].PublicKey < s[j].PublicKey })
	}
	byKey(ks.before)
	byKey(ks.after)
	ks.pool = append(ks.pool, ks.before[0], ks.before[1], ks.after[0], ks.after[1])
	byKey(ks.pool)
	for i := 0; i < 4; i++ {
		ks.other = append(ks.other, vkMTDNSKEY(alg, vkMTSeedBytes(fmt.Sprintf("other/%d/%d", alg, i), size)))
	}
	vkMTKeyCache[alg] = ks
	return ks, nil
}

// ---------------------------------------------------------------- case descriptor

type vkMTDSRec struct {
	Type   uint8 `json:"type"`
	Target int   `json:"target"` // index into the sorted same-tag key list, -1 = digest of an unrelated key
}

type vkMTCase struct {
	Fam string `json:"fam"` // ds | sig | n3
	Fn  string `json:"fn"`

	// ds
	NKeys int         `json:"nkeys,omitempty"`
	Clone bool        `json:"clone,omitempty"` // key map also lists a same-material clone (owner case, TTL differ)
	DS    []vkMTDSRec `json:"ds,omitempty"`

	// sig
	Alg    uint8  `json:"alg,omitempty"`
	Keys   string `json:"keys,omitempty"` // sorted candidate order, K = signing key, F = same-tag stranger
	Sigs   string `json:"sigs,omitempty"` // sorted RRSIG order: V valid, B bad signature, D exact duplicate of the previous, X expired
	RRsets int    `json:"rrsets,omitempty"`

	// n3
	Ring   string `json:"ring,omitempty"`
	Iter   uint16 `json:"iter,omitempty"`
	Salt   string `json:"salt,omitempty"`
	OptOut bool   `json:"optout,omitempty"`
	Signer string `json:"signer,omitempty"`
	QName  string `json:"qname,omitempty"`
	QType  uint16 `json:"qtype,omitempty"`
	Labels int    `json:"labels,omitempty"`
	Memo   string `json:"memo,omitempty"` // none | fresh | warm

	Budget *vkMTBudget `json:"budget,omitempty"`
}

func (cs vkMTCase) shapeKey() string {
	cs.Budget = nil
	b, _ := json.Marshal(cs)
	return string(b)
}

// vkMTShape is a case made concrete: run executes the function once.
type vkMTShape struct {
	cs        vkMTCase
	run       func(w *vkMTWork, memo *NSEC3HashMemo) (string, error)
	rrsets    int // sig: RRsets in the message
	uniqSigs  int // sig: distinct RRSIGs
	uniqDS    int // ds: distinct DS records
	usesMemo  bool
	kindsUsed []string
}

// ---------------------------------------------------------------- DS family

func vkMTBuildDS(cs vkMTCase) (*vkMTShape, error) {
	ks, err := vkMTKeysFor(dns.ED25519)
	if err != nil {
		return nil, err
	}
	if cs.NKeys < 1 || cs.NKeys > len(ks.pool) {
		return nil, fmt.Errorf("bad key count")
	}
	keys := append([]*dns.DNSKEY(nil), ks.pool[:cs.NKeys]...)
	listed := append([]*dns.DNSKEY(nil), keys...)
	if cs.Clone {
		c := *keys[0]
		c.Hdr.Name = strings.ToUpper(c.Hdr.Name)
		c.Hdr.Ttl = 7
		listed = append(listed, &c)
	}
	var dsSet []dns.RR
	seen := map[string]bool{}
	for i, d := range cs.DS {
		var src *dns.DNSKEY
		if d.Target >= 0 {
			if d.Target >= len(keys) {
				return nil, fmt.Errorf("bad target")
			}
			src = keys[d.Target]
		} else {
			src = ks.other[i%len(ks.other)]
		}
		made := src.ToDS(d.Type)
		if made == nil {
			return nil, fmt.Errorf("library cannot make a type %d DS", d.Type)
		}
		ds := &dns.DS{
			Hdr:        dns.RR_Header{Name: vkMTZone, Rrtype: dns.TypeDS, Class: dns.ClassINET, Ttl: 300},
			KeyTag:     ks.tag,
			Algorithm:  ks.alg,
			DigestType: d.Type,
			Digest:     made.Digest,
		}
		id := fmt.Sprintf("%d/%s", d.Type, strings.ToUpper(ds.Digest))
		if !seen[id] {
			seen[id] = true
		}
		dsSet = append(dsSet, ds)
	}
	sh := &vkMTShape{cs: cs, uniqDS: len(seen), kindsUsed: []string{"ds"}}
	keyMap := func() map[uint16][]*dns.DNSKEY {
		return map[uint16][]*dns.DNSKEY{ks.tag: append([]*dns.DNSKEY(nil), listed...)}
	}
	switch cs.Fn {
	case "VerifyDSWithWork":
		sh.run = func(w *vkMTWork, _ *NSEC3HashMemo) (string, error) {
			var dw DSDigestWork
			if w != nil {
				dw = w
			}
			unsupported, err := VerifyDSWithWork(keyMap(), dsSet, dw)
			return fmt.Sprintf("unsupportedOnly=%v", unsupported), err
		}
	case "DSAuthenticatedKeysWithWork":
		sh.run = func(w *vkMTWork, _ *NSEC3HashMemo) (string, error) {
			var dw DSDigestWork
			if w != nil {
				dw = w
			}
			got, err := DSAuthenticatedKeysWithWork(keyMap(), dsSet, dw)
			var names []string
			for tag, list := range got {
				for _, k := range list {
					idx := -1
					for i, p := range keys {
						if strings.EqualFold(p.PublicKey, k.PublicKey) {
							idx = i
						}
					}
					names = append(names, fmt.Sprintf("%d:key%d", tag-ks.tag, idx))
				}
			}
			sort.Strings(names)
			return "anchored=" + strings.Join(names, ","), err
		}
	case "DNSKEYToDSWithWork":
		if len(cs.DS) != 1 {
			return nil, fmt.Errorf("DNSKEYToDSWithWork takes one digest type")
		}
		sh.run = func(w *vkMTWork, _ *NSEC3HashMemo) (string, error) {
			var dw DSDigestWork
			if w != nil {
				dw = w
			}
			ds, err := DNSKEYToDSWithWork(keys[0], cs.DS[0].Type, dw)
			if ds == nil {
				return "ds=nil", err
			}
			return fmt.Sprintf("ds=type%d/%dhex", ds.DigestType, len(ds.Digest)), err
		}
	default:
		return nil, fmt.Errorf("unknown ds function %q", cs.Fn)
	}
	return sh, nil
}

func vkMTEnumDS(c *vkit.Ctx) []vkMTCase {
	var out []vkMTCase
	typePatterns := [][]uint8{{dns.SHA256, dns.SHA256, dns.SHA256, dns.SHA256}, {dns.SHA256, dns.SHA384, dns.SHA1, dns.SHA256}}
	if c.Thorough() {
		typePatterns = append(typePatterns, []uint8{dns.SHA1, dns.SHA1, dns.SHA384, dns.SHA384})
	}
	for _, t := range []uint8{dns.SHA1, dns.SHA256, dns.SHA384} {
		out = append(out, vkMTCase{Fam: "ds", Fn: "DNSKEYToDSWithWork", NKeys: 1, DS: []vkMTDSRec{{Type: t, Target: 0}}})
	}
	for n := 1; n <= 4; n++ {
		total := 1
		for i := 0; i < n; i++ {
			total *= 3
		}
		for m := 1; m <= 4; m++ {
			for code := 0; code < total; code++ {
				targets := make([]int, n)
				x, skip := code, false
				for i := 0; i < n; i++ {
					switch x % 3 {
					case 0:
						targets[i] = -1
					case 1:
						targets[i] = 0
					case 2:
						targets[i] = m - 1
						if m == 1 {
							skip = true // same record as target 0
						}
					}
					x /= 3
				}
				if skip {
					continue
				}
				for pi, tp := range typePatterns {
					if pi > 0 && n == 1 && c.Quick() {
						continue
					}
					recs := make([]vkMTDSRec, n)
					for i := range recs {
						recs[i] = vkMTDSRec{Type: tp[i], Target: targets[i]}
					}
					for _, clone := range []bool{false, true} {
						if clone && c.Quick() && pi > 0 {
							continue
						}
						for _, fn := range []string{"VerifyDSWithWork", "DSAuthenticatedKeysWithWork"} {
							out = append(out, vkMTCase{Fam: "ds", Fn: fn, NKeys: m, Clone: clone, DS: recs})
						}
					}
				}
			}
		}
	}
	return out
}

// ---------------------------------------------------------------- signature family

var vkMTSigBase = uint32(time.Now().Unix()) - 3600

func vkMTBuildSig(cs vkMTCase) (*vkMTShape, error) {
	ks, err := vkMTKeysFor(cs.Alg)
	if err != nil {
		return nil, err
	}
	// candidate keys in sorted order
	var keys []*dns.DNSKEY
	kpos := strings.IndexByte(cs.Keys, 'K')
	nb, na := 0, 0
	for i, ch := range cs.Keys {
		switch {
		case ch == 'K':
			keys = append(keys, ks.real)
		case ch != 'F':
			return nil, fmt.Errorf("bad key pattern")
		case kpos < 0 || i < kpos:
			if nb >= len(ks.before) {
				if na >= len(ks.after) {
					return nil, fmt.Errorf("key pattern too long")
				}
				keys = append(keys, ks.after[na])
				na++
			} else {
				keys = append(keys, ks.before[nb])
				nb++
			}
		default:
			if na >= len(ks.after) {
				return nil, fmt.Errorf("key pattern too long")
			}
			keys = append(keys, ks.after[na])
			na++
		}
	}
	// listed in reverse so that the sort inside the validator, not our order, decides
	listed := make([]*dns.DNSKEY, 0, len(keys))
	for i := len(keys) - 1; i >= 0; i-- {
		listed = append(listed, keys[i])
	}

	owner := "a." + vkMTZone
	mkSigs := func(set []dns.RR, pattern string) ([]dns.RR, int, error) {
		var out []dns.RR
		uniq := 0
		var prev *dns.RRSIG
		for i, ch := range pattern {
			if ch == 'D' && prev != nil {
				d := *prev
				out = append(out, &d)
				continue
			}
			sig := &dns.RRSIG{
				Hdr:        dns.RR_Header{Name: owner, Rrtype: dns.TypeRRSIG, Class: dns.ClassINET, Ttl: 300},
				Algorithm:  cs.Alg,
				SignerName: vkMTZone,
				KeyTag:     ks.tag,
				Inception:  vkMTSigBase + uint32(i),
				Expiration: vkMTSigBase + 7200,
			}
			if ch == 'X' {
				sig.Expiration = vkMTSigBase + 1800
			}
			if err := sig.Sign(ks.signer, set); err != nil {
				return nil, 0, err
			}
			if ch == 'B' || ch == 'D' {
				raw, err := base64.StdEncoding.DecodeString(sig.Signature)
				if err != nil || len(raw) < 8 {
					return nil, 0, fmt.Errorf("cannot decode own signature")
				}
				raw[len(raw)-3] ^= 0x10
				sig.Signature = base64.StdEncoding.EncodeToString(raw)
			} else if ch != 'V' && ch != 'X' {
				return nil, 0, fmt.Errorf("bad signature pattern")
			}
			uniq++
			prev = sig
			out = append(out, sig)
		}
		return out, uniq, nil
	}

	msg := new(dns.Msg)
	msg.SetQuestion(owner, dns.TypeA)
	msg.Response = true
	aSet := []dns.RR{&dns.A{Hdr: dns.RR_Header{Name: owner, Rrtype: dns.TypeA, Class: dns.ClassINET, Ttl: 300}, A: []byte{192, 0, 2, 1}}}
	sigs, uniq, err := mkSigs(aSet, cs.Sigs)
	if err != nil {
		return nil, err
	}
	// RRSIGs are listed in reverse as well
	msg.Answer = append(msg.Answer, aSet...)
	for i := len(sigs) - 1; i >= 0; i-- {
		msg.Answer = append(msg.Answer, sigs[i])
	}
	rrsets := 1
	if cs.RRsets == 2 {
		rrsets = 2
		tSet := []dns.RR{&dns.TXT{Hdr: dns.RR_Header{Name: owner, Rrtype: dns.TypeTXT, Class: dns.ClassINET, Ttl: 300}, Txt: []string{"t"}}}
		tsigs, tu, err := mkSigs(tSet, "V")
		if err != nil {
			return nil, err
		}
		uniq += tu
		msg.Answer = append(msg.Answer, tSet...)
		msg.Answer = append(msg.Answer, tsigs...)
	}
	sh := &vkMTShape{cs: cs, rrsets: rrsets, uniqSigs: uniq, kindsUsed: []string{"sig"}}
	sh.run = func(w *vkMTWork, _ *NSEC3HashMemo) (string, error) {
		var sw SignatureWork
		if w != nil {
			sw = w
		}
		ok, err := VerifyRRSIGWithWork(vkMTZone, map[uint16][]*dns.DNSKEY{ks.tag: append([]*dns.DNSKEY(nil), listed...)}, msg.Copy(), sw)
		return fmt.Sprintf("ok=%v", ok), err
	}
	return sh, nil
}

func vkMTEnumSig(c *vkit.Ctx) []vkMTCase {
	keysets := []string{"K", "F", "KF", "FK", "FF", "KFF", "FKF", "FFK", "FFF", "FFFK", "KFFF"}
	var patterns []string
	var gen func(prefix string, n int, alpha string)
	gen = func(prefix string, n int, alpha string) {
		if len(prefix) == n {
			patterns = append(patterns, prefix)
			return
		}
		for _, ch := range alpha {
			if ch == 'D' && prefix == "" {
				continue
			}
			gen(prefix+string(ch), n, alpha)
		}
	}
	maxFull := 3
	if c.Thorough() {
		maxFull = 4
	}
	for n := 1; n <= maxFull; n++ {
		gen("", n, "VBDX")
	}
	if c.Quick() {
		gen("", 4, "VB")
		patterns = append(patterns, "BBBD", "BDBV", "XBBV")
	}
	algs := []uint8{dns.ED25519}
	if c.Thorough() {
		algs = append(algs, dns.ECDSAP256SHA256)
	}
	var out []vkMTCase
	for _, alg := range algs {
		for _, p := range patterns {
			for _, ksn := range keysets {
				if alg != dns.ED25519 && len(ksn) > 3 {
					continue
				}
				out = append(out, vkMTCase{Fam: "sig", Fn: "VerifyRRSIGWithWork", Alg: alg, Keys: ksn, Sigs: p, RRsets: 1})
				if c.Thorough() || len(p) <= 2 {
					out = append(out, vkMTCase{Fam: "sig", Fn: "VerifyRRSIGWithWork", Alg: alg, Keys: ksn, Sigs: p, RRsets: 2})
				}
			}
		}
	}
	return out
}

// ---------------------------------------------------------------- NSEC3 family

type vkMTNode struct {
	name  string
	types []uint16
}

var vkMTRings = map[string][]vkMTNode{
	"apex": {
		{vkMTZone, []uint16{dns.TypeNS, dns.TypeSOA, dns.TypeRRSIG, dns.TypeDNSKEY, dns.TypeNSEC3PARAM}},
	},
	"apex+a": {
		{vkMTZone, []uint16{dns.TypeNS, dns.TypeSOA, dns.TypeRRSIG, dns.TypeDNSKEY, dns.TypeNSEC3PARAM}},
		{"a." + vkMTZone, []uint16{dns.TypeA, dns.TypeRRSIG}},
	},
	"apex+a+wild": {
		{vkMTZone, []uint16{dns.TypeNS, dns.TypeSOA, dns.TypeRRSIG, dns.TypeDNSKEY, dns.TypeNSEC3PARAM}},
		{"a." + vkMTZone, []uint16{dns.TypeA, dns.TypeRRSIG}},
		{"*." + vkMTZone, []uint16{dns.TypeTXT, dns.TypeRRSIG}},
	},
	"apex+a+deleg+ent": {
		{vkMTZone, []uint16{dns.TypeNS, dns.TypeSOA, dns.TypeRRSIG, dns.TypeDNSKEY, dns.TypeNSEC3PARAM}},
		{"a." + vkMTZone, []uint16{dns.TypeA, dns.TypeRRSIG}},
		{"d." + vkMTZone, []uint16{dns.TypeNS}},
		{"w." + vkMTZone, nil},
		{"*.w." + vkMTZone, []uint16{dns.TypeA, dns.TypeRRSIG}},
	},
}

var vkMTRingOrder = []string{"apex", "apex+a", "apex+a+wild", "apex+a+deleg+ent"}

func vkMTRing(name string, iter uint16, salt string, optout bool) ([]dns.RR, error) {
	nodes, ok := vkMTRings[name]
	if !ok {
		return nil, fmt.Errorf("unknown ring %q", name)
	}
	type ent struct {
		hash  string
		types []uint16
	}
	ents := make([]ent, 0, len(nodes))
	for _, n := range nodes {
		h := dns.HashName(n.name, dns.SHA1, iter, salt)
		if h == "" {
			return nil, fmt.Errorf("library cannot hash %q", n.name)
		}
		ents = append(ents, ent{h, n.types})
	}
	sort.Slice(ents, func(i, j int) bool { return ents[i].hash < ents[j].hash })
	var flags uint8
	if optout {
		flags = 1
	}
	out := make([]dns.RR, 0, len(ents))
	for i, e := range ents {
		types := append([]uint16(nil), e.types...)
		sort.Slice(types, func(a, b int) bool { return types[a] < types[b] })
		out = append(out, &dns.NSEC3{
			Hdr:        dns.RR_Header{Name: strings.ToLower(e.hash) + "." + vkMTZone, Rrtype: dns.TypeNSEC3, Class: dns.ClassINET, Ttl: 300},
			Hash:       dns.SHA1,
			Flags:      flags,
			Iterations: iter,
			SaltLength: uint8(len(salt) / 2),
			Salt:       salt,
			HashLength: 20,
			NextDomain: ents[(i+1)%len(ents)].hash,
			TypeBitMap: types,
		})
	}
	// hand the records over in reverse so the validator's own normalisation orders them
	for i, j := 0, len(out)-1; i < j; i, j = i+1, j-1 {
		out[i], out[j] = out[j], out[i]
	}
	return out, nil
}

func vkMTBuildN3(cs vkMTCase) (*vkMTShape, error) {
	ring, err := vkMTRing(cs.Ring, cs.Iter, cs.Salt, cs.OptOut)
	if err != nil {
		return nil, err
	}
	sh := &vkMTShape{cs: cs, kindsUsed: []string{"n3"}, usesMemo: cs.Memo == "fresh" || cs.Memo == "warm"}
	nw := func(w *vkMTWork, memo *NSEC3HashMemo) NSEC3Work {
		if w == nil {
			return nil
		}
		if memo != nil {
			return vkMTWorkMemo{vkMTWork: w, memo: memo}
		}
		return w
	}
	question := func() *dns.Msg {
		m := new(dns.Msg)
		m.SetQuestion(cs.QName, cs.QType)
		return m
	}
	switch cs.Fn {
	case "VerifyNameErrorForZoneWithWork":
		sh.run = func(w *vkMTWork, memo *NSEC3HashMemo) (string, error) {
			secure, err := VerifyNameErrorForZoneWithWork(question(), ring, cs.Signer, nw(w, memo))
			return fmt.Sprintf("secure=%v", secure), err
		}
	case "VerifyNODATAForZoneWithWork":
		sh.run = func(w *vkMTWork, memo *NSEC3HashMemo) (string, error) {
			secure, err := VerifyNODATAForZoneWithWork(question(), ring, cs.Signer, nw(w, memo))
			return fmt.Sprintf("secure=%v", secure), err
		}
	case "VerifyDelegationForZoneWithWork":
		sh.run = func(w *vkMTWork, memo *NSEC3HashMemo) (string, error) {
			err := VerifyDelegationForZoneWithWork(cs.QName, cs.Signer, ring, nw(w, memo))
			return "delegation", err
		}
	case "VerifyWildcardAnswerForZoneWithWork":
		resp := question()
		resp.Response = true
		resp.Answer = []dns.RR{
			&dns.A{Hdr: dns.RR_Header{Name: cs.QName, Rrtype: dns.TypeA, Class: dns.ClassINET, Ttl: 300}, A: []byte{192, 0, 2, 7}},
			&dns.RRSIG{Hdr: dns.RR_Header{Name: cs.QName, Rrtype: dns.TypeRRSIG, Class: dns.ClassINET, Ttl: 300},
				TypeCovered: dns.TypeA, Algorithm: dns.ED25519, Labels: uint8(cs.Labels), OrigTtl: 300,
				Expiration: vkMTSigBase + 7200, Inception: vkMTSigBase, KeyTag: 1, SignerName: vkMTZone, Signature: "AAAA"},
		}
		resp.Ns = ring
		sh.run = func(w *vkMTWork, memo *NSEC3HashMemo) (string, error) {
			secure, err := VerifyWildcardAnswerForZoneWithWork(resp, cs.Signer, nw(w, memo))
			return fmt.Sprintf("secure=%v", secure), err
		}
	case "EvaluateAggressiveNSEC3":
		sh.run = func(w *vkMTWork, memo *NSEC3HashMemo) (string, error) {
			res, err := EvaluateAggressiveNSEC3(dns.Question{Name: cs.QName, Qtype: cs.QType, Qclass: dns.ClassINET}, vkMTZone, ring, nw(w, memo))
			return fmt.Sprintf("rcode=%d proof=%d", res.Rcode, len(res.Proof)), err
		}
	default:
		return nil, fmt.Errorf("unknown n3 function %q", cs.Fn)
	}
	return sh, nil
}

func vkMTEnumN3(c *vkit.Ctx) []vkMTCase {
	type q struct {
		fn     string
		name   string
		qtype  uint16
		labels int
	}
	z := vkMTZone
	var qs []q
	for _, n := range []string{"x." + z, "x.y." + z, "x.y.v." + z, "x.a." + z, "x.w." + z, "a." + z} {
		qs = append(qs, q{"VerifyNameErrorForZoneWithWork", n, dns.TypeA, 0})
		qs = append(qs, q{"EvaluateAggressiveNSEC3", n, dns.TypeA, 0})
	}
	for _, n := range []string{"a." + z, "x." + z, "x.y." + z, "x.w." + z, "w." + z} {
		qs = append(qs, q{"VerifyNODATAForZoneWithWork", n, dns.TypeAAAA, 0})
		qs = append(qs, q{"EvaluateAggressiveNSEC3", n, dns.TypeAAAA, 0})
	}
	qs = append(qs, q{"VerifyNODATAForZoneWithWork", "a." + z, dns.TypeA, 0})
	for _, n := range []string{"d." + z, "u." + z, "u.y." + z} {
		qs = append(qs, q{"VerifyNODATAForZoneWithWork", n, dns.TypeDS, 0})
		qs = append(qs, q{"VerifyDelegationForZoneWithWork", n, 0, 0})
	}
	for _, l := range []int{2, 3} {
		qs = append(qs, q{"VerifyWildcardAnswerForZoneWithWork", "x.y." + z, dns.TypeA, l})
		qs = append(qs, q{"VerifyWildcardAnswerForZoneWithWork", "x.w." + z, dns.TypeA, l})
	}
	type par struct {
		iter uint16
		salt string
	}
	params := []par{{0, ""}, {1, "AB"}, {10, ""}, {150, ""}, {151, ""}}
	if c.Thorough() {
		params = append(params, []par{{0, "AB"}, {1, ""}, {10, "ABCDEF"}, {150, "AB"}, {149, ""}, {151, "AB"}}...)
	}
	signers := []string{vkMTZone, ""}
	memos := []string{"none", "fresh", "warm"}
	var out []vkMTCase
	for _, p := range params {
		for _, rn := range vkMTRingOrder {
			for _, oo := range []bool{false, true} {
				if oo && rn == "apex" {
					continue
				}
				for _, qq := range qs {
					for _, sg := range signers {
						if sg == "" && (qq.fn == "EvaluateAggressiveNSEC3" || (c.Quick() && p.iter != 0)) {
							continue
						}
						for _, mm := range memos {
							if mm == "warm" && c.Quick() && (p.iter == 10 || oo) {
								continue
							}
							out = append(out, vkMTCase{Fam: "n3", Fn: qq.fn, Ring: rn, Iter: p.iter, Salt: p.salt, OptOut: oo,
								Signer: sg, QName: qq.name, QType: qq.qtype, Labels: qq.labels, Memo: mm})
						}
					}
				}
			}
		}
	}
	return out
}

// ---------------------------------------------------------------- execution and oracle

func vkMTBuild(cs vkMTCase) (*vkMTShape, error) {
	switch cs.Fam {
	case "ds":
		return vkMTBuildDS(cs)
	case "sig":
		return vkMTBuildSig(cs)
	case "n3":
		return vkMTBuildN3(cs)
	}
	return nil, fmt.Errorf("unknown family %q", cs.Fam)
}

type vkMTObs struct {
	Verdict  string
	Err      string
	WorkErr  bool
	Panic    string
	Ops      map[string]int
	Grants   map[string]int
	Ledger   map[string]int
	Refused  []string
	OrderBad map[string]int // kind -> 1-based index of the first operation that ran without a prior unspent reservation
}

func (o vkMTObs) result() string {
	if o.Panic != "" {
		return "panic: " + o.Panic
	}
	if o.Err == "" {
		return o.Verdict + " err=<nil>"
	}
	return o.Verdict + " err=" + o.Err
}

func (o vkMTObs) sameAs(p vkMTObs) bool {
	return o.result() == p.result() && fmt.Sprint(o.Ops) == fmt.Sprint(p.Ops) && fmt.Sprint(o.Grants) == fmt.Sprint(p.Grants) &&
		fmt.Sprint(o.Refused) == fmt.Sprint(p.Refused) && fmt.Sprint(o.OrderBad) == fmt.Sprint(p.OrderBad)
}

// vkMTExec runs the shape once. b == nil: no work object at all.
func vkMTExec(sh *vkMTShape, b *vkMTBudget) (obs vkMTObs) {
	var memo *NSEC3HashMemo
	if b != nil && sh.usesMemo {
		memo = NewNSEC3HashMemo()
		if sh.cs.Memo == "warm" {
			func() {
				defer func() { _ = recover() }()
				_, _ = sh.run(vkMTNewWork(vkMTLargeBudget("enforce")), memo)
			}()
		}
	}
	var w *vkMTWork
	if b != nil {
		w = vkMTNewWork(*b)
	}
	vkcount.Reset()
	func() {
		defer func() {
			if r := recover(); r != nil {
				obs.Panic = fmt.Sprint(r)
			}
		}()
		v, err := sh.run(w, memo)
		obs.Verdict = v
		if err != nil {
			obs.Err = err.Error()
			obs.WorkErr = IsWorkError(err)
		}
	}()
	log, lost := vkcount.Log()
	obs.Ops, obs.Grants, obs.Ledger, obs.OrderBad = map[string]int{}, map[string]int{}, map[string]int{}, map[string]int{}
	if lost > 0 {
		obs.Panic = "event log overflow"
	}
	for _, ev := range log {
		kind := ev[strings.IndexByte(ev, ':')+1:]
		switch {
		case strings.HasPrefix(ev, "grant:"):
			obs.Grants[kind]++
		case strings.HasPrefix(ev, "op:"):
			obs.Ops[kind]++
			if obs.Ops[kind] > obs.Grants[kind] && obs.OrderBad[kind] == 0 {
				obs.OrderBad[kind] = obs.Ops[kind]
			}
		}
	}
	if w != nil {
		obs.Refused = w.refKind
		if w.ledger != nil {
			s := w.ledger.Snapshot()
			obs.Ledger["ds"], obs.Ledger["sig"], obs.Ledger["n3"] = int(s.DSDigests), int(s.SignatureChecks), int(s.NSEC3Hashes)
		}
	}
	return obs
}

type vkMTFinding struct{ key, msg string }

// vkMTJudge applies the oracle to one metered run; base is the run without a work object.
func vkMTJudge(sh *vkMTShape, b vkMTBudget, base, o vkMTObs) []vkMTFinding {
	var out []vkMTFinding
	fn := sh.cs.Fn
	add := func(kind, what, msg string) {
		out = append(out, vkMTFinding{"metering:" + fn + ":" + kind + ":" + what, msg})
	}
	if o.Panic != "" {
		add("any", "panic", "panicked: "+o.Panic)
		return out
	}
	enforce := b.Mode == "enforce"
	for _, k := range vkMTKinds {
		ops, grants := o.Ops[k], o.Grants[k]
		switch {
		case ops > grants:
			add(k, "ops-exceed-reservations", fmt.Sprintf("%d real %s operations ran under %d granted reservations (ledger counted %d): operation #%d had no reservation of its own", ops, k, grants, o.Ledger[k], o.OrderBad[k]))
		case o.OrderBad[k] != 0:
			add(k, "op-before-reservation", fmt.Sprintf("%s operation #%d ran before its reservation was granted (totals: %d operations, %d reservations)", k, o.OrderBad[k], ops, grants))
		}
		if enforce && uint32(ops) > b.cap(k) {
			add(k, "ops-exceed-budget", fmt.Sprintf("%d real %s operations under an enforced budget of %d", ops, k, b.cap(k)))
		}
		if enforce && uint32(grants) > b.cap(k) {
			add(k, "reservations-exceed-budget", fmt.Sprintf("the ledger granted %d %s reservations under a budget of %d", grants, k, b.cap(k)))
		}
		if o.Ledger[k] != grants {
			add(k, "ledger-count-mismatch", fmt.Sprintf("the ledger reports %d %s units, the adapter was granted %d", o.Ledger[k], k, grants))
		}
	}
	if enforce {
		if sh.cs.Fam == "sig" {
			if b.R < vkMTLarge && o.Ops["sig"] > int(b.R)*sh.rrsets {
				add("sig", "ops-exceed-rrset-limit", fmt.Sprintf("%d signature operations over %d RRset(s) with max_rrset_signature_checks=%d", o.Ops["sig"], sh.rrsets, b.R))
			}
			if b.K < vkMTLarge && o.Ops["sig"] > int(b.K)*sh.uniqSigs {
				add("sig", "ops-exceed-candidate-limit", fmt.Sprintf("%d signature operations for %d distinct RRSIGs with max_dnskey_candidates=%d", o.Ops["sig"], sh.uniqSigs, b.K))
			}
		}
		if sh.cs.Fam == "ds" && sh.cs.Fn != "DNSKEYToDSWithWork" && b.K < vkMTLarge {
			// VerifyDS and the anchored-keys sweep are two passes in production; each is held to the limit on its own
			if o.Ops["ds"] > int(b.K)*sh.uniqDS {
				add("ds", "ops-exceed-candidate-limit", fmt.Sprintf("%d DS digests for %d distinct DS records with max_dnskey_candidates=%d", o.Ops["ds"], sh.uniqDS, b.K))
			}
		}
		if len(o.Refused) > 0 && !o.WorkErr {
			add(o.Refused[0], "exhausted-without-work-error", fmt.Sprintf("the budget refused %v but the call returned %q instead of a work error", o.Refused, o.result()))
		}
	}
	if len(o.Refused) == 0 && o.result() != base.result() {
		add("any", "verdict-differs-from-unmetered", fmt.Sprintf("nothing was refused, yet the metered call returned %q and the unmetered call %q", o.result(), base.result()))
	}
	if len(o.Refused) == 0 && o.WorkErr {
		add("any", "work-error-without-refusal", fmt.Sprintf("a work error (%q) although no reservation or limit was refused", o.Err))
	}
	return out
}

func vkMTBudgets(sh *vkMTShape, need map[string]int, quick bool) []vkMTBudget {
	kind := sh.kindsUsed[0]
	large := vkMTLargeBudget("enforce")
	seen := map[string]bool{}
	var out []vkMTBudget
	push := func(b vkMTBudget) {
		if k := b.String(); !seen[k] {
			seen[k] = true
			out = append(out, b)
		}
	}
	n := need[kind]
	for _, v := range []int{0, 1, 2, 3, n - 1, n} {
		if v >= 0 {
			push(large.with(kind, uint32(v)))
		}
	}
	if !quick {
		for v := 4; v < n-1; v++ {
			push(large.with(kind, uint32(v)))
		}
	}
	switch sh.cs.Fam {
	case "sig":
		for _, r := range []uint32{1, 2} {
			b := large
			b.R = r
			push(b)
			b = large
			b.K = r
			push(b)
		}
		b := large
		b.Sig, b.R, b.K = 3, 2, 2
		push(b)
	case "ds":
		for _, k := range []uint32{1, 2} {
			b := large
			b.K = k
			push(b)
		}
		b := large
		b.DS, b.K = 2, 2
		push(b)
	}
	sb := vkMTLargeBudget("shadow").with(kind, 1)
	sb.R, sb.K = 1, 1
	push(sb)
	push(vkMTLargeBudget("shadow").with(kind, 0))
	return out
}

type vkMTRun struct {
	c *vkit.Ctx
}

// report confirms a finding on fresh objects and records it.
func (r *vkMTRun) report(cs vkMTCase, b vkMTBudget, first vkMTObs, fs []vkMTFinding) {
	sh2, err := vkMTBuild(cs)
	if err != nil {
		r.c.HarnessError("rebuild of " + cs.shapeKey() + ": " + err.Error())
		return
	}
	base2 := vkMTExec(sh2, nil)
	again := vkMTExec(sh2, &b)
	fs2 := vkMTJudge(sh2, b, base2, again)
	keys := map[string]bool{}
	for _, f := range fs2 {
		keys[f.key] = true
	}
	for _, f := range fs {
		if !keys[f.key] {
			r.c.HarnessError(fmt.Sprintf("finding %s on %s under %s did not reproduce on fresh objects (first %+v, again %+v)", f.key, cs.shapeKey(), b, first, again))
			return
		}
	}
	cs.Budget = &b
	for _, f := range fs {
		r.c.Violation(f.key, fmt.Sprintf("%s — smallest input: %s under %s; result %q; real operations %v, granted reservations %v, ledger %v, refused %v",
			f.msg, cs.shapeKey(), b, first.result(), first.Ops, first.Grants, first.Ledger, first.Refused), cs)
	}
}

func vkMTClass(o vkMTObs) string {
	switch {
	case o.Panic != "":
		return "panic"
	case o.WorkErr:
		return "work-error"
	case o.Err == "":
		return o.Verdict + "/ok"
	default:
		return o.Verdict + "/" + o.Err
	}
}

// shape runs one shape under every budget of its list.
func (r *vkMTRun) shape(cs vkMTCase) {
	c := r.c
	sh, err := vkMTBuild(cs)
	if err != nil {
		c.HarnessError("build of " + cs.shapeKey() + ": " + err.Error())
		return
	}
	key := cs.shapeKey()
	base := vkMTExec(sh, nil)
	if base.Panic != "" {
		c.Violation("metering:"+cs.Fn+":any:panic", "unmetered call panicked: "+base.Panic+" — input "+key, cs)
		return
	}
	if base.WorkErr {
		c.HarnessError("unmetered call returned a work error: " + key)
		return
	}
	kind := sh.kindsUsed[0]
	lb := vkMTLargeBudget("enforce")
	large := vkMTExec(sh, &lb)
	c.Add("evaluations", 2)
	c.Add("traces", 2)
	if fs := vkMTJudge(sh, lb, base, large); len(fs) > 0 {
		r.report(cs, lb, large, fs)
	}
	need := large.Grants
	if large.Ops[kind] > need[kind] {
		// budgets are sized from what the call really does when it under-reserves
		need = large.Ops
	}
	if base.Ops[kind] >= 2 {
		c.DistinctStr("nontrivial", key)
	}
	c.Outcome(fmt.Sprintf("%s %s large: %s", cs.Fam, cs.Fn, vkMTClass(large)))
	sampled := false
	for _, b := range vkMTBudgets(sh, need, c.Quick()) {
		o := vkMTExec(sh, &b)
		c.Add("evaluations", 1)
		c.Add("traces", 1)
		c.Add("transitions", int64(o.Ops[kind]+o.Grants[kind]+len(o.Refused)))
		c.DistinctStr("states", key+"|"+b.String()+"|"+o.result())
		if o.Grants[kind] > o.Ops[kind] {
			c.Add("runs_reserved_more_than_used_"+cs.Fam, 1) // accepted: a reservation whose operation was skipped
		}
		lvl := "exact-or-more"
		switch {
		case b.Mode == "shadow":
			lvl = "shadow"
		case len(o.Refused) > 0:
			lvl = "refused:" + o.Refused[0]
		}
		c.Outcome(fmt.Sprintf("%s %s %s: %s", cs.Fam, cs.Fn, lvl, vkMTClass(o)))
		if fs := vkMTJudge(sh, b, base, o); len(fs) > 0 {
			r.report(cs, b, o, fs)
		}
		if !sampled && len(o.Refused) > 0 && base.Ops[kind] >= 3 {
			sampled = true
			cc := cs
			bb := b
			cc.Budget = &bb
			c.Sample(map[string]any{"case": cc, "unmetered": base.result(), "unmetered_ops": base.Ops, "metered": o.result(), "ops": o.Ops, "grants": o.Grants, "refused": o.Refused})
		}
	}
}

func TestVerifC12Metering(t *testing.T) {
	c := vkit.Init("C12/metering")
	defer c.Close()
	r := &vkMTRun{c: c}

	// the hooks must be live: one metered DS digest, one signature, one NSEC3 hash
	for _, probe := range []vkMTCase{
		{Fam: "ds", Fn: "VerifyDSWithWork", NKeys: 1, DS: []vkMTDSRec{{Type: dns.SHA256, Target: 0}}},
		{Fam: "ds", Fn: "DNSKEYToDSWithWork", NKeys: 1, DS: []vkMTDSRec{{Type: dns.SHA256, Target: 0}}},
		{Fam: "sig", Fn: "VerifyRRSIGWithWork", Alg: dns.ED25519, Keys: "K", Sigs: "V", RRsets: 1},
		{Fam: "n3", Fn: "VerifyNameErrorForZoneWithWork", Ring: "apex+a", Signer: vkMTZone, QName: "x." + vkMTZone, QType: dns.TypeA, Memo: "none"},
	} {
		sh, err := vkMTBuild(probe)
		if err != nil {
			c.HarnessError("probe build: " + err.Error())
			return
		}
		lb := vkMTLargeBudget("enforce")
		o := vkMTExec(sh, &lb)
		k := sh.kindsUsed[0]
		if o.Ops[k] == 0 || o.Grants[k] == 0 || o.Err != "" {
			c.HarnessError(fmt.Sprintf("hook self-test: %s saw ops=%v grants=%v err=%q (overlay patch not active, or the fixture is broken)", probe.shapeKey(), o.Ops, o.Grants, o.Err))
			return
		}
	}

	if c.Replay != nil {
		var cs vkMTCase
		if err := json.Unmarshal(c.Replay, &cs); err != nil || cs.Budget == nil {
			c.HarnessError("bad replay payload")
			return
		}
		b := *cs.Budget
		cs.Budget = nil
		sh, err := vkMTBuild(cs)
		if err != nil {
			c.HarnessError("replay build: " + err.Error())
			return
		}
		base := vkMTExec(sh, nil)
		o := vkMTExec(sh, &b)
		c.Add("evaluations", 1)
		if fs := vkMTJudge(sh, b, base, o); len(fs) > 0 {
			r.report(cs, b, o, fs)
		}
		return
	}

	var cases []vkMTCase
	cases = append(cases, vkMTEnumDS(c)...)
	cases = append(cases, vkMTEnumSig(c)...)
	cases = append(cases, vkMTEnumN3(c)...)
	c.Add("shapes", 0)
	for i, cs := range cases {
		if !c.Mine(i) {
			continue
		}
		if c.OverBudget() {
			c.Cap(fmt.Sprintf("time budget reached after %d of %d shapes of this shard's share", i, len(cases)))
			break
		}
		c.Add("shapes", 1)
		c.Add("shapes_"+cs.Fam, 1)
		r.shape(cs)
	}
}
