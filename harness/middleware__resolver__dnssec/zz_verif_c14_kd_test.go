//go:build verif

package dnssec

// C14 — key tag, DS digest, message-level (VerifyRRSIG / VerifyDS) and
// work-count sections.

import (
	"crypto/elliptic"
	"encoding/base64"
	"encoding/hex"
	"fmt"
	"sort"
	"strings"
	"time"

	"github.com/miekg/dns"
)

// ---------------------------------------------------------------- key material encodings

type vkEnc struct {
	Name string
	Pub  string
}

func vkBlob(n int, fill string) []byte {
	b := make([]byte, n)
	x := uint32(0x9e3779b9) + uint32(n)
	for i := range b {
		switch fill {
		case "ff":
			b[i] = 0xff
		case "00":
			b[i] = 0
		default:
			x ^= x << 13
			x ^= x >> 17
			x ^= x << 5
			b[i] = byte(x)
		}
	}
	return b
}

// vkMaterials: real keys of every supported shape plus opaque material at the
// decode-chunk (192 octets) and size-limit (4092 octets) boundaries.
func vkMaterials(thorough bool) []vkEnc {
	var m []vkEnc
	add := func(name string, raw []byte) { m = append(m, vkEnc{name, vkB64(raw)}) }
	for _, l := range []int{0, 1, 2, 3, 4, 5, 6, 7, 8} {
		add(fmt.Sprintf("blob%d", l), vkBlob(l, "rnd"))
	}
	add("p256", vkECDSAPub(elliptic.P256(), vkHexInt(vkP256D[0])))
	add("ed25519", vkBlob(32, "rnd"))
	add("rsa1024-e65537", vkRSAPub(vkExp("e65537"), vkRSA(1024).n, 0))
	add("rsa1024-e2p32p1", vkRSAPub(vkExp("e2p32p1"), vkRSA(1024).n, 0))
	add("rsa2048-e65537", vkRSAPub(vkExp("e65537"), vkRSA(2048).n, 0))
	add("rsa4096-e3", vkRSAPub(vkExp("e3"), vkRSA(4096).n, 0))
	for _, l := range []int{95, 96, 97, 190, 191, 192, 193, 194, 383, 384, 385} {
		add(fmt.Sprintf("blob%d", l), vkBlob(l, "rnd"))
	}
	add("blob193ff", vkBlob(193, "ff"))
	add("blob4092ff", vkBlob(4092, "ff"))
	for _, l := range []int{4091, 4092, 4093, 4094, 4095, 4096, 6000} {
		add(fmt.Sprintf("blob%d", l), vkBlob(l, "rnd"))
	}
	if thorough {
		for _, l := range []int{9, 10, 11, 12, 63, 64, 65, 127, 128, 129, 130, 131, 132, 255, 256, 257, 258, 259, 260, 575, 576, 577, 767, 768, 769, 2048, 4090} {
			add(fmt.Sprintf("blob%d", l), vkBlob(l, "rnd"))
		}
		add("blob192ff", vkBlob(192, "ff"))
		add("blob384-00", vkBlob(384, "00"))
		add("rsa4097-e65537", vkRSAPub(vkExp("e65537"), vkRSA(4097).n, 0))
		add("rsa512-e2p64p13", vkRSAPub(vkExp("e2p64p13"), vkRSA(512).n, 0))
		add("p384", vkBlob(96, "rnd"))
	}
	return m
}

// vkEncodings: base64 manipulations of one valid encoding.
func vkEncodings(name, s string, thorough bool) []vkEnc {
	var out []vkEnc
	add := func(n, v string) { out = append(out, vkEnc{name + "~" + n, v}) }
	add("valid", s)
	add("nopad", strings.TrimRight(s, "="))
	add("extrapad", s+"=")
	add("trail-A", s+"A")
	add("trail-group", s+"AAAA")
	add("trail-nl", s+"\n")
	add("lead-nl", "\n"+s)
	add("crlf64", vkWrap(s, 64, "\r\n"))
	add("wrap76", vkWrap(s, 76, "\n"))
	add("wrap255", vkWrap(s, 255, "\n"))
	add("wrap256", vkWrap(s, 256, "\n"))
	add("wrap4", vkWrap(s, 4, "\n"))
	add("wrap1", vkWrap(s, 1, "\n"))
	add("wrap3", vkWrap(s, 3, "\r"))
	add("urlsafe", strings.NewReplacer("+", "-", "/", "_").Replace(s)+"")
	add("lead-space", " "+s)
	add("trail-space", s+" ")
	positions := map[int]bool{}
	for _, p := range []int{0, 1, 2, 3, 4, 5, 6, 7, 8, 252, 253, 254, 255, 256, 257, 258, 259, 260, 508, 509, 510, 511, 512, 513, 514, 515, 516, len(s) - 4, len(s) - 3, len(s) - 2, len(s) - 1, len(s)} {
		if p >= 0 && p <= len(s) {
			positions[p] = true
		}
	}
	if thorough {
		for p := 0; p <= len(s) && p <= 1040; p++ {
			positions[p] = true
		}
	}
	ps := make([]int, 0, len(positions))
	for p := range positions {
		ps = append(ps, p)
	}
	sort.Ints(ps)
	for _, p := range ps {
		if p < len(s) {
			add(fmt.Sprintf("trunc@%d", p), s[:p])
		}
		add(fmt.Sprintf("nl@%d", p), s[:p]+"\n"+s[p:])
		add(fmt.Sprintf("pad@%d", p), s[:p]+"="+s[p:])
		if p%4 == 0 || thorough {
			add(fmt.Sprintf("sp@%d", p), s[:p]+" "+s[p:])
			add(fmt.Sprintf("padgrp@%d", p), s[:p]+"QQ=="+s[p:])
			add(fmt.Sprintf("pad1grp@%d", p), s[:p]+"QUI="+s[p:])
		}
	}
	return out
}

var vkTagFlags = []uint16{0, 256, 257, 385, 128, 0xFFFF, 0x8000, 1}
var vkTagProtos = []uint8{3, 0, 255}

func vkKeyTagCase(r *vkRun, enc vkEnc, alg uint8, flags uint16, proto uint8) {
	caseKey := fmt.Sprintf("keytag|%s|a%d|f%d|p%d", enc.Name, alg, flags, proto)
	if !r.take(caseKey) {
		return
	}
	c := r.c
	eval := func() (got uint16, want uint16, how, panicMsg string) {
		k := vkNewDNSKEY(vkZone, flags, proto, alg, enc.Pub)
		want, how = vkLibKeyTag(vkNewDNSKEY(vkZone, flags, proto, alg, enc.Pub))
		func() {
			defer func() {
				if p := recover(); p != nil {
					panicMsg = fmt.Sprint(p)
				}
			}()
			got = KeyTag(k)
		}()
		if panicMsg == "" && k.PublicKey != enc.Pub {
			panicMsg = "KeyTag modified the key"
		}
		return
	}
	got, want, how, pm := eval()
	c.Add("evaluations", 1)
	if pm != "" || got != want {
		g2, w2, _, pm2 := eval()
		if g2 != got || w2 != want || pm2 != pm {
			c.HarnessError(caseKey + ": not reproducible")
			return
		}
		msg := fmt.Sprintf("KeyTag(flags=%d proto=%d alg=%d key=%q [%d chars]) = %d, reference (%s) = %d", flags, proto, alg, vkAbbrev(enc.Pub), len(enc.Pub), got, how, want)
		if pm != "" {
			msg = "KeyTag panicked: " + pm
		}
		c.Violation(caseKey, msg, map[string]any{"section": "keytag", "case": caseKey})
		return
	}
	_, decErr := base64.StdEncoding.DecodeString(enc.Pub)
	switch {
	case how != "library":
		c.Outcome("keytag:equal(library panics; RFC 4034 B.1 by hand)")
	case decErr != nil:
		c.Outcome("keytag:equal:undecodable-material")
	case want == 0:
		c.Outcome("keytag:equal:zero")
	default:
		c.Outcome("keytag:equal:nonzero")
	}
	if want != 0 || strings.Contains(enc.Name, "~valid") {
		c.DistinctStr("nontrivial", caseKey)
	}
}

func vkAbbrev(s string) string {
	if len(s) > 48 {
		return s[:24] + "..." + s[len(s)-16:]
	}
	return s
}

func vkKeyTagSection(r *vkRun, thorough bool) {
	mats := vkMaterials(thorough)
	quickAlgs := []uint8{8, 1, 0, 3, 5, 13, 15, 16, 253, 255}
	nEnc := 0
	for _, mat := range mats {
		if r.stop() {
			return
		}
		// every algorithm x flags x protocol on the valid encoding
		for alg := 0; alg < 256; alg++ {
			for _, f := range vkTagFlags {
				for _, p := range vkTagProtos {
					vkKeyTagCase(r, vkEnc{mat.Name + "~valid", mat.Pub}, uint8(alg), f, p)
				}
			}
		}
		raw, _ := base64.StdEncoding.DecodeString(mat.Pub)
		if len(raw) > 4200 && !thorough {
			continue
		}
		// every line-wrap width up to past the decoder's 256-character window, LF and CRLF:
		// how many line-break characters fall into one window (and whether their count is a
		// multiple of four) depends on the width
		for w := 1; w <= 260; w++ {
			for _, sep := range []struct{ n, s string }{{"lf", "\n"}, {"crlf", "\r\n"}} {
				enc := vkEnc{fmt.Sprintf("%s~wrap%d%s", mat.Name, w, sep.n), vkWrap(mat.Pub, w, sep.s)}
				vkKeyTagCase(r, enc, 8, 257, 3)
				if thorough || w%7 == 0 {
					vkKeyTagCase(r, enc, 1, 257, 3)
				}
			}
		}
		encs := vkEncodings(mat.Name, mat.Pub, thorough)
		nEnc += len(encs)
		for _, enc := range encs[1:] {
			if r.stop() {
				return
			}
			if thorough {
				for alg := 0; alg < 256; alg++ {
					vkKeyTagCase(r, enc, uint8(alg), 257, 3)
				}
				for _, f := range vkTagFlags[:4] {
					vkKeyTagCase(r, enc, 1, f, 0)
				}
				continue
			}
			for _, alg := range quickAlgs {
				vkKeyTagCase(r, enc, alg, 257, 3)
			}
		}
	}
	// nil key
	if r.take("keytag|nil") {
		func() {
			defer func() {
				if p := recover(); p != nil {
					r.c.Violation("keytag|nil", "KeyTag(nil) panicked", map[string]any{"section": "keytag", "case": "keytag|nil"})
				}
			}()
			if KeyTag(nil) != 0 {
				r.c.Violation("keytag|nil", "KeyTag(nil) != 0", map[string]any{"section": "keytag", "case": "keytag|nil"})
			}
		}()
		r.c.Add("evaluations", 1)
	}
	r.c.Note(fmt.Sprintf("key tag section: %d materials, %d encodings, algorithms 0-255 x %d flag values x %d protocol values on every valid encoding", len(mats), nEnc, len(vkTagFlags), len(vkTagProtos)))
}

// ---------------------------------------------------------------- DS digests

func vkDSKeys(thorough bool) []*dns.DNSKEY {
	var ks []*dns.DNSKEY
	for _, k := range vkSigKeys(false) {
		if k.Fam == "rsa" && k.Bits != 1024 && k.E.Cmp(vkExp("e65537")) != 0 {
			continue
		}
		ks = append(ks, k.clone())
	}
	up := vkSigKeys(false)[1].clone()
	up.Hdr.Name = "ExAmPle.ORG."
	ks = append(ks, up)
	root := vkSigKeys(false)[1].clone()
	root.Hdr.Name = "."
	ks = append(ks, root)
	long := vkSigKeys(false)[1].clone()
	long.Hdr.Name = strings.Repeat(strings.Repeat("a", 63)+".", 3) + strings.Repeat("b", 61) + "."
	ks = append(ks, long)
	esc := vkSigKeys(false)[1].clone()
	esc.Hdr.Name = `Es\.C\065.example.org.`
	ks = append(ks, esc)
	for _, l := range []int{1, 4091, 4092, 4093} {
		ks = append(ks, vkNewDNSKEY(vkZone, 257, 3, 8, vkB64(vkBlob(l, "rnd"))))
	}
	ks = append(ks, vkNewDNSKEY(vkZone, 257, 3, 8, vkWrap(vkB64(vkBlob(4092, "rnd")), 64, "\n")))
	ks = append(ks, vkNewDNSKEY(vkZone, 257, 3, 8, vkWrap(vkB64(vkBlob(4093, "rnd")), 64, "\n")))
	ks = append(ks, vkNewDNSKEY(vkZone, 257, 3, 8, ""))
	ks = append(ks, vkNewDNSKEY(vkZone, 257, 3, 8, "!!notbase64"))
	ks = append(ks, vkNewDNSKEY(vkZone, 257, 3, 8, strings.TrimRight(vkB64(vkBlob(64, "rnd")), "=")))
	return ks
}

func vkSdnsDigestMatch(k *dns.DNSKEY, dt uint8, want []byte) (ok bool, panicMsg string) {
	defer func() {
		if p := recover(); p != nil {
			ok, panicMsg = false, fmt.Sprint(p)
		}
	}()
	return dsDigestMatches(k, dt, want), ""
}

func vkDSSection(r *vkRun, thorough bool) {
	c := r.c
	keys := vkDSKeys(thorough)
	for ki, key := range keys {
		if r.stop() {
			return
		}
		// the digests of this key under every type the library computes
		real := map[uint8][]byte{}
		for _, dt := range []uint8{1, 2, 4, 5} {
			if ds := vkLibToDS(dns.Copy(key).(*dns.DNSKEY), dt); ds != nil {
				real[dt], _ = hex.DecodeString(ds.Digest)
			}
		}
		for dt := 0; dt < 256; dt++ {
			var wants []struct {
				name string
				b    []byte
				near bool
			}
			addW := func(n string, b []byte, near bool) {
				wants = append(wants, struct {
					name string
					b    []byte
					near bool
				}{n, b, near})
			}
			addW("empty", nil, false)
			for _, src := range []uint8{1, 2, 4, 5} {
				d := real[src]
				if d == nil {
					d = vkBlob(map[uint8]int{1: 20, 2: 32, 4: 48, 5: 64}[src], "rnd")
				}
				own := src == uint8(dt)
				addW(fmt.Sprintf("digest-of-type%d", src), d, own)
				if !own && !(thorough && (dt < 8 || dt == 255)) {
					continue
				}
				stride := 1
				if !thorough && !own {
					stride = 16
				}
				for bit := 0; bit < len(d)*8; bit += stride {
					x := append([]byte{}, d...)
					x[bit/8] ^= 0x80 >> (bit % 8)
					addW(fmt.Sprintf("type%d-flip:%d", src, bit), x, own)
				}
				for l := 1; l < len(d); l++ {
					addW(fmt.Sprintf("type%d-trunc:%d", src, l), d[:l], own && l == len(d)-1)
				}
				addW(fmt.Sprintf("type%d-append0", src), append(append([]byte{}, d...), 0), own)
				addW(fmt.Sprintf("type%d-prepend0", src), append([]byte{0}, d...), own)
			}
			for _, w := range wants {
				caseKey := fmt.Sprintf("ds|k%d|dt%d|%s", ki, dt, w.name)
				if !r.take(caseKey) {
					continue
				}
				c.Add("evaluations", 1)
				got, pm := vkSdnsDigestMatch(dns.Copy(key).(*dns.DNSKEY), uint8(dt), append([]byte{}, w.b...))
				ref := false
				if ds := vkLibToDS(dns.Copy(key).(*dns.DNSKEY), uint8(dt)); ds != nil && len(w.b) > 0 {
					ref = strings.EqualFold(ds.Digest, hex.EncodeToString(w.b))
				}
				viol := ""
				switch {
				case pm != "":
					viol = "dsDigestMatches panicked: " + pm
				case got && !ref:
					viol = "dsDigestMatches ACCEPTS a digest the library's ToDS does not produce"
				case !got && ref && dt != 5 && !vkEmptyMaterial(key):
					viol = "dsDigestMatches rejects the library's own ToDS digest"
				}
				if viol != "" {
					got2, pm2 := vkSdnsDigestMatch(dns.Copy(key).(*dns.DNSKEY), uint8(dt), append([]byte{}, w.b...))
					if got2 != got || pm2 != pm {
						c.HarnessError(caseKey + ": not reproducible")
						return
					}
					c.Violation(caseKey, fmt.Sprintf("%s: key owner=%q flags=%d proto=%d alg=%d material=%d chars, digest type %d, digest %s (%s): sdns=%v reference=%v",
						viol, key.Hdr.Name, key.Flags, key.Protocol, key.Algorithm, len(key.PublicKey), dt, vkAbbrev(hex.EncodeToString(w.b)), w.name, got, ref),
						map[string]any{"section": "ds", "case": caseKey})
					continue
				}
				switch {
				case got:
					c.Outcome(fmt.Sprintf("ds:both-accept:type%d", dt))
				case ref && dt != 5:
					c.Outcome("ds:stricter:empty-key-material")
				case ref:
					c.Outcome("ds:stricter:digest-type-5-is-GOST-not-SHA512")
				default:
					c.Outcome("ds:both-reject")
				}
				if ref || w.near {
					c.DistinctStr("nontrivial", caseKey)
				}
			}
		}
	}
	c.Note(fmt.Sprintf("DS section: %d keys x digest types 0-255 x {digest of each computable type, every bit flip, every truncation, +-1 octet}", len(keys)))
}

// ---------------------------------------------------------------- message level: VerifyDS

type vkDSScenario struct {
	Name string
	Keys []*dns.DNSKEY
	Set  []dns.RR
}

func vkDSOf(k *dns.DNSKEY, dt uint8) *dns.DS {
	ds := vkLibToDS(dns.Copy(k).(*dns.DNSKEY), dt)
	if ds == nil {
		tag, _ := vkLibKeyTag(k)
		ds = &dns.DS{Hdr: dns.RR_Header{Name: k.Hdr.Name, Rrtype: dns.TypeDS, Class: k.Hdr.Class, Ttl: 300},
			KeyTag: tag, Algorithm: k.Algorithm, DigestType: dt, Digest: hex.EncodeToString(vkBlob(32, "rnd"))}
	}
	return ds
}

func vkRefDSAccept(keys []*dns.DNSKEY, set []dns.RR) (accept bool, strict string) {
	for _, rr := range set {
		d, ok := rr.(*dns.DS)
		if !ok || d == nil {
			continue
		}
		for _, k := range keys {
			tag, _ := vkLibKeyTag(k)
			if tag != d.KeyTag || k.Algorithm != d.Algorithm || k.Hdr.Class != d.Hdr.Class || !vkASCIIEqualFold(k.Hdr.Name, d.Hdr.Name) {
				continue
			}
			ds := vkLibToDS(dns.Copy(k).(*dns.DNSKEY), d.DigestType)
			if ds == nil || !strings.EqualFold(ds.Digest, d.Digest) {
				continue
			}
			accept = true
			s := ""
			switch {
			case d.DigestType == 5:
				s = "digest-type-5"
			case vkEmptyMaterial(k):
				s = "empty-key-material"
			case !vkSupportedAlg(d.Algorithm):
				s = "unsupported-algorithm"
			case k.Protocol != 3:
				s = "key-protocol"
			case k.Flags&0x0100 == 0:
				s = "key-not-zone-key"
			}
			if s == "" {
				return true, ""
			}
			strict = s
		}
	}
	return accept, strict
}

// vkEmptyMaterial: a DNSKEY with no key octets at all; the library hashes the
// four fixed octets alone, sdns refuses (ds_digest.go: len(public) == 0).
func vkEmptyMaterial(k *dns.DNSKEY) bool {
	b, err := base64.StdEncoding.DecodeString(k.PublicKey)
	return err == nil && len(b) == 0
}

func vkSupportedAlg(a uint8) bool {
	switch a {
	case 5, 7, 8, 10, 13, 14, 15:
		return true
	}
	return false
}

func vkKeyMap(keys []*dns.DNSKEY) map[uint16][]*dns.DNSKEY {
	m := map[uint16][]*dns.DNSKEY{}
	for _, k := range keys {
		t, _ := vkLibKeyTag(k)
		m[t] = append(m[t], dns.Copy(k).(*dns.DNSKEY))
	}
	return m
}

func vkDSScenarios(k *dns.DNSKEY, other *dns.DNSKEY) []vkDSScenario {
	flip := func(d *dns.DS) *dns.DS {
		x := dns.Copy(d).(*dns.DS)
		b := []byte(x.Digest)
		if b[len(b)-1] == '0' {
			b[len(b)-1] = '1'
		} else {
			b[len(b)-1] = '0'
		}
		x.Digest = string(b)
		return x
	}
	mod := func(d *dns.DS, f func(*dns.DS)) *dns.DS {
		x := dns.Copy(d).(*dns.DS)
		f(x)
		return x
	}
	d1, d2, d4, d5, d3 := vkDSOf(k, 1), vkDSOf(k, 2), vkDSOf(k, 4), vkDSOf(k, 5), vkDSOf(k, 3)
	ks := []*dns.DNSKEY{k}
	a, _ := dns.NewRR("example.org. 300 IN A 192.0.2.1")
	sc := []vkDSScenario{
		{"sha256", ks, []dns.RR{d2}},
		{"sha1", ks, []dns.RR{d1}},
		{"sha384", ks, []dns.RR{d4}},
		{"type5-only", ks, []dns.RR{d5}},
		{"type3-only", ks, []dns.RR{d3}},
		{"type5+sha256", ks, []dns.RR{d5, d2}},
		{"flipped", ks, []dns.RR{flip(d2)}},
		{"flipped+valid", ks, []dns.RR{flip(d2), d2}},
		{"valid+flipped", ks, []dns.RR{d2, flip(d2)}},
		{"flipped-sha1+flipped-sha256", ks, []dns.RR{flip(d1), flip(d2)}},
		{"upper-hex", ks, []dns.RR{mod(d2, func(x *dns.DS) { x.Digest = strings.ToUpper(x.Digest) })}},
		{"odd-hex", ks, []dns.RR{mod(d2, func(x *dns.DS) { x.Digest = x.Digest[:len(x.Digest)-1] })}},
		{"hex-prefix", ks, []dns.RR{mod(d2, func(x *dns.DS) { x.Digest = x.Digest[:40] })}},
		{"hex-extended", ks, []dns.RR{mod(d2, func(x *dns.DS) { x.Digest += "00" })}},
		{"non-hex", ks, []dns.RR{mod(d2, func(x *dns.DS) { x.Digest = "zz" + x.Digest[2:] })}},
		{"empty-digest", ks, []dns.RR{mod(d2, func(x *dns.DS) { x.Digest = "" })}},
		{"sha1-digest-as-sha256", ks, []dns.RR{mod(d1, func(x *dns.DS) { x.DigestType = 2 })}},
		{"keytag+1", ks, []dns.RR{mod(d2, func(x *dns.DS) { x.KeyTag++ })}},
		{"alg-sibling", ks, []dns.RR{mod(d2, func(x *dns.DS) { x.Algorithm = vkSiblingAlg(x.Algorithm) })}},
		{"class-ch", ks, []dns.RR{mod(d2, func(x *dns.DS) { x.Hdr.Class = dns.ClassCHAOS })}},
		{"owner-upper", ks, []dns.RR{mod(d2, func(x *dns.DS) { x.Hdr.Name = strings.ToUpper(x.Hdr.Name) })}},
		{"owner-other", ks, []dns.RR{mod(d2, func(x *dns.DS) { x.Hdr.Name = "other.org." })}},
		{"dup-x3", ks, []dns.RR{d2, dns.Copy(d2), dns.Copy(d2)}},
		{"non-ds-in-set", ks, []dns.RR{a, d2}},
		{"only-non-ds", ks, []dns.RR{a}},
		{"empty-set", ks, nil},
		{"no-keys", nil, []dns.RR{d2}},
	}
	if other != nil {
		o2 := vkDSOf(other, 2)
		sc = append(sc,
			vkDSScenario{"other-key-ds", ks, []dns.RR{o2}},
			vkDSScenario{"two-keys-second-matches", []*dns.DNSKEY{other, k}, []dns.RR{d2}},
			vkDSScenario{"two-keys-ds-of-other-flipped", []*dns.DNSKEY{other, k}, []dns.RR{flip(o2), d4}},
			vkDSScenario{"digest-of-other-under-this-tag", ks, []dns.RR{mod(o2, func(x *dns.DS) { x.KeyTag = d2.KeyTag })}},
		)
	}
	return sc
}

func vkVerifyDSSection(r *vkRun) {
	c := r.c
	all := vkSigKeys(false)
	for ki, vk := range all {
		if vk.Fam == "rsa" && vk.Bits != 1024 {
			continue
		}
		var other *dns.DNSKEY
		if o := vkOtherKey(vk); o != nil {
			other = o.Key
		}
		for _, sc := range vkDSScenarios(vk.Key, other) {
			caseKey := fmt.Sprintf("verifyds|%s|%s", vk.Name, sc.Name)
			if !r.take(caseKey) {
				continue
			}
			_ = ki
			eval := func() (accept, unsupportedOnly bool, pm string) {
				defer func() {
					if p := recover(); p != nil {
						pm = fmt.Sprint(p)
					}
				}()
				u, err := VerifyDS(vkKeyMap(sc.Keys), vkCopyRRs(sc.Set))
				return err == nil, u, ""
			}
			got, unsup, pm := eval()
			ref, strict := vkRefDSAccept(sc.Keys, sc.Set)
			c.Add("evaluations", 1)
			viol := ""
			switch {
			case pm != "":
				viol = "VerifyDS panicked: " + pm
			case got && !ref:
				viol = "VerifyDS ACCEPTS a DS set no key of which the library's ToDS reproduces"
			case !got && ref && strict == "":
				viol = "VerifyDS rejects a DS that is the library's ToDS of a usable zone key"
			case got && unsup:
				viol = "VerifyDS reports success and unsupported-only at once"
			}
			if viol != "" {
				g2, _, pm2 := eval()
				if g2 != got || pm2 != pm {
					c.HarnessError(caseKey + ": not reproducible")
					return
				}
				c.Violation(caseKey, fmt.Sprintf("%s (key %s, scenario %s: sdns accept=%v reference accept=%v)", viol, vk.Name, sc.Name, got, ref),
					map[string]any{"section": "verifyds", "case": caseKey})
				continue
			}
			switch {
			case got:
				c.Outcome("verifyds:both-accept")
			case ref:
				c.Outcome("verifyds:stricter:" + strict)
			case unsup:
				c.Outcome("verifyds:both-reject(unsupported-only)")
			default:
				c.Outcome("verifyds:both-reject")
			}
			c.DistinctStr("nontrivial", caseKey)
		}
	}
}

// ---------------------------------------------------------------- message level: VerifyRRSIG

func vkMsgSection(r *vkRun, thorough bool) {
	vkVerifyDSSection(r)
	c := r.c
	var keys []*vkKey
	for _, k := range vkSigKeys(false) {
		if k.Signer == nil || k.Key.Flags != 257 && k.Key.Flags != 256 || k.Key.Protocol != 3 {
			continue
		}
		if k.Fam == "rsa" && (k.Bits != 1024 && !(k.Bits == 2048 && thorough)) {
			continue
		}
		if strings.Contains(k.Name, "form") && !strings.Contains(k.Name, "form0") {
			continue
		}
		keys = append(keys, k)
	}
	type arrangement struct {
		name string
		// build returns the message and the key map
		build func(k *vkKey) (*dns.Msg, map[uint16][]*dns.DNSKEY, error)
	}
	base := func(k *vkKey, spec string) (*dns.RRSIG, []dns.RR, error) {
		return vkSignBase(k, vkRRset(spec), "", 0)
	}
	flipSig := func(s *dns.RRSIG, bit int) *dns.RRSIG {
		x := dns.Copy(s).(*dns.RRSIG)
		raw, _ := vkSigBytes(x)
		raw[bit/8] ^= 0x80 >> (bit % 8)
		x.Signature = vkB64(raw)
		return x
	}
	mk := func(answer ...dns.RR) *dns.Msg {
		m := new(dns.Msg)
		m.Answer = answer
		return m
	}
	arrs := []arrangement{
		{"valid", func(k *vkKey) (*dns.Msg, map[uint16][]*dns.DNSKEY, error) {
			s, rr, err := base(k, "a1")
			if err != nil {
				return nil, nil, err
			}
			return mk(append(rr, s)...), vkKeyMap([]*dns.DNSKEY{k.Key}), nil
		}},
		{"flipped", func(k *vkKey) (*dns.Msg, map[uint16][]*dns.DNSKEY, error) {
			s, rr, err := base(k, "a1")
			if err != nil {
				return nil, nil, err
			}
			return mk(append(rr, flipSig(s, 9))...), vkKeyMap([]*dns.DNSKEY{k.Key}), nil
		}},
		{"flipped+valid", func(k *vkKey) (*dns.Msg, map[uint16][]*dns.DNSKEY, error) {
			s, rr, err := base(k, "mx2")
			if err != nil {
				return nil, nil, err
			}
			return mk(append(rr, flipSig(s, 3), s)...), vkKeyMap([]*dns.DNSKEY{k.Key}), nil
		}},
		{"valid+flipped-x3", func(k *vkKey) (*dns.Msg, map[uint16][]*dns.DNSKEY, error) {
			s, rr, err := base(k, "mx2")
			if err != nil {
				return nil, nil, err
			}
			return mk(append(rr, s, flipSig(s, 3), flipSig(s, 4), flipSig(s, 5))...), vkKeyMap([]*dns.DNSKEY{k.Key}), nil
		}},
		{"unsigned", func(k *vkKey) (*dns.Msg, map[uint16][]*dns.DNSKEY, error) {
			_, rr, err := base(k, "a1")
			if err != nil {
				return nil, nil, err
			}
			return mk(rr...), vkKeyMap([]*dns.DNSKEY{k.Key}), nil
		}},
		{"sig-of-other-rrset-only", func(k *vkKey) (*dns.Msg, map[uint16][]*dns.DNSKEY, error) {
			_, rr, err := base(k, "a1")
			if err != nil {
				return nil, nil, err
			}
			s2, _, _ := base(k, "mx2")
			return mk(append(rr, s2)...), vkKeyMap([]*dns.DNSKEY{k.Key}), nil
		}},
		{"two-sets-both-valid", func(k *vkKey) (*dns.Msg, map[uint16][]*dns.DNSKEY, error) {
			s, rr, err := base(k, "a1")
			if err != nil {
				return nil, nil, err
			}
			s2, rr2, _ := base(k, "mx2")
			all := append(append(append([]dns.RR{}, rr...), s), append(rr2, s2)...)
			return mk(all...), vkKeyMap([]*dns.DNSKEY{k.Key}), nil
		}},
		{"two-sets-second-flipped", func(k *vkKey) (*dns.Msg, map[uint16][]*dns.DNSKEY, error) {
			s, rr, err := base(k, "a1")
			if err != nil {
				return nil, nil, err
			}
			s2, rr2, _ := base(k, "mx2")
			all := append(append(append([]dns.RR{}, rr...), s), append(rr2, flipSig(s2, 0))...)
			return mk(all...), vkKeyMap([]*dns.DNSKEY{k.Key}), nil
		}},
		{"wildcard-expansion", func(k *vkKey) (*dns.Msg, map[uint16][]*dns.DNSKEY, error) {
			s, rr, err := base(k, "wild-a")
			if err != nil {
				return nil, nil, err
			}
			return mk(append(rr, s)...), vkKeyMap([]*dns.DNSKEY{k.Key}), nil
		}},
		{"wildcard-labels+1", func(k *vkKey) (*dns.Msg, map[uint16][]*dns.DNSKEY, error) {
			s, rr, err := base(k, "wild-a")
			if err != nil {
				return nil, nil, err
			}
			s.Labels++
			return mk(append(rr, s)...), vkKeyMap([]*dns.DNSKEY{k.Key}), nil
		}},
		{"decoy-key-same-bucket", func(k *vkKey) (*dns.Msg, map[uint16][]*dns.DNSKEY, error) {
			s, rr, err := base(k, "a1")
			if err != nil {
				return nil, nil, err
			}
			km := vkKeyMap([]*dns.DNSKEY{k.Key})
			t, _ := vkLibKeyTag(k.Key)
			km[t] = append([]*dns.DNSKEY{vkOtherKey(k).clone(), nil}, km[t]...)
			return mk(append(rr, s)...), km, nil
		}},
		{"only-decoy-key", func(k *vkKey) (*dns.Msg, map[uint16][]*dns.DNSKEY, error) {
			s, rr, err := base(k, "a1")
			if err != nil {
				return nil, nil, err
			}
			t, _ := vkLibKeyTag(k.Key)
			return mk(append(rr, s)...), map[uint16][]*dns.DNSKEY{t: {vkOtherKey(k).clone()}}, nil
		}},
		{"key-absent", func(k *vkKey) (*dns.Msg, map[uint16][]*dns.DNSKEY, error) {
			s, rr, err := base(k, "a1")
			if err != nil {
				return nil, nil, err
			}
			return mk(append(rr, s)...), vkKeyMap([]*dns.DNSKEY{vkOtherKey(k).Key}), nil
		}},
		{"expired", func(k *vkKey) (*dns.Msg, map[uint16][]*dns.DNSKEY, error) {
			s, rr, err := vkSignWindow(k, vkRRset("a1"), 1000, 2000)
			if err != nil {
				return nil, nil, err
			}
			return mk(append(rr, s)...), vkKeyMap([]*dns.DNSKEY{k.Key}), nil
		}},
		{"expired+valid", func(k *vkKey) (*dns.Msg, map[uint16][]*dns.DNSKEY, error) {
			s, rr, err := vkSignWindow(k, vkRRset("a1"), 1000, 2000)
			if err != nil {
				return nil, nil, err
			}
			s2, _, _ := base(k, "a1")
			return mk(append(rr, s, s2)...), vkKeyMap([]*dns.DNSKEY{k.Key}), nil
		}},
		{"rdata-tampered", func(k *vkKey) (*dns.Msg, map[uint16][]*dns.DNSKEY, error) {
			s, rr, err := base(k, "a1")
			if err != nil {
				return nil, nil, err
			}
			vkTweakRdata(rr[0])
			return mk(append(rr, s)...), vkKeyMap([]*dns.DNSKEY{k.Key}), nil
		}},
		{"ttl-decayed-owner-upper", func(k *vkKey) (*dns.Msg, map[uint16][]*dns.DNSKEY, error) {
			s, rr, err := base(k, "mx2")
			if err != nil {
				return nil, nil, err
			}
			for _, x := range rr {
				x.Header().Ttl = 5
			}
			s.Hdr.Name = strings.ToUpper(s.Hdr.Name)
			return mk(append([]dns.RR{s}, rr...)...), vkKeyMap([]*dns.DNSKEY{k.Key}), nil
		}},
	}
	for _, k := range keys {
		for _, a := range arrs {
			caseKey := "verifyrrsig|" + k.Name + "|" + a.name
			if !r.take(caseKey) {
				continue
			}
			eval := func() (got bool, ref bool, pm string, err error) {
				msg, km, err := a.build(k)
				if err != nil {
					return false, false, "", err
				}
				ref = vkRefMsgAccept(msg, km)
				defer func() {
					if p := recover(); p != nil {
						pm = fmt.Sprint(p)
					}
				}()
				ok, verr := VerifyRRSIG(vkZone, km, msg)
				return ok && verr == nil, ref, "", nil
			}
			got, ref, pm, err := eval()
			if err != nil {
				c.Outcome("verifyrrsig:unsignable")
				continue
			}
			c.Add("evaluations", 1)
			viol := ""
			switch {
			case pm != "":
				viol = "VerifyRRSIG panicked: " + pm
			case got && !ref:
				viol = "VerifyRRSIG ACCEPTS a message in which some RRset has no signature the reference accepts"
			case !got && ref:
				viol = "VerifyRRSIG rejects a message in which every RRset has a signature the reference accepts"
			}
			if viol != "" {
				g2, r2, pm2, _ := eval()
				if g2 != got || r2 != ref || pm2 != pm {
					c.HarnessError(caseKey + ": not reproducible")
					return
				}
				c.Violation(caseKey, fmt.Sprintf("%s (key %s, arrangement %s)", viol, k.Name, a.name), map[string]any{"section": "verifyrrsig", "case": caseKey})
				continue
			}
			if got {
				c.Outcome("verifyrrsig:both-accept:" + k.Fam)
			} else {
				c.Outcome("verifyrrsig:both-reject:" + k.Fam)
			}
			c.DistinctStr("nontrivial", caseKey)
		}
	}
}

func vkSignWindow(k *vkKey, spec *vkRRsetSpec, inc, exp uint32) (*dns.RRSIG, []dns.RR, error) {
	signed := vkParse(spec.Signed)
	tag, _ := vkLibKeyTag(k.Key)
	sig := &dns.RRSIG{Hdr: dns.RR_Header{Rrtype: dns.TypeRRSIG, Class: dns.ClassINET, Ttl: 300}, Algorithm: k.Key.Algorithm,
		Expiration: exp, Inception: inc, OrigTtl: signed[0].Header().Ttl, KeyTag: tag, SignerName: k.Key.Hdr.Name}
	s := *k.Signer
	if err := sig.Sign(&s, signed); err != nil {
		return nil, nil, err
	}
	return sig, signed, nil
}

// vkRefMsgAccept: every RRset of the answer has a signature that the reference
// accepts under some key of its tag bucket and whose validity period holds.
func vkRefMsgAccept(msg *dns.Msg, km map[uint16][]*dns.DNSKEY) bool {
	type gk struct {
		name string
		t, c uint16
	}
	groups := map[gk][]dns.RR{}
	var order []gk
	var sigs []*dns.RRSIG
	for _, rr := range msg.Answer {
		if s, ok := rr.(*dns.RRSIG); ok {
			sigs = append(sigs, s)
			continue
		}
		g := gk{vkASCIILower(rr.Header().Name), rr.Header().Rrtype, rr.Header().Class}
		if _, ok := groups[g]; !ok {
			order = append(order, g)
		}
		groups[g] = append(groups[g], rr)
	}
	for _, g := range order {
		ok := false
		for _, s := range sigs {
			if vkASCIILower(s.Hdr.Name) != g.name || s.TypeCovered != g.t || s.Hdr.Class != g.c {
				continue
			}
			if !s.ValidityPeriod(time.Time{}) {
				continue
			}
			for _, k := range km[s.KeyTag] {
				if k == nil {
					continue
				}
				v := vkJudge(k, s, groups[g])
				if v.ref && v.strict == "" {
					ok = true
				}
			}
		}
		if !ok {
			return false
		}
	}
	return true
}

// ---------------------------------------------------------------- work counts

type vkCountWork struct{ sigs, digests, checks int }

func (w *vkCountWork) CheckDNSKEYCandidate(uint32) error { w.checks++; return nil }
func (w *vkCountWork) CheckRRsetSignature(uint32) error  { return nil }
func (w *vkCountWork) BeginSignature() (func(), error)   { w.sigs++; return func() {}, nil }
func (w *vkCountWork) BeginDSDigest() (func(), error)    { w.digests++; return func() {}, nil }

// vkWorkSection: public-key and digest operations are counted through the
// work seam; duplicated attacker material must not multiply them.
func vkWorkSection(r *vkRun) {
	c := r.c
	k := vkRSAKey(1024, "e65537", dns.RSASHA256, 0, 257, 3)
	for _, dupSig := range []int{1, 2, 8, 32} {
		for _, dupKey := range []int{1, 2, 8, 32} {
			for _, distinct := range []int{1, 3} {
				caseKey := fmt.Sprintf("work|sig|dupsig%d|dupkey%d|distinct%d", dupSig, dupKey, distinct)
				if !r.take(caseKey) {
					continue
				}
				s, rr, err := vkSignBase(k, vkRRset("a1"), "", 0)
				if err != nil {
					c.HarnessError("work: " + err.Error())
					return
				}
				raw, _ := vkSigBytes(s)
				msg := new(dns.Msg)
				msg.Answer = append(msg.Answer, rr...)
				for d := 0; d < distinct; d++ {
					x := dns.Copy(s).(*dns.RRSIG)
					b := append([]byte{}, raw...)
					b[0] ^= byte(1 << d)
					x.Signature = vkB64(b)
					for i := 0; i < dupSig; i++ {
						msg.Answer = append(msg.Answer, dns.Copy(x))
					}
				}
				tag, _ := vkLibKeyTag(k.Key)
				km := map[uint16][]*dns.DNSKEY{}
				for i := 0; i < dupKey; i++ {
					km[tag] = append(km[tag], k.clone())
				}
				w := &vkCountWork{}
				ok, _ := VerifyRRSIGWithWork(vkZone, km, msg, w)
				c.Add("evaluations", 1)
				bound := distinct // unique signatures x unique keys (1)
				if ok {
					c.Violation(caseKey+"|accept", "VerifyRRSIGWithWork accepted a message whose only signatures are corrupted", map[string]any{"section": "work", "case": caseKey})
				} else if w.sigs > bound {
					c.Violation(caseKey, fmt.Sprintf("%d public-key operations for %d distinct signatures x 1 distinct key (each sent %d / %d times): duplicates multiply the work", w.sigs, distinct, dupSig, dupKey),
						map[string]any{"section": "work", "case": caseKey})
				} else {
					c.Outcome(fmt.Sprintf("work:sig-ops=%d<=distinct", w.sigs))
					c.DistinctStr("nontrivial", caseKey)
				}
			}
		}
	}
	for _, dupDS := range []int{1, 2, 8, 32} {
		for _, dupKey := range []int{1, 2, 8, 32} {
			caseKey := fmt.Sprintf("work|ds|dupds%d|dupkey%d", dupDS, dupKey)
			if !r.take(caseKey) {
				continue
			}
			d := vkDSOf(k.Key, 2)
			b := []byte(d.Digest)
			b[0] ^= 1
			d.Digest = string(b)
			d4 := vkDSOf(k.Key, 4)
			b4 := []byte(d4.Digest)
			b4[0] ^= 1
			d4.Digest = string(b4)
			var set []dns.RR
			for i := 0; i < dupDS; i++ {
				set = append(set, dns.Copy(d), dns.Copy(d4))
			}
			tag, _ := vkLibKeyTag(k.Key)
			km := map[uint16][]*dns.DNSKEY{}
			for i := 0; i < dupKey; i++ {
				km[tag] = append(km[tag], k.clone())
			}
			w := &vkCountWork{}
			_, err := VerifyDSWithWork(km, set, w)
			c.Add("evaluations", 1)
			if err == nil {
				c.Violation(caseKey+"|accept", "VerifyDSWithWork accepted corrupted digests", map[string]any{"section": "work", "case": caseKey})
			} else if w.digests > 2 {
				c.Violation(caseKey, fmt.Sprintf("%d digest operations for 2 distinct DS x 1 distinct key (sent %d / %d times)", w.digests, dupDS, dupKey), map[string]any{"section": "work", "case": caseKey})
			} else {
				c.Outcome(fmt.Sprintf("work:ds-ops=%d<=2", w.digests))
				c.DistinctStr("nontrivial", caseKey)
			}
		}
	}
}
