//go:build verif

package dnssec

// C14 — alphabets: keys (real material x algorithm x flags x protocol x
// encoding form) and RRsets. Everything is addressable by a stable name so a
// recorded case can be replayed.

import (
	"crypto/ed25519"
	"crypto/elliptic"
	"encoding/hex"
	"fmt"
	"math/big"
	"strings"

	"github.com/miekg/dns"
)

const vkZone = "example.org."

type vkKey struct {
	Name   string
	Fam    string // rsa | p256 | p384 | ed25519 | blob
	Key    *dns.DNSKEY
	Signer *vkSigner // nil: cannot sign
	Bits   int
	E      *big.Int
}

func (k *vkKey) clone() *dns.DNSKEY { return dns.Copy(k.Key).(*dns.DNSKEY) }

var vkExponents = []struct {
	name string
	dec  string
}{
	{"e3", "3"},
	{"e65537", "65537"},
	{"e2p31m1", "2147483647"},            // largest exponent crypto/rsa loads
	{"e2p31p11", "2147483659"},           // 32 bits, four octets: first wide one
	{"e2p32p1", "4294967297"},            // the mailbox.org exponent, five octets
	{"e2p64m59", "18446744073709551557"}, // 64 bits: the documented ceiling
	{"e2p64p13", "18446744073709551629"}, // 65 bits: over the ceiling
	{"e1", "1"},                          // not an RSA exponent
}

func vkExp(name string) *big.Int {
	for _, e := range vkExponents {
		if e.name == name {
			v, _ := new(big.Int).SetString(e.dec, 10)
			return v
		}
	}
	panic("vk: unknown exponent " + name)
}

func vkNewDNSKEY(owner string, flags uint16, proto, alg uint8, pub string) *dns.DNSKEY {
	return &dns.DNSKEY{
		Hdr:   dns.RR_Header{Name: owner, Rrtype: dns.TypeDNSKEY, Class: dns.ClassINET, Ttl: 3600},
		Flags: flags, Protocol: proto, Algorithm: alg, PublicKey: pub,
	}
}

func vkRSAKey(bits int, ename string, alg uint8, form int, flags uint16, proto uint8) *vkKey {
	priv := vkRSA(bits)
	e := vkExp(ename)
	pub := vkRSAPub(e, priv.n, form)
	k := &vkKey{
		Name: fmt.Sprintf("rsa%d-%s-alg%d-form%d-f%d-p%d", bits, ename, alg, form, flags, proto),
		Fam:  "rsa", Bits: bits, E: e,
		Key: vkNewDNSKEY(vkZone, flags, proto, alg, vkB64(pub)),
	}
	if e.Cmp(vkOne) == 0 || priv.privExp(e) != nil {
		k.Signer = &vkSigner{kind: "rsa", rsa: priv, e: e}
	}
	return k
}

func vkECKey(curve elliptic.Curve, idx int, alg uint8, flags uint16, proto uint8) *vkKey {
	fam, src := "p256", vkP256D
	if curve == elliptic.P384() {
		fam, src = "p384", vkP384D
	}
	d := vkHexInt(src[idx])
	d.Mod(d, new(big.Int).Sub(curve.Params().N, vkOne))
	d.Add(d, vkOne)
	return &vkKey{
		Name:   fmt.Sprintf("%s-k%d-alg%d-f%d-p%d", fam, idx, alg, flags, proto),
		Fam:    fam,
		Key:    vkNewDNSKEY(vkZone, flags, proto, alg, vkB64(vkECDSAPub(curve, d))),
		Signer: &vkSigner{kind: "ecdsa", curve: curve, d: d},
	}
}

func vkEdKey(idx int, alg uint8, flags uint16, proto uint8) *vkKey {
	seed, _ := hex.DecodeString(vkEdSeed[idx])
	priv := ed25519.NewKeyFromSeed(seed)
	return &vkKey{
		Name:   fmt.Sprintf("ed25519-k%d-alg%d-f%d-p%d", idx, alg, flags, proto),
		Fam:    "ed25519",
		Key:    vkNewDNSKEY(vkZone, flags, proto, alg, vkB64(priv.Public().(ed25519.PublicKey))),
		Signer: &vkSigner{kind: "ed25519", ed: priv},
	}
}

// vkSigKeys is the key alphabet for signature verification.
func vkSigKeys(thorough bool) []*vkKey {
	var ks []*vkKey
	add := func(k *vkKey) { ks = append(ks, k) }
	rsaAlgs := []uint8{dns.RSASHA256, dns.RSASHA1, dns.RSASHA1NSEC3SHA1, dns.RSASHA512}
	// simplest first: 1024-bit, every exponent, RSASHA256
	for _, e := range vkExponents {
		add(vkRSAKey(1024, e.name, dns.RSASHA256, 0, 257, 3))
	}
	for _, alg := range rsaAlgs[1:] {
		for _, en := range []string{"e65537", "e2p32p1"} {
			add(vkRSAKey(1024, en, alg, 0, 256, 3))
		}
	}
	// modulus sizes at and around the limits
	for _, bits := range []int{512, 1023, 2048, 4096, 4097} {
		for _, en := range []string{"e65537", "e2p32p1"} {
			add(vkRSAKey(bits, en, dns.RSASHA256, 0, 257, 3))
		}
	}
	add(vkRSAKey(4096, "e2p64m59", dns.RSASHA512, 0, 256, 3))
	add(vkRSAKey(2048, "e3", dns.RSASHA1, 0, 256, 3))
	// encodings of the exponent/modulus
	for _, form := range []int{1, 2, 3} {
		add(vkRSAKey(1024, "e65537", dns.RSASHA256, form, 257, 3))
		add(vkRSAKey(1024, "e2p32p1", dns.RSASHA256, form, 257, 3))
	}
	// flags / protocol
	for _, f := range []uint16{0, 1, 128, 256, 385, 0xFFFF, 0xFEFF} {
		add(vkRSAKey(1024, "e65537", dns.RSASHA256, 0, f, 3))
		add(vkRSAKey(1024, "e2p32p1", dns.RSASHA512, 0, f, 3))
	}
	for _, p := range []uint8{0, 2, 255} {
		add(vkRSAKey(1024, "e65537", dns.RSASHA256, 0, 257, p))
		add(vkRSAKey(1024, "e2p32p1", dns.RSASHA256, 0, 257, p))
	}
	// elliptic
	add(vkECKey(elliptic.P256(), 0, dns.ECDSAP256SHA256, 257, 3))
	add(vkECKey(elliptic.P384(), 0, dns.ECDSAP384SHA384, 257, 3))
	add(vkEdKey(0, dns.ED25519, 257, 3))
	add(vkECKey(elliptic.P256(), 0, dns.ECDSAP256SHA256, 0, 3))
	add(vkECKey(elliptic.P256(), 0, dns.ECDSAP256SHA256, 256, 0))
	add(vkEdKey(0, dns.ED25519, 385, 3))
	add(vkEdKey(0, dns.ED25519, 0, 3))
	if thorough {
		for _, bits := range []int{512, 1023, 1024, 2048, 4096, 4097} {
			for _, e := range vkExponents {
				for _, alg := range rsaAlgs {
					add(vkRSAKey(bits, e.name, alg, 0, 256, 3))
				}
			}
		}
		add(vkECKey(elliptic.P256(), 1, dns.ECDSAP256SHA256, 256, 3))
		add(vkECKey(elliptic.P384(), 1, dns.ECDSAP384SHA384, 256, 3))
		add(vkEdKey(1, dns.ED25519, 256, 3))
	}
	// drop duplicates by name
	seen := map[string]bool{}
	out := ks[:0]
	for _, k := range ks {
		if !seen[k.Name] {
			seen[k.Name] = true
			out = append(out, k)
		}
	}
	return out
}

// vkOtherKey is a second key of the same shape (same algorithm, other
// material): the "wrong key".
func vkOtherKey(k *vkKey) *vkKey {
	switch k.Fam {
	case "rsa":
		bits := 2048
		if k.Bits == 2048 {
			bits = 1024
		}
		return vkRSAKey(bits, "e65537", k.Key.Algorithm, 0, 257, 3)
	case "p256":
		return vkECKey(elliptic.P256(), 1, k.Key.Algorithm, 257, 3)
	case "p384":
		return vkECKey(elliptic.P384(), 1, k.Key.Algorithm, 257, 3)
	case "ed25519":
		return vkEdKey(1, k.Key.Algorithm, 257, 3)
	}
	return nil
}

// ---------------------------------------------------------------- RRsets

type vkRRsetSpec struct {
	Name   string
	Signed []string // what the zone signs
	Verify []string // what the validator sees (nil = Signed); wildcard expansions differ
}

var vkRRsets = []vkRRsetSpec{
	{Name: "a1", Signed: []string{"a.example.org. 300 IN A 192.0.2.1"}},
	{Name: "mx2", Signed: []string{"MX.Example.org. 300 IN MX 20 Backup.Example.Org.", "MX.Example.org. 300 IN MX 10 Mail.Example.Org."}},
	{Name: "wild-a", Signed: []string{"*.example.org. 300 IN A 192.0.2.7"}, Verify: []string{"x.example.org. 300 IN A 192.0.2.7"}},
	{Name: "txt3", Signed: []string{`t.example.org. 60 IN TXT "bbbb"`, `t.example.org. 60 IN TXT "a" "cc"`, `t.example.org. 60 IN TXT "zzzzzzzzzzzz"`}},
	{Name: "evil-boundary", Signed: []string{"a.evilexample.org. 300 IN A 192.0.2.66"}},
	{Name: "ns2-apex", Signed: []string{"example.org. 3600 IN NS Ns1.Example.org.", "example.org. 3600 IN NS ns2.EXAMPLE.org."}},
	{Name: "cname", Signed: []string{"www.example.org. 300 IN CNAME Target.Example.NET."}},
	{Name: "soa", Signed: []string{"example.org. 3600 IN SOA Ns1.Example.org. Host.Example.org. 2024010101 7200 3600 1209600 300"}},
	{Name: "srv2", Signed: []string{"_s._tcp.example.org. 300 IN SRV 10 5 443 B.Example.org.", "_s._tcp.example.org. 300 IN SRV 10 5 443 a.example.org."}},
	{Name: "aaaa-dup", Signed: []string{"d.example.org. 300 IN AAAA 2001:db8::1", "d.example.org. 300 IN AAAA 2001:db8::1", "d.example.org. 300 IN AAAA 2001:db8::2"}},
	{Name: "wild-deep", Signed: []string{"*.example.org. 300 IN TXT \"w\""}, Verify: []string{"p.q.example.org. 300 IN TXT \"w\""}},
	{Name: "wild-esc", Signed: []string{"*.example.org. 300 IN A 192.0.2.10"}, Verify: []string{`a\.b.example.org. 300 IN A 192.0.2.10`}},
	{Name: "wild-esc-deep", Signed: []string{"*.example.org. 300 IN TXT \"e\""}, Verify: []string{`x.a\.b.example.org. 300 IN TXT "e"`}},
	{Name: "wild-literal", Signed: []string{"*.example.org. 300 IN A 192.0.2.8"}},
	{Name: "nsec", Signed: []string{"a.example.org. 300 IN NSEC B.Example.org. A RRSIG NSEC"}},
	{Name: "ds", Signed: []string{"child.example.org. 300 IN DS 12345 8 2 E2D3C916F6DEEAC73294E8268FB5885044A833FC5459588F4A9184CFC41A5766"}},
	{Name: "esc-boundary", Signed: []string{`a\.example.org. 300 IN A 192.0.2.67`}},
	{Name: "esc-owner", Signed: []string{`\065b\.c.example.org. 300 IN A 192.0.2.68`}},
	{Name: "apex-a", Signed: []string{"example.org. 300 IN A 192.0.2.9"}},
	{Name: "many-a", Signed: func() []string {
		var s []string
		for i := 20; i >= 1; i-- {
			s = append(s, fmt.Sprintf("m.example.org. 300 IN A 192.0.%d.%d", i%3, i*7))
		}
		return s
	}()},
	{Name: "long-txt", Signed: []string{
		`l.example.org. 300 IN TXT "` + strings.Repeat("x", 255) + `" "` + strings.Repeat("y", 255) + `" "` + strings.Repeat("z", 255) + `"`,
		`l.example.org. 300 IN TXT "` + strings.Repeat("x", 254) + `"`,
	}},
	{Name: "ptr-dname", Signed: []string{"sub.example.org. 300 IN DNAME Other.Example.COM."}},
	// RDATA with embedded names, inside and outside the RFC 4034 6.2 lower-casing list, and type codes >= 64
	{Name: "https2", Signed: []string{`h.example.org. 300 IN HTTPS 1 Svc.Example.NET. alpn="h2,h3" port=8443`, `h.example.org. 300 IN HTTPS 0 Alias.Example.ORG.`}},
	{Name: "svcb", Signed: []string{`_dns.example.org. 300 IN SVCB 1 Dot.Example.Org. alpn="dot"`}},
	{Name: "naptr", Signed: []string{`n.example.org. 300 IN NAPTR 100 10 "S" "SIP+D2U" "" _Sip._Udp.Example.ORG.`}},
	{Name: "ptr", Signed: []string{"9.2.0.192.example.org. 300 IN PTR Host.Example.ORG."}},
	{Name: "rp-kx-afsdb", Signed: []string{"r.example.org. 300 IN RP Admin.Example.ORG. Txt.Example.ORG."}},
	{Name: "kx", Signed: []string{"k.example.org. 300 IN KX 10 Kx.Example.ORG."}},
	{Name: "afsdb", Signed: []string{"af.example.org. 300 IN AFSDB 1 Afs.Example.ORG."}},
	{Name: "px-rt", Signed: []string{"px.example.org. 300 IN PX 10 Map822.Example.ORG. MapX400.Example.ORG."}},
	{Name: "minfo-hinfo", Signed: []string{"mi.example.org. 300 IN MINFO Rbox.Example.ORG. Ebox.Example.ORG."}},
	{Name: "caa2", Signed: []string{`c.example.org. 300 IN CAA 0 issue "Ca.Example.NET"`, `c.example.org. 300 IN CAA 128 iodef "mailto:Sec@Example.org"`}},
	{Name: "tlsa", Signed: []string{"_443._tcp.example.org. 300 IN TLSA 3 1 1 0C72AC70B745AC19998811B131D662C9AC69DBDBE7CB23E5B514B56664C5D3D6"}},
	{Name: "unknown-type", Signed: []string{`u.example.org. 300 IN TYPE65280 \# 4 0A000001`, `u.example.org. 300 IN TYPE65280 \# 3 0A0000`}},
	{Name: "nsec3", Signed: []string{"0p9mhaveqvm6t7vbl5lop2u3t2rp3tom.example.org. 300 IN NSEC3 1 1 12 AABBCCDD 2T7B4G4VSA5SMI47K61MV5BV1A22BOJR MX DNSKEY NS SOA NSEC3PARAM RRSIG"}},
	{Name: "rrsig-of-rrsig", Signed: []string{"s.example.org. 300 IN RRSIG A 13 3 300 20300101000000 20200101000000 12345 Example.ORG. AAAA"}},
	{Name: "nsec-high-types", Signed: []string{"z.example.org. 300 IN NSEC Zz.Example.org. A HTTPS CAA TYPE65280 RRSIG NSEC"}},
	{Name: "loc-sshfp", Signed: []string{"l2.example.org. 300 IN SSHFP 4 2 9F86D081884C7D659A2FEAA0C55AD015A3BF4F1B2B0B822CD15D6C15B0F00A08"}},
}

func vkParse(lines []string) []dns.RR {
	out := make([]dns.RR, len(lines))
	for i, l := range lines {
		rr, err := dns.NewRR(l)
		if err != nil || rr == nil {
			panic(fmt.Sprintf("vk: cannot parse %q: %v", l, err))
		}
		out[i] = rr
	}
	return out
}

func vkRRset(name string) *vkRRsetSpec {
	for i := range vkRRsets {
		if vkRRsets[i].Name == name {
			return &vkRRsets[i]
		}
	}
	return nil
}

func vkCopyRRs(in []dns.RR) []dns.RR {
	out := make([]dns.RR, len(in))
	for i, r := range in {
		if r != nil {
			out[i] = dns.Copy(r)
		}
	}
	return out
}

// vkSignBase has the zone (library RRSIG.Sign + independent signer) sign the
// spec with key; returns the RRSIG as the validator receives it and the RRset
// the validator sees.
func vkSignBase(k *vkKey, spec *vkRRsetSpec, emMode string, nonce int) (*dns.RRSIG, []dns.RR, error) {
	if k.Signer == nil {
		return nil, nil, fmt.Errorf("key %s cannot sign", k.Name)
	}
	signed := vkParse(spec.Signed)
	tag, _ := vkLibKeyTag(k.Key)
	sig := &dns.RRSIG{
		Hdr:        dns.RR_Header{Rrtype: dns.TypeRRSIG, Class: dns.ClassINET, Ttl: 300},
		Algorithm:  k.Key.Algorithm,
		Expiration: 1<<32 - 1,
		Inception:  0,
		OrigTtl:    signed[0].Header().Ttl,
		KeyTag:     tag,
		SignerName: k.Key.Hdr.Name,
	}
	s := *k.Signer
	s.em, s.nonce = emMode, nonce
	if tag == 0 {
		// the library refuses to sign with key tag 0; sign under 1 is impossible
		// (the tag is inside the signed data), so report it
		return nil, nil, fmt.Errorf("key %s has key tag 0", k.Name)
	}
	if err := sig.Sign(&s, signed); err != nil {
		return nil, nil, err
	}
	view := signed
	if spec.Verify != nil {
		view = vkParse(spec.Verify)
		sig.Hdr.Name = view[0].Header().Name
	}
	return sig, view, nil
}
