//go:build verif

package blocklist

// C18 unit "keys": the persisted list must reload to exactly the in-memory list for
// EVERY key the API accepts, not only for tidy host names. Every sequence (<= 2, thorough
// <= 3) of Set / Remove / SetBatch over an alphabet of keys as a client of the HTTP API can
// spell them — mixed case, with and without the final dot, wildcard forms, keys carrying
// the characters the list file gives a meaning to ('#' starts a comment, white space
// separates hosts-file fields), escaped dots, the root — is applied to a real BlockList
// with a real directory. Afterwards a fresh BlockList loads that directory with the
// package's own loader ("restart") and must hold exactly the same members, and answer
// Exists() identically on every key and on every name a mangled reload could produce.
// A key the API REFUSED (Set returned false / was not counted) is simply not in memory:
// refusing what cannot be stored is allowed, storing something else is not.

import (
	"encoding/json"
	"fmt"
	"os"
	"strings"
	"testing"

	"github.com/semihalev/sdns/internal/verifshim/vkit"
)

var vkKeyAlphabet = []string{
	"ads.test", "ADS.Test.", "*.cdn.test", "test", "sub.ads.test.",
	"a#b.test", "#hash.test", "two words.test", "tab\there.test", "trail.test #note", " lead.test",
	"x\\.y.test", "*.a#b.test", "0.0.0.0 hosts.test", ".", "*.",
	// a key that ends in a backslash: the final dot the canonical form appends becomes an ESCAPED dot
	"trail.test\\", "*.wild.test\\",
	// names the configuration already lists (in memory, not yet in the persisted local list)
	"cfg.test", "*.cfgw.test",
	// longer than any domain name can be and than one line the list loader reads (64 KiB)
	strings.Repeat("a", 70000) + ".test",
}

// vkKeyProbes: every key, plus the names a lossy write/read of the list file could turn it into.
func vkKeyProbes() []string {
	seen := map[string]bool{}
	var out []string
	add := func(s string) {
		s = strings.TrimSpace(s)
		if s == "" {
			return
		}
		s = strings.ToLower(s)
		if !strings.HasSuffix(s, ".") {
			s += "."
		}
		if !seen[s] {
			seen[s] = true
			out = append(out, s)
		}
	}
	for _, k := range vkKeyAlphabet {
		add(k)
		add(strings.TrimPrefix(k, "*."))
		add("www." + strings.TrimPrefix(k, "*."))
		if head, _, ok := strings.Cut(k, "#"); ok {
			add(head)
			add("www." + head)
		}
		for _, f := range strings.Fields(k) {
			add(f)
			add("www." + f)
		}
	}
	return out
}

type vkKeyOp struct {
	Op   string   `json:"op"` // set | remove | setbatch
	Keys []string `json:"keys"`
}

func (o vkKeyOp) String() string { return fmt.Sprintf("%s%q", o.Op, o.Keys) }

// vkKeysCfg: entries that are in memory WITHOUT having come through the API (the configuration's own blocklist; lists
// downloaded into the directory behave the same): they reach the persisted local list with the first successful API call,
// which persists a snapshot of the whole in-memory list — also when that call only re-adds one of them.
var vkKeysCfg = vkList{Plain: []string{"cfg.test."}, Wild: []string{"cfgw.test."}}

func vkKeysRun(base string, hist []vkKeyOp) (viol string, outcome string) {
	return vkKeysRunCfg(base, hist, vkList{})
}

func vkKeysRunCfg(base string, hist []vkKeyOp, cfg vkList) (viol string, outcome string) {
	dir, err := os.MkdirTemp(base, "k")
	if err != nil {
		return "harness: " + err.Error(), ""
	}
	defer os.RemoveAll(dir)
	b := vkBuild(cfg, dir)
	var res []string
	succeeded := false
	for _, o := range hist {
		r := vkApplyReal(b, vkPOp{Op: o.Op, Keys: o.Keys})
		succeeded = succeeded || r > 0
		res = append(res, fmt.Sprint(r))
	}
	mem := vkMem(b)
	if len(cfg.Plain)+len(cfg.Wild) > 0 && !succeeded {
		// nothing was added or removed through the API: nothing had to be persisted
		return "", fmt.Sprintf("cfg:no-api-change members=%d", len(mem))
	}
	fresh, err := vkLoad(dir, nil)
	if err != nil {
		if len(mem) == 0 {
			return "", "empty"
		}
		return fmt.Sprintf("after %v the in-memory list is %q but a restart cannot load the persisted directory: %v", hist, mem, err), "violation"
	}
	got := vkMem(fresh)
	if strings.Join(got, "\x00") != strings.Join(mem, "\x00") {
		content, _ := vkReadLocal(dir)
		return fmt.Sprintf("after %v the in-memory list is %q but the persisted list reloads as %q (file: %q)", hist, mem, got, content), "violation"
	}
	for _, q := range vkKeyProbes() {
		if a, c := b.Exists(q), fresh.Exists(q); a != c {
			return fmt.Sprintf("after %v: Exists(%q) is %v in memory and %v after a restart (lists %q)", hist, q, a, c, mem), "violation"
		}
	}
	return "", fmt.Sprintf("members=%d results=%s", len(mem), strings.Join(res, ""))
}

func TestVerifC18Keys(t *testing.T) {
	c := vkit.Init("C18/keys")
	defer c.Close()
	base, err := os.MkdirTemp("", "vkc18keys")
	if err != nil {
		c.HarnessError(err.Error())
		return
	}
	defer os.RemoveAll(base)
	if c.Replay != nil {
		var r struct {
			Hist []vkKeyOp `json:"hist"`
			Cfg  bool      `json:"cfg"`
		}
		if json.Unmarshal(c.Replay, &r) != nil {
			c.HarnessError("bad replay")
			return
		}
		cfg := vkList{}
		if r.Cfg {
			cfg = vkKeysCfg
		}
		if v, _ := vkKeysRunCfg(base, r.Hist, cfg); v != "" {
			c.Violation("keys:replay", v, r)
		}
		return
	}
	var ops []vkKeyOp
	for _, k := range vkKeyAlphabet {
		ops = append(ops, vkKeyOp{"set", []string{k}})
	}
	for _, k := range vkKeyAlphabet {
		ops = append(ops, vkKeyOp{"remove", []string{k}})
	}
	for i := 0; i+1 < len(vkKeyAlphabet); i += 2 {
		ops = append(ops, vkKeyOp{"setbatch", []string{vkKeyAlphabet[i], vkKeyAlphabet[i+1]}})
	}
	depth := 2
	if c.Thorough() {
		depth = 3
	}
	n := 0
	var rec func(h []vkKeyOp)
	rec = func(h []vkKeyOp) {
		if len(h) > 0 {
			v, out := vkKeysRun(base, h)
			c.Add("evaluations", 1)
			c.Outcome(out)
			if v == "" && len(h) <= 2 {
				// the same history on a list whose configuration already holds two entries
				if v2, out2 := vkKeysRunCfg(base, h, vkKeysCfg); v2 != "" {
					if v3, _ := vkKeysRunCfg(base, h, vkKeysCfg); v3 != "" {
						c.Violation("keys:reload-differs:configured-entries", "with the configured entries "+fmt.Sprint(vkKeysCfg.Plain, vkKeysCfg.Wild)+": "+v2, map[string]any{"hist": h, "cfg": true})
						return
					}
				} else {
					c.Add("evaluations", 1)
					c.Outcome(out2)
				}
			}
			if len(h) >= 2 {
				c.DistinctStr("nontrivial", fmt.Sprint(h))
			}
			n++
			if n%211 == 0 {
				c.Sample(map[string]any{"hist": fmt.Sprint(h), "outcome": out})
			}
			if v != "" {
				if strings.HasPrefix(v, "harness:") {
					c.HarnessError(v)
					return
				}
				if v2, _ := vkKeysRun(base, h); v2 == "" {
					c.Add("dropped_unreproducible", 1)
					return
				}
				// the key names the offending character class of the LAST key set
				cls := "other"
				last := h[len(h)-1].Keys[len(h[len(h)-1].Keys)-1]
				for _, o := range h {
					for _, k := range o.Keys {
						if strings.ContainsAny(k, "# \t") {
							last = k
						}
					}
				}
				long := false
				for _, o := range h {
					for _, k := range o.Keys {
						long = long || len(k) > 1024
					}
				}
				bsl := false
				for _, o := range h {
					for _, k := range o.Keys {
						bsl = bsl || strings.HasSuffix(k, "\\")
					}
				}
				switch {
				case bsl:
					cls = "trailing-backslash"
				case long:
					cls = "overlong-key"
				case strings.Contains(last, "#"):
					cls = "hash-in-key"
				case strings.ContainsAny(last, " \t"):
					cls = "whitespace-in-key"
				}
				c.Violation("keys:reload-differs:"+cls, v, map[string]any{"hist": h})
				return // longer histories with this prefix add nothing
			}
		}
		if len(h) == depth || c.NumViolations() > 6 {
			return
		}
		for i, o := range ops {
			if len(h) == 0 && !c.Mine(i) {
				continue
			}
			if c.OverBudget() {
				c.Cap("time budget")
				return
			}
			rec(append(append([]vkKeyOp{}, h...), o))
		}
	}
	rec(nil)
}
