//go:build verif

package blocklist

// C18 unit "persist": every interleaving (preemption bounded) of 2-3 threads each
// performing one Set / Remove / SetBatch / RemoveBatch on overlapping keys against
// a real BlockList whose BlockListDir is a fresh directory. The package is compiled
// with sync, sync/atomic and os swapped for the vsync / vatomic / vos shims, so
// mu, saveMu and every file operation of persist() are scheduling points.
//
// Set/Remove/SetBatch/RemoveBatch call persist() synchronously on the caller's
// goroutine (no `go` statement, no timer on that path), so the managed threads
// drive the real API directly.

import (
	"encoding/json"
	"fmt"
	"github.com/miekg/dns"
	"os" // the REAL os: only the package under test sees vos
	"path/filepath"
	"sort"
	"strings"
	"testing"

	"github.com/semihalev/sdns/internal/verifshim/sched"
	"github.com/semihalev/sdns/internal/verifshim/vkit"
	"github.com/semihalev/sdns/internal/verifshim/vos"
)

// ---------------------------------------------------------------- API operations + set model

type vkPOp struct {
	Op   string   `json:"op"` // set | remove | setbatch | removebatch
	Keys []string `json:"keys"`
}

func (o vkPOp) String() string { return o.Op + "(" + strings.Join(o.Keys, ",") + ")" }

// vkApplyReal runs the operation on the real object; bools are returned as 0/1.
func vkApplyReal(b *BlockList, o vkPOp) int {
	switch o.Op {
	case "set":
		if b.Set(o.Keys[0]) {
			return 1
		}
		return 0
	case "remove":
		if b.Remove(o.Keys[0]) {
			return 1
		}
		return 0
	case "setbatch":
		return b.SetBatch(o.Keys)
	case "removebatch":
		return b.RemoveBatch(o.Keys)
	case "refresh": // the one-off start-up refresh itself (no remote lists configured; unit "refresh" removes its 1 s start delay by an overlay patch)
		b.refreshRemote()
		return 0
	}
	panic("vk: unknown op " + o.Op)
}

func vkCanon(k string) string {
	k = strings.ToLower(k)
	if !strings.HasSuffix(k, ".") {
		k += "."
	}
	return k
}

func vkWhitelisted(white []string, key string) bool {
	kl := vkLabelsOf(key) // a "*" label is just a label here: "*.x." sits below "x."
	for _, w := range white {
		if vkCovers(vkLabelsOf(w), kl) != 0 {
			return true
		}
	}
	return false
}

// vkModel is the reference list: a set of entries in file form ("x." / "*.x.").
type vkModel map[string]bool

func (m vkModel) clone() vkModel {
	c := vkModel{}
	for k := range m {
		c[k] = true
	}
	return c
}

func (m vkModel) sorted() []string {
	out := make([]string, 0, len(m))
	for k := range m {
		out = append(out, k)
	}
	sort.Strings(out)
	return out
}

// apply returns the result the API must report: additions of names the whitelist
// covers are refused (they could never take effect), re-adding is an addition,
// removal reports whether the entry was listed.
func (m vkModel) apply(o vkPOp, white []string) int {
	n := 0
	switch o.Op {
	case "set", "setbatch":
		for _, k := range o.Keys {
			k = vkCanon(k)
			if vkWhitelisted(white, k) {
				continue
			}
			m[k] = true
			n++
		}
	case "remove", "removebatch":
		for _, k := range o.Keys {
			k = vkCanon(k)
			if m[k] {
				delete(m, k)
				n++
			}
		}
	}
	return n
}

// vkListOf turns file-form entries + whitelist into a reference list.
func vkListOf(entries []string, white []string) vkList {
	l := vkList{White: white}
	for _, e := range entries {
		if strings.HasPrefix(e, "*.") {
			l.Wild = append(l.Wild, e[2:])
		} else {
			l.Plain = append(l.Plain, e)
		}
	}
	return l
}

// ---------------------------------------------------------------- the persisted file

// vkParseLocal does a line-level parse of a persisted list: comment lines are
// skipped, every other line must be one complete entry. ok=false when the file is
// not a whole number of well-formed lines (i.e. partial) or repeats an entry.
func vkParseLocal(content []byte) (entries []string, ok bool, why string) {
	if len(content) == 0 {
		return nil, true, ""
	}
	if content[len(content)-1] != '\n' {
		return nil, false, "last line is not terminated"
	}
	seen := map[string]bool{}
	for _, ln := range strings.Split(strings.TrimSuffix(string(content), "\n"), "\n") {
		if strings.HasPrefix(ln, "#") {
			continue
		}
		if ln == "" || strings.ContainsAny(ln, " \t#") || !strings.HasSuffix(ln, ".") {
			return nil, false, fmt.Sprintf("malformed line %q", ln)
		}
		if seen[ln] {
			return nil, false, fmt.Sprintf("entry %q appears twice", ln)
		}
		seen[ln] = true
		entries = append(entries, ln)
	}
	sort.Strings(entries)
	return entries, true, ""
}

func vkReadLocal(dir string) ([]byte, bool) {
	b, err := os.ReadFile(filepath.Join(dir, "local"))
	if err != nil {
		return nil, false
	}
	return b, true
}

// vkLoad is a "restart": a fresh BlockList with the same configuration reading dir
// with the package's own loader; the loader's error is returned.
func vkLoad(dir string, white []string) (*BlockList, error) {
	b := vkBuild(vkList{White: white}, "/nonexistent/verif-c18")
	b.cfg.BlockListDir = dir
	return b, b.readBlocklists()
}

var vkQueryAlphabet = vkNames(4, true)

// vkBehaviourMemo: Exists() reads nothing but the three maps, so the verdict for a
// given (reloaded lists, original lists, expected entries, whitelist) is computed on
// the real objects once and remembered (final states repeat across schedules).
var vkBehaviourMemo = map[string]string{}

// vkSameBehaviour compares two instances (and the reference on `entries`) on the whole query alphabet.
func vkSameBehaviour(fresh, orig *BlockList, entries, white []string) string {
	key := strings.Join(vkMem(fresh), " ") + "|"
	if orig != nil {
		key += strings.Join(vkMem(orig), " ")
	} else {
		key += "-"
	}
	key += "|" + strings.Join(entries, " ") + "|" + strings.Join(white, " ")
	if v, ok := vkBehaviourMemo[key]; ok {
		return v
	}
	v := vkSameBehaviourSlow(fresh, orig, entries, white)
	vkBehaviourMemo[key] = v
	return v
}

func vkSameBehaviourSlow(fresh, orig *BlockList, entries, white []string) string {
	ref := vkListOf(entries, white)
	for _, q := range vkQueryAlphabet {
		want := vkRefBlocked(ref, q)
		if orig != nil {
			if got := orig.Exists(q); got != want {
				return fmt.Sprintf("in-memory instance: Exists(%q)=%v but the reference on its own lists %v says %v", q, got, ref, want)
			}
		}
		if got := fresh.Exists(q); got != want {
			return fmt.Sprintf("after reload Exists(%q)=%v, but the in-memory lists %v give %v", q, got, ref, want)
		}
	}
	return ""
}

// vkWriteOrdered writes entries as a `local` file in the given order into a new dir.
func vkWriteOrdered(base string, entries []string) (string, error) {
	d, err := os.MkdirTemp(base, "o")
	if err != nil {
		return "", err
	}
	var sb strings.Builder
	sb.WriteString("# The file generated by auto. DO NOT EDIT\n")
	for _, e := range entries {
		sb.WriteString(e + "\n")
	}
	return d, os.WriteFile(filepath.Join(d, "local"), []byte(sb.String()), 0o644)
}

// vkParentFirst orders entries so every entry comes after all entries that cover
// it (fewest labels first; a plain entry before the wildcard of the same name).
// persist() writes in map-iteration order, so every order is one the real code
// can produce; this is the order in which the loader skips the most.
func vkParentFirst(entries []string) []string {
	out := append([]string{}, entries...)
	depth := func(e string) int { return len(vkLabelsOf(strings.TrimPrefix(e, "*."))) }
	sort.SliceStable(out, func(i, j int) bool {
		di, dj := depth(out[i]), depth(out[j])
		if di != dj {
			return di < dj
		}
		wi, wj := strings.HasPrefix(out[i], "*."), strings.HasPrefix(out[j], "*.")
		if wi != wj {
			return !wi
		}
		return out[i] < out[j]
	})
	return out
}

func vkReversed(s []string) []string {
	out := make([]string, len(s))
	for i, x := range s {
		out[len(s)-1-i] = x
	}
	return out
}

// vkReloadVerdict is the result of the reload oracle for one final state.
type vkReloadVerdict struct {
	behaviour string // main oracle: file contents == memory, reload matches identically
	identity  string // stricter reading: reloaded list MEMBERS == in-memory list members
}

// vkReloadOracle: dir/local was persisted from b. Independent of the (map-order
// dependent) line order the real code happened to write: the identity question is
// asked for the parent-first order, behaviour for the actual, parent-first and
// child-first orders.
func vkReloadOracle(base, dir string, b *BlockList, white []string, cache map[string]vkReloadVerdict) vkReloadVerdict {
	mem := vkMem(b)
	content, exists := vkReadLocal(dir)
	if !exists && len(mem) > 0 {
		return vkReloadVerdict{behaviour: fmt.Sprintf("no persisted file although the in-memory list is %v", mem)}
	}
	fileEntries, ok, why := vkParseLocal(content)
	if !ok {
		return vkReloadVerdict{behaviour: fmt.Sprintf("persisted file is not a complete list (%s): %q", why, content)}
	}
	if strings.Join(fileEntries, " ") != strings.Join(mem, " ") {
		return vkReloadVerdict{behaviour: fmt.Sprintf("persisted file lists %v but the in-memory list is %v", fileEntries, mem)}
	}
	fresh, err := vkLoad(dir, white)
	if err != nil {
		return vkReloadVerdict{behaviour: "reload of the blocklist directory failed: " + err.Error()}
	}
	if v := vkSameBehaviour(fresh, b, mem, white); v != "" {
		if ents, _ := os.ReadDir(dir); len(ents) > 1 {
			var n []string
			for _, e := range ents {
				n = append(n, e.Name())
			}
			v += fmt.Sprintf(" (directory holds %v)", n)
		}
		return vkReloadVerdict{behaviour: v}
	}
	key := strings.Join(mem, " ") + "|" + strings.Join(white, " ")
	if v, ok := cache[key]; ok {
		if ents, _ := os.ReadDir(dir); len(ents) <= 1 {
			return v
		}
	}
	var verdict vkReloadVerdict
	for pass, order := range [][]string{vkParentFirst(mem), vkReversed(vkParentFirst(mem))} {
		d, err := vkWriteOrdered(base, order)
		if err != nil {
			return vkReloadVerdict{behaviour: "harness: " + err.Error()}
		}
		f2, err := vkLoad(d, white)
		if err != nil {
			verdict.behaviour = "reload failed: " + err.Error()
		} else if v := vkSameBehaviour(f2, nil, mem, white); v != "" {
			verdict.behaviour = fmt.Sprintf("file order %v: %s", order, v)
		} else if pass == 0 {
			if got := vkMem(f2); strings.Join(got, " ") != strings.Join(mem, " ") {
				verdict.identity = fmt.Sprintf("in-memory list %v persisted (line order %v, one of the map-iteration orders persist() can produce) reloads as %v", mem, order, got)
			}
		}
		_ = os.RemoveAll(d)
	}
	cache[key] = verdict
	// A file left behind next to the list is parsed as a list by every later restart.
	// It is judged by its effect only: remove everything through the API, restart —
	// nothing may be blocked any more.
	if ents, _ := os.ReadDir(dir); len(ents) > 1 && verdict.behaviour == "" {
		var n []string
		for _, e := range ents {
			n = append(n, e.Name())
		}
		b.RemoveBatch(mem)
		if f3, err := vkLoad(dir, white); err == nil {
			if v := vkSameBehaviour(f3, b, nil, white); v != "" {
				verdict.behaviour = fmt.Sprintf("after removing every entry %v through the API a restart still blocks names (directory holds %v): %s", mem, n, v)
			}
		}
	}
	return verdict
}

const vkIdentityKey = "reload-identity:entry-covered-by-listed-parent-is-not-reloaded"

// ---------------------------------------------------------------- scheduled scenarios

type vkPScenario struct {
	Name    string   `json:"name"`
	Bound   int      `json:"bound"`
	White   []string `json:"white"`
	Prefill []string `json:"prefill"`
	Threads []vkPOp  `json:"threads"`
	// Fresh: a first start — the configured blocklist directory does not exist yet (sdns creates it itself,
	// in the start-up refresh)
	Fresh bool `json:"fresh,omitempty"`
}

func (s vkPScenario) String() string {
	var t []string
	for i, o := range s.Threads {
		t = append(t, fmt.Sprintf("T%d=%v", i, o))
	}
	if s.Fresh {
		return fmt.Sprintf("white=%v first-start(no directory yet) %s", s.White, strings.Join(t, " "))
	}
	return fmt.Sprintf("white=%v pre=%v %s", s.White, s.Prefill, strings.Join(t, " "))
}

type vkPSide struct {
	base     string
	cache    map[string]vkReloadVerdict
	identity string // first (simplest) reload-identity counterexample
	idState  []string
	idWhite  []string
	rig      *vkRig
}

// vkLinearizable: is there an order of the (atomic) operations whose model results
// equal the observed results and whose final model state equals final?
func vkLinearizable(init vkModel, white []string, ops []vkPOp, results []int, final []string) bool {
	n := len(ops)
	perm := make([]int, 0, n)
	used := make([]bool, n)
	var rec func(m vkModel) bool
	rec = func(m vkModel) bool {
		if len(perm) == n {
			return strings.Join(m.sorted(), " ") == strings.Join(final, " ")
		}
		for i := 0; i < n; i++ {
			if used[i] {
				continue
			}
			m2 := m.clone()
			if m2.apply(ops[i], white) != results[i] {
				continue
			}
			used[i] = true
			perm = append(perm, i)
			ok := rec(m2)
			perm = perm[:len(perm)-1]
			used[i] = false
			if ok {
				return true
			}
		}
		return false
	}
	return rec(init)
}

func vkPersistScenarioFn(sc vkPScenario, side *vkPSide) sched.Scenario {
	return func(r *sched.Run) func() (string, string) {
		dir, err := os.MkdirTemp(side.base, "p")
		if err != nil {
			panic("vk: " + err.Error())
		}
		vos.Plan = nil
		top := dir
		if sc.Fresh {
			dir = filepath.Join(dir, "blocklists")
		}
		b := vkBuild(vkList{White: sc.White}, dir)
		if len(sc.Prefill) > 0 {
			b.SetBatch(sc.Prefill) // sequential, before the threads exist: writes the initial `local`
		}
		init := vkModel{}
		for _, e := range vkMem(b) {
			init[e] = true
		}
		seen := map[string]bool{strings.Join(vkMem(b), " "): true}
		installed, installedExists := vkReadLocal(dir) // the complete list currently in place
		results := make([]int, len(sc.Threads))
		plan := vos.NewPlan()
		vos.Plan = plan
		localPath := filepath.Join(dir, "local")
		logged := 0
		// At every scheduling point (= every possible interruption of the process) the
		// list on disk must be the complete list last put in place. vos logs an operation
		// right before executing it and every operation is preceded by a scheduling point,
		// so each monitor call sees at most one new, already executed, operation. A rename
		// onto `local` installs a new list — which must be complete and one the blocklist
		// held in memory; after any other operation naming `local` its bytes must be unchanged.
		// (Judged on bytes and on entry SETS only: independent of map-iteration order.)
		r.Monitor = func() string {
			seen[strings.Join(vkMem(b), " ")] = true
			for ; logged < len(plan.Log); logged++ {
				op := plan.Log[logged]
				if op.Fail || (op.Path != localPath && op.Path2 != localPath) {
					continue
				}
				content, ok := vkReadLocal(dir)
				if op.Kind == "rename" && op.Path2 == localPath {
					if !ok {
						return "the persisted list does not exist right after a rename onto it"
					}
					ents, wf, why := vkParseLocal(content)
					if !wf {
						return fmt.Sprintf("a partial list was renamed into place (%s): %q", why, content)
					}
					if !seen[strings.Join(ents, " ")] {
						return fmt.Sprintf("the list renamed into place %v is not a list the blocklist ever held in memory", ents)
					}
					installed, installedExists = content, true
					continue
				}
				if ok != installedExists || string(content) != string(installed) {
					return fmt.Sprintf("mid-update (after %s of the list file itself) the persisted list is no longer the last complete one: an interruption now leaves a partial file", op.Kind)
				}
			}
			return ""
		}
		for ti, op := range sc.Threads {
			ti, op := ti, op
			r.Go(fmt.Sprintf("T%d", ti), func() { results[ti] = vkApplyReal(b, op) })
		}
		return func() (string, string) {
			vos.Plan = nil
			defer os.RemoveAll(top)
			mem := vkMem(b)
			outcome := fmt.Sprintf("mem=%v res=%v lastPersisted=%d/%d", mem, results, b.lastPersisted, b.version)
			if !vkLinearizable(init, sc.White, sc.Threads, results, mem) {
				return fmt.Sprintf("final in-memory list %v with results %v is not explained by any order of the operations from %v", mem, results, init.sorted()), outcome
			}
			// the serving path itself (not only Exists): once the operations have completed, a query for
			// every listed name is answered by the blocklist and a name that is not listed passes — whatever
			// bookkeeping ServeDNS keeps next to the maps must agree with them under every schedule
			if side.rig == nil {
				side.rig = vkNewRig()
			}
			ref := vkListOf(mem, sc.White)
			probes := append([]string{"never-listed.example."}, mem...)
			for _, e := range probes {
				q := strings.TrimPrefix(e, "*.")
				if strings.HasPrefix(e, "*.") {
					q = "sub." + q
				}
				want := vkRefBlocked(ref, q)
				if sv, _ := side.rig.vkServe(b, q, dns.TypeA, want); sv != "" {
					return fmt.Sprintf("at quiescence the in-memory list is %v but ServeDNS(%s A): %s", mem, q, sv), outcome
				}
			}
			v := vkReloadOracle(side.base, dir, b, sc.White, side.cache)
			if v.identity != "" && side.identity == "" {
				side.identity = v.identity
				side.idState = mem
				side.idWhite = sc.White
			}
			return v.behaviour, outcome
		}
	}
}

var (
	vkWhite = []string{"a.notb."}
)

func vkPersistOps(thorough bool) []vkPOp {
	ops := []vkPOp{
		{Op: "set", Keys: []string{"a.b."}},
		{Op: "set", Keys: []string{"B."}},
		{Op: "set", Keys: []string{"*.b."}},
		{Op: "remove", Keys: []string{"b."}},
		{Op: "remove", Keys: []string{"a.b."}},
		{Op: "setbatch", Keys: []string{"a.b.", "notb."}},
		{Op: "removebatch", Keys: []string{"b.", "notb."}},
		{Op: "remove", Keys: []string{"*.B."}},
	}
	if thorough {
		ops = append(ops,
			vkPOp{Op: "set", Keys: []string{"b.a.notb."}},               // whitelisted: refused, nothing persisted
			vkPOp{Op: "setbatch", Keys: []string{"notb.", "b.a.notb."}}, // partly refused
			vkPOp{Op: "removebatch", Keys: []string{"a.b.", "*.b."}},
			vkPOp{Op: "set", Keys: []string{"notb"}},
		)
	}
	return ops
}

// vkPersistScenarios: every multiset of two and of three single-operation threads.
// quick: 8 operations; pairs on 3 initial lists, triples on 2; preemption bound 2.
// thorough: 12 operations; pairs on 3 initial lists at bound 3; triples on 3 initial
// lists at bound 2, and the triples of the 8 quick operations on one list at bound 3.
func vkPersistScenarios(thorough bool) []vkPScenario {
	quickOps := vkPersistOps(false)
	ops := vkPersistOps(thorough)
	prefills := [][]string{{"b.", "notb."}, nil, {"a.b.", "*.b."}}
	var out []vkPScenario
	pairs := func(ops []vkPOp, p []string, bound int) {
		for a := 0; a < len(ops); a++ {
			for b := a; b < len(ops); b++ {
				out = append(out, vkPScenario{Bound: bound, White: vkWhite, Prefill: p, Threads: []vkPOp{ops[a], ops[b]}})
			}
		}
	}
	triples := func(ops []vkPOp, p []string, bound int) {
		for a := 0; a < len(ops); a++ {
			for b := a; b < len(ops); b++ {
				for c := b; c < len(ops); c++ {
					out = append(out, vkPScenario{Bound: bound, White: vkWhite, Prefill: p, Threads: []vkPOp{ops[a], ops[b], ops[c]}})
				}
			}
		}
	}
	if !thorough {
		for _, p := range prefills {
			pairs(ops, p, 2)
		}
		for _, p := range prefills[:2] {
			triples(ops, p, 2)
		}
	} else {
		for _, p := range prefills {
			pairs(ops, p, 3)
		}
		for _, p := range prefills {
			triples(ops, p, 2)
		}
		triples(quickOps, prefills[0], 3)
	}
	for i := range out {
		out[i].Name = fmt.Sprintf("persist-%d", i)
	}
	return out
}

func vkBaseDir() string {
	for _, d := range []string{"/dev/shm", os.TempDir()} {
		if st, err := os.Stat(d); err == nil && st.IsDir() {
			if b, err := os.MkdirTemp(d, "verif-c18-"); err == nil {
				return b
			}
		}
	}
	panic("vk: no scratch directory")
}

func TestVerifC18Persist(t *testing.T) {
	c := vkit.Init("C18/persist")
	defer c.Close()
	vkQuietLogs()
	base := vkBaseDir()
	defer os.RemoveAll(base)
	defer func() { vos.Plan = nil }()
	side := &vkPSide{base: base, cache: map[string]vkReloadVerdict{}}
	if c.Replay != nil {
		var r struct {
			Unit     string      `json:"unit"`
			Scenario vkPScenario `json:"scenario"`
			Choices  []int       `json:"choices"`
			Entries  []string    `json:"entries"`
			White    []string    `json:"white"`
		}
		if err := json.Unmarshal(c.Replay, &r); err != nil {
			c.HarnessError("bad replay: " + err.Error())
			return
		}
		if r.Unit == "identity" {
			if v := vkIdentityReplay(base, r.Entries, r.White); v != "" {
				c.Violation(vkIdentityKey, v, nil)
			}
			return
		}
		run, v, _ := sched.RunOnce(sched.Config{Name: r.Scenario.Name, KeepTrace: true, Horizon: 5000}, vkPersistScenarioFn(r.Scenario, side), r.Choices)
		if run.Diverged != "" {
			c.HarnessError("replay diverged: " + run.Diverged)
			return
		}
		if v != "" {
			c.Violation("persist:"+r.Scenario.String()+":"+vkFirstLine(v), v+"\n  trace: "+strings.Join(run.Trace, " "), nil)
		}
		return
	}
	scs := vkPersistScenarios(c.Thorough())
	c.Note(fmt.Sprintf("persist: %d scenarios (multisets of 2 and of 3 single-operation threads over %d operations, up to 3 initial lists), whitelist %v",
		len(scs), len(vkPersistOps(c.Thorough())), vkWhite))
	for i, sc := range scs {
		if !c.Mine(i) {
			continue
		}
		if c.OverBudget() {
			c.Cap(fmt.Sprintf("persist: time budget reached after scenario %d of %d in this shard's stride", i, len(scs)))
			break
		}
		res := sched.Explore(sched.Config{Name: sc.Name, Bound: sc.Bound, Horizon: 5000, Stop: c.OverBudget}, vkPersistScenarioFn(sc, side))
		if res.HarnessErr != "" {
			c.HarnessError(res.HarnessErr)
			return
		}
		c.Add("evaluations", int64(res.Executions))
		c.Add("traces", int64(res.Executions))
		c.Add("transitions", int64(res.Points))
		c.Add("scenarios", 1)
		c.Max("max_points", int64(res.MaxPoints))
		if !res.Exhaustive {
			c.Cap("persist: exploration of " + sc.Name + " stopped by the time budget")
		}
		for o := range res.Outcomes {
			if c.DistinctStr("states", "persist|"+sc.String()+"|"+o) && len(res.Outcomes) > 1 {
				c.DistinctStr("nontrivial", "persist|"+sc.String()+"|"+o)
			}
		}
		c.Outcome(fmt.Sprintf("persist:threads=%d bound=%d outcomes=%d", len(sc.Threads), sc.Bound, len(res.Outcomes)))
		if i%61 == 0 {
			c.Sample(map[string]any{"unit": "persist", "scenario": sc.String(), "schedules": res.Executions, "distinct_outcomes": len(res.Outcomes), "max_points": res.MaxPoints, "preemption_bound": sc.Bound})
		}
		for _, v := range res.Violations {
			c.Violation("persist:"+sc.String()+":"+vkFirstLine(v.Message), fmt.Sprintf("%s\n  scenario: %s\n  schedule=%v\n  trace: %s", v.Message, sc, v.Choices, strings.Join(v.Trace, " ")),
				map[string]any{"unit": "persist", "scenario": sc, "choices": v.Choices})
			break
		}
		if c.NumViolations() >= 8 {
			break
		}
	}
	if side.identity != "" {
		// confirm sequentially on fresh objects
		if v := vkIdentityReplay(base, side.idState, side.idWhite); v != "" {
			c.Violation(vkIdentityKey, v, map[string]any{"unit": "identity", "entries": side.idState, "white": side.idWhite})
		} else {
			c.HarnessError("reload-identity counterexample did not reproduce sequentially: " + side.identity)
		}
	}
}

// vkIdentityReplay: SetBatch(entries) through the real API into a fresh directory,
// rewrite the persisted lines parent-first (an order persist() can produce), reload.
func vkIdentityReplay(base string, entries, white []string) string {
	dir, err := os.MkdirTemp(base, "i")
	if err != nil {
		return ""
	}
	defer os.RemoveAll(dir)
	b := vkBuild(vkList{White: white}, dir)
	b.SetBatch(entries)
	v := vkReloadOracle(base, dir, b, white, map[string]vkReloadVerdict{})
	if v.behaviour != "" {
		return "behaviour: " + v.behaviour
	}
	return v.identity
}

// vkFirstLine reduces a message to its stable class (text before the first detail).
func vkFirstLine(s string) string {
	s = strings.TrimPrefix(s, "monitor: ")
	if i := strings.IndexAny(s, "\n([:"); i > 0 {
		s = s[:i]
	}
	if len(s) > 120 {
		s = s[:120]
	}
	return strings.TrimSpace(s)
}
