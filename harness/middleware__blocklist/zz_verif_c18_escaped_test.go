//go:build verif

package blocklist

// C18 unit "escaped": "compared case-insensitively on WHOLE LABELS" for names whose labels
// contain a dot. On the wire a label is a length-prefixed byte string and may hold any
// byte; in the presentation form the resolver hands around, a dot inside a label is
// written `\.` (and a backslash `\\`). `x\.b.` is ONE label under the root — it is not a
// child of `b.`. Every list of <= 2 entries (+ <= 1 whitelist entry) over names built from
// the labels {a, b, `x\.b`, `a\.b`, `x\\`} is compared on every query name over the same
// labels (depth <= 2, thorough <= 3) with a reference that splits labels the way the DNS
// presentation format defines (a backslash escapes the next character), through the real
// configuration path, Exists and ServeDNS.

import (
	"encoding/json"
	"fmt"
	"strings"
	"testing"

	"github.com/miekg/dns"
	"github.com/semihalev/sdns/internal/verifshim/vkit"
)

var vkEscLabels = []string{"a", "b", `x\.b`, `a\.b`, `x\\`}

// vkEscSplit splits a presentation-format name on UNESCAPED dots.
func vkEscSplit(fqdn string) []string {
	s := strings.ToLower(fqdn)
	var labels []string
	cur := strings.Builder{}
	for i := 0; i < len(s); i++ {
		switch {
		case s[i] == '\\' && i+1 < len(s):
			cur.WriteByte(s[i])
			cur.WriteByte(s[i+1])
			i++
		case s[i] == '.':
			labels = append(labels, cur.String())
			cur.Reset()
		default:
			cur.WriteByte(s[i])
		}
	}
	if cur.Len() > 0 {
		labels = append(labels, cur.String())
	}
	return labels
}

func vkEscBlocked(l vkList, q string) bool {
	ql := vkEscSplit(q)
	for _, w := range l.White {
		if vkCovers(vkEscSplit(w), ql) != 0 {
			return false
		}
	}
	for _, p := range l.Plain {
		if vkCovers(vkEscSplit(p), ql) != 0 {
			return true
		}
	}
	for _, w := range l.Wild {
		if vkCovers(vkEscSplit(w), ql) == 2 {
			return true
		}
	}
	return false
}

func vkEscNames(depth int) []string {
	var out []string
	level := []string{""}
	for d := 1; d <= depth; d++ {
		var next []string
		for _, suffix := range level {
			for _, l := range vkEscLabels {
				next = append(next, l+"."+suffix)
			}
		}
		out = append(out, next...)
		level = next
	}
	return out
}

type vkEscCase struct {
	List  vkList `json:"list"`
	Query string `json:"query"`
}

func vkEscRun(rig *vkRig, cs vkEscCase) string {
	b := vkBuild(cs.List, "/nonexistent/verif-c18-esc")
	want := vkEscBlocked(cs.List, cs.Query)
	if got := b.Exists(cs.Query); got != want {
		return fmt.Sprintf("list %v: Exists(%q)=%v but on whole labels %v (labels of the query: %q) the answer is %v", cs.List, cs.Query, got, cs.List, vkEscSplit(cs.Query), want)
	}
	if v, _ := rig.vkServe(b, cs.Query, dns.TypeA, want); v != "" {
		return fmt.Sprintf("list %v: ServeDNS(%q A): %s", cs.List, cs.Query, v)
	}
	return ""
}

func TestVerifC18Escaped(t *testing.T) {
	c := vkit.Init("C18/escaped")
	defer c.Close()
	vkQuietLogs()
	rig := vkNewRig()
	if c.Replay != nil {
		var cs vkEscCase
		if json.Unmarshal(c.Replay, &cs) != nil {
			c.HarnessError("bad replay")
			return
		}
		if v := vkEscRun(rig, cs); v != "" {
			c.Violation("escaped:replay", v, cs)
		}
		return
	}
	// sanity of the alphabet: the library parses every name into the labels the reference sees
	for _, n := range vkEscNames(2) {
		lib := dns.SplitDomainName(n)
		ref := vkEscSplit(n)
		if len(lib) != len(ref) {
			c.HarnessError(fmt.Sprintf("reference splitter disagrees with the DNS library on %q: %q vs %q", n, ref, lib))
			return
		}
	}
	entryNames := vkEscNames(2)
	qdepth := 2
	if c.Thorough() {
		qdepth = 3
	}
	queries := vkEscNames(qdepth)
	type ent struct {
		name string
		kind int // 0 plain, 1 wildcard, 2 whitelist
	}
	var ents []ent
	for _, n := range entryNames {
		ents = append(ents, ent{n, 0}, ent{n, 1})
	}
	mk := func(es ...ent) vkList {
		var l vkList
		for _, e := range es {
			switch e.kind {
			case 0:
				l.Plain = append(l.Plain, e.name)
			case 1:
				l.Wild = append(l.Wild, e.name)
			case 2:
				l.White = append(l.White, e.name)
			}
		}
		return l
	}
	var lists []vkList
	for _, e := range ents {
		lists = append(lists, mk(e))
	}
	for i, e1 := range ents {
		for _, e2 := range ents[i+1:] {
			lists = append(lists, mk(e1, e2))
		}
		for _, wn := range entryNames {
			lists = append(lists, mk(e1, ent{wn, 2}))
		}
	}
	for i, l := range lists {
		if !c.Mine(i) {
			continue
		}
		if c.OverBudget() {
			c.Cap("time budget")
			break
		}
		blocked, free := 0, 0
		for _, q := range queries {
			cs := vkEscCase{List: l, Query: q}
			v := vkEscRun(rig, cs)
			c.Add("evaluations", 1)
			if vkEscBlocked(l, q) {
				blocked++
			} else {
				free++
			}
			if v != "" {
				if v2 := vkEscRun(vkNewRig(), cs); v2 == "" {
					c.Add("dropped_unreproducible", 1)
					continue
				}
				kind := "blocked-without-a-listed-parent"
				if vkEscBlocked(l, q) {
					kind = "listed-name-not-blocked"
				}
				c.Violation("escaped:"+kind, v, cs)
				if c.NumViolations() > 6 {
					return
				}
				break
			}
		}
		c.Outcome(fmt.Sprintf("blocked=%v free=%v", blocked > 0, free > 0))
		if blocked > 0 && free > 0 {
			c.DistinctStr("nontrivial", l.String())
		}
		if i%97 == 0 {
			c.Sample(map[string]any{"list": l.String(), "blocked": blocked, "free": free})
		}
	}
}
